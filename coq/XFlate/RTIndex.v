(* C05 part A: the index payload round trip. uvarint / put_uvarint, the VLI reader, the
   (csize, rsize) list, the CRC field, and the record table rebuilt by [append_chunks]:
   [decode_index] applied to a region that holds [meta_encode (index_payload back recs)
   FinalMeta] returns [(recs, back)]. *)
From V Require Import Base.Prelude Base.Prog Meta.Model Flate.Spec
  XFlate.Index XFlate.Writer XFlate.Reader XFlate.Refine XFlate.RefineCheck XFlate.RoundTripStmt.
From Coq Require Import ZifyBool ZifyN ZifyNat.
Local Open Scope N_scope.

Definition bytes_lt (l : list byte) : Prop := forall b, In b l -> b < 256.

Lemma bytes_lt_nil : bytes_lt [].
Proof. intros b []. Qed.

Lemma bytes_lt_app a b : bytes_lt a -> bytes_lt b -> bytes_lt (a ++ b).
Proof. intros Ha Hb x Hx. apply in_app_or in Hx. destruct Hx; auto. Qed.

Lemma bytes_lt_app_l a b : bytes_lt (a ++ b) -> bytes_lt a.
Proof. intros H x Hx. apply H. apply in_or_app. auto. Qed.

Lemma bytes_lt_app_r a b : bytes_lt (a ++ b) -> bytes_lt b.
Proof. intros H x Hx. apply H. apply in_or_app. auto. Qed.

Lemma bytes_lt_cons x l : x < 256 -> bytes_lt l -> bytes_lt (x :: l).
Proof. intros Hx Hl y [<-|Hy]; auto. Qed.

(* ---- N bit facts ----------------------------------------------------------- *)
Lemma lor_shiftl_add a b s : a < 2 ^ s -> N.lor a (N.shiftl b s) = a + b * 2 ^ s.
Proof.
  intros Ha. rewrite N.shiftl_mul_pow2.
  assert (Hl : N.land a (b * 2 ^ s) = 0).
  { apply N.bits_inj_iff. intros n. rewrite N.land_spec, N.bits_0.
    destruct (N.ltb_spec n s) as [Hn|Hn].
    - rewrite N.mul_pow2_bits_low by exact Hn. apply andb_false_r.
    - rewrite <- (N.mod_small a (2 ^ s)) by exact Ha.
      rewrite N.mod_pow2_bits_high by exact Hn. reflexivity. }
  rewrite <- N.lxor_lor by exact Hl. symmetry. apply N.add_nocarry_lxor. exact Hl.
Qed.

Lemma lxor_lt_pow2 a b n : a < 2 ^ n -> b < 2 ^ n -> N.lxor a b < 2 ^ n.
Proof.
  intros Ha Hb.
  destruct (N.eq_dec (N.lxor a b) 0) as [E|E].
  - rewrite E. apply N.neq_0_lt_0. apply N.pow_nonzero. discriminate.
  - apply N.log2_lt_pow2; [lia|].
    eapply N.le_lt_trans; [apply N.log2_lxor|].
    apply N.max_lub_lt.
    + destruct (N.eq_dec a 0) as [->|Ha0].
      * cbn. destruct (N.eq_dec n 0) as [->|]; [|lia].
        cbn in Ha, Hb. assert (a0 : b = 0) by lia. subst. cbn in E. congruence.
      * apply N.log2_lt_pow2; lia.
    + destruct (N.eq_dec b 0) as [->|Hb0].
      * cbn. destruct (N.eq_dec n 0) as [->|]; [|lia].
        cbn in Ha. assert (a0 : a = 0) by lia. subst. cbn in E. congruence.
      * apply N.log2_lt_pow2; lia.
Qed.

(* ---- uvarint ---------------------------------------------------------------- *)
Lemma put_uvarint_fuel_bytes f x : bytes_lt (put_uvarint_fuel f x).
Proof.
  revert x. induction f as [|f IH]; intros x; cbn [put_uvarint_fuel]; [apply bytes_lt_nil|].
  destruct (N.ltb_spec x 128) as [H|H].
  - apply bytes_lt_cons; [lia | apply bytes_lt_nil].
  - apply bytes_lt_cons; [|apply IH].
    assert (x mod 128 < 128) by (apply N.mod_lt; discriminate). lia.
Qed.

Lemma put_uvarint_bytes x : bytes_lt (put_uvarint x).
Proof. apply put_uvarint_fuel_bytes. Qed.

Lemma put_uvarint_fuel_len f x : (1 <= f)%nat ->
  (1 <= length (put_uvarint_fuel f x) <= f)%nat.
Proof.
  revert x. induction f as [|f IH]; intros x Hf; [lia|].
  cbn [put_uvarint_fuel]. destruct (x <? 128); cbn [length]; [lia|].
  destruct f as [|f']; [cbn; lia|]. specialize (IH (x / 128) ltac:(lia)). lia.
Qed.

Lemma put_uvarint_len x : (1 <= length (put_uvarint x) <= 10)%nat.
Proof. apply put_uvarint_fuel_len. lia. Qed.

Lemma uvarint_loop_put f : forall x rest i acc s,
  (i + f = 10)%nat -> (1 <= f)%nat ->
  x * 2 ^ (7 * N.of_nat i) < 2 ^ 64 ->
  s = 7 * N.of_nat i -> acc < 2 ^ s ->
  uvarint_loop (put_uvarint_fuel f x ++ rest) i acc s =
  (acc + x * 2 ^ s, Z.of_nat (i + length (put_uvarint_fuel f x))).
Proof.
  induction f as [|f IH]; intros x rest i acc s Hif Hf Hx Hs Hacc; [lia|].
  cbn [put_uvarint_fuel].
  assert (Hi10 : Nat.eqb i 10 = false) by (apply Nat.eqb_neq; lia).
  destruct (N.ltb_spec x 128) as [Hlt|Hge].
  - cbn [app uvarint_loop length]. rewrite Hi10.
    replace (x <? 128) with true by (symmetry; apply N.ltb_lt; exact Hlt).
    assert (Hguard : Nat.eqb i 9 && (1 <? x) = false).
    { destruct (Nat.eqb_spec i 9) as [->|]; [|reflexivity].
      cbn [andb]. apply N.ltb_ge.
      change (7 * N.of_nat 9) with 63 in Hx.
      change (2 ^ 64) with (2 * 2 ^ 63) in Hx.
      assert (0 < 2 ^ 63) by reflexivity. nia. }
    rewrite Hguard. rewrite lor_shiftl_add by exact Hacc.
    f_equal. lia.
  - assert (Hi8 : (i <= 8)%nat).
    { destruct (Nat.le_gt_cases i 8) as [|Hi9]; [assumption|].
      assert (i = 9)%nat by lia. subst i.
      change (7 * N.of_nat 9) with 63 in Hx.
      change (2 ^ 64) with (2 * 2 ^ 63) in Hx.
      assert (0 < 2 ^ 63) by reflexivity. nia. }
    cbn [app uvarint_loop length]. rewrite Hi10.
    assert (Hm : x mod 128 < 128) by (apply N.mod_lt; discriminate).
    replace (128 + x mod 128 <? 128) with false by (symmetry; apply N.ltb_ge; lia).
    replace ((128 + x mod 128) mod 128) with (x mod 128)
      by (rewrite N.add_mod, N.mod_same, N.add_0_l, !N.mod_mod by discriminate; reflexivity).
    rewrite lor_shiftl_add by exact Hacc.
    assert (Hp : 2 ^ (s + 7) = 128 * 2 ^ s) by (rewrite N.pow_add_r; change (2 ^ 7) with 128; lia).
    assert (Hp0 : 0 < 2 ^ s) by (apply N.neq_0_lt_0; apply N.pow_nonzero; discriminate).
    rewrite (IH (x / 128) rest (S i) (acc + x mod 128 * 2 ^ s) (s + 7)).
    + f_equal.
      * rewrite Hp. pose proof (N.div_mod x 128 ltac:(discriminate)) as Hd. nia.
      * lia.
    + lia.
    + lia.
    + replace (7 * N.of_nat (S i)) with (7 * N.of_nat i + 7) by lia.
      rewrite <- Hs, Hp. rewrite <- Hs in Hx.
      pose proof (N.div_mod x 128 ltac:(discriminate)) as Hd. nia.
    + lia.
    + rewrite Hp. nia.
Qed.

Lemma uvarint_put x rest : x < 2 ^ 64 ->
  uvarint (put_uvarint x ++ rest) = (x, Z.of_nat (length (put_uvarint x))).
Proof.
  intros Hx. unfold uvarint, put_uvarint.
  rewrite (uvarint_loop_put 10 x rest 0 0 0);
    try lia; try reflexivity; change (7 * N.of_nat 0) with 0; change (2 ^ 0) with 1; try lia.
  f_equal. lia.
Qed.

Lemma read_vli_put x rest : x < 2 ^ 63 ->
  read_vli (put_uvarint x ++ rest) = Some (Z.of_N x, rest).
Proof.
  intros Hx. unfold read_vli.
  rewrite uvarint_put by (change (2 ^ 64) with (2 * 2 ^ 63); lia).
  pose proof (put_uvarint_len x) as Hl.
  replace (Z.of_nat (length (put_uvarint x)) <=? 0)%Z with false by (symmetry; apply Z.leb_gt; lia).
  unfold zN, maxInt64.
  replace (2 ^ 63 - 1 <? Z.of_N x)%Z with false.
  2:{ symmetry. apply Z.ltb_ge. change (2 ^ 63) with 9223372036854775808 in Hx. lia. }
  cbn [orb]. rewrite Nat2Z.id.
  rewrite skipn_app, skipn_all, Nat.sub_diag. reflexivity.
Qed.

(* ---- CRC field ---------------------------------------------------------------- *)
Lemma crc_bits_lt n : forall c, c < 2 ^ 32 -> crc_bits n c < 2 ^ 32.
Proof.
  induction n as [|n IH]; intros c Hc; cbn [crc_bits]; [exact Hc|].
  apply IH.
  assert (Hs : N.shiftr c 1 < 2 ^ 32).
  { rewrite N.shiftr_div_pow2. change (2 ^ 1) with 2.
    change (2 ^ 32) with 4294967296 in *. lia. }
  destruct (N.odd c); [|exact Hs].
  apply lxor_lt_pow2; [exact Hs | reflexivity].
Qed.

Lemma crc_fold_lt l : forall c, bytes_lt l -> c < 2 ^ 32 -> fold_left crc_byte l c < 2 ^ 32.
Proof.
  induction l as [|b l IH]; intros c Hl Hc; cbn [fold_left]; [exact Hc|].
  apply IH; [intros x Hx; apply Hl; right; exact Hx|].
  unfold crc_byte. apply crc_bits_lt. apply lxor_lt_pow2; [exact Hc|].
  assert (b < 256) by (apply Hl; left; reflexivity).
  change (2 ^ 32) with 4294967296. lia.
Qed.

Lemma crc32_lt l : bytes_lt l -> crc32 l < 2 ^ 32.
Proof.
  intros Hl. unfold crc32. apply lxor_lt_pow2; [|reflexivity].
  apply crc_fold_lt; [exact Hl | reflexivity].
Qed.

Lemma le32_dec_le32 x : x < 2 ^ 32 -> le32_dec (le32 x) = x.
Proof.
  intros Hx. unfold le32, le32_dec. change (2 ^ 32) with 4294967296 in Hx. lia.
Qed.

Lemma le32_bytes x : bytes_lt (le32 x).
Proof.
  unfold le32. intros b Hb. cbn [In] in Hb.
  destruct Hb as [<-|[<-|[<-|[<-|[]]]]]; apply N.mod_lt; discriminate.
Qed.

(* ---- record tables as cumulative sums of entries ------------------------------ *)
Local Open Scope Z_scope.

(* one table entry: (compressed size, raw size, type) *)
Definition entry := (Z * Z * Z)%type.
Definition e_c (e : entry) : Z := fst (fst e).
Definition e_r (e : entry) : Z := snd (fst e).
Definition e_t (e : entry) : Z := snd e.

Fixpoint build (c r : Z) (es : list entry) : list record :=
  match es with
  | [] => []
  | e :: rest => mkRec (c + e_c e) (r + e_r e) (e_t e) :: build (c + e_c e) (r + e_r e) rest
  end.

Definition tot_c (es : list entry) : Z := fold_right (fun e a => e_c e + a) 0 es.
Definition tot_r (es : list entry) : Z := fold_right (fun e a => e_r e + a) 0 es.

Definition entry_nonneg (e : entry) : Prop := 0 <= e_c e /\ 0 <= e_r e.

Lemma tot_c_app a b : tot_c (a ++ b) = tot_c a + tot_c b.
Proof. induction a as [|e a IH]; cbn [app tot_c fold_right]; [reflexivity|]. fold (tot_c (a ++ b)) (tot_c a). lia. Qed.
Lemma tot_r_app a b : tot_r (a ++ b) = tot_r a + tot_r b.
Proof. induction a as [|e a IH]; cbn [app tot_r fold_right]; [reflexivity|]. fold (tot_r (a ++ b)) (tot_r a). lia. Qed.

Lemma tot_c_nonneg es : Forall entry_nonneg es -> 0 <= tot_c es.
Proof. induction 1 as [|e es He _ IH]; cbn [tot_c fold_right]; [lia|]. fold (tot_c es). destruct He. lia. Qed.
Lemma tot_r_nonneg es : Forall entry_nonneg es -> 0 <= tot_r es.
Proof. induction 1 as [|e es He _ IH]; cbn [tot_r fold_right]; [lia|]. fold (tot_r es). destruct He. lia. Qed.

Lemma build_length es : forall c r, length (build c r es) = length es.
Proof. induction es as [|e es IH]; intros c r; cbn [build length]; [reflexivity|]. rewrite IH. reflexivity. Qed.

Lemma build_app a : forall c r b,
  build c r (a ++ b) = build c r a ++ build (c + tot_c a) (r + tot_r a) b.
Proof.
  induction a as [|e a IH]; intros c r b; cbn [app build tot_c tot_r fold_right].
  - rewrite !Z.add_0_r. reflexivity.
  - fold (tot_c a) (tot_r a). rewrite IH. do 3 f_equal; lia.
Qed.

Lemma last_record_snoc recs x : last_record (recs ++ [x]) = x.
Proof. unfold last_record. apply last_last. Qed.

Definition lastC (recs : list record) : Z := CompOffset (last_record recs).
Definition lastR (recs : list record) : Z := RawOffset (last_record recs).

Lemma last_app_build es : forall recs,
  lastC (recs ++ build (lastC recs) (lastR recs) es) = lastC recs + tot_c es /\
  lastR (recs ++ build (lastC recs) (lastR recs) es) = lastR recs + tot_r es.
Proof.
  induction es as [|e es IH]; intros recs; cbn [build tot_c tot_r fold_right].
  - rewrite app_nil_r. lia.
  - fold (tot_c es) (tot_r es).
    set (x := mkRec (lastC recs + e_c e) (lastR recs + e_r e) (e_t e)).
    specialize (IH (recs ++ [x])).
    assert (HC : lastC (recs ++ [x]) = lastC recs + e_c e) by (unfold lastC; rewrite last_record_snoc; reflexivity).
    assert (HR : lastR (recs ++ [x]) = lastR recs + e_r e) by (unfold lastR; rewrite last_record_snoc; reflexivity).
    rewrite HC, HR in IH. rewrite <- app_assoc in IH. cbn [app] in IH. lia.
Qed.

Lemma last_build0 es : lastC (build 0 0 es) = tot_c es /\ lastR (build 0 0 es) = tot_r es.
Proof. exact (last_app_build es []). Qed.

Lemma wrap64_small z : - 2 ^ 63 <= z < 2 ^ 63 -> wrap64 z = z.
Proof. intros H. unfold wrap64. change (2 ^ 63) with 9223372036854775808 in *. change (2 ^ 64) with 18446744073709551616. lia. Qed.

Lemma append_record_ok recs c r t :
  0 <= c -> 0 <= r -> 0 <= lastC recs -> 0 <= lastR recs ->
  lastC recs + c < 2 ^ 63 -> lastR recs + r < 2 ^ 63 ->
  append_record recs c r t = Some (recs ++ [mkRec (lastC recs + c) (lastR recs + r) t]).
Proof.
  intros Hc Hr HC HR HCb HRb. unfold append_record. fold (lastC recs) (lastR recs).
  replace (r <? 0) with false by (symmetry; apply Z.ltb_ge; lia).
  replace (c <? 0) with false by (symmetry; apply Z.ltb_ge; lia).
  cbn [orb]. change (CompOffset (last_record recs)) with (lastC recs).
  change (RawOffset (last_record recs)) with (lastR recs).
  rewrite !wrap64_small by (change (2 ^ 63) with 9223372036854775808 in *; lia).
  replace (lastC recs + c <? lastC recs) with false by (symmetry; apply Z.ltb_ge; lia).
  replace (lastR recs + r <? lastR recs) with false by (symmetry; apply Z.ltb_ge; lia).
  reflexivity.
Qed.

Lemma append_chunks_build es : forall recs,
  Forall (fun e => 4 < e_c e /\ 0 <= e_r e /\ e_t e = deflateType) es ->
  0 <= lastC recs -> 0 <= lastR recs ->
  lastC recs + tot_c es < 2 ^ 63 -> lastR recs + tot_r es < 2 ^ 63 ->
  append_chunks recs (map (fun e => (e_c e, e_r e)) es) =
  Some (recs ++ build (lastC recs) (lastR recs) es).
Proof.
  induction es as [|e es IH]; intros recs Hes HC HR HCb HRb; cbn [map append_chunks build].
  - rewrite app_nil_r. reflexivity.
  - inversion Hes as [|e' es' [He1 [He2 He3]] Hes']; subst e' es'.
    cbn [tot_c tot_r fold_right] in HCb, HRb. fold (tot_c es) in HCb. fold (tot_r es) in HRb.
    assert (Hnn : Forall entry_nonneg es).
    { eapply Forall_impl; [|exact Hes']. intros a [Ha1 [Ha2 _]]. split; lia. }
    pose proof (tot_c_nonneg es Hnn). pose proof (tot_r_nonneg es Hnn).
    replace (e_c e <=? 4) with false by (symmetry; apply Z.leb_gt; lia).
    rewrite append_record_ok by lia.
    set (x := mkRec (lastC recs + e_c e) (lastR recs + e_r e) deflateType).
    assert (HC' : lastC (recs ++ [x]) = lastC recs + e_c e) by (unfold lastC; rewrite last_record_snoc; reflexivity).
    assert (HR' : lastR (recs ++ [x]) = lastR recs + e_r e) by (unfold lastR; rewrite last_record_snoc; reflexivity).
    rewrite IH by (try exact Hes'; lia).
    rewrite HC', HR', <- app_assoc. cbn [app]. rewrite He3. reflexivity.
Qed.

Lemma append_index_from_build es : forall recs c0 r0 t0,
  Forall entry_nonneg es ->
  0 <= lastC recs -> 0 <= lastR recs ->
  lastC recs + tot_c es < 2 ^ 63 -> lastR recs + tot_r es < 2 ^ 63 ->
  append_index_from recs (build c0 r0 es) (mkRec c0 r0 t0) =
  Some (recs ++ build (lastC recs) (lastR recs) es).
Proof.
  induction es as [|e es IH]; intros recs c0 r0 t0 Hes HC HR HCb HRb; cbn [append_index_from build].
  - rewrite app_nil_r. reflexivity.
  - inversion Hes as [|e' es' [He1 He2] Hes']; subst e' es'.
    cbn [tot_c tot_r fold_right] in HCb, HRb. fold (tot_c es) in HCb. fold (tot_r es) in HRb.
    pose proof (tot_c_nonneg es Hes'). pose proof (tot_r_nonneg es Hes').
    cbn [CompOffset RawOffset RType].
    replace (c0 + e_c e - c0) with (e_c e) by lia.
    replace (r0 + e_r e - r0) with (e_r e) by lia.
    rewrite append_record_ok by lia.
    set (x := mkRec (lastC recs + e_c e) (lastR recs + e_r e) (e_t e)).
    assert (HC' : lastC (recs ++ [x]) = lastC recs + e_c e) by (unfold lastC; rewrite last_record_snoc; reflexivity).
    assert (HR' : lastR (recs ++ [x]) = lastR recs + e_r e) by (unfold lastR; rewrite last_record_snoc; reflexivity).
    rewrite IH by (try exact Hes'; lia).
    rewrite HC', HR', <- app_assoc. reflexivity.
Qed.

(* ---- the payload of an index --------------------------------------------------- *)
Fixpoint deltas (rs : list record) (pre : record) : list byte :=
  match rs with
  | [] => []
  | r :: rest =>
    put_uvarint (Z.to_N (CompOffset r - CompOffset pre)) ++
    put_uvarint (Z.to_N (RawOffset r - RawOffset pre)) ++ deltas rest r
  end.

Definition index_body (back : N) (recs : list record) : list byte :=
  put_uvarint back ++ put_uvarint (N.of_nat (length recs)) ++
  put_uvarint (Z.to_N (lastC recs)) ++ put_uvarint (Z.to_N (lastR recs)) ++
  deltas recs rec0.

Lemma index_payload_eq back recs :
  index_payload back recs = index_body back recs ++ le32 (crc32 (index_body back recs)).
Proof. reflexivity. Qed.

Definition enc_pairs (es : list entry) : list byte :=
  flat_map (fun e => put_uvarint (Z.to_N (e_c e)) ++ put_uvarint (Z.to_N (e_r e))) es.

Lemma deltas_build es : forall c r t, deltas (build c r es) (mkRec c r t) = enc_pairs es.
Proof.
  induction es as [|e es IH]; intros c r t; cbn [build deltas enc_pairs flat_map]; [reflexivity|].
  cbn [CompOffset RawOffset].
  replace (c + e_c e - c) with (e_c e) by lia.
  replace (r + e_r e - r) with (e_r e) by lia.
  rewrite IH, <- app_assoc. reflexivity.
Qed.

Lemma enc_pairs_bytes es : bytes_lt (enc_pairs es).
Proof.
  induction es as [|e es IH]; cbn [enc_pairs flat_map]; [apply bytes_lt_nil|].
  repeat apply bytes_lt_app; try apply put_uvarint_bytes. exact IH.
Qed.

Lemma deltas_bytes rs : forall pre, bytes_lt (deltas rs pre).
Proof.
  induction rs as [|r rs IH]; intros pre; cbn [deltas]; [apply bytes_lt_nil|].
  repeat apply bytes_lt_app; try apply put_uvarint_bytes. apply IH.
Qed.

Lemma index_body_bytes back recs : bytes_lt (index_body back recs).
Proof.
  unfold index_body. repeat apply bytes_lt_app; try apply put_uvarint_bytes. apply deltas_bytes.
Qed.

Lemma index_payload_bytes back recs : bytes_lt (index_payload back recs).
Proof.
  rewrite index_payload_eq. apply bytes_lt_app; [apply index_body_bytes | apply le32_bytes].
Qed.

Lemma footer_payload_bytes back : bytes_lt (footer_payload back).
Proof.
  unfold footer_payload. apply bytes_lt_app; [|apply put_uvarint_bytes].
  intros b Hb. cbn [In] in Hb. destruct Hb as [<-|[<-|[<-|[]]]]; reflexivity.
Qed.

Lemma read_chunks_enc es : forall fuel rest acc,
  (length es < fuel)%nat ->
  Forall (fun e => 0 <= e_c e < 2 ^ 63 /\ 0 <= e_r e < 2 ^ 63) es ->
  read_chunks fuel (Z.of_nat (length es)) (enc_pairs es ++ rest) acc =
  Some (rev acc ++ map (fun e => (e_c e, e_r e)) es, rest).
Proof.
  induction es as [|e es IH]; intros fuel rest acc Hf Hes.
  - destruct fuel as [|f]; [cbn in Hf; lia|]. cbn [read_chunks length enc_pairs flat_map app map].
    cbn [Z.of_nat Z.leb Z.compare]. rewrite fast_rev_eq, app_nil_r. reflexivity.
  - destruct fuel as [|f]; [cbn in Hf; lia|].
    inversion Hes as [|e' es' [He1 He2] Hes']; subst e' es'.
    cbn [length] in Hf.
    cbn [read_chunks enc_pairs flat_map]. fold (enc_pairs es).
    replace (Z.of_nat (length (e :: es)) <=? 0) with false by (symmetry; apply Z.leb_gt; cbn [length]; lia).
    rewrite <- !app_assoc.
    assert (Hb : forall z, 0 <= z < 2 ^ 63 -> (Z.to_N z < 2 ^ 63)%N).
    { intros z Hz. change (2 ^ 63)%N with 9223372036854775808%N. change (2 ^ 63) with 9223372036854775808 in Hz. lia. }
    rewrite read_vli_put by (apply Hb; exact He1).
    rewrite read_vli_put by (apply Hb; exact He2).
    rewrite !Z2N.id by lia.
    replace (Z.of_nat (length (e :: es)) - 1) with (Z.of_nat (length es)) by (cbn [length]; lia).
    rewrite IH by (try exact Hes'; lia).
    cbn [rev map]. rewrite <- app_assoc. reflexivity.
Qed.

(* ---- decode_index on an encoded index ------------------------------------------ *)
Definition chunk_entry_ok (e : entry) : Prop := 4 < e_c e /\ 0 <= e_r e /\ e_t e = deflateType.

Lemma chunk_entries_nonneg es : Forall chunk_entry_ok es -> Forall entry_nonneg es.
Proof. apply Forall_impl. intros e [H1 [H2 _]]. split; lia. Qed.

Lemma chunk_entries_count es : Forall chunk_entry_ok es -> Z.of_nat (length es) <= tot_c es.
Proof.
  induction 1 as [|e es [H1 _] _ IH]; cbn [length tot_c fold_right]; [lia|]. fold (tot_c es). lia.
Qed.

Lemma length_index_body_ge back recs : (4 <= length (index_body back recs))%nat.
Proof.
  unfold index_body. rewrite !app_length.
  pose proof (put_uvarint_len back). pose proof (put_uvarint_len (N.of_nat (length recs))).
  pose proof (put_uvarint_len (Z.to_N (lastC recs))). pose proof (put_uvarint_len (Z.to_N (lastR recs))).
  lia.
Qed.

Lemma enc_pairs_length es : (length es <= length (enc_pairs es))%nat.
Proof.
  induction es as [|e es IH]; cbn [enc_pairs flat_map length]; [lia|]. fold (enc_pairs es).
  rewrite !app_length. pose proof (put_uvarint_len (Z.to_N (e_c e))). lia.
Qed.

Lemma decode_index_ok (Hrt : meta_stream_roundtrip_stmt) data pos isize back es enc :
  Forall chunk_entry_ok es ->
  tot_c es < 2 ^ 63 -> tot_r es < 2 ^ 63 -> (back < 2 ^ 63)%N ->
  meta_encode (index_payload back (build 0 0 es)) FinalMeta = Some enc ->
  (N.of_nat (length enc) < 2 ^ 40)%N ->
  slice data pos isize = enc -> isize = N.of_nat (length enc) ->
  decode_index data pos isize = inr (build 0 0 es, Z.of_N back).
Proof.
  intros Hes HCb HRb Hback Henc Hencsz Hsl Hsz.
  set (recs := build 0 0 es) in *.
  pose proof (chunk_entries_nonneg es Hes) as Hnn.
  pose proof (tot_c_nonneg es Hnn) as HC0. pose proof (tot_r_nonneg es Hnn) as HR0.
  pose proof (chunk_entries_count es Hes) as Hcnt.
  destruct (last_build0 es) as [HlC HlR]. fold recs in HlC, HlR.
  assert (Hdec : meta_decode enc = mkMR None (index_payload back recs) FinalMeta
                   (N.of_nat (length (writer_blocks (index_payload back recs) []))) (N.of_nat (length enc))).
  { rewrite <- (app_nil_r enc) at 1. apply Hrt.
    - apply index_payload_bytes.
    - intros b [].
    - exact Henc.
    - exact Hencsz.
    - left. discriminate. }
  unfold decode_index. rewrite Hsl, Hdec. cbn [mr_err mr_payload mr_final mr_used].
  set (body := index_body back recs).
  assert (Hpl : index_payload back recs = body ++ le32 (crc32 body)) by apply index_payload_eq.
  assert (Hcrc : (if (4 <? length (index_payload back recs))%nat
                  then crc32 (firstn (length (index_payload back recs) - 4) (index_payload back recs))
                  else 0%N) = crc32 body).
  { rewrite Hpl, app_length. cbn [le32 length].
    pose proof (length_index_body_ge back recs) as Hl. fold body in Hl.
    replace (4 <? length body + 4)%nat with true by (symmetry; apply Nat.ltb_lt; lia).
    replace (length body + 4 - 4)%nat with (length body) by lia.
    rewrite firstn_app, Nat.sub_diag, firstn_all. cbn [firstn]. rewrite app_nil_r. reflexivity. }
  rewrite Hcrc. rewrite Hpl. unfold body at 1, index_body.
  rewrite <- !app_assoc.
  assert (Hb : forall z, 0 <= z < 2 ^ 63 -> (Z.to_N z < 2 ^ 63)%N).
  { intros z Hz. change (2 ^ 63)%N with 9223372036854775808%N. change (2 ^ 63) with 9223372036854775808 in Hz. lia. }
  rewrite read_vli_put by exact Hback.
  rewrite read_vli_put.
  2:{ unfold recs. rewrite build_length. change (2 ^ 63)%N with 9223372036854775808%N. change (2 ^ 63) with 9223372036854775808 in HCb. lia. }
  rewrite read_vli_put by (apply Hb; lia).
  rewrite read_vli_put by (apply Hb; lia).
  change rec0 with (mkRec 0 0 0).
  assert (Hd : deltas recs (mkRec 0 0 0) = enc_pairs es) by apply deltas_build.
  assert (Hlen : length recs = length es) by apply build_length.
  rewrite !Hd, Hlen, nat_N_Z.
  rewrite read_chunks_enc.
  2:{ rewrite app_length. pose proof (enc_pairs_length es). lia. }
  2:{ eapply Forall_forall. intros e He.
      assert (Hle : e_c e <= tot_c es /\ e_r e <= tot_r es).
      { clear - He Hnn. induction es as [|a es IH]; [destruct He|].
        inversion Hnn as [|a' es' [Ha1 Ha2] Hnn']; subst a' es'.
        cbn [tot_c tot_r fold_right]. fold (tot_c es) (tot_r es).
        pose proof (tot_c_nonneg es Hnn'). pose proof (tot_r_nonneg es Hnn').
        destruct He as [->|He]; [lia|]. specialize (IH Hnn' He). lia. }
      rewrite Forall_forall in Hes. destruct (Hes e He) as [H1 [H2 _]]. lia. }
  cbn [rev app].
  cbn [le32 length Nat.eqb negb orb].
  change [crc32 body mod 256; (crc32 body / 256) mod 256; (crc32 body / 65536) mod 256;
          (crc32 body / 16777216) mod 256]%N with (le32 (crc32 body)).
  rewrite le32_dec_le32 by (apply crc32_lt; apply index_body_bytes).
  rewrite N.eqb_refl. cbn [negb fmode_eqb]. rewrite Hsz, N.eqb_refl. cbn [negb].
  rewrite (append_chunks_build es []) by (try exact Hes; cbn; lia).
  cbn [app]. change (lastC []) with 0. change (lastR []) with 0. fold recs.
  fold (lastC recs) (lastR recs). rewrite !Z2N.id by lia.
  rewrite !Z.eqb_refl. cbn [andb negb]. reflexivity.
Qed.
