(* C08/C09 for the XFLATE Reader on ARBITRARY input (no honesty assumption).

   A1  open_reader fails only with Corrupted or UnexpectedEOF            (open_reader_total)
   A2  the backward index walk moves strictly downwards by at least the size of an index
       block (>= 4 bytes) in every iteration: its result does not depend on the budget
       once the budget exceeds pos/4, it visits at most pos/4 indexes      (walk_fuel_irrelevant,
       open_walk_budget, walk_shape)
   A3  on every state reachable from a successful open by any history, Read never exhausts
       its loop budget and ends only in the documented classes            (reader_total)
   A4  the table accesses of Search / GetRecords / LastRecord stay inside the slice
                                                                         (search_chk_ok ...)
   The index-walk facts of this file are also what XFlate/OpenLocality.v builds on. *)
From V Require Import Base.Prelude Base.Prog Meta.Model Meta.DecTotal Flate.Spec Flate.Fuel
  XFlate.Index XFlate.Search XFlate.Reader XFlate.Thms XFlate.Refine XFlate.Witness.
From Coq Require Import ZifyBool ZifyN ZifyNat.
Local Open Scope Z_scope.

Definition open_err (e : err) : Prop := e = ECorrupted \/ e = EUEOF.

(* ---- int64 wrap-around -------------------------------------------------------------- *)
Lemma wrap64_range z : - 2 ^ 63 <= wrap64 z < 2 ^ 63.
Proof. unfold wrap64. change (2 ^ 63) with 9223372036854775808. change (2 ^ 64) with 18446744073709551616. lia. Qed.

Lemma wrap64_id z : - 2 ^ 63 <= z < 2 ^ 63 -> wrap64 z = z.
Proof. unfold wrap64. change (2 ^ 63) with 9223372036854775808. change (2 ^ 64) with 18446744073709551616. lia. Qed.

Lemma wrap64_hi z : 2 ^ 63 <= z < 2 ^ 64 + 2 ^ 63 -> wrap64 z = z - 2 ^ 64.
Proof. unfold wrap64. change (2 ^ 63) with 9223372036854775808. change (2 ^ 64) with 18446744073709551616. lia. Qed.

(* ---- tables built by AppendRecord are monotone in both offsets ------------------------ *)
Fixpoint mono_from (p : record) (T : list record) : Prop :=
  match T with
  | [] => True
  | r :: T' => RawOffset p <= RawOffset r /\ CompOffset p <= CompOffset r /\
               CompOffset r < 2 ^ 63 /\ mono_from r T'
  end.
Definition tab_ok (T : list record) : Prop := mono_from rec0 T.

Lemma last_indep {A} (l : list A) d d' : l <> [] -> last l d = last l d'.
Proof.
  induction l as [|a l IH]; intros H; [contradiction|].
  destruct l as [|b l']; [reflexivity|]. cbn [last] in *. apply IH. discriminate.
Qed.

Lemma mono_from_snoc T : forall p x,
  mono_from p (T ++ [x]) <->
  mono_from p T /\ RawOffset (last T p) <= RawOffset x /\ CompOffset (last T p) <= CompOffset x /\
  CompOffset x < 2 ^ 63.
Proof.
  induction T as [|r T IH]; intros p x; cbn [app mono_from].
  - cbn [last]. tauto.
  - rewrite IH. destruct T as [|r' T'].
    + cbn [last]. tauto.
    + change (last (r :: r' :: T') p) with (last (r' :: T') p).
      rewrite (last_indep (r' :: T') p r) by discriminate. tauto.
Qed.

Lemma last_record_nonempty T p : T <> [] -> last T p = last_record T.
Proof. intros H. apply last_indep. exact H. Qed.

Lemma mono_from_last T : forall p, mono_from p T ->
  RawOffset p <= RawOffset (last T p) /\ CompOffset p <= CompOffset (last T p).
Proof.
  induction T as [|r T IH]; intros p H; cbn [last]; [lia|].
  destruct H as (H1 & H2 & _ & H3). destruct T as [|r' T']; [lia|].
  specialize (IH r H3). cbn [last] in IH.
  assert (E : last (r' :: T') p = last (r' :: T') r).
  { rewrite !(last_record_nonempty (r' :: T')) by discriminate. reflexivity. }
  rewrite E. cbn [last]. lia.
Qed.

Lemma tab_ok_last T : tab_ok T ->
  0 <= RawOffset (last_record T) /\ 0 <= CompOffset (last_record T) < 2 ^ 63.
Proof.
  intros H. pose proof (mono_from_last T rec0 H) as [H1 H2]. fold (last_record T) in H1, H2.
  cbn [rec0 RawOffset CompOffset] in H1, H2. split; [exact H1|]. split; [exact H2|].
  destruct T as [|r T'] using rev_ind; [cbn; reflexivity|].
  unfold last_record. rewrite last_last. apply mono_from_snoc in H. tauto.
Qed.

Lemma append_record_tab recs c r t recs' :
  append_record recs c r t = Some recs' -> tab_ok recs ->
  tab_ok recs' /\ exists x, recs' = recs ++ [x] /\ RType x = t /\
    (0 <= c -> CompOffset (last_record recs) + c < 2 ^ 63 ->
     CompOffset x = CompOffset (last_record recs) + c).
Proof.
  unfold append_record. intros H Ht.
  destruct ((r <? 0) || (c <? 0)) eqn:E1; [discriminate|].
  destruct (tab_ok_last recs Ht) as [HR [HC0 HC1]].
  set (l := last_record recs) in *.
  destruct ((wrap64 (CompOffset l + c) <? CompOffset l) || (wrap64 (RawOffset l + r) <? RawOffset l)) eqn:E3;
    [discriminate|].
  apply orb_false_iff in E3 as [E3 E4]. apply Z.ltb_ge in E3, E4.
  inversion H; subst recs'. clear H.
  pose proof (wrap64_range (CompOffset l + c)) as Wc.
  split.
  - unfold tab_ok. apply mono_from_snoc. split; [exact Ht|]. fold (last_record recs). fold l.
    cbn [RawOffset CompOffset]. lia.
  - eexists. split; [reflexivity|]. split; [reflexivity|]. cbn [CompOffset].
    intros Hc Hb. apply wrap64_id. lia.
Qed.

Lemma tab_ok_nil : tab_ok []. Proof. exact I. Qed.

Lemma append_chunks_tab chunks : forall recs recs',
  append_chunks recs chunks = Some recs' -> tab_ok recs -> tab_ok recs'.
Proof.
  induction chunks as [|[c r] rest IH]; intros recs recs' H Ht; cbn [append_chunks] in H.
  - inversion H; subst. exact Ht.
  - destruct (c <=? 4); [discriminate|].
    destruct (append_record recs c r deflateType) as [r1|] eqn:E; [|discriminate].
    apply (IH r1 recs' H). exact (proj1 (append_record_tab _ _ _ _ _ E Ht)).
Qed.

Lemma append_index_from_tab other : forall recs pre recs',
  append_index_from recs other pre = Some recs' -> tab_ok recs -> tab_ok recs'.
Proof.
  induction other as [|r rest IH]; intros recs pre recs' H Ht; cbn [append_index_from] in H.
  - inversion H; subst. exact Ht.
  - destruct (append_record recs _ _ _) as [r1|] eqn:E; [|discriminate].
    apply (IH r1 r recs' H). exact (proj1 (append_record_tab _ _ _ _ _ E Ht)).
Qed.

Lemma merge_indexes_tab idxs : forall recs recs',
  merge_indexes recs idxs = Some recs' -> tab_ok recs -> tab_ok recs'.
Proof.
  induction idxs as [|[rs isize] rest IH]; intros recs recs' H Ht; cbn [merge_indexes] in H.
  - inversion H; subst. exact Ht.
  - destruct (append_index recs rs) as [r1|] eqn:E1; [|discriminate].
    destruct (append_record r1 (zN isize) 0 indexType) as [r2|] eqn:E2; [|discriminate].
    apply (IH r2 recs' H).
    apply (proj1 (append_record_tab _ _ _ _ _ E2 (append_index_from_tab _ _ _ _ E1 Ht))).
Qed.

(* ---- the footer ------------------------------------------------------------------------ *)
Definition flen (data : list byte) : N := N.of_nat (length data).
Definition fn (data : list byte) : N := N.min (flen data) MaxEncBytes.

Lemma slice_length data off n :
  N.of_nat (length (slice data off n)) = N.min n (flen data - off).
Proof. unfold slice, flen. rewrite firstn_length, skipn_length. lia. Qed.

Lemma decode_footer_err data e : decode_footer data = inl e -> open_err e.
Proof.
  unfold decode_footer. cbv zeta.
  destruct (reverse_search _) as [idx|]; [|intros H; inversion H; left; reflexivity].
  set (blk := skipn (N.to_nat idx) _).
  assert (Hblk : (N.of_nat (length blk) < 2 ^ 42)%N).
  { unfold blk. rewrite skipn_length.
    pose proof (slice_length data (N.of_nat (length data) - N.min (N.of_nat (length data)) MaxEncBytes)
                  (N.min (N.of_nat (length data)) MaxEncBytes)) as Hs.
    unfold MaxEncBytes in *. change (2 ^ 42)%N with 4398046511104%N. lia. }
  pose proof (meta_decode_total blk Hblk) as Hm.
  destruct (mr_err (meta_decode blk)) as [e'|].
  { intros H; inversion H; subst. exact Hm. }
  repeat match goal with
         | |- (if ?c then _ else _) = _ -> _ => destruct c; [intros H; inversion H; left; reflexivity|]
         | |- (let '(_, _) := ?x in _) = _ -> _ => destruct x
         end.
  discriminate.
Qed.

Lemma inr3_inj {E A B C} (a a' : A) (b b' : B) (c c' : C) :
  @inr E _ (a, b, c) = inr (a', b', c') -> a = a' /\ b = b' /\ c = c'.
Proof. intros H. inversion H. auto. Qed.

Lemma inr2_inj {E A B} (a a' : A) (b b' : B) :
  @inr E _ (a, b) = inr (a', b') -> a = a' /\ b = b'.
Proof. intros H. inversion H. auto. Qed.

Ltac dif E :=
  match goal with |- (if ?c then _ else _) = _ -> _ => destruct c eqn:E; [discriminate|] end.

Lemma decode_footer_ok_facts data back foot log :
  decode_footer data = inr (back, foot, log) ->
  log = [((flen data - fn data)%N, fn data)] /\ (4 <= foot <= fn data)%N /\ - 2 ^ 63 <= back < 2 ^ 63.
Proof.
  unfold decode_footer, fn, flen. cbv zeta.
  destruct (reverse_search _) as [idx|]; [|discriminate].
  set (blk := skipn (N.to_nat idx) _).
  destruct (mr_err (meta_decode blk)) eqn:Ee; [discriminate|].
  dif E1. dif E2. dif E3.
  destruct (uvarint _) as [v cnt].
  dif E4. dif E5.
  intros H. apply inr3_inj in H. destruct H as (Hb0 & Hf0 & Hl0). subst back foot log. split; [reflexivity|].
  assert (Hf : mr_final (meta_decode blk) <> FinalNil).
  { destruct (mr_final (meta_decode blk)); cbn in E2; try discriminate. }
  pose proof (meta_decode_used_ge blk Ee Hf) as H4.
  pose proof (meta_decode_used_le blk) as Hle.
  assert (Hb : (N.of_nat (length blk) <= N.min (N.of_nat (length data)) MaxEncBytes)%N).
  { unfold blk. rewrite skipn_length.
    pose proof (slice_length data (N.of_nat (length data) - N.min (N.of_nat (length data)) MaxEncBytes)
                  (N.min (N.of_nat (length data)) MaxEncBytes)) as Hs. unfold flen in Hs. lia. }
  split; [lia | apply wrap64_range].
Qed.

(* ---- one index block ------------------------------------------------------------------- *)
Lemma read_vli_range buf v rest : read_vli buf = Some (v, rest) -> 0 <= v < 2 ^ 63.
Proof.
  unfold read_vli. destruct (uvarint buf) as [x n].
  destruct ((n <=? 0) || (maxInt64 <? zN x)) eqn:E; [discriminate|].
  intros H. inversion H; subst. apply orb_false_iff in E as [_ E]. apply Z.ltb_ge in E.
  unfold maxInt64, zN in *. lia.
Qed.

Lemma decode_index_err data pos isize e :
  (flen data < 2 ^ 42)%N -> decode_index data pos isize = inl e -> open_err e.
Proof.
  intros Hlen. unfold decode_index. cbv zeta.
  set (blk := slice data pos isize).
  assert (Hblk : (N.of_nat (length blk) < 2 ^ 42)%N).
  { unfold blk. rewrite slice_length. lia. }
  pose proof (meta_decode_total blk Hblk) as Hm.
  destruct (mr_err (meta_decode blk)) as [e'|].
  { intros H; inversion H; subst. exact Hm. }
  repeat match goal with
         | |- (if ?c then _ else _) = _ -> _ => destruct c; [intros H; inversion H; left; reflexivity|]
         | |- match ?x with Some _ => _ | None => _ end = _ -> _ =>
             destruct x as [[? ?]|]; [|intros H; inversion H; left; reflexivity]
         | |- match ?x with Some _ => _ | None => _ end = _ -> _ =>
             destruct x; [|intros H; inversion H; left; reflexivity]
         end.
  discriminate.
Qed.

Lemma decode_index_ok_facts data pos isize recs back :
  decode_index data pos isize = inr (recs, back) ->
  (4 <= isize)%N /\ (pos + isize <= flen data)%N /\ 0 <= back < 2 ^ 63 /\ tab_ok recs.
Proof.
  unfold decode_index. cbv zeta.
  set (blk := slice data pos isize).
  destruct (mr_err (meta_decode blk)) eqn:Ee; [discriminate|].
  destruct (read_vli (mr_payload (meta_decode blk))) as [[bk b1]|] eqn:V1; [|discriminate].
  destruct (read_vli b1) as [[numRecs b2]|]; [|discriminate].
  destruct (read_vli b2) as [[totC b3]|]; [|discriminate].
  destruct (read_vli b3) as [[totR b4]|]; [|discriminate].
  destruct (read_chunks _ numRecs b4 []) as [[chunks rest]|]; [|discriminate].
  dif E1. dif E2. dif E3.
  destruct (append_chunks [] chunks) as [recs0|] eqn:E4; [|discriminate].
  dif E5.
  intros H. apply inr2_inj in H. destruct H as (Hr & Hb). subst recs0 bk.
  assert (Hf : mr_final (meta_decode blk) <> FinalNil).
  { destruct (mr_final (meta_decode blk)); cbn in E2; try discriminate. }
  pose proof (meta_decode_used_ge blk Ee Hf) as H4.
  pose proof (meta_decode_used_le blk) as Hle.
  pose proof (slice_length data pos isize) as Hsl. fold blk in Hsl.
  apply negb_false_iff, N.eqb_eq in E3.
  split; [lia|]. split; [lia|]. split; [exact (read_vli_range _ _ _ V1)|].
  exact (append_chunks_tab _ _ _ E4 tab_ok_nil).
Qed.

(* ---- the backward walk ----------------------------------------------------------------- *)
Definition CL (recs : list record) : Z := CompOffset (last_record recs).

(* indexes in stream order: the bytes they and their chunks span, and where each index
   block lies when the first of them starts at [base] *)
Fixpoint span (l : list (list record * N)) : Z :=
  match l with
  | [] => 0
  | (recs, isize) :: r => CL recs + zN isize + span r
  end.

Fixpoint extents (base : Z) (l : list (list record * N)) : iolog :=
  match l with
  | [] => []
  | (recs, isize) :: r => (Z.to_N (base + CL recs), isize) :: extents (base + CL recs + zN isize) r
  end.

Definition idx_ok (x : list record * N) : Prop := 4 <= zN (snd x) < 2 ^ 63 /\ tab_ok (fst x).

Lemma span_app a b : span (a ++ b) = span a + span b.
Proof. induction a as [|[r i] a IH]; cbn [app span]; [reflexivity | rewrite IH; lia]. Qed.

Lemma extents_app a : forall base b, extents base (a ++ b) = extents base a ++ extents (base + span a) b.
Proof.
  induction a as [|[r i] a IH]; intros base b; cbn [app span extents].
  - rewrite Z.add_0_r. reflexivity.
  - rewrite IH. do 3 f_equal. lia.
Qed.

Lemma span_nonneg l : Forall idx_ok l -> 4 * Z.of_nat (length l) <= span l.
Proof.
  induction 1 as [|[r i] l [H1 H2] _ IH]; cbn [span length]; [lia|].
  cbn [fst snd] in *. destruct (tab_ok_last r H2) as [_ [H3 _]]. unfold CL, zN in *. lia.
Qed.

(* one iteration, with the int64 arithmetic resolved: an iteration that is not refused has
   not wrapped, and if it goes on to decode an index that index is accepted only with a size
   of at least 4 bytes: the position moves down by at least 4 *)
Lemma walk_step f data pos back comp idxs log :
  0 <= pos < 2 ^ 63 -> - 2 ^ 63 <= back < 2 ^ 63 -> 0 <= comp < 2 ^ 63 ->
  decode_indexes_loop (S f) data pos back comp idxs log =
  if (back + comp <? 0) || (pos <? back + comp) then inl ECorrupted else
  if back =? 0 then (if negb (pos - comp =? 0) then inl ECorrupted else inr (idxs, log)) else
  match decode_index data (Z.to_N (pos - (back + comp))) (Z.to_N back) with
  | inl e => inl e
  | inr (recs, back') =>
    decode_indexes_loop f data (pos - (back + comp)) back' (CL recs)
                        ((recs, Z.to_N back) :: idxs) (log ++ [(Z.to_N (pos - (back + comp)), Z.to_N back)])
  end.
Proof.
  intros Hp Hb Hc. cbn [decode_indexes_loop].
  assert (E63 : 2 ^ 64 = 2 * 2 ^ 63) by reflexivity.
  destruct (Z_lt_le_dec (back + comp) (2 ^ 63)) as [Hs|Hs].
  - rewrite (wrap64_id (back + comp)) by lia.
    destruct (Z_lt_le_dec (pos - (back + comp)) (2 ^ 63)) as [Hn|Hn].
    + rewrite (wrap64_id (pos - (back + comp))) by lia.
      destruct (back + comp <? 0) eqn:E1.
      * apply Z.ltb_lt in E1.
        replace (pos <? pos - (back + comp)) with true by (symmetry; apply Z.ltb_lt; lia).
        rewrite orb_true_r. reflexivity.
      * apply Z.ltb_ge in E1.
        replace (pos - (back + comp) <? 0) with (pos <? back + comp)
          by lia.
        replace (pos <? pos - (back + comp)) with false by (symmetry; apply Z.ltb_ge; lia).
        cbn [orb]. rewrite orb_false_r.
        destruct (pos <? back + comp); [reflexivity|].
        destruct (back =? 0) eqn:E0; [|reflexivity].
        apply Z.eqb_eq in E0. subst back. rewrite Z.add_0_l. reflexivity.
    + (* pos - (back+comp) >= 2^63: back + comp is very negative; wraps to a negative value *)
      rewrite (wrap64_hi (pos - (back + comp))) by lia.
      replace (pos - (back + comp) - 2 ^ 64 <? 0) with true by (symmetry; apply Z.ltb_lt; lia).
      replace (back + comp <? 0) with true by (symmetry; apply Z.ltb_lt; lia).
      reflexivity.
  - (* back + comp >= 2^63 wraps to a negative subtrahend: the new position exceeds pos or wraps *)
    rewrite (wrap64_hi (back + comp)) by lia.
    replace (back + comp <? 0) with false by (symmetry; apply Z.ltb_ge; lia).
    replace (pos <? back + comp) with true by (symmetry; apply Z.ltb_lt; lia).
    cbn [orb].
    destruct (Z_lt_le_dec (pos - (back + comp - 2 ^ 64)) (2 ^ 63)) as [Hn|Hn].
    + rewrite (wrap64_id (pos - (back + comp - 2 ^ 64))) by lia.
      replace (pos <? pos - (back + comp - 2 ^ 64)) with true by (symmetry; apply Z.ltb_lt; lia).
      rewrite orb_true_r. reflexivity.
    + rewrite (wrap64_hi (pos - (back + comp - 2 ^ 64))) by lia.
      replace (pos - (back + comp - 2 ^ 64) - 2 ^ 64 <? 0) with true by (symmetry; apply Z.ltb_lt; lia).
      reflexivity.
Qed.

(* A2, the reason the walk ends: an iteration that goes on (it was not refused and its index
   block was accepted) continues at a position at least 4 bytes lower - the index block itself
   lies in between. A zero-size index is impossible: [back = 0] ends the walk. *)
Lemma walk_descends data pos back comp recs back' :
  0 <= pos < 2 ^ 63 -> - 2 ^ 63 <= back < 2 ^ 63 -> 0 <= comp < 2 ^ 63 ->
  (back + comp <? 0) || (pos <? back + comp) = false -> back <> 0 ->
  decode_index data (Z.to_N (pos - (back + comp))) (Z.to_N back) = inr (recs, back') ->
  0 <= pos - (back + comp) <= pos - 4 /\ 4 <= back /\
  pos - (back + comp) + back <= pos /\ 0 <= back' < 2 ^ 63 /\ 0 <= CL recs < 2 ^ 63.
Proof.
  intros Hp Hb Hc E1 E0 E.
  apply orb_false_iff in E1 as [E1 E2]. apply Z.ltb_ge in E1, E2.
  destruct (decode_index_ok_facts _ _ _ _ _ E) as (F1 & F2 & F3 & F4).
  destruct (tab_ok_last recs F4) as [_ F5]. fold (CL recs) in F5. lia.
Qed.

(* A1 for the walk: it fails only in the two classes (the exhausted budget is reported as
   Corrupted by the model: [walk_fuel_irrelevant] shows that case is unreachable) *)
Lemma walk_err data : (flen data < 2 ^ 42)%N ->
  forall fuel pos back comp idxs log e,
  decode_indexes_loop fuel data pos back comp idxs log = inl e -> open_err e.
Proof.
  intros Hlen. induction fuel as [|f IH]; intros pos back comp idxs log e H; cbn [decode_indexes_loop] in H.
  - inversion H. left; reflexivity.
  - destruct (_ || _); [inversion H; left; reflexivity|].
    destruct (back =? 0).
    + destruct (negb _); [inversion H; left; reflexivity | discriminate].
    + destruct (decode_index data _ _) as [e'|[recs back']] eqn:E.
      * inversion H; subst. exact (decode_index_err _ _ _ _ Hlen E).
      * exact (IH _ _ _ _ _ _ H).
Qed.

(* the shape of a successful walk *)
Lemma walk_shape data : forall fuel pos back comp idxs log idxs' log',
  0 <= pos -> Z.of_N (flen data) < 2 ^ 63 -> pos <= Z.of_N (flen data) ->
  - 2 ^ 63 <= back < 2 ^ 63 -> 0 <= comp < 2 ^ 63 ->
  decode_indexes_loop fuel data pos back comp idxs log = inr (idxs', log') ->
  exists new, idxs' = new ++ idxs /\ log' = log ++ rev (extents 0 new) /\
    span new + comp = pos /\ Forall idx_ok new.
Proof.
  induction fuel as [|f IH]; intros pos back comp idxs log idxs' log' Hp Hl Hpl Hb Hc H; [discriminate|].
  rewrite walk_step in H by lia.
  destruct ((back + comp <? 0) || (pos <? back + comp)) eqn:E1; [discriminate|].
  apply orb_false_iff in E1 as [E1 E2]. apply Z.ltb_ge in E1, E2.
  destruct (back =? 0) eqn:E0.
  - destruct (negb (pos - comp =? 0)) eqn:E3; [discriminate|].
    apply negb_false_iff, Z.eqb_eq in E3. inversion H; subst.
    exists []. cbn [app rev extents span]. rewrite app_nil_r. repeat split; try lia. constructor.
  - apply Z.eqb_neq in E0.
    destruct (decode_index data _ _) as [e'|[recs back']] eqn:E; [discriminate|].
    destruct (decode_index_ok_facts _ _ _ _ _ E) as (F1 & F2 & F3 & F4).
    destruct (tab_ok_last recs F4) as [_ F5]. fold (CL recs) in F5.
    assert (Hback : 4 <= back) by lia.
    apply IH in H; try lia.
    destruct H as (new & H1 & H2 & H3 & H4).
    exists (new ++ [(recs, Z.to_N back)]). split; [rewrite <- app_assoc; exact H1|].
    split.
    + rewrite H2, extents_app, rev_app_distr, <- app_assoc. cbn [extents rev app].
      do 3 f_equal. lia.
    + rewrite span_app. cbn [span]. unfold zN. split; [lia|].
      apply Forall_app. split; [exact H4|]. constructor; [|constructor]. split; [cbn [snd]; unfold zN; lia | exact F4].
Qed.

(* A2: the result does not depend on the budget once it exceeds pos/4: in particular the
   model's "budget exhausted -> Corrupted" arm is never taken with the budget the Reader uses *)
Lemma walk_fuel_irrelevant data : forall f1 f2 pos back comp idxs log,
  0 <= pos -> Z.of_N (flen data) < 2 ^ 63 -> pos <= Z.of_N (flen data) ->
  - 2 ^ 63 <= back < 2 ^ 63 -> 0 <= comp < 2 ^ 63 ->
  pos < 4 * Z.of_nat f1 -> pos < 4 * Z.of_nat f2 ->
  decode_indexes_loop f1 data pos back comp idxs log = decode_indexes_loop f2 data pos back comp idxs log.
Proof.
  induction f1 as [|f1 IH]; intros f2 pos back comp idxs log Hp Hl Hpl Hb Hc H1 H2; [lia|].
  destruct f2 as [|f2]; [lia|].
  rewrite !walk_step by lia.
  destruct ((back + comp <? 0) || (pos <? back + comp)) eqn:E1; [reflexivity|].
  apply orb_false_iff in E1 as [E1 E2]. apply Z.ltb_ge in E1, E2.
  destruct (back =? 0) eqn:E0; [reflexivity|]. apply Z.eqb_neq in E0.
  destruct (decode_index data _ _) as [e'|[recs back']] eqn:E; [reflexivity|].
  destruct (decode_index_ok_facts _ _ _ _ _ E) as (F1 & F2 & F3 & F4).
  destruct (tab_ok_last recs F4) as [_ F5]. fold (CL recs) in F5.
  apply IH; lia.
Qed.

(* ---- A1/A2 at the level of open_reader ---------------------------------------------------- *)
Lemma open_reader_unfold data s1 :
  open_reader data = inr s1 ->
  exists back foot log idxs log' recs recs',
    decode_footer data = inr (back, foot, log) /\
    decode_indexes_loop (S (length data)) data (zN (flen data - foot)) back 0 [] log = inr (idxs, log') /\
    merge_indexes [] idxs = Some recs /\
    append_record recs (zN foot) 0 footerType = Some recs' /\
    s1 = snd (seek (mkXR data recs' 0 0 0 (0, 0, 0) (mkZr [] 0 None 0 false false) None log') 0 0).
Proof.
  unfold open_reader. fold (flen data).
  destruct (decode_footer data) as [e|[[back foot] log]] eqn:E1; [discriminate|].
  destruct (decode_indexes_loop _ _ _ _ _ _ _) as [e|[idxs log']] eqn:E2; [discriminate|].
  destruct (merge_indexes [] idxs) as [recs|] eqn:E3; [|discriminate].
  destruct (append_record recs (zN foot) 0 footerType) as [recs'|] eqn:E4; [|discriminate].
  destruct (seek _ 0 0) as [r s1'] eqn:Es. intros H. inversion H; subst s1'.
  exists back, foot, log, idxs, log', recs, recs'. rewrite Es.
  split; [reflexivity|]. split; [exact E2|]. split; [exact E3|]. split; [exact E4 | reflexivity].
Qed.

(* A1: opening ANY byte string below 2^42 bytes (the meta decoder model's block budget; the
   Go loops have none) either succeeds or fails with Corrupted / UnexpectedEOF - no panic
   class, no exhausted budget, no Invalid/Internal. Both classes occur
   ([open_corrupted_witness], [open_ueof_witness]). *)
Theorem open_reader_total data :
  (flen data < 2 ^ 42)%N ->
  match open_reader data with inl e => e = ECorrupted \/ e = EUEOF | inr _ => True end.
Proof.
  intros Hlen. unfold open_reader.
  destruct (decode_footer data) as [e|[[back foot] log]] eqn:E1; [exact (decode_footer_err _ _ E1)|].
  destruct (decode_indexes_loop _ _ _ _ _ _ _) as [e|[idxs log']] eqn:E2; [exact (walk_err _ Hlen _ _ _ _ _ _ _ E2)|].
  destruct (merge_indexes [] idxs) as [recs|]; [|left; reflexivity].
  destruct (append_record recs _ 0 footerType) as [recs'|]; [|left; reflexivity].
  destruct (seek _ 0 0) as [r s1]. exact I.
Qed.

(* A2: with ANY budget above (position of the footer)/4 the walk gives the same result as
   with the budget [S (length data)] the Reader model uses: the "budget exhausted" arm of the
   model is dead code for the Reader, whatever the input *)
Theorem open_walk_budget data back foot log f :
  Z.of_N (flen data) < 2 ^ 63 ->
  decode_footer data = inr (back, foot, log) ->
  zN (flen data - foot) < 4 * Z.of_nat f ->
  decode_indexes_loop f data (zN (flen data - foot)) back 0 [] log =
  decode_indexes_loop (S (length data)) data (zN (flen data - foot)) back 0 [] log.
Proof.
  intros Hl Hf Hb. destruct (decode_footer_ok_facts _ _ _ _ Hf) as (_ & H2 & H3).
  apply walk_fuel_irrelevant; unfold zN, flen, fn in *; lia.
Qed.

(* the indexes a successful open has visited: at most (position of the footer)/4 of them,
   each read exactly once at the place the decoded sizes imply, each at least 4 bytes,
   all inside the file below the footer, pairwise disjoint, in descending order *)
Theorem open_walk_shape data back foot log idxs log' :
  Z.of_N (flen data) < 2 ^ 63 ->
  decode_footer data = inr (back, foot, log) ->
  decode_indexes_loop (S (length data)) data (zN (flen data - foot)) back 0 [] log = inr (idxs, log') ->
  log' = log ++ rev (extents 0 idxs) /\ span idxs = zN (flen data - foot) /\ Forall idx_ok idxs /\
  4 * Z.of_nat (length idxs) <= zN (flen data - foot).
Proof.
  intros Hl Hf Hw. destruct (decode_footer_ok_facts _ _ _ _ Hf) as (_ & H2 & H3).
  apply walk_shape in Hw; try (unfold zN, flen, fn in *; lia).
  destruct Hw as (new & H4 & H5 & H6 & H7). rewrite app_nil_r in H4. subst new.
  split; [exact H5|]. split; [lia|]. split; [exact H7|].
  pose proof (span_nonneg _ H7). lia.
Qed.

(* ================= A3: Seek / Read / Close on an arbitrary opened stream ================= *)
Definition zend_ok (o : option err) : Prop := o = None \/ o = Some EUEOF \/ o = Some ECorrupted.
Definition err_ok (o : option err) : Prop :=
  o = None \/ o = Some EEOF \/ o = Some ECorrupted \/ o = Some EUEOF \/ o = Some EClosed.

Lemma open_chunk_zend d off n : zend_ok (z_end (open_chunk d off n)).
Proof.
  unfold open_chunk. cbn [z_end]. pose proof (inflate_total (slice d off n ++ endBlock)) as H.
  destruct (ir_err _) as [e|]; [|left; reflexivity].
  destruct H as [-> | ->]; [right; left | right; right]; reflexivity.
Qed.

Lemma mono_from_nth T : forall p n, mono_from p T -> (n < length T)%nat ->
  RawOffset (nth n (p :: T) rec0) <= RawOffset (nth n T rec0).
Proof.
  induction T as [|r T IH]; intros p n H Hn; [cbn [length] in Hn; lia|].
  destruct H as (H1 & _ & _ & H4). destruct n as [|m]; [exact H1|].
  change (nth (S m) (p :: r :: T) rec0) with (nth m (r :: T) rec0).
  change (nth (S m) (r :: T) rec0) with (nth m T rec0).
  apply IH; [exact H4 | cbn [length] in Hn; lia].
Qed.

Section Hostile.
Variable T : list record.
Hypothesis HT : tab_ok T.
Hypothesis HL : 1 <= zlen T.

Local Notation L := (Refine.L T).
Local Notation endp := (Refine.endp T).
Local Notation pv := (Refine.pv T).
Local Notation cu := (Refine.cu T).

Lemma h_step i : 0 <= i < L -> RO T (i - 1) <= RO T i.
Proof.
  intros Hi. unfold Refine.L, zlen in Hi. unfold RO, nth_rec.
  replace (i <? 0) with false by (symmetry; apply Z.ltb_ge; lia).
  pose proof (mono_from_nth T rec0 (Z.to_nat i) HT ltac:(lia)) as H.
  destruct (Z.eq_dec i 0) as [->|Hn].
  - change (0 - 1 <? 0) with true. exact H.
  - replace (i - 1 <? 0) with false by (symmetry; apply Z.ltb_ge; lia).
    replace (Z.to_nat i) with (S (Z.to_nat (i - 1))) in H at 1 by lia. exact H.
Qed.

Lemma h_mono i j : -1 <= i -> i <= j -> j < L -> RO T i <= RO T j.
Proof.
  intros Hi Hij Hj.
  replace j with (i + Z.of_nat (Z.to_nat (j - i))) by lia.
  assert (Hb : i + Z.of_nat (Z.to_nat (j - i)) < L) by lia.
  induction (Z.to_nat (j - i)) as [|n IH].
  - rewrite Z.add_0_r. lia.
  - rewrite Nat2Z.inj_succ in *.
    transitivity (RO T (i + Z.of_nat n)); [apply IH; lia|].
    replace (i + Z.of_nat n) with (i + Z.succ (Z.of_nat n) - 1) by lia.
    apply h_step. lia.
Qed.

Lemma h_sorted : sorted_ro T.
Proof. intros i j Hi Hij Hj. apply h_mono; try lia. exact Hj. Qed.

Lemma h_nonempty : T <> [].
Proof. intros E. rewrite E in HL. cbn in HL. lia. Qed.

Lemma h_endp : endp = RO T (L - 1).
Proof. unfold Refine.endp, RO, Refine.L. rewrite last_nth_rec by exact h_nonempty. reflexivity. Qed.

Lemma h_pv_L : RawOffset (pv L) = endp.
Proof. rewrite ro_pv. symmetry. exact h_endp. Qed.

Lemma h_cu_L : RawOffset (cu L) = endp.
Proof. unfold Refine.cu. rewrite Z.ltb_irrefl. cbn [RawOffset]. exact h_pv_L. Qed.

Lemma h_cu_lt k : k < L -> RawOffset (cu k) = RO T k.
Proof. intros H. unfold Refine.cu. apply Z.ltb_lt in H. rewrite H. reflexivity. Qed.

Lemma h_pv_cu k : 0 <= k <= L -> RawOffset (pv k) <= RawOffset (cu k).
Proof.
  intros Hk. destruct (Z.eq_dec k L) as [->|Hn]; [rewrite h_pv_L, h_cu_L; lia|].
  rewrite ro_pv, h_cu_lt by lia. apply h_step. lia.
Qed.

Lemma h_cu_endp k : 0 <= k <= L -> RawOffset (cu k) <= endp.
Proof.
  intros Hk. destruct (Z.eq_dec k L) as [->|Hn]; [rewrite h_cu_L; lia|].
  rewrite h_cu_lt, h_endp by lia. apply h_mono; lia.
Qed.

Lemma h_pv_nonneg k : 0 <= k <= L -> 0 <= RawOffset (pv k).
Proof. intros Hk. rewrite ro_pv. change 0 with (RO T (-1)) at 1. apply h_mono; lia. Qed.

Lemma h_hint s pos :
  r_recs s = T -> 0 <= r_ri s <= L -> 0 <= pos ->
  let ri := hint_ri s pos in
  0 <= ri <= L /\ RawOffset (pv ri) <= pos /\ (pos <= endp -> pos <= RawOffset (cu ri)) /\
  (endp < pos -> ri = L).
Proof.
  intros Hr Hri Hp. unfold hint_ri. rewrite Hr, (get_records_eq T (r_ri s) Hri).
  destruct ((RawOffset (pv (r_ri s)) <=? pos) && (pos <=? RawOffset (cu (r_ri s)))) eqn:E.
  - apply andb_true_iff in E as [E1 E2]. apply Z.leb_le in E1, E2.
    pose proof (h_cu_endp (r_ri s) Hri). cbv zeta. repeat split; try lia.
  - clear E. pose proof (search_spec T pos h_sorted) as H. cbv zeta in H. fold L in H.
    destruct H as [H1 [H2 H3]]. cbv zeta. set (ri := search T pos) in *.
    split; [exact H1|]. split.
    + destruct H2 as [H2|H2]; [rewrite H2; change (RawOffset (pv 0)) with 0; lia | rewrite ro_pv; exact H2].
    + assert (Hlt : ri <> L -> ri < L /\ pos < RO T ri /\ RO T ri <= endp).
      { intros Hn. destruct H3 as [H3|H3]; [contradiction|]. split; [lia|]. split; [exact H3|].
        rewrite h_endp. apply h_mono; lia. }
      split.
      * intros Hpe. destruct (Z.eq_dec ri L) as [E|E].
        -- rewrite E, h_cu_L. exact Hpe.
        -- destruct (Hlt E) as (G1 & G2 & G3). rewrite h_cu_lt by lia. lia.
      * intros Hpe. destruct (Z.eq_dec ri L) as [E|E]; [exact E|].
        destruct (Hlt E) as (G1 & G2 & G3). lia.
Qed.

(* the invariant of every reachable state: which record the reader is in and where the next
   byte it delivers lies; nothing is said about the content of the chunks *)
Record RI (s : xr) (k : Z) : Prop := mkRI {
  i_recs : r_recs s = T;
  i_off : 0 <= r_offset s;
  i_k : 0 <= k <= L;
  i_ri : r_ri s = Z.min (k + 1) L;
  i_rsize : chk_rsize s = RawOffset (cu k) - RawOffset (pv k);
  i_disc : 0 <= r_discard s;
  i_lp : r_offset s = RawOffset (pv k) + zN (z_outoff (r_zr s)) + r_discard s \/
         (endp < r_offset s /\ k = L /\ z_rest (r_zr s) = [] /\ z_outoff (r_zr s) = 0%N /\ r_discard s = 0);
  i_zend : zend_ok (z_end (r_zr s));
  i_err : err_ok (r_err s)
}.

Lemma RI_set_err s k e chk' :
  RI s k -> err_ok e -> snd (fst chk') = chk_rsize s ->
  RI (mkXR (r_data s) (r_recs s) (r_ri s) (r_offset s) (r_discard s) chk' (r_zr s) e (r_log s)) k.
Proof.
  intros [] He Hc. constructor; cbn [r_recs r_offset r_ri r_discard r_zr r_err]; try assumption.
  unfold chk_rsize in *. cbn [r_chk]. rewrite Hc. assumption.
Qed.

Lemma slow_RI s pos :
  r_recs s = T -> 0 <= r_ri s <= L -> 0 <= pos ->
  RI (slow_state s pos (hint_ri s pos)) (hint_ri s pos) /\
  r_err (slow_state s pos (hint_ri s pos)) = None /\
  chk_typ (slow_state s pos (hint_ri s pos)) = RType (cu (hint_ri s pos)).
Proof.
  intros Hr Hri Hp. destruct (h_hint s pos Hr Hri Hp) as (Hk & Hlo & Hhi & Hbe). cbv zeta in *.
  set (ri := hint_ri s pos) in *.
  unfold slow_state. rewrite Hr, (get_records_eq T ri Hk).
  split; [|split; reflexivity].
  assert (Hend : end_raw s = endp) by (unfold end_raw, Refine.endp; rewrite Hr; reflexivity).
  constructor; cbn [r_recs r_offset r_ri r_discard r_zr r_err r_chk]; try assumption; try reflexivity.
  - rewrite Hend. destruct (endp <? pos) eqn:E; [apply Z.ltb_lt in E | apply Z.ltb_ge in E].
    + rewrite (Hbe E), h_pv_L. lia.
    + lia.
  - rewrite Hend. destruct (endp <? pos) eqn:E; [apply Z.ltb_lt in E | apply Z.ltb_ge in E].
    + right. rewrite (Hbe E). unfold Refine.cu. rewrite Z.ltb_irrefl. cbn [CompOffset].
      rewrite Z.sub_diag. change (Z.to_N 0) with 0%N. rewrite open_chunk_zero. cbn [z_rest z_outoff].
      rewrite h_pv_L. repeat split; try reflexivity; lia.
    + left. unfold open_chunk. cbn [z_outoff]. change (zN 0) with 0. lia.
  - apply open_chunk_zend.
  - left; reflexivity.
Qed.

Lemma fast_RI s pos k : RI s k -> fast_ok s pos = true -> RI (fast_state s pos) k.
Proof.
  intros R Hf. unfold fast_ok in Hf.
  apply andb_true_iff in Hf as [Hf E3]. apply andb_true_iff in Hf as [E1 E2].
  apply Z.ltb_lt in E1, E2, E3.
  pose proof (i_off _ _ R). pose proof (i_disc _ _ R). pose proof (i_rsize _ _ R) as Hrs.
  unfold fast_state. destruct R as [R1 R2 R3 R4 R5 R6 R7 R8 R9].
  constructor; cbn [r_recs r_offset r_ri r_discard r_zr r_err r_chk]; try assumption; try lia.
  destruct R7 as [R7|(G1 & G2 & G3 & G4 & G5)]; [left; lia|].
  exfalso. subst k. rewrite Hrs, (cu_L_rsize T), G4 in E2. cbn in E2. lia.
Qed.

Definition seek_err_ok (o : option err) : Prop :=
  o = None \/ o = Some EInvalid \/ o = Some ECorrupted \/ o = Some EUEOF \/ o = Some EClosed.

Lemma ri_bounds s k : RI s k -> 0 <= r_ri s <= L.
Proof. intros R. rewrite (i_ri _ _ R). pose proof (i_k _ _ R). unfold Refine.L in *. lia. Qed.

Lemma seek_RI s k off wh :
  RI s k -> (exists k', RI (snd (seek s off wh)) k') /\ seek_err_ok (snd (fst (seek s off wh))).
Proof.
  intros R. rewrite seek_unfold. unfold blocked.
  destruct (r_err s) as [e|] eqn:Ee.
  - destruct (err_eqb e EEOF) eqn:E; cbn [negb].
    + (* EOF does not block *)
      destruct (spos s off wh) as [pos|]; [|split; [exists k; exact R | right; left; reflexivity]].
      destruct (pos <? 0) eqn:Ep; [split; [exists k; exact R | right; left; reflexivity]|].
      apply Z.ltb_ge in Ep.
      destruct (fast_ok s pos) eqn:Ef; cbn [fst snd].
      * split; [exists k; apply fast_RI; assumption | left; reflexivity].
      * split; [|left; reflexivity]. eexists.
        exact (proj1 (slow_RI s pos (i_recs _ _ R) (ri_bounds _ _ R) Ep)).
    + cbn [fst snd]. split; [exists k; exact R|].
      pose proof (i_err _ _ R) as He. rewrite Ee in He. unfold seek_err_ok.
      destruct He as [He|[He|[He|[He|He]]]]; try discriminate; inversion He; subst; try (cbn in E; discriminate); auto.
  - destruct (spos s off wh) as [pos|]; [|split; [exists k; exact R | right; left; reflexivity]].
    destruct (pos <? 0) eqn:Ep; [split; [exists k; exact R | right; left; reflexivity]|].
    apply Z.ltb_ge in Ep.
    destruct (fast_ok s pos) eqn:Ef; cbn [fst snd].
    + split; [exists k; apply fast_RI; assumption | left; reflexivity].
    + split; [|left; reflexivity]. eexists.
      exact (proj1 (slow_RI s pos (i_recs _ _ R) (ri_bounds _ _ R) Ep)).
Qed.

(* after a chunk has been delivered and verified the reader lands on the next record *)
Lemma h_hint_next s k :
  RI s k -> chk_rsize s = zN (z_outoff (r_zr s)) -> r_discard s = 0 ->
  hint_ri s (r_offset s) = Z.min (k + 1) L.
Proof.
  intros R Hrs Hd. pose proof (i_k _ _ R) as Hk. pose proof (ri_bounds _ _ R) as Hri.
  unfold hint_ri. rewrite (i_recs _ _ R), (get_records_eq T _ Hri), (i_ri _ _ R).
  destruct (i_lp _ _ R) as [Hlp|(G1 & G2 & G3 & G4 & G5)].
  - assert (Ho : r_offset s = RawOffset (cu k)) by (rewrite (i_rsize _ _ R) in Hrs; lia).
    rewrite Ho.
    destruct (Z.eq_dec k L) as [->|Hn].
    + replace (Z.min (L + 1) L) with L by lia. rewrite h_pv_L, h_cu_L, !Z.leb_refl. reflexivity.
    + replace (Z.min (k + 1) L) with (k + 1) by lia.
      rewrite (pv_succ T k) by lia. rewrite Z.leb_refl. cbn [andb].
      pose proof (h_pv_cu (k + 1) ltac:(lia)) as H. rewrite (pv_succ T k) in H by lia.
      replace (RawOffset (cu k) <=? RawOffset (cu (k + 1))) with true by (symmetry; apply Z.leb_le; exact H).
      reflexivity.
  - subst k. replace (Z.min (L + 1) L) with L by lia. rewrite h_cu_L.
    replace (r_offset s <=? endp) with false by (symmetry; apply Z.leb_gt; exact G1).
    rewrite andb_false_r.
    pose proof (search_spec T (r_offset s) h_sorted) as H. cbv zeta in H. fold L in H.
    destruct H as [H1 [_ H3]]. destruct H3 as [H3|H3]; [exact H3|].
    exfalso. set (ri := search T (r_offset s)) in *.
    assert (ri < L).
    { destruct (Z.eq_dec ri L) as [E|E]; [|lia]. exfalso. rewrite E in H3.
      unfold RO, nth_rec in H3.
      replace (L <? 0) with false in H3 by (symmetry; apply Z.ltb_ge; lia).
      rewrite nth_overflow in H3 by (unfold Refine.L, zlen; lia). cbn in H3. pose proof (i_off _ _ R). lia. }
    assert (RO T ri <= endp) by (rewrite h_endp; apply h_mono; lia). lia.
Qed.

Lemma chunk_end_total s k :
  RI s k -> r_err s = None -> r_discard s = 0 ->
  (r_err (chunk_end s) = Some ECorrupted /\ RI (chunk_end s) k) \/
  (r_err (chunk_end s) = Some EEOF /\ exists k', RI (chunk_end s) k') \/
  (r_err (chunk_end s) = None /\ k < L /\ RI (chunk_end s) (k + 1) /\ r_discard (chunk_end s) = 0).
Proof.
  intros R He Hd. unfold chunk_end.
  destruct ((chk_typ s =? deflateType) && negb (z_sync_ok (r_zr s))).
  { left. split; [reflexivity|].
    replace (r_chk s) with (fst (fst (r_chk s)), snd (fst (r_chk s)), snd (r_chk s))
      by (destruct (r_chk s) as [[? ?] ?]; reflexivity).
    apply RI_set_err; [exact R | right; right; left; reflexivity | reflexivity]. }
  destruct (negb (((if chk_typ s =? footerType then chk_csize s else chk_csize s + 5) =? zN (z_used (r_zr s)))
                  && (chk_rsize s =? zN (z_outoff (r_zr s))))) eqn:E2.
  { left. split; [reflexivity|].
    apply RI_set_err; [exact R | right; right; left; reflexivity | reflexivity]. }
  apply negb_false_iff, andb_true_iff in E2 as [_ E2]. apply Z.eqb_eq in E2.
  rewrite seek_unfold. unfold blocked. rewrite He. unfold spos. cbn [Z.eqb].
  pose proof (i_off _ _ R) as Ho.
  replace (r_offset s <? 0) with false by (symmetry; apply Z.ltb_ge; exact Ho).
  assert (Hf : fast_ok s (r_offset s) = false) by (unfold fast_ok; rewrite Z.ltb_irrefl; reflexivity).
  rewrite Hf.
  destruct (slow_RI s (r_offset s) (i_recs _ _ R) (ri_bounds _ _ R) Ho) as (R1 & E1 & Ht).
  rewrite (h_hint_next s k R E2 Hd) in *.
  set (k' := Z.min (k + 1) L) in *. set (s1 := slow_state s (r_offset s) k') in *.
  pose proof (i_k _ _ R) as Hk.
  destruct (chk_typ s1 =? unknownType) eqn:Eu.
  - right; left. split; [reflexivity|]. exists k'.
    change (RI (mkXR (r_data s1) (r_recs s1) (r_ri s1) (r_offset s1) (r_discard s1) (r_chk s1) (r_zr s1)
                     (Some EEOF) (r_log s1)) k').
    replace (r_chk s1) with (fst (fst (r_chk s1)), snd (fst (r_chk s1)), snd (r_chk s1))
      by (destruct (r_chk s1) as [[? ?] ?]; reflexivity).
    apply RI_set_err; [exact R1 | right; left; reflexivity | reflexivity].
  - right; right. split; [exact E1|].
    assert (Hlt : k < L).
    { destruct (Z.eq_dec k L) as [E|E]; [|lia]. exfalso.
      assert (k' = L) by (unfold k'; lia). rewrite Ht, H, (typ_L T) in Eu. discriminate. }
    split; [exact Hlt|]. replace (k + 1) with k' by (unfold k'; lia). split; [exact R1|].
    (* the next record starts exactly where this one ended: nothing to discard *)
    assert (Hk' : k' = k + 1) by (unfold k'; lia).
    destruct (i_lp _ _ R) as [Hlp|(_ & G2 & _)]; [|lia].
    assert (Hoff : r_offset s = RawOffset (cu k)) by (rewrite (i_rsize _ _ R) in E2; lia).
    pose proof (h_cu_endp k Hk) as Hce.
    unfold s1, slow_state. rewrite (i_recs _ _ R), (get_records_eq T k') by (unfold k'; lia).
    cbn [r_discard]. unfold end_raw. rewrite (i_recs _ _ R). fold endp.
    replace (endp <? r_offset s) with false by (symmetry; apply Z.ltb_ge; lia).
    rewrite Hk', (pv_succ T k) by lia. lia.
Qed.

Lemma discard_RI s k :
  RI s k -> 0 < r_discard s -> RI (discard_state s) k.
Proof.
  intros R Hd. unfold discard_state. destruct R as [R1 R2 R3 R4 R5 R6 R7 R8 R9].
  constructor; cbn [r_recs r_offset r_ri r_discard r_zr r_err r_chk z_outoff z_end z_rest];
    try assumption; try lia.
  - destruct R7 as [R7|(G1 & G2 & G3 & G4 & G5)]; [left; unfold zN in *; lia | lia].
  - left; reflexivity.
Qed.

Lemma data_RI s k n :
  RI s k -> r_discard s = 0 -> z_rest (r_zr s) <> [] -> RI (data_state s n) k.
Proof.
  intros R Hd Hne. unfold data_state. destruct R as [R1 R2 R3 R4 R5 R6 R7 R8 R9].
  constructor; cbn [r_recs r_offset r_ri r_discard r_zr r_err r_chk z_outoff z_end z_rest];
    try assumption; try (unfold zN; lia).
  - destruct R7 as [R7|(G1 & G2 & G3 & G4 & G5)]; [left; unfold zN in *; lia | contradiction].
  - left; reflexivity.
Qed.

Lemma RI_latch s k e : RI s k -> err_ok (Some e) -> RI (latch_err s e) k.
Proof.
  intros R He. unfold latch_err.
  replace (r_chk s) with (fst (fst (r_chk s)), snd (fst (r_chk s)), snd (r_chk s))
    by (destruct (r_chk s) as [[? ?] ?]; reflexivity).
  apply RI_set_err; [exact R | exact He | reflexivity].
Qed.

(* A3, the loop: the budget decreases by at most 2 per record passed, 1 per byte delivered,
   1 for the pending discard, and 2 more for the final (latched) outcome *)
Lemma read_loop_total : forall fuel s n acc k,
  RI s k -> (1 <= fuel)%nat ->
  (r_err s = None ->
   (2 * Z.to_nat (L - k) + N.to_nat n + (if (0 <? r_discard s)%Z then 1 else 0) + 2 <= fuel)%nat) ->
  err_ok (snd (fst (read_loop fuel s n acc))) /\ exists k', RI (snd (read_loop fuel s n acc)) k'.
Proof.
  induction fuel as [|f IH]; intros s n acc k R Hf1 Hf; [lia|].
  destruct (r_err s) as [e|] eqn:He.
  { cbn [read_loop]. rewrite He. cbn [fst snd]. split; [rewrite <- He; exact (i_err _ _ R) | exists k; exact R]. }
  specialize (Hf eq_refl). pose proof (i_k _ _ R) as Hk.
  destruct (n =? 0)%N eqn:En.
  { cbn [read_loop]. rewrite He, En. cbn [fst snd]. split; [left; reflexivity | exists k; exact R]. }
  apply N.eqb_neq in En.
  destruct (0 <? r_discard s) eqn:Ed.
  - apply Z.ltb_lt in Ed. cbn [read_loop]. rewrite He.
    replace (n =? 0)%N with false by (symmetry; apply N.eqb_neq; exact En).
    replace (0 <? r_discard s) with true by (symmetry; apply Z.ltb_lt; exact Ed).
    match goal with |- context[if ?c then read_loop f _ n acc else _] => destruct c end.
    + change (read_loop f _ n acc) with (read_loop f (discard_state s) n acc).
      apply (IH (discard_state s) n acc k (discard_RI s k R Ed)); [lia|].
      intros _. cbn [discard_state r_discard]. cbn. lia.
    + cbn [fst snd].
      assert (Hz : err_ok (Some (match z_end (r_zr s) with Some e => e | None => ECorrupted end))).
      { destruct (i_zend _ _ R) as [E|[E|E]]; rewrite E;
          [right; right; left | right; right; right; left | right; right; left]; reflexivity. }
      split; [exact Hz|]. exists k.
      replace (r_chk s) with (fst (fst (r_chk s)), snd (fst (r_chk s)), snd (r_chk s))
        by (destruct (r_chk s) as [[? ?] ?]; reflexivity).
      apply RI_set_err; [exact R | exact Hz | reflexivity].
  - apply Z.ltb_ge in Ed. pose proof (i_disc _ _ R) as Hd.
    assert (Hd0 : r_discard s = 0) by lia.
    destruct (z_rest (r_zr s)) as [|b rest] eqn:Hz.
    + cbn [read_loop]. rewrite He.
      replace (n =? 0)%N with false by (symmetry; apply N.eqb_neq; exact En).
      replace (0 <? r_discard s) with false by (symmetry; apply Z.ltb_ge; exact Ed).
      rewrite (zr_read_nil _ _ Hz).
      destruct (z_end (r_zr s)) as [e|] eqn:Eze.
      * cbn [fst snd].
        assert (Hzo : err_ok (Some e)).
        { destruct (i_zend _ _ R) as [E|[E|E]]; rewrite Eze in E; inversion E; subst;
            [right; right; right; left | right; right; left]; reflexivity. }
        split; [exact Hzo|]. exists k.
        destruct R as [R1 R2 R3 R4 R5 R6 R7 R8 R9].
        constructor; cbn [r_recs r_offset r_ri r_discard r_zr r_err r_chk]; try assumption; try lia.
        destruct R7 as [R7|(G1 & G2 & G3 & G4 & G5)]; [left; lia | right; repeat split; try assumption; reflexivity].
      * destruct (chunk_end_total s k R He Hd0) as [[E1 R1]|[[E1 [k' R1]]|[E1 [Hlt [R1 Hdz]]]]].
        -- apply (IH (chunk_end s) n acc k R1); [lia|]. rewrite E1. discriminate.
        -- apply (IH (chunk_end s) n acc k' R1); [lia|]. rewrite E1. discriminate.
        -- apply (IH (chunk_end s) n acc (k + 1) R1); [lia|]. intros _.
           rewrite Hdz. cbn [Z.ltb Z.compare]. lia.
    + assert (Hne : z_rest (r_zr s) <> []) by (rewrite Hz; discriminate).
      rewrite (read_loop_data_step f s n acc He En Ed Hne). cbv zeta.
      try rewrite <- Hz in *.
      set (chunk := firstn (N.to_nat n) (z_rest (r_zr s))).
      assert (Hm1 : (1 <= length chunk)%nat).
      { unfold chunk. rewrite firstn_length, Hz. cbn [length]. lia. }
      assert (Hmn : (length chunk <= N.to_nat n)%nat).
      { unfold chunk. rewrite firstn_length. lia. }
      pose proof (data_RI s k n R Hd0 Hne) as Rd.
      destruct (zr_status_now (r_zr (data_state s n))).
      * (* the final status came with these bytes: latched, or the chunk ends, in this call *)
        assert (Hnext : forall sX kX, RI sX kX ->
                  (r_err sX = None ->
                   (2 * Z.to_nat (L - kX) + N.to_nat (n - N.of_nat (length chunk))
                    + (if (0 <? r_discard sX)%Z then 1 else 0) + 2 <= f)%nat) ->
                  err_ok (snd (fst (if (n - N.of_nat (length chunk) =? 0)%N
                                    then (acc ++ chunk, None, sX)
                                    else read_loop f sX (n - N.of_nat (length chunk)) (acc ++ chunk)))) /\
                  exists k', RI (snd (if (n - N.of_nat (length chunk) =? 0)%N
                                      then (acc ++ chunk, None, sX)
                                      else read_loop f sX (n - N.of_nat (length chunk)) (acc ++ chunk))) k').
        { intros sX kX RX HfX. destruct (n - N.of_nat (length chunk) =? 0)%N.
          - cbn [fst snd]. split; [left; reflexivity | exists kX; exact RX].
          - apply (IH sX _ _ kX RX); [lia | exact HfX]. }
        destruct (z_end (r_zr s)) as [e|] eqn:Eze.
        -- assert (Hzo : err_ok (Some e)).
           { destruct (i_zend _ _ R) as [E|[E|E]]; rewrite Eze in E; inversion E; subst;
               [right; right; right; left | right; right; left]; reflexivity. }
           apply (Hnext _ k (RI_latch _ k e Rd Hzo)). cbn [latch_err r_err]. discriminate.
        -- destruct (chunk_end_total (data_state s n) k Rd eq_refl eq_refl)
             as [[E1 R1]|[[E1 [k' R1]]|[E1 [Hlt [R1 Hdz]]]]].
           ++ apply (Hnext _ k R1). rewrite E1. discriminate.
           ++ apply (Hnext _ k' R1). rewrite E1. discriminate.
           ++ apply (Hnext _ (k + 1) R1). intros _. rewrite Hdz. cbn [Z.ltb Z.compare]. lia.
      * apply (IH (data_state s n) _ _ k Rd); [lia|].
        intros _. cbn [data_state r_discard]. cbn [Z.ltb Z.compare]. lia.
Qed.

Lemma read_RI s k n :
  RI s k -> err_ok (snd (fst (read s n))) /\ exists k', RI (snd (read s n)) k'.
Proof.
  intros R. unfold read. apply (read_loop_total _ s n [] k R); [lia|].
  intros _. rewrite (i_recs _ _ R). pose proof (i_k _ _ R). unfold Refine.L, zlen in *.
  destruct (0 <? r_discard s); lia.
Qed.

Definition close_err_ok (o : option err) : Prop := o = None \/ o = Some ECorrupted \/ o = Some EUEOF.

Lemma close_RI s k : RI s k -> RI (snd (close s)) k /\ close_err_ok (fst (close s)).
Proof.
  intros R. unfold close. pose proof (i_err _ _ R) as He.
  assert (Hc : RI (mkXR (r_data s) (r_recs s) (r_ri s) (r_offset s) (r_discard s) (r_chk s) (r_zr s)
                        (Some EClosed) (r_log s)) k).
  { replace (r_chk s) with (fst (fst (r_chk s)), snd (fst (r_chk s)), snd (r_chk s))
      by (destruct (r_chk s) as [[? ?] ?]; reflexivity).
    apply RI_set_err; [exact R | right; right; right; right; reflexivity | reflexivity]. }
  destruct He as [He|[He|[He|[He|He]]]]; rewrite He; cbn [fst snd]; split;
    try exact R; try exact Hc; unfold close_err_ok; auto.
Qed.

Definition obs_ok (o : robs) : Prop :=
  match o with
  | OSeek _ e => seek_err_ok e
  | ORead _ e => err_ok e
  | OClose e => close_err_ok e
  end.

Lemma step_RI s k o : RI s k -> obs_ok (fst (rstep s o)) /\ exists k', RI (snd (rstep s o)) k'.
Proof.
  intros R. destruct o as [off wh | n |]; cbn [rstep].
  - destruct (seek_RI s k off wh R) as [H1 H2]. destruct (seek s off wh) as [[p e] s']. cbn [fst snd] in *.
    split; assumption.
  - destruct (read_RI s k n R) as [H1 H2]. destruct (read s n) as [[b e] s']. cbn [fst snd] in *.
    split; assumption.
  - destruct (close_RI s k R) as [H1 H2]. destruct (close s) as [e s']. cbn [fst snd] in *.
    split; [exact H2 | exists k; exact H1].
Qed.

Lemma run_RI ops : forall s k, RI s k ->
  Forall obs_ok (fst (rrun s ops)) /\ exists k', RI (snd (rrun s ops)) k'.
Proof.
  induction ops as [|o ops IH]; intros s k R; cbn [rrun].
  - split; [constructor | exists k; exact R].
  - destruct (step_RI s k o R) as [H1 [k1 R1]]. destruct (rstep s o) as [ob s']. cbn [fst snd] in *.
    destruct (IH s' k1 R1) as [H2 H3]. destruct (rrun s' ops) as [obs s'']. cbn [fst snd] in *.
    split; [constructor; assumption | exact H3].
Qed.
End Hostile.

(* ---- A3 for every stream the Reader opens ------------------------------------------------- *)
Lemma open_RI data s1 :
  open_reader data = inr s1 ->
  tab_ok (r_recs s1) /\ 1 <= zlen (r_recs s1) /\ exists k, RI (r_recs s1) s1 k.
Proof.
  intros Ho. destruct (open_reader_unfold _ _ Ho) as (back & foot & log & idxs & log' & recs & recs' & _ & _ & E3 & E4 & Es).
  pose proof (merge_indexes_tab _ _ _ E3 tab_ok_nil) as Ht.
  destruct (append_record_tab _ _ _ _ _ E4 Ht) as [Ht' (x & Hx & _)].
  assert (HL : 1 <= zlen recs') by (rewrite Hx; unfold zlen; rewrite app_length; cbn [length]; lia).
  set (s0 := mkXR data recs' 0 0 0 (0, 0, 0) (mkZr [] 0 None 0 false false) None log') in *.
  assert (Hr : r_recs s1 = recs') by (rewrite Es, seek_keeps_recs; reflexivity).
  rewrite Hr. split; [exact Ht'|]. split; [exact HL|].
  rewrite Es, seek_unfold. unfold blocked, spos. cbn [s0 r_err Z.eqb Z.ltb Z.compare].
  assert (Hf : fast_ok s0 0 = false) by reflexivity. rewrite Hf. cbn [snd].
  eexists. apply (slow_RI recs' Ht' HL s0 0); [reflexivity | cbn [s0 r_ri]; unfold Refine.L; lia | lia].
Qed.

(* A3. For EVERY byte string the Reader opens and EVERY history of Seek / Read / Close calls:
   each Read ends with nil, io.EOF, Corrupted, UnexpectedEOF or Closed; each Seek with nil,
   Invalid (bad whence / negative target) or a latched Corrupted / UnexpectedEOF / Closed;
   each Close with nil or a latched Corrupted / UnexpectedEOF. In particular the Read loop's
   budget [2 * length recs + n + 8] of the model is never exhausted (EFuel is in none of the
   classes), and no EPanic / EInternal is ever observed. *)
Theorem reader_total data s1 ops :
  open_reader data = inr s1 -> Forall obs_ok (fst (rrun s1 ops)).
Proof.
  intros Ho. destruct (open_RI _ _ Ho) as (Ht & HL & k & R).
  exact (proj1 (run_RI (r_recs s1) Ht HL ops s1 k R)).
Qed.

Theorem read_budget_suffices data s1 ops n :
  open_reader data = inr s1 ->
  let s := snd (rrun s1 ops) in
  err_ok (snd (fst (read s n))) /\ snd (fst (read s n)) <> Some EFuel /\ snd (fst (read s n)) <> Some EPanic.
Proof.
  intros Ho. cbv zeta. destruct (open_RI _ _ Ho) as (Ht & HL & k & R).
  destruct (run_RI (r_recs s1) Ht HL ops s1 k R) as [_ [k' R']].
  destruct (read_RI (r_recs s1) Ht HL _ k' n R') as [He _].
  split; [exact He|].
  split; intros E; rewrite E in He; destruct He as [H|[H|[H|[H|H]]]]; discriminate.
Qed.

(* the record index of every reachable state stays inside the table (Go: xr.ri) *)
Theorem reader_ri_in_range data s1 ops :
  open_reader data = inr s1 ->
  let s := snd (rrun s1 ops) in
  r_recs s = r_recs s1 /\ 0 <= r_ri s <= zlen (r_recs s) /\ 0 <= r_offset s /\ 0 <= r_discard s.
Proof.
  intros Ho. cbv zeta. destruct (open_RI _ _ Ho) as (Ht & HL & k & R).
  destruct (run_RI (r_recs s1) Ht HL ops s1 k R) as [_ [k' R']].
  assert (H : 0 <= r_ri (snd (rrun s1 ops)) <= zlen (r_recs s1)).
  { pose proof (i_ri _ _ _ R') as H1. pose proof (i_k _ _ _ R') as H2. unfold Refine.L in *. lia. }
  rewrite (i_recs _ _ _ R'). split; [reflexivity|]. split; [exact H|].
  split; [exact (i_off _ _ _ R') | exact (i_disc _ _ _ R')].
Qed.

(* ================= A4: no slice index out of range ======================================== *)
(* The model reads the table through [nth_rec], which answers [rec0] outside the table. The
   functions below are the same code with a CHECKED access ([None] where Go would panic with
   "index out of range"); they never answer [None] and agree with the model's functions, for
   every table (sorted or not) and every argument. *)
Definition nth_chk (recs : list record) (i : Z) : option record :=
  if (i <? 0) || (zlen recs <=? i) then None else Some (nth (Z.to_nat i) recs rec0).

Lemma nth_chk_some recs i : 0 <= i < zlen recs -> nth_chk recs i = Some (nth_rec recs i).
Proof.
  intros H. unfold nth_chk, nth_rec.
  replace (i <? 0) with false by (symmetry; apply Z.ltb_ge; lia).
  replace (zlen recs <=? i) with false by (symmetry; apply Z.leb_gt; lia). reflexivity.
Qed.

(* Search: recs[imid] always; recs[imid+1] only behind the short-circuit imid+1 >= len *)
Fixpoint search_loop_chk (fuel : nat) (recs : list record) (offset imin imax : Z) : option Z :=
  match fuel with
  | O => if imax <? imin then Some (-1) else None      (* budget exhausted inside the loop *)
  | S f =>
    if imax <? imin then Some (-1) else
    let imid := (imin + imax) / 2 in
    match nth_chk recs imid with
    | None => None
    | Some rm =>
      let gteCurr := RawOffset rm <=? offset in
      match (if zlen recs <=? imid + 1 then Some true
             else match nth_chk recs (imid + 1) with
                  | None => None
                  | Some rn => Some (offset <? RawOffset rn) end) with
      | None => None
      | Some ltNext =>
        if gteCurr && ltNext then Some imid
        else if gteCurr then search_loop_chk f recs offset (imid + 1) imax
        else search_loop_chk f recs offset imin (imid - 1)
      end
    end
  end.

Lemma search_loop_chk_ok recs offset : forall fuel imin imax,
  0 <= imin -> imax <= zlen recs - 1 -> imax - imin + 1 <= Z.of_nat fuel ->
  search_loop_chk fuel recs offset imin imax = Some (search_loop fuel recs offset imin imax).
Proof.
  induction fuel as [|f IH]; intros imin imax H0 H1 Hf; cbn [search_loop_chk search_loop].
  - replace (imax <? imin) with true by (symmetry; apply Z.ltb_lt; lia). reflexivity.
  - destruct (imax <? imin) eqn:E; [reflexivity|]. apply Z.ltb_ge in E.
    set (imid := (imin + imax) / 2).
    assert (Hm : imin <= imid <= imax)
      by (unfold imid; split; [apply Z.div_le_lower_bound | apply Z.div_le_upper_bound]; lia).
    rewrite nth_chk_some by lia.
    destruct (zlen recs <=? imid + 1) eqn:E2.
    + cbn [orb]. destruct (RawOffset (nth_rec recs imid) <=? offset); cbn [andb]; [reflexivity|].
      apply IH; lia.
    + apply Z.leb_gt in E2. rewrite nth_chk_some by lia. cbn [orb].
      destruct (RawOffset (nth_rec recs imid) <=? offset); cbn [andb].
      * destruct (offset <? RawOffset (nth_rec recs (imid + 1))); [reflexivity | apply IH; lia].
      * apply IH; lia.
Qed.

Definition search_chk (recs : list record) (offset : Z) : option Z :=
  option_map (fun i => i + 1) (search_loop_chk (S (length recs)) recs offset 0 (zlen recs - 1)).

Theorem search_chk_ok recs offset : search_chk recs offset = Some (search recs offset).
Proof.
  unfold search_chk, search. rewrite search_loop_chk_ok by (unfold zlen; lia). reflexivity.
Qed.

(* GetRecords: recs[i-1] and recs[i] behind their explicit range tests *)
Definition get_records_chk (recs : list record) (i : Z) : option (record * record) :=
  let n := zlen recs in
  let i := if n <? i then n else i in
  match (if (0 <=? i - 1) && (i - 1 <? n) then nth_chk recs (i - 1) else Some rec0) with
  | None => None
  | Some prev =>
    match (if (0 <=? i) && (i <? n) then nth_chk recs i
           else Some (mkRec (CompOffset prev) (RawOffset prev) unknownType)) with
    | None => None
    | Some curr => Some (prev, curr)
    end
  end.

Theorem get_records_chk_ok recs i : get_records_chk recs i = Some (get_records recs i).
Proof.
  unfold get_records_chk, get_records. cbv zeta.
  set (j := if zlen recs <? i then zlen recs else i).
  destruct ((0 <=? j - 1) && (j - 1 <? zlen recs)) eqn:E1.
  - apply andb_true_iff in E1 as [A B]. apply Z.leb_le in A. apply Z.ltb_lt in B.
    rewrite nth_chk_some by lia.
    destruct ((0 <=? j) && (j <? zlen recs)) eqn:E2; [|reflexivity].
    apply andb_true_iff in E2 as [C D]. apply Z.leb_le in C. apply Z.ltb_lt in D.
    rewrite nth_chk_some by lia. reflexivity.
  - destruct ((0 <=? j) && (j <? zlen recs)) eqn:E2; [|reflexivity].
    apply andb_true_iff in E2 as [C D]. apply Z.leb_le in C. apply Z.ltb_lt in D.
    rewrite nth_chk_some by lia. reflexivity.
Qed.

(* LastRecord: recs[len-1] behind len > 0 *)
Definition last_record_chk (recs : list record) : option record :=
  if 0 <? zlen recs then nth_chk recs (zlen recs - 1) else Some rec0.

Theorem last_record_chk_ok recs : last_record_chk recs = Some (last_record recs).
Proof.
  unfold last_record_chk. destruct (0 <? zlen recs) eqn:E.
  - apply Z.ltb_lt in E. rewrite nth_chk_some by lia.
    rewrite last_nth_rec; [reflexivity|]. intros E0. rewrite E0 in E. cbn in E. lia.
  - apply Z.ltb_ge in E. destruct recs; [reflexivity | unfold zlen in E; cbn [length] in E; lia].
Qed.

(* decodeFooter: bufRaw[:3] behind len >= 3; bufRaw[3+cnt:] needs cnt <= len(bufRaw[3:]), which
   is binary.Uvarint's contract; decodeIndex: bw.Bytes()[:Len()-4] behind Len() > 4 *)
Theorem uvarint_count_in_buffer buf v n : uvarint buf = (v, n) -> n <= Z.of_nat (length buf).
Proof. intros H. apply uvarint_loop_n in H. lia. Qed.

Theorem footer_slice_in_range raw v cnt :
  (3 <= length raw)%nat -> uvarint (skipn 3 raw) = (v, cnt) -> 0 < cnt ->
  (3 + Z.to_nat cnt <= length raw)%nat.
Proof.
  intros H3 Hu Hc. apply uvarint_count_in_buffer in Hu. rewrite skipn_length in Hu. lia.
Qed.

(* ================= non-vacuity and witnesses ================================================= *)
(* both failure classes of A1 occur *)
Example open_corrupted_witness : open_reader [] = inl ECorrupted.
Proof. vm_compute. reflexivity. Qed.

Example open_ueof_witness : open_reader (firstn 100 w_stream) = inl EUEOF.
Proof. vm_compute. reflexivity. Qed.

(* the hypotheses of A2 on a real stream: footer found, budget above pos/4 *)
Example open_walk_budget_witness :
  decode_footer w_stream = inr (30, 18%N, [(42, 64)]%N) /\
  zN (flen w_stream - 18) < 4 * Z.of_nat 23 /\
  decode_indexes_loop 23 w_stream (zN (flen w_stream - 18)) 30 0 [] [(42, 64)]%N =
  decode_indexes_loop (S (length w_stream)) w_stream (zN (flen w_stream - 18)) 30 0 [] [(42, 64)]%N.
Proof. vm_compute. repeat split; reflexivity. Qed.

(* a HOSTILE stream the Reader opens (the witness stream with one byte of its second chunk
   changed: the index is intact, the chunk is not what the table says). A3 applies to it; the
   history below shows Corrupted being reached, latched, and reported by Seek and Close, and
   io.EOF not blocking a later Seek. *)
Definition hostile_stream : list byte := firstn 25 w_stream ++ 7%N :: skipn 26 w_stream.

Example hostile_stream_history :
  match open_reader hostile_stream with
  | inr s =>
    fst (rrun s [RSeek 33 0; RRead 41; RSeek 0 0; RRead 20; RRead 20; RSeek 0 0; RClose]) =
    [OSeek 33 None; ORead [55; 56; 57; 65; 66; 67; 68]%N (Some EEOF); OSeek 0 None;
     ORead [97; 98; 99; 100; 101; 102; 103; 104; 105; 106; 107; 108; 109; 110; 111; 112; 113; 114; 119]%N
           (Some ECorrupted);
     ORead [] (Some ECorrupted); OSeek 0 (Some ECorrupted); OClose (Some ECorrupted)]
  | inl _ => False
  end.
Proof. vm_compute. reflexivity. Qed.

Example reader_total_witness :
  exists s, open_reader hostile_stream = inr s /\
    Forall obs_ok (fst (rrun s [RSeek 33 0; RRead 41; RSeek 0 0; RRead 20; RRead 20; RSeek 0 0; RClose])).
Proof.
  destruct (open_reader hostile_stream) as [e|s] eqn:E; [vm_compute in E; discriminate|].
  exists s. split; [reflexivity|]. exact (reader_total _ _ _ E).
Qed.

(* ================= what is NOT proved ========================================================= *)
(* A2 asks, if possible, for "at most length data / 12 indexes": that needs the lower bound below
   on what the meta DECODER accepts (Meta/RoundTrip.v has it for ENCODER output only). Proved
   here is the bound 4 ([meta_decode_used_ge]: the 32-bit magic), hence length data / 4. A hand
   count of the cheapest accepted block gives exactly 96 bits (huffLen 2, 3 or 4: header
   78 - 6h bits, 20 bits for the zeros as two MRepZero, the ones as MOne + MRepLast, trailer
   1 + h bits), so the statement is believed true and tight; a proof needs an optimisation
   argument over all symbol sequences of the block decoder and is not attempted. *)
Definition meta_block_min12_statement : Prop :=
  forall input, mr_err (meta_decode input) = None -> mr_final (meta_decode input) <> FinalNil ->
    (12 <= mr_used (meta_decode input))%N.

Print Assumptions open_reader_total.
Print Assumptions open_walk_budget.
Print Assumptions open_walk_shape.
Print Assumptions reader_total.
Print Assumptions read_budget_suffices.
Print Assumptions reader_ri_in_range.
Print Assumptions search_chk_ok.
Print Assumptions get_records_chk_ok.
Print Assumptions last_record_chk_ok.
