(* Concrete stream (xflate.Writer, Level 6, ChunkSize 16, 40 bytes of
   "abcdefghijklmnopqrstuvwxyz0123456789ABCD") and the history that exposed
   defect D1 in the pre-repair Seek: two forward seeks inside one chunk. *)
From V Require Import Base.Prelude Base.Prog Meta.Model Flate.Spec XFlate.Index XFlate.Reader.

Definition w_stream : list byte :=
 [74;76;74;78;73;77;75;207;200;204;202;206;201;205;203;47;0;0;0;0;255;255;42;44;42;46;41;45;43;175;168;172;50;48;52;50;54;49;5;0;0;0;255;255;50;51;183;176;116;116;114;118;1;0;0;0;255;255;28;128;134;5;128;68;101;83;118;42;43;161;100;103;148;236;140;202;206;42;21;18;74;133;230;211;237;189;7;252;21;192;134;5;0;32;33;171;68;33;123;52;254;255;172;189;119;248].

Definition w_plain : list byte :=
 [97;98;99;100;101;102;103;104;105;106;107;108;109;110;111;112;113;114;115;116;117;118;119;120;121;122;48;49;50;51;52;53;54;55;56;57;65;66;67;68].

Definition run_with (sk : xr -> Z -> Z -> (Z * option err) * xr) : option (list byte) :=
  match open_reader w_stream with
  | inl _ => None
  | inr s0 =>
    let '(_, s1) := sk s0 2%Z 0%Z in
    let '(_, s2) := sk s1 5%Z 0%Z in
    Some (fst (fst (read s2 3)))
  end.

(* the repaired Seek serves plain[5..8) *)
Example D1_fixed : run_with seek = Some [102; 103; 104].
Proof. vm_compute. reflexivity. Qed.

(* the pre-repair Seek served plain[3..6): the pending discard was lost *)
Example C07_D1_refuted : run_with seek_prefix = Some [100; 101; 102] /\
                         [100; 101; 102] <> firstn 3 (skipn 5 w_plain).
Proof. split; [vm_compute; reflexivity | vm_compute; discriminate]. Qed.

(* sequential read of the whole stream returns the original and then EOF *)
Example w_stream_reads_back :
  match open_reader w_stream with
  | inr s0 => fst (read s0 41) = (w_plain, Some EEOF)
  | inl _ => False
  end.
Proof. vm_compute. reflexivity. Qed.
