(* C15: what xflate.Reader accepts vs. what a DEFLATE decoder reads.
   [accepted_content]: open + sequential read to EOF in the Reader model.
   [chunks_nonfinal]: no DEFLATE block that starts inside a data chunk (as
   delimited by the accepted index) carries BFINAL. *)
From V Require Import Base.Prelude Base.Prog Meta.Model Flate.Spec XFlate.Index XFlate.Reader.

Definition accepted_content (data : list byte) : option (list byte) :=
  match open_reader data with
  | inl _ => None
  | inr s0 =>
    let total := Z.to_N (RawOffset (last_record (r_recs s0))) in
    let '((bytes, e), _) := read s0 (total + 1) in
    match e with
    | Some EEOF => Some bytes
    | _ => None
    end
  end.

(* walk the blocks of one chunk: true if some block starting at a bit
   position inside the chunk has BFINAL set (or the chunk does not parse) *)
Definition chunk_blocks_body (depth : nat) (endpos : N) (_ : unit) : prog (unit + bool) :=
  Pos (fun p =>
    if endpos <=? p then Ret (inr false) else
    last <- one_block depth ;;
    if last then Ret (inr true) else Ret (inl tt)).

Definition chunk_has_final (chunk : list byte) : bool :=
  let bits := bytes_to_bits (chunk ++ endBlock) in
  let d := depth_for (length chunk + 5) in
  match run (loop d (chunk_blocks_body d (8 * N.of_nat (length chunk))) tt) (ast_init bits) with
  | Done b _ => b
  | Fail _ _ => true
  end.

Fixpoint chunks_final_scan (data : list byte) (recs : list record) (prev : record) : bool :=
  match recs with
  | [] => false
  | r :: rest =>
    ((RType r =? deflateType)%Z &&
     chunk_has_final (slice data (Z.to_N (CompOffset prev))
                            (Z.to_N (CompOffset r - CompOffset prev))))
    || chunks_final_scan data rest r
  end.

(* classification used by the check: 0 = not accepted, 1 = accepted and all
   chunks free of final blocks, 2 = accepted with a final block inside a chunk *)
Definition c15_class (data : list byte) : N :=
  match open_reader data with
  | inl _ => 0
  | inr s0 =>
    match accepted_content data with
    | None => 0
    | Some _ => if chunks_final_scan data (r_recs s0) rec0 then 2 else 1
    end
  end.

(* ---- the property is false on the current design: witness (D7) ---------- *)
(* a data chunk that is one FINAL stored block whose LEN reaches 5 bytes
   past the chunk, swallowing the end block the reader appends; built by the
   harness with meta.Writer for index and footer *)
