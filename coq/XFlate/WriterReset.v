(* xflate.Writer: Reset, NewWriter and the zero value, on top of XFlate/Writer.v.

   repo/xflate/writer.go:

     func NewWriter(wr, conf) { ...checks...; zw := newFlateWriter(wr, lvl)
                                xw := &Writer{wr: wr, zw: zw, nchk: nchk, nidx: nidx}
                                xw.Reset(wr) }
     func (xw *Writer) Reset(wr) {
        *xw = Writer{wr: wr, mw: xw.mw, zw: xw.zw, nchk: xw.nchk, nidx: xw.nidx, idx: xw.idx}
        if xw.zw == nil { xw.zw, _ = newFlateWriter(wr, DefaultCompression) } else { xw.zw.Reset(wr) }
        if xw.nchk == 0 { xw.nchk = DefaultChunkSize }
        if xw.nidx == 0 { xw.nidx = DefaultIndexSize }
        xw.idx.Reset() }

   Reset is the primitive and NewWriter is defined through it, as in the Go
   code. The four steps of Reset are four functions, so that "what is cleared,
   what survives" is readable field by field:

     field of Writer            in [xw]            struct literal      later steps
     InputOffset, OutputOffset  w_in, w_out        cleared
     wr                         w_sink             the new sink
     mw                         (not a field: the meta.Writer is Reset before every
                                 use, encodeIndex / encodeFooter; Meta/WriterImpl*.v)
     zw (compressor + level)    w_lvl, w_ops       kept                zw.Reset: w_ops := []
     idx.Records                w_recs             kept                idx.Reset: [] (capacity kept)
     idx.BackSize               w_back             kept                idx.Reset: 0
     idx.IndexSize              (transient)        kept                idx.Reset: 0
     nidx, nchk                 w_nidx, w_nchk     kept                0 -> default
     err                        w_err              cleared
     scratch                    (transient)        cleared

   The sink of the model is the byte string the underlying io.Writer holds; a
   Reset names the bytes the NEW sink already holds ([pre]; [] for an empty
   buffer, the old contents when the same buffer is passed again).

   The zero value (var xw xflate.Writer; zw == nil) is a state of its own: every
   call that reaches the compressor is a nil dereference (EPanic), Reset makes it a
   level-6 Writer with the default sizes. *)
From V Require Import Base.Prelude Meta.Model XFlate.Index XFlate.Writer.

(* xflate.DefaultCompression (common.go); not flate.DefaultCompression (-1) *)
Definition XDefaultCompression : Z := 6.

(* newFlateWriter(wr, lvl): the level compress/flate is created with; None = refused *)
Definition new_flate_writer (lvl : Z) : option Z :=
  let l := map_level lvl in if level_ok l then Some l else None.

(* ---- Reset, step by step ------------------------------------------------ *)
(* "*xw = Writer{wr: wr, mw: xw.mw, zw: xw.zw, nchk: xw.nchk, nidx: xw.nidx, idx: xw.idx}" *)
Definition reset_literal (s : xw) (pre : list byte) : xw :=
  mkXW pre 0 0 (w_lvl s) (w_ops s) (w_recs s) (w_back s) (w_nidx s) (w_nchk s) None.

(* "xw.zw.Reset(wr)": offsets 0, the compressor's own Reset *)
Definition reset_zw (s : xw) : xw :=
  mkXW (w_sink s) (w_in s) (w_out s) (w_lvl s) [] (w_recs s) (w_back s) (w_nidx s) (w_nchk s) (w_err s).

(* "if xw.nchk == 0 {...}; if xw.nidx == 0 {...}" *)
Definition reset_defaults (s : xw) : xw :=
  mkXW (w_sink s) (w_in s) (w_out s) (w_lvl s) (w_ops s) (w_recs s) (w_back s)
       (if (w_nidx s =? 0)%Z then DefaultIndexSize else w_nidx s)
       (if w_nchk s =? 0 then DefaultChunkSize else w_nchk s) (w_err s).

(* "xw.idx.Reset()": *idx = index{Records: idx.Records[:0]} *)
Definition reset_idx (s : xw) : xw :=
  mkXW (w_sink s) (w_in s) (w_out s) (w_lvl s) (w_ops s) [] 0 (w_nidx s) (w_nchk s) (w_err s).

Definition w_reset (s : xw) (pre : list byte) : xw :=
  reset_idx (reset_defaults (reset_zw (reset_literal s pre))).

(* the regression "Reset keeps the back size of the previous stream's last index":
   idx.Reset() replaced by "xw.idx.Records = xw.idx.Records[:0]" *)
Definition reset_idx_keepback (s : xw) : xw :=
  mkXW (w_sink s) (w_in s) (w_out s) (w_lvl s) (w_ops s) [] (w_back s) (w_nidx s) (w_nchk s) (w_err s).
Definition w_reset_keepback (s : xw) (pre : list byte) : xw :=
  reset_idx_keepback (reset_defaults (reset_zw (reset_literal s pre))).

(* ---- NewWriter ----------------------------------------------------------- *)
(* the Writer value NewWriter builds before it calls Reset; [nchk]/[nidx] may be 0 here *)
Definition writer_literal (pre : list byte) (l : Z) (nchk : N) (nidx : Z) : xw :=
  mkXW pre 0 0 l [] [] 0 nidx nchk None.

(* NewWriter(wr, &WriterConfig{Level: lvl, ChunkSize: chunk, IndexSize: idx}); a nil conf is
   (0, 0, 0) *)
Definition new_writer_go (pre : list byte) (lvl chunk idx : Z) : err + xw :=
  if (chunk <? 0)%Z then inl EInvalid else
  let nchk := if (0 <? chunk)%Z then Z.to_N chunk else 0 in
  let nidx := if (idx <? 0)%Z then (-1)%Z else if (0 <? idx)%Z then idx else 0%Z in
  match new_flate_writer lvl with
  | None => inl EInvalid
  | Some l => inr (w_reset (writer_literal pre l nchk nidx) pre)
  end.

(* the state NewWriter ends in, given the level of the compressor and the effective sizes *)
Definition w_fresh (pre : list byte) (l : Z) (nidx : Z) (nchk : N) : xw :=
  mkXW pre 0 0 l [] [] 0 nidx nchk None.

Definition eff_nidx (s : xw) : Z := if (w_nidx s =? 0)%Z then DefaultIndexSize else w_nidx s.
Definition eff_nchk (s : xw) : N := if w_nchk s =? 0 then DefaultChunkSize else w_nchk s.

(* ---- states and operations with Reset ------------------------------------ *)
Inductive xwS := WZero | WLive (s : xw).

Inductive xwop := WsOp (o : wop) | WsReset (pre : list byte).

(* one observation: what the call returned, then InputOffset, OutputOffset and the bytes the
   current sink holds *)
Definition xwobs : Type := (N * option err) * (N * N * list byte).

Definition ws_view (st : xwS) : N * N * list byte :=
  match st with
  | WZero => (0, 0, [])
  | WLive s => (w_in s, w_out s, w_sink s)
  end.

(* the zero Writer: Write(nil/empty) and Flush(invalid mode) return before the compressor is
   touched; Write(non-empty), Flush(Sync|Full|Index) and Close dereference xw.zw == nil *)
Definition zero_step (o : wop) : N * option err :=
  match o with
  | WWrite [] => (0, None)
  | WWrite _ => (0, Some EPanic)
  | WFlush FlushInvalid => (0, Some EInvalid)
  | WFlush _ => (0, Some EPanic)
  | WClose => (0, Some EPanic)
  end.

Definition ws_reset (st : xwS) (pre : list byte) : xwS :=
  match st with
  | WZero =>
    (* literal: everything zero; zw == nil: newFlateWriter(wr, DefaultCompression) *)
    match new_flate_writer XDefaultCompression with
    | Some l => WLive (reset_idx (reset_defaults (writer_literal pre l 0 0)))
    | None => WZero     (* unreachable: level 6 is accepted *)
    end
  | WLive s => WLive (w_reset s pre)
  end.

Section Run.
  Variable deflate : Z -> list cop -> list byte.

  Definition ws_step (st : xwS) (o : xwop) : xwobs * xwS :=
    match o with
    | WsReset pre => let st' := ws_reset st pre in (((0, None), ws_view st'), st')
    | WsOp w =>
      match st with
      | WZero => ((zero_step w, ws_view WZero), WZero)
      | WLive s => let '(r, s') := wstep deflate s w in ((r, ws_view (WLive s')), WLive s')
      end
    end.

  Fixpoint ws_run (st : xwS) (ops : list xwop) : list xwobs * xwS :=
    match ops with
    | [] => ([], st)
    | o :: r =>
      let '(ob, st') := ws_step st o in
      let '(obs, st'') := ws_run st' r in
      (ob :: obs, st'')
    end.

  (* the task's names *)
  Definition w_run := ws_run.

  (* same with the regression *)
  Definition ws_step_keepback (st : xwS) (o : xwop) : xwobs * xwS :=
    match o, st with
    | WsReset pre, WLive s => let st' := WLive (w_reset_keepback s pre) in (((0, None), ws_view st'), st')
    | _, _ => ws_step st o
    end.
  Fixpoint ws_run_keepback (st : xwS) (ops : list xwop) : list xwobs * xwS :=
    match ops with
    | [] => ([], st)
    | o :: r =>
      let '(ob, st') := ws_step_keepback st o in
      let '(obs, st'') := ws_run_keepback st' r in
      (ob :: obs, st'')
    end.
End Run.

(* entry point of the correspondence kind xwr: "zero" starts from the zero value, otherwise
   NewWriter(conf) onto a sink holding [pre] *)
Definition xwr_start (zero : bool) (pre : list byte) (lvl chunk idx : Z) : err + xwS :=
  if zero then inr WZero else
  match new_writer_go pre lvl chunk idx with
  | inl e => inl e
  | inr s => inr (WLive s)
  end.
