(* Reset makes a used xflate.Writer / xflate.Reader indistinguishable from a new one (C14),
   for the models of XFlate/WriterReset.v and XFlate/ReaderReset.v.

   Writer: for EVERY state [s] (closed, failed, mid-chunk, index records pending, a back size
   from a flushed index ...) [w_reset s pre] IS the state NewWriter returns for the configuration
   the Writer holds, on a sink holding [pre] - for any behaviour of the external compressor
   ([deflate] is universally quantified; the model resets it by its own Reset, [w_ops := []]).
   Hence every later history (further Resets included) is observed call by call - return
   values, InputOffset, OutputOffset, bytes of the sink - as on a new Writer.
   The regression "Reset keeps idx.BackSize" is refuted by a witness.

   Reader: for EVERY state, Reset followed by any history (further Resets included) gives the
   same observations, the log of accesses to the source included, as NewReader followed by the
   same history. Here the two states are NOT always equal: the decompressor object survives
   Reset with the offsets of the abandoned chunk, and when the open phase fails it is not reset;
   the relation [rsim] (equal up to the decompressor when an error is latched) is preserved by
   every operation and implies equal observations. When the open phase succeeds the states are
   equal. *)
From V Require Import Base.Prelude Base.Prog Base.ProgThms Base.OkThms Meta.Model Meta.DecTotal Flate.Spec
  XFlate.Index XFlate.Writer XFlate.Reader XFlate.Thms XFlate.Total XFlate.Witness XFlate.K1Witness
  XFlate.WriterReset XFlate.ReaderReset.
From Coq Require Import ZifyBool ZifyN ZifyNat.
Local Open Scope N_scope.

(* ======================================================================================== *)
(* Writer                                                                                   *)
(* ======================================================================================== *)

(* the configuration a Writer object holds: the level its compressor was created with and the
   two sizes. Go never holds other values: compress/flate refuses levels outside -2..9 and
   NewWriter stores -1 or a positive IndexSize (0 only between the literal and Reset) *)
Definition cfg_ok (s : xw) : Prop := level_ok (w_lvl s) = true /\ (-1 <= w_nidx s)%Z.

Lemma map_level_invol l : map_level (map_level l) = l.
Proof.
  unfold map_level.
  destruct (l =? 0)%Z eqn:E0; [apply Z.eqb_eq in E0; subst; reflexivity|].
  destruct (l =? -1)%Z eqn:E1; [apply Z.eqb_eq in E1; subst; reflexivity|].
  rewrite E0, E1. reflexivity.
Qed.

(* Reset of ANY state is the fresh state of its configuration *)
Lemma w_reset_fresh s pre : w_reset s pre = w_fresh pre (w_lvl s) (eff_nidx s) (eff_nchk s).
Proof. reflexivity. Qed.

(* which fields Reset reads: only the configuration *)
Lemma w_reset_history_independent s t pre :
  w_lvl s = w_lvl t -> w_nidx s = w_nidx t -> w_nchk s = w_nchk t -> w_reset s pre = w_reset t pre.
Proof. intros H1 H2 H3. rewrite !w_reset_fresh. unfold eff_nidx, eff_nchk. rewrite H1, H2, H3. reflexivity. Qed.

(* NewWriter as written in writer.go is the [new_writer] of XFlate/Writer.v (empty sink) *)
Theorem new_writer_go_agrees lvl chunk idx : new_writer_go [] lvl chunk idx = new_writer lvl chunk idx.
Proof.
  unfold new_writer_go, new_writer, new_flate_writer.
  destruct (chunk <? 0)%Z eqn:Ec; [reflexivity|].
  destruct (level_ok (map_level lvl)); cbn [negb]; [|reflexivity].
  rewrite w_reset_fresh. unfold w_fresh, writer_literal, eff_nidx, eff_nchk. cbn [w_lvl w_nidx w_nchk].
  f_equal. f_equal.
  - destruct (idx <? 0)%Z eqn:E1; [reflexivity|].
    destruct (0 <? idx)%Z eqn:E2; destruct (idx =? 0)%Z eqn:E3; try reflexivity; lia.
  - destruct (0 <? chunk)%Z eqn:E2; destruct (chunk =? 0)%Z eqn:E3; try reflexivity; try lia.
    destruct (Z.to_N chunk =? 0) eqn:E4; [lia | reflexivity].
Qed.

(* THEOREM (every state). Reset onto a sink holding [pre] gives exactly the state
   NewWriter(sink, conf) returns, [conf] being the configuration the Writer holds. *)
Theorem xw_reset_is_newwriter s pre : cfg_ok s ->
  new_writer_go pre (map_level (w_lvl s)) (Z.of_N (w_nchk s)) (w_nidx s) = inr (w_reset s pre).
Proof.
  intros [Hl Hi]. unfold new_writer_go, new_flate_writer. rewrite map_level_invol, Hl.
  destruct (Z.of_N (w_nchk s) <? 0)%Z eqn:Ec; [lia|].
  f_equal. apply w_reset_history_independent; unfold writer_literal; cbn [w_lvl w_nidx w_nchk].
  - reflexivity.
  - destruct (w_nidx s <? 0)%Z eqn:E1; [lia|].
    destruct (0 <? w_nidx s)%Z eqn:E2; lia.
  - destruct (0 <? Z.of_N (w_nchk s))%Z eqn:E2; lia.
Qed.

(* the zero value: Reset makes it NewWriter(sink, &WriterConfig{Level: 6}) *)
Theorem xw_zero_reset_is_newwriter pre :
  exists s1, new_writer_go pre XDefaultCompression 0 0 = inr s1 /\ ws_reset WZero pre = WLive s1.
Proof. eexists. split; reflexivity. Qed.

Section WR.
  Variable deflate : Z -> list cop -> list byte.

  (* ---- no call changes the configuration ------------------------------------------------ *)
  Definition same_cfg (s t : xw) : Prop :=
    w_lvl s = w_lvl t /\ w_nidx s = w_nidx t /\ w_nchk s = w_nchk t.

  Lemma same_cfg_refl s : same_cfg s s. Proof. repeat split. Qed.
  Lemma same_cfg_trans a b c : same_cfg a b -> same_cfg b c -> same_cfg a c.
  Proof. intros (A1 & A2 & A3) (B1 & B2 & B3). repeat split; congruence. Qed.

  Lemma cfg_zw_call s op : same_cfg (zw_call deflate s op) s. Proof. repeat split. Qed.
  Lemma cfg_set_err s e : same_cfg (set_err s e) s. Proof. repeat split. Qed.
  Lemma cfg_emit s b : same_cfg (emit s b) s. Proof. repeat split. Qed.

  Lemma cfg_flush_index_tail s : same_cfg (flush_index_tail s) s.
  Proof. unfold flush_index_tail. destruct (meta_encode _ _); repeat split. Qed.

  Lemma cfg_flush_full s : same_cfg (flush_full deflate s) s.
  Proof.
    unfold flush_full, flush_sync.
    match goal with |- context[if ?c then _ else _] => destruct c end.
    - eapply same_cfg_trans; [apply cfg_flush_index_tail|]. repeat split.
    - repeat split.
  Qed.

  Lemma cfg_flush_index s : same_cfg (flush_index deflate s) s.
  Proof.
    unfold flush_index. destruct (0 <? _).
    - destruct (w_err (flush_full deflate s)); [apply cfg_flush_full|].
      eapply same_cfg_trans; [apply cfg_flush_index_tail | apply cfg_flush_full].
    - apply cfg_flush_index_tail.
  Qed.

  Lemma cfg_flush s m : same_cfg (snd (flush deflate s m)) s.
  Proof.
    unfold flush. destruct (w_err s); [apply same_cfg_refl|].
    destruct m; cbn [snd]; [apply cfg_zw_call | apply cfg_flush_full | apply cfg_flush_index | apply same_cfg_refl].
  Qed.

  Lemma cfg_write_loop fuel : forall s buf cnt, same_cfg (fst (write_loop deflate fuel s buf cnt)) s.
  Proof.
    induction fuel as [|f IH]; intros s buf cnt; cbn [write_loop]; [apply same_cfg_refl|].
    destruct buf as [|b r]; [apply same_cfg_refl|].
    destruct (w_err s); [apply same_cfg_refl|].
    destruct (w_nchk s <=? zw_in s).
    - eapply same_cfg_trans; [apply IH | apply cfg_flush_full].
    - eapply same_cfg_trans; [apply IH | apply cfg_zw_call].
  Qed.

  Lemma cfg_write s buf : same_cfg (snd (write deflate s buf)) s.
  Proof.
    unfold write. destruct (w_err s); [apply same_cfg_refl|].
    pose proof (cfg_write_loop (2 * length buf + 2) s buf 0) as H.
    destruct (write_loop deflate (2 * length buf + 2) s buf 0) as [s' cnt]. cbn [fst] in H. cbn [snd].
    destruct H as (H1 & H2 & H3). repeat split; assumption.
  Qed.

  Lemma cfg_close s : same_cfg (snd (Writer.close deflate s)) s.
  Proof.
    unfold Writer.close. destruct (w_err s) as [[]|]; try apply same_cfg_refl.
    match goal with |- context[if ?c then flush_index deflate s else s] =>
      set (s1 := if c then flush_index deflate s else s);
      assert (H1 : same_cfg s1 s) by (subst s1; destruct c; [apply cfg_flush_index | apply same_cfg_refl])
    end.
    destruct (w_err s1); [exact H1|].
    destruct (meta_encode _ _); cbn [snd];
      (eapply same_cfg_trans; [|exact H1]); repeat split.
  Qed.

  Lemma cfg_wstep s o : same_cfg (snd (wstep deflate s o)) s.
  Proof.
    destruct o; cbn [wstep].
    - apply cfg_write.
    - pose proof (cfg_flush s m) as H. destruct (flush deflate s m); exact H.
    - pose proof (cfg_close s) as H. destruct (Writer.close deflate s); exact H.
  Qed.

  (* the sizes are set (non-zero) from the first Reset on *)
  Definition sizes_set (s : xw) : Prop := w_nidx s <> 0%Z /\ w_nchk s <> 0.

  Lemma w_reset_sizes_set s pre : sizes_set (w_reset s pre).
  Proof.
    rewrite w_reset_fresh. unfold sizes_set, w_fresh, eff_nidx, eff_nchk. cbn [w_nidx w_nchk]. split.
    - destruct (w_nidx s =? 0)%Z eqn:E; [discriminate | lia].
    - destruct (w_nchk s =? 0) eqn:E; [discriminate | lia].
  Qed.

  Lemma w_reset_same_cfg s pre : sizes_set s -> same_cfg (w_reset s pre) s.
  Proof.
    intros [H1 H2]. rewrite w_reset_fresh. unfold same_cfg, w_fresh, eff_nidx, eff_nchk. cbn [w_lvl w_nidx w_nchk].
    destruct (w_nidx s =? 0)%Z eqn:E1; [lia|]. destruct (w_nchk s =? 0) eqn:E2; [lia|]. repeat split.
  Qed.

  (* every state a Writer made by NewWriter can reach, Resets included, holds the
     configuration it was made with *)
  Definition live_cfg (s0 : xw) (st : xwS) : Prop :=
    match st with WZero => False | WLive s => same_cfg s s0 end.

  Lemma ws_step_cfg s0 st o : sizes_set s0 -> live_cfg s0 st -> live_cfg s0 (snd (ws_step deflate st o)).
  Proof.
    intros Hs H. destruct st as [|s]; [contradiction|]. cbn [live_cfg] in H.
    destruct o as [w|pre]; cbn [ws_step].
    - pose proof (cfg_wstep s w) as H1. destruct (wstep deflate s w) as [r s']. cbn [snd live_cfg] in *.
      eapply same_cfg_trans; eassumption.
    - cbn [ws_reset snd live_cfg]. eapply same_cfg_trans; [|exact H].
      apply w_reset_same_cfg. destruct H as (_ & H2 & H3), Hs as [Hs1 Hs2]. split; congruence.
  Qed.

  Lemma ws_run_cfg s0 ops : forall st, sizes_set s0 -> live_cfg s0 st -> live_cfg s0 (snd (ws_run deflate st ops)).
  Proof.
    induction ops as [|o r IH]; intros st Hs H; cbn [ws_run]; [exact H|].
    pose proof (ws_step_cfg s0 st o Hs H) as H1.
    destruct (ws_step deflate st o) as [ob st']. cbn [snd] in H1.
    specialize (IH st' Hs H1). destruct (ws_run deflate st' r) as [obs st'']. exact IH.
  Qed.

  Lemma new_writer_go_fresh pre lvl chunk idx s0 :
    new_writer_go pre lvl chunk idx = inr s0 ->
    sizes_set s0 /\ level_ok (w_lvl s0) = true /\ (-1 <= w_nidx s0)%Z /\
    forall pre', exists s1, new_writer_go pre' lvl chunk idx = inr s1 /\ same_cfg s1 s0 /\
                            s1 = w_fresh pre' (w_lvl s0) (w_nidx s0) (w_nchk s0).
  Proof.
    unfold new_writer_go, new_flate_writer.
    destruct (chunk <? 0)%Z; [discriminate|].
    destruct (level_ok (map_level lvl)) eqn:El; [|discriminate].
    intros H. inversion H as [H0]. clear H.
    split; [apply w_reset_sizes_set|]. rewrite w_reset_fresh. unfold w_fresh, writer_literal, eff_nidx, eff_nchk.
    cbn [w_lvl w_nidx w_nchk]. split; [exact El|]. split.
    - destruct (idx <? 0)%Z eqn:E1; [cbn; lia|]. destruct (0 <? idx)%Z eqn:E2.
      + destruct (idx =? 0)%Z; unfold DefaultIndexSize; lia.
      + cbn. unfold DefaultIndexSize. lia.
    - intros pre'. eexists. split; [reflexivity|]. split; repeat split.
  Qed.

  (* ---- runs ------------------------------------------------------------------------------ *)
  Lemma ws_run_app a : forall st b,
    ws_run deflate st (a ++ b) =
    (fst (ws_run deflate st a) ++ fst (ws_run deflate (snd (ws_run deflate st a)) b),
     snd (ws_run deflate (snd (ws_run deflate st a)) b)).
  Proof.
    induction a as [|o r IH]; intros st b; cbn [app ws_run fst snd].
    - destruct (ws_run deflate st b); reflexivity.
    - destruct (ws_step deflate st o) as [ob st']. rewrite IH.
      destruct (ws_run deflate st' r) as [obs st'']. cbn [fst snd app]. reflexivity.
  Qed.

  (* equal observations for every later history *)
  Definition w_equiv (a b : xwS) : Prop :=
    forall ops, fst (ws_run deflate a ops) = fst (ws_run deflate b ops).

  (* THEOREM xw_reset_as_new. For EVERY writer state [s] - any history, closed, failed,
     mid-chunk, records pending, whatever the compressor has done - holding the configuration
     (lvl, chunk, idx) of a Writer made by NewWriter: Reset onto a sink holding [pre] gives the
     state of NewWriter on such a sink with that configuration; every later history, further
     Resets included, is observed alike, call by call (returns, offsets, sink bytes) *)
  Theorem xw_reset_as_new : forall (s : xw) lvl chunk idx pre0 s0 pre,
    new_writer_go pre0 lvl chunk idx = inr s0 -> same_cfg s s0 ->
    exists s1, new_writer_go pre lvl chunk idx = inr s1 /\
               ws_reset (WLive s) pre = WLive s1 /\
               w_equiv (ws_reset (WLive s) pre) (WLive s1).
  Proof.
    intros s lvl chunk idx pre0 s0 pre Hn Hc.
    destruct (new_writer_go_fresh _ _ _ _ _ Hn) as (Hs & _ & _ & Hf).
    destruct (Hf pre) as (s1 & H1 & H2 & H3). exists s1. split; [exact H1|].
    assert (E : ws_reset (WLive s) pre = WLive s1).
    { cbn [ws_reset]. f_equal. rewrite H3, w_reset_fresh.
      destruct Hc as (C1 & C2 & C3), Hs as [S1 S2]. unfold eff_nidx, eff_nchk. rewrite C1, C2, C3.
      destruct (w_nidx s0 =? 0)%Z eqn:E1; [lia|]. destruct (w_nchk s0 =? 0) eqn:E2; [lia|]. reflexivity. }
    split; [exact E|]. intros ops. rewrite E. reflexivity.
  Qed.

  (* the same for whole histories: a history through one Writer object is, from each Reset on,
     the history of a new Writer *)
  Theorem xw_reset_as_new_history : forall lvl chunk idx pre0 s0 hist pre ops,
    new_writer_go pre0 lvl chunk idx = inr s0 ->
    exists s1, new_writer_go pre lvl chunk idx = inr s1 /\
      fst (ws_run deflate (WLive s0) (hist ++ WsReset pre :: ops)) =
      fst (ws_run deflate (WLive s0) hist) ++ ((0, None), (0, 0, pre)) :: fst (ws_run deflate (WLive s1) ops).
  Proof.
    intros lvl chunk idx pre0 s0 hist pre ops Hn.
    destruct (new_writer_go_fresh _ _ _ _ _ Hn) as (Hs & _ & _ & _).
    pose proof (ws_run_cfg s0 hist (WLive s0) Hs (same_cfg_refl s0)) as Hc.
    destruct (snd (ws_run deflate (WLive s0) hist)) as [|s] eqn:Es; [contradiction|]. cbn [live_cfg] in Hc.
    destruct (xw_reset_as_new s lvl chunk idx pre0 s0 pre Hn Hc) as (s1 & H1 & H2 & _).
    exists s1. split; [exact H1|].
    rewrite ws_run_app. cbn [fst]. f_equal. rewrite Es. cbn [ws_run ws_step]. rewrite H2.
    destruct (ws_run deflate (WLive s1) ops) as [obs fin]. cbn [fst]. f_equal.
    destruct (new_writer_go_fresh _ _ _ _ _ H1) as (_ & _ & _ & Hf1).
    destruct (Hf1 pre) as (s2 & G1 & _ & G3).
    rewrite H1 in G1. injection G1 as G1. rewrite G1, G3. reflexivity.
  Qed.

  (* every state of the model with a Go-valid configuration, without reference to how the
     Writer was made *)
  Corollary xw_reset_as_new_any_state : forall s pre, cfg_ok s ->
    exists s1, new_writer_go pre (map_level (w_lvl s)) (Z.of_N (w_nchk s)) (w_nidx s) = inr s1 /\
               w_equiv (ws_reset (WLive s) pre) (WLive s1).
  Proof.
    intros s pre H. exists (w_reset s pre). split; [apply xw_reset_is_newwriter; exact H|].
    intros ops. reflexivity.
  Qed.

  (* a history that starts on the zero value: from its first Reset on it is the history of
     NewWriter(sink, &WriterConfig{Level: 6}) *)
  Theorem xw_zero_reset_as_new : forall pre,
    exists s1, new_writer_go pre XDefaultCompression 0 0 = inr s1 /\ w_equiv (ws_reset WZero pre) (WLive s1).
  Proof. intros pre. eexists. split; [reflexivity|]. intros ops. reflexivity. Qed.

  (* the zero value itself never changes and never writes *)
  Theorem xw_zero_inert : forall o, snd (ws_step deflate WZero (WsOp o)) = WZero.
  Proof. intros o. reflexivity. Qed.
End WR.

(* ---- the regression: Reset that keeps idx.BackSize ----------------------------------------- *)
Definition xw_reset_keepback_statement : Prop :=
  forall deflate s pre ops,
    fst (ws_run deflate (WLive (w_reset_keepback s pre)) ops) =
    fst (ws_run deflate (WLive (w_reset s pre)) ops).

(* a compressor that emits nothing: the witness does not depend on the compressor *)
Definition no_deflate (lvl : Z) (ops : list cop) : list byte := [].

(* NewWriter(IndexSize 2, ChunkSize 5, Level 7); Flush(FlushIndex) on the empty stream writes an
   empty index of 19 bytes *)
Definition kb_state : xwS :=
  match new_writer_go [] 7 5 2 with
  | inr s0 => snd (ws_run no_deflate (WLive s0) [WsOp (WFlush FlushIndex)])
  | inl _ => WZero
  end.

Example kb_state_has_back :
  match kb_state with WLive s => w_back s = 19 /\ w_err s = None | WZero => False end.
Proof. vm_compute. split; reflexivity. Qed.

(* Reset, Close: the footer of the next stream carries the stale back size (18 bytes instead of
   the 15 of an empty stream) *)
Theorem xw_reset_keepback_refuted : ~ xw_reset_keepback_statement.
Proof.
  intros H.
  destruct kb_state as [|s] eqn:E; [vm_compute in E; discriminate|].
  specialize (H no_deflate s [] [WsOp WClose]).
  assert (Es : WLive s = kb_state) by (symmetry; exact E).
  vm_compute in Es. inversion Es as [Es']. clear Es E. subst s.
  vm_compute in H. discriminate H.
Qed.

(* ---- Example: a Writer that has flushed an index and has a record pending, mid-chunk ------ *)
(* NewWriter(Level 6, ChunkSize 4, IndexSize 2) over the stored-block compressor of
   XFlate/K1Witness.v; Write of 11 bytes closes two chunks (the second one fills the index, which
   is flushed: BackSize <> 0), Flush(FlushFull) closes the third chunk (one record pending), a
   Write of 2 bytes leaves the compressor mid-chunk *)
Definition ex_hist : list xwop :=
  [WsOp (WWrite [1;2;3;4;5;6;7;8;9;10;11]); WsOp (WFlush FlushFull); WsOp (WWrite [12;13])].
Definition ex_later : list xwop :=
  [WsOp (WWrite [20;21;22;23;24;25]); WsOp (WFlush FlushIndex); WsOp (WWrite [26]); WsOp WClose;
   WsOp (WWrite [1]); WsReset []; WsOp WClose].

Definition ex_used : xwS :=
  match new_writer_go [] 6 4 2 with
  | inr s0 => snd (ws_run stored_deflate (WLive s0) ex_hist)
  | inl _ => WZero
  end.

Example ex_used_nontrivial :
  match ex_used with
  | WLive s => w_back s <> 0 /\ length (w_recs s) = 1%nat /\ w_ops s = [CW [12;13]] /\ w_in s = 13 /\
               same_cfg s (w_fresh [] 6 2 4)
  | WZero => False
  end.
Proof. vm_compute. repeat split; discriminate. Qed.

Example xw_reset_as_new_example :
  match new_writer_go [7;7] 6 4 2 with
  | inr s1 =>
    fst (ws_run stored_deflate ex_used (WsReset [7;7] :: ex_later)) =
    ((0, None), (0, 0, [7;7])) :: fst (ws_run stored_deflate (WLive s1) ex_later)
  | inl _ => False
  end.
Proof. vm_compute. reflexivity. Qed.

(* the same state under the regression is told apart by the same history *)
Example xw_reset_keepback_example :
  match ex_used with
  | WLive s =>
    fst (ws_run stored_deflate (WLive (w_reset_keepback s [7;7])) ex_later) <>
    fst (ws_run stored_deflate (WLive (w_reset s [7;7])) ex_later)
  | WZero => False
  end.
Proof. vm_compute. discriminate. Qed.

(* ======================================================================================== *)
(* Reader                                                                                   *)
(* ======================================================================================== *)
Local Open Scope Z_scope.

(* ---- the open phase never fails with io.EOF (no size bound needed) ------------------------- *)
Lemma meta_decode_err_not_eof input e : mr_err (meta_decode input) = Some e -> e <> EEOF.
Proof.
  unfold meta_decode. set (s := ast_init (bytes_to_bits input)).
  assert (Hw : wf_ast s) by reflexivity.
  pose proof (only_elim merr (decode_stream 40) s (only_decode_stream 40) Hw) as H1.
  destruct (run (decode_stream 40) s) as [[f nb] s'|e' s']; cbn [mr_err]; [discriminate|].
  intros H; inversion H; subst. destruct H1 as [->|[->| ->]]; discriminate.
Qed.

Lemma decode_footer_err_not_eof data e : decode_footer data = inl e -> e <> EEOF.
Proof.
  unfold decode_footer. cbv zeta.
  destruct (reverse_search _) as [idx|]; [|intros H; inversion H; discriminate].
  set (blk := skipn (N.to_nat idx) _).
  pose proof (meta_decode_err_not_eof blk) as Hm.
  destruct (mr_err (meta_decode blk)) as [e'|].
  { intros H; inversion H; subst. apply Hm; reflexivity. }
  repeat match goal with
         | |- (if ?c then _ else _) = _ -> _ => destruct c; [intros H; inversion H; discriminate|]
         | |- (let '(_, _) := ?x in _) = _ -> _ => destruct x
         end.
  discriminate.
Qed.

Lemma decode_index_err_not_eof data pos isize e : decode_index data pos isize = inl e -> e <> EEOF.
Proof.
  unfold decode_index. cbv zeta.
  set (blk := slice data pos isize).
  pose proof (meta_decode_err_not_eof blk) as Hm.
  destruct (mr_err (meta_decode blk)) as [e'|].
  { intros H; inversion H; subst. apply Hm; reflexivity. }
  repeat match goal with
         | |- (if ?c then _ else _) = _ -> _ => destruct c; [intros H; inversion H; discriminate|]
         | |- match ?x with Some _ => _ | None => _ end = _ -> _ =>
             destruct x as [[? ?]|]; [|intros H; inversion H; discriminate]
         | |- match ?x with Some _ => _ | None => _ end = _ -> _ =>
             destruct x; [|intros H; inversion H; discriminate]
         end.
  discriminate.
Qed.

Lemma loop_l_err_not_eof data : forall fuel pos back comp idxs log e i l,
  decode_indexes_loop_l fuel data pos back comp idxs log = (Some e, i, l) -> e <> EEOF.
Proof.
  induction fuel as [|f IH]; intros pos back comp idxs log e i l H; cbn [decode_indexes_loop_l] in H.
  - inversion H; discriminate.
  - destruct (_ || _); [inversion H; discriminate|].
    destruct (back =? 0).
    + destruct (negb _); inversion H; discriminate.
    + destruct (decode_index data _ _) as [e'|[recs back']] eqn:E.
      * inversion H; subst. exact (decode_index_err_not_eof _ _ _ _ E).
      * exact (IH _ _ _ _ _ _ _ _ H).
Qed.

(* ---- the open phase of Reset against [open_reader] ------------------------------------------ *)
Lemma loop_l_agrees data : forall fuel pos back comp idxs log,
  match decode_indexes_loop fuel data pos back comp idxs log with
  | inl e => exists i l, decode_indexes_loop_l fuel data pos back comp idxs log = (Some e, i, l)
  | inr (i, l) => decode_indexes_loop_l fuel data pos back comp idxs log = (None, i, l)
  end.
Proof.
  induction fuel as [|f IH]; intros pos back comp idxs log; cbn [decode_indexes_loop decode_indexes_loop_l].
  - eexists _, _. reflexivity.
  - destruct (_ || _); [eexists _, _; reflexivity|].
    destruct (back =? 0).
    + destruct (negb _); [eexists _, _; reflexivity | reflexivity].
    + destruct (decode_index data _ _) as [e'|[recs back']].
      * eexists _, _. reflexivity.
      * apply IH.
Qed.

Lemma merge_p_agrees idxs : forall recs,
  match merge_indexes recs idxs with
  | Some r => merge_indexes_p recs idxs = (true, r)
  | None => exists r, merge_indexes_p recs idxs = (false, r)
  end.
Proof.
  induction idxs as [|[rs isize] rest IH]; intros recs; cbn [merge_indexes merge_indexes_p]; [reflexivity|].
  destruct (append_index recs rs) as [r1|]; [|eexists; reflexivity].
  destruct (append_record r1 (zN isize) 0 indexType) as [r2|]; [apply IH | eexists; reflexivity].
Qed.

Lemma footer_log_agrees data back foot log : decode_footer data = inr (back, foot, log) -> log = footer_log data.
Proof. intros H. destruct (decode_footer_ok_facts _ _ _ _ H) as (H1 & _). subst log. reflexivity. Qed.

(* the final Seek(0, SeekStart) of Reset does not depend on the surviving decompressor: its
   fast path needs pos > offset, and both are 0 *)
Lemma seek_literal_zr data recs z1 z2 log :
  seek (mkXR data recs 0 0 0 (0, 0, 0) z1 None log) 0 0 = seek (mkXR data recs 0 0 0 (0, 0, 0) z2 None log) 0 0.
Proof.
  unfold seek, seek_gen. cbn [r_err r_offset r_discard r_zr r_recs r_ri r_data r_chk r_log].
  change (0 =? 0) with true. cbv iota. change (0 <? 0) with false. cbn [andb]. reflexivity.
Qed.

(* Reset / NewReader against [open_reader]: the same state on success, the same error on failure *)
Lemma r_open_spec z data :
  match open_reader data with
  | inr s => r_open (reader_literal z data) = s
  | inl e => r_err (r_open (reader_literal z data)) = Some e
  end.
Proof.
  unfold open_reader, r_open, reader_literal. cbn [r_data r_ri r_offset r_discard r_chk r_zr].
  destruct (decode_footer data) as [e|[[back foot] log]] eqn:Ef; [reflexivity|].
  pose proof (loop_l_agrees data (S (length data)) (zN (N.of_nat (length data) - foot)) back 0 [] log) as Hl.
  destruct (decode_indexes_loop _ _ _ _ _ _ _) as [e|[idxs log']].
  - destruct Hl as (i & l & Hl). rewrite Hl. reflexivity.
  - rewrite Hl. pose proof (merge_p_agrees idxs []) as Hm.
    destruct (merge_indexes [] idxs) as [recs|].
    + rewrite Hm. cbn [negb].
      destruct (append_record recs (zN foot) 0 footerType) as [recs'|]; [|reflexivity].
      rewrite (seek_literal_zr data recs' z (mkZr [] 0 None 0 false false) log').
      destruct (seek _ 0 0) as [r s1]. reflexivity.
    + destruct Hm as (r & Hm). rewrite Hm. reflexivity.
Qed.

Theorem new_reader_agrees data :
  match open_reader data with
  | inr s => new_reader data = RLive s
  | inl e => exists s, new_reader data = RLive s /\ r_err s = Some e
  end.
Proof.
  pose proof (r_open_spec zr0 data) as H. unfold new_reader, rs_reset.
  destruct (open_reader data) as [e|s]; [|rewrite H; reflexivity].
  eexists. split; [reflexivity | exact H].
Qed.

(* when the new source opens, the state after Reset is the state of NewReader - for EVERY state *)
Theorem xr_reset_success_state st src s : open_reader src = inr s -> rs_reset st src = RLive s.
Proof.
  intros H. destruct st as [c|s0]; cbn [rs_reset]; unfold r_reset.
  - pose proof (r_open_spec zr0 src) as G. rewrite H in G. rewrite G. reflexivity.
  - pose proof (r_open_spec (r_zr s0) src) as G. rewrite H in G. rewrite G. reflexivity.
Qed.

(* ---- the relation ----------------------------------------------------------------------------- *)
Definition set_zr (s : xr) (z : zrd) : xr :=
  mkXR (r_data s) (r_recs s) (r_ri s) (r_offset s) (r_discard s) (r_chk s) z (r_err s) (r_log s).

(* an error other than io.EOF is latched: Seek, Read and Close return before they touch anything *)
Definition blocked (s : xr) : Prop := exists e, r_err s = Some e /\ e <> EEOF.

(* equal, or equal up to the decompressor object with an error latched *)
Definition rsim (a b : xr) : Prop := a = b \/ (blocked a /\ b = set_zr a (r_zr b)).

Lemma rsim_refl a : rsim a a. Proof. left; reflexivity. Qed.

Lemma rsim_err_log a b : rsim a b -> r_err a = r_err b /\ r_log a = r_log b.
Proof. intros [->|[_ ->]]; split; reflexivity. Qed.

Lemma blocked_step a o e : r_err a = Some e -> e <> EEOF ->
  rstep a o = (match o with
               | RSeek _ _ => OSeek 0 (Some e)
               | RRead _ => ORead [] (Some e)
               | RClose => OClose (if err_eqb e EClosed then None else Some e)
               end, a).
Proof.
  intros He Hne. destruct o as [off wh|n|]; cbn [rstep].
  - unfold seek. rewrite (seek_sticky true a off wh e He Hne). reflexivity.
  - rewrite (read_sticky a n e He). reflexivity.
  - unfold Reader.close. rewrite He. destruct e; try reflexivity. contradiction.
Qed.

Lemma rsim_step a b o : rsim a b ->
  fst (rstep a o) = fst (rstep b o) /\ rsim (snd (rstep a o)) (snd (rstep b o)).
Proof.
  intros [->|[(e & He & Hne) Hb]]; [split; [reflexivity | apply rsim_refl]|].
  assert (Heb : r_err b = Some e) by (rewrite Hb; exact He).
  rewrite (blocked_step a o e He Hne), (blocked_step b o e Heb Hne). cbn [fst snd].
  split; [reflexivity|]. right. split; [exists e; split; assumption | exact Hb].
Qed.

(* the open phase of Reset on two decompressor objects: related states *)
Lemma r_open_zr_indep z1 z2 src : rsim (r_open (reader_literal z1 src)) (r_open (reader_literal z2 src)).
Proof.
  unfold r_open, reader_literal. cbn [r_data r_ri r_offset r_discard r_chk r_zr].
  destruct (decode_footer src) as [e|[[back foot] log]] eqn:Ef.
  { right. split; [exists e; split; [reflexivity | exact (decode_footer_err_not_eof _ _ Ef)] | reflexivity]. }
  destruct (decode_indexes_loop_l _ _ _ _ _ _ _) as [[oe idxs] log'] eqn:El.
  destruct oe as [e|].
  { right. split; [exists e; split; [reflexivity | exact (loop_l_err_not_eof _ _ _ _ _ _ _ _ _ _ El)] | reflexivity]. }
  destruct (merge_indexes_p [] idxs) as [ok recs]. destruct ok; cbn [negb].
  - destruct (append_record recs (zN foot) 0 footerType) as [recs'|].
    + left. rewrite (seek_literal_zr src recs' z1 z2 log'). reflexivity.
    + right. split; [exists ECorrupted; split; [reflexivity | discriminate] | reflexivity].
  - right. split; [exists ECorrupted; split; [reflexivity | discriminate] | reflexivity].
Qed.

(* ---- lifted to the states with the zero value --------------------------------------------------- *)
Definition ssim (x y : xrS) : Prop :=
  match x, y with
  | RZero c, RZero c' => c = c'
  | RLive a, RLive b => rsim a b
  | _, _ => False
  end.

Lemma ssim_refl x : ssim x x.
Proof. destruct x; [reflexivity | apply rsim_refl]. Qed.

Lemma ssim_err_log x y : ssim x y -> rs_err x = rs_err y /\ rs_log x = rs_log y.
Proof.
  destruct x as [c|a], y as [c'|b]; cbn [ssim rs_err rs_log]; try contradiction.
  - intros ->. split; reflexivity.
  - apply rsim_err_log.
Qed.

(* Reset relates ANY two states: nothing but the decompressor object is read from the old one *)
Lemma rs_reset_sim x y src : ssim (rs_reset x src) (rs_reset y src).
Proof. destruct x, y; cbn [rs_reset ssim]; unfold r_reset; apply r_open_zr_indep. Qed.

Lemma rs_step_sim x y o : ssim x y ->
  fst (rs_step x o) = fst (rs_step y o) /\ ssim (snd (rs_step x o)) (snd (rs_step y o)).
Proof.
  intros H. destruct o as [r|src]; cbn [rs_step].
  - destruct x as [c|a], y as [c'|b]; cbn [ssim] in H; try contradiction.
    + subst c'. split; [reflexivity | apply ssim_refl].
    + destruct (rsim_step a b r H) as [H1 H2].
      destruct (rstep a r) as [oa a'], (rstep b r) as [ob b']. cbn [fst snd] in *.
      destruct (rsim_err_log _ _ H2) as [_ Hl]. rewrite H1, Hl. split; [reflexivity | exact H2].
  - cbn [fst snd]. pose proof (rs_reset_sim x y src) as Hs.
    destruct (ssim_err_log _ _ Hs) as [He Hl]. rewrite He, Hl. split; [reflexivity | exact Hs].
Qed.

Lemma rs_run_cons st o r :
  fst (rs_run st (o :: r)) = fst (rs_step st o) :: fst (rs_run (snd (rs_step st o)) r).
Proof. cbn [rs_run]. destruct (rs_step st o) as [ob st']. cbn [fst snd]. destruct (rs_run st' r). reflexivity. Qed.

Lemma rs_run_sim ops : forall x y, ssim x y -> fst (rs_run x ops) = fst (rs_run y ops).
Proof.
  induction ops as [|o r IH]; intros x y H; [reflexivity|].
  rewrite !rs_run_cons. destruct (rs_step_sim x y o H) as [H1 H2]. rewrite H1, (IH _ _ H2). reflexivity.
Qed.

Lemma rs_run_app a : forall st b,
  rs_run st (a ++ b) = (fst (rs_run st a) ++ fst (rs_run (snd (rs_run st a)) b), snd (rs_run (snd (rs_run st a)) b)).
Proof.
  induction a as [|o r IH]; intros st b; cbn [app rs_run fst snd].
  - destruct (rs_run st b); reflexivity.
  - destruct (rs_step st o) as [ob st']. rewrite IH. destruct (rs_run st' r) as [obs st'']. reflexivity.
Qed.

(* THEOREM xr_reset_as_new. For EVERY reader state [st] - the zero value, open, mid-chunk with a
   pending discard, at io.EOF, failed, closed, a failed open - Reset onto [src] followed by any
   history (further Resets included) is observed exactly as NewReader(src) followed by the same
   history: the error of the Reset, every return value, every delivered byte, and after every
   call the log of accesses to the source *)
Theorem xr_reset_as_new : forall (st : xrS) src ops,
  fst (rs_run st (RsReset src :: ops)) = fst (rs_run (RZero false) (RsReset src :: ops)).
Proof.
  intros st src ops. rewrite !rs_run_cons.
  cbn [rs_step fst snd].
  pose proof (rs_reset_sim st (RZero false) src) as Hs.
  destruct (ssim_err_log _ _ Hs) as [He Hl]. rewrite He, Hl. f_equal.
  exact (rs_run_sim ops _ _ Hs).
Qed.

(* in terms of states: the relation, and what it implies *)
Theorem xr_reset_related : forall st src,
  ssim (rs_reset st src) (new_reader src) /\
  forall ops, fst (rs_run (rs_reset st src) ops) = fst (rs_run (new_reader src) ops).
Proof.
  intros st src. pose proof (rs_reset_sim st (RZero false) src) as Hs. split; [exact Hs|].
  intros ops. exact (rs_run_sim ops _ _ Hs).
Qed.

(* whole histories through one Reader object: from each Reset on, the history of a new Reader *)
Theorem xr_reset_as_new_history : forall st hist src ops,
  fst (rs_run st (hist ++ RsReset src :: ops)) =
  fst (rs_run st hist) ++ fst (rs_run (RZero false) (RsReset src :: ops)).
Proof.
  intros st hist src ops. rewrite rs_run_app. cbn [fst]. f_equal. apply xr_reset_as_new.
Qed.

(* ---- what survives: the decompressor object's offsets ----------------------------------------- *)
(* the naive statement - the state after Reset IS the state NewReader returns - is false: after a
   failed open the Reader still holds the decompressor with the offsets of the abandoned chunk
   (observed in the real code through the hook VerifResetState; WXFRESET prints it after every
   call). Unobservable through Seek / Read / Close, which return the latched error first. *)
Definition xr_reset_equal_state_statement : Prop := forall st src, rs_reset st src = new_reader src.

(* Witness.w_stream with byte 25 (inside the second chunk) zeroed *)
Definition bad_stream : list byte := firstn 25 w_stream ++ [0%N] ++ skipn 26 w_stream.

(* a Reader that failed mid-chunk: 10 bytes, then 9 more and Corrupted inside the second chunk *)
Definition ex_failed : xrS :=
  snd (rs_run (RZero false) [RsReset bad_stream; RsOp (RRead 10); RsOp (RRead 20)]).

Example ex_failed_nontrivial :
  match ex_failed with
  | RLive s => r_err s = Some ECorrupted /\ z_outoff (r_zr s) = 3%N /\ r_offset s = 19 /\
               r_log s = [(42, 64); (58, 30); (0, 22); (22, 22)]%N
  | RZero _ => False
  end.
Proof. vm_compute. repeat split. Qed.

Theorem xr_reset_equal_state_refuted : ~ xr_reset_equal_state_statement.
Proof.
  intros H. specialize (H ex_failed []). vm_compute in H. discriminate H.
Qed.

(* ... while the observations agree (instance of xr_reset_as_new, computed): Reset of the failed
   Reader onto the intact stream, a sequential read of everything, a seek back, a Reset onto
   the corrupt stream again, onto an empty source, and back *)
Definition ex_rlater : list xrop :=
  [RsOp (RRead 41); RsOp (RSeek 30 0); RsOp (RRead 4); RsReset bad_stream; RsOp (RSeek 17 0); RsOp (RRead 9);
   RsOp RClose; RsReset []; RsOp (RRead 1); RsOp RClose; RsReset w_stream; RsOp (RSeek (-3) 2); RsOp (RRead 5)].

Example xr_reset_as_new_example :
  fst (rs_run ex_failed (RsReset w_stream :: ex_rlater)) =
  fst (rs_run (RZero false) (RsReset w_stream :: ex_rlater)) /\
  nth 1 (fst (rs_run ex_failed (RsReset w_stream :: ex_rlater))) (RsOReset None, []) =
  (RsO (ORead w_plain (Some EEOF)), [(42, 64); (58, 30); (0, 22); (22, 22); (44, 14); (58, 30); (88, 18); (106, 0)]%N).
Proof. vm_compute. split; reflexivity. Qed.

(* the zero value: closing it and resetting it is NewReader as well *)
Example xr_zero_closed_reset :
  fst (rs_run (RZero true) [RsReset w_stream; RsOp (RRead 3)]) =
  fst (rs_run (RZero false) [RsReset w_stream; RsOp (RRead 3)]).
Proof. apply xr_reset_as_new. Qed.

(* ---- assumptions ---------------------------------------------------------------------------- *)
Print Assumptions xw_reset_is_newwriter.
Print Assumptions xw_reset_as_new.
Print Assumptions xw_reset_as_new_history.
Print Assumptions xw_reset_as_new_any_state.
Print Assumptions xw_zero_reset_as_new.
Print Assumptions xw_reset_keepback_refuted.
Print Assumptions new_writer_go_agrees.
Print Assumptions xr_reset_as_new.
Print Assumptions xr_reset_related.
Print Assumptions xr_reset_as_new_history.
Print Assumptions xr_reset_success_state.
Print Assumptions xr_reset_equal_state_refuted.
Print Assumptions new_reader_agrees.
Print Assumptions xw_reset_as_new_example.
Print Assumptions xr_reset_as_new_example.
