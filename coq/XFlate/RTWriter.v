(* C05/C06 part B: the Writer invariant. At every moment of a successful history the sink
   is a list of finished segments, followed by the finished chunks of the open segment
   (the ones recorded in [w_recs]), followed by what the compressor has emitted for the
   current chunk; after Close it is a complete stream ([xf_stream]). *)
From V Require Import Base.Prelude Base.Prog Meta.Model Flate.Spec
  XFlate.Index XFlate.Writer XFlate.Reader XFlate.Refine XFlate.RefineCheck XFlate.RoundTripStmt
  XFlate.RTIndex XFlate.RTStream.
From Coq Require Import ZifyBool ZifyN ZifyNat.
Local Open Scope Z_scope.

Definition cop_data (o : cop) : list byte := match o with CW d => d | CF => [] end.
Definition wop_data (o : wop) : list byte := match o with WWrite d => d | _ => [] end.

Lemma cops_data_snoc ops o : cops_data (ops ++ [o]) = cops_data ops ++ cop_data o.
Proof. unfold cops_data. rewrite flat_map_app. cbn [flat_map]. rewrite app_nil_r. reflexivity. Qed.

Lemma wops_data_app a b : wops_data (a ++ b) = wops_data a ++ wops_data b.
Proof. apply flat_map_app. Qed.

Lemma wops_data_cons o r : wops_data (o :: r) = wop_data o ++ wops_data r.
Proof. reflexivity. Qed.

Lemma cops_in_data ops : cops_in ops = N.of_nat (length (cops_data ops)).
Proof.
  induction ops as [|o ops IH]; cbn [cops_in fold_right cops_data flat_map]; [reflexivity|].
  fold (cops_in ops) (cops_data ops). destruct o; rewrite IH; [rewrite app_length; lia | reflexivity].
Qed.

Definition sink_le (s s' : xw) : Prop := (length (w_sink s) <= length (w_sink s'))%nat.

Section WriterInv.
Variable deflate : Z -> list cop -> list byte.
Hypothesis HK : K1 deflate.
Hypothesis Htot : meta_encode_total_stmt.

Definition winv (rsegs : list seg) (cur : list chunk) (s : xw) (data : list byte) : Prop :=
  w_err s = None /\ level_ok (w_lvl s) = true /\ (1 <= w_nchk s)%N /\
  rsegs_wf rsegs /\ Forall chunk_wf cur /\
  w_sink s = rsegs_bytes rsegs ++ chunks_bytes cur ++ deflate (w_lvl s) (w_ops s) /\
  w_recs s = recs_of cur /\ w_back s = back_of rsegs /\
  w_out s = N.of_nat (length (w_sink s)) /\
  data = rsegs_data rsegs ++ chunks_data cur ++ cops_data (w_ops s).

Definition wopen (s : xw) (data : list byte) : Prop := exists rsegs cur, winv rsegs cur s data.

Definition small (s : xw) (data : list byte) : Prop :=
  Z.of_nat (length (w_sink s)) < 2 ^ 62 /\ Z.of_nat (length data) < 2 ^ 62 /\ bytes_lt data.

(* ---- the sink only grows --------------------------------------------------------- *)
Lemma sink_le_refl s : sink_le s s. Proof. unfold sink_le. lia. Qed.
Lemma sink_le_trans a b c : sink_le a b -> sink_le b c -> sink_le a c.
Proof. unfold sink_le. lia. Qed.

Lemma zw_call_mono s o : sink_le s (zw_call deflate s o).
Proof. unfold sink_le, zw_call. cbn [w_sink]. rewrite app_length. lia. Qed.

Lemma flush_index_tail_mono s : sink_le s (flush_index_tail s).
Proof.
  unfold sink_le, flush_index_tail. destruct (meta_encode _ _); cbn [w_sink emit set_err]; [rewrite app_length|]; lia.
Qed.

Lemma flush_full_mono s : sink_le s (flush_full deflate s).
Proof.
  unfold flush_full. cbv zeta.
  match goal with |- context [if ?c then _ else _] => destruct c end.
  - eapply sink_le_trans; [|apply flush_index_tail_mono]. cbn [w_sink]. apply zw_call_mono.
  - unfold sink_le. cbn [w_sink]. apply zw_call_mono.
Qed.

Lemma flush_index_mono s : sink_le s (flush_index deflate s).
Proof.
  unfold flush_index. destruct (0 <? _)%N.
  - cbv zeta. destruct (w_err (flush_full deflate s)); [apply flush_full_mono|].
    eapply sink_le_trans; [apply flush_full_mono | apply flush_index_tail_mono].
  - apply flush_index_tail_mono.
Qed.

Lemma write_loop_mono fuel : forall s buf cnt, sink_le s (fst (write_loop deflate fuel s buf cnt)).
Proof.
  induction fuel as [|f IH]; intros s buf cnt; cbn [write_loop]; [apply sink_le_refl|].
  destruct buf as [|b buf]; [apply sink_le_refl|].
  destruct (w_err s); [apply sink_le_refl|].
  destruct (_ <=? _)%N.
  - eapply sink_le_trans; [apply flush_full_mono | apply IH].
  - cbv zeta. eapply sink_le_trans; [apply zw_call_mono | apply IH].
Qed.

Lemma write_mono s d : sink_le s (snd (write deflate s d)).
Proof.
  unfold write. destruct (w_err s); [apply sink_le_refl|].
  pose proof (write_loop_mono (2 * length d + 2) s d 0%N) as H.
  destruct (write_loop _ _ _ _ _) as [s' cnt]. cbn [fst snd w_sink] in *. exact H.
Qed.

Lemma flush_mono s m : sink_le s (snd (flush deflate s m)).
Proof.
  unfold flush. destruct (w_err s); [apply sink_le_refl|].
  destruct m; cbn [snd]; try apply sink_le_refl.
  - apply zw_call_mono.
  - apply flush_full_mono.
  - apply flush_index_mono.
Qed.

Lemma close_mono s : sink_le s (snd (Writer.close deflate s)).
Proof.
  unfold Writer.close. destruct (w_err s) as [e|].
  - destruct e; apply sink_le_refl.
  - cbv zeta.
    set (s1 := if (0 <? zw_out deflate s + zw_in s)%N || negb (Nat.eqb (length (w_recs s)) 0)
               then flush_index deflate s else s).
    assert (H1 : sink_le s s1) by (unfold s1; destruct (_ || _); [apply flush_index_mono | apply sink_le_refl]).
    destruct (w_err s1); [exact H1|].
    destruct (meta_encode _ _); cbn [snd]; unfold sink_le, set_err, emit in *; cbn [w_sink];
      try rewrite app_length; lia.
Qed.

Lemma wstep_mono s o : sink_le s (snd (wstep deflate s o)).
Proof.
  destruct o as [d|m|]; cbn [wstep].
  - apply write_mono.
  - pose proof (flush_mono s m) as H. destruct (flush deflate s m). exact H.
  - pose proof (close_mono s) as H. destruct (Writer.close deflate s). exact H.
Qed.

Lemma wrun_mono ops : forall s, sink_le s (snd (wrun deflate s ops)).
Proof.
  induction ops as [|o ops IH]; intros s; cbn [wrun]; [apply sink_le_refl|].
  pose proof (wstep_mono s o) as H1. destruct (wstep deflate s o) as [ob s'].
  pose proof (IH s') as H2. destruct (wrun deflate s' ops) as [obs s'']. cbn [snd] in *.
  eapply sink_le_trans; eassumption.
Qed.

(* ---- the primitives keep the invariant ---------------------------------------------- *)
Lemma zw_call_inv rsegs cur s data o :
  winv rsegs cur s data -> winv rsegs cur (zw_call deflate s o) (data ++ cop_data o).
Proof.
  intros (He & Hl & Hn & Hw & Hc & Hs & Hr & Hb & Ho & Hd).
  destruct (k_mono deflate HK (w_lvl s) (w_ops s) o) as [more Hmore].
  unfold winv, zw_call. cbn [w_err w_lvl w_nchk w_sink w_recs w_back w_out w_ops].
  rewrite Hmore, skipn_app, skipn_all, Nat.sub_diag. cbn [skipn app].
  repeat split; try assumption.
  - rewrite Hs, <- !app_assoc. reflexivity.
  - rewrite Ho, app_length. lia.
  - rewrite cops_data_snoc, Hd, <- !app_assoc. reflexivity.
Qed.

Lemma flush_index_tail_inv rsegs cur s data :
  winv rsegs cur s data -> deflate (w_lvl s) (w_ops s) = [] -> cops_data (w_ops s) = [] ->
  exists enc, winv (mkSeg cur enc :: rsegs) [] (flush_index_tail s) data /\
              w_ops (flush_index_tail s) = w_ops s.
Proof.
  intros (He & Hl & Hn & Hw & Hc & Hs & Hr & Hb & Ho & Hd) Hz Hz'.
  destruct (Htot (index_payload (w_back s) (w_recs s)) FinalMeta (index_payload_bytes _ _))
    as [enc [Henc Hbytes]].
  exists enc. unfold flush_index_tail. rewrite Henc.
  unfold winv. cbn [w_err w_lvl w_nchk w_sink w_recs w_back w_out w_ops emit].
  split; [|reflexivity].
  repeat split; try assumption.
  - cbn [rsegs_wf sg_chunks sg_idx]. rewrite <- Hb, <- Hr. repeat split; assumption.
  - constructor.
  - rewrite Hz. cbn [rsegs_bytes seg_bytes sg_chunks sg_idx chunks_bytes flat_map app].
    rewrite Hs, Hz, !app_nil_r, <- app_assoc. reflexivity.
  - rewrite Ho, app_length. lia.
  - rewrite Hz'. cbn [rsegs_data sg_chunks chunks_data flat_map app].
    rewrite Hd, Hz', !app_nil_r. reflexivity.
Qed.

Lemma winv_small_parts rsegs cur s data :
  winv rsegs cur s data ->
  (length (chunks_bytes cur) + length (deflate (w_lvl s) (w_ops s)) <= length (w_sink s))%nat /\
  (length (chunks_data cur) + length (cops_data (w_ops s)) <= length data)%nat.
Proof.
  intros (He & Hl & Hn & Hw & Hc & Hs & Hr & Hb & Ho & Hd).
  rewrite Hs, Hd, !app_length. lia.
Qed.

Lemma flush_full_inv rsegs cur s data :
  winv rsegs cur s data -> small (flush_full deflate s) data ->
  exists rsegs' cur', winv rsegs' cur' (flush_full deflate s) data /\ w_ops (flush_full deflate s) = [].
Proof.
  intros Hinv (Hsm1 & Hsm2 & Hsm3).
  pose proof (flush_full_mono s) as Hmono. revert Hsm1 Hmono.
  pose proof (zw_call_inv rsegs cur s data CF Hinv) as H1.
  cbn [cop_data] in H1. rewrite app_nil_r in H1.
  unfold flush_full, flush_sync. cbv zeta.
  set (s1 := zw_call deflate s CF) in *.
  pose proof (winv_small_parts _ _ _ _ H1) as [Hp1 Hp2].
  destruct H1 as (He & Hl & Hn & Hw & Hc & Hs & Hr & Hb & Ho & Hd).
  assert (Hops1 : w_ops s1 = w_ops s ++ [CF]) by reflexivity.
  set (c := deflate (w_lvl s1) (w_ops s1)) in *.
  set (raw := cops_data (w_ops s)).
  assert (Hraw : cops_data (w_ops s1) = raw).
  { rewrite Hops1, cops_data_snoc. cbn [cop_data]. apply app_nil_r. }
  assert (Hcwf : chunk_wf (c, raw)).
  { unfold chunk_wf. cbn [fst snd]. unfold c. rewrite Hops1.
    assert (Hrb : bytes_lt (cops_data (w_ops s))).
    { intros b Hin. apply Hsm3. rewrite Hd, Hraw. apply in_or_app. right. apply in_or_app. right. exact Hin. }
    destruct (k_chunk deflate HK (w_lvl s1) (w_ops s) Hl Hrb) as [Ha [Hb' Hc']].
    repeat split; try assumption.
    intros b Hin. eapply (k_bytes deflate HK). exact Hin. }
  set (recs' := match append_record (w_recs s1) (Z.of_N (zw_out deflate s1)) (Z.of_N (zw_in s1)) deflateType with
                | Some r => r | None => w_recs s1 end).
  set (s2 := mkXW (w_sink s1) (w_in s1) (w_out s1) (w_lvl s1) [] recs' (w_back s1) (w_nidx s1) (w_nchk s1) (w_err s1)).
  assert (Hstep : small s2 data -> winv rsegs (cur ++ [(c, raw)]) s2 data).
  { intros (Hb1 & Hb2 & _). cbn [s2 w_sink] in Hb1.
    assert (Hrecs : recs' = recs_of (cur ++ [(c, raw)])).
    { unfold recs'. rewrite Hr. unfold zw_out, zw_in. fold c. rewrite cops_in_data, Hraw, !nat_N_Z.
      destruct (last_build0 (map chunk_entry cur)) as [HlC HlR]. fold (recs_of cur) in HlC, HlR.
      rewrite tot_c_chunks in HlC. rewrite tot_r_chunks in HlR.
      rewrite Hraw in Hp2. fold c in Hp1.
      rewrite append_record_ok.
      - rewrite recs_of_snoc. reflexivity.
      - lia.
      - lia.
      - lia.
      - lia.
      - change (2 ^ 63) with (2 * 2 ^ 62). lia.
      - change (2 ^ 63) with (2 * 2 ^ 62). lia. }
    unfold winv. cbn [s2 w_err w_lvl w_nchk w_sink w_recs w_back w_out w_ops].
    rewrite (k_nil deflate HK). cbn [cops_data flat_map].
    repeat split; try assumption.
    - apply Forall_app. split; [exact Hc | constructor; [exact Hcwf | constructor]].
    - rewrite Hs, chunks_bytes_app. cbn [chunks_bytes flat_map fst]. rewrite !app_nil_r, <- ?app_assoc. reflexivity.
    - rewrite Hd, Hraw, chunks_data_app. cbn [chunks_data flat_map snd]. rewrite !app_nil_r, <- ?app_assoc. reflexivity. }
  destruct (zlen recs' =? w_nidx s2) eqn:Enidx; intros Hsm1 Hmono.
  - assert (Hs2 : small s2 data).
    { split; [|split; [exact Hsm2 | exact Hsm3]]. pose proof (flush_index_tail_mono s2) as Hm. unfold sink_le in Hm. lia. }
    specialize (Hstep Hs2).
    destruct (flush_index_tail_inv _ _ _ _ Hstep) as [enc [Hinv' Hops']].
    + cbn [s2 w_ops]. apply (k_nil deflate HK).
    + reflexivity.
    + exists (mkSeg (cur ++ [(c, raw)]) enc :: rsegs), []. split; [exact Hinv' | rewrite Hops'; reflexivity].
  - exists rsegs, (cur ++ [(c, raw)]). split; [|reflexivity]. apply Hstep. repeat split; assumption.
Qed.

Lemma small_mono s s' data : sink_le s s' -> small s' data -> small s data.
Proof. unfold sink_le, small. intros H (H1 & H2 & H3). repeat split; [lia | lia | exact H3]. Qed.

Lemma flush_index_inv rsegs cur s data :
  winv rsegs cur s data -> small (flush_index deflate s) data ->
  exists rsegs' cur', winv rsegs' cur' (flush_index deflate s) data.
Proof.
  intros Hinv Hsm. revert Hsm. unfold flush_index.
  destruct (N.ltb_spec 0 (zw_in s + zw_out deflate s)) as [Hpos|Hzero].
  - cbv zeta. intros Hsm.
    assert (Hsm1 : small (flush_full deflate s) data).
    { destruct (w_err (flush_full deflate s)); [exact Hsm|].
      eapply small_mono; [apply flush_index_tail_mono | exact Hsm]. }
    destruct (flush_full_inv _ _ _ _ Hinv Hsm1) as (rsegs' & cur' & Hinv' & Hops').
    assert (He' : w_err (flush_full deflate s) = None) by (exact (proj1 Hinv')).
    rewrite He' in *.
    destruct (flush_index_tail_inv _ _ _ _ Hinv') as [enc [Hinv'' _]].
    + rewrite Hops'. apply (k_nil deflate HK).
    + rewrite Hops'. reflexivity.
    + eauto.
  - intros Hsm. unfold zw_in, zw_out in Hzero. rewrite cops_in_data in Hzero.
    destruct (flush_index_tail_inv _ _ _ _ Hinv) as [enc [Hinv'' _]].
    + destruct (deflate (w_lvl s) (w_ops s)); [reflexivity | cbn [length] in Hzero; lia].
    + destruct (cops_data (w_ops s)); [reflexivity | cbn [length] in Hzero; lia].
    + eauto.
Qed.

Lemma write_loop_inv fuel : forall s buf cnt data s' cnt',
  wopen s data ->
  write_loop deflate fuel s buf cnt = (s', cnt') ->
  (2 * length buf + (if (w_nchk s <=? zw_in s)%N then 1 else 0) <= fuel)%nat ->
  small s' (data ++ buf) ->
  wopen s' (data ++ buf).
Proof.
  induction fuel as [|f IH]; intros s buf cnt data s' cnt' Hopen Hrun Hfuel Hsm.
  - cbn [write_loop] in Hrun. inversion Hrun; subst s' cnt'.
    destruct buf; [rewrite app_nil_r; exact Hopen | cbn [length] in Hfuel; lia].
  - cbn [write_loop] in Hrun.
    destruct buf as [|b buf'] eqn:Ebuf.
    { inversion Hrun; subst s' cnt'. rewrite app_nil_r. exact Hopen. }
    rewrite <- Ebuf in *. assert (Hlen : (1 <= length buf)%nat) by (rewrite Ebuf; cbn [length]; lia).
    clear Ebuf b buf'.
    destruct Hopen as (rsegs & cur & Hinv).
    assert (He : w_err s = None) by exact (proj1 Hinv). rewrite He in Hrun.
    assert (Hmono := write_loop_mono).
    destruct (N.leb_spec (w_nchk s) (zw_in s)) as [Hfull|Hroom].
    + specialize (Hmono f (flush_full deflate s) buf cnt). rewrite Hrun in Hmono. cbn [fst] in Hmono.
      assert (Hsm1 : small (flush_full deflate s) data).
      { destruct Hsm as (Hs1 & Hs2 & Hs3). unfold sink_le in Hmono. rewrite app_length in Hs2.
        repeat split; [lia | lia | eapply bytes_lt_app_l; exact Hs3]. }
      destruct (flush_full_inv _ _ _ _ Hinv Hsm1) as (rsegs' & cur' & Hinv' & Hops').
      eapply IH; [exists rsegs', cur'; exact Hinv' | exact Hrun | | exact Hsm].
      unfold zw_in. rewrite Hops'. cbn [cops_in fold_right].
      assert (Hn : (1 <= w_nchk (flush_full deflate s))%N) by exact (proj1 (proj2 (proj2 Hinv'))).
      replace (w_nchk (flush_full deflate s) <=? 0)%N with false by (symmetry; apply N.leb_gt; lia).
      lia.
    + cbv zeta in Hrun.
      set (remain := N.min (w_nchk s - zw_in s) (N.of_nat (length buf))) in *.
      assert (Hrem : (1 <= N.to_nat remain <= length buf)%nat) by (unfold remain; lia).
      set (part := firstn (N.to_nat remain) buf) in *.
      set (rest := skipn (N.to_nat remain) buf) in *.
      assert (Hsplit : buf = part ++ rest) by (symmetry; apply firstn_skipn).
      assert (Hrest : (length rest <= length buf - 1)%nat) by (unfold rest; rewrite skipn_length; lia).
      specialize (Hmono f (zw_call deflate s (CW part)) rest (cnt + remain)%N).
      rewrite Hrun in Hmono. cbn [fst] in Hmono.
      pose proof (zw_call_inv _ _ _ _ (CW part) Hinv) as Hinv'. cbn [cop_data] in Hinv'.
      rewrite Hsplit, app_assoc. rewrite Hsplit, app_assoc in Hsm.
      eapply IH; [exists rsegs, cur; exact Hinv' | exact Hrun | | exact Hsm].
      destruct (_ <=? _)%N; lia.
Qed.

Lemma write_inv s d data ob s' :
  wopen s data -> write deflate s d = (ob, s') -> small s' (data ++ d) ->
  wopen s' (data ++ d) /\ snd ob = None.
Proof.
  intros Hopen Hw Hsm. unfold write in Hw.
  assert (He : w_err s = None) by (destruct Hopen as (? & ? & H); exact (proj1 H)).
  rewrite He in Hw.
  destruct (write_loop deflate (2 * length d + 2) s d 0%N) as [s1 cnt] eqn:Eloop.
  inversion Hw; subst ob s'. clear Hw.
  assert (Hopen1 : wopen s1 (data ++ d)).
  { eapply write_loop_inv; [exact Hopen | exact Eloop | destruct (_ <=? _)%N; lia |].
    exact Hsm. }
  destruct Hopen1 as (rsegs & cur & Hinv).
  split.
  - exists rsegs, cur. exact Hinv.
  - cbn [snd w_err]. exact (proj1 Hinv).
Qed.

Lemma flush_inv s m data e s' :
  wopen s data -> flush deflate s m = (e, s') -> small s' data ->
  wopen s' data /\ (e = None \/ e = Some EInvalid).
Proof.
  intros (rsegs & cur & Hinv) Hf Hsm. unfold flush in Hf.
  assert (He : w_err s = None) by exact (proj1 Hinv). rewrite He in Hf.
  destruct m; inversion Hf; subst e s'; clear Hf.
  - pose proof (zw_call_inv _ _ _ _ CF Hinv) as H. cbn [cop_data] in H. rewrite app_nil_r in H.
    split; [exists rsegs, cur; exact H | left; exact (proj1 H)].
  - destruct (flush_full_inv _ _ _ _ Hinv Hsm) as (r' & c' & H & _).
    split; [exists r', c'; exact H | left; exact (proj1 H)].
  - destruct (flush_index_inv _ _ _ _ Hinv Hsm) as (r' & c' & H).
    split; [exists r', c'; exact H | left; exact (proj1 H)].
  - split; [exists rsegs, cur; exact Hinv | right; reflexivity].
Qed.

(* the state after Close *)
Definition wclosed (s : xw) (data : list byte) : Prop :=
  w_err s = Some EClosed /\ exists rsegs foot, xf_stream rsegs foot (w_sink s) data.

Lemma close_inv s data e s' :
  wopen s data -> Writer.close deflate s = (e, s') -> small s' data ->
  wclosed s' data /\ e = None.
Proof.
  intros (rsegs & cur & Hinv) Hc Hsm. unfold Writer.close in Hc.
  assert (He : w_err s = None) by exact (proj1 Hinv). rewrite He in Hc. cbv zeta in Hc.
  set (s1 := if (0 <? zw_out deflate s + zw_in s)%N || negb (Nat.eqb (length (w_recs s)) 0)
             then flush_index deflate s else s) in *.
  assert (Hsm1 : small s1 data).
  { eapply small_mono; [|exact Hsm].
    destruct (w_err s1); [inversion Hc; subst; apply sink_le_refl|].
    destruct (meta_encode _ _); inversion Hc; subst; unfold sink_le, set_err, emit; cbn [w_sink];
      try rewrite app_length; lia. }
  assert (H1 : exists rsegs1, winv rsegs1 [] s1 data /\ deflate (w_lvl s1) (w_ops s1) = [] /\
                               cops_data (w_ops s1) = []).
  { unfold s1 in *. destruct (_ || _) eqn:Ecase.
    - (* flush_index: its tail leaves no open chunk *)
      clear Hc. revert Hsm1. unfold flush_index.
      destruct (N.ltb_spec 0 (zw_in s + zw_out deflate s)) as [Hpos|Hzero].
      + cbv zeta. intros Hsm1.
        assert (Hsmf : small (flush_full deflate s) data).
        { destruct (w_err (flush_full deflate s)); [exact Hsm1|].
          eapply small_mono; [apply flush_index_tail_mono | exact Hsm1]. }
        destruct (flush_full_inv _ _ _ _ Hinv Hsmf) as (rsegs' & cur' & Hinv' & Hops').
        assert (He' : w_err (flush_full deflate s) = None) by (exact (proj1 Hinv')).
        rewrite He' in *.
        destruct (flush_index_tail_inv _ _ _ _ Hinv') as [enc [Hinv'' Hops'']].
        * rewrite Hops'. apply (k_nil deflate HK).
        * rewrite Hops'. reflexivity.
        * eexists. split; [exact Hinv''|]. rewrite Hops'', Hops'. split; [apply (k_nil deflate HK) | reflexivity].
      + intros Hsm1. unfold zw_in, zw_out in Hzero. rewrite cops_in_data in Hzero.
        assert (Hz1 : deflate (w_lvl s) (w_ops s) = [])
          by (destruct (deflate (w_lvl s) (w_ops s)); [reflexivity | cbn [length] in Hzero; lia]).
        assert (Hz2 : cops_data (w_ops s) = [])
          by (destruct (cops_data (w_ops s)); [reflexivity | cbn [length] in Hzero; lia]).
        destruct (flush_index_tail_inv _ _ _ _ Hinv Hz1 Hz2) as [enc [Hinv'' Hops'']].
        eexists. split; [exact Hinv''|]. rewrite Hops''.
        replace (w_lvl (flush_index_tail s)) with (w_lvl s); [split; assumption|].
        unfold flush_index_tail. destruct (meta_encode _ _); reflexivity.
    - apply orb_false_iff in Ecase. destruct Ecase as [Ez Er].
      apply N.ltb_ge in Ez. apply negb_false_iff, Nat.eqb_eq in Er.
      unfold zw_in, zw_out in Ez. rewrite cops_in_data in Ez.
      assert (Hz1 : deflate (w_lvl s) (w_ops s) = [])
        by (destruct (deflate (w_lvl s) (w_ops s)); [reflexivity | cbn [length] in Ez; lia]).
      assert (Hz2 : cops_data (w_ops s) = [])
        by (destruct (cops_data (w_ops s)); [reflexivity | cbn [length] in Ez; lia]).
      assert (Hcur : cur = []).
      { destruct Hinv as (_ & _ & _ & _ & _ & _ & Hr & _). rewrite Hr in Er.
        unfold recs_of in Er. rewrite build_length, map_length in Er.
        destruct cur; [reflexivity | discriminate]. }
      subst cur. exists rsegs. split; [exact Hinv | split; assumption]. }
  destruct H1 as (rsegs1 & Hinv1 & Hz1 & Hz2).
  destruct Hinv1 as (He1 & Hl1 & Hn1 & Hw1 & Hc1 & Hs1 & Hr1 & Hb1 & Ho1 & Hd1).
  rewrite He1 in Hc.
  destruct (Htot (footer_payload (w_back s1)) FinalStream (footer_payload_bytes _)) as [foot [Hfoot Hfb]].
  rewrite Hfoot in Hc. inversion Hc; subst e s'. clear Hc.
  split; [|reflexivity].
  split; [reflexivity|].
  exists rsegs1, foot. unfold xf_stream. cbn [set_err emit w_sink].
  rewrite <- Hb1. repeat split; try assumption.
  - rewrite Hs1, Hz1. cbn [chunks_bytes flat_map app]. rewrite app_nil_r. reflexivity.
  - rewrite Hd1, Hz2. cbn [chunks_data flat_map app]. rewrite app_nil_r. reflexivity.
Qed.

(* ---- histories ------------------------------------------------------------------------- *)
Definition wstate (s : xw) (data : list byte) : Prop := wopen s data \/ wclosed s data.

Definition ob_ok (ob : N * option err) : Prop := snd ob = None \/ snd ob = Some EInvalid.

Lemma wstep_inv s o data ob s' :
  wstate s data -> wstep deflate s o = (ob, s') -> ob_ok ob -> small s' (data ++ wop_data o) ->
  wstate s' (data ++ wop_data o) /\ (o = WClose -> wclosed s' data).
Proof.
  intros [Hopen|Hclosed] Hstep Hob Hsm.
  - destruct o as [d|m|]; cbn [wstep wop_data] in *.
    + destruct (write_inv _ _ _ _ _ Hopen Hstep Hsm) as [H _].
      split; [left; exact H | discriminate].
    + rewrite app_nil_r in *. destruct (flush deflate s m) as [e s1] eqn:Ef.
      inversion Hstep; subst ob s'.
      destruct (flush_inv _ _ _ _ _ Hopen Ef Hsm) as [H _].
      split; [left; exact H | discriminate].
    + rewrite app_nil_r in *. destruct (Writer.close deflate s) as [e s1] eqn:Ec.
      inversion Hstep; subst ob s'.
      destruct (close_inv _ _ _ _ Hopen Ec Hsm) as [H _].
      split; [right; exact H | intros _; exact H].
  - destruct Hclosed as [He Hx].
    destruct o as [d|m|]; cbn [wstep wop_data] in *.
    + unfold write in Hstep. rewrite He in Hstep. inversion Hstep; subst ob s'.
      destruct Hob as [Hob|Hob]; cbn in Hob; discriminate.
    + unfold flush in Hstep. rewrite He in Hstep. inversion Hstep; subst ob s'.
      destruct Hob as [Hob|Hob]; cbn in Hob; discriminate.
    + unfold Writer.close in Hstep. rewrite He in Hstep. inversion Hstep; subst ob s'.
      rewrite app_nil_r. split; [right; split; assumption | intros _; split; assumption].
Qed.

Lemma wrun_inv ops : forall s data obs s',
  wstate s data -> wrun deflate s ops = (obs, s') -> Forall ob_ok obs ->
  small s' (data ++ wops_data ops) ->
  wstate s' (data ++ wops_data ops).
Proof.
  induction ops as [|o ops IH]; intros s data obs s' Hst Hrun Hobs Hsm.
  - cbn [wrun] in Hrun. inversion Hrun; subst. cbn [wops_data flat_map]. rewrite app_nil_r. exact Hst.
  - cbn [wrun] in Hrun.
    destruct (wstep deflate s o) as [ob s1] eqn:Estep.
    destruct (wrun deflate s1 ops) as [obs1 s2] eqn:Erun.
    inversion Hrun; subst obs s'. clear Hrun.
    inversion Hobs as [|ob' obs' Hob Hobs1]; subst ob' obs'.
    rewrite wops_data_cons, app_assoc in *.
    assert (Hsm1 : small s1 (data ++ wop_data o)).
    { pose proof (wrun_mono ops s1) as Hm. rewrite Erun in Hm. cbn [snd] in Hm.
      destruct Hsm as (H1 & H2 & H3). unfold sink_le in Hm. rewrite app_length in H2.
      repeat split; [lia | lia | eapply bytes_lt_app_l; exact H3]. }
    destruct (wstep_inv _ _ _ _ _ Hst Estep Hob Hsm1) as [Hst1 _].
    eapply IH; eassumption.
Qed.

Lemma wrun_app a : forall s b,
  wrun deflate s (a ++ b) =
  let '(o1, s1) := wrun deflate s a in
  let '(o2, s2) := wrun deflate s1 b in (o1 ++ o2, s2).
Proof.
  induction a as [|o a IH]; intros s b; cbn [app wrun].
  - destruct (wrun deflate s b). reflexivity.
  - destruct (wstep deflate s o) as [ob s1]. rewrite IH.
    destruct (wrun deflate s1 a) as [o1 s2]. destruct (wrun deflate s2 b) as [o2 s3]. reflexivity.
Qed.

Lemma new_writer_open lvl chunk idx s0 : new_writer lvl chunk idx = inr s0 -> wopen s0 [].
Proof.
  unfold new_writer. intros H.
  destruct (chunk <? 0) eqn:Ec; [discriminate|].
  destruct (level_ok (map_level lvl)) eqn:El; cbn [negb] in H; [|discriminate].
  inversion H; subst s0. clear H.
  exists [], []. unfold winv. cbn [w_err w_lvl w_nchk w_sink w_recs w_back w_out w_ops].
  rewrite (k_nil deflate HK).
  repeat split; try reflexivity; try exact El; try constructor.
  apply Z.ltb_ge in Ec. destruct (chunk =? 0) eqn:E0; [unfold DefaultChunkSize; lia|]. apply Z.eqb_neq in E0. lia.
Qed.

(* the Writer produces streams of the described shape *)
Theorem writer_stream lvl chunk idx s0 ops obs s :
  new_writer lvl chunk idx = inr s0 ->
  wrun deflate s0 (ops ++ [WClose]) = (obs, s) ->
  Forall ob_ok obs ->
  Z.of_nat (length (w_sink s)) < 2 ^ 62 ->
  Z.of_nat (length (wops_data ops)) < 2 ^ 62 ->
  bytes_lt (wops_data ops) ->
  exists rsegs foot, xf_stream rsegs foot (w_sink s) (wops_data ops).
Proof.
  intros Hnew Hrun Hobs Hs1 Hs2 Hs3.
  rewrite wrun_app in Hrun.
  destruct (wrun deflate s0 ops) as [o1 s1] eqn:E1.
  destruct (wrun deflate s1 [WClose]) as [o2 s2] eqn:E2.
  inversion Hrun; subst obs s. clear Hrun.
  apply Forall_app in Hobs. destruct Hobs as [Hobs1 Hobs2].
  assert (Hst1 : wstate s1 ([] ++ wops_data ops)).
  { eapply wrun_inv; [left; eapply new_writer_open; exact Hnew | exact E1 | exact Hobs1 |].
    pose proof (wrun_mono [WClose] s1) as Hm. rewrite E2 in Hm. cbn [snd] in Hm.
    unfold sink_le in Hm. cbn [app]. repeat split; [lia | lia | exact Hs3]. }
  cbn [app] in Hst1.
  cbn [wrun] in E2. destruct (wstep deflate s1 WClose) as [ob s3] eqn:E3.
  inversion E2; subst o2 s2. clear E2.
  inversion Hobs2 as [|ob' obs' Hob _]; subst ob' obs'.
  destruct (wstep_inv _ _ _ _ _ Hst1 E3 Hob) as [_ Hcl].
  - cbn [wop_data]. rewrite app_nil_r. repeat split; assumption.
  - destruct (Hcl eq_refl) as [_ Hx]. exact Hx.
Qed.

End WriterInv.
