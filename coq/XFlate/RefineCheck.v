(* The hypothesis of the C07 refinement theorem is decidable: [honestb] checks it
   for one concrete stream. It holds on the witness stream (the theorem is not
   vacuous), and the correspondence harness evaluates it (extracted) on every
   stream the real xflate.Writer produces for the C07 check. *)
From V Require Import Base.Prelude Base.Prog Meta.Model Flate.Spec
  XFlate.Index XFlate.Search XFlate.Reader XFlate.Refine XFlate.Witness.
Local Open Scope Z_scope.

Definition chunk_okb (data : list byte) (T : list record) (content : list byte) (n : nat) : bool :=
  let i := Z.of_nat n in
  let prev := nth_rec T (i - 1) in
  let curr := nth_rec T i in
  let csize := CompOffset curr - CompOffset prev in
  let z := open_chunk data (Z.to_N (CompOffset prev)) (Z.to_N csize) in
  (RawOffset prev <=? RawOffset curr)
  && list_eqb N.eqb (z_rest z) (cs content (RawOffset prev) (RawOffset curr))
  && (match z_end z with None => true | Some _ => false end)
  && negb (RType curr =? unknownType)
  && (negb (RType curr =? deflateType) || z_sync_ok z)
  && (zN (z_used z) =? (if RType curr =? footerType then csize else csize + 5)).

Definition honestb (data : list byte) (T : list record) (content : list byte) : bool :=
  (1 <=? zlen T)
  && (RawOffset (last_record T) =? Z.of_nat (length content))
  && forallb (chunk_okb data T content) (seq 0 (length T)).

Lemma honestb_sound data T content : honestb data T content = true -> honest data T content.
Proof.
  unfold honestb, honest. intros H.
  apply andb_true_iff in H. destruct H as [H H3].
  apply andb_true_iff in H. destruct H as [H1 H2].
  apply Z.leb_le in H1. apply Z.eqb_eq in H2.
  split; [exact H1|]. split; [exact H2|].
  intros i Hi. rewrite forallb_forall in H3.
  specialize (H3 (Z.to_nat i)).
  assert (Hin : In (Z.to_nat i) (seq 0 (length T))).
  { apply in_seq. unfold L, zlen in Hi. lia. }
  specialize (H3 Hin). unfold chunk_okb in H3. rewrite Z2Nat.id in H3 by lia.
  unfold chunk_ok. cbv zeta.
  repeat (apply andb_true_iff in H3; destruct H3 as [H3 ?]).
  repeat split.
  - apply Z.leb_le. assumption.
  - apply list_eqb_N_eq. assumption.
  - destruct (z_end _); [discriminate | reflexivity].
  - intros E. rewrite E in *. discriminate.
  - intros E. rewrite E in *. cbn in *. assumption.
  - apply Z.eqb_eq. assumption.
Qed.

(* opened stream + content -> the decision *)
Definition honest_stream (data content : list byte) : bool :=
  match open_reader data with
  | inl _ => false
  | inr s1 => honestb data (r_recs s1) content
  end.

Theorem honest_stream_refines data content :
  honest_stream data content = true ->
  exists s1, open_reader data = inr s1 /\
    forall ops, fst (rrun s1 ops) = fst (sp_run content (mkSp 0 None) ops).
Proof.
  unfold honest_stream. destruct (open_reader data) as [e|s1] eqn:Eo; [discriminate|].
  intros H. exists s1. split; [reflexivity|].
  apply (xflate_reader_refines_readseeker data content s1 Eo). apply honestb_sound. exact H.
Qed.

(* non-vacuity: the witness stream (3 chunks, written by the real Writer) is honest *)
Example w_stream_honest : honest_stream w_stream w_plain = true.
Proof. vm_compute. reflexivity. Qed.
