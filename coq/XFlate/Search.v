(* Correctness of index.Search (binary search exactly as written in
   xflate/index.go) on a table whose raw offsets are non-decreasing: it
   returns the number of records whose raw offset is <= the target, i.e. the
   position just after the LAST record that starts at or before the target. *)
From V Require Import Base.Prelude XFlate.Index.
Local Open Scope Z_scope.

Definition RO (T : list record) (i : Z) : Z := RawOffset (nth_rec T i).

Definition sorted_ro (T : list record) : Prop :=
  forall i j, 0 <= i -> i <= j -> j < zlen T -> RO T i <= RO T j.

Lemma zlen_nonneg {A} (l : list A) : 0 <= zlen l.
Proof. unfold zlen. lia. Qed.

Lemma search_empty_range T offset imin imax :
  sorted_ro T ->
  0 <= imin -> imax <= zlen T - 1 -> imin <= zlen T ->
  (imin = 0 \/ (imin < zlen T /\ RO T imin <= offset)) ->
  (imax = zlen T - 1 \/ (0 <= imax + 1 /\ offset < RO T (imax + 1))) ->
  imax < imin -> zlen T = 0 \/ offset < RO T 0.
Proof.
  intros Hs H0 H1 H1' HL HR E.
  destruct (Z.eq_dec (zlen T) 0) as [Hz|Hz]; [left; exact Hz|right].
  pose proof (zlen_nonneg T).
  destruct HL as [HL|[HL1 HL2]].
  - subst imin. destruct HR as [HR|[HR1 HR2]]; [lia|].
    assert (E0 : imax + 1 = 0) by lia. rewrite E0 in HR2. exact HR2.
  - destruct HR as [HR|[HR1 HR2]]; [lia|].
    exfalso. assert (RO T (imax + 1) <= RO T imin) by (apply Hs; lia). lia.
Qed.

Lemma search_loop_spec T offset :
  sorted_ro T ->
  forall fuel imin imax,
    0 <= imin -> imax <= zlen T - 1 -> imin <= zlen T ->
    (imin = 0 \/ (imin < zlen T /\ RO T imin <= offset)) ->
    (imax = zlen T - 1 \/ (0 <= imax + 1 /\ offset < RO T (imax + 1))) ->
    imax - imin + 1 <= Z.of_nat fuel ->
    let r := search_loop fuel T offset imin imax in
    (r = -1 /\ (zlen T = 0 \/ offset < RO T 0)) \/
    (0 <= r < zlen T /\ RO T r <= offset /\ (r + 1 = zlen T \/ offset < RO T (r + 1))).
Proof.
  intros Hs. induction fuel as [|f IH]; intros imin imax H0 H1 H1' HL HR Hf.
  { cbn [search_loop]. left. split; [reflexivity|].
    eapply search_empty_range; eauto. lia. }
  cbn [search_loop].
  destruct (imax <? imin) eqn:E.
  - apply Z.ltb_lt in E. left. split; [reflexivity|].
    eapply search_empty_range; eauto.
  - apply Z.ltb_ge in E.
    set (imid := (imin + imax) / 2).
    assert (Hm : imin <= imid <= imax) by (unfold imid; split; [apply Z.div_le_lower_bound|apply Z.div_le_upper_bound]; lia).
    fold (RO T imid). fold (RO T (imid + 1)).
    destruct (RO T imid <=? offset) eqn:G; cbn [andb].
    + apply Z.leb_le in G.
      destruct ((zlen T <=? imid + 1) || (offset <? RO T (imid + 1))) eqn:N.
      * right. split; [lia|]. split; [exact G|].
        apply orb_true_iff in N. destruct N as [N|N].
        -- apply Z.leb_le in N. left. lia.
        -- apply Z.ltb_lt in N. right. exact N.
      * apply orb_false_iff in N. destruct N as [N1 N2].
        apply Z.leb_gt in N1. apply Z.ltb_ge in N2.
        apply IH; try lia.
    + apply Z.leb_gt in G.
      apply IH; try lia.
      right. split; [lia|]. replace (imid - 1 + 1) with imid by lia. exact G.
Qed.

(* [search T pos] = the index ri such that records [0, ri) start at or before
   pos and record ri (if any) starts after it *)
Theorem search_spec T pos :
  sorted_ro T ->
  let ri := search T pos in
  0 <= ri <= zlen T /\
  (ri = 0 \/ RO T (ri - 1) <= pos) /\
  (ri = zlen T \/ pos < RO T ri).
Proof.
  intros Hs. unfold search.
  pose proof (zlen_nonneg T) as HL.
  assert (H : let r := search_loop (S (length T)) T pos 0 (zlen T - 1) in
              (r = -1 /\ (zlen T = 0 \/ pos < RO T 0)) \/
              (0 <= r < zlen T /\ RO T r <= pos /\ (r + 1 = zlen T \/ pos < RO T (r + 1)))).
  { apply search_loop_spec; [exact Hs | lia | lia | lia | left; reflexivity | left; reflexivity | unfold zlen; lia]. }
  cbv zeta in H.
  destruct H as [[Hr Hz]|[Hr [Hle Hnext]]].
  - rewrite Hr. cbn. split; [lia|]. split; [left; reflexivity|].
    destruct Hz as [Hz|Hz]; [left; lia | right; exact Hz].
  - split; [lia|]. split.
    + right. replace (search_loop (S (length T)) T pos 0 (zlen T - 1) + 1 - 1)
        with (search_loop (S (length T)) T pos 0 (zlen T - 1)) by lia.
      exact Hle.
    + destruct Hnext as [Hn|Hn]; [left; exact Hn | right; exact Hn].
Qed.
