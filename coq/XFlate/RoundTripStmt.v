(* C05 / C06: statements of the XFLATE round trip chain. Definitions only (each a
   [Prop]); the proofs live in Meta/Stream.v, Meta/Search.v, Meta/Deflate.v and
   XFlate/RoundTrip.v and are assembled in XFlate/RoundTripAll.v.

   The compressor (Go's compress/flate, outside the repository) is the section variable
   [deflate] of XFlate/Writer.v; what the theorems need from it is the contract [K1]
   below, which the correspondence harness re-checks against the real library on every
   chunk of every run. *)
From V Require Import Base.Prelude Base.Prog Meta.Model Flate.Spec
  XFlate.Index XFlate.Writer XFlate.Reader XFlate.Refine XFlate.RefineCheck.

(* ---- what was written ---------------------------------------------------------------- *)
Definition cops_data (ops : list cop) : list byte :=
  flat_map (fun o => match o with CW d => d | CF => [] end) ops.

Definition wops_data (ops : list wop) : list byte :=
  flat_map (fun o => match o with WWrite d => d | _ => [] end) ops.

Definition all_ok (obs : list (N * option err)) : Prop :=
  Forall (fun ob => snd ob = None) obs.

(* ---- a byte string that is a sequence of complete, NON-FINAL DEFLATE blocks ------------ *)
(* decode block after block with the RFC 1951 model's block reader until the input is used
   up exactly at a block end; every block must have BFINAL = 0. Each block consumes at
   least 3 bits, so the budget below always suffices. *)
Fixpoint scan_blocks (fuel depth : nat) (s : ast) : option ast :=
  match fuel with
  | O => None
  | S f =>
    match a_in s with
    | [] => Some s
    | _ =>
      match run (one_block depth) s with
      | Done false s' => scan_blocks f depth s'
      | _ => None
      end
    end
  end.

Definition nonfinal_blocks (c : list byte) : option (list byte) :=
  match scan_blocks (S (8 * length c)) (depth_for (length c)) (ast_init (bytes_to_bits c)) with
  | Some s => Some (fast_rev (a_out s))
  | None => None
  end.

(* ---- contract K1 on the external compressor ---------------------------------------- *)
Record K1 (deflate : Z -> list cop -> list byte) : Prop := {
  (* a freshly reset compressor has produced nothing *)
  k_nil : forall lvl, deflate lvl [] = [];
  (* output only grows with further calls *)
  k_mono : forall lvl ops op, exists more, deflate lvl (ops ++ [op]) = deflate lvl ops ++ more;
  (* bytes *)
  k_bytes : forall lvl ops b, In b (deflate lvl ops) -> b < 256;
  (* after a Flush the output is a sequence of complete non-final blocks (as read by the
     RFC 1951 model) for exactly the data written so far, ending in the sync marker *)
  k_chunk : forall lvl ops, level_ok lvl = true ->
    (forall b, In b (cops_data ops) -> b < 256) ->
    let c := deflate lvl (ops ++ [CF]) in
    nonfinal_blocks c = Some (cops_data ops) /\ is_sync c = true /\ (5 <= length c)%nat
}.

(* ---- L1: the meta encoding of a whole payload is read back (Meta/Stream.v) ----------- *)
Definition meta_encode_total_stmt : Prop :=
  forall payload final, (forall b, In b payload -> b < 256) ->
    exists enc, meta_encode payload final = Some enc /\ (forall b, In b enc -> b < 256).

Definition meta_stream_roundtrip_stmt : Prop :=
  forall payload final enc rest,
    (forall b, In b payload -> b < 256) -> (forall b, In b rest -> b < 256) ->
    meta_encode payload final = Some enc ->
    (* the decoder model's loop budget (2^40 blocks; the Go loop has none) *)
    N.of_nat (length enc) < 2 ^ 40 ->
    final <> FinalNil \/ rest = [] ->
    meta_decode (enc ++ rest) =
    mkMR None payload final (N.of_nat (length (writer_blocks payload []))) (N.of_nat (length enc)).

Definition meta_small_single_block_stmt : Prop :=
  forall payload final, (length payload <= 22)%nat ->
    meta_encode payload final = encode_block payload final.

(* every block is 12..64 bytes (from Meta/RoundTrip.v, restated on bytes) *)
Definition meta_block_bytes_size_stmt : Prop :=
  forall buf final blk, (forall b, In b buf -> b < 256) ->
    encode_block buf final = Some blk -> (12 <= length blk <= 64)%nat.

(* ---- L3: ReverseSearch finds the start of a trailing block (Meta/Search.v) ----------- *)
Definition reverse_search_finds_block_stmt : Prop :=
  forall pre buf final blk,
    (forall b, In b buf -> b < 256) -> (forall b, In b pre -> b < 256) ->
    encode_block buf final = Some blk ->
    reverse_search (pre ++ blk) = Some (N.of_nat (length pre)).

(* ---- L2: meta blocks are empty DEFLATE blocks (Meta/Deflate.v) ----------------------- *)
(* one block, for the RFC 1951 model's block reader, at any depth, any position: no output,
   consumes exactly the block, "last" iff FinalStream *)
Definition meta_block_is_empty_deflate_stmt : Prop :=
  forall buf final bits depth rest pos out len,
    (forall b, In b buf -> b < 256) ->
    encode_block_bits buf final = Some bits ->
    run (one_block depth) (mkAst (bits ++ rest) pos out len) =
    Done (fmode_eqb final FinalStream) (mkAst rest (pos + N.of_nat (length bits)) out len).

(* whole encoded payloads: non-final meta blocks are non-final empty DEFLATE blocks; a
   FinalStream payload is a complete DEFLATE stream with no content *)
Definition meta_nonfinal_blocks_stmt : Prop :=
  forall payload final enc, (forall b, In b payload -> b < 256) ->
    final <> FinalStream ->
    meta_encode payload final = Some enc ->
    nonfinal_blocks enc = Some [].

Definition meta_footer_chunk_stmt : Prop :=
  forall payload enc rest, (forall b, In b payload -> b < 256) -> (forall b, In b rest -> b < 256) ->
    meta_encode payload FinalStream = Some enc ->
    inflate (enc ++ rest) = mkIR None [] (N.of_nat (length enc)).

(* ---- L6: DEFLATE decoding composes over sequences of non-final blocks (Flate/Compose.v) *)
Definition scan_app_stmt : Prop :=
  forall a b da db,
    (forall x, In x a -> x < 256) -> (forall x, In x b -> x < 256) ->
    nonfinal_blocks a = Some da -> nonfinal_blocks b = Some db ->
    nonfinal_blocks (a ++ b) = Some (da ++ db).

(* back-references of [b] may reach into [da] (a DEFLATE decoder allows it); the statement
   is about streams [b] that decode on their own: their output is the same with [da] in
   front *)
Definition scan_then_stream_stmt : Prop :=
  forall a b rest da db,
    (forall x, In x a -> x < 256) -> (forall x, In x b -> x < 256) -> (forall x, In x rest -> x < 256) ->
    nonfinal_blocks a = Some da ->
    inflate b = mkIR None db (N.of_nat (length b)) ->
    inflate (a ++ b ++ rest) = mkIR None (da ++ db) (N.of_nat (length a + length b)).

(* in particular what the xflate.Reader's chunk decoder computes for a chunk *)
Definition scan_endblock_stmt : Prop :=
  forall a da, (forall x, In x a -> x < 256) ->
    nonfinal_blocks a = Some da ->
    inflate (a ++ endBlock) = mkIR None da (N.of_nat (length a) + 5).

(* ---- the targets ---------------------------------------------------------------------- *)
(* C05: every stream the Writer produces - any accepted configuration, any sequence of
   Write / Flush (all three modes, any order, invalid modes refused without effect) ending
   in Close, with every call reporting success - is opened by the Reader and is HONEST for
   the concatenation of the data written: by the C07 theorem every Seek/Read/Close history
   on it then behaves as a ReadSeeker over that data. *)
Definition xflate_roundtrip_stmt : Prop :=
  forall deflate, K1 deflate ->
  forall lvl chunk idx s0 ops obs s,
    new_writer lvl chunk idx = inr s0 ->
    wrun deflate s0 (ops ++ [WClose]) = (obs, s) ->
    Forall (fun ob => snd ob = None \/ snd ob = Some EInvalid) obs ->
    snd (last obs (0, None)) = None ->
    (forall b, In b (wops_data ops) -> b < 256) ->
    (* sizes within the int64 arithmetic of the index and the loop budget of the meta
       decoder model *)
    (Z.of_nat (length (w_sink s)) < 2 ^ 40)%Z ->
    (Z.of_nat (length (wops_data ops)) < 2 ^ 62)%Z ->
    honest_stream (w_sink s) (wops_data ops) = true.

(* C06: the same stream, given to a plain DEFLATE decoder (the RFC 1951 model), decodes to
   the same data and is consumed to its last byte *)
Definition xflate_is_deflate_stmt : Prop :=
  forall deflate, K1 deflate ->
  forall lvl chunk idx s0 ops obs s,
    new_writer lvl chunk idx = inr s0 ->
    wrun deflate s0 (ops ++ [WClose]) = (obs, s) ->
    Forall (fun ob => snd ob = None \/ snd ob = Some EInvalid) obs ->
    snd (last obs (0, None)) = None ->
    (forall b, In b (wops_data ops) -> b < 256) ->
    inflate (w_sink s) = mkIR None (wops_data ops) (N.of_nat (length (w_sink s))).
