(* C10 for xflate.Reader, as a corollary of the refinement theorem: on an honest stream,
   reading sequentially with ANY sequence of buffer lengths (zero included) delivers,
   in total, the prefix of the content of the total length asked, and io.EOF is reported
   by exactly those Reads that ask for more than is left. *)
From V Require Import Base.Prelude Base.Prog Meta.Model Flate.Spec
  XFlate.Index XFlate.Search XFlate.Reader XFlate.Refine XFlate.RefineCheck.
Local Open Scope Z_scope.

Definition obs_bytes (o : robs) : list byte :=
  match o with ORead b _ => b | _ => [] end.

Definition delivered (obs : list robs) : list byte := concat (map obs_bytes obs).

Definition total (ns : list N) : Z := fold_right (fun n acc => zN n + acc) 0 ns.

Lemma total_nonneg ns : 0 <= total ns.
Proof. induction ns as [|n ns IH]; cbn [total fold_right]; [lia|]. fold (total ns). unfold zN. lia. Qed.

Section Seq.
Variable content : list byte.
Notation clen := (Refine.clen content).
Notation cs := (Refine.cs content).

Lemma sp_reads_eof ns pos :
  delivered (fst (sp_run content (mkSp pos (Some EEOF)) (map RRead ns))) = [].
Proof.
  induction ns as [|n ns IH]; [reflexivity|].
  cbn [map sp_run sp_step]. unfold sp_read at 1. cbn [sp_err].
  destruct (sp_run content (mkSp pos (Some EEOF)) (map RRead ns)) as [obs st'] eqn:E.
  cbn [fst] in *. unfold delivered in *. cbn [map concat obs_bytes app]. exact IH.
Qed.

Lemma sp_reads ns : forall pos, 0 <= pos <= clen ->
  delivered (fst (sp_run content (mkSp pos None) (map RRead ns))) = cs pos (Z.min (pos + total ns) clen).
Proof.
  induction ns as [|n ns IH]; intros pos Hp.
  - cbn [map sp_run fst total fold_right]. unfold delivered. cbn [map concat].
    rewrite Z.add_0_r, Z.min_l by lia. symmetry. apply cs_nil.
  - cbn [map sp_run sp_step total fold_right]. fold (total ns).
    pose proof (total_nonneg ns) as Ht.
    unfold sp_read at 1. cbn [sp_err sp_pos].
    destruct (n =? 0)%N eqn:En.
    + apply N.eqb_eq in En. subst n.
      specialize (IH pos Hp).
      destruct (sp_run content (mkSp pos None) (map RRead ns)) as [obs st'].
      cbn [fst] in *. unfold delivered in *. cbn [map concat obs_bytes app].
      rewrite IH. change (zN 0) with 0. rewrite Z.add_0_l. reflexivity.
    + apply N.eqb_neq in En. rewrite Z.min_l by lia.
      assert (Hlen : Z.of_nat (length (cs pos clen)) = clen - pos).
      { apply cs_length; unfold Refine.clen in *; lia. }
      destruct (N.to_nat n <=? length (cs pos clen))%nat eqn:El.
      * apply Nat.leb_le in El.
        assert (Hpn : 0 <= pos + zN n <= clen) by (unfold zN; lia).
        specialize (IH (pos + zN n) Hpn).
        destruct (sp_run content (mkSp (pos + zN n) None) (map RRead ns)) as [obs st'].
        cbn [fst] in *. unfold delivered in *. cbn [map concat obs_bytes].
        rewrite IH.
        replace (N.to_nat n) with (Z.to_nat (zN n)) by (unfold zN; lia).
        rewrite cs_firstn by (unfold zN; lia).
        replace (pos + zN n + total ns) with (pos + (zN n + total ns)) by lia.
        apply cs_app; unfold zN; lia.
      * apply Nat.leb_gt in El.
        pose proof (sp_reads_eof ns (pos + Z.of_nat (length (cs pos clen)))) as He.
        destruct (sp_run content (mkSp (pos + Z.of_nat (length (cs pos clen))) (Some EEOF)) (map RRead ns))
          as [obs st'].
        cbn [fst] in *. unfold delivered in *. cbn [map concat obs_bytes].
        rewrite He, app_nil_r. rewrite Z.min_r by (unfold zN; lia). reflexivity.
Qed.
End Seq.

(* for the Reader model *)
Theorem xflate_sequential_reads_any_schedule data content s1 ns :
  open_reader data = inr s1 ->
  honest data (r_recs s1) content ->
  delivered (fst (rrun s1 (map RRead ns))) =
  firstn (Z.to_nat (total ns)) content.
Proof.
  intros Ho Hh.
  rewrite (xflate_reader_refines_readseeker data content s1 Ho Hh).
  rewrite sp_reads by (unfold Refine.clen; lia).
  unfold Refine.cs. cbn [Z.to_nat skipn]. rewrite Z.add_0_l, Z.sub_0_r.
  pose proof (total_nonneg ns).
  destruct (Z.le_gt_cases (total ns) (Refine.clen content)) as [H1|H1].
  - rewrite Z.min_l by lia. reflexivity.
  - rewrite Z.min_r by lia. unfold Refine.clen. rewrite Nat2Z.id.
    rewrite firstn_all. symmetry. apply firstn_all2. unfold Refine.clen in H1. lia.
Qed.
