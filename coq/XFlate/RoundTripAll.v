(* C05 / C06 assembled: the statements of XFlate/RoundTripStmt.v with every part discharged.

   parts:  Meta/Stream.v (meta_encode_total, meta_stream_roundtrip, meta_block_bytes_size),
           Meta/Search.v (reverse_search_finds_block), Meta/DeflateStream.v (meta_nonfinal_blocks,
           meta_footer_chunk), Flate/Compose.v (scan_app, scan_then_stream, scan_endblock);
   composition: XFlate/RoundTrip.v (Writer invariant, Reader walk, honest table). *)
From V Require Import Base.Prelude Base.Prog Meta.Model Flate.Spec
  XFlate.Index XFlate.Writer XFlate.Reader XFlate.Refine XFlate.RefineCheck XFlate.RoundTripStmt
  Meta.Stream Meta.Search Meta.Deflate Meta.DeflateStream Flate.Compose XFlate.RoundTrip.

(* C05: for every compressor satisfying contract K1, every accepted configuration and every
   successful history of Write / Flush (three modes, invalid modes refused) / Close, the bytes
   the Writer handed to its destination are opened by the Reader with a record table that is
   honest for the concatenation of the data written *)
Theorem xflate_roundtrip : xflate_roundtrip_stmt.
Proof.
  exact (xflate_roundtrip_from_needed_parts
           meta_encode_total meta_stream_roundtrip meta_block_bytes_size
           reverse_search_finds_block meta_nonfinal_blocks meta_footer_chunk scan_endblock).
Qed.

(* C06: the same bytes are one complete DEFLATE stream for the RFC 1951 model, decoding to the
   data written and consumed to the last byte *)
Theorem xflate_is_deflate : xflate_is_deflate_stmt.
Proof.
  exact (xflate_is_deflate_from_parts
           meta_encode_total meta_nonfinal_blocks meta_footer_chunk scan_app scan_then_stream).
Qed.

(* C05 + C07: hence EVERY Seek / Read / Close history on a stream the Writer produced behaves as
   a ReadSeeker over the data written *)
Theorem xflate_written_stream_is_a_readseeker :
  forall deflate, K1 deflate ->
  forall lvl chunk idx s0 ops obs s,
    new_writer lvl chunk idx = inr s0 ->
    wrun deflate s0 (ops ++ [WClose]) = (obs, s) ->
    Forall (fun ob => snd ob = None \/ snd ob = Some EInvalid) obs ->
    snd (last obs (0, None)) = None ->
    (forall b, In b (wops_data ops) -> b < 256) ->
    (Z.of_nat (length (w_sink s)) < 2 ^ 40)%Z ->
    (Z.of_nat (length (wops_data ops)) < 2 ^ 62)%Z ->
    exists s1, open_reader (w_sink s) = inr s1 /\
      forall rops, fst (rrun s1 rops) = fst (sp_run (wops_data ops) (mkSp 0 None) rops).
Proof.
  intros deflate HK lvl chunk idx s0 ops obs s Hnew Hrun Hobs Hlast Hb Hl Hd.
  apply honest_stream_refines.
  exact (xflate_roundtrip deflate HK lvl chunk idx s0 ops obs s Hnew Hrun Hobs Hlast Hb Hl Hd).
Qed.

Print Assumptions xflate_roundtrip.
Print Assumptions xflate_is_deflate.
Print Assumptions xflate_written_stream_is_a_readseeker.
