(* xflate.Writer as a state machine over an external DEFLATE compressor.
   The compressor (Go's compress/flate) is a Section variable: [deflate lvl
   ops] = the bytes a freshly reset compressor has handed to its sink after
   exactly the calls [ops]. The contract used by theorems is stated as
   hypotheses of the sections that need it; the executable model receives the
   real library's answers from the harness. *)
From V Require Import Base.Prelude Meta.Model XFlate.Index.

Inductive cop := CW (data : list byte) | CF.

Definition cops_in (ops : list cop) : N :=
  fold_right (fun o acc => match o with CW d => N.of_nat (length d) + acc | CF => acc end) 0 ops.

Inductive flushmode := FlushSync | FlushFull | FlushIndex | FlushInvalid.

Definition DefaultChunkSize : N := 262144.
Definition DefaultIndexSize : Z := 4096.

Section Writer.
  Variable deflate : Z -> list cop -> list byte.

  Record xw := mkXW {
    w_sink : list byte;        (* bytes handed to the underlying writer *)
    w_in : N;                  (* InputOffset *)
    w_out : N;                 (* OutputOffset *)
    w_lvl : Z;                 (* level as passed to compress/flate *)
    w_ops : list cop;          (* calls made on the compressor since its Reset *)
    w_recs : list record;      (* idx.Records *)
    w_back : N;                (* idx.BackSize *)
    w_nidx : Z;
    w_nchk : N;
    w_err : option err
  }.

  Definition zw_in (s : xw) : N := cops_in (w_ops s).
  Definition zw_out (s : xw) : N := N.of_nat (length (deflate (w_lvl s) (w_ops s))).

  (* NewWriter: configuration checks. level 0 -> default, -1 -> none; the
     compressor refuses levels outside -2..9 *)
  Definition map_level (lvl : Z) : Z :=
    if (lvl =? 0)%Z then (-1)%Z       (* flate.DefaultCompression *)
    else if (lvl =? -1)%Z then 0%Z    (* flate.NoCompression *)
    else lvl.
  Definition level_ok (l : Z) : bool := ((-2 <=? l) && (l <=? 9))%Z.

  Definition new_writer (lvl chunk idx : Z) : err + xw :=
    if (chunk <? 0)%Z then inl EInvalid else
    let l := map_level lvl in
    if negb (level_ok l) then inl EInvalid else
    let nchk := if (chunk =? 0)%Z then DefaultChunkSize else Z.to_N chunk in
    let nidx := if (idx <? 0)%Z then (-1)%Z else if (idx =? 0)%Z then DefaultIndexSize else idx in
    inr (mkXW [] 0 0 l [] [] 0 nidx nchk None).

  (* one call on the compressor: the sink receives what is new *)
  Definition zw_call (s : xw) (op : cop) : xw :=
    let before := deflate (w_lvl s) (w_ops s) in
    let ops' := w_ops s ++ [op] in
    let after := deflate (w_lvl s) ops' in
    let fresh := skipn (length before) after in
    mkXW (w_sink s ++ fresh) (w_in s) (w_out s + N.of_nat (length fresh)) (w_lvl s)
         ops' (w_recs s) (w_back s) (w_nidx s) (w_nchk s) (w_err s).

  Definition set_err (s : xw) (e : option err) : xw :=
    mkXW (w_sink s) (w_in s) (w_out s) (w_lvl s) (w_ops s) (w_recs s) (w_back s)
         (w_nidx s) (w_nchk s) e.

  Definition emit (s : xw) (bytes : list byte) : xw :=
    mkXW (w_sink s ++ bytes) (w_in s) (w_out s + N.of_nat (length bytes)) (w_lvl s)
         (w_ops s) (w_recs s) (w_back s) (w_nidx s) (w_nchk s) (w_err s).

  (* encodeIndex payload *)
  Definition index_payload (back : N) (recs : list record) : list byte :=
    let l := last_record recs in
    let fix deltas (rs : list record) (pre : record) : list byte :=
      match rs with
      | [] => []
      | r :: rest =>
        put_uvarint (Z.to_N (CompOffset r - CompOffset pre)) ++
        put_uvarint (Z.to_N (RawOffset r - RawOffset pre)) ++ deltas rest r
      end in
    let body := put_uvarint back ++ put_uvarint (N.of_nat (length recs)) ++
                put_uvarint (Z.to_N (CompOffset l)) ++ put_uvarint (Z.to_N (RawOffset l)) ++
                deltas recs rec0 in
    body ++ le32 (crc32 body).

  Definition footer_payload (back : N) : list byte := [88; 70; 0] ++ put_uvarint back.

  Definition flush_sync (s : xw) : xw := zw_call s CF.

  (* tail of Flush(FlushIndex): encodeIndex, reset the index *)
  Definition flush_index_tail (s : xw) : xw :=
    match meta_encode (index_payload (w_back s) (w_recs s)) FinalMeta with
    | None => set_err s (Some EInvalid)
    | Some enc =>
      let s1 := emit s enc in
      mkXW (w_sink s1) (w_in s1) (w_out s1) (w_lvl s1) (w_ops s1) []
           (N.of_nat (length enc)) (w_nidx s1) (w_nchk s1) None
    end.

  Definition flush_full (s : xw) : xw :=
    let s1 := flush_sync s in
    let recs := match append_record (w_recs s1) (Z.of_N (zw_out s1)) (Z.of_N (zw_in s1)) deflateType with
                | Some r => r | None => w_recs s1 end in
    let s2 := mkXW (w_sink s1) (w_in s1) (w_out s1) (w_lvl s1) [] recs (w_back s1)
                   (w_nidx s1) (w_nchk s1) (w_err s1) in
    if (zlen recs =? w_nidx s2)%Z then flush_index_tail s2 else s2.

  Definition flush_index (s : xw) : xw :=
    if 0 <? zw_in s + zw_out s then
      let s1 := flush_full s in
      match w_err s1 with Some _ => s1 | None => flush_index_tail s1 end
    else flush_index_tail s.

  Definition flush (s : xw) (m : flushmode) : option err * xw :=
    match w_err s with
    | Some e => (Some e, s)
    | None =>
      match m with
      | FlushSync => let s' := flush_sync s in (w_err s', s')
      | FlushFull => let s' := flush_full s in (w_err s', s')
      | FlushIndex => let s' := flush_index s in (w_err s', s')
      | FlushInvalid => (Some EInvalid, s)
      end
    end.

  (* Write: split over chunk boundaries *)
  Fixpoint write_loop (fuel : nat) (s : xw) (buf : list byte) (cnt : N) : xw * N :=
    match fuel with
    | O => (s, cnt)
    | S f =>
      match buf, w_err s with
      | [], _ => (s, cnt)
      | _, Some _ => (s, cnt)
      | _, None =>
        if w_nchk s <=? zw_in s then write_loop f (flush_full s) buf cnt
        else
          let remain := N.min (w_nchk s - zw_in s) (N.of_nat (length buf)) in
          let part := firstn (N.to_nat remain) buf in
          write_loop f (zw_call s (CW part)) (skipn (N.to_nat remain) buf) (cnt + remain)
      end
    end.

  Definition write (s : xw) (buf : list byte) : (N * option err) * xw :=
    match w_err s with
    | Some e => ((0, Some e), s)
    | None =>
      let '(s', cnt) := write_loop (2 * length buf + 2) s buf 0 in
      let s'' := mkXW (w_sink s') (w_in s' + cnt) (w_out s') (w_lvl s') (w_ops s') (w_recs s')
                      (w_back s') (w_nidx s') (w_nchk s') (w_err s') in
      ((cnt, w_err s''), s'')
    end.

  Definition close (s : xw) : option err * xw :=
    match w_err s with
    | Some EClosed => (None, s)
    | Some e => (Some e, s)
    | None =>
      let s1 := if (0 <? zw_out s + zw_in s) || negb (Nat.eqb (length (w_recs s)) 0)
                then flush_index s else s in
      match w_err s1 with
      | Some e => (Some e, s1)
      | None =>
        match meta_encode (footer_payload (w_back s1)) FinalStream with
        | None => (Some EInvalid, set_err s1 (Some EInvalid))
        | Some enc => (None, set_err (emit s1 enc) (Some EClosed))
        end
      end
    end.

  Inductive wop := WWrite (d : list byte) | WFlush (m : flushmode) | WClose.

  (* observation of one call: (count, error class) *)
  Definition wstep (s : xw) (o : wop) : (N * option err) * xw :=
    match o with
    | WWrite d => write s d
    | WFlush m => let '(e, s') := flush s m in ((0, e), s')
    | WClose => let '(e, s') := close s in ((0, e), s')
    end.

  Fixpoint wrun (s : xw) (ops : list wop) : list (N * option err) * xw :=
    match ops with
    | [] => ([], s)
    | o :: r =>
      let '(ob, s') := wstep s o in
      let '(obs, s'') := wrun s' r in
      (ob :: obs, s'')
    end.
End Writer.
