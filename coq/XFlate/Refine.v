(* C07: the xflate.Reader model refines a ReadSeeker over the uncompressed
   content, for EVERY sequence of Seek / Read / Close calls.

   Hypothesis [honest]: the record table the reader decoded is sorted and every
   chunk it delimits decompresses (through the reader's own open_chunk: the
   RFC 1951 decoder over chunk ++ endBlock) to the corresponding slice of
   [content], with matching sizes and sync marker. It is a decidable statement
   about one concrete stream ([honestb], checked by computation on the witness
   stream); the round-trip property C05 is what says that the Writer only
   produces such streams. *)
From V Require Import Base.Prelude Base.Prog Meta.Model Flate.Spec
  XFlate.Index XFlate.Search XFlate.Reader.
Local Open Scope Z_scope.

(* ---- small list facts ---------------------------------------------------- *)
Lemma last_nth_rec (T : list record) : T <> [] -> last_record T = nth_rec T (zlen T - 1).
Proof.
  unfold last_record, nth_rec, zlen. intros HT.
  destruct (Z.of_nat (length T) - 1 <? 0) eqn:E.
  - apply Z.ltb_lt in E. destruct T; [contradiction | cbn [length] in E; lia].
  - replace (Z.to_nat (Z.of_nat (length T) - 1)) with (length T - 1)%nat by lia.
    clear E. induction T as [|a T IH]; [contradiction|].
    destruct T as [|b T']; [reflexivity|].
    change (last (a :: b :: T') rec0) with (last (b :: T') rec0).
    rewrite IH by discriminate. cbn [length]. 
    replace (S (S (length T')) - 1)%nat with (S (S (length T') - 1)) by lia.
    reflexivity.
Qed.

Section Refine.
Variables (data : list byte) (T : list record) (content : list byte).

Definition L : Z := zlen T.
Definition endp : Z := RawOffset (last_record T).
Definition CO (i : Z) : Z := CompOffset (nth_rec T i).

(* the records around chunk k, as GetRecords returns them *)
Definition pv (k : Z) : record := nth_rec T (k - 1).
Definition cu (k : Z) : record :=
  if k <? L then nth_rec T k
  else mkRec (CompOffset (pv k)) (RawOffset (pv k)) unknownType.

Lemma get_records_eq k : 0 <= k <= L -> get_records T k = (pv k, cu k).
Proof.
  intros Hk. unfold get_records, pv, cu. fold L.
  replace (L <? k) with false by (symmetry; apply Z.ltb_ge; lia).
  destruct (Z.eq_dec k 0) as [->|Hk0].
  - cbn [Z.sub Z.opp Z.add]. change (0 - 1) with (-1). cbn [Z.leb Z.compare andb].
    unfold nth_rec at 1. cbn [Z.ltb Z.compare].
    unfold nth_rec at 2. cbn [Z.ltb Z.compare].
    destruct (0 <? L) eqn:E; cbn [andb]; reflexivity.
  - replace (0 <=? k - 1) with true by (symmetry; apply Z.leb_le; lia).
    replace (k - 1 <? L) with true by (symmetry; apply Z.ltb_lt; lia).
    replace (0 <=? k) with true by (symmetry; apply Z.leb_le; lia).
    cbn [andb]. destruct (k <? L); reflexivity.
Qed.

(* content slices with integer bounds *)
Definition cs (a b : Z) : list byte := firstn (Z.to_nat (b - a)) (skipn (Z.to_nat a) content).

Lemma slice_cs a b : 0 <= a -> slice content (Z.to_N a) (Z.to_N (b - a)) = cs a b.
Proof. intros Ha. unfold slice, cs. rewrite !Z_N_nat. reflexivity. Qed.

Lemma cs_skipn a b d : 0 <= a -> 0 <= d -> skipn (Z.to_nat d) (cs a b) = cs (a + d) b.
Proof.
  intros Ha Hd. unfold cs. rewrite skipn_firstn_comm, skipn_skipn'.
  f_equal; [lia | f_equal; lia].
Qed.

Lemma cs_firstn a b n : 0 <= a -> 0 <= n -> a + n <= b -> firstn (Z.to_nat n) (cs a b) = cs a (a + n).
Proof.
  intros Ha Hn Hb. unfold cs. rewrite firstn_firstn. f_equal. lia.
Qed.

Lemma cs_length a b : 0 <= a -> a <= b -> b <= Z.of_nat (length content) ->
  Z.of_nat (length (cs a b)) = b - a.
Proof.
  intros Ha Hab Hb. unfold cs. rewrite firstn_length, skipn_length. lia.
Qed.

Lemma cs_app a b c : 0 <= a -> a <= b -> b <= c -> cs a b ++ cs b c = cs a c.
Proof.
  intros Ha Hab Hbc. unfold cs.
  replace (Z.to_nat (c - a)) with (Z.to_nat (b - a) + Z.to_nat (c - b))%nat by lia.
  rewrite firstn_plus, skipn_skipn'. do 3 f_equal. lia.
Qed.

Lemma cs_nil a : cs a a = [].
Proof. unfold cs. rewrite Z.sub_diag. reflexivity. Qed.

(* ---- honesty -------------------------------------------------------------- *)
Definition chunk_ok (i : Z) : Prop :=
  let prev := nth_rec T (i - 1) in
  let curr := nth_rec T i in
  let csize := CompOffset curr - CompOffset prev in
  let z := open_chunk data (Z.to_N (CompOffset prev)) (Z.to_N csize) in
  RawOffset prev <= RawOffset curr /\
  z_rest z = cs (RawOffset prev) (RawOffset curr) /\
  z_end z = None /\
  RType curr <> unknownType /\
  (RType curr = deflateType -> z_sync_ok z = true) /\
  zN (z_used z) = (if RType curr =? footerType then csize else csize + 5).

Definition honest : Prop :=
  1 <= L /\ endp = Z.of_nat (length content) /\ forall i, 0 <= i < L -> chunk_ok i.

Hypothesis Hh : honest.

Lemma L_pos : 1 <= L. Proof. exact (proj1 Hh). Qed.
Lemma endp_len : endp = Z.of_nat (length content). Proof. exact (proj1 (proj2 Hh)). Qed.
Lemma chunks_ok i : 0 <= i < L -> chunk_ok i. Proof. exact (proj2 (proj2 Hh) i). Qed.

Lemma T_nonempty : T <> [].
Proof. pose proof L_pos as H. unfold L, zlen in H. destruct T; [cbn in H; lia | discriminate]. Qed.

Lemma endp_last : endp = RO T (L - 1).
Proof. unfold endp, RO, L. rewrite last_nth_rec by exact T_nonempty. reflexivity. Qed.

Lemma RO_neg1 : RO T (-1) = 0.
Proof. reflexivity. Qed.

Lemma ro_step i : 0 <= i < L -> RO T (i - 1) <= RO T i.
Proof. intros Hi. exact (proj1 (chunks_ok i Hi)). Qed.

Lemma ro_mono i j : -1 <= i -> i <= j -> j < L -> RO T i <= RO T j.
Proof.
  intros Hi Hij Hj.
  replace j with (i + Z.of_nat (Z.to_nat (j - i))) by lia.
  assert (Hb : i + Z.of_nat (Z.to_nat (j - i)) < L) by lia.
  induction (Z.to_nat (j - i)) as [|n IH].
  - rewrite Z.add_0_r. lia.
  - rewrite Nat2Z.inj_succ in *.
    transitivity (RO T (i + Z.of_nat n)); [apply IH; lia|].
    replace (i + Z.of_nat n) with (i + Z.succ (Z.of_nat n) - 1) by lia.
    apply ro_step. lia.
Qed.

Lemma T_sorted : sorted_ro T.
Proof. intros i j Hi Hij Hj. apply ro_mono; fold L; try lia. exact Hj. Qed.

Lemma ro_nonneg i : -1 <= i < L -> 0 <= RO T i.
Proof. intros Hi. rewrite <- RO_neg1. apply ro_mono; lia. Qed.

Lemma ro_le_endp i : -1 <= i < L -> RO T i <= endp.
Proof. intros Hi. rewrite endp_last. pose proof L_pos. apply ro_mono; lia. Qed.

Lemma endp_nonneg : 0 <= endp.
Proof. rewrite endp_len. lia. Qed.

(* the reader's view of the position one past the last record *)
Lemma open_chunk_zero off : open_chunk data off 0 = mkZr [] 0 None 5 false false.
Proof.
  unfold open_chunk, slice. change (N.to_nat 0) with O. cbn [firstn app].
  vm_compute. reflexivity.
Qed.


Lemma chunk_facts k : 0 <= k <= L ->
  let z := open_chunk data (Z.to_N (CompOffset (pv k)))
                      (Z.to_N (CompOffset (cu k) - CompOffset (pv k))) in
  RawOffset (pv k) <= RawOffset (cu k) /\
  z_outoff z = 0%N /\
  z_rest z = cs (RawOffset (pv k)) (RawOffset (cu k)) /\
  Z.of_nat (length (z_rest z)) = RawOffset (cu k) - RawOffset (pv k) /\
  z_end z = None /\
  (RType (cu k) = deflateType -> z_sync_ok z = true) /\
  zN (z_used z) = (if RType (cu k) =? footerType
                   then CompOffset (cu k) - CompOffset (pv k)
                   else CompOffset (cu k) - CompOffset (pv k) + 5).
Proof.
  intros Hk. unfold cu. destruct (k <? L) eqn:E.
  - apply Z.ltb_lt in E.
    destruct (chunks_ok k) as [H1 [H2 [H3 [H4 [H5 H6]]]]]; [lia|]. cbv zeta in *.
    unfold pv. repeat split; try assumption.
    rewrite H2. apply cs_length.
    + apply (ro_nonneg (k - 1)). lia.
    + exact H1.
    + rewrite <- endp_len. apply (ro_le_endp k). lia.
  - cbn [CompOffset RawOffset RType]. rewrite Z.sub_diag. change (Z.to_N 0) with 0%N.
    rewrite open_chunk_zero. cbn [z_rest z_end z_sync_ok z_used z_outoff length].
    rewrite cs_nil. repeat split; try reflexivity; try lia.
    intros H; discriminate H.
Qed.

(* does the decompressor of chunk k return its final status together with its last bytes *)
Definition joined (k : Z) : bool :=
  z_joined (open_chunk data (Z.to_N (CompOffset (pv k))) (Z.to_N (CompOffset (cu k) - CompOffset (pv k)))).

(* ---- the cursor invariant -------------------------------------------------- *)
Record Cur (s : xr) (pos k : Z) : Prop := mkCur {
  c_data : r_data s = data;
  c_recs : r_recs s = T;
  c_off : r_offset s = pos;
  c_pos : 0 <= pos;
  c_k : 0 <= k <= L;
  c_ri : r_ri s = Z.min (k + 1) L;
  c_chk : r_chk s = (CompOffset (cu k) - CompOffset (pv k),
                     RawOffset (cu k) - RawOffset (pv k), RType (cu k));
  c_zend : z_end (r_zr s) = None;
  c_zrest : z_rest (r_zr s) = cs (RawOffset (pv k) + zN (z_outoff (r_zr s))) (RawOffset (cu k));
  c_zlen : zN (z_outoff (r_zr s)) + Z.of_nat (length (z_rest (r_zr s)))
           = RawOffset (cu k) - RawOffset (pv k);
  c_sync : RType (cu k) = deflateType -> z_sync_ok (r_zr s) = true;
  c_used : zN (z_used (r_zr s)) = (if RType (cu k) =? footerType
                                   then CompOffset (cu k) - CompOffset (pv k)
                                   else CompOffset (cu k) - CompOffset (pv k) + 5);
  c_disc : 0 <= r_discard s <= Z.of_nat (length (z_rest (r_zr s)));
  c_lp : RawOffset (pv k) + zN (z_outoff (r_zr s)) + r_discard s = Z.min pos endp;
  c_beyond : endp < pos -> k = L;
  c_err : r_err s = None \/ (r_err s = Some EEOF /\ k = L);
  c_joined : z_joined (r_zr s) = joined k
}.

(* ---- Seek, unfolded into named pieces ---------------------------------------- *)
Definition blocked (s : xr) : bool :=
  match r_err s with Some e => negb (err_eqb e EEOF) | None => false end.

Definition spos (s : xr) (offset whence : Z) : option Z :=
  if whence =? 0 then Some offset
  else if whence =? 1 then Some (wrap64 (r_offset s + offset))
  else if whence =? 2 then Some (wrap64 (end_raw s + offset))
  else None.

Definition fast_ok (s : xr) (pos : Z) : bool :=
  (r_offset s <? pos) && (0 <? chk_rsize s - zN (z_outoff (r_zr s)))
  && (pos - r_offset s + r_discard s <? chk_rsize s - zN (z_outoff (r_zr s))).

Definition fast_state (s : xr) (pos : Z) : xr :=
  mkXR (r_data s) (r_recs s) (r_ri s) pos (pos - r_offset s + r_discard s) (r_chk s) (r_zr s)
       (r_err s) (r_log s).

Definition hint_ri (s : xr) (pos : Z) : Z :=
  let '(p0, c0) := get_records (r_recs s) (r_ri s) in
  if (RawOffset p0 <=? pos) && (pos <=? RawOffset c0) then r_ri s else search (r_recs s) pos.

Definition slow_state (s : xr) (pos ri : Z) : xr :=
  let '(prev, curr) := get_records (r_recs s) ri in
  let csize := CompOffset curr - CompOffset prev in
  let rsize := RawOffset curr - RawOffset prev in
  let disc := if end_raw s <? pos then end_raw s - RawOffset prev else pos - RawOffset prev in
  mkXR (r_data s) (r_recs s) (Z.min (ri + 1) (zlen (r_recs s))) pos disc (csize, rsize, RType curr)
       (open_chunk (r_data s) (Z.to_N (CompOffset prev)) (Z.to_N csize)) None
       (r_log s ++ [(Z.to_N (CompOffset prev), Z.to_N csize)]).

Lemma seek_unfold s offset whence :
  seek s offset whence =
  if blocked s then ((0, r_err s), s) else
  match spos s offset whence with
  | None => ((0, Some EInvalid), s)
  | Some pos =>
    if pos <? 0 then ((0, Some EInvalid), s) else
    if fast_ok s pos then ((pos, None), fast_state s pos)
    else ((pos, None), slow_state s pos (hint_ri s pos))
  end.
Proof.
  unfold seek, seek_gen, blocked, spos, fast_ok, fast_state, hint_ri, slow_state.
  destruct (match r_err s with Some e => negb (err_eqb e EEOF) | None => false end); [reflexivity|].
  destruct (whence =? 0); [|destruct (whence =? 1); [|destruct (whence =? 2); [|reflexivity]]];
    (match goal with |- context[if ?p <? 0 then _ else _] => destruct (p <? 0) end; [reflexivity|]);
    (match goal with |- context[if ?c then ((_, None), mkXR _ _ _ _ _ _ _ _ _) else _] => destruct c end; [reflexivity|]);
    destruct (get_records (r_recs s) (r_ri s)) as [p0 c0];
    match goal with |- context[get_records (r_recs s) ?ri] => destruct (get_records (r_recs s) ri) end;
    reflexivity.
Qed.

Lemma ro_pv k : RawOffset (pv k) = RO T (k - 1).
Proof. reflexivity. Qed.

Lemma ro_cu_lt k : k < L -> RawOffset (cu k) = RO T k.
Proof. intros H. unfold cu. apply Z.ltb_lt in H. rewrite H. reflexivity. Qed.

Lemma ro_cu_L : RawOffset (cu L) = endp.
Proof. unfold cu. rewrite Z.ltb_irrefl. cbn [RawOffset]. rewrite ro_pv. symmetry. apply endp_last. Qed.

Lemma ro_cu_le_endp k : 0 <= k <= L -> RawOffset (cu k) <= endp.
Proof.
  intros Hk. destruct (Z.eq_dec k L) as [->|Hn].
  - rewrite ro_cu_L. lia.
  - rewrite ro_cu_lt by lia. apply ro_le_endp. lia.
Qed.

Lemma ro_pv_le_endp k : 0 <= k <= L -> RawOffset (pv k) <= endp.
Proof. intros Hk. rewrite ro_pv. apply ro_le_endp. lia. Qed.

Lemma ro_pv_nonneg k : 0 <= k <= L -> 0 <= RawOffset (pv k).
Proof. intros Hk. rewrite ro_pv. apply ro_nonneg. lia. Qed.

(* which chunk a slow-path Seek selects *)
Lemma hint_ri_spec s pos :
  r_recs s = T -> 0 <= r_ri s <= L -> 0 <= pos ->
  let ri := hint_ri s pos in
  0 <= ri <= L /\
  RawOffset (pv ri) <= Z.min pos endp <= RawOffset (cu ri) /\
  (endp < pos -> ri = L).
Proof.
  intros HT Hr Hp. unfold hint_ri. rewrite HT, (get_records_eq (r_ri s) Hr).
  pose proof endp_nonneg as He.
  destruct ((RawOffset (pv (r_ri s)) <=? pos) && (pos <=? RawOffset (cu (r_ri s)))) eqn:E.
  - apply andb_true_iff in E. destruct E as [E1 E2]. apply Z.leb_le in E1, E2.
    pose proof (ro_cu_le_endp (r_ri s) Hr). cbv zeta.
    split; [exact Hr|]. split; [lia|]. intros; lia.
  - clear E. pose proof (search_spec T pos T_sorted) as H. cbv zeta in H. fold L in H.
    destruct H as [H1 [H2 H3]]. cbv zeta. set (ri := search T pos) in *.
    split; [exact H1|].
    pose proof (ro_pv_nonneg ri H1). pose proof (ro_pv_le_endp ri H1).
    assert (Hlo : RawOffset (pv ri) <= pos).
    { destruct H2 as [H2|H2]; [rewrite H2; change (RawOffset (pv 0)) with 0; lia | rewrite ro_pv; exact H2]. }
    destruct H3 as [H3|H3].
    + rewrite H3 in *. rewrite ro_cu_L. split; [lia | intros; reflexivity].
    + assert (ri < L).
      { destruct (Z.eq_dec ri L) as [E|E]; [|lia]. exfalso.
        rewrite E in H3. unfold RO, nth_rec in H3.
        replace (L <? 0) with false in H3 by (symmetry; apply Z.ltb_ge; lia).
        rewrite nth_overflow in H3 by (unfold L, zlen; lia). cbn in H3. lia. }
      rewrite ro_cu_lt by assumption.
      pose proof (ro_le_endp ri). split; [lia|]. intros; lia.
Qed.

Lemma slow_cur s pos :
  r_data s = data -> r_recs s = T -> 0 <= r_ri s <= L -> 0 <= pos ->
  Cur (slow_state s pos (hint_ri s pos)) pos (hint_ri s pos) /\
  r_err (slow_state s pos (hint_ri s pos)) = None.
Proof.
  intros Hd HT Hr Hp.
  destruct (hint_ri_spec s pos HT Hr Hp) as [Hk [Hb Hbe]]. cbv zeta in *.
  set (ri := hint_ri s pos) in *.
  unfold slow_state. rewrite HT, Hd, (get_records_eq ri Hk).
  destruct (chunk_facts ri Hk) as [F1 [F0 [F2 [F3 [F4 [F5 F6]]]]]]. cbv zeta in *.
  split; [|reflexivity].
  assert (Hend : end_raw s = endp) by (unfold end_raw, endp; rewrite HT; reflexivity).
  constructor; cbn [r_data r_recs r_offset r_ri r_chk r_zr r_discard r_err]; try assumption; try reflexivity.
  - rewrite F0. rewrite F2. f_equal. change (zN 0) with 0. lia.
  - rewrite Hend, F3. destruct (endp <? pos) eqn:E; [apply Z.ltb_lt in E | apply Z.ltb_ge in E]; lia.
  - rewrite Hend, F0. change (zN 0) with 0. destruct (endp <? pos) eqn:E; [apply Z.ltb_lt in E | apply Z.ltb_ge in E]; lia.
  - left; reflexivity.
Qed.

(* ---- the specification: a ReadSeeker over [content] --------------------------- *)
Record sp := mkSp { sp_pos : Z; sp_err : option err }.
Definition clen : Z := Z.of_nat (length content).

Definition sp_blocked (st : sp) : bool :=
  match sp_err st with Some e => negb (err_eqb e EEOF) | None => false end.

Definition sp_seek (st : sp) (offset whence : Z) : (Z * option err) * sp :=
  if sp_blocked st then ((0, sp_err st), st) else
  let opos := if whence =? 0 then Some offset
              else if whence =? 1 then Some (wrap64 (sp_pos st + offset))
              else if whence =? 2 then Some (wrap64 (clen + offset))
              else None in
  match opos with
  | None => ((0, Some EInvalid), st)
  | Some pos => if pos <? 0 then ((0, Some EInvalid), st) else ((pos, None), mkSp pos None)
  end.

(* Read asking for n bytes in total: the bytes at the position; io.EOF exactly
   when fewer than n remain (the position then rests at the end, or stays where
   it was when it already lay beyond the end) *)
Definition sp_read (st : sp) (n : N) : (list byte * option err) * sp :=
  match sp_err st with
  | Some e => (([], Some e), st)
  | None =>
    if (n =? 0)%N then (([], None), st) else
    let lp := Z.min (sp_pos st) clen in
    let avail := cs lp clen in
    if (N.to_nat n <=? length avail)%nat
    then ((firstn (N.to_nat n) avail, None), mkSp (sp_pos st + zN n) None)
    else ((avail, Some EEOF), mkSp (sp_pos st + Z.of_nat (length avail)) (Some EEOF))
  end.

Definition sp_close (st : sp) : option err * sp :=
  match sp_err st with
  | Some EClosed => (None, st)
  | Some EEOF | None => (None, mkSp (sp_pos st) (Some EClosed))
  | Some e => (Some e, st)
  end.

Definition sp_step (st : sp) (o : rop) : robs * sp :=
  match o with
  | RSeek off wh => let '((p, e), st') := sp_seek st off wh in (OSeek p e, st')
  | RRead n => let '((b, e), st') := sp_read st n in (ORead b e, st')
  | RClose => let '(e, st') := sp_close st in (OClose e, st')
  end.

Fixpoint sp_run (st : sp) (ops : list rop) : list robs * sp :=
  match ops with
  | [] => ([], st)
  | o :: r =>
    let '(ob, st') := sp_step st o in
    let '(obs, st'') := sp_run st' r in
    (ob :: obs, st'')
  end.

(* ---- the simulation relation ---------------------------------------------------- *)
Definition Rel (s : xr) (st : sp) : Prop :=
  (sp_err st = Some EClosed /\ r_err s = Some EClosed) \/
  (exists k, Cur s (sp_pos st) k /\ r_err s = sp_err st).

Lemma cur_rsize s pos k : Cur s pos k ->
  chk_rsize s - zN (z_outoff (r_zr s)) = Z.of_nat (length (z_rest (r_zr s))).
Proof.
  intros C. unfold chk_rsize. rewrite (c_chk _ _ _ C). cbn [fst snd].
  pose proof (c_zlen _ _ _ C). lia.
Qed.

Lemma cu_L_rsize : RawOffset (cu L) - RawOffset (pv L) = 0.
Proof. unfold cu. rewrite Z.ltb_irrefl. cbn [RawOffset]. lia. Qed.

Lemma cur_end_raw s pos k : Cur s pos k -> end_raw s = endp.
Proof. intros C. unfold end_raw, endp. rewrite (c_recs _ _ _ C). reflexivity. Qed.

Lemma cur_not_blocked s pos k : Cur s pos k -> blocked s = false.
Proof.
  intros C. unfold blocked. destruct (c_err _ _ _ C) as [E|[E _]]; rewrite E; reflexivity.
Qed.

Lemma seek_refines s st offset whence :
  Rel s st ->
  exists res s' st',
    seek s offset whence = (res, s') /\ sp_seek st offset whence = (res, st') /\ Rel s' st'.
Proof.
  intros [[E1 E2]|[k [C E]]].
  - (* closed *)
    exists (0, Some EClosed), s, st. rewrite seek_unfold. unfold blocked, sp_seek, sp_blocked.
    rewrite E1, E2. cbn. repeat split; try reflexivity. left; split; assumption.
  - rewrite seek_unfold, (cur_not_blocked _ _ _ C).
    unfold sp_seek.
    assert (Hb : sp_blocked st = false).
    { unfold sp_blocked. rewrite <- E. exact (cur_not_blocked _ _ _ C). }
    rewrite Hb. unfold spos. rewrite (cur_end_raw _ _ _ C), (c_off _ _ _ C).
    fold clen. rewrite endp_len. fold clen.
    set (opos := if whence =? 0 then Some offset
                 else if whence =? 1 then Some (wrap64 (sp_pos st + offset))
                 else if whence =? 2 then Some (wrap64 (clen + offset)) else None).
    destruct opos as [pos|].
    2:{ exists (0, Some EInvalid), s, st. repeat split; try reflexivity. right. exists k. split; assumption. }
    destruct (pos <? 0) eqn:Ep.
    { exists (0, Some EInvalid), s, st. repeat split; try reflexivity. right. exists k. split; assumption. }
    apply Z.ltb_ge in Ep.
    destruct (fast_ok s pos) eqn:Ef.
    + (* in-chunk fast path *)
      exists (pos, None), (fast_state s pos), (mkSp pos None).
      repeat split; try reflexivity. right. exists k. cbn [sp_pos sp_err].
      unfold fast_ok in Ef. apply andb_true_iff in Ef. destruct Ef as [Ef E3].
      apply andb_true_iff in Ef. destruct Ef as [E1 E2].
      apply Z.ltb_lt in E1, E2, E3.
      rewrite (cur_rsize _ _ _ C) in E2, E3. rewrite (c_off _ _ _ C) in E1, E3.
      pose proof (c_zlen _ _ _ C) as Hz. pose proof (c_lp _ _ _ C) as Hlp.
      pose proof (c_disc _ _ _ C) as Hd. pose proof (c_k _ _ _ C) as Hk.
      pose proof (ro_cu_le_endp k Hk) as Hce.
      assert (Hkl : k <> L).
      { intros ->. rewrite cu_L_rsize in Hz. unfold zN in *. lia. }
      assert (Hpe : sp_pos st <= endp).
      { destruct (Z.le_gt_cases (sp_pos st) endp) as [H|H]; [exact H|].
        exfalso. apply Hkl. apply (c_beyond _ _ _ C). lia. }
      assert (Hnone : r_err s = None).
      { destruct (c_err _ _ _ C) as [H|[_ H]]; [exact H | contradiction]. }
      split; [|exact Hnone].
      unfold fast_state. destruct C. 
      constructor; cbn [r_data r_recs r_offset r_ri r_chk r_zr r_discard r_err]; try assumption; try lia.
    + (* new chunk *)
      assert (Hr : 0 <= r_ri s <= L).
      { rewrite (c_ri _ _ _ C). pose proof (c_k _ _ _ C). pose proof L_pos. lia. }
      destruct (slow_cur s pos (c_data _ _ _ C) (c_recs _ _ _ C) Hr Ep) as [C' E'].
      exists (pos, None), (slow_state s pos (hint_ri s pos)), (mkSp pos None).
      repeat split; try reflexivity. right. exists (hint_ri s pos). split; assumption.
Qed.

(* ---- Read --------------------------------------------------------------------- *)
Lemma skipn_min {A} (n : nat) (l : list A) : skipn n l = skipn (Nat.min n (length l)) l.
Proof.
  destruct (Nat.le_ge_cases n (length l)) as [H|H].
  - rewrite Nat.min_l by exact H. reflexivity.
  - rewrite Nat.min_r by exact H. rewrite !skipn_all2; [reflexivity | lia | exact H].
Qed.

Lemma typ_known k : 0 <= k < L -> RType (cu k) <> unknownType.
Proof.
  intros Hk. unfold cu. replace (k <? L) with true by (symmetry; apply Z.ltb_lt; lia).
  exact (proj1 (proj2 (proj2 (proj2 (chunks_ok k Hk))))).
Qed.

Lemma typ_L : RType (cu L) = unknownType.
Proof. unfold cu. rewrite Z.ltb_irrefl. reflexivity. Qed.

Lemma pv_succ k : 0 <= k < L -> pv (k + 1) = cu k.
Proof.
  intros Hk. unfold pv, cu. replace (k + 1 - 1) with k by lia.
  replace (k <? L) with true by (symmetry; apply Z.ltb_lt; lia). reflexivity.
Qed.

(* the chunk is exhausted and verified: move to the next record *)
Definition eof_state (s1 : xr) : xr :=
  mkXR (r_data s1) (r_recs s1) (r_ri s1) (r_offset s1) (r_discard s1) (r_chk s1) (r_zr s1)
       (Some EEOF) (r_log s1).

Lemma chunk_end_unfold s pos k :
  Cur s pos k -> r_err s = None -> r_discard s = 0 -> z_rest (r_zr s) = [] ->
  let k' := Z.min (k + 1) L in
  let s1 := slow_state s pos k' in
  hint_ri s pos = k' /\
  Z.min pos endp = RawOffset (cu k) /\
  chunk_end s = (if chk_typ s1 =? unknownType then eof_state s1 else s1).
Proof.
  intros C He Hd Hz. cbv zeta.
  pose proof (c_k _ _ _ C) as Hk. pose proof L_pos as HL.
  pose proof (c_zlen _ _ _ C) as Hlen. rewrite Hz in Hlen. cbn [length] in Hlen.
  pose proof (c_lp _ _ _ C) as Hlp. rewrite Hd in Hlp.
  assert (Hlpc : Z.min pos endp = RawOffset (cu k)) by lia.
  pose proof (c_pos _ _ _ C) as Hp.
  assert (Hr : 0 <= r_ri s <= L) by (rewrite (c_ri _ _ _ C); lia).
  (* which record the seek lands on *)
  assert (Hri : hint_ri s pos = Z.min (k + 1) L).
  { unfold hint_ri. rewrite (c_recs _ _ _ C), (get_records_eq _ Hr), (c_ri _ _ _ C).
    destruct (Z.eq_dec k L) as [->|Hn].
    - replace (Z.min (L + 1) L) with L by lia.
      destruct (Z.le_gt_cases pos endp) as [Hle|Hgt].
      + assert (pos = endp) by (rewrite ro_cu_L in Hlpc; lia).
        rewrite ro_cu_L, ro_pv, <- endp_last.
        replace (endp <=? pos) with true by (symmetry; apply Z.leb_le; lia).
        replace (pos <=? endp) with true by (symmetry; apply Z.leb_le; lia). reflexivity.
      + rewrite ro_cu_L.
        replace (pos <=? endp) with false by (symmetry; apply Z.leb_gt; lia).
        rewrite andb_false_r.
        destruct (hint_ri_spec s pos (c_recs _ _ _ C) Hr Hp) as [_ [_ Hb]]. cbv zeta in Hb.
        unfold hint_ri in Hb.
        rewrite (c_recs _ _ _ C), (get_records_eq _ Hr), (c_ri _ _ _ C) in Hb.
        replace (Z.min (L + 1) L) with L in Hb by lia.
        rewrite ro_cu_L in Hb.
        replace (pos <=? endp) with false in Hb by (symmetry; apply Z.leb_gt; lia).
        rewrite andb_false_r in Hb. apply Hb. exact Hgt.
    - assert (Hk' : 0 <= k < L) by lia.
      replace (Z.min (k + 1) L) with (k + 1) by lia.
      assert (Hpe : pos <= endp).
      { destruct (Z.le_gt_cases pos endp) as [H|H]; [exact H|].
        exfalso. apply Hn. apply (c_beyond _ _ _ C). exact H. }
      rewrite (pv_succ k Hk').
      assert (Hk1 : 0 <= k + 1 <= L) by lia.
      destruct (chunk_facts (k + 1) Hk1) as [F1 _]. cbv zeta in F1. rewrite (pv_succ k Hk') in F1.
      replace (RawOffset (cu k) <=? pos) with true by (symmetry; apply Z.leb_le; lia).
      replace (pos <=? RawOffset (cu (k + 1))) with true by (symmetry; apply Z.leb_le; lia).
      reflexivity. }
  split; [exact Hri|]. split; [exact Hlpc|].
  unfold chunk_end, chk_typ, chk_csize, chk_rsize. rewrite (c_chk _ _ _ C). cbn [fst snd].
  (* sync check *)
  assert (S1 : (RType (cu k) =? deflateType) && negb (z_sync_ok (r_zr s)) = false).
  { destruct (RType (cu k) =? deflateType) eqn:E; [|reflexivity].
    apply Z.eqb_eq in E. rewrite (c_sync _ _ _ C E). reflexivity. }
  rewrite S1.
  (* size check *)
  assert (S2 : negb (((if RType (cu k) =? footerType
                       then CompOffset (cu k) - CompOffset (pv k)
                       else CompOffset (cu k) - CompOffset (pv k) + 5)
                      =? zN (z_used (r_zr s)))
                     && (RawOffset (cu k) - RawOffset (pv k) =? zN (z_outoff (r_zr s)))) = false).
  { rewrite (c_used _ _ _ C). rewrite Z.eqb_refl. cbn [andb].
    replace (RawOffset (cu k) - RawOffset (pv k) =? zN (z_outoff (r_zr s))) with true
      by (symmetry; apply Z.eqb_eq; lia). reflexivity. }
  rewrite S2.
  (* the seek to the current offset takes the slow path *)
  rewrite seek_unfold, (cur_not_blocked _ _ _ C). unfold spos. cbn [Z.eqb].
  rewrite (c_off _ _ _ C).
  replace (pos <? 0) with false by (symmetry; apply Z.ltb_ge; lia).
  assert (Hf : fast_ok s pos = false).
  { unfold fast_ok. rewrite (c_off _ _ _ C), Z.ltb_irrefl. reflexivity. }
  rewrite Hf, Hri. reflexivity.
Qed.

Lemma chunk_end_spec s pos k :
  Cur s pos k -> r_err s = None -> r_discard s = 0 -> z_rest (r_zr s) = [] ->
  let k' := Z.min (k + 1) L in
  Cur (chunk_end s) pos k' /\
  (k' < L -> r_err (chunk_end s) = None) /\
  (k' = L -> r_err (chunk_end s) = Some EEOF) /\
  Z.min pos endp = RawOffset (cu k).
Proof.
  intros C He Hd Hz. cbv zeta.
  destruct (chunk_end_unfold s pos k C He Hd Hz) as [Hri [Hlpc Hce]]. cbv zeta in *.
  pose proof (c_k _ _ _ C) as Hk. pose proof L_pos as HL. pose proof (c_pos _ _ _ C) as Hp.
  assert (Hr : 0 <= r_ri s <= L) by (rewrite (c_ri _ _ _ C); lia).
  destruct (slow_cur s pos (c_data _ _ _ C) (c_recs _ _ _ C) Hr Hp) as [C' E'].
  rewrite Hri in *. set (k' := Z.min (k + 1) L) in *.
  set (s1 := slow_state s pos k') in *.
  assert (Ht : chk_typ s1 = RType (cu k')).
  { unfold chk_typ. rewrite (c_chk _ _ _ C'). reflexivity. }
  rewrite Hce, Ht.
  destruct (Z.eq_dec k' L) as [Ek|Ek].
  - rewrite Ek in *. rewrite typ_L. cbn [Z.eqb unknownType].
    split; [|split; [intros; lia | split; [intros; reflexivity | exact Hlpc]]].
    unfold eof_state. destruct C'.
    constructor; cbn [r_data r_recs r_offset r_ri r_chk r_zr r_discard r_err]; try assumption.
    right. split; reflexivity.
  - assert (Hk' : 0 <= k' < L) by (unfold k' in *; lia).
    pose proof (typ_known k' Hk') as Htk.
    replace (RType (cu k') =? unknownType) with false by (symmetry; apply Z.eqb_neq; exact Htk).
    split; [exact C'|]. split; [intros; exact E' | split; [intros; lia | exact Hlpc]].
Qed.

(* the pending discard is consumed inside the current chunk *)
Definition discard_state (s : xr) : xr :=
  let z := r_zr s in
  let d := Z.to_N (r_discard s) in
  mkXR (r_data s) (r_recs s) (r_ri s) (r_offset s) 0 (r_chk s)
       (mkZr (skipn (N.to_nat d) (z_rest z)) (z_outoff z + d) (z_end z) (z_used z) (z_sync_ok z) (z_joined z))
       None (r_log s).

Lemma discard_cur s pos k :
  Cur s pos k -> r_err s = None -> 0 < r_discard s -> Cur (discard_state s) pos k.
Proof.
  intros C He Hd. pose proof (c_disc _ _ _ C) as Hdd. pose proof (c_k _ _ _ C) as Hk.
  pose proof (ro_pv_nonneg k Hk) as Hpn.
  unfold discard_state. destruct C.
  constructor; cbn [r_data r_recs r_offset r_ri r_chk r_zr r_discard r_err
                    z_rest z_outoff z_end z_used z_sync_ok z_joined]; try assumption; try lia.
  - rewrite c_zrest0. rewrite Z_N_nat. rewrite cs_skipn by (unfold zN; lia).
    f_equal. unfold zN. lia.
  - rewrite skipn_length. unfold zN in *. lia.
  - unfold zN in *. lia.
  - left; reflexivity.
Qed.

(* bytes are delivered from the current chunk *)
Definition data_state (s : xr) (n : N) : xr :=
  let z := r_zr s in
  let chunk := firstn (N.to_nat n) (z_rest z) in
  mkXR (r_data s) (r_recs s) (r_ri s) (r_offset s + zN (N.of_nat (length chunk))) 0 (r_chk s)
       (mkZr (skipn (N.to_nat n) (z_rest z)) (z_outoff z + N.of_nat (length chunk))
             (z_end z) (z_used z) (z_sync_ok z) (z_joined z))
       None (r_log s).

Lemma data_cur s pos k n :
  Cur s pos k -> r_err s = None -> r_discard s = 0 -> z_rest (r_zr s) <> [] ->
  let m := Z.of_nat (length (firstn (N.to_nat n) (z_rest (r_zr s)))) in
  Cur (data_state s n) (pos + m) k /\
  pos <= endp /\
  firstn (N.to_nat n) (z_rest (r_zr s)) = cs pos (pos + m) /\
  pos + m <= endp.
Proof.
  intros C He Hd Hne. cbv zeta.
  pose proof (c_k _ _ _ C) as Hk. pose proof (ro_pv_nonneg k Hk) as Hpn.
  pose proof (c_zlen _ _ _ C) as Hlen. pose proof (c_lp _ _ _ C) as Hlp. rewrite Hd in Hlp.
  pose proof (ro_cu_le_endp k Hk) as Hce. pose proof (c_pos _ _ _ C) as Hp.
  assert (Hl : (0 < length (z_rest (r_zr s)))%nat) by (destruct (z_rest (r_zr s)); [contradiction | cbn; lia]).
  assert (Hkl : k <> L).
  { intros ->. rewrite cu_L_rsize in Hlen. unfold zN in *. lia. }
  assert (Hpe : pos <= endp).
  { destruct (Z.le_gt_cases pos endp) as [H|H]; [exact H|].
    exfalso. apply Hkl. apply (c_beyond _ _ _ C). exact H. }
  assert (Hpos : RawOffset (pv k) + zN (z_outoff (r_zr s)) = pos) by lia.
  set (rest := z_rest (r_zr s)) in *.
  set (m := length (firstn (N.to_nat n) rest)).
  assert (Hm : m = Nat.min (N.to_nat n) (length rest)) by (unfold m; apply firstn_length).
  assert (Hchunk : firstn (N.to_nat n) rest = cs pos (pos + Z.of_nat m)).
  { rewrite (firstn_min (N.to_nat n) rest), <- Hm. unfold rest. rewrite (c_zrest _ _ _ C), Hpos.
    replace m with (Z.to_nat (Z.of_nat m)) at 1 by lia.
    apply cs_firstn; unfold zN in *; lia. }
  split; [|split; [exact Hpe | split; [exact Hchunk | unfold zN in *; lia]]].
  unfold data_state. fold rest. fold m.
  assert (Hrest : rest = cs (RawOffset (pv k) + zN (z_outoff (r_zr s))) (RawOffset (cu k)))
    by exact (c_zrest _ _ _ C).
  destruct C.
  constructor; cbn [r_data r_recs r_offset r_ri r_chk r_zr r_discard r_err
                    z_rest z_outoff z_end z_used z_sync_ok z_joined]; try assumption; try lia.
  - rewrite c_off0. unfold zN. lia.
  - rewrite (skipn_min (N.to_nat n) rest), <- Hm. rewrite Hrest at 1.
    replace m with (Z.to_nat (Z.of_nat m)) at 1 by lia.
    rewrite cs_skipn by (unfold zN; lia). f_equal. unfold zN. lia.
  - rewrite skipn_length. fold rest in c_zlen0. unfold zN in *. lia.
  - unfold zN in *. lia.
  - left; reflexivity.
Qed.

Lemma zr_read_nil z n : z_rest z = [] -> zr_read z n = (([], Some (z_end z)), z).
Proof. intros H. unfold zr_read. rewrite H. reflexivity. Qed.

Lemma zr_read_cons z n : z_rest z <> [] ->
  zr_read z n =
  ((firstn (N.to_nat n) (z_rest z), None),
   mkZr (skipn (N.to_nat n) (z_rest z))
        (z_outoff z + N.of_nat (length (firstn (N.to_nat n) (z_rest z))))
        (z_end z) (z_used z) (z_sync_ok z) (z_joined z)).
Proof. intros H. unfold zr_read. destruct (z_rest z); [contradiction | reflexivity]. Qed.

Definition avail (pos : Z) : list byte := cs (Z.min pos endp) endp.

Lemma avail_length pos : 0 <= pos -> Z.of_nat (length (avail pos)) = endp - Z.min pos endp.
Proof.
  intros Hp. unfold avail. pose proof endp_nonneg. apply cs_length; try lia.
  rewrite endp_len. lia.
Qed.

(* one iteration of read_loop, by cases *)
Lemma read_loop_discard_step f s n acc :
  r_err s = None -> n <> 0%N -> 0 < r_discard s ->
  (Z.to_N (r_discard s) <= N.of_nat (length (z_rest (r_zr s))))%N ->
  z_end (r_zr s) = None ->
  read_loop (S f) s n acc = read_loop f (discard_state s) n acc.
Proof.
  intros He Hn Hd Hle Hz. cbn [read_loop]. rewrite He.
  replace (n =? 0)%N with false by (symmetry; apply N.eqb_neq; exact Hn).
  replace (0 <? r_discard s) with true by (symmetry; apply Z.ltb_lt; exact Hd).
  replace (Z.to_N (r_discard s) <=? N.of_nat (length (z_rest (r_zr s))))%N with true
    by (symmetry; apply N.leb_le; exact Hle).
  unfold discard_state. rewrite Hz, andb_false_r. reflexivity.
Qed.

Lemma read_loop_data_step f s n acc :
  r_err s = None -> n <> 0%N -> r_discard s <= 0 -> z_rest (r_zr s) <> [] ->
  read_loop (S f) s n acc =
  let ds := data_state s n in
  let chunk := firstn (N.to_nat n) (z_rest (r_zr s)) in
  let n' := (n - N.of_nat (length chunk))%N in
  if zr_status_now (r_zr ds) then
    let s'' := match z_end (r_zr s) with Some e => latch_err ds e | None => chunk_end ds end in
    if (n' =? 0)%N then ((acc ++ chunk, None), s'') else read_loop f s'' n' (acc ++ chunk)
  else read_loop f ds n' (acc ++ chunk).
Proof.
  intros He Hn Hd Hne. cbn [read_loop]. rewrite He.
  replace (n =? 0)%N with false by (symmetry; apply N.eqb_neq; exact Hn).
  replace (0 <? r_discard s) with false by (symmetry; apply Z.ltb_ge; exact Hd).
  rewrite (zr_read_cons _ _ Hne). reflexivity.
Qed.

Lemma read_loop_zero f s acc : r_err s = None -> read_loop (S f) s 0 acc = ((acc, None), s).
Proof. intros He. cbn [read_loop]. rewrite He. reflexivity. Qed.

Lemma zr_status_now_nil z : zr_status_now z = true -> z_rest z = [].
Proof.
  unfold zr_status_now. intros H. apply andb_true_iff in H. destruct H as [_ H].
  destruct (z_rest z); [reflexivity | discriminate].
Qed.

Lemma read_sticky' s n e : r_err s = Some e -> read s n = (([], Some e), s).
Proof.
  intros He. unfold read.
  destruct (2 * length (r_recs s) + N.to_nat n + 8)%nat eqn:F; [lia|].
  cbn [read_loop]. rewrite He. reflexivity.
Qed.

Lemma read_zero' s : read s 0 = (([], r_err s), s).
Proof.
  unfold read.
  destruct (2 * length (r_recs s) + N.to_nat 0 + 8)%nat eqn:F; [lia|].
  cbn [read_loop]. destruct (r_err s); reflexivity.
Qed.

Lemma close_refines s st :
  Rel s st ->
  exists res s' st', close s = (res, s') /\ sp_close st = (res, st') /\ Rel s' st'.
Proof.
  intros [[E1 E2]|[k [C E]]].
  - exists None, s, st. unfold close, sp_close. rewrite E1, E2.
    repeat split; try reflexivity. left; split; assumption.
  - unfold close, sp_close. rewrite <- E.
    destruct (c_err _ _ _ C) as [H|[H _]]; rewrite H;
      eexists None, _, _; (repeat split; try reflexivity); left; split; reflexivity.
Qed.

Lemma open_rel s0 :
  r_data s0 = data -> r_recs s0 = T -> r_ri s0 = 0 -> r_offset s0 = 0 -> r_err s0 = None ->
  Rel (snd (seek s0 0 0)) (mkSp 0 None).
Proof.
  intros Hd HT Hr Ho He. rewrite seek_unfold. unfold blocked. rewrite He. unfold spos.
  cbn [Z.eqb Z.ltb Z.compare].
  assert (Hf : fast_ok s0 0 = false) by (unfold fast_ok; rewrite Ho; reflexivity).
  rewrite Hf. cbn [snd].
  assert (Hri : 0 <= r_ri s0 <= L) by (rewrite Hr; pose proof L_pos; lia).
  destruct (slow_cur s0 0 Hd HT Hri (Z.le_refl 0)) as [C E].
  right. exists (hint_ri s0 0). split; [exact C | exact E].
Qed.
(* When the last record of the table carries data and its decompressor returns io.EOF
   together with the last bytes, the Read that takes exactly those bytes returns them and
   leaves io.EOF latched (second alternative below); read_refines excludes it (Hlast). *)
Lemma read_loop_spec : forall fuel s n acc pos k,
  Cur s pos k -> r_err s = None ->
  (2 * Z.to_nat (L - k) + N.to_nat n + (if (0 <? r_discard s)%Z then 1 else 0) + 2 <= fuel)%nat ->
  exists s',
    read_loop fuel s n acc =
      (if (N.to_nat n <=? length (avail pos))%nat
       then (acc ++ firstn (N.to_nat n) (avail pos), None)
       else (acc ++ avail pos, Some EEOF), s') /\
    if (N.to_nat n <=? length (avail pos))%nat
    then (exists k', Cur s' (pos + zN n) k') /\
         (r_err s' = None \/ (r_err s' = Some EEOF /\ RO T (L - 2) < RO T (L - 1)))
    else (exists k', Cur s' (pos + Z.of_nat (length (avail pos))) k') /\ r_err s' = Some EEOF.
Proof.
  induction fuel as [|f IH]; intros s n acc pos k C He Hf; [lia|].
  pose proof (c_k _ _ _ C) as Hk. pose proof (c_pos _ _ _ C) as Hp.
  destruct (n =? 0)%N eqn:En.
  - apply N.eqb_eq in En. subst n. rewrite (read_loop_zero f s acc He).
    change (N.to_nat 0) with O. cbn [Nat.leb firstn].
    exists s. rewrite app_nil_r. split; [reflexivity|]. split; [|left; exact He].
    exists k. change (zN 0) with 0. rewrite Z.add_0_r. exact C.
  - apply N.eqb_neq in En.
    destruct (0 <? r_discard s) eqn:Ed.
    + (* consume the discard *)
      apply Z.ltb_lt in Ed. pose proof (c_disc _ _ _ C) as Hd.
      rewrite (read_loop_discard_step f s n acc He En Ed) by (try exact (c_zend _ _ _ C); lia).
      apply (IH (discard_state s) n acc pos k (discard_cur s pos k C He Ed) eq_refl).
      cbn [discard_state r_discard]. cbn. lia.
    + apply Z.ltb_ge in Ed. pose proof (c_disc _ _ _ C) as Hd.
      assert (Hd0 : r_discard s = 0) by lia.
      destruct (z_rest (r_zr s)) as [|b rest] eqn:Hz.
      * (* chunk exhausted *)
        cbn [read_loop]. rewrite He.
        replace (n =? 0)%N with false by (symmetry; apply N.eqb_neq; exact En).
        replace (0 <? r_discard s) with false by (symmetry; apply Z.ltb_ge; exact Ed).
        rewrite (zr_read_nil _ _ Hz), (c_zend _ _ _ C).
        destruct (chunk_end_spec s pos k C He Hd0 Hz) as [C' [E1 [E2 Hlp]]]. cbv zeta in *.
        set (k' := Z.min (k + 1) L) in *.
        destruct (Z.eq_dec k' L) as [Ek|Ek].
        -- (* end of stream *)
           specialize (E2 Ek).
           assert (Hcu : RawOffset (cu k) = endp).
           { destruct (Z.eq_dec k L) as [->|Hn]; [apply ro_cu_L|].
             assert (k = L - 1) by (unfold k' in Ek; lia). subst k.
             rewrite ro_cu_lt by lia. symmetry. apply endp_last. }
           assert (Hav : avail pos = []).
           { unfold avail. rewrite Hlp, Hcu. apply cs_nil. }
           rewrite Hav. cbn [length].
           replace (N.to_nat n <=? 0)%nat with false by (symmetry; apply Nat.leb_gt; lia).
           destruct f as [|f']; [lia|]. cbn [read_loop]. rewrite E2.
           exists (chunk_end s). rewrite app_nil_r. split; [reflexivity|].
           split; [|exact E2]. exists k'. rewrite Z.add_0_r. exact C'.
        -- assert (Hk' : k' < L) by (unfold k' in *; lia).
           specialize (E1 Hk').
           apply (IH (chunk_end s) n acc pos k' C' E1).
           destruct (0 <? r_discard (chunk_end s)); unfold k' in *; lia.
      * (* deliver data *)
        assert (Hne : z_rest (r_zr s) <> []) by (rewrite Hz; discriminate).
        rewrite (read_loop_data_step f s n acc He En Ed Hne). cbv zeta.
        destruct (data_cur s pos k n C He Hd0 Hne) as [C' [Hpe [Hchunk Hpm]]]. cbv zeta in *.
        rewrite <- Hz in *.
        set (chunk := firstn (N.to_nat n) (z_rest (r_zr s))) in *.
        set (m := length chunk) in *.
        assert (Hm1 : (1 <= m)%nat).
        { unfold m, chunk. rewrite firstn_length, Hz. cbn [length]. lia. }
        assert (Hmn : (m <= N.to_nat n)%nat).
        { unfold m, chunk. rewrite firstn_length. lia. }
        (* relate avail pos and avail (pos + m) *)
        assert (Hsplit : avail pos = chunk ++ avail (pos + Z.of_nat m)).
        { unfold avail. rewrite !Z.min_l by lia. rewrite Hchunk. symmetry. apply cs_app; lia. }
        pose proof (avail_length pos Hp) as HL1.
        assert (HL2 : Z.of_nat (length (avail (pos + Z.of_nat m))) = endp - (pos + Z.of_nat m)).
        { rewrite avail_length by lia. rewrite Z.min_l by lia. reflexivity. }
        rewrite Z.min_l in HL1 by lia.
        (* the chunk has data, so it is a record of the table *)
        pose proof (c_zlen _ _ _ C) as Hlen.
        assert (Hl : (1 <= length (z_rest (r_zr s)))%nat) by (rewrite Hz; cbn [length]; lia).
        assert (Hkl : k <> L).
        { intros ->. rewrite cu_L_rsize in Hlen. unfold zN in *. lia. }
        (* what the loop goes on with after these bytes *)
        assert (Hgo : forall sX kX,
                  Cur sX (pos + Z.of_nat m) kX -> r_err sX = None ->
                  (2 * Z.to_nat (L - kX) + N.to_nat (n - N.of_nat m)
                   + (if (0 <? r_discard sX)%Z then 1 else 0) + 2 <= f)%nat ->
                  exists s',
                    read_loop f sX (n - N.of_nat m) (acc ++ chunk) =
                      (if (N.to_nat n <=? length (avail pos))%nat
                       then (acc ++ firstn (N.to_nat n) (avail pos), None)
                       else (acc ++ avail pos, Some EEOF), s') /\
                    if (N.to_nat n <=? length (avail pos))%nat
                    then (exists k', Cur s' (pos + zN n) k') /\
                         (r_err s' = None \/ (r_err s' = Some EEOF /\ RO T (L - 2) < RO T (L - 1)))
                    else (exists k', Cur s' (pos + Z.of_nat (length (avail pos))) k') /\ r_err s' = Some EEOF).
        { intros sX kX CX EX Hf'.
          destruct (IH sX (n - N.of_nat m)%N (acc ++ chunk) (pos + Z.of_nat m) kX CX EX Hf')
            as [s' [Hrun Hpost]].
          exists s'. rewrite Hrun. clear Hrun IH.
          replace (N.to_nat (n - N.of_nat m)) with (N.to_nat n - m)%nat in * by lia.
          destruct (N.to_nat n - m <=? length (avail (pos + Z.of_nat m)))%nat eqn:Eb.
          -- apply Nat.leb_le in Eb.
             replace (N.to_nat n <=? length (avail pos))%nat with true by (symmetry; apply Nat.leb_le; lia).
             split.
             ++ f_equal. f_equal. rewrite Hsplit, firstn_app. fold m.
                rewrite (firstn_all2 chunk) by (fold m; lia). rewrite <- app_assoc. reflexivity.
             ++ destruct Hpost as [[k2 C2] E2]. split; [|exact E2]. exists k2.
                replace (pos + zN n) with (pos + Z.of_nat m + zN (n - N.of_nat m)) by (unfold zN; lia).
                exact C2.
          -- apply Nat.leb_gt in Eb.
             replace (N.to_nat n <=? length (avail pos))%nat with false by (symmetry; apply Nat.leb_gt; lia).
             split.
             ++ f_equal. f_equal. rewrite Hsplit, <- app_assoc. reflexivity.
             ++ destruct Hpost as [[k2 C2] E2]. split; [|exact E2]. exists k2.
                replace (pos + Z.of_nat (length (avail pos)))
                  with (pos + Z.of_nat m + Z.of_nat (length (avail (pos + Z.of_nat m)))) by lia.
                exact C2. }
        fold chunk. fold m.
        destruct (zr_status_now (r_zr (data_state s n))) eqn:Ej.
        -- (* the status came with these bytes: the chunk ends in this call *)
           rewrite (c_zend _ _ _ C).
           pose proof (zr_status_now_nil _ Ej) as Hz'.
           destruct (chunk_end_spec (data_state s n) (pos + Z.of_nat m) k C' eq_refl eq_refl Hz')
             as [C'' [E1 [E2 Hlp]]]. cbv zeta in *.
           replace (Z.min (k + 1) L) with (k + 1) in * by lia.
           destruct (Z.eq_dec (k + 1) L) as [Ek|Ek].
           ++ (* it was the last record: io.EOF is latched in this call *)
              specialize (E2 Ek). rewrite Ek in C''.
              assert (Hend : pos + Z.of_nat m = endp).
              { replace k with (L - 1) in Hlp by lia. rewrite ro_cu_lt in Hlp by lia.
                rewrite <- endp_last in Hlp. lia. }
              assert (Hav : length (avail pos) = m) by lia.
              assert (Hav2 : avail pos = chunk).
              { rewrite Hsplit. destruct (avail (pos + Z.of_nat m)); [apply app_nil_r | cbn [length] in HL2; lia]. }
              assert (Hro : RO T (L - 2) < RO T (L - 1)).
              { replace k with (L - 1) in Hlen by lia. rewrite ro_cu_lt in Hlen by lia. rewrite ro_pv in Hlen.
                replace (L - 1 - 1) with (L - 2) in Hlen by lia. unfold zN in *. lia. }
              exists (chunk_end (data_state s n)).
              destruct (n - N.of_nat m =? 0)%N eqn:En'.
              ** apply N.eqb_eq in En'.
                 replace (N.to_nat n <=? length (avail pos))%nat with true by (symmetry; apply Nat.leb_le; lia).
                 split.
                 --- f_equal. f_equal. rewrite Hav2. rewrite firstn_all2 by (fold m; lia). reflexivity.
                 --- split; [|right; split; [exact E2 | exact Hro]]. exists L.
                     replace (pos + zN n) with (pos + Z.of_nat m) by (unfold zN; lia). exact C''.
              ** apply N.eqb_neq in En'.
                 replace (N.to_nat n <=? length (avail pos))%nat with false by (symmetry; apply Nat.leb_gt; lia).
                 destruct f as [|f']; [lia|]. cbn [read_loop]. rewrite E2.
                 split; [rewrite Hav2; reflexivity|].
                 split; [|reflexivity]. exists L. rewrite Hav. exact C''.
           ++ assert (Hk' : k + 1 < L) by lia.
              specialize (E1 Hk').
              assert (Hf' : (2 * Z.to_nat (L - (k + 1)) + N.to_nat (n - N.of_nat m)
                             + (if (0 <? r_discard (chunk_end (data_state s n)))%Z then 1 else 0) + 2 <= f)%nat).
              { destruct (0 <? r_discard (chunk_end (data_state s n))); lia. }
              destruct (n - N.of_nat m =? 0)%N eqn:En'.
              ** apply N.eqb_eq in En'.
                 destruct (Hgo _ _ C'' E1 Hf') as [s' [Hrun Hpost]].
                 rewrite En' in Hrun. destruct f as [|f']; [lia|].
                 rewrite (read_loop_zero f' _ _ E1) in Hrun.
                 exists s'. split; [exact Hrun | exact Hpost].
              ** exact (Hgo _ _ C'' E1 Hf').
        -- apply (Hgo (data_state s n) k C' eq_refl).
           cbn [data_state r_discard]. cbn [Z.ltb Z.compare]. lia.
Qed.

(* The last record carries no raw data (it is the footer record in every table
   open_reader builds: open_last_empty below).  Needed since the Reader acts on
   the final status of a chunk in the Read call that hands over its last bytes
   when the decompressor returns both together (z_joined): were that the last
   chunk of the table, Read would return the last bytes with io.EOF latched,
   and a following Read of an empty buffer would return io.EOF where a
   ReadSeeker at the end returns nil. *)
Hypothesis Hlast : RO T (L - 2) = RO T (L - 1).

Lemma read_refines s st n :
  Rel s st ->
  exists res s' st', read s n = (res, s') /\ sp_read st n = (res, st') /\ Rel s' st'.
Proof.
  intros [[E1 E2]|[k [C E]]].
  - exists ([], Some EClosed), s, st. rewrite (read_sticky' s n EClosed E2).
    unfold sp_read. rewrite E1. repeat split; try reflexivity. left; split; assumption.
  - destruct (r_err s) as [e|] eqn:Ee.
    + exists ([], Some e), s, st. rewrite (read_sticky' s n e Ee).
      unfold sp_read. rewrite <- E. repeat split; try reflexivity.
      right. exists k. split; [exact C | rewrite Ee; exact E].
    + unfold sp_read. rewrite <- E.
      destruct (n =? 0)%N eqn:En.
      * apply N.eqb_eq in En. subst n.
        exists ([], None), s, st. rewrite read_zero', Ee.
        repeat split; try reflexivity. right. exists k. split; [exact C | rewrite Ee; exact E].
      * pose proof (c_k _ _ _ C) as Hk.
        assert (Hf : (2 * Z.to_nat (L - k) + N.to_nat n + (if (0 <? r_discard s)%Z then 1 else 0) + 2
                      <= 2 * length (r_recs s) + N.to_nat n + 8)%nat).
        { rewrite (c_recs _ _ _ C). unfold L, zlen in *. destruct (0 <? r_discard s); lia. }
        destruct (read_loop_spec _ s n [] (sp_pos st) k C Ee Hf) as [s' [Hrun Hpost]].
        unfold read. rewrite Hrun. cbn [app].
        unfold clen. rewrite <- endp_len. fold (avail (sp_pos st)).
        destruct (N.to_nat n <=? length (avail (sp_pos st)))%nat.
        -- destruct Hpost as [[k' C'] [E'|[_ E']]]; [|lia].
           exists (firstn (N.to_nat n) (avail (sp_pos st)), None), s', (mkSp (sp_pos st + zN n) None).
           repeat split; try reflexivity. right. exists k'. split; [exact C' | exact E'].
        -- destruct Hpost as [[k' C'] E'].
           exists (avail (sp_pos st), Some EEOF), s',
                  (mkSp (sp_pos st + Z.of_nat (length (avail (sp_pos st)))) (Some EEOF)).
           repeat split; try reflexivity. right. exists k'. split; [exact C' | exact E'].
Qed.

Lemma step_refines s st o :
  Rel s st -> exists ob s' st', rstep s o = (ob, s') /\ sp_step st o = (ob, st') /\ Rel s' st'.
Proof.
  intros R. destruct o as [off wh | n |]; cbn [rstep sp_step].
  - destruct (seek_refines s st off wh R) as [[p e] [s' [st' [H1 [H2 H3]]]]].
    rewrite H1, H2. exists (OSeek p e), s', st'. repeat split; try reflexivity. exact H3.
  - destruct (read_refines s st n R) as [[b e] [s' [st' [H1 [H2 H3]]]]].
    rewrite H1, H2. exists (ORead b e), s', st'. repeat split; try reflexivity. exact H3.
  - destruct (close_refines s st R) as [e [s' [st' [H1 [H2 H3]]]]].
    rewrite H1, H2. exists (OClose e), s', st'. repeat split; try reflexivity. exact H3.
Qed.

Theorem run_refines ops : forall s st, Rel s st -> fst (rrun s ops) = fst (sp_run st ops).
Proof.
  induction ops as [|o ops IH]; intros s st R; [reflexivity|].
  cbn [rrun sp_run].
  destruct (step_refines s st o R) as [ob [s' [st' [H1 [H2 H3]]]]].
  rewrite H1, H2. specialize (IH s' st' H3).
  destruct (rrun s' ops) as [obs s'']. destruct (sp_run st' ops) as [obs' st''].
  cbn [fst] in *. rewrite IH. reflexivity.
Qed.

End Refine.

Lemma seek_keeps_recs s off wh : r_recs (snd (seek s off wh)) = r_recs s.
Proof.
  rewrite seek_unfold.
  destruct (blocked s); [reflexivity|].
  destruct (spos s off wh) as [pos|]; [|reflexivity].
  destruct (pos <? 0); [reflexivity|].
  destruct (fast_ok s pos); [reflexivity|].
  cbn [snd]. unfold slow_state. destruct (get_records (r_recs s) (hint_ri s pos)). reflexivity.
Qed.

(* the record AppendRecord(size, 0, typ) appends carries no raw data: the footer
   record open_reader ends every table with *)
Lemma append_record_zero_last recs c typ recs' :
  append_record recs c 0 typ = Some recs' -> 0 <= RO recs' (zlen recs' - 2) ->
  RO recs' (zlen recs' - 2) = RO recs' (zlen recs' - 1).
Proof.
  unfold append_record. intros H.
  destruct ((0 <? 0) || (c <? 0)); [discriminate|].
  destruct ((wrap64 (CompOffset (last_record recs) + c) <? CompOffset (last_record recs))
            || (wrap64 (RawOffset (last_record recs) + 0) <? RawOffset (last_record recs))) eqn:E;
    [discriminate|].
  apply orb_false_iff in E. destruct E as [_ E]. apply Z.ltb_ge in E.
  inversion H; subst recs'. clear H.
  unfold zlen. rewrite app_length. cbn [length].
  replace (Z.of_nat (length recs + 1) - 1) with (Z.of_nat (length recs)) by lia.
  replace (Z.of_nat (length recs + 1) - 2) with (Z.of_nat (length recs) - 1) by lia.
  assert (H1 : RO (recs ++ [mkRec (wrap64 (CompOffset (last_record recs) + c))
                                   (wrap64 (RawOffset (last_record recs) + 0)) typ])
                  (Z.of_nat (length recs)) = wrap64 (RawOffset (last_record recs) + 0)).
  { unfold RO, nth_rec. replace (Z.of_nat (length recs) <? 0) with false by (symmetry; apply Z.ltb_ge; lia).
    rewrite Nat2Z.id, app_nth2, Nat.sub_diag by lia. reflexivity. }
  assert (H2 : RO (recs ++ [mkRec (wrap64 (CompOffset (last_record recs) + c))
                                   (wrap64 (RawOffset (last_record recs) + 0)) typ])
                  (Z.of_nat (length recs) - 1) = RawOffset (last_record recs)).
  { destruct recs as [|r0 recs0] eqn:Er; [reflexivity|]. rewrite <- Er.
    assert (Hne : recs <> []) by (rewrite Er; discriminate).
    rewrite (last_nth_rec recs Hne). unfold RO, nth_rec, zlen.
    assert (Hl : (1 <= length recs)%nat) by (rewrite Er; cbn [length]; lia).
    replace (Z.of_nat (length recs) - 1 <? 0) with false by (symmetry; apply Z.ltb_ge; lia).
    rewrite app_nth1 by lia. reflexivity. }
  rewrite H1, H2. intros Hnn.
  unfold wrap64 in *. change (2 ^ 63) with 9223372036854775808 in *.
  change (2 ^ 64) with 18446744073709551616 in *. lia.
Qed.

(* ---- the theorem for a stream as the reader opens it ------------------------------- *)
Theorem xflate_reader_refines_readseeker data content s1 :
  open_reader data = inr s1 ->
  honest data (r_recs s1) content ->
  forall ops, fst (rrun s1 ops) = fst (sp_run content (mkSp 0 None) ops).
Proof.
  unfold open_reader. intros Ho Hh ops.
  destruct (decode_footer data) as [e|[[backSize footSize] log]]; [discriminate|].
  destruct (decode_indexes_loop _ _ _ _ _ _ _) as [e|[idxs log']]; [discriminate|].
  destruct (merge_indexes [] idxs) as [recs|]; [|discriminate].
  destruct (append_record recs (zN footSize) 0 footerType) as [recs'|] eqn:Ea; [|discriminate].
  set (s0 := mkXR data recs' 0 0 0 (0, 0, 0) (mkZr [] 0 None 0 false false) None log') in *.
  destruct (seek s0 0 0) as [r s1'] eqn:Es. inversion Ho; subst s1'. clear Ho.
  assert (Hs1 : s1 = snd (seek s0 0 0)) by (rewrite Es; reflexivity).
  assert (HT : r_recs s1 = recs').
  { rewrite Hs1, seek_keeps_recs. reflexivity. }
  rewrite HT in Hh.
  assert (Hlast : RO recs' (L recs' - 2) = RO recs' (L recs' - 1)).
  { apply (append_record_zero_last _ _ _ _ Ea).
    pose proof (L_pos data recs' content Hh) as HL.
    apply (ro_nonneg data recs' content Hh). fold (L recs'). lia. }
  apply (run_refines data recs' content Hh Hlast).
  rewrite Hs1. apply (open_rel data recs' content Hh); reflexivity.
Qed.
