(* Implementation-level model of brotli.dictDecoder (brotli/dict_decoder.go), the second
   instance of the sliding window. Differences from flate's (Window/Dict.v):
   - Init zeroes dd.hist[:len] ("to make LastBytes logic easier");
   - no WriteByte and no TryWriteCopy (literals go through WriteSlice/WriteMark);
   - WriteCopy updates dd.wrPos in place instead of a local copy: the same function
     whenever it returns (a panic carries no state in the model), so [write_copy] is reused;
   - LastBytes: the last two bytes written, read around the end of the buffer when
     wrPos < 2.
   WriteRaw, ReadFlush, HistSize, AvailSize are textually identical and reused. *)
From V Require Import Base.Prelude Window.Dict.
Local Open Scope Z_scope.

(* Init(size): flate's Init, then  for i := range dd.hist { dd.hist[i] = 0 } *)
Definition br_init (size : Z) (recycled : option (list byte)) : dres dd :=
  dlift (dd_init size recycled) (fun st =>
    mkDD (d_size st) (zeros (d_len st) ++ zskipn (d_len st) (d_arr st)) (d_len st)
         (d_wr st) (d_rd st) (d_full st)).

(* dd.hist[i] *)
Definition index (st : dd) (i : Z) : dres byte :=
  if (0 <=? i) && (i <? d_len st) then Ok (znth (d_arr st) i) else Panic.

Definition last_bytes (st : dd) : dres (byte * byte) :=
  if 1 <? d_wr st then
    dbind (index st (d_wr st - 1)) (fun p1 => dbind (index st (d_wr st - 2)) (fun p2 => Ok (p1, p2)))
  else if 0 <? d_wr st then
    dbind (index st (d_wr st - 1)) (fun p1 => dbind (index st (d_len st - 1)) (fun p2 => Ok (p1, p2)))
  else
    dbind (index st (d_len st - 1)) (fun p1 => dbind (index st (d_len st - 2)) (fun p2 => Ok (p1, p2))).

Inductive bop :=
| BInit (size : Z)
| BWriteRaw (bs : list byte)
| BWriteCopy (dist length : Z)
| BReadFlush
| BHistSize
| BAvailSize
| BLastBytes.

(* the operations shared with flate's window *)
Definition to_dop (o : bop) : option dop :=
  match o with
  | BInit size => None
  | BWriteRaw bs => Some (OpWriteRaw bs)
  | BWriteCopy dist length => Some (OpWriteCopy dist length)
  | BReadFlush => Some OpReadFlush
  | BHistSize => Some OpHistSize
  | BAvailSize => Some OpAvailSize
  | BLastBytes => None
  end.

Definition br_step (st : dd) (o : bop) : dres (dobs * dd) :=
  match o with
  | BInit size => dlift (br_init size (Some (d_arr st))) (fun st' => (OUnit, st'))
  | BLastBytes => dlift (last_bytes st) (fun p => (OBytes [fst p; snd p], st))
  | BWriteRaw bs => dd_step st (OpWriteRaw bs)
  | BWriteCopy dist length => dd_step st (OpWriteCopy dist length)
  | BReadFlush => dd_step st OpReadFlush
  | BHistSize => dd_step st OpHistSize
  | BAvailSize => dd_step st OpAvailSize
  end.

Fixpoint br_run (st : dd) (ops : list bop) : list (dres dobs) * dd :=
  match ops with
  | [] => ([], st)
  | o :: r =>
    match br_step st o with
    | Ok (ob, st') => let '(l, fin) := br_run st' r in (Ok ob :: l, fin)
    | Panic => ([Panic], st) | Hang => ([Hang], st) | Fuel => ([Fuel], st)
    end
  end.

(* ---- the caller's loop (brotli/reader.go readCommands / readRawData) -------------------------
   Literals, raw data and static-dictionary words go through WriteSlice/WriteMark in pieces
   ([drive_raw], shared with flate); copies through WriteCopy only, flushing and continuing
   while incomplete. *)
Fixpoint br_drive_copy (fuel : nat) (st : dd) (dist cpyLen : Z) (acc : list byte) : dres (list byte * dd) :=
  match fuel with
  | O => Fuel
  | S f =>
    dbind (write_copy st dist cpyLen) (fun r2 =>
    let cpyLen' := cpyLen - fst r2 in
    if 0 <? cpyLen' then
      dbind (read_flush (snd r2)) (fun r3 =>
      if avail_size (snd r3) <=? 0 then Hang
      else br_drive_copy f (snd r3) dist cpyLen' (acc ++ fst r3))
    else Ok (acc, snd r2))
  end.

Definition br_drive_cmd (st : dd) (c : dcmd) (acc : list byte) : dres (list byte * dd) :=
  match c with
  | CLit b => drive_raw 3 st [b] acc
  | CCopy dist length => br_drive_copy (Z.to_nat length + 2) st dist length acc
  | CRaw bs => drive_raw (length bs + 2) st bs acc
  end.

Fixpoint br_drive (st : dd) (cs : list dcmd) (acc : list byte) : dres (list byte * dd) :=
  match cs with
  | [] => dbind (read_flush st) (fun r => Ok (acc ++ fst r, snd r))
  | c :: r => dbind (br_drive_cmd st c acc) (fun p => br_drive (snd p) r (fst p))
  end.
