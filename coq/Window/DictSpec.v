(* What the sliding window must do, stated on the decompressed output itself, and the
   caller protocol under which flate.dictDecoder (model: Window/Dict.v) does it.

   Abstract state: everything produced since Init (oldest byte first), the number of
   bytes already handed out by ReadFlush, and the window size. *)
From V Require Import Base.Prelude Window.Dict.
Local Open Scope Z_scope.

Record wsp := mkWsp {
  s_size : Z;
  s_out : list byte;        (* the whole output since Init, oldest first *)
  s_flushed : Z             (* how much of it ReadFlush has returned *)
}.

(* The LZ77 equation: the next byte of a copy at distance [dist] is the byte [dist]
   positions back in the output so far. Appending one byte at a time makes overlapping
   copies (length > dist) replicate. *)
Definition lz_byte (out : list byte) (dist : Z) : byte := znth out (zlen out - dist).

Fixpoint lz_copy (out : list byte) (dist : Z) (n : nat) : list byte :=
  match n with
  | O => out
  | S k => lz_copy (out ++ [lz_byte out dist]) dist k
  end.

(* HistSize as the code promises: all of the output until a full window has been produced *)
Definition wsp_hist (s : wsp) : Z := Z.min (s_size s) (zlen (s_out s)).

Definition wsp_init (size : Z) : wsp := mkWsp size [] 0.

(* One operation with its observation; [None]: the observation is not what the
   specification allows. The only freedoms: how many bytes (0 <= n <= length) a WriteCopy
   performs - then exactly the first n bytes of the copy are appended -, whether
   TryWriteCopy declines (0) or does the whole copy, and the value of AvailSize. *)
Definition wsp_step (s : wsp) (o : dop) (ob : dobs) : option wsp :=
  match o, ob with
  | OpInit size, OUnit => Some (wsp_init size)
  | OpWriteByte c, OUnit => Some (mkWsp (s_size s) (s_out s ++ [c]) (s_flushed s))
  | OpWriteCopy dist length, OCnt n =>
    if (0 <=? n) && (n <=? length)
    then Some (mkWsp (s_size s) (lz_copy (s_out s) dist (Z.to_nat n)) (s_flushed s)) else None
  | OpTryWriteCopy dist length, OCnt n =>
    if (n =? 0) || (n =? length)
    then Some (mkWsp (s_size s) (lz_copy (s_out s) dist (Z.to_nat n)) (s_flushed s)) else None
  | OpWriteRaw bs, OCnt n =>
    if n =? zlen bs then Some (mkWsp (s_size s) (s_out s ++ bs) (s_flushed s)) else None
  | OpReadFlush, OBytes l =>
    if list_eqb N.eqb l (zskipn (s_flushed s) (s_out s))
    then Some (mkWsp (s_size s) (s_out s) (zlen (s_out s))) else None
  | OpHistSize, OCnt n => if n =? wsp_hist s then Some s else None
  | OpAvailSize, OCnt n => if (0 <=? n) && (n <=? s_size s) then Some s else None
  | _, _ => None
  end.

Fixpoint wsp_run (s : wsp) (ops : list dop) (dobs : list (dres dobs)) : option wsp :=
  match ops, dobs with
  | [], [] => Some s
  | o :: r, Ok ob :: robs =>
    match wsp_step s o ob with
    | Some s' => wsp_run s' r robs
    | None => None
    end
  | _, _ => None         (* a failure outcome, or a missing observation *)
  end.

(* ---- the caller protocol -------------------------------------------------------------
   Stated on the public queries, as flate/reader.go does: it compares the distance with
   HistSize(), looks at AvailSize() before a literal, cuts raw data to len(WriteSlice()).
   Window sizes: Go ints with 4*size representable (the growth computes cap*4). *)
Definition size_ok (size : Z) : Prop := 1 <= size /\ 4 * size < 2 ^ 63.

Definition op_pre (st : dd) (o : dop) : Prop :=
  match o with
  | OpInit size => size_ok size
  | OpWriteByte c => 0 < avail_size st
  | OpWriteCopy dist length | OpTryWriteCopy dist length =>
    0 < dist <= hist_size st /\ 0 <= length /\ d_size st + length < 2 ^ 63
  | OpWriteRaw bs => zlen bs <= avail_size st
  | OpReadFlush | OpHistSize | OpAvailSize => True
  end.

(* a history follows the protocol if every operation's precondition holds in the state
   the implementation is in when the operation is issued *)
Fixpoint proto (st : dd) (ops : list dop) : Prop :=
  match ops with
  | [] => True
  | o :: r =>
    op_pre st o /\
    match dd_step st o with
    | Ok (_, st') => proto st' r
    | _ => True
    end
  end.

(* executable form for the correspondence harness: the model's dd_run of a whole history
   shows no failure and satisfies the specification *)
Definition check_spec (size : Z) (recycled : option (list byte)) (ops : list dop) : bool :=
  match dd_init size recycled with
  | Ok st =>
    match wsp_run (wsp_init size) ops (fst (dd_run st ops)) with
    | Some _ => true
    | None => false
    end
  | _ => false
  end.

(* ---- what a block of commands decodes to (for the caller-loop theorem) --------------- *)
Definition lz_cmd (out : list byte) (c : dcmd) : list byte :=
  match c with
  | CLit b => out ++ [b]
  | CCopy dist length => lz_copy out dist (Z.to_nat length)
  | CRaw bs => out ++ bs
  end.

Definition lz_decode (cs : list dcmd) : list byte := fold_left lz_cmd cs [].

(* the distances the Reader lets through: within min(size, produced so far) *)
Fixpoint cmds_ok (size : Z) (out : list byte) (cs : list dcmd) : Prop :=
  match cs with
  | [] => True
  | c :: r =>
    match c with
    | CLit b => True
    | CCopy dist length =>
      0 < dist <= Z.min size (zlen out) /\ 0 <= length /\ size + length < 2 ^ 63
    | CRaw bs => True
    end /\ cmds_ok size (lz_cmd out c) r
  end.
