(* Theorems about brotli's sliding window (Window/DictBr.v, Window/DictBrSpec.v), on top of
   the lemmas for flate's (Window/DictThms.v): the representation invariant and the lemmas
   about WriteRaw / WriteCopy / ReadFlush are shared; new here are the zero-filled tail that
   Init establishes and LastBytes depends on, and LastBytes itself. *)
From V Require Import Base.Prelude Window.Dict Window.DictSpec Window.DictThms
  Window.DictBr Window.DictBrSpec.
From Coq Require Import ZifyBool ZifyN ZifyNat.
Local Open Scope Z_scope.

(* until the first wrap, everything at and beyond the write position is zero *)
Definition ZeroTail (st : dd) : Prop :=
  d_full st = false -> forall i, d_wr st <= i < d_len st -> znth (d_arr st) i = 0%N.

(* ---- frame properties of the copy (valid in every state) --------------------------------- *)
Lemma go_copy_inv a dlo dhi slo shi n a' :
  go_copy a dlo dhi slo shi = Ok (n, a') ->
  0 <= dlo <= dhi /\ dhi <= zlen a /\ 0 <= slo <= shi /\ shi <= zlen a /\
  n = Z.min (dhi - dlo) (shi - slo) /\ a' = blit a dlo (asub a slo (slo + n)).
Proof.
  unfold go_copy, slice_ok. intros H.
  destruct ((0 <=? dlo) && (dlo <=? dhi) && (dhi <=? zlen a) &&
            ((0 <=? slo) && (slo <=? shi) && (shi <=? zlen a))) eqn:E; [|discriminate].
  inversion H; subst. repeat split; lia.
Qed.

Lemma go_copy_frame a dlo dhi slo shi n a' :
  go_copy a dlo dhi slo shi = Ok (n, a') ->
  0 <= n /\ dlo + n <= dhi /\ zlen a' = zlen a /\
  forall i, dlo + n <= i -> znth a' i = znth a i.
Proof.
  intros H. destruct (go_copy_inv _ _ _ _ _ _ _ H) as [H1 [H2 [H3 [H4 [Hn Ha]]]]].
  assert (Hs : zlen (asub a slo (slo + n)) = n) by (rewrite zlen_asub; lia).
  split; [lia|]. split; [lia|]. subst a'. split.
  - apply zlen_blit; rewrite ?Hs; lia.
  - intros i Hi. rewrite znth_blit by (rewrite ?Hs; lia). rewrite Hs.
    destruct (Z.leb_spec dlo i); destruct (Z.ltb_spec i (dlo + n)); cbn [andb]; try lia; reflexivity.
Qed.

Lemma copy_loop_frame f : forall a rd w we a2 w2,
  copy_loop f a rd w we = Ok (a2, w2) ->
  w <= w2 /\ zlen a2 = zlen a /\ forall i, w2 <= i -> znth a2 i = znth a i.
Proof.
  induction f as [|f IH]; intros a rd w we a2 w2 H; cbn [copy_loop] in H;
    destruct (Z.ltb_spec w we) as [Hlt|Hge]; try discriminate;
    try (inversion H; subst; repeat split; try lia; reflexivity).
  destruct (go_copy a w we rd w) as [[n a']| | |] eqn:G; try discriminate.
  destruct (Z.eqb_spec n 0); [discriminate|].
  destruct (go_copy_frame _ _ _ _ _ _ _ G) as [Hn [Hle [Hl Hfr]]].
  destruct (IH _ _ _ _ _ _ H) as [H1 [H2 H3]].
  split; [lia|]. split; [lia|]. intros i Hi. rewrite H3 by lia. apply Hfr. lia.
Qed.

Lemma write_copy_frame st dist length k st' :
  write_copy st dist length = Ok (k, st') ->
  d_full st' = d_full st /\ d_len st' = d_len st /\ d_size st' = d_size st /\
  d_rd st' = d_rd st /\ d_wr st <= d_wr st' /\
  forall i, d_wr st' <= i -> znth (d_arr st') i = znth (d_arr st) i.
Proof.
  unfold write_copy.
  set (wrEnd := if d_len st <? wrap_int (d_wr st + length) then d_len st else wrap_int (d_wr st + length)).
  intros H. destruct (wrap_int (d_wr st - dist) <? 0).
  - destruct (slice_ok (d_len st) (wrap_int (wrap_int (d_wr st - dist) + d_len st)) (d_len st));
      [|discriminate].
    destruct (go_copy (d_arr st) (d_wr st) wrEnd _ (d_len st)) as [[n a1]| | |] eqn:G;
      try discriminate.
    destruct (go_copy_frame _ _ _ _ _ _ _ G) as [Hn [Hle [Hl Hfr]]].
    destruct (copy_loop _ a1 0 (d_wr st + n) wrEnd) as [[a2 w2]| | |] eqn:L; try discriminate.
    destruct (copy_loop_frame _ _ _ _ _ _ _ L) as [H1 [H2 H3]].
    inversion H; subst. cbn [d_full d_len d_size d_rd d_wr d_arr].
    repeat split; try lia. intros i Hi. rewrite H3 by lia. apply Hfr. lia.
  - destruct (copy_loop _ (d_arr st) _ (d_wr st) wrEnd) as [[a2 w2]| | |] eqn:L; try discriminate.
    destruct (copy_loop_frame _ _ _ _ _ _ _ L) as [H1 [H2 H3]].
    inversion H; subst. cbn [d_full d_len d_size d_rd d_wr d_arr].
    repeat split; try lia. exact H3.
Qed.

(* ---- the zero tail is preserved ------------------------------------------------------------ *)
Lemma zt_write_copy st dist length k st' :
  ZeroTail st -> write_copy st dist length = Ok (k, st') -> ZeroTail st'.
Proof.
  intros Z H. destruct (write_copy_frame _ _ _ _ _ H) as [F1 [F2 [F3 [F4 [F5 F6]]]]].
  intros Hf i Hi. rewrite F6 by lia. apply Z; [congruence|lia].
Qed.

Lemma zt_write_raw st s bs n st' :
  Inv st s -> zlen bs <= avail_size st -> ZeroTail st -> write_raw st bs = Ok (n, st') -> ZeroTail st'.
Proof.
  intros I Ha Z H. unfold avail_size in Ha. pose proof (i_rd _ _ I) as Hrd.
  pose proof (i_caple _ _ I) as Hcl. pose proof (i_wr _ _ I) as Hwr.
  pose proof (i_len _ _ I) as Hlen. destruct (i_size _ _ I) as [Hs1 Hs2].
  unfold d_cap in Hcl. pose proof (zlen_nonneg bs) as Hbs.
  unfold write_raw in H. destruct (slice_ok _ _ _); [|discriminate].
  rewrite Z.min_r in H by lia. rewrite zfirstn_all in H by lia. rewrite wrap_int_id in H by lia.
  inversion H; subst. intros Hf i Hi. cbn [d_full d_arr d_wr d_len] in *.
  rewrite znth_blit by lia.
  destruct (Z.leb_spec (d_wr st) i); destruct (Z.ltb_spec i (d_wr st + zlen bs)); cbn [andb]; try lia.
  apply Z; [exact Hf|lia].
Qed.

Lemma zt_read_flush st s l st' :
  Inv st s -> ZeroTail st -> read_flush st = Ok (l, st') -> ZeroTail st'.
Proof.
  intros I Z H. pose proof (i_caple _ _ I) as Hcl. pose proof (i_wr _ _ I) as Hwr.
  pose proof (i_len _ _ I) as Hlen. destruct (i_size _ _ I) as [Hs1 Hs2].
  pose proof (i_rd _ _ I) as Hrd. pose proof (i_cap _ _ I) as Hcap. unfold d_cap in *.
  unfold read_flush in H. destruct (slice_ok _ _ _); [|discriminate].
  destruct (Z.eqb_spec (d_wr st) (d_len st)) as [Hfull|Hnot].
  - destruct (Z.eqb_spec (d_len st) (d_size st)) as [Hsz|Hsz].
    + inversion H; subst. intros Hf. discriminate Hf.
    + unfold d_cap, growFactor in H. rewrite Hcap in H by lia.
      rewrite wrap_int_id in H by lia.
      set (size' := if d_size st <? d_len st * 4 then d_size st else d_len st * 4) in *.
      assert (Hsize' : size' = Z.min (d_size st) (d_len st * 4)).
      { unfold size'. destruct (Z.ltb_spec (d_size st) (d_len st * 4)); lia. }
      destruct (Z.ltb_spec size' 0); [discriminate|].
      rewrite (Z.min_r size' (d_len st)) in H by lia.
      inversion H; subst. intros Hf i Hi. cbn [d_full d_arr d_wr d_len] in *.
      rewrite znth_app_r by (rewrite zlen_zfirstn; lia). apply znth_zeros.
  - inversion H; subst. intros Hf i Hi. cbn [d_full d_arr d_wr d_len] in *. apply Z; assumption.
Qed.

(* ---- Init ------------------------------------------------------------------------------------ *)
Lemma br_init_ok size recycled :
  size_ok size -> exists st, br_init size recycled = Ok st /\ Inv st (wsp_init size) /\ ZeroTail st /\
    d_size st = size /\
    d_cap st = match recycled with None => initSize | Some a => zlen a end /\
    (2 <= size -> recycled_ok recycled -> 2 <= d_len st).
Proof.
  intros Hsz. destruct (init_ok size recycled Hsz) as [st [Hi [I [Hs [Hc _]]]]].
  unfold br_init. rewrite Hi. cbn [dlift]. eexists. split; [reflexivity|].
  pose proof (i_caple _ _ I) as Hcl. pose proof (i_wr _ _ I) as Hwr. pose proof (i_rd _ _ I) as Hrd.
  unfold d_cap in *.
  assert (Hl : zlen (zeros (d_len st) ++ zskipn (d_len st) (d_arr st)) = zlen (d_arr st)).
  { rewrite zlen_app, zlen_zeros, zlen_zskipn by lia. lia. }
  assert (Hwr0 : d_wr st = 0 /\ d_rd st = 0 /\ d_full st = false).
  { unfold dd_init in Hi. destruct (size <? _); [destruct (slice_ok _ _ _)|]; inversion Hi; subst;
      repeat split. }
  destruct Hwr0 as [W0 [R0 F0]].
  split; [|split; [|split; [exact Hs|split]]].
  - destruct I as [Isz Iss Ird Iwr Ilen Icl Icap Inf Ifu Ilo Ihi Ifl].
    constructor; unfold d_cap in *; cbn [d_size d_arr d_len d_wr d_rd d_full] in *;
      rewrite ?Hl; try assumption.
    + intros i Hi'. lia.
    + intros Hf. congruence.
  - intros _ i Hi'. cbn [d_arr d_wr d_len] in *.
    rewrite znth_app_l by (rewrite zlen_zeros; lia). apply znth_zeros.
  - cbn [d_arr]. rewrite Hl. exact Hc.
  - intros H2 Hr. cbn [d_len].
    unfold dd_init in Hi. unfold recycled_ok in Hr.
    assert (Hz : zlen (zeros initSize) = 4096) by (apply zlen_zeros; unfold initSize; lia).
    destruct recycled as [a|]; (destruct (size <? _) eqn:E; [destruct (slice_ok _ _ _)|]);
      inversion Hi; subst; cbn [d_len]; lia.
Qed.

(* ---- LastBytes -------------------------------------------------------------------------------- *)
Lemma last_bytes_ok st s :
  Inv st s -> ZeroTail st -> 2 <= d_len st ->
  last_bytes st = Ok (last_byte (s_out s) 1, last_byte (s_out s) 2).
Proof.
  intros I ZT H2. pose proof (inv_total _ _ I) as HT.
  destruct I as [Isz Iss Ird Iwr Ilen Icl Icap Inf Ifu Ilo Ihi Ifl].
  unfold last_bytes, index, last_byte.
  destruct (Z.ltb_spec 1 (d_wr st)) as [Hw|Hw].
  - destruct (Z.leb_spec 0 (d_wr st - 1)); [|lia]. destruct (Z.ltb_spec (d_wr st - 1) (d_len st)); [|lia].
    destruct (Z.leb_spec 0 (d_wr st - 2)); [|lia]. destruct (Z.ltb_spec (d_wr st - 2) (d_len st)); [|lia].
    cbn [andb dbind]. destruct (Z.leb_spec 1 (zlen (s_out s))); [|lia].
    destruct (Z.leb_spec 2 (zlen (s_out s))); [|lia].
    rewrite !Ilo by lia. do 2 f_equal; f_equal; lia.
  - destruct (Z.ltb_spec 0 (d_wr st)) as [Hw1|Hw0].
    + assert (d_wr st = 1) by lia.
      destruct (Z.leb_spec 0 (d_wr st - 1)); [|lia]. destruct (Z.ltb_spec (d_wr st - 1) (d_len st)); [|lia].
      destruct (Z.leb_spec 0 (d_len st - 1)); [|lia]. destruct (Z.ltb_spec (d_len st - 1) (d_len st)); [|lia].
      cbn [andb dbind]. destruct (Z.leb_spec 1 (zlen (s_out s))); [|lia].
      rewrite Ilo by lia.
      destruct (d_full st) eqn:F.
      * destruct (Ifu eq_refl) as [E1 E2]. destruct (Z.leb_spec 2 (zlen (s_out s))); [|lia].
        rewrite (Ihi eq_refl) by lia. do 2 f_equal; f_equal; lia.
      * specialize (Inf eq_refl). destruct (Z.leb_spec 2 (zlen (s_out s))); [lia|].
        rewrite (ZT F) by lia. do 2 f_equal. f_equal. lia.
    + assert (d_wr st = 0) by lia.
      destruct (Z.leb_spec 0 (d_len st - 1)); [|lia]. destruct (Z.ltb_spec (d_len st - 1) (d_len st)); [|lia].
      destruct (Z.leb_spec 0 (d_len st - 2)); [|lia]. destruct (Z.ltb_spec (d_len st - 2) (d_len st)); [|lia].
      cbn [andb dbind].
      destruct (d_full st) eqn:F.
      * destruct (Ifu eq_refl) as [E1 E2].
        destruct (Z.leb_spec 1 (zlen (s_out s))); [|lia]. destruct (Z.leb_spec 2 (zlen (s_out s))); [|lia].
        rewrite !(Ihi eq_refl) by lia. do 2 f_equal; f_equal; lia.
      * specialize (Inf eq_refl).
        destruct (Z.leb_spec 1 (zlen (s_out s))); [lia|]. destruct (Z.leb_spec 2 (zlen (s_out s))); [lia|].
        rewrite !(ZT F) by lia. reflexivity.
Qed.

(* ---- one operation, whole histories ----------------------------------------------------------- *)
Definition BInv (st : dd) (s : wsp) : Prop := Inv st s /\ ZeroTail st /\ 2 <= d_len st.

Definition br_not_init (o : bop) : Prop := forall size, o <> BInit size.

Lemma dlift_ok {A B} (r : dres A) (f : A -> B) x : dlift r f = Ok x -> exists a, r = Ok a /\ x = f a.
Proof. destruct r; cbn [dlift]; intros H; try discriminate. inversion H. eauto. Qed.

Lemma br_step_ok st s o :
  BInv st s -> br_pre st o ->
  exists ob st' s', br_step st o = Ok (ob, st') /\ bsp_step s o ob = Some s' /\ BInv st' s' /\
                    (br_not_init o -> step_extra st s st' s').
Proof.
  intros [I [ZT H2]] Hpre.
  assert (Hshared : forall d, op_pre st d -> not_init d ->
            (forall ob st', dd_step st d = Ok (ob, st') -> ZeroTail st') ->
            exists ob st' s', dd_step st d = Ok (ob, st') /\ wsp_step s d ob = Some s' /\
                              BInv st' s' /\ (br_not_init o -> step_extra st s st' s')).
  { intros d Hd Hni Hzt. destruct (step_ok st s d I Hd) as [ob [st' [s' [Hs [Hsp [I' Hex]]]]]].
    exists ob, st', s'. split; [exact Hs|]. split; [exact Hsp|].
    pose proof (Hex Hni) as Hex'. split; [|intros _; exact Hex'].
    split; [exact I'|]. split; [apply (Hzt ob); exact Hs|].
    destruct Hex' as [_ [_ [Hl _]]]. lia. }
  destruct o as [size|bs|dist length| | | |]; cbn [br_pre to_dop] in Hpre; cbn [br_step bsp_step to_dop].
  - destruct Hpre as [Hsz Hs2].
    destruct (br_init_ok size (Some (d_arr st)) Hsz) as [st' [Hi [I' [ZT' [_ [_ Hl]]]]]].
    rewrite Hi. cbn [dlift]. exists OUnit, st', (wsp_init size).
    split; [reflexivity|]. split; [reflexivity|]. split.
    + split; [exact I'|]. split; [exact ZT'|]. apply Hl; [exact Hs2|].
      cbn [recycled_ok]. pose proof (i_caple _ _ I). unfold d_cap in *. lia.
    + intros Hn. exfalso. apply (Hn size). reflexivity.
  - apply Hshared; [exact Hpre|intros z E; discriminate E|].
    intros ob st' Hs. cbn [dd_step] in Hs. apply dlift_ok in Hs. destruct Hs as [[n st1] [Hw E]].
    inversion E; subst. cbn [snd]. apply (zt_write_raw st s bs n st1 I Hpre ZT Hw).
  - apply Hshared; [exact Hpre|intros z E; discriminate E|].
    intros ob st' Hs. cbn [dd_step] in Hs. apply dlift_ok in Hs. destruct Hs as [[n st1] [Hw E]].
    inversion E; subst. cbn [snd]. apply (zt_write_copy st dist length n st1 ZT Hw).
  - apply Hshared; [exact Hpre|intros z E; discriminate E|].
    intros ob st' Hs. cbn [dd_step] in Hs. apply dlift_ok in Hs. destruct Hs as [[l st1] [Hw E]].
    inversion E; subst. cbn [snd]. apply (zt_read_flush st s l st1 I ZT Hw).
  - apply Hshared; [exact Hpre|intros z E; discriminate E|].
    intros ob st' Hs. cbn [dd_step] in Hs. inversion Hs; subst. exact ZT.
  - apply Hshared; [exact Hpre|intros z E; discriminate E|].
    intros ob st' Hs. cbn [dd_step] in Hs. inversion Hs; subst. exact ZT.
  - rewrite (last_bytes_ok st s I ZT H2). cbn [dlift fst snd].
    exists (OBytes [last_byte (s_out s) 1; last_byte (s_out s) 2]), st, s.
    split; [reflexivity|]. rewrite !N.eqb_refl. cbn [andb].
    split; [reflexivity|]. split; [split; [exact I|split; [exact ZT|exact H2]]|].
    intros _. unfold step_extra. repeat split; try lia; try (left; reflexivity).
Qed.

Lemma br_run_ok ops : forall st s,
  BInv st s -> br_proto st ops ->
  exists obs st' s', br_run st ops = (map Ok obs, st') /\
                     bsp_run s ops (map Ok obs) = Some s' /\ BInv st' s'.
Proof.
  induction ops as [|o r IH]; intros st s I Hp.
  - exists [], st, s. split; [reflexivity|]. split; [reflexivity|exact I].
  - cbn [br_proto] in Hp. destruct Hp as [Hpre Hrest].
    destruct (br_step_ok st s o I Hpre) as [ob [st1 [s1 [Hs [Hsp [I1 _]]]]]].
    rewrite Hs in Hrest.
    destruct (IH st1 s1 I1 Hrest) as [obs [st' [s' [Hr [Hsr I']]]]].
    exists (ob :: obs), st', s'. cbn [br_run bsp_run map]. rewrite Hs, Hr, Hsp.
    split; [reflexivity|]. split; [exact Hsr|exact I'].
Qed.

(* (a) REFINEMENT for brotli's window: every window size >= 2, every recycled buffer (nil, or
   any contents and any capacity >= 2), every protocol-respecting history: no failure, every
   observation - LastBytes included - is the specified one. *)
Theorem br_refines size recycled ops st0 :
  bsize_ok size -> recycled_ok recycled -> br_init size recycled = Ok st0 -> br_proto st0 ops ->
  exists obs st' s', br_run st0 ops = (map Ok obs, st') /\
                     bsp_run (wsp_init size) ops (map Ok obs) = Some s' /\ Inv st' s'.
Proof.
  intros [Hsz Hs2] Hrec Hi Hp.
  destruct (br_init_ok size recycled Hsz) as [st [Hi' [I [ZT [_ [_ Hl]]]]]].
  rewrite Hi in Hi'. inversion Hi'; subst st.
  destruct (br_run_ok ops st0 (wsp_init size)) as [obs [st' [s' [Hr [Hs [I' _]]]]]];
    [split; [exact I|split; [exact ZT|apply Hl; assumption]]|exact Hp|].
  exists obs, st', s'. split; [exact Hr|]. split; [exact Hs|exact I'].
Qed.

Theorem br_init_never_fails size recycled : size_ok size -> exists st0, br_init size recycled = Ok st0.
Proof. intros H. destruct (br_init_ok size recycled H) as [st [Hi _]]. eauto. Qed.

(* (b) invariants and the memory bound *)
Theorem br_invariants size recycled ops st0 :
  bsize_ok size -> recycled_ok recycled -> br_init size recycled = Ok st0 -> br_proto st0 ops ->
  let st' := snd (br_run st0 ops) in
  0 <= d_rd st' <= d_wr st' /\ d_wr st' <= d_len st' /\ d_len st' <= d_size st' /\
  d_len st' <= d_cap st' /\ (d_len st' < d_size st' -> d_cap st' = d_len st').
Proof.
  intros Hsz Hrec Hi Hp.
  destruct (br_refines size recycled ops st0 Hsz Hrec Hi Hp) as [obs [st' [s' [Hr [_ I]]]]].
  rewrite Hr. cbn [snd].
  pose proof (i_rd _ _ I). pose proof (i_wr _ _ I). pose proof (i_len _ _ I).
  pose proof (i_caple _ _ I). pose proof (i_cap _ _ I). repeat split; try lia; assumption.
Qed.

Lemma br_run_mem ops : forall st s c0 obs st' s',
  BInv st s -> br_proto st ops -> br_no_reinit ops ->
  (d_cap st = c0 \/ d_cap st <= Z.min (d_size st) (4 * zlen (s_out s))) ->
  br_run st ops = (map Ok obs, st') -> bsp_run s ops (map Ok obs) = Some s' ->
  d_size st' = d_size st /\
  (d_cap st' = c0 \/ d_cap st' <= Z.min (d_size st') (4 * zlen (s_out s'))).
Proof.
  induction ops as [|o r IH]; intros st s c0 obs st' s' I Hp Hni Hc Hrun Hspec.
  - cbn [br_run] in Hrun. inversion Hrun; subst st'.
    destruct obs; [|discriminate]. cbn [bsp_run map] in Hspec. inversion Hspec; subst s'.
    split; [reflexivity|exact Hc].
  - cbn [br_proto] in Hp. destruct Hp as [Hpre Hrest].
    assert (Hno : br_not_init o) by (intros size E; subst o; exact Hni).
    assert (Hr : br_no_reinit r) by (destruct o; first [exact Hni|contradiction]).
    destruct (br_step_ok st s o I Hpre) as [ob [st1 [s1 [Hs [Hsp [I1 Hex]]]]]].
    destruct (Hex Hno) as [E1 [E2 [E3 E4]]].
    rewrite Hs in Hrest. cbn [br_run] in Hrun. rewrite Hs in Hrun.
    destruct (br_run st1 r) as [l fin] eqn:Hr1.
    inversion Hrun as [[Hl Hfin]]. subst fin.
    destruct obs as [|ob' obs]; [discriminate|]. cbn [map] in Hl. inversion Hl as [[Hob Hl']].
    subst ob' l. cbn [bsp_run map] in Hspec. rewrite Hsp in Hspec.
    destruct (IH st1 s1 c0 obs st' s' I1 Hrest Hr) as [F1 F2]; try assumption; try reflexivity.
    + rewrite E1. destruct Hc as [Hc|Hc]; destruct E4 as [E4|E4]; try lia.
    + split; [lia|exact F2].
Qed.

Theorem br_memory size recycled ops st0 obs st' :
  bsize_ok size -> recycled_ok recycled -> br_init size recycled = Ok st0 ->
  br_proto st0 ops -> br_no_reinit ops -> br_run st0 ops = (map Ok obs, st') ->
  exists s', bsp_run (wsp_init size) ops (map Ok obs) = Some s' /\
    let c0 := match recycled with None => initSize | Some a => zlen a end in
    let total := zlen (s_out s') in
    d_cap st' <= Z.max c0 (Z.min size (4 * total)) /\
    d_len st' <= Z.max (Z.min c0 size) (Z.min size (4 * total)).
Proof.
  intros [Hsz Hs2] Hrec Hi Hp Hni Hrun.
  destruct (br_init_ok size recycled Hsz) as [st [Hi' [I [ZT [Hsize [Hcap Hl]]]]]].
  rewrite Hi in Hi'. inversion Hi'; subst st.
  assert (BI : BInv st0 (wsp_init size)) by (split; [exact I|split; [exact ZT|apply Hl; assumption]]).
  destruct (br_run_ok ops st0 (wsp_init size) BI Hp) as [obs' [st'' [s' [Hr [Hs [I' _]]]]]].
  rewrite Hrun in Hr. inversion Hr as [[Hobs Hst]]. subst st''. rewrite <- Hobs in Hs.
  exists s'. split; [exact Hs|].
  destruct (br_run_mem ops st0 (wsp_init size) (d_cap st0) obs st' s' BI Hp Hni) as [F1 F2];
    try assumption; [left; reflexivity|].
  pose proof (i_len _ _ I'). pose proof (i_caple _ _ I').
  cbv zeta. rewrite <- Hcap. rewrite F1, Hsize in *. lia.
Qed.

(* (d) WriteCopy is the same function as flate's: [write_copy_progress] applies verbatim. *)
Theorem br_write_copy_progress st s dist length :
  BInv st s -> copy_pre st dist length ->
  exists st', write_copy st dist length = Ok (Z.min length (avail_size st), st') /\
              (Z.min length (avail_size st) = 0 -> length = 0 \/ avail_size st = 0).
Proof. intros [I _] H. exact (write_copy_progress st s dist length I H). Qed.

(* ---- outside the protocol / small buffers ------------------------------------------------------ *)
(* a one-byte buffer: LastBytes panics at wrPos = 0 and misreports at wrPos = 1 *)
Example last_bytes_one_byte_buffer :
  (exists st0, br_init 1 None = Ok st0 /\ fst (br_run st0 [BLastBytes]) = [Panic]) /\
  (exists st0, br_init 1 None = Ok st0 /\
     fst (br_run st0 [BWriteRaw [7%N]; BLastBytes]) = [Ok (OCnt 1); Ok (OBytes [7; 7]%N)]).
Proof. split; eexists; split; reflexivity. Qed.

(* Init wipes the recycled contents below len: the leak of flate's [stale_leak] script is
   zeros here, whatever the buffer held *)
Example br_stale_is_zero :
  (exists st0, br_init 4 (Some [7; 7; 7; 7]%N) = Ok st0 /\
     fst (br_run st0 [BWriteRaw [1%N]; BWriteCopy 3 1; BReadFlush]) =
     [Ok (OCnt 1); Ok (OCnt 1); Ok (OBytes [1; 0]%N)]).
Proof. eexists; split; reflexivity. Qed.

(* non-vacuity *)
Definition br_ex_ops : list bop :=
  [BLastBytes; BWriteRaw [1%N]; BLastBytes; BWriteRaw [2%N]; BAvailSize; BReadFlush; BLastBytes;
   BWriteCopy 2 5; BWriteCopy 1 4; BReadFlush; BLastBytes; BHistSize; BWriteCopy 8 3;
   BWriteRaw [5; 6]%N; BWriteCopy 7 9; BReadFlush; BLastBytes; BInit 3; BLastBytes;
   BWriteRaw [9%N]; BWriteCopy 1 7; BReadFlush; BLastBytes].

Example br_ex_proto :
  bsize_ok 8 /\ recycled_ok (Some [200; 201]%N) /\
  exists st0, br_init 8 (Some [200; 201]%N) = Ok st0 /\ br_proto st0 br_ex_ops.
Proof.
  split; [unfold bsize_ok, size_ok; lia|]. split; [cbv; intros H; discriminate H|].
  eexists. split; [reflexivity|]. vm_compute.
  repeat match goal with
  | |- _ /\ _ => split
  | |- True => exact Logic.I
  | |- _ = _ => reflexivity
  | |- _ -> False => let H := fresh in intro H; discriminate H
  end.
Qed.

(* ---- (c) the caller loop: independence of the recycled buffer ------------------------------- *)
Lemma br_drive_copy_ok fuel : forall st s dist cpyLen acc,
  Inv st s -> 1 <= d_len st -> dist_ok s dist -> 0 <= cpyLen -> d_size st + cpyLen < 2 ^ 63 ->
  acc_ok s acc ->
  (Z.to_nat cpyLen + (if Z.eqb (avail_size st) 0 then 2 else 1) <= fuel)%nat ->
  exists acc' st' s', br_drive_copy fuel st dist cpyLen acc = Ok (acc', st') /\
    Inv st' s' /\ 1 <= d_len st' /\ acc_ok s' acc' /\
    s_out s' = lz_copy (s_out s) dist (Z.to_nat cpyLen) /\ s_size s' = s_size s.
Proof.
  induction fuel as [|f IH]; intros st s dist cpyLen acc I Hlive Hd Hc Hov Hacc Hfuel.
  - destruct (avail_size st =? 0); lia.
  - assert (Hpre : copy_pre st dist cpyLen).
    { unfold copy_pre. rewrite (hist_size_spec _ _ I). unfold wsp_hist, dist_ok in *. lia. }
    destruct (write_copy_ok st s dist cpyLen I Hpre) as [st1 [Hw [I1 [E1 [E2 E3]]]]].
    set (k := Z.min cpyLen (avail_size st)) in *.
    pose proof (i_wr _ _ I) as Hwr.
    assert (Hk : 0 <= k <= cpyLen) by (unfold k, avail_size; lia).
    cbn [br_drive_copy]. rewrite Hw. cbn [dbind fst snd].
    destruct (Z.ltb_spec 0 (cpyLen - k)) as [Hmore|Hdone].
    + destruct (read_flush_ok st1 _ I1) as [st2 [Hr [I2 [F1 [F2 [F3 _]]]]]].
      rewrite Hr. cbn [dbind fst snd].
      assert (Hav : 0 < avail_size st2) by (apply F3; lia).
      destruct (Z.leb_spec (avail_size st2) 0); [lia|].
      destruct (IH st2 _ dist (cpyLen - k) (acc ++ zskipn (s_flushed s) (lz_copy (s_out s) dist (Z.to_nat k))) I2)
        as [acc' [st' [s' [Hd' [I' [Hl' [Ha' [Ho' Hs']]]]]]]]; try lia.
      * unfold dist_ok in *. cbn [set_flushed set_out s_size s_out]. rewrite lz_copy_len. lia.
      * apply (acc_flush st1 _ _ I1). apply (acc_copy st); assumption.
      * destruct (Z.eqb_spec (avail_size st2) 0); [lia|].
        destruct (Z.eqb_spec (avail_size st) 0) as [Hz|Hnz].
        -- lia.
        -- unfold k, avail_size in *. lia.
      * exists acc', st', s'. split; [exact Hd'|]. split; [exact I'|]. split; [exact Hl'|].
        split; [exact Ha'|]. rewrite Ho', Hs'. cbn [set_flushed set_out s_out s_size].
        split; [|reflexivity]. rewrite <- lz_copy_plus. f_equal. lia.
    + assert (k = cpyLen) by lia.
      exists acc, st1. eexists. split; [reflexivity|]. split; [exact I1|]. split; [lia|].
      split; [apply (acc_copy st); assumption|]. cbn [set_out s_out s_size].
      split; [|reflexivity]. f_equal. lia.
Qed.

Lemma br_drive_cmd_ok st s c acc :
  Inv st s -> 1 <= d_len st -> acc_ok s acc ->
  match c with
  | CCopy dist length => dist_ok s dist /\ 0 <= length /\ d_size st + length < 2 ^ 63
  | _ => True
  end ->
  exists acc' st' s', br_drive_cmd st c acc = Ok (acc', st') /\
    Inv st' s' /\ 1 <= d_len st' /\ acc_ok s' acc' /\ s_out s' = lz_cmd (s_out s) c /\
    d_size st' = d_size st.
Proof.
  intros I Hlive Hacc Hc. destruct c as [b|dist length|bs]; cbn [br_drive_cmd lz_cmd].
  - destruct (drive_raw_ok 3 st s [b] acc I Hlive Hacc)
      as [acc' [st' [s' [Hd' [I' [Hl' [Ha' [Ho' Hs']]]]]]]].
    { cbn [length]. destruct (avail_size st =? 0); lia. }
    exists acc', st', s'. split; [exact Hd'|]. split; [exact I'|]. split; [exact Hl'|].
    split; [exact Ha'|]. split; [exact Ho'|].
    rewrite <- (i_ssize _ _ I'), <- (i_ssize _ _ I). exact Hs'.
  - destruct Hc as [Hd [Hl Hov]].
    destruct (br_drive_copy_ok (Z.to_nat length + 2) st s dist length acc I Hlive Hd Hl Hov Hacc)
      as [acc' [st' [s' [Hd' [I' [Hl' [Ha' [Ho' Hs']]]]]]]].
    { destruct (avail_size st =? 0); lia. }
    exists acc', st', s'. split; [exact Hd'|]. split; [exact I'|]. split; [exact Hl'|].
    split; [exact Ha'|]. split; [exact Ho'|].
    rewrite <- (i_ssize _ _ I'), <- (i_ssize _ _ I). exact Hs'.
  - destruct (drive_raw_ok (length bs + 2) st s bs acc I Hlive Hacc)
      as [acc' [st' [s' [Hd' [I' [Hl' [Ha' [Ho' Hs']]]]]]]].
    { destruct (avail_size st =? 0); lia. }
    exists acc', st', s'. split; [exact Hd'|]. split; [exact I'|]. split; [exact Hl'|].
    split; [exact Ha'|]. split; [exact Ho'|].
    rewrite <- (i_ssize _ _ I'), <- (i_ssize _ _ I). exact Hs'.
Qed.

Lemma br_drive_ok cs : forall st s acc,
  Inv st s -> 1 <= d_len st -> acc_ok s acc -> cmds_ok (d_size st) (s_out s) cs ->
  exists st', br_drive st cs acc = Ok (fold_left lz_cmd cs (s_out s), st').
Proof.
  induction cs as [|c r IH]; intros st s acc I Hlive Hacc Hok.
  - cbn [br_drive fold_left]. destruct (read_flush_ok st s I) as [st1 [Hr _]].
    rewrite Hr. cbn [dbind fst snd]. exists st1. unfold acc_ok in Hacc. subst acc.
    rewrite zfirstn_zskipn. reflexivity.
  - cbn [cmds_ok] in Hok. destruct Hok as [Hc Hrest].
    destruct (br_drive_cmd_ok st s c acc I Hlive Hacc) as [acc' [st1 [s1 [Hd [I1 [Hl1 [Ha1 [Ho1 Hz1]]]]]]]].
    { destruct c as [b|dist length|bs]; [exact Logic.I| |exact Logic.I]. unfold dist_ok.
      rewrite (i_ssize _ _ I). exact Hc. }
    cbn [br_drive fold_left]. rewrite Hd. cbn [dbind fst snd]. rewrite <- Ho1.
    apply (IH st1 s1 acc' I1 Hl1 Ha1). rewrite Hz1, Ho1. exact Hrest.
Qed.

(* Driven the way brotli.Reader drives it, the window delivers exactly the LZ77 decoding of
   the command sequence, for every window size and every recycled buffer of capacity >= 1 or
   nil: the contents and capacity of the recycled buffer are irrelevant. *)
Theorem br_drive_correct size recycled cs :
  size_ok size -> recycled <> Some [] -> cmds_ok size [] cs ->
  exists st0 st', br_init size recycled = Ok st0 /\ br_drive st0 cs [] = Ok (lz_decode cs, st').
Proof.
  intros Hsz Hrec Hok.
  destruct (br_init_ok size recycled Hsz) as [st0 [Hi [I [_ [Hs _]]]]].
  assert (Hlive : 1 <= d_len st0).
  { destruct (init_ok size recycled Hsz) as [st1 [Hi1 [_ [_ [_ Hl]]]]].
    unfold br_init in Hi. rewrite Hi1 in Hi. cbn [dlift] in Hi. inversion Hi; subst st0.
    cbn [d_len]. apply Hl. exact Hrec. }
  destruct (br_drive_ok cs st0 (wsp_init size) [] I Hlive) as [st' Hd].
  - reflexivity.
  - rewrite Hs. exact Hok.
  - exists st0, st'. split; [exact Hi|exact Hd].
Qed.

Corollary br_recycled_irrelevant size rec1 rec2 cs st1 st2 r1 r2 :
  size_ok size -> rec1 <> Some [] -> rec2 <> Some [] -> cmds_ok size [] cs ->
  br_init size rec1 = Ok st1 -> br_init size rec2 = Ok st2 ->
  br_drive st1 cs [] = r1 -> br_drive st2 cs [] = r2 ->
  exists f1 f2, r1 = Ok (lz_decode cs, f1) /\ r2 = Ok (lz_decode cs, f2).
Proof.
  intros Hsz H1 H2 Hok Hi1 Hi2 Hr1 Hr2.
  destruct (br_drive_correct size rec1 cs Hsz H1 Hok) as [a [f1 [Ha Hd1]]].
  destruct (br_drive_correct size rec2 cs Hsz H2 Hok) as [b [f2 [Hb Hd2]]].
  rewrite Hi1 in Ha. rewrite Hi2 in Hb. inversion Ha; inversion Hb; subst a b.
  exists f1, f2. rewrite <- Hr1, <- Hr2. split; assumption.
Qed.

Example br_ex_drive :
  exists st0, br_init 8 (Some [200; 201]%N) = Ok st0 /\
    match br_drive st0 [CLit 1%N; CLit 2%N; CCopy 2 21; CRaw [7; 8; 9]%N; CCopy 8 3] [] with
    | Ok (out, _) =>
      out = [1; 2; 1; 2; 1; 2; 1; 2; 1; 2; 1; 2; 1; 2; 1; 2; 1; 2; 1; 2; 1; 2; 1; 7; 8; 9; 1; 2; 1]%N
    | _ => False
    end.
Proof. eexists. split; [reflexivity|]. vm_compute. reflexivity. Qed.

Print Assumptions br_refines.
Print Assumptions br_invariants.
Print Assumptions br_memory.
Print Assumptions br_write_copy_progress.
Print Assumptions last_bytes_ok.
Print Assumptions br_drive_correct.
Print Assumptions br_recycled_irrelevant.
