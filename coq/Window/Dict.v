(* Implementation-level model of flate.dictDecoder (flate/dict_decoder.go), the LZ77
   sliding window of the DEFLATE reader: Init over a recycled buffer, the lazy growth
   4096 -> x4 -> size, the wrap-around, WriteByte, TryWriteCopy, WriteCopy (both
   phases), WriteSlice/WriteMark (as readRawData uses them), ReadFlush, HistSize,
   AvailSize.

   A Go slice is (pointer, len, cap); dd.hist always points at the start of its backing
   array, so the model keeps the whole backing array [d_arr] (its length is cap(dd.hist))
   and [d_len] = len(dd.hist). A slice expression s[lo:hi] is legal iff
   0 <= lo <= hi <= cap(s) (s[lo:] iff 0 <= lo <= len(s)), an index s[i] iff
   0 <= i < len(s); every other case is the explicit outcome [Panic]. A loop that
   would never terminate in Go is the explicit outcome [Hang]; [Fuel] is the model's
   own loop budget (unreachable: Window/DictThms.v). Go's int is 64 bits: the additions
   that can wrap are written with [wrap_int]. *)
From V Require Import Base.Prelude.
Local Open Scope Z_scope.

Inductive dres (A : Type) : Type :=
| Ok (a : A)
| Panic          (* Go dd_run-time panic: slice bounds / index out of range, make with negative length *)
| Hang           (* the Go loop makes no progress and never terminates *)
| Fuel.          (* model loop budget exhausted *)
Arguments Ok {A} a.
Arguments Panic {A}.
Arguments Hang {A}.
Arguments Fuel {A}.

Definition zlen {A} (l : list A) : Z := Z.of_nat (length l).
Definition zfirstn {A} (n : Z) (l : list A) : list A := firstn (Z.to_nat n) l.
Definition zskipn {A} (n : Z) (l : list A) : list A := skipn (Z.to_nat n) l.
Definition znth (l : list byte) (i : Z) : byte := nth (Z.to_nat i) l 0%N.

(* two's complement wrap-around of Go's 64-bit int *)
Definition wrap_int (z : Z) : Z := (z + 2 ^ 63) mod 2 ^ 64 - 2 ^ 63.

Definition initSize : Z := 4096.
Definition growFactor : Z := 4.

Record dd := mkDD {
  d_size : Z;            (* dd.size *)
  d_arr : list byte;     (* backing array of dd.hist; cap(dd.hist) = zlen d_arr *)
  d_len : Z;             (* len(dd.hist) *)
  d_wr : Z;              (* dd.wrPos *)
  d_rd : Z;              (* dd.rdPos *)
  d_full : bool          (* dd.full *)
}.

Definition d_cap (st : dd) : Z := zlen (d_arr st).

(* bounds check of a[lo:hi] on a slice of capacity [cap] *)
Definition slice_ok (cap lo hi : Z) : bool :=
  (0 <=? lo) && (lo <=? hi) && (hi <=? cap).

(* the bytes lo..hi-1 of the array *)
Definition asub (a : list byte) (lo hi : Z) : list byte := zfirstn (hi - lo) (zskipn lo a).

(* overwrite a[pos .. pos+len src) *)
Definition blit (a : list byte) (pos : Z) (src : list byte) : list byte :=
  zfirstn pos a ++ src ++ zskipn (pos + zlen src) a.

(* copy(a[dlo:dhi], a[slo:shi]) inside one array: min(len dst, len src) bytes, memmove
   semantics (the source is read before anything is written) *)
Definition go_copy (a : list byte) (dlo dhi slo shi : Z) : dres (Z * list byte) :=
  let cap := zlen a in
  if slice_ok cap dlo dhi && slice_ok cap slo shi then
    let n := Z.min (dhi - dlo) (shi - slo) in
    Ok (n, blit a dlo (asub a slo (slo + n)))
  else Panic.

(* make([]byte, n) *)
Definition zeros (n : Z) : list byte := repeat 0%N (Z.to_nat n).

(* Init(size) on a dictDecoder whose hist is [recycled] (None = nil; Some a = a slice
   whose backing array, up to its capacity, is a) *)
Definition dd_init (size : Z) (recycled : option (list byte)) : dres dd :=
  let arr := match recycled with None => zeros initSize | Some a => a end in
  (* dd.hist = dd.hist[:cap(dd.hist)] *)
  let len := zlen arr in
  if size <? len then
    (* dd.hist = dd.hist[:dd.size] *)
    if slice_ok (zlen arr) 0 size then Ok (mkDD size arr size 0 0 false) else Panic
  else Ok (mkDD size arr len 0 0 false).

Definition hist_size (st : dd) : Z := if d_full st then d_size st else d_wr st.
Definition avail_size (st : dd) : Z := d_len st - d_wr st.

(* WriteByte: dd.hist[dd.wrPos] = c; dd.wrPos++ *)
Definition write_byte (st : dd) (c : byte) : dres dd :=
  if (0 <=? d_wr st) && (d_wr st <? d_len st) then
    Ok (mkDD (d_size st) (blit (d_arr st) (d_wr st) [c]) (d_len st) (d_wr st + 1) (d_rd st) (d_full st))
  else Panic.

(* n := copy(dd.WriteSlice(), bs); dd.WriteMark(len(bs))   (readRawData: the caller
   must keep len(bs) <= AvailSize) *)
Definition write_raw (st : dd) (bs : list byte) : dres (Z * dd) :=
  (* WriteSlice: dd.hist[dd.wrPos:] *)
  if slice_ok (d_len st) (d_wr st) (d_len st) then
    let n := Z.min (d_len st - d_wr st) (zlen bs) in
    Ok (n, mkDD (d_size st) (blit (d_arr st) (d_wr st) (zfirstn n bs)) (d_len st)
                (wrap_int (d_wr st + zlen bs)) (d_rd st) (d_full st))
  else Panic.

(* for wrPos < wrEnd { wrPos += copy(dd.hist[wrPos:wrEnd], dd.hist[rdPos:wrPos]) } *)
Fixpoint copy_loop (fuel : nat) (a : list byte) (rdPos wrPos wrEnd : Z) : dres (list byte * Z) :=
  if wrPos <? wrEnd then
    match fuel with
    | O => Fuel
    | S f =>
      match go_copy a wrPos wrEnd rdPos wrPos with
      | Ok (n, a') => if n =? 0 then Hang else copy_loop f a' rdPos (wrPos + n) wrEnd
      | Panic => Panic | Hang => Hang | Fuel => Fuel
      end
    end
  else Ok (a, wrPos).

Definition loop_fuel (wrPos wrEnd : Z) : nat := Z.to_nat (wrEnd - wrPos).

(* TryWriteCopy(dist, length) *)
Definition try_write_copy (st : dd) (dist length : Z) : dres (Z * dd) :=
  let wrPos := d_wr st in
  let wrEnd := wrap_int (wrPos + length) in
  if (wrPos <? dist) || (d_len st <? wrEnd) then Ok (0, st) else
  let wrBase := wrPos in
  let rdPos := wrap_int (wrPos - dist) in
  (* loop: ... goto loop   is a do-while: the body once, then the while loop *)
  match go_copy (d_arr st) wrPos wrEnd rdPos wrPos with
  | Ok (n, a1) =>
    let wrPos1 := wrPos + n in
    if (wrPos1 <? wrEnd) && (n =? 0) then Hang else
    match copy_loop (loop_fuel wrPos1 wrEnd) a1 rdPos wrPos1 wrEnd with
    | Ok (a2, wrPos2) =>
      Ok (wrPos2 - wrBase, mkDD (d_size st) a2 (d_len st) wrPos2 (d_rd st) (d_full st))
    | Panic => Panic | Hang => Hang | Fuel => Fuel
    end
  | Panic => Panic | Hang => Hang | Fuel => Fuel
  end.

(* WriteCopy(dist, length) *)
Definition write_copy (st : dd) (dist length : Z) : dres (Z * dd) :=
  let wrBase := d_wr st in
  let wrPos := wrBase in
  let rdPos := wrap_int (wrPos - dist) in
  let wrEnd := wrap_int (wrPos + length) in
  let wrEnd := if d_len st <? wrEnd then d_len st else wrEnd in
  (* Copy non-overlapping section after destination. *)
  let phase1 :=
    if rdPos <? 0 then
      let rdPos := wrap_int (rdPos + d_len st) in
      (* copy(dd.hist[wrPos:wrEnd], dd.hist[rdPos:]) *)
      if slice_ok (d_len st) rdPos (d_len st) then
        match go_copy (d_arr st) wrPos wrEnd rdPos (d_len st) with
        | Ok (n, a1) => Ok (a1, wrPos + n, 0)
        | Panic => Panic | Hang => Hang | Fuel => Fuel
        end
      else Panic
    else Ok (d_arr st, wrPos, rdPos) in
  match phase1 with
  | Ok (a1, wrPos1, rdPos1) =>
    match copy_loop (loop_fuel wrPos1 wrEnd) a1 rdPos1 wrPos1 wrEnd with
    | Ok (a2, wrPos2) =>
      Ok (wrPos2 - wrBase, mkDD (d_size st) a2 (d_len st) wrPos2 (d_rd st) (d_full st))
    | Panic => Panic | Hang => Hang | Fuel => Fuel
    end
  | Panic => Panic | Hang => Hang | Fuel => Fuel
  end.

(* ReadFlush *)
Definition read_flush (st : dd) : dres (list byte * dd) :=
  (* toRead := dd.hist[dd.rdPos:dd.wrPos] *)
  if slice_ok (d_cap st) (d_rd st) (d_wr st) then
    let toRead := asub (d_arr st) (d_rd st) (d_wr st) in
    let rd := d_wr st in
    if d_wr st =? d_len st then
      if d_len st =? d_size st then
        Ok (toRead, mkDD (d_size st) (d_arr st) (d_len st) 0 0 true)
      else
        let size := wrap_int (d_cap st * growFactor) in
        let size := if d_size st <? size then d_size st else size in
        (* hist := make([]byte, size); copy(hist, dd.hist); dd.hist = hist *)
        if size <? 0 then Panic else
        let n := Z.min size (d_len st) in
        Ok (toRead, mkDD (d_size st) (zfirstn n (d_arr st) ++ zeros (size - n)) size
                         (d_wr st) rd (d_full st))
    else Ok (toRead, mkDD (d_size st) (d_arr st) (d_len st) (d_wr st) rd (d_full st))
  else Panic.

(* ---- histories --------------------------------------------------------------------- *)
Inductive dop :=
| OpInit (size : Z)                 (* Init again on the current buffer (Reader.Reset) *)
| OpWriteByte (c : byte)
| OpWriteCopy (dist length : Z)
| OpTryWriteCopy (dist length : Z)
| OpWriteRaw (bs : list byte)
| OpReadFlush
| OpHistSize
| OpAvailSize.

Inductive dobs :=
| OUnit
| OCnt (n : Z)
| OBytes (l : list byte).

Definition dlift {A B} (r : dres A) (f : A -> B) : dres B :=
  match r with Ok a => Ok (f a) | Panic => Panic | Hang => Hang | Fuel => Fuel end.

Definition dd_step (st : dd) (o : dop) : dres (dobs * dd) :=
  match o with
  | OpInit size => dlift (dd_init size (Some (d_arr st))) (fun st' => (OUnit, st'))
  | OpWriteByte c => dlift (write_byte st c) (fun st' => (OUnit, st'))
  | OpWriteCopy dist length => dlift (write_copy st dist length) (fun r => (OCnt (fst r), snd r))
  | OpTryWriteCopy dist length => dlift (try_write_copy st dist length) (fun r => (OCnt (fst r), snd r))
  | OpWriteRaw bs => dlift (write_raw st bs) (fun r => (OCnt (fst r), snd r))
  | OpReadFlush => dlift (read_flush st) (fun r => (OBytes (fst r), snd r))
  | OpHistSize => Ok (OCnt (hist_size st), st)
  | OpAvailSize => Ok (OCnt (avail_size st), st)
  end.

(* observations of a history, up to and including the first failure; the last state *)
Fixpoint dd_run (st : dd) (ops : list dop) : list (dres dobs) * dd :=
  match ops with
  | [] => ([], st)
  | o :: r =>
    match dd_step st o with
    | Ok (ob, st') => let '(l, fin) := dd_run st' r in (Ok ob :: l, fin)
    | Panic => ([Panic], st) | Hang => ([Hang], st) | Fuel => ([Fuel], st)
    end
  end.

(* a whole history: Init(size) over the recycled buffer, then the operations *)
Definition dd_run_from (size : Z) (recycled : option (list byte)) (ops : list dop) : list (dres dobs) :=
  match dd_init size recycled with
  | Ok st => Ok OUnit :: fst (dd_run st ops)
  | Panic => [Panic] | Hang => [Hang] | Fuel => [Fuel]
  end.

(* ---- the caller's loop (flate/reader.go readBlock / readRawData) ------------------------
   Commands of a decoded block; [drive] runs them the way the Reader does: ReadFlush when
   AvailSize is 0 before a literal, TryWriteCopy then WriteCopy, ReadFlush and continue
   while the copy is incomplete; raw data through WriteSlice/WriteMark in pieces. The
   result is everything handed out by ReadFlush, including the final flush. *)
Inductive dcmd :=
| CLit (c : byte)
| CCopy (dist length : Z)
| CRaw (bs : list byte).

Definition dbind {A B} (r : dres A) (f : A -> dres B) : dres B :=
  match r with Ok a => f a | Panic => Panic | Hang => Hang | Fuel => Fuel end.

Fixpoint drive_copy (fuel : nat) (st : dd) (dist cpyLen : Z) (acc : list byte) : dres (list byte * dd) :=
  match fuel with
  | O => Fuel
  | S f =>
    dbind (try_write_copy st dist cpyLen) (fun r1 =>
    dbind (if fst r1 =? 0 then write_copy (snd r1) dist cpyLen else Ok r1) (fun r2 =>
    let cpyLen' := cpyLen - fst r2 in
    if 0 <? cpyLen' then
      dbind (read_flush (snd r2)) (fun r3 =>
      (* Reader.Read runs the step again; with no room even after the flush it would
         do so forever *)
      if avail_size (snd r3) <=? 0 then Hang
      else drive_copy f (snd r3) dist cpyLen' (acc ++ fst r3))
    else Ok (acc, snd r2)))
  end.

Fixpoint drive_raw (fuel : nat) (st : dd) (bs : list byte) (acc : list byte) : dres (list byte * dd) :=
  match fuel with
  | O => Fuel
  | S f =>
    let k := Z.min (avail_size st) (zlen bs) in
    dbind (write_raw st (zfirstn k bs)) (fun r1 =>
    let rest := zskipn k bs in
    match rest with
    | [] => Ok (acc, snd r1)
    | _ => dbind (read_flush (snd r1)) (fun r3 =>
           if avail_size (snd r3) <=? 0 then Hang
           else drive_raw f (snd r3) rest (acc ++ fst r3))
    end)
  end.

Definition drive_cmd (st : dd) (c : dcmd) (acc : list byte) : dres (list byte * dd) :=
  match c with
  | CLit b =>
    dbind (if avail_size st =? 0 then read_flush st else Ok ([], st)) (fun r =>
    if avail_size (snd r) =? 0 then Hang else
    dbind (write_byte (snd r) b) (fun st' => Ok (acc ++ fst r, st')))
  | CCopy dist length =>
    (* the Reader checks dist <= HistSize before copying; a larger distance is a
       corrupted stream and never reaches the dictionary *)
    drive_copy (Z.to_nat length + 2) st dist length acc
  | CRaw bs => drive_raw (length bs + 2) st bs acc
  end.

Fixpoint drive (st : dd) (cs : list dcmd) (acc : list byte) : dres (list byte * dd) :=
  match cs with
  | [] => dbind (read_flush st) (fun r => Ok (acc ++ fst r, snd r))
  | c :: r => dbind (drive_cmd st c acc) (fun p => drive (snd p) r (fst p))
  end.
