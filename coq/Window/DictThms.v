(* Theorems about the sliding-window model (Window/Dict.v) against its specification
   (Window/DictSpec.v): refinement for all protocol-respecting histories, invariants and
   the memory bound, TryWriteCopy/WriteCopy agreement and progress, independence of the
   recycled buffer (through the caller loop), and a witness that outside the protocol the
   stale contents of the recycled buffer leak. *)
From V Require Import Base.Prelude Window.Dict Window.DictSpec.
From Coq Require Import ZifyBool ZifyN ZifyNat.
Local Open Scope Z_scope.

(* ---- lists indexed by Z ----------------------------------------------------------------- *)
Lemma zlen_nonneg {A} (l : list A) : 0 <= zlen l.
Proof. unfold zlen. lia. Qed.

Lemma zlen_app {A} (a b : list A) : zlen (a ++ b) = zlen a + zlen b.
Proof. unfold zlen. rewrite app_length. lia. Qed.

Lemma zlen_nil {A} : zlen (@nil A) = 0.
Proof. reflexivity. Qed.

Lemma zlen_cons {A} (x : A) l : zlen (x :: l) = 1 + zlen l.
Proof. unfold zlen. cbn [length]. lia. Qed.

Ltac znil := change (zlen (@nil N)) with 0 in *.

Lemma zlen_zfirstn {A} n (l : list A) : 0 <= n <= zlen l -> zlen (zfirstn n l) = n.
Proof. unfold zlen, zfirstn. intros H. rewrite firstn_length. lia. Qed.

Lemma zlen_zskipn {A} n (l : list A) : 0 <= n <= zlen l -> zlen (zskipn n l) = zlen l - n.
Proof. unfold zlen, zskipn. intros H. rewrite skipn_length. lia. Qed.

Lemma zlen_zeros n : 0 <= n -> zlen (zeros n) = n.
Proof. unfold zlen, zeros. intros H. rewrite repeat_length. lia. Qed.

Lemma zlen_asub a lo hi : 0 <= lo <= hi -> hi <= zlen a -> zlen (asub a lo hi) = hi - lo.
Proof.
  intros H1 H2. unfold asub. rewrite zlen_zfirstn; [lia|].
  rewrite zlen_zskipn by lia. lia.
Qed.

Lemma zlen_blit a pos src :
  0 <= pos -> pos + zlen src <= zlen a -> zlen (blit a pos src) = zlen a.
Proof.
  intros H1 H2. pose proof (zlen_nonneg src) as Hs. unfold blit.
  rewrite !zlen_app, zlen_zfirstn, zlen_zskipn by lia. lia.
Qed.

Lemma znth_app a b i :
  0 <= i -> znth (a ++ b) i = if i <? zlen a then znth a i else znth b (i - zlen a).
Proof.
  intros Hi. unfold znth, zlen. destruct (Z.ltb_spec i (Z.of_nat (length a))) as [H|H].
  - apply app_nth1. lia.
  - rewrite app_nth2 by lia. f_equal. lia.
Qed.

Lemma znth_app_l a b i : 0 <= i < zlen a -> znth (a ++ b) i = znth a i.
Proof. intros H. rewrite znth_app by lia. destruct (Z.ltb_spec i (zlen a)); [reflexivity|lia]. Qed.

Lemma znth_app_r a b i : zlen a <= i -> znth (a ++ b) i = znth b (i - zlen a).
Proof.
  intros H. pose proof (zlen_nonneg a). rewrite znth_app by lia.
  destruct (Z.ltb_spec i (zlen a)); [lia|reflexivity].
Qed.

Lemma znth_zfirstn n l i : 0 <= i < n -> znth (zfirstn n l) i = znth l i.
Proof.
  intros H. unfold znth, zfirstn.
  rewrite <- (firstn_skipn (Z.to_nat n) l) at 2.
  destruct (Nat.lt_ge_cases (Z.to_nat i) (length (firstn (Z.to_nat n) l))) as [Hl|Hl].
  - rewrite app_nth1 by exact Hl. reflexivity.
  - rewrite firstn_length in Hl.
    assert (Hln : (length l <= Z.to_nat i)%nat) by lia.
    rewrite (nth_overflow (firstn _ _)) by (rewrite firstn_length; lia).
    rewrite firstn_skipn. rewrite nth_overflow by lia. reflexivity.
Qed.

Lemma znth_zskipn n l i : 0 <= n -> 0 <= i -> znth (zskipn n l) i = znth l (n + i).
Proof.
  intros Hn Hi. unfold znth, zskipn.
  destruct (Nat.le_gt_cases (Z.to_nat n) (length l)) as [Hl|Hl].
  - rewrite <- (firstn_skipn (Z.to_nat n) l) at 2.
    rewrite app_nth2 by (rewrite firstn_length; lia).
    rewrite firstn_length. f_equal. lia.
  - rewrite skipn_all2 by lia. rewrite nth_overflow by (cbn [length]; lia).
    rewrite nth_overflow by lia. reflexivity.
Qed.

Lemma znth_asub a lo hi j : 0 <= lo -> 0 <= j < hi - lo -> znth (asub a lo hi) j = znth a (lo + j).
Proof.
  intros Hlo Hj. unfold asub. rewrite znth_zfirstn by lia. apply znth_zskipn; lia.
Qed.

Lemma znth_blit a pos src i :
  0 <= pos -> pos + zlen src <= zlen a -> 0 <= i ->
  znth (blit a pos src) i =
  if (pos <=? i) && (i <? pos + zlen src) then znth src (i - pos) else znth a i.
Proof.
  intros Hp Hl Hi. pose proof (zlen_nonneg src) as Hs. unfold blit.
  destruct (Z.leb_spec pos i) as [H1|H1]; cbn [andb].
  - rewrite znth_app_r by (rewrite zlen_zfirstn; lia).
    rewrite zlen_zfirstn by lia.
    destruct (Z.ltb_spec i (pos + zlen src)) as [H2|H2].
    + apply znth_app_l. lia.
    + rewrite znth_app_r by lia. rewrite znth_zskipn by lia. f_equal. lia.
  - rewrite znth_app_l by (rewrite zlen_zfirstn; lia). apply znth_zfirstn. lia.
Qed.

Lemma znth_zeros n i : znth (zeros n) i = 0%N.
Proof.
  unfold znth, zeros. destruct (Nat.lt_ge_cases (Z.to_nat i) (Z.to_nat n)) as [H|H].
  - apply nth_repeat.
  - apply nth_overflow. rewrite repeat_length. lia.
Qed.

Lemma list_ext (a b : list byte) :
  zlen a = zlen b -> (forall i, 0 <= i < zlen a -> znth a i = znth b i) -> a = b.
Proof.
  unfold zlen, znth. intros Hl H. apply (nth_ext a b 0%N 0%N); [lia|].
  intros n Hn. specialize (H (Z.of_nat n)). rewrite Nat2Z.id in H. apply H. lia.
Qed.

Lemma blit_nil a pos : blit a pos [] = a.
Proof. unfold blit, zfirstn, zskipn. cbn [app]. znil. rewrite Z.add_0_r. apply firstn_skipn. Qed.

Lemma zfirstn_all {A} n (l : list A) : zlen l <= n -> zfirstn n l = l.
Proof. unfold zlen, zfirstn. intros H. apply firstn_all2. lia. Qed.

Lemma wrap_int_id z : - 2 ^ 63 <= z < 2 ^ 63 -> wrap_int z = z.
Proof. unfold wrap_int. intros H. lia. Qed.

(* ---- the LZ77 equation ------------------------------------------------------------------- *)
(* [e] extends [out] by a copy at distance [dist]: every byte of e equals the byte dist
   positions before it in out ++ e *)
Definition lz_ok (out : list byte) (dist : Z) (e : list byte) : Prop :=
  forall j, 0 <= j < zlen e -> znth e j = znth (out ++ e) (zlen out + j - dist).

Lemma lz_ok_nil out dist : lz_ok out dist [].
Proof. intros j Hj. unfold zlen in Hj. cbn [length] in Hj. lia. Qed.

(* the function of the specification computes the unique solution of the equation *)
Lemma lz_ok_unique n : forall out dist e,
  0 < dist <= zlen out -> lz_ok out dist e -> zlen e = Z.of_nat n ->
  lz_copy out dist n = out ++ e.
Proof.
  induction n as [|n IH]; intros out dist e Hd Hok Hlen.
  - destruct e as [|x e]; [|rewrite zlen_cons in Hlen; pose proof (zlen_nonneg e); lia].
    cbn [lz_copy]. rewrite app_nil_r. reflexivity.
  - destruct e as [|x e]; [znil; lia|].
    rewrite zlen_cons in Hlen. pose proof (zlen_nonneg e) as He.
    cbn [lz_copy].
    assert (Hx : x = lz_byte out dist).
    { specialize (Hok 0). rewrite zlen_cons in Hok. specialize (Hok ltac:(lia)).
      unfold znth at 1 in Hok. cbn [Z.to_nat nth] in Hok. rewrite Hok.
      unfold lz_byte. rewrite znth_app_l by lia. f_equal. lia. }
    rewrite (IH (out ++ [lz_byte out dist]) dist e).
    + rewrite <- app_assoc. cbn [app]. rewrite Hx. reflexivity.
    + rewrite zlen_app, zlen_cons. znil. lia.
    + intros j Hj. specialize (Hok (j + 1)). rewrite zlen_cons in Hok.
      specialize (Hok ltac:(lia)).
      assert (Hl : znth (x :: e) (j + 1) = znth e j).
      { unfold znth. replace (Z.to_nat (j + 1)) with (S (Z.to_nat j)) by lia. reflexivity. }
      rewrite Hl in Hok. rewrite Hok. rewrite <- Hx.
      rewrite <- app_assoc. cbn [app]. f_equal.
      rewrite zlen_app, zlen_cons. znil. lia.
    + lia.
Qed.

Lemma lz_copy_spec n : forall out dist,
  exists e, lz_copy out dist n = out ++ e /\ zlen e = Z.of_nat n.
Proof.
  induction n as [|n IH]; intros out dist.
  - exists []. cbn [lz_copy]. rewrite app_nil_r. split; reflexivity.
  - cbn [lz_copy]. destruct (IH (out ++ [lz_byte out dist]) dist) as [e [He Hl]].
    exists (lz_byte out dist :: e). rewrite He, <- app_assoc. cbn [app].
    split; [reflexivity|]. rewrite zlen_cons. lia.
Qed.

Lemma lz_copy_len n out dist : zlen (lz_copy out dist n) = zlen out + Z.of_nat n.
Proof. destruct (lz_copy_spec n out dist) as [e [He Hl]]. rewrite He, zlen_app. lia. Qed.

Lemma lz_copy_plus a : forall out dist b,
  lz_copy out dist (a + b) = lz_copy (lz_copy out dist a) dist b.
Proof.
  induction a as [|a IH]; intros out dist b; cbn [lz_copy Nat.add]; [reflexivity|]. apply IH.
Qed.

(* periodicity of a solution: going back any multiple of dist inside the copy (or into the
   last dist bytes before it) lands on an equal byte *)
Lemma lz_ok_period out dist e (q : nat) : forall i,
  0 < dist <= zlen out -> lz_ok out dist e ->
  zlen out - dist <= i -> i + Z.of_nat q * dist < zlen out + zlen e ->
  znth (out ++ e) (i + Z.of_nat q * dist) = znth (out ++ e) i.
Proof.
  induction q as [|q IH]; intros i Hd Hok Hlo Hhi.
  - f_equal. lia.
  - assert (E : i + Z.of_nat (S q) * dist = i + Z.of_nat q * dist + dist)
      by (rewrite Nat2Z.inj_succ; ring).
    rewrite E in *. clear E.
    assert (Hq : 0 <= Z.of_nat q * dist) by (apply Z.mul_nonneg_nonneg; lia).
    remember (i + Z.of_nat q * dist + dist) as k eqn:Hk.
    rewrite znth_app_r by lia.
    rewrite (Hok (k - zlen out)) by lia.
    replace (zlen out + (k - zlen out) - dist) with (i + Z.of_nat q * dist) by lia.
    apply IH; try assumption; lia.
Qed.

(* A block copy of at most D bytes from D back, where D is a multiple of dist that reaches
   no further back than dist before the start of the copy so far, continues the copy. This
   is one iteration of the forward copy loop (and the first phase of WriteCopy). *)
Lemma lz_ok_block out dist e e' (p : nat) D :
  0 < dist <= zlen out -> lz_ok out dist e ->
  D = Z.of_nat p * dist -> (1 <= p)%nat -> D <= zlen e + dist -> zlen e' <= D ->
  (forall j, 0 <= j < zlen e' -> znth e' j = znth (out ++ e) (zlen out + zlen e - D + j)) ->
  lz_ok out dist (e ++ e').
Proof.
  intros Hd Hok HD Hp HDc Hl Hsrc j Hj. rewrite zlen_app in Hj.
  pose proof (zlen_nonneg e) as Hne. pose proof (zlen_nonneg e') as Hne'.
  rewrite app_assoc.
  destruct (Z.ltb_spec j (zlen e)) as [Hje|Hje].
  - rewrite znth_app_l by lia. rewrite (Hok j) by lia.
    symmetry. apply znth_app_l. rewrite zlen_app. lia.
  - rewrite znth_app_r by lia. rewrite Hsrc by lia.
    set (c := zlen e) in *. set (T := zlen out) in *. set (jj := j - c).
    destruct (Z.ltb_spec jj dist) as [Hjd|Hjd].
    + (* target still inside out ++ e: periodicity, p - 1 steps *)
      rewrite (znth_app_l (out ++ e) e') by (rewrite zlen_app; fold c T; lia).
      replace (T + j - dist) with ((T + c - D + jj) + Z.of_nat (p - 1) * dist)
        by (unfold jj; rewrite HD; nia).
      symmetry. apply lz_ok_period; try assumption; fold T c.
      * lia.
      * replace (T + c - D + jj + Z.of_nat (p - 1) * dist) with (T + j - dist)
          by (unfold jj; rewrite HD; nia).
        unfold jj in Hjd. lia.
    + (* target inside e': the source byte is one period further back *)
      rewrite (znth_app_r (out ++ e) e') by (rewrite zlen_app; fold c T; unfold jj in Hjd; lia).
      rewrite zlen_app. fold T c.
      replace (T + j - dist - (T + c)) with (jj - dist) by (unfold jj; lia).
      rewrite Hsrc by (unfold jj in *; lia).
      (* out++e at index T + c - D + jj equals the one dist before it *)
      assert (Hidx : T <= T + c - D + jj) by lia.
      rewrite (znth_app_r out e) by (fold T; lia). fold T.
      rewrite (Hok (T + c - D + jj - T)) by (fold c; unfold jj in *; lia).
      fold T. f_equal. lia.
Qed.

(* ---- the representation invariant ------------------------------------------------------- *)
Definition set_out (s : wsp) (out : list byte) : wsp := mkWsp (s_size s) out (s_flushed s).

Record Inv (st : dd) (s : wsp) : Prop := mkInv {
  i_size : size_ok (d_size st);
  i_ssize : s_size s = d_size st;
  i_rd : 0 <= d_rd st <= d_wr st;
  i_wr : d_wr st <= d_len st;
  i_len : d_len st <= d_size st;
  i_caple : d_len st <= d_cap st;
  i_cap : d_len st < d_size st -> d_cap st = d_len st;
  i_nfull : d_full st = false -> d_wr st = zlen (s_out s);
  i_full : d_full st = true -> d_len st = d_size st /\ d_len st + d_wr st <= zlen (s_out s);
  (* the part of the buffer written in this lap holds the newest bytes ... *)
  i_lo : forall i, 0 <= i < d_wr st ->
         znth (d_arr st) i = znth (s_out s) (zlen (s_out s) - d_wr st + i);
  (* ... and after a wrap the rest holds the bytes of the previous lap *)
  i_hi : d_full st = true -> forall i, d_wr st <= i < d_len st ->
         znth (d_arr st) i = znth (s_out s) (zlen (s_out s) - d_wr st - d_len st + i);
  i_fl : s_flushed s = zlen (s_out s) - (d_wr st - d_rd st)
}.

Definition with_buf (st : dd) (a : list byte) (wr : Z) : dd :=
  mkDD (d_size st) a (d_len st) wr (d_rd st) (d_full st).

Lemma inv_total st s : Inv st s -> d_wr st <= zlen (s_out s).
Proof.
  intros I. destruct (d_full st) eqn:F.
  - pose proof (i_full _ _ I F). pose proof (i_rd _ _ I). pose proof (i_wr _ _ I). lia.
  - pose proof (i_nfull _ _ I F). lia.
Qed.

(* appending a block at the write position *)
Lemma inv_append st s bs :
  Inv st s -> zlen bs <= d_len st - d_wr st ->
  Inv (with_buf st (blit (d_arr st) (d_wr st) bs) (d_wr st + zlen bs)) (set_out s (s_out s ++ bs)).
Proof.
  intros I Hb. pose proof (zlen_nonneg bs) as Hbs. pose proof (inv_total _ _ I) as HT.
  destruct I as [Isz Iss Ird Iwr Ilen Icl Icap Inf Ifu Ilo Ihi Ifl].
  unfold d_cap in *.
  assert (Hbl : zlen (blit (d_arr st) (d_wr st) bs) = zlen (d_arr st))
    by (apply zlen_blit; lia).
  constructor; unfold with_buf, set_out, d_cap;
    cbn [d_size d_arr d_len d_wr d_rd d_full s_size s_out s_flushed];
    rewrite ?zlen_app, ?Hbl; try assumption; try lia.
  all: try (intros F i Hi; specialize (Ifu F); rewrite znth_blit by lia;
    destruct (Z.leb_spec (d_wr st) i) as [H1|H1];
    destruct (Z.ltb_spec i (d_wr st + zlen bs)) as [H2|H2]; cbn [andb]; try lia;
    rewrite Ihi by (try assumption; lia); rewrite znth_app_l by lia; f_equal; lia).
  all: intros i Hi; rewrite znth_blit by lia;
    destruct (Z.leb_spec (d_wr st) i) as [H1|H1];
    destruct (Z.ltb_spec i (d_wr st + zlen bs)) as [H2|H2]; cbn [andb]; try lia.
  - rewrite znth_app_r by lia. f_equal. lia.
  - rewrite Ilo by lia. rewrite znth_app_l by lia. f_equal. lia.
Qed.

(* ---- Init -------------------------------------------------------------------------------- *)
Lemma init_ok size recycled :
  size_ok size -> exists st, dd_init size recycled = Ok st /\ Inv st (wsp_init size) /\
    d_size st = size /\
    d_cap st = match recycled with None => initSize | Some a => zlen a end /\
    (recycled <> Some [] -> 1 <= d_len st).
Proof.
  intros [Hs1 Hs2]. unfold dd_init.
  set (arr := match recycled with None => zeros initSize | Some a => a end).
  assert (Hcap : zlen arr = match recycled with None => initSize | Some a => zlen a end).
  { unfold arr. destruct recycled; [reflexivity|]. apply zlen_zeros. unfold initSize. lia. }
  assert (Hlive : recycled <> Some [] -> 1 <= zlen arr).
  { intros Hr. rewrite Hcap. destruct recycled as [[|x a]|]; [congruence| |unfold initSize; lia].
    rewrite zlen_cons. pose proof (zlen_nonneg a). lia. }
  pose proof (zlen_nonneg arr) as Hn.
  destruct (Z.ltb_spec size (zlen arr)) as [Hlt|Hge].
  - unfold slice_ok.
    destruct (Z.leb_spec 0 0); [|lia]. destruct (Z.leb_spec 0 size); [|lia].
    destruct (Z.leb_spec size (zlen arr)); [|lia]. cbn [andb].
    eexists; split; [reflexivity|]. split; [|split; [reflexivity|split; [exact Hcap|intros; cbn [d_len]; lia]]].
    constructor; unfold d_cap, wsp_init, size_ok;
      cbn [d_size d_arr d_len d_wr d_rd d_full s_size s_out s_flushed]; znil; try lia; try discriminate.
  - eexists; split; [reflexivity|]. split; [|split; [reflexivity|split; [exact Hcap|intros Hr; cbn [d_len]; auto]]].
    constructor; unfold d_cap, wsp_init, size_ok;
      cbn [d_size d_arr d_len d_wr d_rd d_full s_size s_out s_flushed]; znil; try lia; try discriminate.
Qed.

(* ---- WriteByte, WriteRaw ----------------------------------------------------------------- *)
Lemma write_byte_ok st s c :
  Inv st s -> 0 < avail_size st ->
  exists st', write_byte st c = Ok st' /\ Inv st' (set_out s (s_out s ++ [c])) /\
              d_len st' = d_len st /\ d_size st' = d_size st /\ d_cap st' = d_cap st.
Proof.
  intros I Ha. unfold avail_size in Ha. pose proof (i_rd _ _ I) as Hrd.
  pose proof (i_caple _ _ I) as Hcl. unfold d_cap in Hcl.
  unfold write_byte.
  destruct (Z.leb_spec 0 (d_wr st)); [|lia]. destruct (Z.ltb_spec (d_wr st) (d_len st)); [|lia].
  cbn [andb]. eexists. split; [reflexivity|].
  pose proof (inv_append st s [c] I) as IA. rewrite zlen_cons in IA. znil.
  split; [apply IA; lia|]. unfold d_cap. cbn [d_len d_size d_arr].
  repeat split. apply zlen_blit; [lia|]. rewrite zlen_cons. znil. lia.
Qed.

Lemma write_raw_ok st s bs :
  Inv st s -> zlen bs <= avail_size st ->
  exists st', write_raw st bs = Ok (zlen bs, st') /\ Inv st' (set_out s (s_out s ++ bs)) /\
              d_len st' = d_len st /\ d_size st' = d_size st /\ d_cap st' = d_cap st.
Proof.
  intros I Ha. unfold avail_size in Ha. pose proof (i_rd _ _ I) as Hrd.
  pose proof (i_caple _ _ I) as Hcl. pose proof (i_wr _ _ I) as Hwr.
  pose proof (i_len _ _ I) as Hlen. destruct (i_size _ _ I) as [Hs1 Hs2].
  unfold d_cap in Hcl. pose proof (zlen_nonneg bs) as Hbs.
  unfold write_raw, slice_ok.
  destruct (Z.leb_spec 0 (d_wr st)); [|lia].
  destruct (Z.leb_spec (d_wr st) (d_len st)); [|lia].
  destruct (Z.leb_spec (d_len st) (d_len st)); [|lia]. cbn [andb].
  rewrite Z.min_r by lia. rewrite zfirstn_all by lia.
  rewrite wrap_int_id by lia.
  eexists. split; [reflexivity|].
  split; [apply (inv_append st s bs I); lia|]. unfold d_cap. cbn [d_len d_size d_arr].
  repeat split. apply zlen_blit; lia.
Qed.

(* ---- ReadFlush --------------------------------------------------------------------------- *)
Definition set_flushed (s : wsp) : wsp := mkWsp (s_size s) (s_out s) (zlen (s_out s)).

Lemma read_flush_ok st s :
  Inv st s ->
  exists st', read_flush st = Ok (zskipn (s_flushed s) (s_out s), st') /\
              Inv st' (set_flushed s) /\ d_size st' = d_size st /\ d_len st <= d_len st' /\
              (1 <= d_len st -> 0 < avail_size st') /\
              (d_cap st' = d_cap st \/
               d_cap st' <= Z.min (d_size st) (4 * zlen (s_out s))).
Proof.
  intros I. pose proof (inv_total _ _ I) as HT.
  destruct I as [Isz Iss Ird Iwr Ilen Icl Icap Inf Ifu Ilo Ihi Ifl].
  destruct Isz as [Hs1 Hs2]. unfold d_cap in *.
  assert (Hread : asub (d_arr st) (d_rd st) (d_wr st) = zskipn (s_flushed s) (s_out s)).
  { apply list_ext.
    - rewrite zlen_asub by lia. rewrite zlen_zskipn by lia. lia.
    - intros i Hi. rewrite zlen_asub in Hi by lia.
      rewrite znth_asub by lia. rewrite znth_zskipn by lia. rewrite Ilo by lia. f_equal. lia. }
  unfold read_flush, slice_ok, d_cap.
  destruct (Z.leb_spec 0 (d_rd st)); [|lia].
  destruct (Z.leb_spec (d_rd st) (d_wr st)); [|lia].
  destruct (Z.leb_spec (d_wr st) (zlen (d_arr st))); [|lia]. cbn [andb].
  rewrite Hread.
  destruct (Z.eqb_spec (d_wr st) (d_len st)) as [Hfull|Hnot].
  - destruct (Z.eqb_spec (d_len st) (d_size st)) as [Hsz|Hsz].
    + (* wrap around *)
      eexists. split; [reflexivity|]. unfold avail_size, d_cap. cbn [d_size d_len d_wr d_arr].
      split; [|repeat split; try lia; left; reflexivity].
      constructor; unfold set_flushed, d_cap, size_ok;
        cbn [d_size d_arr d_len d_wr d_rd d_full s_size s_out s_flushed];
        try assumption; try lia; try discriminate.
      all: try (intros _ i Hi; rewrite Ilo by lia; f_equal; lia).
      all: intros _; split; [assumption|];
        destruct (d_full st) eqn:F; [specialize (Ifu eq_refl)|specialize (Inf eq_refl)]; lia.
    + (* grow *)
      assert (Hc : zlen (d_arr st) = d_len st) by (apply Icap; lia).
      unfold growFactor. rewrite Hc. rewrite wrap_int_id by lia.
      set (size' := if d_size st <? d_len st * 4 then d_size st else d_len st * 4).
      assert (Hsize' : size' = Z.min (d_size st) (d_len st * 4)).
      { unfold size'. destruct (Z.ltb_spec (d_size st) (d_len st * 4)); lia. }
      destruct (Z.ltb_spec size' 0); [lia|].
      rewrite (Z.min_r size' (d_len st)) by lia.
      assert (Hnf : d_full st = false).
      { destruct (d_full st) eqn:F; [|reflexivity]. specialize (Ifu eq_refl). lia. }
      specialize (Inf Hnf).
      assert (Hnl : zlen (zfirstn (d_len st) (d_arr st) ++ zeros (size' - d_len st)) = size').
      { rewrite zlen_app, zlen_zfirstn, zlen_zeros by lia. lia. }
      eexists. split; [reflexivity|]. unfold avail_size, d_cap.
      cbn [d_size d_len d_wr d_arr]. rewrite Hnl.
      split; [|repeat split; try lia].
      constructor; unfold set_flushed, d_cap, size_ok;
        cbn [d_size d_arr d_len d_wr d_rd d_full s_size s_out s_flushed];
        rewrite ?Hnl; try assumption; try lia; try congruence.
      intros i Hi. rewrite znth_app_l by (rewrite zlen_zfirstn; lia).
      rewrite znth_zfirstn by lia. apply Ilo. lia.
  - eexists. split; [reflexivity|]. unfold avail_size, d_cap. cbn [d_size d_len d_wr d_arr].
    split; [|repeat split; try lia; left; reflexivity].
    constructor; unfold set_flushed, d_cap, size_ok;
      cbn [d_size d_arr d_len d_wr d_rd d_full s_size s_out s_flushed];
      try assumption; try lia.
Qed.

(* ---- the forward copy loop --------------------------------------------------------------- *)
Lemma with_buf_id st : with_buf st (d_arr st) (d_wr st) = st.
Proof. destruct st; reflexivity. Qed.

Lemma set_out_id s : set_out s (s_out s) = s.
Proof. destruct s; reflexivity. Qed.

Lemma go_copy_eq a dlo dhi slo shi :
  0 <= dlo <= dhi -> dhi <= zlen a -> 0 <= slo <= shi -> shi <= zlen a ->
  go_copy a dlo dhi slo shi =
  Ok (Z.min (dhi - dlo) (shi - slo), blit a dlo (asub a slo (slo + Z.min (dhi - dlo) (shi - slo)))).
Proof.
  intros H1 H2 H3 H4. unfold go_copy, slice_ok.
  destruct (Z.leb_spec 0 dlo); [|lia]. destruct (Z.leb_spec dlo dhi); [|lia].
  destruct (Z.leb_spec dhi (zlen a)); [|lia]. destruct (Z.leb_spec 0 slo); [|lia].
  destruct (Z.leb_spec slo shi); [|lia]. destruct (Z.leb_spec shi (zlen a)); [|lia].
  reflexivity.
Qed.

Lemma copy_loop_ok fuel : forall st s0 a w e (p : nat) dist rdPos wrEnd,
  0 < dist <= zlen (s_out s0) ->
  Inv (with_buf st a w) (set_out s0 (s_out s0 ++ e)) ->
  lz_ok (s_out s0) dist e ->
  0 <= rdPos -> w <= wrEnd <= d_len st ->
  (w < wrEnd -> w - rdPos = Z.of_nat p * dist /\ (1 <= p)%nat /\ w - rdPos <= zlen e + dist) ->
  (Z.to_nat (wrEnd - w) <= fuel)%nat ->
  exists a2 e2, copy_loop fuel a rdPos w wrEnd = Ok (a2, wrEnd) /\
    Inv (with_buf st a2 wrEnd) (set_out s0 (s_out s0 ++ e2)) /\ lz_ok (s_out s0) dist e2 /\
    zlen e2 = zlen e + (wrEnd - w) /\ zlen a2 = zlen a.
Proof.
  induction fuel as [|f IH]; intros st s0 a w e p dist rdPos wrEnd Hd I Hok Hrd Hw Hp Hfuel.
  - cbn [copy_loop]. destruct (Z.ltb_spec w wrEnd) as [Hlt|Hge]; [lia|].
    assert (w = wrEnd) by lia. subst w. exists a, e. split; [reflexivity|]. split; [exact I|]. split; [exact Hok|]. split; [lia|reflexivity].
  - cbn [copy_loop]. destruct (Z.ltb_spec w wrEnd) as [Hlt|Hge].
    2:{ assert (w = wrEnd) by lia. subst w. exists a, e. split; [reflexivity|]. split; [exact I|]. split; [exact Hok|]. split; [lia|reflexivity]. }
    destruct (Hp Hlt) as [HD [Hp1 HDc]].
    pose proof (i_caple _ _ I) as Hcl. unfold d_cap in Hcl. cbn [with_buf d_arr d_len] in Hcl.
    pose proof (i_rd _ _ I) as Hrdw. cbn [with_buf d_wr d_rd] in Hrdw.
    assert (HDpos : 0 < w - rdPos) by nia.
    rewrite go_copy_eq by lia.
    set (n := Z.min (wrEnd - w) (w - rdPos)).
    assert (Hn : 1 <= n) by (unfold n; lia).
    destruct (Z.eqb_spec n 0); [lia|].
    set (bs := asub a rdPos (rdPos + n)).
    assert (Hbs : zlen bs = n) by (unfold bs; rewrite zlen_asub; unfold n; lia).
    pose proof (inv_append _ _ bs I) as IA.
    cbn [with_buf set_out d_arr d_len d_wr s_out] in IA. rewrite Hbs in IA.
    specialize (IA ltac:(unfold n; lia)).
    unfold with_buf, set_out in IA. cbn [d_size d_len d_rd d_full s_size s_flushed] in IA.
    rewrite <- app_assoc in IA.
    assert (Hok' : lz_ok (s_out s0) dist (e ++ bs)).
    { apply (lz_ok_block (s_out s0) dist e bs p (w - rdPos)); try assumption; try lia.
      intros j Hj. rewrite Hbs in Hj. unfold bs. rewrite znth_asub by lia.
      pose proof (i_lo _ _ I (rdPos + j)) as L.
      cbn [with_buf set_out d_arr d_wr s_out] in L. rewrite L by (unfold n in Hj; lia).
      f_equal. rewrite zlen_app. lia. }
    destruct (IH st s0 (blit a w bs) (w + n) (e ++ bs) (2 * p)%nat dist rdPos wrEnd)
      as [a2 [e2 [Hl [I2 [Hok2 [Hlen2 Ha2]]]]]]; try assumption; try (unfold n; lia).
    + intros Hcont. assert (Hnn : n = w - rdPos) by (unfold n in *; lia).
      rewrite zlen_app, Hbs. split; [|split]; [|lia|lia].
      rewrite Nat2Z.inj_mul. change (Z.of_nat 2) with 2. lia.
    + exists a2, e2. split; [exact Hl|]. split; [exact I2|]. split; [exact Hok2|].
      split.
      * rewrite Hlen2, zlen_app, Hbs. lia.
      * rewrite Ha2. apply zlen_blit; rewrite ?Hbs; unfold n; lia.
Qed.

(* ---- WriteCopy --------------------------------------------------------------------------- *)
Lemma hist_size_spec st s : Inv st s -> hist_size st = wsp_hist s.
Proof.
  intros I. unfold hist_size, wsp_hist. rewrite (i_ssize _ _ I).
  pose proof (i_wr _ _ I). pose proof (i_len _ _ I). pose proof (i_rd _ _ I).
  destruct (d_full st) eqn:F.
  - pose proof (i_full _ _ I F). lia.
  - pose proof (i_nfull _ _ I F). lia.
Qed.

Definition copy_pre (st : dd) (dist length : Z) : Prop :=
  0 < dist <= hist_size st /\ 0 <= length /\ d_size st + length < 2 ^ 63.

Lemma write_copy_ok st s dist length :
  Inv st s -> copy_pre st dist length ->
  exists st', write_copy st dist length = Ok (Z.min length (avail_size st), st') /\
    Inv st' (set_out s (lz_copy (s_out s) dist (Z.to_nat (Z.min length (avail_size st))))) /\
    d_len st' = d_len st /\ d_size st' = d_size st /\ d_cap st' = d_cap st.
Proof.
  intros I [Hd [Hl Hov]].
  pose proof (hist_size_spec _ _ I) as Hh. unfold wsp_hist in Hh.
  assert (HdT : 0 < dist <= zlen (s_out s)) by lia.
  pose proof (i_rd _ _ I) as Hrd. pose proof (i_wr _ _ I) as Hwr.
  pose proof (i_len _ _ I) as Hlen. pose proof (i_caple _ _ I) as Hcl.
  destruct (i_size _ _ I) as [Hs1 Hs2]. unfold d_cap in Hcl.
  unfold avail_size. set (k := Z.min length (d_len st - d_wr st)).
  assert (Hk : 0 <= k <= d_len st - d_wr st) by (unfold k; lia).
  assert (Hdsz : dist <= d_size st).
  { unfold hist_size in Hd. destruct (d_full st); lia. }
  unfold write_copy.
  rewrite (wrap_int_id (d_wr st - dist)) by lia.
  rewrite (wrap_int_id (d_wr st + length)) by lia.
  set (wrEnd := if d_len st <? d_wr st + length then d_len st else d_wr st + length).
  assert (HwrEnd : wrEnd = d_wr st + k).
  { unfold wrEnd, k. destruct (Z.ltb_spec (d_len st) (d_wr st + length)); lia. }
  (* the common end: from a loop-ready state to the result *)
  assert (Hfin : forall a1 w1 rd1 e (p : nat),
    Inv (with_buf st a1 w1) (set_out s (s_out s ++ e)) -> lz_ok (s_out s) dist e ->
    zlen a1 = zlen (d_arr st) ->
    0 <= rd1 -> w1 <= wrEnd -> zlen e = w1 - d_wr st ->
    (w1 < wrEnd -> w1 - rd1 = Z.of_nat p * dist /\ (1 <= p)%nat /\ w1 - rd1 <= zlen e + dist) ->
    exists st',
      match copy_loop (loop_fuel w1 wrEnd) a1 rd1 w1 wrEnd with
      | Ok (a2, wrPos2) => Ok (wrPos2 - d_wr st, mkDD (d_size st) a2 (d_len st) wrPos2 (d_rd st) (d_full st))
      | Panic => Panic | Hang => Hang | Fuel => Fuel
      end = Ok (k, st') /\
      Inv st' (set_out s (lz_copy (s_out s) dist (Z.to_nat k))) /\
      d_len st' = d_len st /\ d_size st' = d_size st /\ d_cap st' = d_cap st).
  { intros a1 w1 rd1 e p I1 Hok1 Ha1 Hrd1 Hw1 He Hp.
    destruct (copy_loop_ok (loop_fuel w1 wrEnd) st s a1 w1 e p dist rd1 wrEnd)
      as [a2 [e2 [Hloop [I2 [Hok2 [Hlen2 Ha2]]]]]]; try assumption; try lia.
    { unfold loop_fuel. lia. }
    rewrite Hloop. eexists. split; [f_equal; f_equal; lia|].
    assert (Hout : lz_copy (s_out s) dist (Z.to_nat k) = s_out s ++ e2).
    { apply lz_ok_unique; try assumption. lia. }
    rewrite Hout. split; [exact I2|]. unfold d_cap. cbn [d_len d_size d_arr].
    repeat split. lia. }
  destruct (Z.ltb_spec (d_wr st - dist) 0) as [Hneg|Hpos].
  - (* phase 1: the window has wrapped, the source starts near the end of the buffer *)
    assert (Hfull : d_full st = true).
    { unfold hist_size in Hd. destruct (d_full st); [reflexivity|lia]. }
    destruct (i_full _ _ I Hfull) as [Hlsz HTl].
    rewrite (wrap_int_id (d_wr st - dist + d_len st)) by lia.
    set (rd' := d_wr st - dist + d_len st).
    unfold slice_ok.
    destruct (Z.leb_spec 0 rd'); [|unfold rd' in *; lia].
    destruct (Z.leb_spec rd' (d_len st)); [|unfold rd' in *; lia].
    destruct (Z.leb_spec (d_len st) (d_len st)); [|lia]. cbn [andb].
    rewrite go_copy_eq by (unfold rd' in *; lia).
    set (n := Z.min (wrEnd - d_wr st) (d_len st - rd')).
    assert (Hn : 0 <= n <= k /\ n <= dist - d_wr st) by (unfold n, rd'; lia).
    set (bs := asub (d_arr st) rd' (rd' + n)).
    assert (Hbs : zlen bs = n) by (unfold bs; rewrite zlen_asub; unfold rd' in *; lia).
    pose proof (inv_append _ _ bs I) as IA. rewrite Hbs in IA. specialize (IA ltac:(lia)).
    assert (Hokb : lz_ok (s_out s) dist ([] ++ bs)).
    { apply (lz_ok_block (s_out s) dist [] bs 1 dist); try assumption; znil; try lia.
      - apply lz_ok_nil.
      - intros j Hj. rewrite Hbs in Hj. unfold bs. rewrite znth_asub by (unfold rd' in *; lia).
        rewrite (i_hi _ _ I Hfull) by (unfold rd' in *; lia).
        rewrite app_nil_r. f_equal. unfold rd'. lia. }
    cbn [app] in Hokb.
    apply (Hfin _ _ 0 bs 1%nat); try assumption; try lia.
    all: try (apply zlen_blit; rewrite ?Hbs; lia).
    all: try (intros Hc; split; [|split]; [|lia|lia]; unfold n, rd' in *; lia).
  - (* no wrap between source and destination *)
    apply (Hfin (d_arr st) (d_wr st) (d_wr st - dist) [] 1%nat); try lia; znil; try lia.
    + rewrite with_buf_id, app_nil_r, set_out_id. exact I.
    + apply lz_ok_nil.
Qed.

(* ---- TryWriteCopy ------------------------------------------------------------------------ *)
Lemma go_copy_nonneg a dlo dhi slo shi n a' :
  go_copy a dlo dhi slo shi = Ok (n, a') -> 0 <= n.
Proof.
  unfold go_copy, slice_ok. intros H.
  destruct ((0 <=? dlo) && (dlo <=? dhi) && (dhi <=? zlen a) &&
            ((0 <=? slo) && (slo <=? shi) && (shi <=? zlen a))) eqn:E; [|discriminate].
  inversion H; subst. lia.
Qed.

(* the budget of the copy loop is irrelevant once it covers the distance to go *)
Lemma copy_loop_fuel f1 : forall f2 a rd w we r,
  copy_loop f1 a rd w we = Ok r -> (Z.to_nat (we - w) <= f2)%nat ->
  copy_loop f2 a rd w we = Ok r.
Proof.
  induction f1 as [|f1 IH]; intros f2 a rd w we r H Hf.
  - cbn [copy_loop] in H. destruct (Z.ltb_spec w we) as [Hlt|Hge]; [discriminate|].
    destruct f2; cbn [copy_loop]; destruct (Z.ltb_spec w we); try lia; exact H.
  - cbn [copy_loop] in H. destruct (Z.ltb_spec w we) as [Hlt|Hge].
    + destruct f2 as [|f2]; [lia|]. cbn [copy_loop].
      destruct (Z.ltb_spec w we); [|lia].
      destruct (go_copy a w we rd w) as [[n a']| | |] eqn:G; try discriminate.
      pose proof (go_copy_nonneg _ _ _ _ _ _ _ G) as Hn.
      destruct (Z.eqb_spec n 0); [discriminate|].
      apply IH; [exact H|lia].
    + destruct f2; cbn [copy_loop]; destruct (Z.ltb_spec w we); try lia; exact H.
Qed.

Lemma asub_empty a lo : asub a lo lo = [].
Proof. unfold asub, zfirstn. rewrite Z.sub_diag. reflexivity. Qed.

Lemma try_write_copy_ok st s dist length :
  Inv st s -> copy_pre st dist length ->
  try_write_copy st dist length = Ok (0, st) \/
  exists st', try_write_copy st dist length = Ok (length, st') /\
              write_copy st dist length = Ok (length, st') /\ 0 < length <= avail_size st.
Proof.
  intros I Hpre. pose proof Hpre as [Hd [Hl Hov]].
  pose proof (i_rd _ _ I) as Hrd. pose proof (i_wr _ _ I) as Hwr.
  pose proof (i_len _ _ I) as Hlen. pose proof (i_caple _ _ I) as Hcl.
  destruct (i_size _ _ I) as [Hs1 Hs2]. unfold d_cap in Hcl.
  assert (Hdsz : dist <= d_size st).
  { unfold hist_size in Hd. destruct (d_full st); lia. }
  unfold try_write_copy.
  rewrite (wrap_int_id (d_wr st - dist)) by lia.
  rewrite (wrap_int_id (d_wr st + length)) by lia.
  destruct (Z.ltb_spec (d_wr st) dist) as [Hr1|Hr1]; [left; reflexivity|].
  destruct (Z.ltb_spec (d_len st) (d_wr st + length)) as [Hr2|Hr2]; [left; reflexivity|].
  cbn [orb]. rewrite go_copy_eq by lia.
  destruct (Z.eq_dec length 0) as [Hz|Hnz].
  - left. subst length. rewrite Z.add_0_r, Z.sub_diag.
    rewrite (Z.min_l 0) by lia. rewrite !Z.add_0_r, asub_empty, blit_nil.
    rewrite Z.ltb_irrefl. cbn [andb]. unfold loop_fuel. rewrite Z.sub_diag.
    cbn [Z.to_nat copy_loop]. rewrite Z.ltb_irrefl. rewrite Z.sub_diag.
    destruct st; reflexivity.
  - right.
    destruct (write_copy_ok st s dist length I Hpre) as [st' [Hwc _]].
    unfold avail_size in *. rewrite (Z.min_l length) in Hwc by lia.
    exists st'. split; [|split; [exact Hwc|lia]].
    unfold write_copy in Hwc.
    rewrite (wrap_int_id (d_wr st - dist)) in Hwc by lia.
    rewrite (wrap_int_id (d_wr st + length)) in Hwc by lia.
    destruct (Z.ltb_spec (d_len st) (d_wr st + length)) as [?|_] in Hwc; [lia|].
    destruct (Z.ltb_spec (d_wr st - dist) 0) as [?|_] in Hwc; [lia|].
    unfold loop_fuel in Hwc at 1.
    replace (Z.to_nat (d_wr st + length - d_wr st)) with (S (Z.to_nat (length - 1))) in Hwc by lia.
    cbn [copy_loop] in Hwc.
    destruct (Z.ltb_spec (d_wr st) (d_wr st + length)) as [_|?] in Hwc; [|lia].
    rewrite go_copy_eq in Hwc by lia.
    set (n := Z.min (d_wr st + length - d_wr st) (d_wr st - (d_wr st - dist))) in *.
    assert (Hn : 1 <= n <= length) by (unfold n; lia).
    destruct (Z.eqb_spec n 0) as [?|_]; [lia|].
    rewrite andb_false_r.
    destruct (Z.eqb_spec n 0) as [?|_] in Hwc; [lia|].
    set (a1 := blit (d_arr st) (d_wr st) (asub (d_arr st) (d_wr st - dist) (d_wr st - dist + n))) in *.
    destruct (copy_loop (Z.to_nat (length - 1)) a1 (d_wr st - dist) (d_wr st + n) (d_wr st + length))
      as [[a2 w2]| | |] eqn:Hloop; try discriminate.
    rewrite (copy_loop_fuel _ _ _ _ _ _ _ Hloop) by (unfold loop_fuel; lia).
    exact Hwc.
Qed.

(* ---- one operation, whole histories ------------------------------------------------------- *)
Lemma pending_spec st s :
  Inv st s -> asub (d_arr st) (d_rd st) (d_wr st) = zskipn (s_flushed s) (s_out s).
Proof.
  intros I. pose proof (inv_total _ _ I) as HT.
  destruct I as [Isz Iss Ird Iwr Ilen Icl Icap Inf Ifu Ilo Ihi Ifl]. unfold d_cap in *.
  apply list_ext.
  - rewrite zlen_asub by lia. rewrite zlen_zskipn by lia. lia.
  - intros i Hi. rewrite zlen_asub in Hi by lia.
    rewrite znth_asub by lia. rewrite znth_zskipn by lia. rewrite Ilo by lia. f_equal. lia.
Qed.

Lemma list_eqb_refl l : list_eqb N.eqb l l = true.
Proof. apply list_eqb_N_eq. reflexivity. Qed.

Definition not_init (o : dop) : Prop := forall size, o <> OpInit size.

(* what every operation other than Init preserves: the size, the output only grows, the
   buffer only grows, and its capacity changes only by the lazy growth *)
Definition step_extra (st : dd) (s : wsp) (st' : dd) (s' : wsp) : Prop :=
  d_size st' = d_size st /\ zlen (s_out s) <= zlen (s_out s') /\ d_len st <= d_len st' /\
  (d_cap st' = d_cap st \/ d_cap st' <= Z.min (d_size st) (4 * zlen (s_out s))).

Lemma step_ok st s o :
  Inv st s -> op_pre st o ->
  exists ob st' s', dd_step st o = Ok (ob, st') /\ wsp_step s o ob = Some s' /\ Inv st' s' /\
                    (not_init o -> step_extra st s st' s').
Proof.
  intros I Hpre. unfold step_extra.
  destruct o as [size|c|dist length|dist length|bs| | |]; cbn [op_pre] in Hpre;
    cbn [dd_step wsp_step].
  - destruct (init_ok size (Some (d_arr st)) Hpre) as [st' [Hi [I' _]]].
    rewrite Hi. cbn [dlift]. exists OUnit, st', (wsp_init size).
    split; [reflexivity|]. split; [reflexivity|]. split; [exact I'|].
    intros Hn. exfalso. apply (Hn size). reflexivity.
  - destruct (write_byte_ok st s c I Hpre) as [st' [Hw [I' [E1 [E2 E3]]]]].
    rewrite Hw. cbn [dlift]. exists OUnit, st'. eexists. split; [reflexivity|]. split; [reflexivity|].
    split; [exact I'|]. intros _. cbn [s_out]. rewrite zlen_app. pose proof (zlen_nonneg [c]).
    repeat split; try lia; try (left; exact E3).
  - destruct (write_copy_ok st s dist length I Hpre) as [st' [Hw [I' [E1 [E2 E3]]]]].
    rewrite Hw. cbn [dlift fst snd]. exists (OCnt (Z.min length (avail_size st))), st'. eexists.
    split; [reflexivity|]. destruct Hpre as [_ [Hl _]].
    pose proof (i_wr _ _ I). unfold avail_size.
    destruct (Z.leb_spec 0 (Z.min length (d_len st - d_wr st))); [|lia].
    destruct (Z.leb_spec (Z.min length (d_len st - d_wr st)) length); [|lia].
    cbn [andb]. split; [reflexivity|]. split; [exact I'|]. intros _. cbn [s_out].
    rewrite lz_copy_len. repeat split; try lia; try (left; exact E3).
  - destruct (try_write_copy_ok st s dist length I Hpre) as [Ht|[st' [Ht [Hw Hl]]]].
    + rewrite Ht. cbn [dlift fst snd]. exists (OCnt 0), st, s. split; [reflexivity|].
      split; [|split; [exact I|]].
      * rewrite Z.eqb_refl. cbn [orb Z.to_nat lz_copy]. destruct s; reflexivity.
      * intros _. repeat split; try lia; try (left; reflexivity).
    + destruct (write_copy_ok st s dist length I Hpre) as [st'' [Hw' [I' [E1 [E2 E3]]]]].
      rewrite (Z.min_l length) in * by lia. rewrite Hw in Hw'. inversion Hw'; subst st''.
      rewrite Ht. cbn [dlift fst snd]. exists (OCnt length), st'. eexists.
      split; [reflexivity|]. rewrite Z.eqb_refl, orb_true_r. split; [reflexivity|].
      split; [exact I'|]. intros _. cbn [s_out].
      rewrite lz_copy_len. repeat split; try lia; try (left; exact E3).
  - destruct (write_raw_ok st s bs I Hpre) as [st' [Hw [I' [E1 [E2 E3]]]]].
    rewrite Hw. cbn [dlift fst snd]. exists (OCnt (zlen bs)), st'. eexists.
    split; [reflexivity|]. rewrite Z.eqb_refl. split; [reflexivity|]. split; [exact I'|].
    intros _. cbn [s_out]. rewrite zlen_app. pose proof (zlen_nonneg bs).
    repeat split; try lia; try (left; exact E3).
  - destruct (read_flush_ok st s I) as [st' [Hr [I' [E1 [E2 [_ E3]]]]]].
    rewrite Hr. cbn [dlift fst snd].
    exists (OBytes (zskipn (s_flushed s) (s_out s))), st', (set_flushed s). split; [reflexivity|].
    rewrite list_eqb_refl. split; [reflexivity|]. split; [exact I'|].
    intros _. cbn [set_flushed s_out]. repeat split; try lia; try exact E3.
  - exists (OCnt (hist_size st)), st, s. split; [reflexivity|].
    rewrite (hist_size_spec _ _ I), Z.eqb_refl. split; [reflexivity|]. split; [exact I|].
    intros _. repeat split; try lia; try (left; reflexivity).
  - exists (OCnt (avail_size st)), st, s. split; [reflexivity|].
    pose proof (i_wr _ _ I). pose proof (i_rd _ _ I). pose proof (i_len _ _ I).
    rewrite (i_ssize _ _ I). unfold avail_size.
    destruct (Z.leb_spec 0 (d_len st - d_wr st)); [|lia].
    destruct (Z.leb_spec (d_len st - d_wr st) (d_size st)); [|lia].
    split; [reflexivity|]. split; [exact I|].
    intros _. repeat split; try lia; try (left; reflexivity).
Qed.

Lemma run_ok ops : forall st s,
  Inv st s -> proto st ops ->
  exists obs st' s', dd_run st ops = (map Ok obs, st') /\
                     wsp_run s ops (map Ok obs) = Some s' /\ Inv st' s'.
Proof.
  induction ops as [|o r IH]; intros st s I Hp.
  - exists [], st, s. split; [reflexivity|]. split; [reflexivity|exact I].
  - cbn [proto] in Hp. destruct Hp as [Hpre Hrest].
    destruct (step_ok st s o I Hpre) as [ob [st1 [s1 [Hs [Hsp [I1 _]]]]]].
    rewrite Hs in Hrest.
    destruct (IH st1 s1 I1 Hrest) as [obs [st' [s' [Hr [Hsr I']]]]].
    exists (ob :: obs), st', s'. cbn [dd_run wsp_run map]. rewrite Hs, Hr, Hsp.
    split; [reflexivity|]. split; [exact Hsr|exact I'].
Qed.

(* (a) REFINEMENT. For every window size, every recycled buffer (nil, or any contents and
   capacity) and every history that follows the caller protocol: no operation fails, every
   observation is the one the specification prescribes, and the final state represents
   the abstract output. *)
Theorem dict_refines size recycled ops st0 :
  size_ok size -> dd_init size recycled = Ok st0 -> proto st0 ops ->
  exists obs st' s', dd_run st0 ops = (map Ok obs, st') /\
                     wsp_run (wsp_init size) ops (map Ok obs) = Some s' /\ Inv st' s'.
Proof.
  intros Hsz Hi Hp. destruct (init_ok size recycled Hsz) as [st [Hi' [I _]]].
  rewrite Hi in Hi'. inversion Hi'; subst st. apply run_ok; assumption.
Qed.

Corollary dict_check_spec size recycled ops st0 :
  size_ok size -> dd_init size recycled = Ok st0 -> proto st0 ops ->
  check_spec size recycled ops = true.
Proof.
  intros Hsz Hi Hp.
  destruct (dict_refines size recycled ops st0 Hsz Hi Hp) as [obs [st' [s' [Hr [Hs _]]]]].
  unfold check_spec. rewrite Hi, Hr. cbn [fst]. rewrite Hs. reflexivity.
Qed.

(* Init itself never fails for a legal size *)
Theorem dict_init_ok size recycled : size_ok size -> exists st0, dd_init size recycled = Ok st0.
Proof. intros H. destruct (init_ok size recycled H) as [st [Hi _]]. eauto. Qed.

(* ---- the delivered bytes ------------------------------------------------------------------ *)
Definition flushed_bytes (obs : list dobs) : list byte :=
  flat_map (fun ob => match ob with OBytes l => l | _ => [] end) obs.

Fixpoint no_reinit (ops : list dop) : Prop :=
  match ops with
  | [] => True
  | OpInit _ :: _ => False
  | _ :: r => no_reinit r
  end.

(* specification side: what ReadFlush has handed out is always a prefix of the output, and
   each ReadFlush extends it by exactly the bytes it returns *)
Lemma wsp_step_flushed s o ob s' :
  wsp_step s o ob = Some s' -> (forall size, o <> OpInit size) ->
  0 <= s_flushed s <= zlen (s_out s) ->
  zfirstn (s_flushed s') (s_out s') =
    zfirstn (s_flushed s) (s_out s) ++ match ob with OBytes l => l | _ => [] end /\
  0 <= s_flushed s' <= zlen (s_out s') /\ s_size s' = s_size s /\
  exists x, s_out s' = s_out s ++ x.
Proof.
  intros H Hni HF.
  assert (Happ : forall x, zfirstn (s_flushed s) (s_out s ++ x) = zfirstn (s_flushed s) (s_out s)).
  { intros x. unfold zfirstn, zlen in *. rewrite firstn_app.
    replace (Z.to_nat (s_flushed s) - length (s_out s))%nat with O by lia.
    cbn [firstn]. apply app_nil_r. }
  destruct o as [size|c|dist length|dist length|bs| | |]; destruct ob as [|n|l]; cbn [wsp_step] in H;
    try discriminate.
  - exfalso. apply (Hni size). reflexivity.
  - inversion H; subst s'; cbn [s_out s_flushed s_size]. rewrite Happ, app_nil_r, zlen_app.
    pose proof (zlen_nonneg [c]). repeat split; try lia. eauto.
  - destruct ((0 <=? n) && (n <=? length)); [|discriminate].
    inversion H; subst s'; cbn [s_out s_flushed s_size].
    destruct (lz_copy_spec (Z.to_nat n) (s_out s) dist) as [e [He Hl]].
    rewrite He, Happ, app_nil_r, zlen_app. pose proof (zlen_nonneg e). repeat split; try lia. eauto.
  - destruct ((n =? 0) || (n =? length)); [|discriminate].
    inversion H; subst s'; cbn [s_out s_flushed s_size].
    destruct (lz_copy_spec (Z.to_nat n) (s_out s) dist) as [e [He Hl]].
    rewrite He, Happ, app_nil_r, zlen_app. pose proof (zlen_nonneg e). repeat split; try lia. eauto.
  - destruct (n =? zlen bs); [|discriminate].
    inversion H; subst s'; cbn [s_out s_flushed s_size]. rewrite Happ, app_nil_r, zlen_app.
    pose proof (zlen_nonneg bs). repeat split; try lia. eauto.
  - destruct (list_eqb N.eqb l (zskipn (s_flushed s) (s_out s))) eqn:E; [|discriminate].
    apply list_eqb_N_eq in E. subst l.
    inversion H; subst s'; cbn [s_out s_flushed s_size].
    rewrite zfirstn_all by lia. unfold zfirstn, zskipn. rewrite firstn_skipn.
    repeat split; try lia. exists []. rewrite app_nil_r. reflexivity.
  - destruct (n =? wsp_hist s); [|discriminate]. inversion H; subst s'.
    rewrite app_nil_r. repeat split; try lia. exists []. rewrite app_nil_r. reflexivity.
  - destruct ((0 <=? n) && (n <=? s_size s)); [|discriminate]. inversion H; subst s'.
    rewrite app_nil_r. repeat split; try lia. exists []. rewrite app_nil_r. reflexivity.
Qed.

Lemma wsp_run_flushed ops : forall s obs s',
  wsp_run s ops (map Ok obs) = Some s' -> no_reinit ops ->
  0 <= s_flushed s <= zlen (s_out s) ->
  zfirstn (s_flushed s') (s_out s') = zfirstn (s_flushed s) (s_out s) ++ flushed_bytes obs /\
  0 <= s_flushed s' <= zlen (s_out s') /\ s_size s' = s_size s /\
  zlen (s_out s) <= zlen (s_out s').
Proof.
  induction ops as [|o r IH]; intros s obs s' H Hni HF.
  - destruct obs; cbn [wsp_run map] in H; [|discriminate]. inversion H; subst s'.
    cbn [flushed_bytes flat_map]. rewrite app_nil_r. repeat split; lia.
  - destruct obs as [|ob obs]; cbn [wsp_run map] in H; [discriminate|].
    destruct (wsp_step s o ob) as [s1|] eqn:Hs; [|discriminate].
    assert (Hno : forall size, o <> OpInit size) by (intros size E; subst o; exact Hni).
    assert (Hr : no_reinit r) by (destruct o; first [exact Hni|contradiction]).
    destruct (wsp_step_flushed _ _ _ _ Hs Hno HF) as [H1 [H2 [H3 [x Hx]]]].
    destruct (IH s1 obs s' H Hr H2) as [H4 [H5 [H6 H7]]].
    cbn [flushed_bytes flat_map]. fold (flushed_bytes obs).
    rewrite H4, H1, <- app_assoc. repeat split; try lia.
    rewrite Hx, zlen_app in H7. pose proof (zlen_nonneg x). lia.
Qed.

(* (a, continued) the bytes handed out by all the ReadFlush calls of a history, followed by
   the bytes still pending in the window, are exactly the abstract output *)
Theorem dict_delivers size recycled ops st0 obs st' :
  size_ok size -> dd_init size recycled = Ok st0 -> proto st0 ops -> no_reinit ops ->
  dd_run st0 ops = (map Ok obs, st') ->
  exists s', wsp_run (wsp_init size) ops (map Ok obs) = Some s' /\
             s_out s' = flushed_bytes obs ++ asub (d_arr st') (d_rd st') (d_wr st') /\
             hist_size st' = Z.min size (zlen (s_out s')).
Proof.
  intros Hsz Hi Hp Hni Hrun.
  destruct (dict_refines size recycled ops st0 Hsz Hi Hp) as [obs' [st'' [s' [Hr [Hs I]]]]].
  rewrite Hrun in Hr. inversion Hr as [[Hobs Hst]]. subst st''.
  assert (obs' = obs).
  { clear - Hobs. revert obs' Hobs. induction obs as [|a l IH]; intros [|b m] H; cbn [map] in H;
      try discriminate; [reflexivity|]. inversion H; subst. f_equal. apply IH. assumption. }
  subst obs'. exists s'. split; [exact Hs|].
  destruct (wsp_run_flushed ops (wsp_init size) obs s' Hs Hni) as [H1 [H2 [H3 _]]].
  { cbn [wsp_init s_flushed s_out]. znil. lia. }
  cbn [wsp_init s_flushed s_out s_size] in H1, H3.
  change (zfirstn 0 (@nil N)) with (@nil N) in H1. cbn [app] in H1.
  rewrite (pending_spec _ _ I), <- H1. unfold zfirstn, zskipn. rewrite firstn_skipn.
  split; [reflexivity|]. rewrite (hist_size_spec _ _ I). unfold wsp_hist. rewrite H3. reflexivity.
Qed.

(* ---- (b) invariants and the memory bound --------------------------------------------------- *)
Theorem dict_invariants size recycled ops st0 :
  size_ok size -> dd_init size recycled = Ok st0 -> proto st0 ops ->
  let st' := snd (dd_run st0 ops) in
  0 <= d_rd st' <= d_wr st' /\ d_wr st' <= d_len st' /\ d_len st' <= d_size st' /\
  d_len st' <= d_cap st' /\ (d_len st' < d_size st' -> d_cap st' = d_len st').
Proof.
  intros Hsz Hi Hp.
  destruct (dict_refines size recycled ops st0 Hsz Hi Hp) as [obs [st' [s' [Hr [_ I]]]]].
  rewrite Hr. cbn [snd].
  pose proof (i_rd _ _ I). pose proof (i_wr _ _ I). pose proof (i_len _ _ I).
  pose proof (i_caple _ _ I). pose proof (i_cap _ _ I). repeat split; try lia; assumption.
Qed.

Lemma run_mem ops : forall st s c0 obs st' s',
  Inv st s -> proto st ops -> no_reinit ops ->
  (d_cap st = c0 \/ d_cap st <= Z.min (d_size st) (4 * zlen (s_out s))) ->
  dd_run st ops = (map Ok obs, st') -> wsp_run s ops (map Ok obs) = Some s' ->
  d_size st' = d_size st /\
  (d_cap st' = c0 \/ d_cap st' <= Z.min (d_size st') (4 * zlen (s_out s'))).
Proof.
  induction ops as [|o r IH]; intros st s c0 obs st' s' I Hp Hni Hc Hrun Hspec.
  - cbn [dd_run] in Hrun. inversion Hrun; subst st'.
    destruct obs; [|discriminate]. cbn [wsp_run map] in Hspec. inversion Hspec; subst s'.
    split; [reflexivity|exact Hc].
  - cbn [proto] in Hp. destruct Hp as [Hpre Hrest].
    assert (Hno : not_init o) by (intros size E; subst o; exact Hni).
    assert (Hr : no_reinit r) by (destruct o; first [exact Hni|contradiction]).
    destruct (step_ok st s o I Hpre) as [ob [st1 [s1 [Hs [Hsp [I1 Hex]]]]]].
    destruct (Hex Hno) as [E1 [E2 [E3 E4]]].
    rewrite Hs in Hrest. cbn [dd_run] in Hrun. rewrite Hs in Hrun.
    destruct (dd_run st1 r) as [l fin] eqn:Hr1.
    inversion Hrun as [[Hl Hfin]]. subst fin.
    destruct obs as [|ob' obs]; [discriminate|]. cbn [map] in Hl. inversion Hl as [[Hob Hl']].
    subst ob' l. cbn [wsp_run map] in Hspec. rewrite Hsp in Hspec.
    destruct (IH st1 s1 c0 obs st' s' I1 Hrest Hr) as [F1 F2]; try assumption; try reflexivity.
    + rewrite E1. destruct Hc as [Hc|Hc]; destruct E4 as [E4|E4]; try lia.
    + split; [lia|exact F2].
Qed.

(* The buffer is never larger than what the recycled buffer already had, or four times the
   output produced so far (at least the initial 4096 when nothing was recycled), and never
   larger than the window: a short stream never allocates the full window. *)
Theorem dict_memory size recycled ops st0 obs st' :
  size_ok size -> dd_init size recycled = Ok st0 -> proto st0 ops -> no_reinit ops ->
  dd_run st0 ops = (map Ok obs, st') ->
  exists s', wsp_run (wsp_init size) ops (map Ok obs) = Some s' /\
    let c0 := match recycled with None => initSize | Some a => zlen a end in
    let total := zlen (s_out s') in
    d_cap st' <= Z.max c0 (Z.min size (4 * total)) /\
    d_len st' <= Z.max (Z.min c0 size) (Z.min size (4 * total)).
Proof.
  intros Hsz Hi Hp Hni Hrun.
  destruct (init_ok size recycled Hsz) as [st [Hi' [I [Hsize [Hcap _]]]]].
  rewrite Hi in Hi'. inversion Hi'; subst st.
  destruct (run_ok ops st0 (wsp_init size) I Hp) as [obs' [st'' [s' [Hr [Hs I']]]]].
  rewrite Hrun in Hr. inversion Hr as [[Hobs Hst]]. subst st''. rewrite <- Hobs in Hs.
  exists s'. split; [exact Hs|].
  destruct (run_mem ops st0 (wsp_init size) (d_cap st0) obs st' s' I Hp Hni) as [F1 F2];
    try assumption; [left; reflexivity|].
  pose proof (i_len _ _ I'). pose proof (i_caple _ _ I').
  cbv zeta. rewrite <- Hcap. rewrite F1, Hsize in *. lia.
Qed.

(* ---- (d) progress and TryWriteCopy ----------------------------------------------------------- *)
(* WriteCopy copies min(length, AvailSize) bytes: it returns 0 only when there is no room
   or nothing to copy *)
Theorem write_copy_progress st s dist length :
  Inv st s -> copy_pre st dist length ->
  exists st', write_copy st dist length = Ok (Z.min length (avail_size st), st') /\
              (Z.min length (avail_size st) = 0 -> length = 0 \/ avail_size st = 0).
Proof.
  intros I Hpre. destruct (write_copy_ok st s dist length I Hpre) as [st' [Hw _]].
  exists st'. split; [exact Hw|]. destruct Hpre as [_ [Hl _]]. lia.
Qed.

(* TryWriteCopy either declines (returns 0, state untouched) or does all of what WriteCopy
   does, returning length *)
Theorem try_write_copy_spec st s dist length :
  Inv st s -> copy_pre st dist length ->
  try_write_copy st dist length = Ok (0, st) \/
  exists st', try_write_copy st dist length = Ok (length, st') /\
              write_copy st dist length = Ok (length, st').
Proof.
  intros I Hpre. destruct (try_write_copy_ok st s dist length I Hpre) as [H|[st' [H1 [H2 _]]]];
    [left; exact H|right; exists st'; split; assumption].
Qed.

(* both hold in every state a protocol-respecting history can reach *)
Theorem dict_reachable_inv size recycled ops st0 :
  size_ok size -> dd_init size recycled = Ok st0 -> proto st0 ops ->
  exists s', Inv (snd (dd_run st0 ops)) s'.
Proof.
  intros Hsz Hi Hp.
  destruct (dict_refines size recycled ops st0 Hsz Hi Hp) as [obs [st' [s' [Hr [_ I]]]]].
  rewrite Hr. exists s'. exact I.
Qed.

(* after a ReadFlush there is room again (unless the recycled buffer was a non-nil slice of
   capacity 0, which the library never produces: then AvailSize stays 0 for ever) *)
Theorem read_flush_makes_room st s :
  Inv st s -> 1 <= d_len st ->
  exists l st', read_flush st = Ok (l, st') /\ 0 < avail_size st' /\ 1 <= d_len st'.
Proof.
  intros I Hl. destruct (read_flush_ok st s I) as [st' [Hr [_ [_ [H1 [H2 _]]]]]].
  eexists _, st'. split; [exact Hr|]. split; [auto|lia].
Qed.

(* ---- (c) the caller loop: independence of the recycled buffer ------------------------------- *)
Lemma inv_flushed st s : Inv st s -> 0 <= s_flushed s <= zlen (s_out s).
Proof.
  intros I. pose proof (inv_total _ _ I). pose proof (i_rd _ _ I). pose proof (i_fl _ _ I). lia.
Qed.

Lemma zfirstn_app_le {A} n (a b : list A) : n <= zlen a -> zfirstn n (a ++ b) = zfirstn n a.
Proof.
  intros H. unfold zfirstn, zlen in *. rewrite firstn_app.
  replace (Z.to_nat n - length a)%nat with O by lia. cbn [firstn]. apply app_nil_r.
Qed.

Lemma zfirstn_zskipn {A} n (l : list A) : zfirstn n l ++ zskipn n l = l.
Proof. apply firstn_skipn. Qed.

(* the accumulated output of the driver is what the specification says has been flushed *)
Definition acc_ok (s : wsp) (acc : list byte) : Prop := acc = zfirstn (s_flushed s) (s_out s).

Lemma acc_flush st s acc :
  Inv st s -> acc_ok s acc -> acc_ok (set_flushed s) (acc ++ zskipn (s_flushed s) (s_out s)).
Proof.
  intros I H. unfold acc_ok in *. subst acc. cbn [set_flushed s_flushed s_out].
  rewrite zfirstn_zskipn. symmetry. apply zfirstn_all. lia.
Qed.

Lemma acc_grow st s acc x :
  Inv st s -> acc_ok s acc -> acc_ok (set_out s (s_out s ++ x)) acc.
Proof.
  intros I H. unfold acc_ok in *. cbn [set_out s_flushed s_out].
  rewrite zfirstn_app_le by (apply (inv_flushed _ _ I)). exact H.
Qed.

Lemma acc_copy st s acc dist n :
  Inv st s -> acc_ok s acc -> acc_ok (set_out s (lz_copy (s_out s) dist n)) acc.
Proof.
  intros I H. destruct (lz_copy_spec n (s_out s) dist) as [e [He _]]. rewrite He.
  apply (acc_grow st); assumption.
Qed.

Definition dist_ok (s : wsp) (dist : Z) : Prop := 0 < dist <= Z.min (s_size s) (zlen (s_out s)).

Lemma drive_copy_ok fuel : forall st s dist cpyLen acc,
  Inv st s -> 1 <= d_len st -> dist_ok s dist -> 0 <= cpyLen -> d_size st + cpyLen < 2 ^ 63 ->
  acc_ok s acc ->
  (Z.to_nat cpyLen + (if Z.eqb (avail_size st) 0 then 2 else 1) <= fuel)%nat ->
  exists acc' st' s', drive_copy fuel st dist cpyLen acc = Ok (acc', st') /\
    Inv st' s' /\ 1 <= d_len st' /\ acc_ok s' acc' /\
    s_out s' = lz_copy (s_out s) dist (Z.to_nat cpyLen) /\ s_size s' = s_size s.
Proof.
  induction fuel as [|f IH]; intros st s dist cpyLen acc I Hlive Hd Hc Hov Hacc Hfuel.
  - destruct (avail_size st =? 0); lia.
  - assert (Hpre : copy_pre st dist cpyLen).
    { unfold copy_pre. rewrite (hist_size_spec _ _ I). unfold wsp_hist, dist_ok in *. lia. }
    destruct (write_copy_ok st s dist cpyLen I Hpre) as [st1 [Hw [I1 [E1 [E2 E3]]]]].
    set (k := Z.min cpyLen (avail_size st)) in *.
    pose proof (i_wr _ _ I) as Hwr.
    assert (Hk : 0 <= k <= cpyLen) by (unfold k, avail_size; lia).
    (* TryWriteCopy then WriteCopy: in both cases the result of WriteCopy *)
    assert (Hround : dbind (try_write_copy st dist cpyLen) (fun r1 =>
              if fst r1 =? 0 then write_copy (snd r1) dist cpyLen else Ok r1) = Ok (k, st1)).
    { destruct (try_write_copy_ok st s dist cpyLen I Hpre) as [Ht|[st' [Ht [Hw' Hl]]]].
      - rewrite Ht. cbn [dbind fst snd]. rewrite Z.eqb_refl. exact Hw.
      - rewrite Ht. cbn [dbind fst snd]. destruct (Z.eqb_spec cpyLen 0); [lia|].
        rewrite Hw in Hw'. inversion Hw' as [[Hk' Hst]]. rewrite Hk'. reflexivity. }
    cbn [drive_copy].
    assert (Hshape : forall (A B C : Type) (r : dres A) (g : A -> dres B) (h : B -> dres C),
              dbind r (fun a => dbind (g a) h) = dbind (dbind r g) h).
    { intros A B C r g h. destruct r; reflexivity. }
    rewrite Hshape, Hround. cbn [dbind fst snd].
    destruct (Z.ltb_spec 0 (cpyLen - k)) as [Hmore|Hdone].
    + destruct (read_flush_ok st1 _ I1) as [st2 [Hr [I2 [F1 [F2 [F3 _]]]]]].
      rewrite Hr. cbn [dbind fst snd].
      assert (Hav : 0 < avail_size st2) by (apply F3; lia).
      destruct (Z.leb_spec (avail_size st2) 0); [lia|].
      destruct (IH st2 _ dist (cpyLen - k) (acc ++ zskipn (s_flushed s) (lz_copy (s_out s) dist (Z.to_nat k))) I2)
        as [acc' [st' [s' [Hd' [I' [Hl' [Ha' [Ho' Hs']]]]]]]]; try lia.
      * unfold dist_ok in *. cbn [set_flushed set_out s_size s_out]. rewrite lz_copy_len. lia.
      * apply (acc_flush st1 _ _ I1). apply (acc_copy st); assumption.
      * destruct (Z.eqb_spec (avail_size st2) 0); [lia|].
        destruct (Z.eqb_spec (avail_size st) 0) as [Hz|Hnz].
        -- lia.
        -- unfold k, avail_size in *. lia.
      * exists acc', st', s'. split; [exact Hd'|]. split; [exact I'|]. split; [exact Hl'|].
        split; [exact Ha'|]. rewrite Ho', Hs'. cbn [set_flushed set_out s_out s_size].
        split; [|reflexivity]. rewrite <- lz_copy_plus. f_equal. lia.
    + assert (k = cpyLen) by lia.
      exists acc, st1. eexists. split; [reflexivity|]. split; [exact I1|]. split; [lia|].
      split; [apply (acc_copy st); assumption|]. cbn [set_out s_out s_size].
      split; [|reflexivity]. f_equal. lia.
Qed.

Lemma zskipn_nil_all {A} k (l : list A) : 0 <= k -> zskipn k l = [] -> zfirstn k l = l.
Proof.
  intros Hk H. rewrite <- (zfirstn_zskipn k l) at 2. rewrite H, app_nil_r. reflexivity.
Qed.

Lemma drive_raw_ok fuel : forall st s bs acc,
  Inv st s -> 1 <= d_len st -> acc_ok s acc ->
  (length bs + (if Z.eqb (avail_size st) 0 then 2 else 1) <= fuel)%nat ->
  exists acc' st' s', drive_raw fuel st bs acc = Ok (acc', st') /\
    Inv st' s' /\ 1 <= d_len st' /\ acc_ok s' acc' /\ s_out s' = s_out s ++ bs /\
    s_size s' = s_size s.
Proof.
  induction fuel as [|f IH]; intros st s bs acc I Hlive Hacc Hfuel.
  - destruct (avail_size st =? 0); lia.
  - cbn [drive_raw]. pose proof (i_wr _ _ I) as Hwr. pose proof (zlen_nonneg bs) as Hbs.
    set (k := Z.min (avail_size st) (zlen bs)).
    assert (Hk : 0 <= k <= zlen bs /\ k <= avail_size st) by (unfold k, avail_size; lia).
    assert (Hkl : zlen (zfirstn k bs) = k) by (apply zlen_zfirstn; lia).
    destruct (write_raw_ok st s (zfirstn k bs) I) as [st1 [Hw [I1 [E1 [E2 E3]]]]]; [lia|].
    rewrite Hw. cbn [dbind fst snd].
    destruct (zskipn k bs) as [|x rest] eqn:Hrest.
    + exists acc, st1. eexists. split; [reflexivity|]. split; [exact I1|]. split; [lia|].
      split; [apply (acc_grow st); assumption|]. cbn [set_out s_out s_size].
      rewrite (zskipn_nil_all k bs) by (try assumption; lia). split; reflexivity.
    + destruct (read_flush_ok st1 _ I1) as [st2 [Hr [I2 [F1 [F2 [F3 _]]]]]].
      rewrite Hr. cbn [dbind fst snd].
      assert (Hav : 0 < avail_size st2) by (apply F3; lia).
      destruct (Z.leb_spec (avail_size st2) 0); [lia|].
      assert (Hlr : zlen (x :: rest) = zlen bs - k).
      { rewrite <- Hrest. apply zlen_zskipn. lia. }
      destruct (IH st2 _ (x :: rest) (acc ++ zskipn (s_flushed s) (s_out s ++ zfirstn k bs)) I2)
        as [acc' [st' [s' [Hd' [I' [Hl' [Ha' [Ho' Hs']]]]]]]]; try lia.
      * apply (acc_flush st1 _ _ I1). apply (acc_grow st); assumption.
      * destruct (Z.eqb_spec (avail_size st2) 0); [lia|].
        unfold zlen in Hlr.
        destruct (Z.eqb_spec (avail_size st) 0) as [Hz|Hnz]; [lia|].
        assert (1 <= k) by (unfold k; pose proof (zlen_cons x rest); pose proof (zlen_nonneg rest);
                            unfold zlen in *; lia).
        unfold zlen in *. lia.
      * exists acc', st', s'. split; [exact Hd'|]. split; [exact I'|]. split; [exact Hl'|].
        split; [exact Ha'|]. rewrite Ho', Hs'. cbn [set_flushed set_out s_out s_size].
        rewrite <- Hrest, <- app_assoc, zfirstn_zskipn. split; reflexivity.
Qed.

Lemma drive_cmd_ok st s c acc :
  Inv st s -> 1 <= d_len st -> acc_ok s acc ->
  match c with
  | CCopy dist length => dist_ok s dist /\ 0 <= length /\ d_size st + length < 2 ^ 63
  | _ => True
  end ->
  exists acc' st' s', drive_cmd st c acc = Ok (acc', st') /\
    Inv st' s' /\ 1 <= d_len st' /\ acc_ok s' acc' /\ s_out s' = lz_cmd (s_out s) c /\
    s_size s' = s_size s /\ d_size st' = d_size st.
Proof.
  intros I Hlive Hacc Hc. destruct c as [b|dist length|bs]; cbn [drive_cmd lz_cmd].
  - destruct (Z.eqb_spec (avail_size st) 0) as [Hz|Hnz].
    + destruct (read_flush_ok st s I) as [st1 [Hr [I1 [F1 [F2 [F3 _]]]]]].
      rewrite Hr. cbn [dbind fst snd].
      assert (Hav : 0 < avail_size st1) by (apply F3; lia).
      destruct (Z.eqb_spec (avail_size st1) 0); [lia|].
      destruct (write_byte_ok st1 _ b I1 Hav) as [st2 [Hw [I2 [E1 [E2 E3]]]]].
      rewrite Hw. cbn [dbind]. eexists _, st2, _. split; [reflexivity|].
      split; [exact I2|]. split; [lia|]. split; [|split; [reflexivity|split; [reflexivity|lia]]].
      apply (acc_grow st1 _ _ _ I1). apply (acc_flush st); assumption.
    + cbn [dbind fst snd]. destruct (Z.eqb_spec (avail_size st) 0); [lia|].
      pose proof (i_wr _ _ I). assert (Hav : 0 < avail_size st) by (unfold avail_size in *; lia).
      destruct (write_byte_ok st s b I Hav) as [st2 [Hw [I2 [E1 [E2 E3]]]]].
      rewrite Hw. cbn [dbind]. rewrite app_nil_r. eexists _, st2, _. split; [reflexivity|].
      split; [exact I2|]. split; [lia|]. split; [|split; [reflexivity|split; [reflexivity|lia]]].
      apply (acc_grow st); assumption.
  - destruct Hc as [Hd [Hl Hov]].
    destruct (drive_copy_ok (Z.to_nat length + 2) st s dist length acc I Hlive Hd Hl Hov Hacc)
      as [acc' [st' [s' [Hd' [I' [Hl' [Ha' [Ho' Hs']]]]]]]].
    { destruct (avail_size st =? 0); lia. }
    exists acc', st', s'. split; [exact Hd'|]. split; [exact I'|]. split; [exact Hl'|].
    split; [exact Ha'|]. split; [exact Ho'|]. split; [exact Hs'|].
    rewrite <- (i_ssize _ _ I'), <- (i_ssize _ _ I). exact Hs'.
  - destruct (drive_raw_ok (length bs + 2) st s bs acc I Hlive Hacc)
      as [acc' [st' [s' [Hd' [I' [Hl' [Ha' [Ho' Hs']]]]]]]].
    { destruct (avail_size st =? 0); lia. }
    exists acc', st', s'. split; [exact Hd'|]. split; [exact I'|]. split; [exact Hl'|].
    split; [exact Ha'|]. split; [exact Ho'|]. split; [exact Hs'|].
    rewrite <- (i_ssize _ _ I'), <- (i_ssize _ _ I). exact Hs'.
Qed.

Lemma drive_ok cs : forall st s acc,
  Inv st s -> 1 <= d_len st -> acc_ok s acc -> cmds_ok (d_size st) (s_out s) cs ->
  exists st', drive st cs acc = Ok (fold_left lz_cmd cs (s_out s), st').
Proof.
  induction cs as [|c r IH]; intros st s acc I Hlive Hacc Hok.
  - cbn [drive fold_left]. destruct (read_flush_ok st s I) as [st1 [Hr _]].
    rewrite Hr. cbn [dbind fst snd]. exists st1. unfold acc_ok in Hacc. subst acc.
    rewrite zfirstn_zskipn. reflexivity.
  - cbn [cmds_ok] in Hok. destruct Hok as [Hc Hrest].
    destruct (drive_cmd_ok st s c acc I Hlive Hacc) as [acc' [st1 [s1 [Hd [I1 [Hl1 [Ha1 [Ho1 [Hs1 Hz1]]]]]]]]].
    { destruct c as [b|dist length|bs]; [exact Logic.I| |exact Logic.I]. unfold dist_ok.
      rewrite (i_ssize _ _ I). exact Hc. }
    cbn [drive fold_left]. rewrite Hd. cbn [dbind fst snd]. rewrite <- Ho1.
    apply (IH st1 s1 acc' I1 Hl1 Ha1). rewrite Hz1, Ho1. exact Hrest.
Qed.

(* (c) Driven the way flate.Reader drives it (ReadFlush when AvailSize is 0, TryWriteCopy then
   WriteCopy, flush and continue while a copy or a raw block is incomplete), the window
   delivers exactly the LZ77 decoding of the command sequence: for every window size and
   every recycled buffer with at least one byte of capacity (or nil), without any failure. *)
Theorem drive_correct size recycled cs :
  size_ok size -> recycled <> Some [] -> cmds_ok size [] cs ->
  exists st0 st', dd_init size recycled = Ok st0 /\ drive st0 cs [] = Ok (lz_decode cs, st').
Proof.
  intros Hsz Hrec Hok. destruct (init_ok size recycled Hsz) as [st0 [Hi [I [Hs [_ Hl]]]]].
  destruct (drive_ok cs st0 (wsp_init size) [] I (Hl Hrec)) as [st' Hd].
  - reflexivity.
  - rewrite Hs. exact Hok.
  - exists st0, st'. split; [exact Hi|exact Hd].
Qed.

(* Reset equals fresh: the delivered bytes do not depend on the contents or the capacity of
   the recycled buffer *)
Corollary recycled_irrelevant size rec1 rec2 cs st1 st2 r1 r2 :
  size_ok size -> rec1 <> Some [] -> rec2 <> Some [] -> cmds_ok size [] cs ->
  dd_init size rec1 = Ok st1 -> dd_init size rec2 = Ok st2 ->
  drive st1 cs [] = r1 -> drive st2 cs [] = r2 ->
  exists f1 f2, r1 = Ok (lz_decode cs, f1) /\ r2 = Ok (lz_decode cs, f2).
Proof.
  intros Hsz H1 H2 Hok Hi1 Hi2 Hr1 Hr2.
  destruct (drive_correct size rec1 cs Hsz H1 Hok) as [a [f1 [Ha Hd1]]].
  destruct (drive_correct size rec2 cs Hsz H2 Hok) as [b [f2 [Hb Hd2]]].
  rewrite Hi1 in Ha. rewrite Hi2 in Hb. inversion Ha; inversion Hb; subst a b.
  exists f1, f2. rewrite <- Hr1, <- Hr2. split; assumption.
Qed.

(* the same holds when the window is re-initialised in the middle of its life (Reader.Reset):
   what was in the buffer before does not matter *)
Corollary reset_equals_fresh size0 size rec0 pre st0 fin cs :
  size_ok size0 -> dd_init size0 rec0 = Ok st0 -> proto st0 pre -> snd (dd_run st0 pre) = fin ->
  size_ok size -> 1 <= d_cap fin -> cmds_ok size [] cs ->
  exists st1 st', dd_init size (Some (d_arr fin)) = Ok st1 /\
                  drive st1 cs [] = Ok (lz_decode cs, st').
Proof.
  intros _ _ _ _ Hsz Hcap Hok. apply drive_correct; try assumption.
  intros E. inversion E as [E']. unfold d_cap in Hcap. rewrite E' in Hcap. znil. lia.
Qed.

(* ---- outside the protocol the stale buffer leaks ---------------------------------------------- *)
(* a distance beyond the history (which the Reader rejects as corrupted input before it reaches
   the window): the bytes delivered are whatever the recycled buffer contained *)
Example stale_leak :
  let ops := [OpWriteByte 1%N; OpWriteCopy 3 1; OpReadFlush] in
  dd_run_from 4 (Some [7; 7; 7; 7]%N) ops = [Ok OUnit; Ok OUnit; Ok (OCnt 1); Ok (OBytes [1; 7]%N)] /\
  dd_run_from 4 (Some [9; 9; 9; 9]%N) ops = [Ok OUnit; Ok OUnit; Ok (OCnt 1); Ok (OBytes [1; 9]%N)].
Proof. split; reflexivity. Qed.

(* ... and the explicit failure outcomes are reachable: no room, negative length, distance 0 *)
Example panic_no_room :
  dd_run_from 1 None [OpWriteByte 1%N; OpWriteByte 2%N] = [Ok OUnit; Ok OUnit; Panic].
Proof. reflexivity. Qed.

Example panic_negative_length :
  dd_run_from 8 None [OpWriteByte 1%N; OpTryWriteCopy 1 (-1)] = [Ok OUnit; Ok OUnit; Panic].
Proof. reflexivity. Qed.

Example hang_distance_zero :
  dd_run_from 8 None [OpWriteByte 1%N; OpWriteCopy 0 2] = [Ok OUnit; Ok OUnit; Hang].
Proof. reflexivity. Qed.

(* a non-nil recycled slice of capacity 0 (never produced by the library): the window stays
   empty for ever and the caller loop cannot make progress *)
Example zero_capacity_stuck :
  dd_run_from 8 (Some []) [OpAvailSize; OpReadFlush; OpAvailSize; OpReadFlush; OpAvailSize] =
    [Ok OUnit; Ok (OCnt 0); Ok (OBytes []); Ok (OCnt 0); Ok (OBytes []); Ok (OCnt 0)] /\
  (exists st0, dd_init 8 (Some []) = Ok st0 /\ drive st0 [CLit 1%N] [] = Hang).
Proof. split; [reflexivity|]. eexists. split; reflexivity. Qed.

(* ---- the model's own loop budget is never the outcome, in or outside the protocol ------------ *)
Lemma go_copy_cases a dlo dhi slo shi :
  (exists n a', go_copy a dlo dhi slo shi = Ok (n, a') /\ 0 <= n) \/ go_copy a dlo dhi slo shi = Panic.
Proof.
  unfold go_copy.
  destruct (slice_ok (zlen a) dlo dhi && slice_ok (zlen a) slo shi) eqn:E; [left|right; reflexivity].
  eexists _, _. split; [reflexivity|]. unfold slice_ok in E. lia.
Qed.

Lemma copy_loop_nofuel f : forall a rd w we,
  (Z.to_nat (we - w) <= f)%nat -> copy_loop f a rd w we <> Fuel.
Proof.
  induction f as [|f IH]; intros a rd w we Hf; cbn [copy_loop];
    destruct (Z.ltb_spec w we) as [Hlt|Hge]; try lia; try discriminate.
  destruct (go_copy_cases a w we rd w) as [[n [a' [G Hn]]]|G]; rewrite G; [|discriminate].
  destruct (Z.eqb_spec n 0); [discriminate|]. apply IH. lia.
Qed.

Theorem step_never_fuel st o : dd_step st o <> Fuel.
Proof.
  destruct o as [size|c|dist length|dist length|bs| | |]; cbn [dd_step]; try discriminate.
  - unfold dd_init. destruct (size <? zlen (d_arr st)); [destruct (slice_ok _ _ _)|]; discriminate.
  - unfold write_byte. destruct ((0 <=? d_wr st) && (d_wr st <? d_len st)); discriminate.
  - unfold write_copy.
    set (wrEnd := if d_len st <? wrap_int (d_wr st + length) then d_len st else wrap_int (d_wr st + length)).
    destruct (wrap_int (d_wr st - dist) <? 0).
    + destruct (slice_ok (d_len st) (wrap_int (wrap_int (d_wr st - dist) + d_len st)) (d_len st));
        [|discriminate].
      destruct (go_copy_cases (d_arr st) (d_wr st) wrEnd
                 (wrap_int (wrap_int (d_wr st - dist) + d_len st)) (d_len st)) as [[n [a' [G Hn]]]|G];
        rewrite G; [|discriminate].
      pose proof (copy_loop_nofuel (loop_fuel (d_wr st + n) wrEnd) a' 0 (d_wr st + n) wrEnd) as NF.
      destruct (copy_loop _ a' 0 (d_wr st + n) wrEnd) as [[a2 w2]| | |]; try discriminate.
      exfalso. apply NF; [unfold loop_fuel; lia|reflexivity].
    + pose proof (copy_loop_nofuel (loop_fuel (d_wr st) wrEnd) (d_arr st)
                    (wrap_int (d_wr st - dist)) (d_wr st) wrEnd) as NF.
      destruct (copy_loop _ (d_arr st) _ (d_wr st) wrEnd) as [[a2 w2]| | |]; try discriminate.
      exfalso. apply NF; [unfold loop_fuel; lia|reflexivity].
  - unfold try_write_copy.
    destruct ((d_wr st <? dist) || (d_len st <? wrap_int (d_wr st + length))); [discriminate|].
    destruct (go_copy_cases (d_arr st) (d_wr st) (wrap_int (d_wr st + length))
               (wrap_int (d_wr st - dist)) (d_wr st)) as [[n [a' [G Hn]]]|G]; rewrite G; [|discriminate].
    destruct ((d_wr st + n <? wrap_int (d_wr st + length)) && (n =? 0)); [discriminate|].
    pose proof (copy_loop_nofuel (loop_fuel (d_wr st + n) (wrap_int (d_wr st + length))) a'
                  (wrap_int (d_wr st - dist)) (d_wr st + n) (wrap_int (d_wr st + length))) as NF.
    destruct (copy_loop _ a' _ (d_wr st + n) _) as [[a2 w2]| | |]; try discriminate.
    exfalso. apply NF; [unfold loop_fuel; lia|reflexivity].
  - unfold write_raw. destruct (slice_ok _ _ _); discriminate.
  - unfold read_flush. destruct (slice_ok _ _ _); [|discriminate].
    destruct (d_wr st =? d_len st); [|discriminate].
    destruct (d_len st =? d_size st); [discriminate|].
    cbv zeta.
    destruct ((if d_size st <? wrap_int (d_cap st * growFactor) then d_size st
               else wrap_int (d_cap st * growFactor)) <? 0); discriminate.
Qed.

(* ---- the hypotheses are satisfiable: concrete non-trivial instances ---------------------------- *)
(* window of 8 over a recycled buffer of capacity 2 holding garbage: the buffer grows 2 -> 8,
   wraps, and copies overlap (length > dist) and cross the end of the buffer *)
Definition ex_ops : list dop :=
  [OpWriteByte 1%N; OpWriteByte 2%N; OpAvailSize; OpReadFlush; OpTryWriteCopy 2 5;
   OpWriteCopy 1 4; OpReadFlush; OpHistSize; OpWriteCopy 8 3; OpWriteRaw [5; 6]%N;
   OpTryWriteCopy 7 3; OpWriteCopy 7 9; OpReadFlush; OpWriteCopy 3 2; OpReadFlush;
   OpInit 3; OpWriteByte 9%N; OpWriteCopy 1 7; OpReadFlush].

Example ex_size_ok : size_ok 8.
Proof. unfold size_ok. lia. Qed.

Example ex_proto :
  exists st0, dd_init 8 (Some [200; 201]%N) = Ok st0 /\ proto st0 ex_ops.
Proof.
  eexists. split; [reflexivity|]. vm_compute.
  repeat match goal with
  | |- _ /\ _ => split
  | |- True => exact Logic.I
  | |- _ = _ => reflexivity
  | |- _ -> False => let H := fresh in intro H; discriminate H
  end.
Qed.

Example ex_run :
  dd_run_from 8 (Some [200; 201]%N) ex_ops =
  map Ok [OUnit; OUnit; OUnit; OCnt 0; OBytes [1; 2]%N; OCnt 5; OCnt 1;
          OBytes [1; 2; 1; 2; 1; 1]%N; OCnt 8; OCnt 3; OCnt 2; OCnt 0; OCnt 3;
          OBytes [1; 2; 1; 5; 6; 1; 1; 1]%N; OCnt 2; OBytes [1; 1]%N; OUnit; OUnit; OCnt 2;
          OBytes [9; 9; 9]%N].
Proof. vm_compute. reflexivity. Qed.

Example ex_no_reinit : no_reinit (firstn 15 ex_ops).
Proof. cbn. exact Logic.I. Qed.

Example ex_cmds : cmds_ok 8 [] [CLit 1%N; CLit 2%N; CCopy 2 21; CRaw [7; 8; 9]%N; CCopy 8 3].
Proof.
  vm_compute.
  repeat match goal with
  | |- _ /\ _ => split
  | |- True => exact Logic.I
  | |- _ = _ => reflexivity
  | |- _ -> False => let H := fresh in intro H; discriminate H
  end.
Qed.

Example ex_drive :
  exists st0, dd_init 8 (Some [200; 201]%N) = Ok st0 /\
    match drive st0 [CLit 1%N; CLit 2%N; CCopy 2 21; CRaw [7; 8; 9]%N; CCopy 8 3] [] with
    | Ok (out, _) =>
      out = [1; 2; 1; 2; 1; 2; 1; 2; 1; 2; 1; 2; 1; 2; 1; 2; 1; 2; 1; 2; 1; 2; 1; 7; 8; 9; 1; 2; 1]%N
    | _ => False
    end.
Proof. eexists. split; [reflexivity|]. vm_compute. reflexivity. Qed.

Example ex_copy_pre :
  exists st s, Inv st s /\ copy_pre st 2 5 /\ 0 < avail_size st.
Proof.
  destruct (init_ok 8 (Some [200; 201]%N) ex_size_ok) as [st0 [Hi [I _]]].
  cbv in Hi. inversion Hi; subst st0.
  destruct (write_byte_ok _ _ 1%N I) as [st1 [H1 [I1 _]]]; [cbv; reflexivity|].
  cbv in H1. inversion H1; subst st1.
  destruct (write_byte_ok _ _ 2%N I1) as [st2 [H2 [I2 _]]]; [cbv; reflexivity|].
  cbv in H2. inversion H2; subst st2.
  destruct (read_flush_ok _ _ I2) as [st3 [H3 [I3 _]]].
  cbv in H3. inversion H3; subst st3.
  eexists _, _. split; [exact I3|]. split; cbv; repeat split; intros; discriminate.
Qed.

Print Assumptions dict_refines.
Print Assumptions dict_check_spec.
Print Assumptions dict_delivers.
Print Assumptions dict_invariants.
Print Assumptions dict_memory.
Print Assumptions write_copy_progress.
Print Assumptions try_write_copy_spec.
Print Assumptions read_flush_makes_room.
Print Assumptions drive_correct.
Print Assumptions recycled_irrelevant.
Print Assumptions reset_equals_fresh.
Print Assumptions step_never_fuel.
Print Assumptions stale_leak.
