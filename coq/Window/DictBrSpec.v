(* Specification of brotli's sliding window (model: Window/DictBr.v): the abstract state and
   the operations shared with flate's window are those of Window/DictSpec.v; LastBytes
   reports the last two bytes of the output, zero when they do not exist. *)
From V Require Import Base.Prelude Window.Dict Window.DictSpec Window.DictBr.
Local Open Scope Z_scope.

(* the k-th byte from the end of the output (k = 1: the last one), 0 if there is none *)
Definition last_byte (out : list byte) (k : Z) : byte :=
  if k <=? zlen out then znth out (zlen out - k) else 0%N.

Definition bsp_step (s : wsp) (o : bop) (ob : dobs) : option wsp :=
  match o with
  | BInit size => match ob with OUnit => Some (wsp_init size) | _ => None end
  | BLastBytes =>
    match ob with
    | OBytes [p1; p2] =>
      if (p1 =? last_byte (s_out s) 1)%N && (p2 =? last_byte (s_out s) 2)%N then Some s else None
    | _ => None
    end
  | _ => match to_dop o with Some d => wsp_step s d ob | None => None end
  end.

Fixpoint bsp_run (s : wsp) (ops : list bop) (obs : list (dres dobs)) : option wsp :=
  match ops, obs with
  | [], [] => Some s
  | o :: r, Ok ob :: robs =>
    match bsp_step s o ob with
    | Some s' => bsp_run s' r robs
    | None => None
    end
  | _, _ => None
  end.

(* The caller protocol. LastBytes reads hist[len-1], hist[len-2]: the buffer must have two
   bytes, which holds when the window size is at least 2 and the recycled buffer is nil or
   has capacity at least 2 (brotli's sizes are (1 << wbits) - 16 >= 1008, its buffers come
   from make(4096) or larger). *)
Definition bsize_ok (size : Z) : Prop := size_ok size /\ 2 <= size.

Definition recycled_ok (recycled : option (list byte)) : Prop :=
  match recycled with None => True | Some a => 2 <= zlen a end.

Definition br_pre (st : dd) (o : bop) : Prop :=
  match o with
  | BInit size => bsize_ok size
  | BLastBytes => True
  | _ => match to_dop o with Some d => op_pre st d | None => True end
  end.

Fixpoint br_proto (st : dd) (ops : list bop) : Prop :=
  match ops with
  | [] => True
  | o :: r =>
    br_pre st o /\
    match br_step st o with
    | Ok (_, st') => br_proto st' r
    | _ => True
    end
  end.

Fixpoint br_no_reinit (ops : list bop) : Prop :=
  match ops with
  | [] => True
  | BInit _ :: _ => False
  | _ :: r => br_no_reinit r
  end.
