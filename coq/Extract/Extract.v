(* Extraction of the executable models. ExtrOcamlBasic only: bool, option,
   list, prod, unit, sumbool map to OCaml's own; N, Z, positive, nat stay as
   extracted inductives so 2^64 arithmetic is exact. No Extract Constant. *)
From Coq Require Import ExtrOcamlBasic.
From V Require Import Base.Prelude Base.Prog Meta.Model Flate.Spec XFlate.Index XFlate.Writer XFlate.Reader Bzip2.Common Bzip2.SpecR Bzip2.SpecW Brotli.Tables Brotli.Spec Life.Writers XFlate.C15 Prefix.Code XFlate.Refine XFlate.RefineCheck Prefix.ReaderImpl Prefix.ReaderSpec Prefix.ReaderImplX Prefix.WriterImpl XFlate.RoundTripStmt Window.Dict Window.DictSpec Window.DictBr Prefix.DecTable Prefix.Range Bzip2.Degenerate Brotli.BitReaderImpl Brotli.BitReaderSpec Brotli.PrefixDecoderImpl Flate.Impl Flate.ImplLife Bzip2.WriterImpl Meta.WriterImpl Bzip2.Impl Meta.ReaderImpl Bzip2.ImplLife XFlate.WriterReset XFlate.ReaderReset Brotli.Impl.
Extraction Language OCaml.
Extraction "model.ml"
  meta_encode meta_decode reverse_search computeHuffLen encode_block
  inflate
  XFlate.Writer.new_writer XFlate.Writer.wrun XFlate.Writer.w_sink XFlate.Writer.w_in XFlate.Writer.w_out
  XFlate.Reader.open_reader XFlate.Reader.rrun XFlate.Reader.r_log XFlate.Reader.r_recs
  crc32 put_uvarint uvarint search get_records
  bzip2_decode bzip2_encode
  brotli_decode
  Life.Writers.wcalls Life.Writers.lw_init
  c15_class accepted_content
  gen_lengths gen_prefixes
  honest_stream XFlate.Refine.sp_run XFlate.Refine.mkSp
  Prefix.ReaderImpl.init Prefix.ReaderImpl.prun Prefix.ReaderSpec.check_model Prefix.ReaderImplX.xrun
  Prefix.WriterImpl.winit Prefix.WriterImpl.bwrun Prefix.WriterImpl.wsink_data
  XFlate.RoundTripStmt.nonfinal_blocks XFlate.Reader.is_sync
  Window.Dict.dd_init Window.Dict.dd_run Window.Dict.dd_run_from Window.Dict.d_cap Window.DictSpec.check_spec
  Window.DictBr.br_init Window.DictBr.br_run
  Prefix.DecTable.dec_init Prefix.DecTable.dec_dump Prefix.DecTable.dec_lookup Prefix.DecTable.dt_run
  Prefix.DecTable.enc_init Prefix.DecTable.enc_dump Prefix.DecTable.enc_lookup Prefix.DecTable.enc_syms
  bits_to_bytes Prefix.ReaderImpl.rev8
  Prefix.Range.make_range_codes Prefix.Range.check_valid Prefix.Range.rcs_base Prefix.Range.rcs_end
  Prefix.Range.re_init Prefix.Range.re_encode Prefix.Range.lut_dump Prefix.Range.write_offset Prefix.Range.read_offset
  Bzip2.Degenerate.handle_degenerate Bzip2.Degenerate.build_codes
  Brotli.BitReaderImpl.binit Brotli.BitReaderImpl.brun Brotli.BitReaderSpec.bcheck_model
  Brotli.PrefixDecoderImpl.br_dec_init Brotli.PrefixDecoderImpl.bd_run
  Flate.Impl.fl_new Flate.Impl.fl_reset Flate.Impl.fl_read Flate.Impl.fl_run
  Flate.ImplLife.fl_close Flate.ImplLife.fl_op Flate.ImplLife.fl_ops Flate.ImplLife.fl_life
  Bzip2.WriterImpl.zrun_new Meta.WriterImpl.mrun_new
  Bzip2.Impl.bz_new Bzip2.Impl.bz_reset Bzip2.Impl.bz_read Bzip2.Impl.bz_run
  Meta.ReaderImpl.mr_new Meta.ReaderImpl.mr_run Meta.ReaderImpl.mr_step Meta.ReaderImpl.observe
  Bzip2.ImplLife.bz_close Bzip2.ImplLife.bz_op Bzip2.ImplLife.bz_ops Bzip2.ImplLife.bz_life
  XFlate.WriterReset.xwr_start XFlate.WriterReset.ws_step XFlate.WriterReset.ws_run XFlate.WriterReset.ws_step_keepback XFlate.WriterReset.ws_run_keepback
  XFlate.ReaderReset.rs_step XFlate.ReaderReset.rs_run XFlate.ReaderReset.new_reader
  Brotli.Impl.br_new Brotli.Impl.br_reset Brotli.Impl.br_reads Brotli.Impl.br_read Brotli.Impl.br_close.
