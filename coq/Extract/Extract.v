(* Extraction of the executable models. ExtrOcamlBasic only: bool, option,
   list, prod, unit, sumbool map to OCaml's own; N, Z, positive, nat stay as
   extracted inductives so 2^64 arithmetic is exact. No Extract Constant. *)
From Coq Require Import ExtrOcamlBasic.
From V Require Import Base.Prelude Base.Prog Meta.Model Flate.Spec.
Extraction Language OCaml.
Extraction "model.ml"
  meta_encode meta_decode reverse_search computeHuffLen encode_block
  inflate.
