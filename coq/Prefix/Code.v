(* internal/prefix: GenerateLengths (any length limit) and GeneratePrefixes.
   GenerateLengths is the two-queue Huffman construction followed by the
   "treeRotate" length limiting on a uint32 histogram, as in prefix.go (the
   model generalises Bzip2.SpecW.generate_lengths, which fixes the limit at
   20 bits and was validated byte for byte against bzip2.Writer). *)
From V Require Import Base.Prelude Bzip2.Common Bzip2.SpecW.

Inductive glres :=
| GLOk (lens : list (N * N))      (* (symbol, length) in input order *)
| GLInvalid                        (* counts not ascending *)
| GLPanic.                         (* run-time panic of the Go code *)

Fixpoint ascending (l : list (N * N)) (last : N) : bool :=
  match l with
  | [] => true
  | (c, _) :: r => (last <=? c) && ascending r c
  end.

(* treeRotate with the index check of the Go slice made explicit: None when
   nb-1 would be negative *)
Fixpoint tree_rotate_g (nb : nat) (sb : nmap N) : option (nmap N) :=
  match nb with
  | O => None
  | S nb1 =>
    let osb := if sb_get sb (N.of_nat nb1) =? 0
               then (match nb1 with O => None | _ => tree_rotate_g nb1 sb end) else Some sb in
    match osb with
    | None => None
    | Some sb =>
      let sb := sb_sub sb (N.of_nat nb1) 1 in
      let sb := sb_add sb (N.of_nat nb) 3 in
      Some (sb_sub sb (N.of_nat nb + 1) 2)
    end
  end.

Fixpoint rotate_level_g (fuel : nat) (i : nat) (sb : nmap N) : option (nmap N) :=
  match fuel with
  | O => Some sb
  | S f =>
    if 0 <? sb_get sb (N.of_nat i) then
      match tree_rotate_g (i - 1) sb with
      | None => None
      | Some sb' => rotate_level_g f i sb'
      end
    else Some sb
  end.

Fixpoint rotate_all_g (maxBits : nat) (levels : nat) (ncodes : nat) (sb : nmap N) : option (nmap N) :=
  match levels with
  | O => Some sb
  | S l =>
    let i := (maxBits + levels)%nat in
    match rotate_level_g ncodes i sb with
    | None => None
    | Some sb' => rotate_all_g maxBits l ncodes sb'
    end
  end.

(* the Huffman construction with node weights on uint32 (sums wrap, as in
   the Go code; irrelevant when the counts add up to less than 2^32) *)
Fixpoint huff_build_g (fuel : nat) (freqs : list (N * N)) (queue : list (N * hnode)) : option hnode :=
  match fuel with
  | O => None
  | S f =>
    match freqs, queue with
    | [], [(_, root)] => Some root
    | _, _ =>
      match take_min freqs queue with
      | None => None
      | Some (c0, n0, freqs1, queue1) =>
        match take_min freqs1 queue1 with
        | None => None
        | Some (c1, n1, freqs2, queue2) =>
          huff_build_g f freqs2 (queue2 ++ [(u32 (c0 + c1), HNode n0 n1)])
        end
      end
    end
  end.

Definition gen_lengths (maxBits : N) (codes : list (N * N)) : glres :=
  match codes with
  | [] => GLOk []
  | [(c, s)] => GLOk [(s, 0)]
  | (c0, _) :: _ =>
    if negb (ascending codes c0) then GLInvalid else
    let ncodes := length codes in
    match huff_build_g (S ncodes) codes [] with
    | None => GLPanic
    | Some root =>
      let depths := huff_depths root 0 [] in
      let dm := fold_left (fun m sd => nm_set m (fst sd) (snd sd)) depths nm_empty in
      let maxd := fold_left (fun m sd => N.max m (snd sd)) depths 0 in
      if maxd <=? maxBits then GLOk (map (fun cs => (snd cs, nm_getd dm (snd cs) 0)) codes)
      else
        let top := N.max 27 maxd in
        let sb := fold_left (fun m sd => sb_add m (snd sd) 1) depths nm_empty in
        match rotate_all_g (N.to_nat maxBits) (N.to_nat (top - maxBits)) (2 * S ncodes) sb with
        | None => GLPanic
        | Some sb =>
          let lens := lens_of_hist sb top in
          if negb (Nat.eqb (length lens) ncodes) then GLPanic
          else GLOk (fast_rev (combine (map snd (fast_rev codes)) lens))
        end
    end
  end.

(* ---- GeneratePrefixes --------------------------------------------------- *)
Inductive gpres := GPOk (codes : list (N * N * N)) | GPInvalid.   (* (sym, len, val-as-written-LSB-first) *)

Fixpoint strictly_increasing (l : list (N * N)) (last : option N) : bool :=
  match l with
  | [] => true
  | (s, _) :: r => (match last with None => true | Some p => p <? s end) && strictly_increasing r (Some s)
  end.

(* reverse the low n bits of v *)
Definition reverse_bits (v : N) (n : N) : N := bits_val (fast_rev (val_bits (N.to_nat n) v)).

Definition gen_prefixes (codes : list (N * N)) : gpres :=   (* (symbol, length), sorted by symbol *)
  match codes with
  | [] => GPOk []
  | [(s, l)] => if l =? 0 then GPOk [(s, 0, 0)] else GPInvalid
  | _ =>
    if negb (strictly_increasing codes None) then GPInvalid else
    let lens := map snd codes in
    let minl := fold_left N.min lens 27 in
    let maxl := fold_left N.max lens 0 in
    if minl =? 0 then GPInvalid else
    let cnt l := N.of_nat (length (filter (N.eqb l) lens)) in
    (* nextCodes from minBits to maxBits *)
    let '(code, next) := fold_left
        (fun (st : N * nmap N) l => let c := 2 * fst st in (c + cnt l, nm_set (snd st) l c))
        (map (fun i => minl + i) (iota (maxl - minl + 1))) (0, nm_empty) in
    if negb (code =? 2 ^ maxl) then GPInvalid else
    GPOk (fst (fold_left
      (fun (st : list (N * N * N) * nmap N) sl =>
         let '(s, l) := sl in
         let c := nm_getd (snd st) l 0 in
         (fst st ++ [(s, l, reverse_bits c l)], nm_set (snd st) l (c + 1)))
      codes ([], next)))
  end.
