(* The two Debug checks of prefix.go (checkLengths, checkPrefixes; executable copies with Go's
   arithmetic in Prefix/DecTableSpec.v) imply validity, for code lists within the field ranges
   the package documents (1 <= Len <= 27, Val < 2^Len). *)
From V Require Import Base.Prelude Bzip2.Common Prefix.ReaderImpl Prefix.DecTable Prefix.DecTableSpec
  Prefix.DecTableThms.

Local Open Scope N_scope.
Local Ltac Zify.zify_post_hook ::= idtac.

Lemma combine_seq_in {A} (l : list A) : forall k i x,
  In (i, x) (combine (seq k (length l)) l) <-> (k <= i)%nat /\ nth_error l (i - k) = Some x.
Proof.
  induction l as [|y l IH]; intros k i x; cbn [length seq combine].
  - split; [intros [] | intros [_ H]; destruct (i - k)%nat; discriminate].
  - cbn [In]. rewrite IH. split.
    + intros [E|[H1 H2]].
      * inversion E; subst. split; [lia|]. rewrite Nat.sub_diag. reflexivity.
      * split; [lia|]. replace (i - k)%nat with (S (i - S k)) by lia. exact H2.
    + intros [H1 H2]. destruct (Nat.eq_dec i k) as [->|Hne].
      * left. rewrite Nat.sub_diag in H2. cbn [nth_error] in H2. inversion H2. reflexivity.
      * right. split; [lia|]. replace (i - k)%nat with (S (i - S k)) in H2 by lia. exact H2.
Qed.

Lemma go_mask len : len <= 31 -> w32 (w32 (N.shiftl 1 len) + (2 ^ 32 - 1)) = 2 ^ len - 1.
Proof.
  intros H. rewrite N.shiftl_1_l. unfold w32.
  assert (Hlt : 2 ^ len < 2 ^ 32) by (apply pow2_lt; lia).
  rewrite (N.mod_small (2 ^ len)) by exact Hlt.
  pose proof (pow2_pos len) as Hp.
  replace (2 ^ len + (2 ^ 32 - 1)) with ((2 ^ len - 1) + 1 * 2 ^ 32) by (change (2 ^ 32) with 4294967296 in *; lia).
  rewrite N.mod_add by discriminate. apply N.mod_small. lia.
Qed.

Theorem check_prefixes_sound codes :
  (forall c, In c codes -> c_len c <= 31 /\ c_val c < 2 ^ c_len c) ->
  check_prefixes codes = true -> prefix_free codes.
Proof.
  intros Hwf H i j ci cj Hi Hj Hne Hle E. unfold check_prefixes in H.
  rewrite forallb_forall in H.
  assert (Hinj : In (j, cj) (combine (seq 0 (length codes)) codes)).
  { apply combine_seq_in. split; [lia|]. rewrite Nat.sub_0_r. exact Hj. }
  assert (Hini : In (i, ci) (combine (seq 0 (length codes)) codes)).
  { apply combine_seq_in. split; [lia|]. rewrite Nat.sub_0_r. exact Hi. }
  specialize (H _ Hinj). rewrite forallb_forall in H. specialize (H _ Hini). cbn beta iota in H.
  apply negb_true_iff in H.
  replace (Nat.eqb j i) with false in H by (symmetry; apply Nat.eqb_neq; lia).
  replace (c_len cj <=? c_len ci) with true in H by (symmetry; apply N.leb_le; exact Hle).
  cbn [negb andb] in H. apply N.eqb_neq in H. apply H.
  destruct (Hwf cj (nth_error_In _ _ Hj)) as [Hl Hv].
  rewrite go_mask by exact Hl. rewrite !land_mask. rewrite E. apply N.mod_small. exact Hv.
Qed.

Theorem check_lengths_sound codes :
  (forall c, In c codes -> c_len c <= 27) -> codes <> [] ->
  check_lengths codes = true -> kraft_sum 27 codes = 2 ^ 27.
Proof.
  intros Hl Hne H. unfold check_lengths in H. apply orb_true_iff in H. destruct H as [H|H].
  - apply Z.eqb_eq in H.
    assert (Hs : fold_right (fun c acc => (Z.of_N (N.shiftr (2 ^ valueBits) (c_len c)) + acc)%Z) 0%Z codes
                 = Z.of_N (kraft_sum 27 codes)).
    { clear H Hne. induction codes as [|c r IH]; [reflexivity|]. cbn [fold_right kraft_sum].
      rewrite IH by (intros c0 H0; apply Hl; right; exact H0).
      rewrite N2Z.inj_add. f_equal. f_equal. unfold valueBits. rewrite N.shiftr_div_pow2.
      pose proof (Hl c (or_introl eq_refl)) as Hc.
      rewrite (pow2_split (c_len c) 27 Hc), N.mul_comm, N.div_mul by apply pow2_nz. reflexivity. }
    rewrite Hs in H. unfold valueBits in H. lia.
  - apply Nat.eqb_eq in H. destruct codes; [contradiction | discriminate].
Qed.

(* the Debug checks of Decoder.Init / Encoder.Init accept only valid code sets *)
Theorem go_checks_valid codes :
  (2 <= length codes)%nat ->
  (forall c, In c codes -> 1 <= c_len c <= 27 /\ c_val c < 2 ^ c_len c) ->
  check_lengths codes = true -> check_prefixes codes = true ->
  kraft_valid 27 codes /\ dec_valid 27 codes.
Proof.
  intros H2 Hwf Hcl Hcp.
  assert (HK : kraft_valid 27 codes).
  { split.
    - split; [exact H2 | intros c Hc; apply (Hwf c Hc) | intros c Hc; apply (Hwf c Hc)].
    - apply check_lengths_sound; [intros c Hc; apply (Hwf c Hc) | | exact Hcl].
      intros ->. cbn [length] in H2. lia.
    - apply check_prefixes_sound; [|exact Hcp].
      intros c Hc. destruct (Hwf c Hc) as [Hl Hv]. split; [lia | exact Hv]. }
  split; [exact HK | apply kraft_valid_dec_valid; exact HK].
Qed.

(* What is not proved: that the checks alone force 1 <= Len <= 27 (they do: a code longer than
   27 bits contributes 0 to checkLengths' sum, so the others are already complete and one of
   them is a prefix of it; a zero length makes its mask 0 and equal to everything). *)
Definition go_checks_force_lengths_statement : Prop :=
  forall codes, (2 <= length codes)%nat ->
    (forall c, In c codes -> c_len c < 2 ^ 32 /\ c_val c < 2 ^ 32) ->
    check_lengths codes = true -> check_prefixes codes = true ->
    forall c, In c codes -> 1 <= c_len c <= 27.

Example go_checks_valid_ex : kraft_valid 27 witness_codes /\ dec_valid 27 witness_codes.
Proof.
  apply go_checks_valid; try (vm_compute; reflexivity).
  - unfold witness_codes. cbn [length]. lia.
  - intros c Hc. unfold witness_codes in Hc. cbn [In] in Hc.
    destruct Hc as [<-|[<-|[<-|[<-|[<-|[]]]]]]; cbv [c_len c_val fst snd]; split; try lia; reflexivity.
Qed.

Print Assumptions go_checks_valid.
Print Assumptions go_checks_valid_ex.
