(* Theorems about the range coding helpers (model: Prefix/Range.v, spec: Prefix/RangeSpec.v). *)
From Coq Require Import ZifyBool ZifyN ZifyNat.
From V Require Import Base.Prelude Prefix.Range Prefix.RangeSpec.

Local Open Scope N_scope.

(* ---- checkValid <-> range_valid --------------------------------------------------------- *)
Fixpoint chain (pre : rcode) (rest : list rcode) : Prop :=
  match rest with
  | [] => True
  | cur :: r =>
    rc_base pre <= rc_base cur /\ rc_end pre <= rc_end cur /\ rc_base cur <= rc_end pre /\
    chain cur r
  end.

Lemma check_valid_loop_chain pre rest : check_valid_loop pre rest = true <-> chain pre rest.
Proof.
  revert pre; induction rest as [|cur r IH]; intros pre; cbn [check_valid_loop chain].
  - tauto.
  - destruct ((rc_base cur <? rc_base pre) || (rc_end cur <? rc_end pre) || (rc_end pre <? rc_base cur))
      eqn:E.
    + split; [discriminate | intros (H1 & H2 & H3 & _); lia].
    + rewrite IH. split; [intros H; repeat split; try lia; exact H | tauto].
Qed.

Lemma chain_nth pre rest :
  chain pre rest ->
  forall i, (S i < length (pre :: rest))%nat ->
    rbase (pre :: rest) i <= rbase (pre :: rest) (S i) /\
    rend (pre :: rest) i <= rend (pre :: rest) (S i) /\
    rbase (pre :: rest) (S i) <= rend (pre :: rest) i.
Proof.
  revert pre; induction rest as [|cur r IH]; intros pre Hc i Hi; cbn [length] in Hi; [lia|].
  cbn [chain] in Hc. destruct Hc as (H1 & H2 & H3 & Hc).
  destruct i as [|i].
  - unfold rbase, rend; cbn [nth]. lia.
  - specialize (IH cur Hc i). cbn [length] in IH.
    unfold rbase, rend in *; cbn [nth] in *. apply IH; lia.
Qed.

Lemma nth_chain pre rest :
  (forall i, (S i < length (pre :: rest))%nat ->
    rbase (pre :: rest) i <= rbase (pre :: rest) (S i) /\
    rend (pre :: rest) i <= rend (pre :: rest) (S i) /\
    rbase (pre :: rest) (S i) <= rend (pre :: rest) i) ->
  chain pre rest.
Proof.
  revert pre; induction rest as [|cur r IH]; intros pre H; cbn [chain]; [exact I|].
  pose proof (H O) as H0. cbn [length] in H0. unfold rbase, rend in H0; cbn [nth] in H0.
  destruct H0 as (H1 & H2 & H3); [lia|].
  repeat split; try assumption.
  apply IH. intros i Hi. specialize (H (S i)). cbn [length] in H, Hi.
  unfold rbase, rend in *; cbn [nth] in *. apply H; lia.
Qed.

Theorem check_valid_spec rcs : check_valid rcs = true <-> range_valid rcs.
Proof.
  unfold range_valid. destruct rcs as [|pre rest]; cbn [check_valid].
  - split; [discriminate | intros (H & _); congruence].
  - rewrite check_valid_loop_chain. split.
    + intros H; split; [discriminate | apply chain_nth; exact H].
    + intros (_ & H). apply nth_chain; exact H.
Qed.

(* bases and ends are non-decreasing along a valid set *)
Lemma valid_base_mono rcs :
  range_valid rcs -> forall i j, (i <= j < length rcs)%nat -> rbase rcs i <= rbase rcs j.
Proof.
  intros (_ & H) i j Hij. induction j as [|j IH].
  - assert (i = O) by lia; subst; lia.
  - destruct (Nat.eq_dec i (S j)) as [->|Hne]; [lia|].
    specialize (H j). transitivity (rbase rcs j); [apply IH; lia | apply H; lia].
Qed.

Lemma valid_end_mono rcs :
  range_valid rcs -> forall i j, (i <= j < length rcs)%nat -> rend rcs i <= rend rcs j.
Proof.
  intros (_ & H) i j Hij. induction j as [|j IH].
  - assert (i = O) by lia; subst; lia.
  - destruct (Nat.eq_dec i (S j)) as [->|Hne]; [lia|].
    specialize (H j). transitivity (rend rcs j); [apply IH; lia | apply H; lia].
Qed.

(* the last range whose Base is <= off holds off, for every off of the domain *)
Lemma last_le_holds rcs off s :
  range_valid rcs -> in_domain rcs off -> last_le rcs off s -> holds rcs s off.
Proof.
  intros Hv (Hlo & Hhi) (Hs & Hb & Hlast). split; [exact Hb|].
  destruct (Nat.eq_dec (S s) (length rcs)) as [E|E].
  - replace s with (length rcs - 1)%nat by lia. exact Hhi.
  - destruct Hv as (_ & Hv). specialize (Hv s). specialize (Hlast (S s)). lia.
Qed.

Lemma last_le_unique rcs off s t : last_le rcs off s -> last_le rcs off t -> s = t.
Proof.
  intros (Hs & Hb & Hl) (Ht & Hb' & Hl').
  destruct (Nat.lt_trichotomy s t) as [H|[H|H]]; [|exact H|].
  - specialize (Hl t). lia.
  - specialize (Hl' s). lia.
Qed.

(* a range that holds an offset has no uint32 wrap-around and its extra bits suffice *)
Lemma holds_fits rcs s off :
  rbase rcs s < 2 ^ 32 -> holds rcs s off ->
  rlen rcs s < 32 /\ rend rcs s = rbase rcs s + 2 ^ rlen rcs s /\ off - rbase rcs s < 2 ^ rlen rcs s.
Proof.
  unfold holds, rend, rbase, rlen, rc_end, rw32, shl1. intros Hb (H1 & H2).
  set (b := rc_base (nth s rcs rc_dflt)) in *. set (n := rc_len (nth s rcs rc_dflt)) in *.
  destruct (n <? 32) eqn:E.
  - apply N.ltb_lt in E.
    assert (Hp : 2 ^ n <= 2 ^ 31) by (apply N.pow_le_mono_r; lia).
    change (2 ^ 31) with 2147483648 in Hp. change (2 ^ 32) with 4294967296 in *.
    set (p := 2 ^ n) in *. clearbody p.
    assert (b + p < 4294967296 \/ 4294967296 <= b + p) as [Hlt|Hge] by lia.
    + rewrite N.mod_small in * by lia. lia.
    + exfalso. assert ((b + p) mod 4294967296 = b + p - 4294967296).
      { symmetry. apply N.mod_unique with (q := 1); lia. }
      lia.
  - exfalso. rewrite N.add_0_r, N.mod_small in H2 by lia. lia.
Qed.

(* ---- Init: the lookup table ------------------------------------------------------------ *)
Local Ltac ifs :=
  repeat match goal with
         | |- context [if ?b then _ else _] => let E := fresh "E" in destruct b eqn:E
         end.

Lemma fill_loop_spec fuel l i e v :
  (0 <= i)%Z -> (e <= 1024)%Z -> (e - i <= Z.of_nat fuel)%Z ->
  exists l', fill_loop fuel l i e v = RgOk l' /\
    forall x, l' x = if ((i <=? Z.of_N x) && (Z.of_N x <? e))%Z then v else l x.
Proof.
  revert l i. induction fuel as [|fuel IH]; intros l i Hi He Hf; cbn [fill_loop].
  - destruct (i <? e)%Z eqn:E; [lia|]. exists l; split; [reflexivity|].
    intros x. ifs; [lia | reflexivity].
  - destruct (i <? e)%Z eqn:E.
    + unfold lut_set, lut_len. destruct ((0 <=? i) && (i <? 1024))%Z eqn:E2; [|lia].
      destruct (IH (fun j => if j =? Z.to_N i then v else l j) (i + 1)%Z) as (l' & Hl' & Hx);
        try lia.
      exists l'; split; [exact Hl'|]. intros x. rewrite Hx. ifs; try reflexivity; lia.
    + exists l; split; [reflexivity|]. intros x. ifs; [lia | reflexivity].
Qed.

Lemma init_break pre rest sym min l :
  min + 1024 <= rc_base pre -> init_loop (pre :: rest) sym min l = RgOk l.
Proof.
  intros H. cbn [init_loop]. unfold lut_len.
  destruct (Z.of_N (rc_base pre) - Z.of_N min >=? 1024)%Z eqn:E; [reflexivity | lia].
Qed.

Lemma init_step pre rest sym min l :
  min <= rc_base pre -> rc_base pre < min + 1024 ->
  exists l1, init_loop (pre :: rest) sym min l = init_loop rest (sym + 1) min l1 /\
    forall x, l1 x =
      if (rc_base pre <=? min + x) && (min + x <? rc_end pre) && (x <? 1024) then rw32 sym else l x.
Proof.
  intros H1 H2. cbn [init_loop]. unfold lut_len.
  destruct (Z.of_N (rc_base pre) - Z.of_N min >=? 1024)%Z eqn:E; [lia|].
  set (e := if (Z.of_N (rc_end pre) - Z.of_N min >? 1024)%Z then 1024%Z
            else (Z.of_N (rc_end pre) - Z.of_N min)%Z).
  assert (He : e = Z.min 1024 (Z.of_N (rc_end pre) - Z.of_N min)).
  { subst e. ifs; lia. }
  clearbody e.
  destruct (fill_loop_spec 1024 l (Z.of_N (rc_base pre) - Z.of_N min)%Z e (rw32 sym))
    as (l1 & Hl1 & Hx); try lia.
  exists l1. rewrite Hl1. split; [reflexivity|]. intros x. rewrite Hx.
  ifs; try reflexivity; lia.
Qed.

Lemma init_total rest : forall pre sym min l,
  chain pre rest -> min <= rc_base pre -> exists l', init_loop (pre :: rest) sym min l = RgOk l'.
Proof.
  induction rest as [|cur r IH]; intros pre sym min l Hc Hm;
    (assert (rc_base pre < min + 1024 \/ min + 1024 <= rc_base pre) as [Hlt|Hge] by lia;
     [|exists l; apply init_break; exact Hge]);
    match goal with |- context [init_loop (pre :: ?rr)] =>
      destruct (init_step pre rr sym min l Hm Hlt) as (l1 & -> & _) end.
  - exists l1; reflexivity.
  - cbn [chain] in Hc. destruct Hc as (H1 & _ & _ & Hc). apply IH; [exact Hc | lia].
Qed.

(* entries below every remaining Base are left alone *)
Lemma init_untouched rest : forall pre sym min l j,
  chain pre rest -> min <= rc_base pre -> min + j < rc_base pre ->
  exists l', init_loop (pre :: rest) sym min l = RgOk l' /\ l' j = l j.
Proof.
  induction rest as [|cur r IH]; intros pre sym min l j Hc Hm Hj;
    (assert (rc_base pre < min + 1024 \/ min + 1024 <= rc_base pre) as [Hlt|Hge] by lia;
     [|exists l; split; [apply init_break; exact Hge | reflexivity]]);
    match goal with |- context [init_loop (pre :: ?rr)] =>
      destruct (init_step pre rr sym min l Hm Hlt) as (l1 & -> & Hx) end.
  - exists l1; split; [reflexivity|]. rewrite Hx. ifs; [lia | reflexivity].
  - cbn [chain] in Hc. destruct Hc as (H1 & _ & _ & Hc).
    destruct (IH cur (sym + 1) min l1 j Hc) as (l' & Hl' & Hj'); try lia.
    exists l'; split; [exact Hl'|]. rewrite Hj', Hx. ifs; [lia | reflexivity].
Qed.

(* number of leading ranges whose Base is <= off *)
Fixpoint cnt_le (l : list rcode) (off : N) : nat :=
  match l with
  | [] => O
  | rc :: r => if rc_base rc <=? off then S (cnt_le r off) else O
  end.

Lemma last_cons_default {A} (l : list A) a d : last (a :: l) d = last l a.
Proof.
  revert a d; induction l as [|b l IH]; intros a d; [reflexivity|].
  change (last (a :: b :: l) d) with (last (b :: l) d). rewrite !IH. reflexivity.
Qed.

Lemma rw32_small x : x < 2 ^ 32 -> rw32 x = x.
Proof. intros H. unfold rw32. apply N.mod_small; exact H. Qed.

(* the entry of an offset of the domain: (leading count) - 1 *)
Lemma init_entry rest : forall pre sym min l j,
  chain pre rest -> min <= rc_base pre ->
  sym + N.of_nat (length (pre :: rest)) <= 2 ^ 32 ->
  j < 1024 -> rc_base pre <= min + j -> min + j < rc_end (last rest pre) ->
  exists l', init_loop (pre :: rest) sym min l = RgOk l' /\
             l' j = sym + N.of_nat (cnt_le (pre :: rest) (min + j)) - 1.
Proof.
  induction rest as [|cur r IH]; intros pre sym min l j Hc Hm Hlen Hj Hlo Hhi;
    match goal with |- context [init_loop (pre :: ?rr)] =>
      destruct (init_step pre rr sym min l Hm) as (l1 & -> & Hx); [lia|] end;
    cbn [length] in Hlen.
  - exists l1; split; [reflexivity|]. rewrite Hx. cbn [last] in Hhi. cbn [cnt_le].
    rewrite rw32_small by lia. ifs; lia.
  - cbn [chain] in Hc. destruct Hc as (H1 & H2 & H3 & Hc).
    rewrite last_cons_default in Hhi.
    destruct (rc_base cur <=? min + j) eqn:Ecur.
    + destruct (IH cur (sym + 1) min l1 j Hc) as (l' & Hl' & Hj'); try lia.
      { cbn [length]. lia. }
      exists l'; split; [exact Hl'|]. rewrite Hj'.
      change (cnt_le (pre :: cur :: r) (min + j))
        with (if rc_base pre <=? min + j then S (cnt_le (cur :: r) (min + j)) else O).
      ifs; lia.
    + destruct (init_untouched r cur (sym + 1) min l1 j Hc) as (l' & Hl' & Hj'); try lia.
      exists l'; split; [exact Hl'|]. rewrite Hj', Hx.
      cbn [cnt_le]. rewrite Ecur. rewrite rw32_small by lia. ifs; lia.
Qed.

(* every entry of the table names a range whose Base is not above the entry's offset *)
Lemma init_entries_sound rest : forall pre sym min l l',
  chain pre rest -> min <= rc_base pre ->
  sym + N.of_nat (length (pre :: rest)) <= 2 ^ 32 ->
  init_loop (pre :: rest) sym min l = RgOk l' ->
  forall j, l' j = l j \/
    exists k, (k < length (pre :: rest))%nat /\ l' j = sym + N.of_nat k /\
              rbase (pre :: rest) k <= min + j.
Proof.
  induction rest as [|cur r IH]; intros pre sym min l l' Hc Hm Hlen Hinit j;
    (assert (rc_base pre < min + 1024 \/ min + 1024 <= rc_base pre) as [Hlt|Hge] by lia;
     [|rewrite init_break in Hinit by exact Hge; injection Hinit as <-; left; reflexivity]);
    match type of Hinit with context [init_loop (pre :: ?rr)] =>
      destruct (init_step pre rr sym min l Hm Hlt) as (l1 & Hstep & Hx) end; rewrite Hstep in Hinit;
    cbn [length] in Hlen.
  - cbn [init_loop] in Hinit. injection Hinit as <-. rewrite Hx.
    destruct ((rc_base pre <=? min + j) && (min + j <? rc_end pre) && (j <? 1024)) eqn:E;
      [right | left; reflexivity].
    exists O. cbn [length]. unfold rbase; cbn [nth]. rewrite rw32_small by lia.
    repeat split; lia.
  - cbn [chain] in Hc. destruct Hc as (H1 & _ & _ & Hc).
    destruct (IH cur (sym + 1) min l1 l' Hc) with (j := j) as [Hsame | (k & Hk & Hv & Hb)];
      try lia; try exact Hinit.
    { cbn [length]. lia. }
    + rewrite Hsame, Hx.
      destruct ((rc_base pre <=? min + j) && (min + j <? rc_end pre) && (j <? 1024)) eqn:E;
        [right | left; reflexivity].
      exists O. cbn [length]. unfold rbase; cbn [nth]. rewrite rw32_small by lia.
      repeat split; lia.
    + right. exists (S k). cbn [length] in *. unfold rbase in *; cbn [nth].
      repeat split; try lia. exact Hb.
Qed.

(* ---- the leading count and the last range with Base <= off ------------------------------- *)
Lemma cnt_le_length l off : (cnt_le l off <= length l)%nat.
Proof. induction l as [|rc r IH]; cbn [cnt_le length]; [lia|]. ifs; lia. Qed.

Lemma cnt_le_below l off : forall i, (i < cnt_le l off)%nat -> rbase l i <= off.
Proof.
  induction l as [|rc r IH]; cbn [cnt_le]; intros i Hi; [lia|].
  destruct (rc_base rc <=? off) eqn:E; [|lia].
  destruct i as [|i]; unfold rbase in *; cbn [nth]; [lia | apply IH; lia].
Qed.

Lemma cnt_le_stop l off : (cnt_le l off < length l)%nat -> off < rbase l (cnt_le l off).
Proof.
  induction l as [|rc r IH]; cbn [cnt_le length]; intros H; [lia|].
  destruct (rc_base rc <=? off) eqn:E; unfold rbase in *; cbn [nth]; [apply IH; lia | lia].
Qed.

Lemma cnt_le_last rcs off :
  range_valid rcs -> rbase rcs 0 <= off ->
  (1 <= cnt_le rcs off)%nat /\ last_le rcs off (cnt_le rcs off - 1).
Proof.
  intros Hv H0.
  assert (H1 : (1 <= cnt_le rcs off)%nat).
  { destruct rcs as [|pre rest]; [destruct Hv as (Hv & _); congruence|].
    unfold rbase in H0; cbn [nth] in H0. cbn [cnt_le]. ifs; lia. }
  split; [exact H1|].
  pose proof (cnt_le_length rcs off) as Hlen.
  repeat split; [lia | apply cnt_le_below; lia |].
  intros i Hi.
  assert (Hc : (cnt_le rcs off < length rcs)%nat) by lia.
  apply cnt_le_stop in Hc.
  pose proof (valid_base_mono rcs Hv (cnt_le rcs off) i) as Hm. lia.
Qed.

Lemma nth_last_cons {A} (rest : list A) pre d : nth (length rest) (pre :: rest) d = last rest pre.
Proof.
  revert pre; induction rest as [|b r IH]; intros pre; [reflexivity|].
  cbn [length]. change (nth (S (length r)) (pre :: b :: r) d) with (nth (length r) (b :: r) d).
  rewrite IH. rewrite last_cons_default. reflexivity.
Qed.

(* ---- the walk ----------------------------------------------------------------------- *)
Lemma rw64_pred a : 1 <= a -> a < 2 ^ 64 -> rw64 (a + (2 ^ 64 - 1)) = a - 1.
Proof.
  unfold rw64. change (2 ^ 64) with 18446744073709551616. intros H1 H2.
  symmetry. apply N.mod_unique with (q := 1); lia.
Qed.

Lemma rcs_get_nat rcs s : rcs_get rcs (N.of_nat s) = nth_error rcs s.
Proof.
  unfold rcs_get. destruct (N.of_nat s <? N.of_nat (length rcs)) eqn:E.
  - rewrite Nat2N.id. reflexivity.
  - symmetry. apply nth_error_None. lia.
Qed.

Section Walk.
Variable rcs : list rcode.
Variable offset : N.
Hypothesis Hvalid : range_valid rcs.
Hypothesis Hlen : N.of_nat (length rcs) <= 2 ^ 32.

(* about to examine [sym], range [sym - 1] has passed the test *)
Lemma walk_spec : forall fuel sym,
  (1 <= sym <= length rcs)%nat -> rbase rcs (sym - 1) <= rw32 offset ->
  (length rcs - sym < fuel)%nat ->
  exists s, (sym - 1 <= s)%nat /\ last_le rcs (rw32 offset) s /\
            re_walk fuel rcs offset (N.of_nat sym) = RgOk (N.of_nat s).
Proof.
  assert (H64 : 2 ^ 32 < 2 ^ 64) by (apply N.pow_lt_mono_r; lia).
  induction fuel as [|fuel IH]; intros sym Hsym Hb Hf; [lia|].
  cbn [re_walk]. rewrite rcs_get_nat.
  destruct (nth_error rcs sym) as [rc|] eqn:En.
  - assert (Hlt : (sym < length rcs)%nat) by (apply nth_error_Some; congruence).
    assert (Hrc : rc_base rc = rbase rcs sym).
    { unfold rbase. rewrite (nth_error_nth rcs sym rc_dflt En). reflexivity. }
    destruct (rw32 offset <? rc_base rc) eqn:E.
    + exists (sym - 1)%nat. split; [lia|]. split.
      * repeat split; [lia | exact Hb |]. intros i Hi.
        pose proof (valid_base_mono rcs Hvalid sym i). lia.
      * rewrite rw64_pred by lia. f_equal. lia.
    + destruct (IH (S sym)) as (s & Hs & Hl & Hw); try lia.
      { replace (S sym - 1)%nat with sym by lia. lia. }
      exists s. split; [lia|]. split; [exact Hl|].
      replace (N.of_nat sym + 1) with (N.of_nat (S sym)) by lia. exact Hw.
  - assert (Hge : (length rcs <= sym)%nat) by (apply nth_error_None; exact En).
    exists (sym - 1)%nat. split; [lia|]. split.
    + repeat split; [lia | exact Hb | intros i Hi; lia].
    + rewrite rw64_pred by lia. f_equal. lia.
Qed.

(* started at a range whose Base is <= the (truncated) offset *)
Lemma walk_from sym0 fuel :
  (sym0 < length rcs)%nat -> rbase rcs sym0 <= rw32 offset -> (length rcs - sym0 < fuel)%nat ->
  exists s, (sym0 <= s)%nat /\ last_le rcs (rw32 offset) s /\
            re_walk fuel rcs offset (N.of_nat sym0) = RgOk (N.of_nat s).
Proof.
  intros H0 Hb Hf. destruct fuel as [|fuel]; [lia|].
  cbn [re_walk]. rewrite rcs_get_nat.
  destruct (nth_error rcs sym0) as [rc|] eqn:En;
    [|apply nth_error_None in En; lia].
  assert (Hrc : rc_base rc = rbase rcs sym0).
  { unfold rbase. rewrite (nth_error_nth rcs sym0 rc_dflt En). reflexivity. }
  destruct (rw32 offset <? rc_base rc) eqn:E; [lia|].
  destruct (walk_spec fuel (S sym0)) as (s & Hs & Hl & Hw); try lia.
  { replace (S sym0 - 1)%nat with sym0 by lia. exact Hb. }
  exists s. split; [lia|]. split; [exact Hl|].
  replace (N.of_nat sym0 + 1) with (N.of_nat (S sym0)) by lia. exact Hw.
Qed.

(* started at a range whose Base is above the (truncated) offset: sym - 1 on uint *)
Lemma walk_above sym0 fuel :
  (sym0 < length rcs)%nat -> rw32 offset < rbase rcs sym0 -> (0 < fuel)%nat ->
  re_walk fuel rcs offset (N.of_nat sym0) = RgOk (rw64 (N.of_nat sym0 + (2 ^ 64 - 1))).
Proof.
  intros H0 Hb Hf. destruct fuel as [|fuel]; [lia|].
  cbn [re_walk]. rewrite rcs_get_nat.
  destruct (nth_error rcs sym0) as [rc|] eqn:En; [|reflexivity].
  assert (Hrc : rc_base rc = rbase rcs sym0).
  { unfold rbase. rewrite (nth_error_nth rcs sym0 rc_dflt En). reflexivity. }
  destruct (rw32 offset <? rc_base rc) eqn:E; [reflexivity | lia].
Qed.
End Walk.

(* ---- Init ------------------------------------------------------------------------------ *)
Theorem re_init_invalid rcs : check_valid rcs = false -> re_init rcs = RgPanic.
Proof. intros H. unfold re_init. rewrite H. reflexivity. Qed.

Theorem re_init_ok rcs :
  check_valid rcs = true -> exists l, re_init rcs = RgOk (mkRE rcs l (rbase rcs 0)).
Proof.
  intros H. unfold re_init. rewrite H. cbn [negb].
  destruct rcs as [|pre rest]; [discriminate|]. cbn [rcs_base check_valid] in *.
  apply check_valid_loop_chain in H.
  destruct (init_total rest pre 0 (rc_base pre) lut_zero H) as (l & Hl); [lia|].
  rewrite Hl. exists l. reflexivity.
Qed.

(* Init never runs out of the model's budget, and panics exactly on the sets checkValid rejects *)
Corollary re_init_panic_iff rcs : re_init rcs = RgPanic <-> check_valid rcs = false.
Proof.
  split; [|apply re_init_invalid].
  destruct (check_valid rcs) eqn:E; [|reflexivity].
  destruct (re_init_ok rcs E) as (l & ->). discriminate.
Qed.

Lemma re_init_inv rcs re :
  re_init rcs = RgOk re ->
  exists pre rest l,
    rcs = pre :: rest /\ chain pre rest /\ re = mkRE rcs l (rc_base pre) /\
    init_loop rcs 0 (rc_base pre) lut_zero = RgOk l.
Proof.
  unfold re_init. destruct (check_valid rcs) eqn:E; cbn [negb]; [|discriminate].
  destruct rcs as [|pre rest]; [discriminate|]. cbn [rcs_base check_valid] in *.
  apply check_valid_loop_chain in E.
  destruct (init_loop (pre :: rest) 0 (rc_base pre) lut_zero) as [l| |] eqn:El; try discriminate.
  intros [= <-]. exists pre, rest, l. repeat split; assumption.
Qed.

Lemma lut_get_1023 l : lut_get l (lut_len - 1) = Some (l 1023).
Proof. reflexivity. Qed.

Lemma lut_get_small l j : j < 1024 -> lut_get l (Z.of_N j) = Some (l j).
Proof.
  intros H. unfold lut_get, lut_len.
  destruct ((0 <=? Z.of_N j) && (Z.of_N j <? 1024))%Z eqn:E; [|lia].
  rewrite N2Z.id. reflexivity.
Qed.

Lemma rw64_sub off m : m <= off -> off < 2 ^ 64 -> rw64 (off + (2 ^ 64 - m)) = off - m.
Proof.
  unfold rw64. change (2 ^ 64) with 18446744073709551616. intros H1 H2.
  assert (m = 0 \/ 0 < m) as [->|Hm] by lia.
  - rewrite N.sub_0_r, N.sub_0_r. symmetry. apply N.mod_unique with (q := 1); lia.
  - symmetry. apply N.mod_unique with (q := 1); lia.
Qed.

Lemma wf_base rcs i : rcs_wf rcs -> rbase rcs i < 2 ^ 32.
Proof.
  intros H. unfold rbase. destruct (Nat.lt_ge_cases i (length rcs)) as [Hi|Hi].
  - unfold rcs_wf in H. rewrite Forall_forall in H. apply (H (nth i rcs rc_dflt)).
    apply nth_In; exact Hi.
  - rewrite nth_overflow by exact Hi. cbn. lia.
Qed.

Lemma rc_end_lt rc : rc_end rc < 2 ^ 32.
Proof. unfold rc_end, rw32. apply N.mod_lt. discriminate. Qed.

(* ---- Encode beyond the table: the walk, for EVERY offset (in the domain or not) ------------ *)
Theorem re_encode_beyond rcs re off :
  rcs_wf rcs -> N.of_nat (length rcs) <= 2 ^ 32 -> re_init rcs = RgOk re ->
  rbase rcs 0 + 1024 <= off -> off < rbase rcs 0 + 2 ^ 63 ->
  exists sym0, (sym0 < length rcs)%nat /\ re_lut re 1023 = N.of_nat sym0 /\
    rbase rcs sym0 <= rbase rcs 0 + 1023 /\
    (rbase rcs sym0 <= rw32 off ->
       exists s, (sym0 <= s)%nat /\ last_le rcs (rw32 off) s /\ re_encode re off = RgOk (N.of_nat s)) /\
    (rw32 off < rbase rcs sym0 ->
       re_encode re off = RgOk (rw64 (N.of_nat sym0 + (2 ^ 64 - 1)))).
Proof.
  intros Hwf Hlen Hinit Hlo Hhi.
  assert (Hv : range_valid rcs).
  { apply check_valid_spec. destruct (check_valid rcs) eqn:E; [reflexivity|].
    rewrite re_init_invalid in Hinit by exact E. discriminate. }
  destruct (re_init_inv rcs re Hinit) as (pre & rest & l & -> & Hc & -> & Hl).
  pose proof (wf_base (pre :: rest) 0 Hwf) as Hb0.
  change (rbase (pre :: rest) 0) with (rc_base pre) in *.
  set (min := rc_base pre) in *.
  assert (Hsym0 : exists sym0, (sym0 < length (pre :: rest))%nat /\ l 1023 = N.of_nat sym0 /\
                               rbase (pre :: rest) sym0 <= min + 1023).
  { destruct (init_entries_sound rest pre 0 min lut_zero l Hc) with (j := 1023)
      as [H0 | (k & Hk & Hlk & Hbk)]; try (subst min; lia); try exact Hl.
    - exists O. change (rbase (pre :: rest) 0) with min. cbn [length]. unfold lut_zero in H0.
      repeat split; lia.
    - exists k. repeat split; [exact Hk | lia | exact Hbk]. }
  destruct Hsym0 as (sym0 & Hs0 & Hl0 & Hb).
  exists sym0. cbn [re_lut]. repeat split; [exact Hs0 | exact Hl0 | exact Hb | |].
  - intros Hle.
    destruct (walk_from (pre :: rest) off Hv Hlen sym0 (re_walk_fuel (pre :: rest)))
      as (s & Hs & Hlast & Hw); [exact Hs0 | exact Hle | unfold re_walk_fuel; lia |].
    exists s. repeat split; try apply Hlast; [exact Hs|].
    unfold re_encode; cbn [re_minBase re_lut re_rcs].
    assert (H63 : 2 ^ 32 < 2 ^ 63) by (apply N.pow_lt_mono_r; lia).
    assert (H64 : 2 ^ 63 + 2 ^ 63 = 2 ^ 64) by reflexivity.
    rewrite rw64_sub by lia.
    destruct (off - min <? 2 ^ 63) eqn:E1; [|lia].
    unfold lut_len at 1. destruct (Z.of_N (off - min) <? 1024)%Z eqn:E2; [lia|].
    rewrite lut_get_1023, Hl0. exact Hw.
  - intros Hgt.
    unfold re_encode; cbn [re_minBase re_lut re_rcs].
    assert (H63 : 2 ^ 32 < 2 ^ 63) by (apply N.pow_lt_mono_r; lia).
    assert (H64 : 2 ^ 63 + 2 ^ 63 = 2 ^ 64) by reflexivity.
    rewrite rw64_sub by lia.
    destruct (off - min <? 2 ^ 63) eqn:E1; [|lia].
    unfold lut_len at 1. destruct (Z.of_N (off - min) <? 1024)%Z eqn:E2; [lia|].
    rewrite lut_get_1023, Hl0.
    apply walk_above; try assumption. unfold re_walk_fuel; lia.
Qed.

(* ---- Encode within the table ---------------------------------------------------------------- *)
Theorem re_encode_table rcs re off :
  N.of_nat (length rcs) <= 2 ^ 32 -> re_init rcs = RgOk re ->
  in_domain rcs off -> off < rbase rcs 0 + 1024 ->
  re_encode re off = RgOk (N.of_nat (cnt_le rcs off - 1)) /\
  re_lut re (off - rbase rcs 0) = N.of_nat (cnt_le rcs off - 1).
Proof.
  intros Hlen Hinit (Hlo & Hhi) Hj.
  assert (Hv : range_valid rcs).
  { apply check_valid_spec. destruct (check_valid rcs) eqn:E; [reflexivity|].
    rewrite re_init_invalid in Hinit by exact E. discriminate. }
  destruct (cnt_le_last rcs off Hv Hlo) as (Hc1 & _).
  destruct (re_init_inv rcs re Hinit) as (pre & rest & l & -> & Hc & -> & Hl).
  change (rbase (pre :: rest) 0) with (rc_base pre) in *.
  unfold rend in Hhi. cbn [length] in Hhi.
  replace (S (length rest) - 1)%nat with (length rest) in Hhi by lia.
  rewrite nth_last_cons in Hhi.
  pose proof (rc_end_lt (last rest pre)) as Hend.
  set (min := rc_base pre) in *.
  destruct (init_entry rest pre 0 min lut_zero (off - min) Hc) as (l' & Hl' & Hj');
    try (subst min; lia); try (replace (min + (off - min)) with off by lia; lia).
  rewrite Hl in Hl'. injection Hl' as <-.
  replace (min + (off - min)) with off in Hj' by lia.
  assert (Hlj : l (off - min) = N.of_nat (cnt_le (pre :: rest) off - 1)) by lia.
  split; [|exact Hlj].
  unfold re_encode; cbn [re_minBase re_lut re_rcs].
  assert (H64 : 2 ^ 32 < 2 ^ 64) by (apply N.pow_lt_mono_r; lia).
  assert (H63 : 2 ^ 10 < 2 ^ 63) by (apply N.pow_lt_mono_r; lia).
  change (2 ^ 10) with 1024 in H63.
  rewrite rw64_sub by lia.
  destruct (off - min <? 2 ^ 63) eqn:E1; [|lia].
  unfold lut_len at 1. destruct (Z.of_N (off - min) <? 1024)%Z eqn:E2; [|lia].
  rewrite lut_get_small by lia. rewrite Hlj. reflexivity.
Qed.

(* ---- MAIN THEOREM: Encode on the domain ----------------------------------------------------
   For every set checkValid accepts (overlaps allowed) and every offset in [Base(), End()):
   Encode terminates within the model's budget, does not panic, and returns the LAST range
   whose Base is <= offset; that range holds the offset, has Len < 32, and the distance to
   its Base fits its Len extra bits. *)
Lemma in_domain_lt32 rcs off : in_domain rcs off -> off < 2 ^ 32.
Proof. intros (_ & H). unfold rend in H. pose proof (rc_end_lt (nth (length rcs - 1) rcs rc_dflt)). lia. Qed.

Theorem re_encode_domain rcs re off :
  rcs_wf rcs -> N.of_nat (length rcs) <= 2 ^ 32 -> re_init rcs = RgOk re ->
  in_domain rcs off ->
  exists s, re_encode re off = RgOk (N.of_nat s) /\
            last_le rcs off s /\ holds rcs s off /\
            rlen rcs s < 32 /\ off - rbase rcs s < 2 ^ rlen rcs s.
Proof.
  intros Hwf Hlen Hinit Hdom.
  assert (Hv : range_valid rcs).
  { apply check_valid_spec. destruct (check_valid rcs) eqn:E; [reflexivity|].
    rewrite re_init_invalid in Hinit by exact E. discriminate. }
  pose proof (in_domain_lt32 rcs off Hdom) as H32.
  assert (Hs : exists s, re_encode re off = RgOk (N.of_nat s) /\ last_le rcs off s).
  { assert (off < rbase rcs 0 + 1024 \/ rbase rcs 0 + 1024 <= off) as [Hj|Hj] by lia.
    - destruct (re_encode_table rcs re off Hlen Hinit Hdom Hj) as (He & _).
      exists (cnt_le rcs off - 1)%nat. split; [exact He|].
      apply cnt_le_last; [exact Hv | apply Hdom].
    - assert (H63 : 2 ^ 32 < 2 ^ 63) by (apply N.pow_lt_mono_r; lia).
      destruct (re_encode_beyond rcs re off Hwf Hlen Hinit Hj) as (sym0 & _ & _ & Hb & Hwalk & _);
        [lia|].
      rewrite rw32_small in Hwalk by exact H32.
      destruct Hwalk as (s & _ & Hl & He); [lia|].
      exists s. split; [exact He | exact Hl]. }
  destruct Hs as (s & He & Hl). exists s.
  pose proof (last_le_holds rcs off s Hv Hdom Hl) as Hh.
  destruct (holds_fits rcs s off (wf_base rcs s Hwf) Hh) as (Hn & _ & Hfit).
  split; [exact He|]. split; [exact Hl|]. split; [exact Hh|]. split; assumption.
Qed.

(* non-vacuity: the DEFLATE distance ranges, an offset beyond the table *)
Definition deflate_dist_bits : list N :=
  [0;0;0;0;1;1;2;2;3;3;4;4;5;5;6;6;7;7;8;8;9;9;10;10;11;11;12;12;13;13].
Definition deflate_len_bits : list N :=
  [0;0;0;0;0;0;0;0;1;1;1;1;2;2;2;2;3;3;3;3;4;4;4;4;5;5;5;5].

Example re_encode_domain_ex :
  let rcs := make_range_codes 1 deflate_dist_bits in
  check_valid rcs = true /\ in_domain rcs 20000 /\
  match re_init rcs with RgOk re => re_encode re 20000 = RgOk 28 | _ => False end.
Proof. vm_compute. repeat split; congruence. Qed.

(* for sets without overlap the range that holds an offset is unique: Encode returns it *)
Theorem holds_unique_contiguous rcs off s i :
  range_valid rcs -> range_contiguous rcs -> last_le rcs off s ->
  (i < length rcs)%nat -> holds rcs i off -> i = s.
Proof.
  intros Hv Hc (Hs & Hb & Hl) Hi (Hi1 & Hi2).
  destruct (Nat.lt_trichotomy i s) as [H|[H|H]]; [|exact H|].
  - exfalso. pose proof (valid_end_mono rcs Hv i (s - 1)) as Hm.
    specialize (Hc (s - 1)%nat). replace (S (s - 1)) with s in Hc by lia. lia.
  - exfalso. specialize (Hl i). lia.
Qed.

(* the answer is monotone in the offset *)
Theorem last_le_mono rcs off1 off2 s1 s2 :
  off1 <= off2 -> last_le rcs off1 s1 -> last_le rcs off2 s2 -> (s1 <= s2)%nat.
Proof.
  intros Ho (Hs1 & Hb1 & _) (Hs2 & _ & Hl2).
  destruct (Nat.le_gt_cases s1 s2) as [H|H]; [exact H|].
  specialize (Hl2 s1). lia.
Qed.

(* ---- WriteOffset then ReadOffset ------------------------------------------------------------ *)
Theorem write_read_offset rcs re off :
  rcs_wf rcs -> N.of_nat (length rcs) <= 2 ^ 32 -> re_init rcs = RgOk re ->
  in_domain rcs off ->
  exists s v n,
    write_offset re off = RgOk (N.of_nat s, v, n) /\
    last_le rcs off s /\ n = rlen rcs s /\ n < 32 /\ v = off - rbase rcs s /\ v < 2 ^ n /\
    range_decode rcs s v = off /\
    forall extra_of, extra_of n = v -> read_offset rcs (N.of_nat s) extra_of = RgOk off.
Proof.
  intros Hwf Hlen Hinit Hdom.
  destruct (re_encode_domain rcs re off Hwf Hlen Hinit Hdom) as (s & He & Hl & Hh & Hn & Hfit).
  pose proof (in_domain_lt32 rcs off Hdom) as H32.
  assert (H64 : 2 ^ 32 < 2 ^ 64) by (apply N.pow_lt_mono_r; lia).
  destruct (re_init_inv rcs re Hinit) as (pre & rest & l & Hrcs & _ & -> & _).
  exists s, (off - rbase rcs s), (rlen rcs s).
  assert (Hnth : nth_error rcs s = Some (nth s rcs rc_dflt)).
  { apply nth_error_nth'. apply Hl. }
  destruct Hh as (Hh1 & Hh2).
  repeat split; try assumption; try apply Hl.
  - unfold write_offset. rewrite He. cbn [re_rcs]. rewrite rcs_get_nat, Hnth.
    unfold rbase, rlen in *. rewrite rw64_sub by lia. reflexivity.
  - unfold range_decode. lia.
  - intros extra_of Hx. unfold read_offset. rewrite rcs_get_nat, Hnth.
    fold (rlen rcs s). fold (rbase rcs s). rewrite Hx.
    replace (rbase rcs s + (off - rbase rcs s)) with off by lia.
    unfold rw64. rewrite N.mod_small by lia. reflexivity.
Qed.

Example write_read_offset_ex :
  let rcs := make_range_codes 3 deflate_len_bits in
  match re_init rcs with
  | RgOk re => write_offset re 200 = RgOk (26, 5, 5) /\
               read_offset rcs 26 (fun _ => 5) = RgOk 200
  | _ => False
  end.
Proof. vm_compute. split; reflexivity. Qed.

(* ---- MakeRangeCodes --------------------------------------------------------------------------- *)
Lemma mk_length bits : forall mb, length (make_range_codes mb bits) = length bits.
Proof. induction bits as [|nb r IH]; intros mb; cbn [make_range_codes length]; [reflexivity|]. rewrite IH. reflexivity. Qed.

Lemma pow2_lt32 nb : 2 ^ nb < 2 ^ 32 -> nb < 32.
Proof. intros H. apply N.pow_lt_mono_r_iff in H; [exact H | lia]. Qed.

Lemma total_firstn_le bits : forall i, bits_total (firstn i bits) <= bits_total bits.
Proof.
  induction bits as [|nb r IH]; intros [|i]; cbn [firstn bits_total]; try lia.
  specialize (IH i). lia.
Qed.

Lemma total_firstn_S bits : forall i, (i < length bits)%nat ->
  bits_total (firstn (S i) bits) = bits_total (firstn i bits) + 2 ^ nth i bits 0.
Proof.
  induction bits as [|nb r IH]; intros i Hi; cbn [length] in Hi; [lia|].
  destruct i as [|i].
  - cbn [firstn bits_total nth]. lia.
  - change (firstn (S (S i)) (nb :: r)) with (nb :: firstn (S i) r).
    change (firstn (S i) (nb :: r)) with (nb :: firstn i r).
    cbn [bits_total nth]. rewrite IH by lia. lia.
Qed.

(* closed form of the i-th range *)
Lemma mk_nth bits : forall mb i,
  mb + bits_total bits < 2 ^ 32 -> (i < length bits)%nat ->
  nth i (make_range_codes mb bits) rc_dflt = (mb + bits_total (firstn i bits), nth i bits 0).
Proof.
  induction bits as [|nb r IH]; intros mb i Hb Hi; cbn [length] in Hi; [lia|].
  cbn [bits_total] in Hb.
  assert (Hnb : nb < 32) by (apply pow2_lt32; lia).
  assert (H5 : 32 < 2 ^ 32) by (apply N.pow_gt_lin_r; lia).
  assert (H64 : 2 ^ 32 < 2 ^ 64) by (apply N.pow_lt_mono_r; lia).
  cbn [make_range_codes]. destruct i as [|i].
  - cbn [nth firstn bits_total]. rewrite !rw32_small by lia. f_equal. lia.
  - cbn [nth]. unfold shl1. destruct (nb <? 64) eqn:E; [|lia].
    unfold rw64. rewrite N.mod_small by lia.
    rewrite IH by lia. cbn [firstn bits_total]. f_equal. lia.
Qed.

Theorem make_range_codes_valid mb bits :
  bits <> [] -> mb + bits_total bits < 2 ^ 32 ->
  let rcs := make_range_codes mb bits in
  rcs_wf rcs /\ check_valid rcs = true /\ range_contiguous rcs /\
  length rcs = length bits /\
  rbase rcs 0 = mb /\ rend rcs (length rcs - 1) = mb + bits_total bits /\
  forall i, (i < length bits)%nat ->
    rbase rcs i = mb + bits_total (firstn i bits) /\ rlen rcs i = nth i bits 0 /\
    rend rcs i = rbase rcs i + 2 ^ nth i bits 0.
Proof.
  intros Hne Hb rcs.
  assert (Hlen : length rcs = length bits) by apply mk_length.
  assert (Hpos : (0 < length bits)%nat) by (destruct bits; [congruence | cbn; lia]).
  assert (Hi : forall i, (i < length bits)%nat ->
    rbase rcs i = mb + bits_total (firstn i bits) /\ rlen rcs i = nth i bits 0 /\
    rend rcs i = rbase rcs i + 2 ^ nth i bits 0).
  { intros i Hi. unfold rbase, rlen, rend, rc_end. subst rcs. rewrite mk_nth by assumption.
    cbn [rc_base rc_len fst snd].
    pose proof (total_firstn_le bits (S i)) as Hle. rewrite total_firstn_S in Hle by exact Hi.
    assert (Hnb : nth i bits 0 < 32) by (apply pow2_lt32; lia).
    unfold shl1. destruct (nth i bits 0 <? 32) eqn:E; [|lia].
    rewrite rw32_small by lia. repeat split; reflexivity. }
  assert (Hends : forall i, (i < length bits)%nat -> rend rcs i = mb + bits_total (firstn (S i) bits)).
  { intros i Hlt. destruct (Hi i Hlt) as (Hb1 & _ & He1). rewrite He1, Hb1, total_firstn_S by exact Hlt. lia. }
  assert (Hcont : range_contiguous rcs).
  { intros i Hlt. rewrite Hends by lia. destruct (Hi (S i)) as (Hb1 & _); [lia|]. rewrite Hb1. reflexivity. }
  repeat split.
  - unfold rcs_wf. apply Forall_forall. intros rc Hin.
    destruct (In_nth rcs rc rc_dflt Hin) as (i & Hlt & <-).
    subst rcs. rewrite mk_nth by (assumption || lia). cbn [rc_base rc_len fst snd].
    pose proof (total_firstn_le bits i) as Hle.
    pose proof (total_firstn_le bits (S i)) as Hle2. rewrite total_firstn_S in Hle2 by lia.
    assert (Hnb : nth i bits 0 < 32) by (apply pow2_lt32; lia).
    assert (H5 : 32 < 2 ^ 32) by (apply N.pow_gt_lin_r; lia).
    lia.
  - apply check_valid_spec. split.
    + intros E. rewrite E in Hlen. cbn in Hlen. lia.
    + intros i Hlt. rewrite Hlen in Hlt.
      rewrite !Hends by lia.
      destruct (Hi i) as (Hb1 & _); [lia|]. destruct (Hi (S i)) as (Hb2 & _); [lia|].
      rewrite Hb1, Hb2.
      rewrite (total_firstn_S bits (S i)) by lia. rewrite (total_firstn_S bits i) by lia. lia.
  - exact Hcont.
  - exact Hlen.
  - destruct (Hi O Hpos) as (Hb1 & _). rewrite Hb1. cbn [firstn bits_total]. lia.
  - rewrite Hends by lia. rewrite Hlen. replace (S (length bits - 1)) with (length bits) by lia.
    rewrite firstn_all. reflexivity.
  - apply Hi; assumption.
  - apply Hi; assumption.
  - apply Hi; assumption.
Qed.

Example make_range_codes_valid_ex :
  deflate_dist_bits <> [] /\ 1 + bits_total deflate_dist_bits < 2 ^ 32 /\
  bits_total deflate_dist_bits = 32768.
Proof. split; [discriminate|]. split; vm_compute; reflexivity. Qed.

(* without the bound the result need not be valid: the End of the last range wraps to 0 *)
Example make_range_codes_wrap :
  make_range_codes (2 ^ 32 - 4) [1; 1] = [(4294967292, 1); (4294967294, 1)] /\
  check_valid (make_range_codes (2 ^ 32 - 4) [1; 1]) = false.
Proof. vm_compute. split; reflexivity. Qed.

(* End-to-end for MakeRangeCodes sets: Init succeeds and Encode returns THE range holding the offset *)
Theorem make_range_codes_encode mb bits off :
  bits <> [] -> mb + bits_total bits < 2 ^ 32 ->
  mb <= off < mb + bits_total bits ->
  let rcs := make_range_codes mb bits in
  exists re s, re_init rcs = RgOk re /\ re_encode re off = RgOk (N.of_nat s) /\
    (s < length bits)%nat /\ holds rcs s off /\
    off - rbase rcs s < 2 ^ nth s bits 0 /\
    forall i, (i < length bits)%nat -> holds rcs i off -> i = s.
Proof.
  intros Hne Hb Hoff rcs.
  destruct (make_range_codes_valid mb bits Hne Hb) as (Hwf & Hcv & Hcont & Hlen & Hb0 & He & Hi).
  fold rcs in Hwf, Hcv, Hcont, Hlen, Hb0, He, Hi.
  destruct (re_init_ok rcs Hcv) as (l & Hinit).
  assert (Hdom : in_domain rcs off) by (unfold in_domain; lia).
  assert (Hl32 : N.of_nat (length rcs) <= 2 ^ 32).
  { (* every range has at least one offset and they are stacked below 2^32 *)
    destruct (Hi (length bits - 1)%nat) as (Hbl & _); [destruct bits; [congruence | cbn; lia]|].
    assert (Hk : forall l : list N, N.of_nat (length l) <= bits_total l).
    { induction l0 as [|x r IH]; cbn [length bits_total]; [lia|].
      assert (1 <= 2 ^ x) by (apply N.lt_pred_le; apply N.neq_0_lt_0; apply N.pow_nonzero; lia). lia. }
    specialize (Hk bits). lia. }
  destruct (re_encode_domain rcs _ off Hwf Hl32 Hinit Hdom) as (s & Henc & Hl & Hh & Hn & Hfit).
  exists (mkRE rcs l (rbase rcs 0)), s.
  assert (Hs : (s < length bits)%nat) by (rewrite <- Hlen; apply Hl).
  repeat split; try assumption; try apply Hh.
  - destruct (Hi s Hs) as (_ & Hls & _). rewrite <- Hls. exact Hfit.
  - intros i Hlt Hhi. apply (holds_unique_contiguous rcs off s i); try assumption.
    + apply check_valid_spec; exact Hcv.
    + lia.
Qed.

(* ---- overlapping sets: which symbol ----------------------------------------------------------
   RFC 1951 length ranges as compress/flate lists them: code 284 is (227, 5 bits) = [227, 259)
   and code 285 is (258, 0 bits) = [258, 259): offset 258 lies in both; Encode returns the LAST
   one (index 28 = code 285), both from the table and from the walk. *)
Definition deflate_len285 : list rcode := make_range_codes 3 deflate_len_bits ++ [(258, 0)].

Example overlap_last_wins :
  check_valid deflate_len285 = true /\
  holds deflate_len285 27 258 /\ holds deflate_len285 28 258 /\
  match re_init deflate_len285 with
  | RgOk re => re_encode re 258 = RgOk 28 /\ re_encode re 257 = RgOk 27
  | _ => False
  end.
Proof. vm_compute. repeat split; congruence. Qed.

(* same, beyond the table (the walk): [2000,2064) and [2040,2072) *)
Example overlap_last_wins_walk :
  let rcs := [(0, 10); (1024, 10); (2000, 6); (2040, 5)] in
  check_valid rcs = true /\
  match re_init rcs with
  | RgOk re => re_encode re 2039 = RgOk 2 /\ re_encode re 2040 = RgOk 3 /\ re_encode re 2063 = RgOk 3
  | _ => False
  end.
Proof. vm_compute. repeat split; reflexivity. Qed.

(* ---- the symbol changes exactly at range starts ---------------------------------------------------- *)
Theorem last_le_step rcs off s1 s2 :
  last_le rcs off s1 -> last_le rcs (off + 1) s2 ->
  s2 = s1 \/ ((s1 < s2)%nat /\ rbase rcs s2 = off + 1).
Proof.
  intros (Hs1 & Hb1 & Hl1) (Hs2 & Hb2 & Hl2).
  destruct (Nat.lt_trichotomy s1 s2) as [H|[H|H]].
  - right. split; [exact H|]. specialize (Hl1 s2). lia.
  - left. congruence.
  - exfalso. specialize (Hl2 s1). lia.
Qed.

(* a range start is encoded to the last range that starts there *)
Theorem last_le_range_start rcs i s :
  range_valid rcs -> (i < length rcs)%nat -> last_le rcs (rbase rcs i) s ->
  (i <= s)%nat /\ rbase rcs s = rbase rcs i.
Proof.
  intros Hv Hi (Hs & Hb & Hl).
  assert (His : (i <= s)%nat).
  { destruct (Nat.le_gt_cases i s) as [H|H]; [exact H|]. specialize (Hl i). lia. }
  split; [exact His|]. pose proof (valid_base_mono rcs Hv i s). lia.
Qed.

(* ---- the table and the walk agree -------------------------------------------------------------
   Had Encode taken the slow path from ANY earlier table entry, it would have arrived at the
   symbol the table gives. *)
Theorem lut_walk_agree rcs re off j :
  N.of_nat (length rcs) <= 2 ^ 32 -> re_init rcs = RgOk re ->
  in_domain rcs off -> off < rbase rcs 0 + 1024 -> j <= off - rbase rcs 0 ->
  re_walk (re_walk_fuel rcs) rcs off (re_lut re j) = RgOk (re_lut re (off - rbase rcs 0)) /\
  re_encode re off = RgOk (re_lut re (off - rbase rcs 0)).
Proof.
  intros Hlen Hinit Hdom Hoff Hj.
  assert (Hv : range_valid rcs).
  { apply check_valid_spec. destruct (check_valid rcs) eqn:E; [reflexivity|].
    rewrite re_init_invalid in Hinit by exact E. discriminate. }
  pose proof (in_domain_lt32 rcs off Hdom) as H32.
  destruct (re_encode_table rcs re off Hlen Hinit Hdom Hoff) as (He & Hlo).
  split; [|rewrite Hlo; exact He].
  assert (Hdom' : in_domain rcs (rbase rcs 0 + j)) by (destruct Hdom; unfold in_domain; lia).
  destruct (re_encode_table rcs re (rbase rcs 0 + j) Hlen Hinit Hdom') as (_ & Hlj); [lia|].
  replace (rbase rcs 0 + j - rbase rcs 0) with j in Hlj by lia.
  destruct (cnt_le_last rcs (rbase rcs 0 + j) Hv) as (_ & Hlast0); [lia|].
  destruct (cnt_le_last rcs off Hv) as (_ & Hlast1); [apply Hdom|].
  set (sym0 := (cnt_le rcs (rbase rcs 0 + j) - 1)%nat) in *.
  destruct (walk_from rcs off Hv Hlen sym0 (re_walk_fuel rcs)) as (s & _ & Hls & Hw).
  - apply Hlast0.
  - rewrite rw32_small by exact H32. destruct Hlast0 as (_ & Hb & _).
    pose proof (proj1 Hdom) as Hd1. lia.
  - unfold re_walk_fuel. lia.
  - rewrite rw32_small in Hls by exact H32.
    rewrite (last_le_unique rcs off _ _ Hls Hlast1) in Hw.
    rewrite Hlj, Hlo. exact Hw.
Qed.

(* the boundary of the table: offsets minBase + 1023 (last table entry) and minBase + 1024 (first
   walk): the two paths give the same symbol unless a range starts exactly at minBase + 1024 *)
Theorem encode_boundary rcs re :
  rcs_wf rcs -> N.of_nat (length rcs) <= 2 ^ 32 -> re_init rcs = RgOk re ->
  in_domain rcs (rbase rcs 0 + 1024) ->
  exists s1 s2,
    re_encode re (rbase rcs 0 + 1023) = RgOk (N.of_nat s1) /\ re_lut re 1023 = N.of_nat s1 /\
    re_encode re (rbase rcs 0 + 1024) = RgOk (N.of_nat s2) /\
    last_le rcs (rbase rcs 0 + 1023) s1 /\ last_le rcs (rbase rcs 0 + 1024) s2 /\
    (s2 = s1 \/ ((s1 < s2)%nat /\ rbase rcs s2 = rbase rcs 0 + 1024)).
Proof.
  intros Hwf Hlen Hinit Hdom.
  assert (Hdom' : in_domain rcs (rbase rcs 0 + 1023)) by (destruct Hdom; unfold in_domain; lia).
  assert (Hv : range_valid rcs).
  { apply check_valid_spec. destruct (check_valid rcs) eqn:E; [reflexivity|].
    rewrite re_init_invalid in Hinit by exact E. discriminate. }
  destruct (re_encode_table rcs re _ Hlen Hinit Hdom') as (He1 & Hl1); [lia|].
  replace (rbase rcs 0 + 1023 - rbase rcs 0) with 1023 in Hl1 by lia.
  destruct (cnt_le_last rcs (rbase rcs 0 + 1023) Hv) as (_ & Hlast1); [lia|].
  destruct (re_encode_domain rcs re _ Hwf Hlen Hinit Hdom) as (s2 & He2 & Hlast2 & _).
  exists (cnt_le rcs (rbase rcs 0 + 1023) - 1)%nat, s2.
  repeat split; try assumption; try apply Hlast1; try apply Hlast2.
  replace (rbase rcs 0 + 1024) with (rbase rcs 0 + 1023 + 1) in Hlast2 |- * by lia.
  apply (last_le_step rcs (rbase rcs 0 + 1023)); assumption.
Qed.

Example encode_boundary_ex :
  let rcs := make_range_codes 10 [9; 8; 7; 6; 5; 4; 3; 2; 1; 0; 0; 0; 3; 2] in
  in_domain rcs (rbase rcs 0 + 1024) /\
  match re_init rcs with
  | RgOk re => re_encode re 1033 = RgOk 10 /\ re_encode re 1034 = RgOk 11 /\ rbase rcs 11 = 1034
  | _ => False
  end.
Proof. vm_compute. repeat split; congruence. Qed.

(* every range start beyond the table is encoded (by the walk) to the last range starting there;
   for sets without overlap, to that very range *)
Theorem encode_range_start rcs re i :
  rcs_wf rcs -> N.of_nat (length rcs) <= 2 ^ 32 -> re_init rcs = RgOk re ->
  (i < length rcs)%nat -> in_domain rcs (rbase rcs i) ->
  exists s, re_encode re (rbase rcs i) = RgOk (N.of_nat s) /\ (i <= s)%nat /\
            rbase rcs s = rbase rcs i /\
            (range_contiguous rcs -> rbase rcs i < rend rcs i -> s = i).
Proof.
  intros Hwf Hlen Hinit Hi Hdom.
  assert (Hv : range_valid rcs).
  { apply check_valid_spec. destruct (check_valid rcs) eqn:E; [reflexivity|].
    rewrite re_init_invalid in Hinit by exact E. discriminate. }
  destruct (re_encode_domain rcs re _ Hwf Hlen Hinit Hdom) as (s & He & Hl & _).
  destruct (last_le_range_start rcs i s Hv Hi Hl) as (His & Hb).
  exists s. repeat split; try assumption.
  intros Hc Hne. symmetry. apply (holds_unique_contiguous rcs (rbase rcs i) s i Hv Hc Hl Hi).
  unfold holds. lia.
Qed.

(* ---- outside the domain ---------------------------------------------------------------------------- *)
(* below Base() (or 2^63 and more above it): the 64-bit difference is a negative int, which
   passes  idx < len(lut)  and indexes the table: run-time panic *)
Theorem re_encode_below re off :
  re_minBase re < 2 ^ 32 -> off < 2 ^ 64 ->
  off < re_minBase re \/ re_minBase re + 2 ^ 63 <= off ->
  re_encode re off = RgPanic.
Proof.
  intros Hm H64 Hoff. unfold re_encode.
  assert (H63 : 2 ^ 63 + 2 ^ 63 = 2 ^ 64) by reflexivity.
  assert (H32 : 2 ^ 32 < 2 ^ 63) by (apply N.pow_lt_mono_r; lia).
  set (m := re_minBase re) in *.
  assert (Hd : 2 ^ 63 <= rw64 (off + (2 ^ 64 - m)) < 2 ^ 64).
  { destruct Hoff as [Hlt|Hge].
    - unfold rw64. rewrite N.mod_small by lia. lia.
    - rewrite rw64_sub by lia. lia. }
  set (d := rw64 (off + (2 ^ 64 - m))) in *.
  destruct (d <? 2 ^ 63) eqn:E; [lia|].
  assert (Hz : (Z.of_N d - 2 ^ 64 < 0)%Z).
  { change (2 ^ 64)%Z with (Z.of_N (2 ^ 64)). lia. }
  unfold lut_len. destruct (Z.of_N d - 2 ^ 64 <? 1024)%Z eqn:E2; [|lia].
  unfold lut_get. destruct ((0 <=? Z.of_N d - 2 ^ 64) && (Z.of_N d - 2 ^ 64 <? lut_len))%Z eqn:E3;
    [lia | reflexivity].
Qed.

(* concrete outcomes outside [Base(), End()) = [5, 9):
     below Base(): panic;
     at/above End() but within the table: the entry was never written: symbol 0, and the extra
       value does not fit the extra bits (WriteBits would OR garbage into the stream);
     above End() beyond the table: the walk runs off the end: the last symbol, extra does not fit;
     above 2^32: the walk compares the TRUNCATED offset; 2^32 + 2 truncates to 2 < Base():
       sym - 1 with sym = 0 wraps to 2^64 - 1 and WriteOffset panics indexing rcs. *)
Example outside_domain :
  let rcs := make_range_codes 5 [1; 1] in
  match re_init rcs with
  | RgOk re =>
    re_encode re 4 = RgPanic /\
    re_encode re 9 = RgOk 0 /\ write_offset re 9 = RgOk (0, 4, 1) /\
    re_encode re 2005 = RgOk 1 /\ write_offset re 2005 = RgOk (1, 1998, 1) /\
    re_encode re (2 ^ 32 + 2) = RgOk (2 ^ 64 - 1) /\ write_offset re (2 ^ 32 + 2) = RgPanic /\
    re_encode re (2 ^ 32 + 6) = RgOk 0
  | _ => False
  end.
Proof. vm_compute. repeat split; reflexivity. Qed.

(* the hypotheses of the theorems above are satisfiable together: the DEFLATE distance set *)
Example hypotheses_ex :
  let rcs := make_range_codes 1 deflate_dist_bits in
  rcs_wf rcs /\ N.of_nat (length rcs) <= 2 ^ 32 /\ check_valid rcs = true /\
  in_domain rcs (rbase rcs 0 + 1024) /\ in_domain rcs (rbase rcs 25) /\
  rbase rcs 0 + 1024 <= rbase rcs 25.
Proof.
  destruct (make_range_codes_valid 1 deflate_dist_bits) as (Hwf & Hcv & _);
    [discriminate | vm_compute; reflexivity |].
  split; [exact Hwf|]. split; [vm_compute; discriminate|]. split; [exact Hcv|].
  vm_compute. repeat split; congruence.
Qed.

(* beyond End() and beyond the table the walk runs off the end of rcs: the last symbol (29) *)
Example re_encode_beyond_ex :
  let rcs := make_range_codes 1 deflate_dist_bits in
  match re_init rcs with
  | RgOk re => rcs_end rcs = RgOk 32769 /\ re_encode re 32769 = RgOk 29 /\
               re_encode re 40000 = RgOk 29 /\ re_lut re 1023 = 19
  | _ => False
  end.
Proof. vm_compute. repeat split; reflexivity. Qed.

(* ---- assumptions ------------------------------------------------------------------------------------- *)
Print Assumptions check_valid_spec.
Print Assumptions re_init_panic_iff.
Print Assumptions re_encode_domain.
Print Assumptions re_encode_beyond.
Print Assumptions write_read_offset.
Print Assumptions make_range_codes_valid.
Print Assumptions make_range_codes_encode.
Print Assumptions holds_unique_contiguous.
Print Assumptions lut_walk_agree.
Print Assumptions encode_boundary.
Print Assumptions encode_range_start.
Print Assumptions re_encode_below.
