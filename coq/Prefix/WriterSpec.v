(* What internal/prefix.Writer must do, stated on the abstract bit list, and the
   statements proved about its implementation-level model (Prefix/WriterImpl.v) in
   Prefix/WriterThms.v.

   The abstract state is one list: the bits written so far, in stream order. The byte
   stream is that list packed 8 per byte, the first bit of a group being the least
   significant bit of the byte for a little-endian Writer and the most significant one
   for a big-endian Writer ([pack]; the inverse direction is [stream_bits] of
   Prefix/ReaderSpec.v). *)
From V Require Import Base.Prelude Prefix.ReaderImpl Prefix.ReaderSpec Prefix.WriterImpl.

Local Open Scope N_scope.

(* ---- packing ------------------------------------------------------------------------ *)
(* whole bytes only: a tail of fewer than 8 bits is withheld *)
Fixpoint pack (big : bool) (l : list bool) : list byte :=
  match l with
  | b0 :: b1 :: b2 :: b3 :: b4 :: b5 :: b6 :: b7 :: r =>
    ord big (bits_val [b0; b1; b2; b3; b4; b5; b6; b7]) :: pack big r
  | _ => []
  end.

(* number of pad bits that take a stream of [len] bits to the next byte boundary *)
Definition pad_count (len : nat) : nat := ((8 - len mod 8) mod 8)%nat.

(* ---- preconditions ------------------------------------------------------------------- *)
(* [wpre bits o]: operation o is within the supported use at abstract state bits.
   A bit field must fit its declared width, and must fit the 64-bit bit buffer together
   with the (length bits mod 8) bits that PushBits cannot move out: at most 57 bits at the
   worst alignment, 64 at a byte boundary. *)
Definition wpre (bits : list bool) (o : bwop) : Prop :=
  match o with
  | BWBits v nb | BWChunk v nb => v < 2 ^ nb /\ N.of_nat (length bits mod 8) + nb <= 64
  | BWTryBits v nb | BWTryChunk v nb => v < 2 ^ nb
  | BWPads v => v < 2 ^ N.of_nat (pad_count (length bits))
  | BWRaw bs => bytes_ok bs
  | BWFlush | BWPush => True
  end.

(* state-independent sufficient condition: fields of at most 57 bits *)
Definition wpre57 (o : bwop) : Prop :=
  match o with
  | BWBits v nb | BWChunk v nb => v < 2 ^ nb /\ nb <= 57
  | BWTryBits v nb | BWTryChunk v nb => v < 2 ^ nb
  | BWPads v => v = 0
  | BWRaw bs => bytes_ok bs
  | BWFlush | BWPush => True
  end.

(* ---- effect on the abstract state ------------------------------------------------------ *)
(* The observation tells whether a Try* call accepted, whether WriteBits completed, and how
   many bytes of a raw Write were taken. *)
Definition weffect (big : bool) (bits : list bool) (o : bwop) (ob : wobs) : list bool :=
  match o, ob with
  | (BWBits v nb | BWChunk v nb), OWBits None _ => bits ++ val_bits (N.to_nat nb) v
  | (BWTryBits v nb | BWTryChunk v nb), OWTry true _ => bits ++ val_bits (N.to_nat nb) v
  | BWPads v, _ => bits ++ val_bits (pad_count (length bits)) v
  | BWRaw bs, OWRaw n _ _ => bits ++ stream_bits big (firstn n bs)
  | _, _ => bits
  end.

Definition obs_view (ob : wobs) : wview :=
  match ob with
  | OWBits _ vw | OWTry _ vw | OWPads vw | OWRaw _ _ vw | OWFlush _ _ vw | OWPush _ _ vw => vw
  end.

(* ---- what every observation shows ------------------------------------------------------- *)
(* [view_ok big bits' vw]: at abstract state bits' (after the operation):
   Offset is the number of bytes the sink accepted; BitsWritten is the number of abstract
   bits (in int64); what the sink holds is a prefix of the packed stream. *)
Definition view_ok (big : bool) (bits' : list bool) (vw : wview) : Prop :=
  v_offset vw = Z.of_nat (length (wsink_data (v_sink vw))) /\
  v_bits vw = int64_wrap (Z.of_nat (length bits')) /\
  prefix_of (wsink_data (v_sink vw)) (pack big bits').

(* the staging is bounded: at most 511 staged bytes and 64 buffered bits are withheld *)
Definition withheld_ok (bits' : list bool) (vw : wview) : Prop :=
  (length bits' <= 8 * length (wsink_data (v_sink vw)) + 8 * 511 + 64)%nat.

(* [wobs_ok big bits o ob]: ob is a correct outcome of o at abstract state bits when the
   sink did not fail during o. *)
Definition wobs_ok (big : bool) (bits : list bool) (o : bwop) (ob : wobs) : Prop :=
  let bits' := weffect big bits o ob in
  let vw := obs_view ob in
  view_ok big bits' vw /\ withheld_ok bits' vw /\
  match o with
  | BWBits _ _ | BWChunk _ _ => ob = OWBits None vw
  | BWTryBits _ nb | BWTryChunk _ nb =>
    exists ok, ob = OWTry ok vw /\
      (* (whether it accepts depends on how many whole bytes are still in the bit buffer:
         not abstract; a zero-width field is never refused) *)
      (ok = false -> 0 < nb)
  | BWPads _ => ob = OWPads vw
  | BWRaw bs =>
    if Nat.eqb (length bits mod 8) 0
    then ob = OWRaw (length bs) None vw /\ wsink_data (v_sink vw) = pack big bits'
    else ob = OWRaw 0 (Some EInvalid) vw
  | BWFlush =>
    (* everything but the at most 7 residual bits has reached the sink *)
    ob = OWFlush (Z.of_nat (length bits / 8)) None vw /\
    wsink_data (v_sink vw) = pack big bits /\
    v_offset vw = Z.of_nat (length bits / 8)
  | BWPush => exists n, ob = OWPush n None vw
  end.

(* [wobs_failed big bits o ob]: the sink failed during o (the observation carries the
   sink's error): what it accepted is still a prefix of the packed stream, Offset and
   BitsWritten are still exact. *)
Definition wobs_failed (big : bool) (bits : list bool) (o : bwop) (ob : wobs) : Prop :=
  let bits' := weffect big bits o ob in
  let vw := obs_view ob in
  view_ok big bits' vw /\
  match o, ob with
  | (BWBits _ _ | BWChunk _ _), OWBits (Some _) _ => True
  | BWRaw bs, OWRaw n (Some _) _ => (n <= length bs)%nat
  | BWFlush, OWFlush ret (Some _) _ => ret = v_offset vw
  | BWPush, OWPush n (Some _) _ => n = 0
  | _, _ => False
  end.

(* ---- histories -------------------------------------------------------------------------- *)
(* [wspec_run cont big bits ops obs]: the observations of a history are correct as long as
   the preconditions hold. At the first operation during which the sink fails, the
   observation must report it ([wobs_failed]); the rest of the history is constrained
   only when [cont] is set. *)
Fixpoint wspec_run (cont : bool) (big : bool) (bits : list bool) (ops : list bwop) (obs : list wobs) : Prop :=
  match ops, obs with
  | [], [] => True
  | o :: ops', ob :: obs' =>
    wpre bits o ->
    match obs_err ob with
    | Some (ESrc _) =>
      wobs_failed big bits o ob /\
      (cont = true -> wspec_run cont big (weffect big bits o ob) ops' obs')
    | _ =>
      wobs_ok big bits o ob /\ wspec_run cont big (weffect big bits o ob) ops' obs'
    end
  | _, _ => False
  end.

(* no observation carries a sink error or a panic *)
Definition no_error (ob : wobs) : Prop :=
  match obs_err ob with None | Some EInvalid => True | _ => False end.

(* ---- sinks ------------------------------------------------------------------------------ *)
Definition beh_accepts (b : sbeh) : Prop := b = SAccept.
(* fails without accepting a single byte *)
Definition beh_clean (b : sbeh) : Prop := match b with SAccept => True | SFail k _ => k = O end.

Definition sink_faultfree (script : list sbeh) (rest : sbeh) : Prop :=
  Forall beh_accepts script /\ beh_accepts rest.
Definition sink_clean (script : list sbeh) (rest : sbeh) : Prop :=
  Forall beh_clean script /\ beh_clean rest.

(* the behaviour the next call will meet *)
Definition next_beh (s : wsink) : sbeh :=
  match k_script s with [] => k_rest s | b :: _ => b end.

(* [calls s l s']: the sink went from s to s' by |l| Write calls that met the behaviours l *)
Inductive calls : wsink -> list sbeh -> wsink -> Prop :=
| calls_nil s : calls s [] s
| calls_cons s d l s' : calls (snd (wsink_write s d)) l s' -> calls s (next_beh s :: l) s'.

Definition beh_err (b : sbeh) : option err :=
  match b with SAccept => None | SFail _ t => Some (ESrc t) end.

(* [reported l e]: e is what an operation must report when the sink calls it made met
   the behaviours l: no call after a failed one, the failed call's error as the outcome;
   no sink error as the outcome when no call failed. *)
Inductive reported : list sbeh -> option err -> Prop :=
| rep_ok l e : Forall beh_accepts l -> (forall t, e <> Some (ESrc t)) -> reported l e
| rep_fail l k t : Forall beh_accepts l -> reported (l ++ [SFail k t]) (Some (ESrc t)).

(* ======================================================================================= *)
(* THE STATEMENTS (proved in WriterThms.v)                                                  *)
(* ======================================================================================= *)

(* (a) fault-free sink: every history, both bit orders. (The per-observation content is
   [wobs_ok]: prefix/packed stream, Offset, BitsWritten, no error, no panic.) *)
Definition writer_refines_faultfree : Prop :=
  forall big script rest ops, sink_faultfree script rest ->
    let obs := fst (bwrun (winit script rest big) ops) in
    wspec_run true big [] ops obs /\
    (* with fields of at most 57 bits: an observation for every operation (no run-time
       panic ended the history) and none is an error other than Invalid *)
    (Forall wpre57 ops -> length obs = length ops /\ Forall no_error obs).

(* (b1) arbitrary sink, arbitrary history, NO precondition: Offset is the number of bytes
   the sink accepted, after every operation *)
Definition offset_counts_accepted : Prop :=
  forall big script rest ops,
    let '(obs, p) := bwrun (winit script rest big) ops in
    Forall (fun ob => v_offset (obs_view ob) = Z.of_nat (length (wsink_data (v_sink (obs_view ob))))) obs /\
    w_offset p = Z.of_nat (length (wsink_data (bw_sink p))).

(* (b2) arbitrary sink, ANY state (poisoned or not), NO precondition: a sink error is
   reported by the operation during which it happened, and that operation makes no further
   sink call; an operation whose sink calls all succeeded does not report a sink error *)
Definition sink_error_never_swallowed : Prop :=
  forall p o, let '(ob, p') := bwstep p o in
    exists l, calls (bw_sink p) l (bw_sink p') /\ reported l (obs_err ob).

(* (b3) arbitrary sink: up to and including the first operation during which the sink
   fails, the history is as in (a), and at the failure the sink holds a prefix of the
   packed stream; nothing is claimed about the operations after it. *)
Definition writer_refines_until_failure : Prop :=
  forall big script rest ops,
    wspec_run false big [] ops (fst (bwrun (winit script rest big) ops)).

(* (b4) a sink whose failures accept nothing: the failure leaves the Writer consistent
   (the failed WriteBits did not happen, the failed Flush can be retried); the whole
   history is constrained *)
Definition writer_refines_clean_failures : Prop :=
  forall big script rest ops, sink_clean script rest ->
    wspec_run true big [] ops (fst (bwrun (winit script rest big) ops)).

(* ---- (c) round trip with the bit Reader ---------------------------------------------------- *)
(* histories of WriteBits / WriteSymbol / WritePads / raw Write; [R] is the bit position *)
Fixpoint rt_pre (R : nat) (ops : list bwop) : Prop :=
  match ops with
  | [] => True
  | BWBits v nb :: r | BWChunk v nb :: r => v < 2 ^ nb /\ nb <= 57 /\ rt_pre (R + N.to_nat nb) r
  | BWPads v :: r => v < 2 ^ N.of_nat (pad_count R) /\ rt_pre (R + pad_count R) r
  | BWRaw bs :: r => bytes_ok bs /\ (R mod 8 = 0)%nat /\ rt_pre (R + 8 * length bs) r
  | _ :: _ => False
  end.

(* the corresponding Reader history: a raw Write of n bytes is read back by n raw Reads of
   one byte (a raw Read of k bytes may legitimately return fewer) *)
Fixpoint rd_ops (ops : list bwop) : list pop :=
  match ops with
  | [] => []
  | BWBits _ nb :: r | BWChunk _ nb :: r => PBits nb :: rd_ops r
  | BWPads _ :: r => PPads :: rd_ops r
  | BWRaw bs :: r => repeat (PRaw 1) (length bs) ++ rd_ops r
  | _ :: r => rd_ops r
  end.

Fixpoint rd_raw_expect (R : nat) (bs : list byte) : list pobs :=
  match bs with
  | [] => []
  | b :: r => ORaw [b] 0 (Z.of_nat (R + 8)) :: rd_raw_expect (R + 8) r
  end.

(* what the Reader must return: exactly the values written *)
Fixpoint rd_expect (R : nat) (ops : list bwop) : list pobs :=
  match ops with
  | [] => []
  | BWBits v nb :: r | BWChunk v nb :: r =>
    OBits (Some v) (Z.of_nat (R + N.to_nat nb)) :: rd_expect (R + N.to_nat nb) r
  | BWPads v :: r => OPads v (Z.of_nat (R + pad_count R)) :: rd_expect (R + pad_count R) r
  | BWRaw bs :: r => rd_raw_expect R bs ++ rd_expect (R + 8 * length bs) r
  | _ :: r => rd_expect R r
  end.

Definition writer_reader_roundtrip : Prop :=
  forall big script rest ops vl buffered fills reads,
    sink_faultfree script rest ->
    rt_pre 0 (ops ++ [BWPads vl]) ->
    let '(_, p) := bwrun (winit script rest big) (ops ++ [BWPads vl; BWFlush]) in
    let data := wsink_data (bw_sink p) in
    until_panic (prun (init data buffered big fills reads) (rd_ops (ops ++ [BWPads vl])))
    = rd_expect 0 (ops ++ [BWPads vl]).
