(* Link to the canonical codes of RFC 1951 3.2.2 (Flate/Spec.v [canonical], Flate/Canon.v):
   the table built from the bit-reversed canonical codes of a complete length assignment is
   built from a VALID and ZERO-MINIMAL code set, so it decodes every canonical code word, and
   the byte-exact ReadSymbol theorem applies. *)
From Coq Require Import Sorted.
From V Require Import Base.Prelude Base.Prog Flate.Spec Flate.Canon Bzip2.Common Bzip2.SpecW Prefix.Code
  Prefix.ReaderImpl Prefix.DecTable Prefix.DecTableSpec Prefix.DecTableThms.

Local Open Scope N_scope.
Local Ltac Zify.zify_post_hook ::= idtac.

(* a canonical entry (sym, len, code MSB-first) as a table code: Val = the code bit-reversed *)
Definition rcode (e : N * N * N) : pcode :=
  (fst (fst e), snd (fst e), bits_val (word e)).
Definition canon_codes (lens : list (N * N)) : list pcode := map rcode (canonical lens).

(* this is ReverseUint32N of GeneratePrefixes *)
Lemma rcode_reverse_bits s l c : rcode (s, l, c) = (s, l, reverse_bits c l).
Proof. reflexivity. Qed.

Lemma prod_eq_dec3 (a b : N * N * N) : {a = b} + {a <> b}.
Proof. repeat decide equality. Qed.

(* ---- bit lists ---------------------------------------------------------------------------- *)
Lemma val_bits_app a m : forall v,
  val_bits (a + m) v = val_bits a v ++ val_bits m (v / 2 ^ N.of_nat a).
Proof.
  induction a as [|a IH]; intros v.
  - cbn [Nat.add val_bits app]. change (2 ^ N.of_nat 0) with 1. rewrite N.div_1_r. reflexivity.
  - cbn [Nat.add val_bits app]. rewrite IH. f_equal. f_equal.
    rewrite N.div2_div, Nat2N.inj_succ, N.pow_succ_r', N.div_div by (try apply pow2_nz; discriminate).
    reflexivity.
Qed.

Lemma val_bits_firstn a m v : firstn a (val_bits (a + m) v) = val_bits a v.
Proof.
  rewrite val_bits_app. rewrite firstn_app, val_bits_length, Nat.sub_diag. cbn [firstn].
  rewrite app_nil_r. rewrite <- (val_bits_length a v) at 1. apply firstn_all.
Qed.

Lemma val_bits_mod n v : val_bits n (v mod 2 ^ N.of_nat n) = val_bits n v.
Proof.
  rewrite <- bits_val_val_bits. rewrite <- (val_bits_length n v) at 1. apply val_bits_bits_val.
Qed.

Lemma val_bits_zero m : val_bits m 0 = repeat false m.
Proof.
  induction m as [|m IH]; [reflexivity|]. cbn [val_bits repeat].
  change (N.odd 0) with false. change (N.div2 0) with 0. rewrite IH. reflexivity.
Qed.

Lemma bits_val_zeros m : bits_val (repeat false m) = 0.
Proof. induction m as [|m IH]; [reflexivity|]. cbn [repeat bits_val N.b2n]. rewrite IH. reflexivity. Qed.

Lemma word_len e : length (word e) = N.to_nat (snd (fst e)).
Proof. unfold word. apply msb_bits_len. Qed.

(* matching, on bit lists *)
Lemma matches_word e b : matches (rcode e) b <-> val_bits (N.to_nat (snd (fst e))) b = word e.
Proof.
  unfold matches, rcode, c_len, c_val. cbn [fst snd]. split; intros H.
  - rewrite <- val_bits_mod, N2Nat.id, H. rewrite <- word_len. apply val_bits_bits_val.
  - rewrite <- H, bits_val_val_bits, N2Nat.id. reflexivity.
Qed.

(* ---- every long enough bit string starts with a canonical code word ----------------------- *)
(* (the proof of Flate.Canon.tree_complete, keeping the code word instead of the trie walk) *)
Lemma canonical_covers lens bits :
  lens_pos lens -> complete lens = true ->
  (N.to_nat (max_len lens) <= length bits)%nat ->
  exists s l c rest, In (s, l, c) (canonical lens) /\ bits = msb_bits (N.to_nat l) c ++ rest.
Proof.
  intros Hp Hc Hlen.
  pose proof (complete_kraft_ok lens Hc) as Hk.
  unfold complete in Hc. apply N.eqb_eq in Hc.
  set (m := max_len lens) in *.
  set (w := firstn (N.to_nat m) bits).
  assert (Hw : length w = N.to_nat m) by (unfold w; rewrite firstn_length; lia).
  assert (Hb : bits = w ++ skipn (N.to_nat m) bits) by (symmetry; apply firstn_skipn).
  pose proof (bits_val_bound (rev w)) as Hv. rewrite rev_length, Hw, N2Nat.id in Hv.
  destruct (tiling lens m (bits_val (rev w)) Hp m) as (l & Hl & Hi).
  { lia. }
  { rewrite N.sub_diag. change (2 ^ 0) with 1. rewrite (pk_kraft_eq lens m) by (unfold m; lia). lia. }
  set (a := firstn (N.to_nat l) w).
  set (t := skipn (N.to_nat l) w).
  assert (Ha : length a = N.to_nat l) by (unfold a; rewrite firstn_length; lia).
  assert (Hat : w = a ++ t) by (symmetry; apply firstn_skipn).
  assert (Ht : N.of_nat (length t) = m - l).
  { apply (f_equal (@length bool)) in Hat. rewrite app_length in Hat. lia. }
  pose proof (app_val_interval a t) as Hint. rewrite <- Hat, Ht in Hint.
  set (va := bits_val (rev a)) in *.
  assert (Hz : 0 < 2 ^ (m - l)) by apply pow2_pos.
  assert (H1 : fc lens l < va + 1).
  { apply (N.mul_lt_mono_pos_l _ _ _ Hz). lia. }
  assert (H2 : va < pk lens l).
  { apply (N.mul_lt_mono_pos_l _ _ _ Hz). lia. }
  rewrite <- fc_count in H2.
  destruct (count_len_nth lens l (va - fc lens l)) as (pre & s & post & E & Hcnt); [lia|].
  assert (Hin : In (s, l, va) (canonical lens)).
  { apply (canonical_spec lens Hp). exists pre, post. split; [exact E | lia]. }
  exists s, l, va, (t ++ skipn (N.to_nat m) bits). split; [exact Hin|].
  rewrite Hb at 1. rewrite Hat, <- app_assoc. f_equal.
  unfold va. rewrite <- Ha. symmetry. apply msb_bits_of_word.
Qed.

Section Canon.
Variable lens : list (N * N).
Hypothesis Hp : lens_pos lens.
Hypothesis Hc : complete lens = true.

Lemma canon_in c : In c (canon_codes lens) -> exists e, In e (canonical lens) /\ c = rcode e.
Proof. intros H. apply in_map_iff in H. destruct H as (e & <- & He). exists e. split; [exact He | reflexivity]. Qed.

Lemma canon_entry_len s l c : In (s, l, c) (canonical lens) -> 1 <= l <= max_len lens.
Proof.
  intros H. apply (canonical_spec lens Hp) in H. destruct H as (pre & post & E & _).
  assert (Hin : In (s, l) lens) by (rewrite E; apply in_or_app; right; left; reflexivity).
  split; [apply (Hp s l Hin) | apply (max_len_ge lens s l Hin)].
Qed.

Theorem canon_complete : complete_codes (canon_codes lens).
Proof.
  intros b.
  destruct (canonical_covers lens (val_bits (N.to_nat (max_len lens)) b) Hp Hc)
    as (s & l & c & rest & Hin & Eb); [rewrite val_bits_length; lia|].
  exists (rcode (s, l, c)). split; [apply in_map; exact Hin|].
  apply matches_word. cbn [fst snd]. unfold word. cbn [fst snd].
  pose proof (canon_entry_len s l c Hin) as Hl.
  replace (N.to_nat (max_len lens)) with (N.to_nat l + (N.to_nat (max_len lens) - N.to_nat l))%nat in Eb by lia.
  rewrite <- (val_bits_firstn (N.to_nat l) (N.to_nat (max_len lens) - N.to_nat l) b), Eb.
  rewrite firstn_app, msb_bits_len, Nat.sub_diag. cbn [firstn]. rewrite app_nil_r.
  rewrite <- (msb_bits_len (N.to_nat l) c) at 1. apply firstn_all.
Qed.

Theorem canon_unique : unique_codes (canon_codes lens).
Proof.
  intros b c1 c2 H1 H2 M1 M2.
  destruct (canon_in c1 H1) as ([[s1 l1] v1] & I1 & ->).
  destruct (canon_in c2 H2) as ([[s2 l2] v2] & I2 & ->).
  apply matches_word in M1, M2. cbn [fst snd] in M1, M2.
  pose proof (complete_kraft_ok lens Hc) as Hk.
  destruct (N.le_ge_cases l1 l2) as [Hle|Hle].
  - destruct (prod_eq_dec3 (s1, l1, v1) (s2, l2, v2)) as [E|Hne]; [rewrite E; reflexivity | exfalso].
    apply (canonical_prefix_free_gen lens s1 l1 v1 s2 l2 v2 Hp Hk I1 I2 Hne).
    unfold word in M1, M2. cbn [fst snd] in M1, M2. rewrite <- M1, <- M2.
    replace (N.to_nat l2) with (N.to_nat l1 + (N.to_nat l2 - N.to_nat l1))%nat by lia.
    rewrite val_bits_app. apply prefix_of_app.
  - destruct (prod_eq_dec3 (s2, l2, v2) (s1, l1, v1)) as [E|Hne]; [rewrite E; reflexivity | exfalso].
    apply (canonical_prefix_free_gen lens s2 l2 v2 s1 l1 v1 Hp Hk I2 I1 Hne).
    unfold word in M1, M2. cbn [fst snd] in M1, M2. rewrite <- M1, <- M2.
    replace (N.to_nat l1) with (N.to_nat l2 + (N.to_nat l1 - N.to_nat l2))%nat by lia.
    rewrite val_bits_app. apply prefix_of_app.
Qed.

Theorem canon_valid L : (2 <= length lens)%nat -> max_len lens <= L -> dec_valid L (canon_codes lens).
Proof.
  intros H2 HL. split; [split| exact canon_complete | exact canon_unique].
  - unfold canon_codes. rewrite map_length.
    rewrite <- (map_length (fun e => fst (fst e))), canonical_syms, map_length. exact H2.
  - intros c Hin. destruct (canon_in c Hin) as ([[s l] v] & I & ->).
    pose proof (canon_entry_len s l v I). unfold rcode, c_len. cbn [fst snd]. lia.
  - intros c Hin. destruct (canon_in c Hin) as ([[s l] v] & I & ->).
    unfold rcode, c_len, c_val. cbn [fst snd].
    pose proof (bits_val_bound (word (s, l, v))) as Hb. rewrite word_len in Hb. cbn [fst snd] in Hb.
    rewrite N2Nat.id in Hb. exact Hb.
Qed.

(* canonical codes are zero-minimal: the zero completion of a proper prefix of a code word is
   the numerically smallest word with that prefix, and in a canonical code shorter words
   precede longer ones *)
Theorem canon_zero_min : zero_min (canon_codes lens).
Proof.
  intros c k c' Hin Hin' Hk Hm.
  destruct (canon_in c Hin) as ([[s l] v] & I & ->).
  destruct (canon_in c' Hin') as ([[s' l'] v'] & I' & ->).
  unfold rcode, c_len, c_val in *. cbn [fst snd] in *.
  destruct (N.le_gt_cases l' l) as [Hle|Hgt]; [exact Hle | exfalso].
  pose proof (complete_kraft_ok lens Hc) as Hkr.
  pose proof (canonical_fits lens s l v Hp Hkr I) as Hv.
  pose proof (canonical_fits lens s' l' v' Hp Hkr I') as Hv'.
  set (w := word (s, l, v)) in *. set (w' := word (s', l', v')) in *.
  assert (Hwl : length w = N.to_nat l) by (unfold w; rewrite word_len; reflexivity).
  (* the word of c' is: k bits of w, then zeros *)
  set (a := firstn (N.to_nat k) w).
  assert (Ew' : w' = a ++ repeat false (N.to_nat l' - N.to_nat k)).
  { assert (Hmw : matches (rcode (s', l', v')) (bits_val w mod 2 ^ k)) by exact Hm.
    apply matches_word in Hmw. cbn [fst snd] in Hmw. fold w' in Hmw. rewrite <- Hmw.
    replace (N.to_nat l') with (N.to_nat k + (N.to_nat l' - N.to_nat k))%nat at 1 by lia.
    rewrite val_bits_app. rewrite N2Nat.id.
    rewrite N.div_small by (apply N.mod_lt, pow2_nz). rewrite val_bits_zero. f_equal.
    replace (2 ^ k) with (2 ^ N.of_nat (N.to_nat k)) by (rewrite N2Nat.id; reflexivity).
    rewrite val_bits_mod.
    unfold a. rewrite <- (val_bits_bits_val w) at 2. rewrite Hwl.
    replace (N.to_nat l) with (N.to_nat k + (N.to_nat l - N.to_nat k))%nat by lia.
    symmetry. apply val_bits_firstn. }
  set (t := skipn (N.to_nat k) w).
  assert (Ew : w = a ++ t) by (symmetry; apply firstn_skipn).
  assert (Hal : length a = N.to_nat k) by (unfold a; rewrite firstn_length; lia).
  assert (Htl : N.of_nat (length t) = l - k).
  { apply (f_equal (@length bool)) in Ew. rewrite app_length in Ew. lia. }
  set (A := bits_val (rev a)).
  (* the numbers *)
  assert (Ev : v = bits_val (rev w)).
  { unfold w, word. cbn [fst snd]. symmetry. apply msb_bits_val. rewrite N2Nat.id. exact Hv. }
  assert (Ev' : v' = bits_val (rev w')).
  { unfold w', word. cbn [fst snd]. symmetry. apply msb_bits_val. rewrite N2Nat.id. exact Hv'. }
  assert (Hv'A : v' = 2 ^ (l' - k) * A).
  { rewrite Ev', Ew', rev_app_distr, bits_val_app, rev_length, repeat_length.
    assert (Hz : bits_val (rev (repeat false (N.to_nat l' - N.to_nat k))) = 0).
    { assert (Hr : forall m, rev (repeat false m) = repeat false m).
      { induction m as [|m IHm]; [reflexivity|]. cbn [repeat rev]. rewrite IHm.
        clear. induction m as [|m IH]; [reflexivity|]. cbn [repeat app]. rewrite IH. reflexivity. }
      rewrite Hr. apply bits_val_zeros. }
    rewrite Hz, N.add_0_l. f_equal. f_equal. lia. }
  assert (HvA : 2 ^ (l - k) * A <= v).
  { rewrite Ev, Ew. pose proof (app_val_interval a t) as Hi. rewrite Htl in Hi. apply Hi. }
  pose proof (canonical_lt_pk lens s l v Hp I) as [_ Hlt].
  pose proof (canonical_lt_pk lens s' l' v' Hp I') as [Hge' _].
  pose proof (fc_ge_pk lens l l' Hgt) as Hfc.
  (* v' >= 2^(l'-l) * pk l >= 2^(l'-l) * (v+1) > 2^(l'-l) * 2^(l-k) * A = v' *)
  assert (Hsplit : 2 ^ (l' - k) = 2 ^ (l' - l) * 2 ^ (l - k)).
  { rewrite <- N.pow_add_r. f_equal. lia. }
  assert (H1 : 2 ^ (l' - l) * (v + 1) <= 2 ^ (l' - l) * pk lens l) by (apply N.mul_le_mono_l; lia).
  assert (H2 : 2 ^ (l' - l) * (2 ^ (l - k) * A) <= 2 ^ (l' - l) * v) by (apply N.mul_le_mono_l; exact HvA).
  rewrite N.mul_assoc, <- Hsplit, <- Hv'A in H2.
  pose proof (pow2_pos (l' - l)) as Hpos.
  rewrite N.mul_add_distr_l, N.mul_1_r in H1.
  generalize dependent (2 ^ (l' - l) * v). generalize dependent (2 ^ (l' - l) * pk lens l).
  generalize dependent (fc lens l'). generalize dependent (2 ^ (l' - l)). intros. lia.
Qed.

End Canon.

Lemma reverse_bits_lt v n : reverse_bits v n < 2 ^ n.
Proof.
  unfold reverse_bits. rewrite fast_rev_eq.
  pose proof (bits_val_bound (rev (val_bits (N.to_nat n) v))) as Hb.
  rewrite rev_length, val_bits_length, N2Nat.id in Hb. exact Hb.
Qed.

(* ---- consequences -------------------------------------------------------------------------- *)
(* the table built from the bit-reversed canonical codes of a complete length assignment
   decodes each canonical code word, followed by anything *)
Theorem canon_table_decodes lens L oldC oldL :
  lens_pos lens -> complete lens = true -> (2 <= length lens)%nat -> max_len lens <= L -> L <= 31 ->
  exists d, dec_init oldC oldL (canon_codes lens) = IOk d /\ tables_ok (canon_codes lens) d /\
    forall s l c rest, In (s, l, c) (canonical lens) ->
      dec_lookup d (reverse_bits c l + 2 ^ l * rest) = Some (s mod 2 ^ 27, l).
Proof.
  intros Hp Hc H2 HM HL.
  pose proof (canon_valid lens Hp Hc L H2 HM) as HV.
  destruct (dec_table_correct L (canon_codes lens) oldC oldL HL HV) as (d & E & HT & Hl).
  exists d. split; [exact E|]. split; [exact HT|]. intros s l c rest Hin.
  rewrite (Hl _ (rcode (s, l, c))); [reflexivity | apply in_map; exact Hin |].
  unfold matches, rcode, c_len, c_val. cbn [fst snd]. fold (reverse_bits c l).
  rewrite N.mul_comm, N.mod_add by apply pow2_nz. apply N.mod_small. apply reverse_bits_lt.
Qed.

Lemma reverse_bits_invol v n : v < 2 ^ n -> reverse_bits (reverse_bits v n) n = v.
Proof.
  intros H. unfold reverse_bits. rewrite !fast_rev_eq.
  set (w := rev (val_bits (N.to_nat n) v)).
  assert (Hw : length w = N.to_nat n) by (unfold w; rewrite rev_length; apply val_bits_length).
  rewrite <- Hw, val_bits_bits_val. unfold w. rewrite rev_involutive, bits_val_val_bits, N2Nat.id.
  apply N.mod_small. exact H.
Qed.

(* a code list whose bit-reversal is the canonical code of [lens] (the form in which
   GeneratePrefixes' output is characterised: valid_code.vc_canonical of
   Prefix/GenPrefixesThms.v) is the list [canon_codes lens] *)
Lemma of_canonical_eq lens (out : list pcode) :
  map (fun e => (c_sym e, c_len e, reverse_bits (c_val e) (c_len e))) out = canonical lens ->
  (forall e, In e out -> c_val e < 2 ^ c_len e) ->
  out = canon_codes lens.
Proof.
  intros E Hv. unfold canon_codes. rewrite <- E, map_map.
  rewrite <- (map_id out) at 1. apply map_ext_in. intros [[s l] v] Hin.
  unfold rcode, word, c_sym, c_len, c_val. cbn [fst snd].
  change (bits_val (msb_bits (N.to_nat l) (reverse_bits v l))) with (reverse_bits (reverse_bits v l) l).
  rewrite reverse_bits_invol; [reflexivity|]. apply (Hv _ Hin).
Qed.

Theorem of_canonical_valid lens (out : list pcode) L :
  lens_pos lens -> complete lens = true -> (2 <= length lens)%nat -> max_len lens <= L ->
  map (fun e => (c_sym e, c_len e, reverse_bits (c_val e) (c_len e))) out = canonical lens ->
  (forall e, In e out -> c_val e < 2 ^ c_len e) ->
  dec_valid L out /\ zero_min out.
Proof.
  intros Hp Hc H2 HM E Hv. rewrite (of_canonical_eq lens out E Hv).
  split; [apply canon_valid; assumption | apply canon_zero_min; assumption].
Qed.

(* The link to the model of GeneratePrefixes (Prefix/Code.v [gen_prefixes]); proved by
   combining [of_canonical_valid] with the characterisation of gen_prefixes' output
   (Prefix/GenPrefixesThms.v, another file of this development); stated here so that this
   file does not depend on it. *)
Definition gen_prefixes_valid_statement : Prop :=
  forall lens out, (2 <= length lens)%nat -> gen_prefixes lens = GPOk out ->
    (forall s l, In (s, l) lens -> l <= 27) ->
    dec_valid 27 out /\ zero_min out /\ map (fun e => (c_sym e, c_len e)) out = lens.

(* non-vacuity: the fixed literal/length code of RFC 1951 3.2.6 (288 symbols, lengths 7..9) *)
Example fixed_code_table :
  exists d, dec_init (fun i => i + 1) (fun _ => 7) (canon_codes fixedLitLens) = IOk d /\
    (* symbol 256 (end of block) has the 7-bit code 0000000; symbol 144 has 9 bits: 110010000 *)
    dec_lookup d (0 + 2 ^ 7 * 99) = Some (256, 7) /\
    dec_lookup d (reverse_bits 400 9 + 2 ^ 9 * 5) = Some (144, 9) /\
    zero_min (canon_codes fixedLitLens).
Proof.
  destruct fixedLit_hyps as (Hp & Hc & _).
  destruct (canon_table_decodes fixedLitLens 27 (fun i => i + 1) (fun _ => 7) Hp Hc)
    as (d & E & _ & Hl); try (vm_compute; lia); try lia.
  { vm_compute. intros H; discriminate H. }
  exists d. split; [exact E|].
  assert (H256 : In (256, 7, 0) (canonical fixedLitLens)) by (vm_compute; tauto).
  assert (H144 : In (144, 9, 400) (canonical fixedLitLens)) by (vm_compute; tauto).
  split; [|split].
  - apply (Hl 256 7 0 99 H256).
  - apply (Hl 144 9 400 5 H144).
  - apply canon_zero_min; assumption.
Qed.

Print Assumptions canon_valid.
Print Assumptions canon_zero_min.
Print Assumptions canon_table_decodes.
Print Assumptions of_canonical_valid.
Print Assumptions fixed_code_table.
