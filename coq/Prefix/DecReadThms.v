(* ReadSymbol over the bit-buffer model (Prefix/ReaderImpl.v) with the tables of
   Prefix/DecTable.v: THEOREM (c). The stream begins with the code word of a symbol: the
   symbol is returned and exactly the code word is consumed, on both source disciplines;
   the stream ends inside every candidate code word: io.ErrUnexpectedEOF. *)
From V Require Import Base.Prelude Bzip2.Common Prefix.ReaderImpl Prefix.ReaderSpec Prefix.ReaderThms
  Prefix.DecTable Prefix.DecTableSpec Prefix.DecTableThms.

Local Open Scope N_scope.
Local Ltac Zify.zify_post_hook ::= idtac.

Ltac prj := cbn [p_src p_buffered p_big p_bufBits p_numBits p_peek p_discard p_fed p_offset
                 s_data s_pos s_buf s_fills s_reads fst snd].

Section ReadSymbol.
Variable big : bool.
Variable data : list byte.
Hypothesis Hd : forall b, In b data -> b < 256.

Notation f := (sbit big data).
Notation Core := (Core big data).
Notation Inv := (Inv big data).

(* the next 64 stream bits at position R as a number (zeros beyond the end of the data) *)
Definition window (R : nat) : N := bits_at (stream_bits big data) R 64.

Lemma window_low R n : n <= 64 ->
  window R mod 2 ^ n = bits_at (stream_bits big data) R (N.to_nat n).
Proof.
  intros Hn. apply N.bits_inj. intros i. unfold window.
  rewrite testbit_mod_pow2, !testbit_bits_at, N2Nat.id.
  destruct (i <? n) eqn:E; [|reflexivity].
  replace (i <? N.of_nat 64) with true by (symmetry; apply N.ltb_lt; apply N.ltb_lt in E; lia).
  reflexivity.
Qed.

Lemma exact_window R v n : exact f R v n -> n <= 64 -> v mod 2 ^ n = window R mod 2 ^ n.
Proof.
  intros He Hn. rewrite window_low by exact Hn. apply (exact_bits_at big data R v n n He). lia.
Qed.

(* the state between a PullBits and the consumption that follows it: consistent with the
   abstract position, but a ByteReader may hold whole look-ahead bytes *)
Definition PI (R : nat) (p : prd) : Prop :=
  Core R p (effd p) /\
  (p_buffered p = true -> (-7 <= effd p)%Z) /\
  (p_buffered p = false -> p_peek p = []).

Lemma Inv_PI R p : Inv R p -> PI R p.
Proof. intros (H1 & H2 & H3). split; [exact H1|]. split; [intros _; exact H2 | exact H3]. Qed.

Lemma PI_bits_read R p : PI R p -> bits_read p = Z.of_nat R.
Proof. intros [H _]. rewrite bits_read_effd. destruct H. lia. Qed.

Lemma PI_numBits R p : PI R p ->
  p_numBits p <= 64 /\ (R + N.to_nat (p_numBits p) <= 8 * length data)%nat /\
  p_bufBits p mod 2 ^ p_numBits p = window R mod 2 ^ p_numBits p.
Proof.
  intros [[_ _ _ _ [W1 _ W3 W4 _] _] _]. split; [exact W1|]. split; [exact W3|].
  apply exact_window; assumption.
Qed.

(* PullBits from a pulled state *)
Lemma pull_ok R p nb : PI R p -> nb <= 57 ->
  (p_buffered p = false -> p_numBits p < nb + 8) ->
  match pull_bits p nb with
  | (false, p') => PI R p' /\ nb <= p_numBits p' /\ p_buffered p' = p_buffered p /\
                   (p_buffered p = false -> p_numBits p' < nb + 8)
  | (true, _) => (8 * length data < R + N.to_nat nb)%nat
  end.
Proof.
  intros (HC & Hd7 & Hpk) Hnb Hlt. unfold pull_bits. destruct (p_buffered p) eqn:Hb.
  - set (p0 := mkPrd _ _ _ _ _ _ _ _ _).
    assert (HLI : LI big data R p0).
    { unfold effd in *. rewrite Hb in *. destruct HC as [C1 C2 C3 C4 C5 C6].
      split; [reflexivity|]. split; [|exact (Hd7 eq_refl)]. split; assumption. }
    pose proof (pull_loop_ok big data Hd R nb Hnb 12 p0 HLI) as Hl.
    destruct (pull_loop 12 p0 nb) as [[|] p1].
    + apply Hl. lia.
    + destruct Hl as ((Hb1 & HC1 & Hd1) & Hnb1); [lia|].
      split; [|split; [exact Hnb1 | split; [reflexivity | discriminate]]].
      destruct HC1 as [C1 C2 C3 C4 C5 C6].
      unfold PI, effd. prj. split; [|split]; [|intros _; lia | discriminate].
      split; prj; try assumption; lia.
  - unfold effd in *. rewrite Hb in *.
    pose proof (pull_bytes_ok big data Hd R nb Hnb 9 p Hb HC (Hpk eq_refl) (Hlt eq_refl)) as Hy.
    destruct (pull_bytes 9 p nb) as [[|] p1].
    + apply Hy; lia.
    + destruct Hy as (H1 & H2 & H3 & H4 & H5); [lia|].
      split; [|split; [exact H4 | split; [exact H2 | intros _; exact H5]]].
      unfold PI, effd. rewrite H2. split; [exact H1|]. split; [discriminate | intros _; exact H3].
Qed.

(* consuming nb <= numBits bits from a pulled state *)
Lemma take_ok R p nb : PI R p -> nb <= p_numBits p ->
  PI (R + N.to_nat nb) (snd (take_bits p nb)) /\
  p_buffered (snd (take_bits p nb)) = p_buffered p /\
  p_numBits (snd (take_bits p nb)) = p_numBits p - nb.
Proof.
  intros (HC & Hd7 & Hpk) Hnb. destruct HC as [C1 C2 C3 C4 C5 C6].
  unfold take_bits. prj. split; [|split; reflexivity].
  unfold PI, effd in *. prj. split; [|split].
  - split; prj; try assumption.
    + destruct (p_buffered p); lia.
    + apply Win_take; assumption.
    + replace (R + N.to_nat nb + N.to_nat (p_numBits p - nb))%nat
        with (R + N.to_nat (p_numBits p))%nat by lia. exact C6.
  - intros Hb. specialize (Hd7 Hb). rewrite Hb in *. lia.
  - exact Hpk.
Qed.

(* with fewer than 8 bits left in a ByteReader's buffer, the state is an [Inv] state again *)
Lemma PI_Inv R p : PI R p -> (p_buffered p = false -> p_numBits p < 8) -> Inv R p.
Proof.
  intros (HC & Hd7 & Hpk) Hlt. split; [exact HC|]. split; [|exact Hpk].
  destruct (p_buffered p) eqn:Hb; [apply Hd7; reflexivity|].
  unfold effd. rewrite Hb. specialize (Hlt eq_refl). lia.
Qed.


(* ---- zeros above numBits: the ByteReader discipline ------------------------------------------- *)
Definition ZA (p : prd) : Prop :=
  p_buffered p = false /\ s_data (p_src p) = data /\ p_bufBits p < 2 ^ p_numBits p.

Lemma pull_bytes_za nb : nb <= 57 -> forall fuel p p',
  ZA p -> pull_bytes fuel p nb = (false, p') -> ZA p'.
Proof.
  intros Hnb. induction fuel as [|fuel IH]; intros p p' HZ E; cbn [pull_bytes] in E; [discriminate|].
  destruct (nb <=? p_numBits p) eqn:En; [inversion E; subst; exact HZ|].
  apply N.leb_gt in En. unfold src_readbyte in E.
  destruct (skipn (s_pos (p_src p)) (s_data (p_src p))) as [|c rest] eqn:Es; [discriminate|].
  apply IH in E; [exact E|]. destruct HZ as (Z1 & Z2 & Z3).
  assert (Hc : c < 256).
  { apply Hd. rewrite <- Z2. apply (In_skipn' c (s_pos (p_src p))). rewrite Es. left. reflexivity. }
  split; [reflexivity|]. split; [exact Z2|]. prj.
  set (oc := ord (p_big p) c).
  assert (Ho : oc < 256) by (apply ord_lt; exact Hc).
  assert (Hw : u64 (N.shiftl oc (p_numBits p)) = N.shiftl oc (p_numBits p)).
  { unfold u64. apply N.mod_small. rewrite N.shiftl_mul_pow2.
    apply N.lt_le_trans with (2 ^ 8 * 2 ^ p_numBits p).
    - apply N.mul_lt_mono_pos_r; [apply pow2_pos | exact Ho].
    - rewrite <- N.pow_add_r. apply pow2_le. lia. }
  rewrite Hw, N.lor_comm, lor_shl by exact Z3.
  rewrite (N.add_comm (p_numBits p) 8), N.pow_add_r.
  change (2 ^ 8) with 256. nia.
Qed.

Lemma pull_bits_za p nb p' : nb <= 57 -> ZA p -> pull_bits p nb = (false, p') -> ZA p'.
Proof.
  intros Hnb HZ E. unfold pull_bits in E. destruct HZ as (Z1 & Z2 & Z3). rewrite Z1 in E.
  apply (pull_bytes_za nb Hnb 9 p p'); [split; [exact Z1 | split; assumption] | exact E].
Qed.

Lemma take_bits_za p nb : ZA p -> nb <= p_numBits p -> ZA (snd (take_bits p nb)).
Proof.
  intros (Z1 & Z2 & Z3) Hnb. unfold take_bits. prj. split; [exact Z1|]. split; [exact Z2|].
  rewrite N.shiftr_div_pow2. apply N.div_lt_upper_bound; [apply pow2_nz|]. prj.
  rewrite <- N.pow_add_r. replace (nb + (p_numBits p - nb)) with (p_numBits p) by lia. exact Z3.
Qed.

Lemma init_za fills reads : ZA (init data false big fills reads).
Proof. unfold ZA, init. prj. split; [reflexivity|]. split; [reflexivity|]. cbn. lia. Qed.

(* ---- the table walk ------------------------------------------------------------------------------ *)
Variable L : N.
Variable codes : list pcode.
Hypothesis HL : L <= 31.
Hypothesis HV : dec_valid L codes.
Variable d : dec.
Hypothesis HT : tables_ok codes d.

Lemma lookup_state R p : PI R p ->
  exists c', In c' codes /\ matches c' (p_bufBits p) /\
    dec_lookup d (p_bufBits p) = Some (c_sym c' mod 2 ^ 27, c_len c') /\
    (c_len c' <= p_numBits p -> matches c' (window R)).
Proof.
  intros HP. destruct (dv_complete _ _ HV (p_bufBits p)) as (c' & Hc' & Hm').
  exists c'. split; [exact Hc'|]. split; [exact Hm'|].
  split; [apply (lookup_of_tables L codes d HL HV HT); assumption|].
  intros Hle. destruct (PI_numBits R p HP) as (_ & _ & Ew).
  apply (matches_low c' (p_bufBits p) (window R) (p_numBits p) Hle Ew Hm').
Qed.

Lemma len_le_31 c : In c codes -> c_len c <= 31.
Proof. intros Hc. pose proof (v_len L codes HV c Hc). lia. Qed.

(* the loop, when the stream holds the code word of c and at least B bits, B bounding every
   request; Q is an extra invariant of the source discipline *)
Lemma rs_loop_ok (Q : prd -> Prop) (B : N) R c :
  In c codes -> matches c (window R) ->
  (R + N.to_nat B <= 8 * length data)%nat -> c_len c <= B -> B <= 31 ->
  (forall p nb p', nb <= 57 -> Q p -> pull_bits p nb = (false, p') -> Q p') ->
  (forall p c', Q p -> PI R p -> In c' codes -> matches c' (p_bufBits p) ->
                p_numBits p < c_len c' -> c_len c' <= B) ->
  forall fuel p nb, PI R p -> Q p -> nb <= B -> B < nb + N.of_nat fuel ->
    (p_buffered p = false -> p_numBits p < nb + 8) ->
    exists p1 p',
      read_symbol_loop fuel d p nb = (RSym (c_sym c mod 2 ^ 27), p') /\
      p' = snd (take_bits p1 (c_len c)) /\ Q p1 /\ PI R p1 /\ c_len c <= p_numBits p1 /\
      PI (R + N.to_nat (c_len c)) p' /\ p_buffered p' = p_buffered p /\
      (p_buffered p = false -> p_numBits p' + c_len c < B + 8).
Proof.
  intros Hc Hm HB HcB HB31 HQ1 HQ2.
  induction fuel as [|fuel IH]; intros p nb HP HQ Hnb Hfuel Hlt; [lia|].
  cbn [read_symbol_loop].
  pose proof (pull_ok R p nb HP ltac:(lia) Hlt) as Hpull.
  destruct (pull_bits p nb) as [[|] p1] eqn:Ep; [lia|].
  destruct Hpull as (HP1 & Hn1 & Hb1 & Hlt1).
  assert (HQp1 : Q p1) by (apply (HQ1 p nb p1); [lia | exact HQ | exact Ep]).
  destruct (lookup_state R p1 HP1) as (c' & Hc' & Hm' & El & Hreal).
  rewrite El. destruct (c_len c' <=? p_numBits p1) eqn:Ele.
  - apply N.leb_le in Ele.
    pose proof (dv_unique _ _ HV (window R) c' c Hc' Hc (Hreal Ele) Hm) as ->.
    destruct (take_ok R p1 (c_len c) HP1 Ele) as (T1 & T2 & T3).
    exists p1, (snd (take_bits p1 (c_len c))). split; [reflexivity|]. split; [reflexivity|].
    split; [exact HQp1|]. split; [exact HP1|]. split; [exact Ele|]. split; [exact T1|].
    split; [rewrite T2; exact Hb1|].
    intros Hb. rewrite T3. specialize (Hlt1 Hb). lia.
  - apply N.leb_gt in Ele.
    pose proof (HQ2 p1 c' HQp1 HP1 Hc' Hm' Ele) as HleB.
    destruct (IH p1 (c_len c') HP1 HQp1 HleB ltac:(lia)) as (p2 & p' & E & E2 & Q2 & P2 & N2 & P' & Hb' & Hla).
    { intros _. lia. }
    exists p2, p'. split; [exact E|]. split; [exact E2|]. split; [exact Q2|]. split; [exact P2|].
    split; [exact N2|]. split; [exact P'|]. split; [rewrite Hb'; exact Hb1|].
    intros Hb. apply Hla. rewrite Hb1. exact Hb.
Qed.

Lemma chunks_nonempty : (a_len (d_chunks d) =? 0) = false.
Proof.
  rewrite (to_clen _ _ HT). apply N.eqb_neq. apply pow2_nz.
Qed.

(* THEOREM (c1), any valid code set, both source disciplines: if the stream still holds
   maxLen bits, ReadSymbol returns the symbol of the code word the stream begins with and
   consumes exactly that code word. (A ByteReader may be left with look-ahead bytes in the
   bit buffer: see read_symbol_bytereader for when it is not.) *)
Theorem read_symbol_correct R p c :
  Inv R p -> In c codes -> matches c (window R) ->
  (R + N.to_nat (max_bits codes) <= 8 * length data)%nat ->
  exists p', dt_read_symbol d p = (RSym (c_sym c mod 2 ^ 27), p') /\
    PI (R + N.to_nat (c_len c)) p' /\
    bits_read p' = Z.of_nat (R + N.to_nat (c_len c)) /\
    p_buffered p' = p_buffered p.
Proof.
  intros HI Hc Hm Hlen. unfold dt_read_symbol. rewrite chunks_nonempty.
  pose proof (v_M L codes HL HV) as HM.
  destruct (rs_loop_ok (fun _ => True) (max_bits codes) R c Hc Hm Hlen
              (max_bits_ge codes c Hc) ltac:(lia)
              (fun _ _ _ _ _ _ => I)
              (fun p c' _ _ Hc' _ _ => max_bits_ge codes c' Hc')
              34%nat p (d_minBits d) (Inv_PI R p HI) I)
    as (p1 & p' & E & _ & _ & _ & _ & P' & Hb & _).
  - eapply N.le_trans; [apply (min_bits_request codes d c HT Hc) | apply max_bits_ge; exact Hc].
  - lia.
  - intros Hb. destruct HI as (_ & H7 & _). unfold effd in H7. rewrite Hb in H7. lia.
  - exists p'. split; [exact E|]. split; [exact P'|]. split; [apply PI_bits_read; exact P' | exact Hb].
Qed.

(* THEOREM (c2), ByteReader, zero-minimal (e.g. canonical) codes: it is enough that the
   stream holds the code word itself, and afterwards fewer than 8 bits remain in the bit
   buffer: no byte beyond the one holding the last bit of the code word has been read. *)
Theorem read_symbol_bytereader R p c :
  zero_min codes ->
  Inv R p -> ZA p -> In c codes -> matches c (window R) ->
  (R + N.to_nat (c_len c) <= 8 * length data)%nat ->
  exists p', dt_read_symbol d p = (RSym (c_sym c mod 2 ^ 27), p') /\
    Inv (R + N.to_nat (c_len c)) p' /\ ZA p' /\
    bits_read p' = Z.of_nat (R + N.to_nat (c_len c)) /\
    s_pos (p_src p') = ((R + N.to_nat (c_len c) + 7) / 8)%nat.
Proof.
  intros HZM HI HZ Hc Hm Hlen. unfold dt_read_symbol. rewrite chunks_nonempty.
  pose proof (len_le_31 c Hc) as H31.
  destruct (rs_loop_ok ZA (c_len c) R c Hc Hm Hlen ltac:(lia) H31) with (fuel := 34%nat) (p := p)
    (nb := d_minBits d) as (p1 & p' & E & E2 & Q1 & P1 & N1 & P' & Hb & Hla).
  - intros q nb q' Hnb Hq Eq. apply (pull_bits_za q nb q' Hnb Hq Eq).
  - (* the request is bounded by the length of the code word *)
    intros q c' (Z1 & Z2 & Z3) HPq Hc' Hm' Hlt.
    destruct (PI_numBits R q HPq) as (_ & _ & Ew).
    rewrite (N.mod_small _ _ Z3) in Ew.
    destruct (N.le_gt_cases (c_len c) (p_numBits q)) as [Hge|Hk].
    + (* enough real bits: the look-up finds c itself *)
      assert (Hmq : matches c (p_bufBits q)).
      { apply (matches_low c (window R) (p_bufBits q) (p_numBits q) Hge); [|exact Hm].
        rewrite <- Ew. symmetry. apply N.mod_small. exact Z3. }
      pose proof (dv_unique _ _ HV _ c' c Hc' Hc Hm' Hmq) as ->. lia.
    + apply (HZM c (p_numBits q) c' Hc Hc' Hk).
      unfold matches in Hm. rewrite <- Hm. rewrite mod_mod_pow by lia. rewrite <- Ew. exact Hm'.
  - apply Inv_PI; exact HI.
  - exact HZ.
  - apply (min_bits_request codes d c HT Hc).
  - lia.
  - intros Hb. destruct HI as (_ & H7 & _). unfold effd in H7. rewrite Hb in H7. lia.
  - destruct HZ as (Zb & _).
    assert (HI' : Inv (R + N.to_nat (c_len c)) p').
    { apply PI_Inv; [exact P'|]. intros _. specialize (Hla Zb). lia. }
    exists p'. split; [exact E|]. split; [exact HI'|].
    split; [subst p'; apply take_bits_za; assumption|].
    split; [apply PI_bits_read; exact P'|].
    (* the source position: bytes read = ceil(bits consumed / 8) *)
    destruct HI' as ([C1 C2 C3 C4 [W1 W2 W3 _ _] _] & H7 & _).
    unfold effd in *. rewrite Hb, Zb in *. lia.
Qed.


(* THEOREM (c3), both disciplines: the stream ends inside the code word it continues with
   (the code that matches the remaining bits, zero-extended, is longer than what remains):
   ReadSymbol panics with io.ErrUnexpectedEOF; it never returns a symbol, never indexes out
   of range, never runs out of loop budget. *)
Lemma rs_loop_eof R :
  (forall c, In c codes -> matches c (window R) -> (8 * length data < R + N.to_nat (c_len c))%nat) ->
  forall fuel p nb, PI R p -> nb <= 31 -> 31 < nb + N.of_nat fuel ->
    (p_buffered p = false -> p_numBits p < nb + 8) ->
    exists p', read_symbol_loop fuel d p nb = (RUEOF, p').
Proof.
  intros Hend. induction fuel as [|fuel IH]; intros p nb HP Hnb Hfuel Hlt; [lia|].
  cbn [read_symbol_loop].
  pose proof (pull_ok R p nb HP ltac:(lia) Hlt) as Hpull.
  destruct (pull_bits p nb) as [[|] p1] eqn:Ep; [exists p1; reflexivity|].
  destruct Hpull as (HP1 & Hn1 & Hb1 & Hlt1).
  destruct (lookup_state R p1 HP1) as (c' & Hc' & Hm' & El & Hreal).
  rewrite El. destruct (c_len c' <=? p_numBits p1) eqn:Ele.
  - apply N.leb_le in Ele. exfalso.
    pose proof (Hend c' Hc' (Hreal Ele)) as Hshort.
    destruct (PI_numBits R p1 HP1) as (_ & Hin & _). lia.
  - apply N.leb_gt in Ele. apply IH; [exact HP1 | apply len_le_31; exact Hc' | lia | intros _; lia].
Qed.

Theorem read_symbol_eof R p :
  Inv R p ->
  (forall c, In c codes -> matches c (window R) -> (8 * length data < R + N.to_nat (c_len c))%nat) ->
  exists p', dt_read_symbol d p = (RUEOF, p').
Proof.
  intros HI Hend. unfold dt_read_symbol. rewrite chunks_nonempty.
  apply (rs_loop_eof R Hend 34%nat p (d_minBits d) (Inv_PI R p HI)).
  - rewrite (to_min _ _ HT). pose proof (min_bits_le27 codes). lia.
  - lia.
  - intros Hb. destruct HI as (_ & H7 & _). unfold effd in H7. rewrite Hb in H7. lia.
Qed.

(* TryReadSymbol: never panics; when it succeeds it has decoded, from the buffered bits alone,
   the code word the stream continues with (a short one), and the state is an [Inv] state *)
Theorem try_read_symbol_sound R p : Inv R p ->
  match try_read_symbol d p with
  | (None, _) => False
  | (Some None, p') => p' = p
  | (Some (Some s), p') =>
      exists c, In c codes /\ matches c (window R) /\ s = c_sym c mod 2 ^ 27 /\
                c_len c <= chunk_bits codes /\ c_len c <= p_numBits p /\
                p' = snd (take_bits p (c_len c)) /\ Inv (R + N.to_nat (c_len c)) p'
  end.
Proof.
  intros HI. unfold try_read_symbol.
  destruct ((p_numBits p <? d_minBits d) || (a_len (d_chunks d) =? 0)); [reflexivity|].
  pose proof (v_cb L codes HL HV) as Hcb.
  destruct (lookup_state R p (Inv_PI R p HI)) as (c' & Hc' & Hm' & _ & Hreal).
  pose proof (len_le_31 c' Hc') as H31.
  rewrite (to_mask _ _ HT), land_mask, w32_mod by lia. rewrite (to_cb _ _ HT).
  destruct (N.le_gt_cases (c_len c') (chunk_bits codes)) as [Hs|Hl].
  - rewrite (to_short _ _ HT _ c' Hc' Hm' Hs). unfold chunk_of.
    rewrite mk_chunk_len, mk_chunk_sym by lia.
    destruct (p_numBits p <? c_len c') eqn:E1; [reflexivity|]. apply N.ltb_ge in E1.
    replace (chunk_bits codes <? c_len c') with false by (symmetry; apply N.ltb_ge; exact Hs).
    cbn [orb]. exists c'. split; [exact Hc'|]. split; [apply Hreal; exact E1|].
    split; [reflexivity|]. split; [exact Hs|]. split; [exact E1|]. split; [reflexivity|].
    apply (take_bits_ok big data Hd R p (c_len c')); [|exact E1].
    apply Inv_InvS; [lia | exact HI].
  - destruct (to_long _ _ HT _ c' Hc' Hm' Hl) as (_ & _ & Hg & _). rewrite Hg.
    rewrite link_chunk_len by lia.
    replace (chunk_bits codes <? chunk_bits codes + 1) with true by (symmetry; apply N.ltb_lt; lia).
    rewrite orb_true_r. reflexivity.
Qed.

End ReadSymbol.

(* ---- non-vacuity: a concrete canonical code and a concrete stream ------------------------------ *)
(* a decidable test for zero-minimality *)
Definition zero_min_check (codes : list pcode) : bool :=
  forallb (fun c =>
    forallb (fun k =>
      forallb (fun c' => negb (matchb c' (c_val c mod 2 ^ k)) || (c_len c' <=? c_len c)) codes)
      (map N.of_nat (seq 0 (N.to_nat (c_len c))))) codes.

Lemma zero_min_check_sound codes : zero_min_check codes = true -> zero_min codes.
Proof.
  intros H c k c' Hc Hc' Hk Hm. unfold zero_min_check in H.
  rewrite forallb_forall in H. specialize (H c Hc). rewrite forallb_forall in H.
  assert (Hin : In k (map N.of_nat (seq 0 (N.to_nat (c_len c))))).
  { apply in_map_iff. exists (N.to_nat k). split; [lia|]. apply in_seq. lia. }
  specialize (H k Hin). rewrite forallb_forall in H. specialize (H c' Hc').
  apply orb_true_iff in H. destruct H as [H|H].
  - apply negb_true_iff in H. apply matchb_spec in Hm. congruence.
  - apply N.leb_le. exact H.
Qed.

(* the canonical code of the lengths 1,2,3,3 (0 | 10 | 110 | 111), values in reading order *)
Definition ex_codes : list pcode := [(0, 1, 0); (1, 2, 1); (2, 3, 3); (3, 3, 7)].
Definition ex_data : list byte := [229; 255].       (* bits: 10 10 0 111 | 111 111 11 *)

Lemma ex_valid : dec_valid 27 ex_codes.
Proof. apply kraft_check_sound. vm_compute. reflexivity. Qed.
Lemma ex_zero_min : zero_min ex_codes.
Proof. apply zero_min_check_sound. vm_compute. reflexivity. Qed.
Lemma ex_bytes : forall b, In b ex_data -> b < 256.
Proof. intros b [<-|[<-|[]]]; lia. Qed.

Example read_symbol_correct_ex :
  exists d p', dec_init (fun i => i * 7 + 3) (fun _ => 5) ex_codes = IOk d /\
    dt_read_symbol d (init ex_data true false [] []) = (RSym 1, p') /\ bits_read p' = 2%Z.
Proof.
  destruct (dec_init_tables 27 ex_codes ltac:(lia) ex_valid (fun i => i * 7 + 3) (fun _ => 5))
    as (d & E & HT).
  destruct (read_symbol_correct false ex_data ex_bytes 27 ex_codes ltac:(lia) ex_valid d HT
              0%nat (init ex_data true false [] []) (1, 2, 1))
    as (p' & E1 & _ & E2 & _).
  - apply Inv_init.
  - right; left; reflexivity.
  - vm_compute. reflexivity.
  - vm_compute. lia.
  - exists d, p'. split; [exact E|]. split; [exact E1 | exact E2].
Qed.

Example read_symbol_bytereader_ex :
  exists d p', dec_init (fun i => i * 7 + 3) (fun _ => 5) ex_codes = IOk d /\
    dt_read_symbol d (init ex_data false false [] []) = (RSym 1, p') /\ bits_read p' = 2%Z /\
    s_pos (p_src p') = 1%nat.
Proof.
  destruct (dec_init_tables 27 ex_codes ltac:(lia) ex_valid (fun i => i * 7 + 3) (fun _ => 5))
    as (d & E & HT).
  destruct (read_symbol_bytereader false ex_data ex_bytes 27 ex_codes ltac:(lia) ex_valid d HT
              0%nat (init ex_data false false [] []) (1, 2, 1) ex_zero_min)
    as (p' & E1 & _ & _ & E2 & E3).
  - apply Inv_init.
  - apply init_za.
  - right; left; reflexivity.
  - vm_compute. reflexivity.
  - vm_compute. lia.
  - exists d, p'. split; [exact E|]. split; [exact E1|]. split; [exact E2 | exact E3].
Qed.

(* the empty stream: every code word is longer than what remains *)
Example read_symbol_eof_ex :
  exists d p', dec_init (fun _ => 0) (fun _ => 0) ex_codes = IOk d /\
    dt_read_symbol d (init [] false false [] []) = (RUEOF, p').
Proof.
  destruct (dec_init_tables 27 ex_codes ltac:(lia) ex_valid (fun _ => 0) (fun _ => 0))
    as (d & E & HT).
  destruct (read_symbol_eof false [] ltac:(intros b []) 27 ex_codes ltac:(lia) ex_valid d HT
              0%nat (init [] false false [] [])) as (p' & E1).
  - apply Inv_init.
  - intros c Hc _. pose proof (v_len 27 ex_codes ex_valid c Hc). cbn [length]. lia.
  - exists d, p'. split; [exact E | exact E1].
Qed.

Print Assumptions read_symbol_correct.
Print Assumptions read_symbol_bytereader.
Print Assumptions read_symbol_eof.
Print Assumptions try_read_symbol_sound.
Print Assumptions read_symbol_correct_ex.
Print Assumptions read_symbol_bytereader_ex.
Print Assumptions read_symbol_eof_ex.
