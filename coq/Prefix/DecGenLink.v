(* GeneratePrefixes' output (model Prefix/Code.v [gen_prefixes], characterised in
   Prefix/GenPrefixesThms.v) is a VALID and ZERO-MINIMAL code set for the lookup tables:
   every theorem of DecTableThms / DecReadThms / DecReadBufThms / EncTableThms applies to it. *)
From Coq Require Import Sorted.
From V Require Import Base.Prelude Base.Prog Flate.Spec Flate.Canon Bzip2.Common Prefix.Code
  Prefix.GenPrefixesThms Prefix.ReaderImpl Prefix.DecTable Prefix.DecTableSpec Prefix.DecTableThms
  Prefix.DecCanonThms.

Local Open Scope N_scope.
Local Ltac Zify.zify_post_hook ::= idtac.

Lemma max_len_le lens L : (forall s l, In (s, l) lens -> l <= L) -> Flate.Spec.max_len lens <= L.
Proof.
  induction lens as [|[s l] r IH]; intros H; [cbn; lia|].
  rewrite max_len_cons.
  pose proof (H s l (or_introl eq_refl)). specialize (IH (fun s' l' H' => H s' l' (or_intror H'))). lia.
Qed.

Theorem gen_prefixes_table_valid : gen_prefixes_valid_statement.
Proof.
  intros lens out H2 E H27.
  pose proof (gen_prefixes_valid lens out H2 E) as HVC.
  pose proof (gen_prefixes_same_lens lens out H2 E) as Elens.
  assert (Hp : lens_pos lens).
  { intros s l Hin. rewrite <- Elens in Hin. apply in_map_iff in Hin.
    destruct Hin as ([[s' l'] v'] & Eq & Hin). cbn [fst] in Eq. inversion Eq; subst.
    apply (vc_len_pos out HVC _ Hin). }
  assert (Hc : complete lens = true) by (rewrite <- Elens; apply (vc_kraft out HVC)).
  destruct (of_canonical_valid lens out 27 Hp Hc H2 (max_len_le lens 27 H27)) as [HV HZ].
  - rewrite <- Elens. apply (vc_canonical out HVC).
  - intros e He. apply (vc_val_lt out HVC e He).
  - split; [exact HV|]. split; [exact HZ|].
    rewrite <- Elens. apply map_ext. intros [[s l] v]. reflexivity.
Qed.

(* and the symbols are strictly increasing (what the Encoder theorems need) *)
Theorem gen_prefixes_syms_sorted lens out :
  (2 <= length lens)%nat -> gen_prefixes lens = GPOk out ->
  (forall s l, In (s, l) lens -> s < 2 ^ 32) -> syms_sorted out.
Proof.
  intros H2 E H32. pose proof (gen_prefixes_valid lens out H2 E) as HVC.
  pose proof (gen_prefixes_same_lens lens out H2 E) as Elens.
  split; [exact (vc_sorted out HVC)|].
  intros [[s l] v] Hin. apply (H32 s l). rewrite <- Elens.
  apply in_map_iff. exists (s, l, v). split; [reflexivity | exact Hin].
Qed.

Print Assumptions gen_prefixes_table_valid.
Print Assumptions gen_prefixes_syms_sorted.
