(* Bit fields: the unit in which the stream Writers (bzip2.Writer, meta.Writer) talk to
   prefix.Writer. One [field] is one WriteBits / WriteSymbol call, one "Try..., else Write..."
   pair, or WritePads(0); it is executed by the implementation-level bit writer of
   Prefix/WriterImpl.v (write_bits / try_write_bits / write_pads, i.e. bwstep without the
   view), so the sink below the bit writer sees exactly the calls the real one sees.
   Also here: prefix.Writer.Init on an existing value, fresh scripted sinks, wr.Offset = o. *)
From V Require Import Base.Prelude Prefix.ReaderImpl Prefix.WriterImpl.

Inductive field :=
| FBits (v nb : N)      (* WriteBits(v, nb) / WriteSymbol with chunk (v, nb) *)
| FSym (v nb : N)       (* ok := TryWriteSymbol; if !ok { WriteSymbol } with chunk (v, nb) *)
| FPads.                (* WritePads(0) *)

(* one field on the bit writer: Some e = the value raised with errors.Panic (ESrc: the
   sink's error) or a run-time panic (EPanic) *)
Definition fstep (p : pwr) (f : field) : option err * pwr :=
  match f with
  | FBits v nb => write_bits p v nb
  | FSym v nb =>
    let '(ok, p1) := try_write_bits p v nb in
    if ok then (None, p1) else write_bits p1 v nb
  | FPads => (None, write_pads p 0)
  end.

(* a batch of fields: stops at the first panic (the rest of the function body is skipped) *)
Fixpoint frun (p : pwr) (fs : list field) : option err * pwr :=
  match fs with
  | [] => (None, p)
  | f :: r =>
    let '(e, p') := fstep p f in
    match e with
    | Some _ => (e, p')
    | None => frun p' r
    end
  end.

(* the stream-order bits of a field (FPads: position dependent, see the theorems) *)
Definition field_bits (f : field) : list bool :=
  match f with
  | FBits v nb | FSym v nb => val_bits (N.to_nat nb) v
  | FPads => []
  end.

(* a field given by its bits in stream order: the bit writer is big-endian for bzip2, it
   puts the first bit written (the least significant bit of v) first; little-endian: same) *)
Definition fbits (l : list bool) : field := FBits (bits_val l) (N.of_nat (length l)).
Definition fsym (l : list bool) : field := FSym (bits_val l) (N.of_nat (length l)).

(* prefix.Writer.Init: "*pw = Writer{wr: w, bigEndian: bigEndian}": every field replaced *)
Definition pw_init (p : pwr) (s : wsink) (big : bool) : pwr :=
  mkPwr s big 0 0 (repeat 0 512) 0 0.

Definition new_sink (script : list sbeh) (rest : sbeh) : wsink := mkWSink script rest [].

(* the zero value of prefix.Writer (inside new(Writer)) *)
Definition zero_pwr : pwr := mkPwr (new_sink [] SAccept) false 0 0 (repeat 0 512) 0 0.

(* pw.Offset = o *)
Definition set_offset (p : pwr) (o : Z) : pwr :=
  mkPwr (bw_sink p) (w_big p) (w_bufBits p) (w_numBits p) (w_buf p) (w_cnt p) o.

(* ---- the abstract effect of fields: the stream bits after them ------------------------ *)
(* number of pad bits at a stream of [len] bits: Prefix/WriterSpec.v pad_count *)
Definition pads_at (len : nat) : nat := ((8 - len mod 8) mod 8)%nat.

Definition field_app (bits : list bool) (f : field) : list bool :=
  match f with
  | FBits v nb | FSym v nb => bits ++ val_bits (N.to_nat nb) v
  | FPads => bits ++ repeat false (pads_at (length bits))
  end.

Definition fields_app (bits : list bool) (fs : list field) : list bool := fold_left field_app fs bits.

(* a field within the supported use of the bit writer: the value fits its width, the width
   (at most 57) fits the 64-bit bit buffer at every alignment *)
Definition field_ok (f : field) : Prop :=
  match f with
  | FBits v nb | FSym v nb => v < 2 ^ nb /\ nb <= 57
  | FPads => True
  end.
