(* Histories that also call PullBits directly (as ReadSymbol does: it may pull more bits
   than the symbol it finally decodes, leaving whole look-ahead bytes in the bit buffer).
   Only used by the correspondence run; the specification theorem (ReaderSpec.v) is about
   histories of ReadBits / ReadPads / raw Read / Flush. *)
From V Require Import Base.Prelude Prefix.ReaderImpl.

Inductive xop := XOp (o : pop) | XPull (nb : N).
Inductive xobs := XObs (o : pobs) | XPulled (err : bool) (bitsread : Z).

Definition xstep (p : prd) (o : xop) : xobs * prd :=
  match o with
  | XOp o => let '(ob, p') := pstep p o in (XObs ob, p')
  | XPull nb => let '(e, p') := pull_bits p nb in (XPulled e (bits_read p'), p')
  end.

Fixpoint xrun (p : prd) (ops : list xop) : list xobs :=
  match ops with
  | [] => []
  | o :: r => let '(ob, p') := xstep p o in ob :: xrun p' r
  end.
