(* What the lookup tables of internal/prefix must do: the meaning of a prefix code on a
   bit-buffer value, and when a code set is VALID.

   A code (Sym, Len, Val) MATCHES a buffer value b when the low Len bits of b are Val
   (Val is in reading order: bit 0 is the first bit read). Decoding b means finding the
   code that matches it. A code set is valid when exactly one code matches every b. *)
From Coq Require Import Sorted.
From V Require Import Base.Prelude Prefix.DecTable.

Local Open Scope N_scope.

Definition matches (c : pcode) (b : N) : Prop := b mod 2 ^ c_len c = c_val c.
Definition matchb (c : pcode) (b : N) : bool := b mod 2 ^ c_len c =? c_val c.

Lemma matchb_spec c b : matchb c b = true <-> matches c b.
Proof. unfold matchb, matches. apply N.eqb_eq. Qed.

(* the decoded code of a buffer value: the (unique, for valid sets) code that matches *)
Definition code_of (codes : list pcode) (b : N) : option pcode :=
  find (fun c => matchb c b) codes.

(* ---- validity --------------------------------------------------------------------------- *)
(* field ranges; L is the length limit: 27 (valueBits, what checkLengths can express) for
   the Go package, 31 for the tables themselves (5-bit count field) *)
Record wf_codes (L : N) (codes : list pcode) : Prop := mkWf {
  wf_two : (2 <= length codes)%nat;
  wf_len : forall c, In c codes -> 1 <= c_len c <= L;
  wf_val : forall c, In c codes -> c_val c < 2 ^ c_len c
}.

(* complete: every buffer value starts with a code word; unique: with only one *)
Definition complete_codes (codes : list pcode) : Prop :=
  forall b, exists c, In c codes /\ matches c b.
Definition unique_codes (codes : list pcode) : Prop :=
  forall b c1 c2, In c1 codes -> In c2 codes -> matches c1 b -> matches c2 b -> c1 = c2.

Record dec_valid (L : N) (codes : list pcode) : Prop := mkDV {
  dv_wf : wf_codes L codes;
  dv_complete : complete_codes codes;
  dv_unique : unique_codes codes
}.

(* ---- the same in the form the Go package checks it (checkLengths / checkPrefixes) --------- *)
(* Kraft sum in units of 2^-L *)
Definition kraft_sum (L : N) (codes : list pcode) : N :=
  fold_right (fun c acc => 2 ^ (L - c_len c) + acc) 0 codes.

(* no code is a reading-order prefix of another one (positions i <> j, as in checkPrefixes) *)
Definition prefix_free (codes : list pcode) : Prop :=
  forall i j ci cj, nth_error codes i = Some ci -> nth_error codes j = Some cj -> i <> j ->
    c_len cj <= c_len ci -> c_val ci mod 2 ^ c_len cj <> c_val cj.

Record kraft_valid (L : N) (codes : list pcode) : Prop := mkKV {
  kv_wf : wf_codes L codes;
  kv_kraft : kraft_sum L codes = 2 ^ L;
  kv_pf : prefix_free codes
}.

(* symbols strictly increasing and uint32 (what GeneratePrefixes demands; the Encoder needs
   the symbols to be pairwise different) *)
Definition syms_sorted (codes : list pcode) : Prop :=
  StronglySorted N.lt (map c_sym codes) /\ forall c, In c codes -> c_sym c < 2 ^ 32.

(* executable versions of the two Debug checks of prefix.go, arithmetic as in Go
   (int is 64 bits: no wrap for Len < 64; uint32 masks) *)
Definition check_lengths (codes : list pcode) : bool :=
  (* sum := 1<<valueBits; sum -= (1<<valueBits) >> Len  on a signed int: compare as Z *)
  (Z.of_N (2 ^ valueBits) - fold_right (fun c acc => Z.of_N (N.shiftr (2 ^ valueBits) (c_len c)) + acc)%Z 0%Z codes =? 0)%Z
  || Nat.eqb (length codes) 0.

Definition check_prefixes (codes : list pcode) : bool :=
  forallb (fun ic1 =>
    forallb (fun jc2 =>
      let '(i, c1) := ic1 in let '(j, c2) := jc2 in
      let mask := w32 (w32 (N.shiftl 1 (c_len c1)) + (2 ^ 32 - 1)) in
      negb (negb (Nat.eqb i j) && (c_len c1 <=? c_len c2)
            && (N.land (c_val c1) mask =? N.land (c_val c2) mask)))
      (combine (seq 0 (length codes)) codes))
    (combine (seq 0 (length codes)) codes).

(* ---- zero extension ------------------------------------------------------------------------ *)
(* A code set is ZERO-MINIMAL when completing any proper prefix of a code word with zeros
   never yields a longer code word: the property that makes the table walk ask for no more
   bits than the next code word has. Canonical codes have it; arbitrary valid codes do not. *)
Definition zero_min (codes : list pcode) : Prop :=
  forall c k c', In c codes -> In c' codes -> k < c_len c ->
    matches c' (c_val c mod 2 ^ k) -> c_len c' <= c_len c.
