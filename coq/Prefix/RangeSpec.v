(* Abstract specification of range coding (internal/prefix/range.go):
   what a valid range set is (the three conditions in the comment of checkValid), which
   symbol stands for an offset (the LAST range whose Base is <= the offset), and how an
   offset is recovered from (symbol, extra bits). Indices are positions in the list. *)
From V Require Import Base.Prelude Prefix.Range.

Local Open Scope N_scope.

Definition rc_dflt : rcode := (0, 0).
Definition rbase (rcs : list rcode) (i : nat) : N := rc_base (nth i rcs rc_dflt).
Definition rlen (rcs : list rcode) (i : nat) : N := rc_len (nth i rcs rc_dflt).
Definition rend (rcs : list rcode) (i : nat) : N := rc_end (nth i rcs rc_dflt).

(* the fields are uint32 *)
Definition rcs_wf (rcs : list rcode) : Prop :=
  Forall (fun rc => rc_base rc < 2 ^ 32 /\ rc_len rc < 2 ^ 32) rcs.

(* rcs[i-1].Base <= rcs[i].Base, rcs[i-1].End <= rcs[i].End, rcs[i-1].End >= rcs[i].Base,
   and at least one range. End is the uint32 value RangeCode.End() computes. *)
Definition range_valid (rcs : list rcode) : Prop :=
  rcs <> [] /\
  forall i, (S i < length rcs)%nat ->
    rbase rcs i <= rbase rcs (S i) /\ rend rcs i <= rend rcs (S i) /\ rbase rcs (S i) <= rend rcs i.

(* stacked without overlap (what MakeRangeCodes builds) *)
Definition range_contiguous (rcs : list rcode) : Prop :=
  forall i, (S i < length rcs)%nat -> rend rcs i = rbase rcs (S i).

(* the domain [Base(), End()) *)
Definition in_domain (rcs : list rcode) (off : N) : Prop :=
  rbase rcs 0 <= off < rend rcs (length rcs - 1).

(* s is the last range whose Base is <= off *)
Definition last_le (rcs : list rcode) (off : N) (s : nat) : Prop :=
  (s < length rcs)%nat /\ rbase rcs s <= off /\
  forall i, (s < i < length rcs)%nat -> off < rbase rcs i.

(* range s holds off *)
Definition holds (rcs : list rcode) (s : nat) (off : N) : Prop :=
  rbase rcs s <= off < rend rcs s.

(* the offset a decoder rebuilds from symbol s and the value of the extra bits *)
Definition range_decode (rcs : list rcode) (s : nat) (extra : N) : N := rbase rcs s + extra.

(* sum of the range sizes of a bit-count list *)
Fixpoint bits_total (bits : list N) : N :=
  match bits with
  | [] => 0
  | nb :: r => 2 ^ nb + bits_total r
  end.
