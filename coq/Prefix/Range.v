(* Implementation-level model of the range coding helpers of internal/prefix:
     range.go   RangeCode.End                 -> [rc_end]
                MakeRangeCodes                -> [make_range_codes]
                RangeCodes.Base / End         -> [rcs_base], [rcs_end]
                RangeCodes.checkValid         -> [check_valid]
                RangeEncoder.Init             -> [re_init]   (the 1024-entry lookup table)
                RangeEncoder.Encode           -> [re_encode] (table lookup / goto-retry walk)
     writer.go  Writer.WriteOffset            -> [write_offset]  (symbol, extra value, extra count)
     reader.go  Reader.ReadOffset             -> [read_offset]

   A range code is (Base, Len), both uint32 in Go: the model is faithful for field values
   below 2^32. Go's fixed-width arithmetic is explicit:
     - RangeCode.End is uint32:  (Base + (1 << Len)) mod 2^32, and 1 << Len is 0 for Len >= 32;
     - MakeRangeCodes works on a 64-bit uint minBase (1 << nb is 0 for nb >= 64) and
       truncates it to uint32 when it stores Base;
     - Encode computes  int(offset - minBase)  on 64-bit uints: the difference wraps, and a
       wrapped difference >= 2^63 is a NEGATIVE int, which passes the test idx < len(lut)
       and then indexes the table: a run-time panic;
     - the walk compares  rcs[sym].Base > uint32(offset)  (offset truncated to 32 bits) and
       returns  sym - 1  on uint (2^64 - 1 when sym = 0).

   Failures are explicit ([RgPanic]: Go run-time panic - index out of range, or the explicit
   panic("invalid range codes") of Init; [RgFuel]: the model's loop budget ran out, excluded
   by the theorems of RangeThms.v). No proofs here. *)
From V Require Import Base.Prelude.

Local Open Scope N_scope.

Inductive rres (A : Type) : Type :=
| RgOk (a : A)
| RgPanic
| RgFuel.
Arguments RgOk {A} a.
Arguments RgPanic {A}.
Arguments RgFuel {A}.

Definition rw32 (x : N) : N := x mod 2 ^ 32.
Definition rw64 (x : N) : N := x mod 2 ^ 64.

(* ---- RangeCode ------------------------------------------------------------------------ *)
Definition rcode : Type := (N * N)%type.          (* (Base, Len) *)
Definition rc_base (rc : rcode) : N := fst rc.
Definition rc_len (rc : rcode) : N := snd rc.

(* 1 << n on a w-bit unsigned integer *)
Definition shl1 (w n : N) : N := if n <? w then 2 ^ n else 0.

(* func (rc RangeCode) End() uint32 { return rc.Base + (1 << rc.Len) } *)
Definition rc_end (rc : rcode) : N := rw32 (rc_base rc + shl1 32 (rc_len rc)).

(* ---- MakeRangeCodes ------------------------------------------------------------------- *)
(* for _, nb := range bits { rc = append(rc, RangeCode{uint32(minBase), uint32(nb)}); minBase += 1 << nb } *)
Fixpoint make_range_codes (minBase : N) (bits : list N) : list rcode :=
  match bits with
  | [] => []
  | nb :: rest =>
    (rw32 minBase, rw32 nb) :: make_range_codes (rw64 (minBase + shl1 64 nb)) rest
  end.

(* ---- RangeCodes.Base / End: rcs[0].Base, rcs[len(rcs)-1].End(); index panic on an empty set *)
Definition rcs_base (rcs : list rcode) : rres N :=
  match rcs with
  | [] => RgPanic
  | rc :: _ => RgOk (rc_base rc)
  end.

Definition rcs_end (rcs : list rcode) : rres N :=
  match rcs with
  | [] => RgPanic
  | rc :: rest => RgOk (rc_end (last rest rc))
  end.

(* ---- checkValid ----------------------------------------------------------------------- *)
(* pre := rcs[0]; for _, cur := range rcs[1:] { if preBase > curBase || preEnd > curEnd ||
   preEnd < curBase { return false }; pre = cur }; return true *)
Fixpoint check_valid_loop (pre : rcode) (rest : list rcode) : bool :=
  match rest with
  | [] => true
  | cur :: rest' =>
    if (rc_base cur <? rc_base pre) || (rc_end cur <? rc_end pre) || (rc_end pre <? rc_base cur)
    then false
    else check_valid_loop cur rest'
  end.

Definition check_valid (rcs : list rcode) : bool :=
  match rcs with
  | [] => false
  | pre :: rest => check_valid_loop pre rest
  end.

(* ---- the lookup table ----------------------------------------------------------------- *)
(* lut [1024]uint32: a function on indices; only indices below [lut_len] exist, and every
   access goes through [lut_get] / [lut_set], which fail outside 0 <= i < 1024. *)
Definition lut_len : Z := 1024.
Definition rlut : Type := N -> N.
Definition lut_zero : rlut := fun _ => 0.

Definition lut_get (l : rlut) (i : Z) : option N :=
  if ((0 <=? i) && (i <? lut_len))%Z then Some (l (Z.to_N i)) else None.

Definition lut_set (l : rlut) (i : Z) (v : N) : option rlut :=
  if ((0 <=? i) && (i <? lut_len))%Z
  then Some (fun j => if j =? Z.to_N i then v else l j)
  else None.

(* the table as a list (for dumps) *)
Definition lut_dump (l : rlut) : list N := map (fun i => l (N.of_nat i)) (seq 0 1024).

(* for i := base; i < end; i++ { re.lut[i] = uint32(sym) } *)
Fixpoint fill_loop (fuel : nat) (l : rlut) (i e : Z) (v : N) : rres rlut :=
  if (i <? e)%Z then
    match fuel with
    | O => RgFuel
    | S fuel' =>
      match lut_set l i v with
      | None => RgPanic
      | Some l' => fill_loop fuel' l' (i + 1)%Z e v
      end
    end
  else RgOk l.

(* for sym, rc := range rcs { base := int(rc.Base) - int(minBase); end := int(rc.End()) - int(minBase)
     if base >= len(lut) { break }; if end > len(lut) { end = len(lut) }; fill } *)
Fixpoint init_loop (rest : list rcode) (sym : N) (minBase : N) (l : rlut) : rres rlut :=
  match rest with
  | [] => RgOk l
  | rc :: rest' =>
    let base := (Z.of_N (rc_base rc) - Z.of_N minBase)%Z in
    let e := (Z.of_N (rc_end rc) - Z.of_N minBase)%Z in
    if (base >=? lut_len)%Z then RgOk l
    else
      let e := if (e >? lut_len)%Z then lut_len else e in
      match fill_loop 1024 l base e (rw32 sym) with
      | RgOk l' => init_loop rest' (sym + 1) minBase l'
      | RgPanic => RgPanic
      | RgFuel => RgFuel
      end
  end.

Record range_encoder := mkRE {
  re_rcs : list rcode;
  re_lut : rlut;
  re_minBase : N
}.

(* func (re *RangeEncoder) Init(rcs RangeCodes) *)
Definition re_init (rcs : list rcode) : rres range_encoder :=
  if negb (check_valid rcs) then RgPanic            (* panic("invalid range codes") *)
  else
    match rcs_base rcs with
    | RgOk mb =>
      match init_loop rcs 0 mb lut_zero with
      | RgOk l => RgOk (mkRE rcs l mb)
      | RgPanic => RgPanic
      | RgFuel => RgFuel
      end
    | RgPanic => RgPanic
    | RgFuel => RgFuel
    end.

(* ---- Encode --------------------------------------------------------------------------- *)
(* rcs[i] for an unsigned i; None = index out of range (i >= len(rcs)) *)
Definition rcs_get (rcs : list rcode) (i : N) : option rcode :=
  if i <? N.of_nat (length rcs) then nth_error rcs (N.to_nat i) else None.

(* retry: if int(sym) >= len(re.rcs) || re.rcs[sym].Base > uint32(offset) { return sym - 1 }
          sym++; goto retry *)
Fixpoint re_walk (fuel : nat) (rcs : list rcode) (offset sym : N) : rres N :=
  match fuel with
  | O => RgFuel
  | S fuel' =>
    match rcs_get rcs sym with
    | None => RgOk (rw64 (sym + (2 ^ 64 - 1)))                (* int(sym) >= len(rcs) *)
    | Some rc =>
      if rw32 offset <? rc_base rc then RgOk (rw64 (sym + (2 ^ 64 - 1)))     (* sym - 1 on uint *)
      else re_walk fuel' rcs offset (sym + 1)
    end
  end.

(* the walk visits at most len(rcs) + 1 symbols *)
Definition re_walk_fuel (rcs : list rcode) : nat := S (length rcs).

(* func (re *RangeEncoder) Encode(offset uint) (sym uint); offset < 2^64 *)
Definition re_encode (re : range_encoder) (offset : N) : rres N :=
  let d := rw64 (offset + (2 ^ 64 - re_minBase re)) in        (* offset - re.minBase on uint *)
  let idx := if d <? 2 ^ 63 then Z.of_N d else (Z.of_N d - 2 ^ 64)%Z in    (* int(...) *)
  if (idx <? lut_len)%Z then
    match lut_get (re_lut re) idx with
    | Some s => RgOk s
    | None => RgPanic                                        (* negative index *)
    end
  else
    match lut_get (re_lut re) (lut_len - 1) with
    | Some s => re_walk (re_walk_fuel (re_rcs re)) (re_rcs re) offset s
    | None => RgPanic
    end.

(* ---- WriteOffset / ReadOffset at the level of (symbol, extra bits value, extra bits count) *)
(* sym := re.Encode(ofs); pw.WriteSymbol(sym, pe); rc := re.rcs[sym];
   pw.WriteBits(ofs-uint(rc.Base), uint(rc.Len))
   The prefix encoder is not part of this level: the result is what is handed to
   WriteSymbol and to WriteBits. (value, count): the value is NOT reduced to count bits -
   WriteBits ORs it into the bit buffer as it is. *)
Definition write_offset (re : range_encoder) (ofs : N) : rres (N * N * N) :=
  match re_encode re ofs with
  | RgOk s =>
    match rcs_get (re_rcs re) s with
    | None => RgPanic                                        (* re.rcs[sym]: index out of range *)
    | Some rc => RgOk (s, rw64 (ofs + (2 ^ 64 - rc_base rc)), rc_len rc)
    end
  | RgPanic => RgPanic
  | RgFuel => RgFuel
  end.

(* rc := rcs[pr.ReadSymbol(pd)]; return uint(rc.Base) + pr.ReadBits(uint(rc.Len))
   [extra_of n] is what ReadBits returns for a count of n bits. *)
Definition read_offset (rcs : list rcode) (sym : N) (extra_of : N -> N) : rres N :=
  match rcs_get rcs sym with
  | None => RgPanic
  | Some rc => RgOk (rw64 (rc_base rc + extra_of (rc_len rc)))
  end.
