(* Implementation-level model of internal/prefix.Reader (reader.go): the 64-bit
   bit buffer, PullBits over a compress.BufferedReader (Buffered / Peek / Discard,
   wide 8-byte loads, look-ahead bits above numBits) or over a ByteReader, Flush,
   ReadBits, ReadPads, raw Read, BitsRead. After repair D5 (raw Read drops the
   look-ahead bits). Little-endian bit order (flate, brotli, meta); [rev8] is
   applied to every byte when the Reader is big-endian (bzip2).

   The source is scripted: the only freedom a BufferedReader has within the api.go
   contract is how much MORE than asked it buffers on a fill ([fills]) and how many
   bytes a raw Read returns ([reads]); both are consumed from lists, so the model
   and the real Reader can be run on the same script. *)
From V Require Import Base.Prelude.

Record src := mkSrc {
  s_data : list byte;
  s_pos : nat;             (* bytes consumed (Discard / ReadByte / Read) *)
  s_buf : nat;             (* bytes currently "buffered" *)
  s_fills : list nat;      (* extra bytes buffered by the next fills *)
  s_reads : list nat       (* how many bytes the next raw Reads return at most *)
}.

Definition s_avail (s : src) : nat := length (s_data s) - s_pos s.

Definition src_buffered (s : src) : nat * src :=
  let b := Nat.min (s_buf s) (s_avail s) in
  (b, mkSrc (s_data s) (s_pos s) b (s_fills s) (s_reads s)).

(* Peek n: (bytes, short?) *)
Definition src_peek (s : src) (n : nat) : (list byte * bool) * src :=
  let avail := s_avail s in
  let '(buf, fills) :=
    if Nat.ltb (s_buf s) n then
      match s_fills s with
      | [] => (Nat.min n avail, [])
      | e :: r => (Nat.min (n + e) avail, r)
      end
    else (s_buf s, s_fills s) in
  ((firstn n (skipn (s_pos s) (s_data s)), Nat.ltb avail n),
   mkSrc (s_data s) (s_pos s) buf fills (s_reads s)).

(* Discard n: (discarded, short?) *)
Definition src_discard (s : src) (n : nat) : (nat * bool) * src :=
  let avail := s_avail s in
  if Nat.ltb avail n then
    ((avail, true), mkSrc (s_data s) (s_pos s + avail) 0 (s_fills s) (s_reads s))
  else
    ((n, false), mkSrc (s_data s) (s_pos s + n) (s_buf s - n) (s_fills s) (s_reads s)).

(* raw Read of at most k bytes: (bytes, eof?) *)
Definition src_read (s : src) (k : nat) : (list byte * bool) * src :=
  let avail := s_avail s in
  if Nat.eqb avail 0 then (([], true), s) else
  let '(lim, reads) := match s_reads s with [] => (k, []) | e :: r => (Nat.max 1 (Nat.min e k), r) end in
  let n := Nat.min (Nat.min k lim) avail in
  ((firstn n (skipn (s_pos s) (s_data s)), false),
   mkSrc (s_data s) (s_pos s + n) 0 (s_fills s) reads).

(* ReadByte *)
Definition src_readbyte (s : src) : option byte * src :=
  match skipn (s_pos s) (s_data s) with
  | [] => (None, s)
  | b :: _ => (Some b, mkSrc (s_data s) (s_pos s + 1) (s_buf s - 1) (s_fills s) (s_reads s))
  end.

(* ---- the Reader ----------------------------------------------------------------- *)
Record prd := mkPrd {
  p_src : src;
  p_buffered : bool;        (* bufRd != nil (Peek/Discard path) or ByteReader path *)
  p_big : bool;
  p_bufBits : N;            (* uint64 *)
  p_numBits : N;
  p_peek : list byte;       (* bufPeek *)
  p_discard : Z;            (* discardBits *)
  p_fed : N;                (* fedBits *)
  p_offset : Z              (* Offset *)
}.

Definition u64 (x : N) : N := x mod 2 ^ 64.

(* reverse the bits of a byte *)
Definition rev8 (b : byte) : byte := bits_val (fast_rev (val_bits 8 b)).
Definition ord (big : bool) (b : byte) : byte := if big then rev8 b else b.

Definition le_bytes (l : list byte) : N :=
  fold_right (fun b acc => b + 256 * acc) 0 l.

Definition init (data : list byte) (buffered big : bool) (fills reads : list nat) : prd :=
  mkPrd (mkSrc data 0 0 fills reads) buffered big 0 0 [] 0 0 0.

(* Flush (buffered path); bool = Discard was short *)
Definition flush (p : prd) : bool * prd :=
  if negb (p_buffered p) then (false, p) else
  let disc := (p_discard p + (Z.of_N (p_fed p) - Z.of_N (p_numBits p)))%Z in
  let nd := Z.to_nat ((disc + 7) / 8) in
  let '((got, short), s') := src_discard (p_src p) nd in
  (short,
   mkPrd s' true (p_big p) (p_bufBits p) (p_numBits p) []
         (disc - 8 * Z.of_nat got)%Z (p_numBits p) (p_offset p + Z.of_nat got)%Z).

(* one round of the fill loop of PullBits; result: inl = continue, inr = done/error *)
Inductive pres := PMore (p : prd) | PDone (p : prd) | PErr (p : prd).

Definition load_bytes (big : bool) (bits nb : N) (l : list byte) : N * N :=
  fold_left (fun st c => (N.lor (fst st) (u64 (N.shiftl (ord big c) (snd st))), snd st + 8))
            l (bits, nb).

Definition pull_round (p : prd) (nb : N) : pres :=
  let '(p1, stop) :=
    match p_peek p with
    | [] =>
      (* fedBits = numBits; Flush; Peek *)
      let p0 := mkPrd (p_src p) true (p_big p) (p_bufBits p) (p_numBits p) [] (p_discard p)
                      (p_numBits p) (p_offset p) in
      let '(fshort, pf) := flush p0 in
      if fshort then (pf, Some true) else
      let cnt0 := N.to_nat ((nb + (8 - nb mod 8) mod 8) / 8) in
      let '(b, s1) := src_buffered (p_src pf) in
      let cnt := Nat.max cnt0 b in
      let '((bytes, short), s2) := src_peek s1 cnt in
      let peek := skipn (N.to_nat (p_numBits pf / 8)) bytes in
      let pp := mkPrd s2 true (p_big pf) (p_bufBits pf) (p_numBits pf) peek (p_discard pf)
                      (p_fed pf) (p_offset pf) in
      match peek with
      | [] => if nb <=? p_numBits pf then (pp, Some false) else (pp, Some true)
      | _ => (pp, None)
      end
    | _ => (p, None)
    end in
  match stop with
  | Some true => PErr p1
  | Some false => PDone p1
  | None =>
    let n := N.to_nat ((64 - p_numBits p1) / 8) in
    if Nat.leb 8 (length (p_peek p1)) then
      let u := le_bytes (map (ord (p_big p1)) (firstn 8 (p_peek p1))) in
      PDone (mkPrd (p_src p1) true (p_big p1)
                   (N.lor (p_bufBits p1) (u64 (N.shiftl u (p_numBits p1))))
                   (p_numBits p1 + 8 * N.of_nat n) (skipn n (p_peek p1))
                   (p_discard p1) (p_fed p1) (p_offset p1))
    else
      let n' := Nat.min n (length (p_peek p1)) in
      let '(bits, nbits) := load_bytes (p_big p1) (p_bufBits p1) (p_numBits p1) (firstn n' (p_peek p1)) in
      let p2 := mkPrd (p_src p1) true (p_big p1) bits nbits (skipn n' (p_peek p1))
                      (p_discard p1) (p_fed p1) (p_offset p1) in
      if 56 <? nbits then PDone p2 else PMore p2
  end.

Fixpoint pull_loop (fuel : nat) (p : prd) (nb : N) : bool * prd :=   (* bool: error *)
  match fuel with
  | O => (true, p)
  | S f =>
    match pull_round p nb with
    | PMore p' => pull_loop f p' nb
    | PDone p' => (false, p')
    | PErr p' => (true, p')
    end
  end.

Fixpoint pull_bytes (fuel : nat) (p : prd) (nb : N) : bool * prd :=
  match fuel with
  | O => (true, p)
  | S f =>
    if nb <=? p_numBits p then (false, p) else
    match src_readbyte (p_src p) with
    | (None, _) => (true, p)
    | (Some c, s') =>
      pull_bytes f (mkPrd s' false (p_big p)
                          (N.lor (p_bufBits p) (u64 (N.shiftl (ord (p_big p) c) (p_numBits p))))
                          (p_numBits p + 8) [] (p_discard p) (p_fed p) (p_offset p + 1)%Z) nb
    end
  end.

(* PullBits nb: true = io.ErrUnexpectedEOF *)
Definition pull_bits (p : prd) (nb : N) : bool * prd :=
  if p_buffered p then
    let p0 := mkPrd (p_src p) true (p_big p) (p_bufBits p) (p_numBits p) (p_peek p)
                    (p_discard p + (Z.of_N (p_fed p) - Z.of_N (p_numBits p)))%Z (p_fed p) (p_offset p) in
    let '(e, p1) := pull_loop 12 p0 nb in
    if e then (true, p1)
    else (false, mkPrd (p_src p1) true (p_big p1) (p_bufBits p1) (p_numBits p1) (p_peek p1)
                       (p_discard p1) (p_numBits p1) (p_offset p1))
  else pull_bytes 9 p nb.

Definition take_bits (p : prd) (nb : N) : N * prd :=
  (p_bufBits p mod 2 ^ nb,
   mkPrd (p_src p) (p_buffered p) (p_big p) (N.shiftr (p_bufBits p) nb) (p_numBits p - nb)
         (p_peek p) (p_discard p) (p_fed p) (p_offset p)).

(* ReadBits nb (nb <= 57): None = panic with io.ErrUnexpectedEOF *)
Definition read_bits (p : prd) (nb : N) : option N * prd :=
  let '(e, p1) := pull_bits p nb in
  if e then (None, p1) else let '(v, p2) := take_bits p1 nb in (Some v, p2).

Definition read_pads (p : prd) : N * prd := take_bits p (p_numBits p mod 8).

Definition bits_read (p : prd) : Z :=
  if p_buffered p
  then (8 * p_offset p + (p_discard p + (Z.of_N (p_fed p) - Z.of_N (p_numBits p))))%Z
  else (8 * p_offset p - Z.of_N (p_numBits p))%Z.

(* raw Read of at most k bytes: result bytes; error: 0 = nil, 1 = io.EOF, 2 = Invalid
   (non-aligned bit buffer), 3 = short Discard *)
Fixpoint drain (k : nat) (p : prd) (acc : list byte) : list byte * prd :=
  match k with
  | O => (fast_rev acc, p)
  | S k' =>
    if p_numBits p =? 0 then (fast_rev acc, p) else
    let b := ord (p_big p) (p_bufBits p mod 256) in
    drain k' (mkPrd (p_src p) (p_buffered p) (p_big p) (N.shiftr (p_bufBits p) 8) (p_numBits p - 8)
                    (p_peek p) (p_discard p) (p_fed p) (p_offset p)) (b :: acc)
  end.

Definition read_raw (p : prd) (k : nat) : (list byte * N) * prd :=
  if 0 <? p_numBits p then
    if negb (p_numBits p mod 8 =? 0) then (([], 2), p)
    else let '(bs, p') := drain k p [] in ((bs, 0), p')
  else
    let p0 := mkPrd (p_src p) (p_buffered p) (p_big p) 0 (p_numBits p) (p_peek p)
                    (p_discard p) (p_fed p) (p_offset p) in
    let '(short, p1) := flush p0 in
    if short then (([], 3), p1) else
    let '((bs, eof), s') := src_read (p_src p1) k in
    ((bs, if eof then 1 else 0),
     mkPrd s' (p_buffered p1) (p_big p1) (p_bufBits p1) (p_numBits p1) (p_peek p1)
           (p_discard p1) (p_fed p1) (p_offset p1 + Z.of_nat (length bs))%Z).

(* ---- histories ---------------------------------------------------------------------- *)
Inductive pop := PBits (nb : N) | PPads | PRaw (k : nat) | PFlush.

Inductive pobs :=
| OBits (v : option N) (bitsread : Z)
| OPads (v : N) (bitsread : Z)
| ORaw (bs : list byte) (e : N) (bitsread : Z)
| OFlush (offset : Z) (consumed : nat).

Definition pstep (p : prd) (o : pop) : pobs * prd :=
  match o with
  | PBits nb => let '(v, p') := read_bits p nb in (OBits v (bits_read p'), p')
  | PPads => let '(v, p') := read_pads p in (OPads v (bits_read p'), p')
  | PRaw k => let '((bs, e), p') := read_raw p k in (ORaw bs e (bits_read p'), p')
  | PFlush => let '(_, p') := flush p in (OFlush (p_offset p') (s_pos (p_src p')), p')
  end.

Fixpoint prun (p : prd) (ops : list pop) : list pobs :=
  match ops with
  | [] => []
  | o :: r => let '(ob, p') := pstep p o in ob :: prun p' r
  end.
