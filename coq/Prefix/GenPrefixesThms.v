(* GeneratePrefixes (internal/prefix/prefix.go), model [Prefix.Code.gen_prefixes]:

     - on success the output is the RFC 1951 canonical code of Flate/Spec.v
       ([canonical]) with every code value bit-reversed    (gen_prefixes_canonical)
     - it succeeds exactly on the strictly increasing, non-zero, complete
       (Kraft sum one) length assignments                  (gen_prefixes_ok_iff)
     - the output is a valid prefix code in reading order (LSB first): no
       value is a reading-order prefix of another one, every bit string
       starts with exactly one code                         (gen_prefixes_valid)

   All statements are for at least two codes (the Go function treats zero and
   one code separately: [] is accepted, a single code only with length 0).

   Not represented by the model: the Go code indexes [valueBits+1 = 28]-element
   arrays with c.Len (bitCnts[c.Len], nextCodes[c.Len]) and would panic with
   an index out of range for Len > 27; the model has no upper limit on the
   lengths (its [minl] is min(27, true minimum), which makes no difference
   for the results below). *)
From Coq Require Import FMapPositive Sorted.
From V Require Import Base.Prelude Base.Prog Flate.Spec Flate.Canon Bzip2.Common Bzip2.MtfRle2 Prefix.Code.

Local Open Scope N_scope.

(* ---- projections ----------------------------------------------------------- *)
Definition e_sym (e : N * N * N) : N := fst (fst e).
Definition e_len (e : N * N * N) : N := snd (fst e).
Definition e_val (e : N * N * N) : N := snd e.

(* reverse the value of an entry *)
Definition rv (e : N * N * N) : N * N * N :=
  (e_sym e, e_len e, reverse_bits (e_val e) (e_len e)).

(* ---- N-keyed maps ------------------------------------------------------------ *)
Lemma nm_getd_set {A} (m : nmap A) k v j d :
  nm_getd (nm_set m k v) j d = if j =? k then v else nm_getd m j d.
Proof.
  unfold nm_getd, nm_get, nm_set. destruct (j =? k) eqn:E.
  - apply N.eqb_eq in E. subst j. rewrite PositiveMap.gss. reflexivity.
  - apply N.eqb_neq in E. rewrite PositiveMap.gso; [reflexivity|].
    intros F. apply E. apply N.succ_inj. rewrite <- !N.succ_pos_spec, F. reflexivity.
Qed.

(* ---- statistics of the lengths ---------------------------------------------- *)
Lemma cnt_count_len codes l :
  N.of_nat (length (filter (N.eqb l) (map snd codes))) = count_len codes l.
Proof.
  unfold count_len. f_equal.
  induction codes as [|[s0 l0] r IH]; cbn [map filter snd]; [reflexivity|].
  rewrite (N.eqb_sym l l0). destruct (l0 =? l); cbn [length]; rewrite IH; reflexivity.
Qed.

Lemma fold_max_acc ls : forall a, fold_left N.max ls a = N.max a (fold_right N.max 0 ls).
Proof.
  induction ls as [|x r IH]; intros a; cbn [fold_left fold_right].
  - lia.
  - rewrite IH. lia.
Qed.

Lemma fold_max_len codes : fold_left N.max (map snd codes) 0 = max_len codes.
Proof.
  rewrite fold_max_acc. unfold max_len.
  induction codes as [|[s0 l0] r IH]; cbn [map fold_right snd]; [reflexivity|].
  cbn [N.max] in IH. lia.
Qed.

Lemma fold_min_le ls : forall a, fold_left N.min ls a <= a /\ forall x, In x ls -> fold_left N.min ls a <= x.
Proof.
  induction ls as [|y r IH]; intros a; cbn [fold_left].
  - split; [lia | intros x []].
  - destruct (IH (N.min a y)) as [H1 H2]. split; [lia|].
    intros x [->|Hx]; [lia | apply H2; exact Hx].
Qed.

Lemma fold_min_in ls : forall a, fold_left N.min ls a = a \/ In (fold_left N.min ls a) ls.
Proof.
  induction ls as [|y r IH]; intros a; cbn [fold_left].
  - left. reflexivity.
  - destruct (IH (N.min a y)) as [H|H].
    + rewrite H. destruct (N.min_spec a y) as [[_ E]|[_ E]]; rewrite E; [left|right; left]; reflexivity.
    + right. right. exact H.
Qed.

(* the minimum computed by the model is non-zero iff all lengths are *)
Lemma minl_pos codes :
  (fold_left N.min (map snd codes) 27 =? 0) = false <-> lens_pos codes.
Proof.
  rewrite N.eqb_neq. split.
  - intros H s l Hin.
    destruct (fold_min_le (map snd codes) 27) as [_ H2].
    specialize (H2 l). assert (Hl : In l (map snd codes)).
    { apply in_map_iff. exists (s, l). split; [reflexivity | exact Hin]. }
    specialize (H2 Hl). lia.
  - intros Hp. destruct (fold_min_in (map snd codes) 27) as [H|H].
    + rewrite H. lia.
    + apply in_map_iff in H. destruct H as ([s l] & E & Hin). cbn [snd] in E.
      specialize (Hp s l Hin). lia.
Qed.

Lemma pk_below codes a : (forall s l, In (s, l) codes -> a < l) -> pk codes a = 0.
Proof.
  induction codes as [|[s0 l0] r IH]; intros H.
  - reflexivity.
  - rewrite pk_cons, IH.
    + assert (a < l0) by (apply (H s0); left; reflexivity).
      destruct (l0 <=? a) eqn:E; lia.
    + intros s l Hin. apply (H s). right. exact Hin.
Qed.

Lemma fc_below codes a : (forall s l, In (s, l) codes -> a <= l) -> fc codes a = 0.
Proof.
  induction codes as [|[s0 l0] r IH]; intros H.
  - reflexivity.
  - rewrite fc_cons, IH.
    + assert (a <= l0) by (apply (H s0); left; reflexivity).
      destruct (l0 <? a) eqn:E; lia.
    + intros s l Hin. apply (H s). right. exact Hin.
Qed.

Lemma nm_getd_empty {A} k (d : A) : nm_getd nm_empty k d = d.
Proof. unfold nm_getd, nm_get, nm_empty. rewrite PositiveMap.gempty. reflexivity. Qed.

(* ---- the nextCodes loop -------------------------------------------------------- *)
Definition nc_step (codes : list (N * N)) (st : N * nmap N) (l : N) : N * nmap N :=
  let c := 2 * fst st in (c + count_len codes l, nm_set (snd st) l c).

Lemma nc_loop codes n : forall a m,
  let r := fold_left (nc_step codes) (map N.of_nat (seq (S a) n)) (pk codes (N.of_nat a), m) in
  fst r = pk codes (N.of_nat (a + n)) /\
  forall l, nm_getd (snd r) l 0 =
            if (N.of_nat (S a) <=? l) && (l <? N.of_nat (S a + n)) then fc codes l else nm_getd m l 0.
Proof.
  induction n as [|n IH]; intros a m.
  - cbn [seq map fold_left fst snd]. split; [f_equal; lia|].
    intros l. destruct (N.of_nat (S a) <=? l) eqn:E1; destruct (l <? N.of_nat (S a + 0)) eqn:E2;
      cbn [andb]; try reflexivity. lia.
  - cbn [seq map fold_left].
    assert (E2 : 2 * pk codes (N.of_nat a) = fc codes (N.of_nat (S a))).
    { rewrite Nat2N.inj_succ, <- N.add_1_r. symmetry. apply fc_succ. }
    assert (Es : nc_step codes (pk codes (N.of_nat a), m) (N.of_nat (S a)) =
                 (pk codes (N.of_nat (S a)), nm_set m (N.of_nat (S a)) (fc codes (N.of_nat (S a))))).
    { unfold nc_step. cbn [fst snd]. rewrite E2, fc_count. reflexivity. }
    rewrite Es.
    specialize (IH (S a) (nm_set m (N.of_nat (S a)) (fc codes (N.of_nat (S a))))).
    cbv zeta in IH. destruct IH as [IH1 IH2]. split.
    + rewrite IH1. f_equal. lia.
    + intros l. rewrite IH2, nm_getd_set.
      destruct (N.of_nat (S (S a)) <=? l) eqn:E3; destruct (l <? N.of_nat (S (S a) + n)) eqn:E4;
        destruct (N.of_nat (S a) <=? l) eqn:E5; destruct (l <? N.of_nat (S a + S n)) eqn:E6;
        destruct (l =? N.of_nat (S a)) eqn:E7; cbn [andb]; try reflexivity; try lia.
      apply N.eqb_eq in E7. subst l. reflexivity.
Qed.

Lemma range_shift a n : forall s,
  map (fun i => a + i) (map N.of_nat (seq s n)) = map N.of_nat (seq (N.to_nat a + s) n).
Proof.
  induction n as [|n IH]; intros s; cbn [seq map]; [reflexivity|].
  f_equal; [lia|]. rewrite IH. f_equal. f_equal. lia.
Qed.

Lemma fold_left_ext_loc {A B} (f g : A -> B -> A) (H : forall a b, f a b = g a b) l :
  forall a, fold_left f l a = fold_left g l a.
Proof.
  induction l as [|x r IH]; intros a; cbn [fold_left]; [reflexivity|].
  rewrite H. apply IH.
Qed.

(* the loop of the model: the final code is the Kraft sum at maxl, and
   nextCodes[l] is the closed form [fc] for every length that occurs *)
Lemma nc_model codes :
  lens_pos codes -> codes <> [] ->
  let lens := map snd codes in
  let minl := fold_left N.min lens 27 in
  let maxl := max_len codes in
  let r := fold_left
      (fun (st : N * nmap N) l =>
         let c := 2 * fst st in
         (c + N.of_nat (length (filter (N.eqb l) lens)), nm_set (snd st) l c))
      (map (fun i => minl + i) (iota (maxl - minl + 1))) (0, nm_empty) in
  fst r = kraft maxl codes /\
  forall l, l <= maxl -> nm_getd (snd r) l 0 = fc codes l.
Proof.
  intros Hp Hne lens minl maxl.
  assert (Hmin : forall s l, In (s, l) codes -> minl <= l).
  { intros s l Hin. apply (proj2 (fold_min_le lens 27)). unfold lens.
    apply in_map_iff. exists (s, l). split; [reflexivity | exact Hin]. }
  assert (Hmax : forall s l, In (s, l) codes -> l <= maxl).
  { intros s l Hin. apply (max_len_ge _ s). exact Hin. }
  assert (Hm1 : 1 <= minl).
  { pose proof (proj2 (minl_pos codes) Hp) as H. apply N.eqb_neq in H. fold lens minl in H. lia. }
  assert (Hmm : minl <= maxl).
  { destruct codes as [|[s0 l0] r0]; [contradiction|].
    pose proof (Hmin s0 l0 (or_introl eq_refl)). pose proof (Hmax s0 l0 (or_introl eq_refl)). lia. }
  intros r. subst r.
  rewrite (fold_left_ext_loc _ (nc_step codes)).
  2:{ intros st l. unfold nc_step. cbv zeta. unfold lens. rewrite cnt_count_len. reflexivity. }
  rewrite iota_eq, range_shift.
  set (a := (N.to_nat minl - 1)%nat).
  replace (N.to_nat minl + 0)%nat with (S a) by lia.
  assert (E0 : 0 = pk codes (N.of_nat a)).
  { symmetry. apply pk_below. intros s l Hin. specialize (Hmin s l Hin). lia. }
  destruct (nc_loop codes (N.to_nat (maxl - minl + 1)) a nm_empty) as [H1 H2].
  rewrite <- E0 in H1, H2.
  split.
  - rewrite H1. replace (N.of_nat (a + N.to_nat (maxl - minl + 1))) with maxl by lia.
    apply pk_kraft_eq. unfold maxl. lia.
  - intros l Hl. rewrite H2, nm_getd_empty.
    destruct (N.of_nat (S a) <=? l) eqn:E1;
      destruct (l <? N.of_nat (S a + N.to_nat (maxl - minl + 1))) eqn:E2; cbn [andb];
      try reflexivity; try lia.
    symmetry. apply fc_below. intros s l' Hin. specialize (Hmin s l' Hin). lia.
Qed.

(* ---- the assignment loop ------------------------------------------------------- *)
Definition as_step (st : list (N * N * N) * nmap N) (sl : N * N) : list (N * N * N) * nmap N :=
  let '(s, l) := sl in
  let c := nm_getd (snd st) l 0 in
  (fst st ++ [(s, l, reverse_bits c l)], nm_set (snd st) l (c + 1)).

Lemma as_loop lens : forall acc nx nxt,
  (forall s l, In (s, l) lens -> In l (map fst nxt)) ->
  (forall l, In l (map fst nxt) -> nm_getd nx l 0 = assoc_get l nxt) ->
  fst (fold_left as_step lens (acc, nx)) = acc ++ map rv (assign_codes lens nxt).
Proof.
  induction lens as [|[s0 l0] r IH]; intros acc nx nxt Hk Hs.
  - cbn [fold_left fst assign_codes map]. rewrite app_nil_r. reflexivity.
  - cbn [fold_left assign_codes map]. unfold as_step at 2. cbn [fst snd].
    assert (Hk0 : In l0 (map fst nxt)) by (apply (Hk s0); left; reflexivity).
    rewrite (IH _ _ (assoc_incr l0 nxt)).
    + rewrite <- app_assoc. cbn [app]. unfold rv at 2. unfold e_sym, e_len, e_val. cbn [fst snd].
      rewrite (Hs l0 Hk0). reflexivity.
    + intros s l Hin. rewrite assoc_incr_keys. apply (Hk s). right. exact Hin.
    + intros l Hl. rewrite assoc_incr_keys in Hl.
      rewrite nm_getd_set, assoc_get_incr by exact Hk0. rewrite (N.eqb_sym l l0).
      destruct (l0 =? l) eqn:E.
      * apply N.eqb_eq in E. subst l. rewrite (Hs l0 Hk0). reflexivity.
      * rewrite (Hs l Hl). lia.
Qed.

(* ---- the model, unfolded for at least two codes --------------------------------- *)
Lemma gen_prefixes_unfold x y r :
  let codes := x :: y :: r in
  gen_prefixes codes =
  if negb (strictly_increasing codes None) then GPInvalid else
  let lens := map snd codes in
  let minl := fold_left N.min lens 27 in
  let maxl := fold_left N.max lens 0 in
  if minl =? 0 then GPInvalid else
  let res := fold_left
      (fun (st : N * nmap N) l =>
         let c := 2 * fst st in
         (c + N.of_nat (length (filter (N.eqb l) lens)), nm_set (snd st) l c))
      (map (fun i => minl + i) (iota (maxl - minl + 1))) (0, nm_empty) in
  if negb (fst res =? 2 ^ maxl) then GPInvalid else
  GPOk (fst (fold_left as_step codes ([], snd res))).
Proof.
  destruct x as [s0 l0]. cbv zeta. unfold gen_prefixes.
  destruct (negb (strictly_increasing ((s0, l0) :: y :: r) None)); [reflexivity|].
  cbv zeta.
  destruct (fold_left N.min (map snd ((s0, l0) :: y :: r)) 27 =? 0); [reflexivity|].
  destruct (fold_left _ _ (0, nm_empty)) as [code next].
  cbn [fst snd]. reflexivity.
Qed.

(* computational characterisation of the model *)
Theorem gen_prefixes_eq codes :
  (2 <= length codes)%nat ->
  gen_prefixes codes =
  if strictly_increasing codes None
  then if fold_left N.min (map snd codes) 27 =? 0 then GPInvalid
       else if complete codes then GPOk (map rv (canonical codes)) else GPInvalid
  else GPInvalid.
Proof.
  intros Hlen. destruct codes as [|x [|y r]]; cbn [length] in Hlen; try lia.
  rewrite gen_prefixes_unfold. cbv zeta.
  set (codes := x :: y :: r).
  destruct (strictly_increasing codes None); cbn [negb]; [|reflexivity].
  destruct (fold_left N.min (map snd codes) 27 =? 0) eqn:Emin; [reflexivity|].
  assert (Hp : lens_pos codes) by (apply minl_pos; exact Emin).
  assert (Hne : codes <> []) by (unfold codes; discriminate).
  pose proof (nc_model codes Hp Hne) as Hnc. cbv zeta in Hnc.
  rewrite fold_max_len. destruct Hnc as [Hc Hn]. rewrite Hc.
  unfold complete.
  destruct (kraft (max_len codes) codes =? 2 ^ max_len codes); cbn [negb]; [|reflexivity].
  f_equal. unfold canonical.
  rewrite (as_loop codes [] _ (first_codes codes (lens_range (max_len codes)) 0)).
  - reflexivity.
  - intros s l Hin. rewrite first_codes_keys. apply lens_range_in.
    split; [apply (Hp s), Hin | apply (max_len_ge _ s), Hin].
  - intros l Hl. rewrite first_codes_keys in Hl. unfold lens_range in Hl.
    apply in_map_iff in Hl. destruct Hl as (i & <- & Hi). apply in_seq in Hi.
    assert (Hr : 1 <= N.of_nat i <= max_len codes) by lia.
    rewrite (canonical_get codes _ Hp Hr). apply Hn. lia.
Qed.

(* ---- sortedness ------------------------------------------------------------------- *)
Lemma strictly_increasing_some l : forall p,
  strictly_increasing l (Some p) = true <-> StronglySorted N.lt (p :: map fst l).
Proof.
  induction l as [|[s0 l0] r IH]; intros p; cbn [strictly_increasing map fst].
  - split; intros _; [|reflexivity]. constructor; constructor.
  - rewrite andb_true_iff, IH, N.ltb_lt. split.
    + intros [H1 H2]. constructor; [exact H2|].
      constructor; [exact H1|].
      apply StronglySorted_inv in H2. destruct H2 as [_ H2].
      eapply Forall_impl; [|exact H2]. intros x Hx. cbv beta in Hx. lia.
    + intros H. apply StronglySorted_inv in H. destruct H as [H1 H2].
      split; [|exact H1]. apply Forall_inv in H2. exact H2.
Qed.

Lemma strictly_increasing_iff codes :
  strictly_increasing codes None = true <-> StronglySorted N.lt (map fst codes).
Proof.
  destruct codes as [|[s0 l0] r]; cbn [strictly_increasing map fst].
  - split; intros _; [constructor | reflexivity].
  - rewrite andb_true_l. apply strictly_increasing_some.
Qed.

Lemma StronglySorted_lt_NoDup l : StronglySorted N.lt l -> NoDup l.
Proof.
  induction l as [|x r IH]; intros H; [constructor|].
  apply StronglySorted_inv in H. destruct H as [H1 H2]. constructor; [|apply IH; exact H1].
  intros Hin. rewrite Forall_forall in H2. specialize (H2 x Hin). lia.
Qed.

(* ---- KEY LINK --------------------------------------------------------------------- *)
Theorem gen_prefixes_canonical codes out :
  (2 <= length codes)%nat -> gen_prefixes codes = GPOk out ->
  out = map (fun e => (e_sym e, e_len e, reverse_bits (e_val e) (e_len e))) (canonical codes).
Proof.
  intros Hlen H. rewrite (gen_prefixes_eq codes Hlen) in H.
  destruct (strictly_increasing codes None); [|discriminate].
  destruct (fold_left N.min (map snd codes) 27 =? 0); [discriminate|].
  destruct (complete codes); [|discriminate].
  inversion H. reflexivity.
Qed.

(* ---- A1: acceptance ---------------------------------------------------------------- *)
Theorem gen_prefixes_ok_iff codes :
  (2 <= length codes)%nat ->
  ((exists out, gen_prefixes codes = GPOk out) <->
   (strictly_increasing codes None = true /\ lens_pos codes /\ complete codes = true)).
Proof.
  intros Hlen. rewrite (gen_prefixes_eq codes Hlen). rewrite <- minl_pos. split.
  - intros [out H].
    destruct (strictly_increasing codes None); [|discriminate].
    destruct (fold_left N.min (map snd codes) 27 =? 0); [discriminate|].
    destruct (complete codes); [|discriminate].
    repeat split; reflexivity.
  - intros (H1 & H2 & H3). rewrite H1, H2, H3. eexists. reflexivity.
Qed.

Theorem gen_prefixes_invalid_iff codes :
  (2 <= length codes)%nat ->
  (gen_prefixes codes = GPInvalid <->
   ~ (strictly_increasing codes None = true /\ lens_pos codes /\ complete codes = true)).
Proof.
  intros Hlen. rewrite <- (gen_prefixes_ok_iff codes Hlen). split.
  - intros H [out H']. rewrite H in H'. discriminate.
  - intros H. destruct (gen_prefixes codes) as [out|]; [|reflexivity].
    exfalso. apply H. exists out. reflexivity.
Qed.

(* the same with the sortedness as a predicate on the symbols *)
Corollary gen_prefixes_ok_iff_sorted codes :
  (2 <= length codes)%nat ->
  ((exists out, gen_prefixes codes = GPOk out) <->
   (StronglySorted N.lt (map fst codes) /\ lens_pos codes /\ complete codes = true)).
Proof. intros Hlen. rewrite <- strictly_increasing_iff. apply gen_prefixes_ok_iff. exact Hlen. Qed.

(* ---- the Kraft equation at any scale ----------------------------------------------- *)
Lemma kraft_scale m codes :
  max_len codes <= m -> kraft m codes = 2 ^ (m - max_len codes) * kraft (max_len codes) codes.
Proof.
  generalize (N.le_refl (max_len codes)). generalize (max_len codes) at 2 3 4 5 as ml.
  intros ml Hml Hm. induction codes as [|[s0 l0] r IH].
  - cbn [kraft fold_right]. lia.
  - rewrite max_len_cons in Hml. rewrite !kraft_cons, IH by lia.
    rewrite N.mul_add_distr_l, <- N.pow_add_r. do 2 f_equal. lia.
Qed.

Lemma complete_iff_kraft m codes :
  max_len codes <= m -> (complete codes = true <-> kraft m codes = 2 ^ m).
Proof.
  intros Hm. unfold complete. rewrite N.eqb_eq, (kraft_scale m codes Hm).
  assert (E : 2 ^ m = 2 ^ (m - max_len codes) * 2 ^ max_len codes).
  { rewrite <- N.pow_add_r. f_equal. lia. }
  rewrite E.
  assert (Hz : 2 ^ (m - max_len codes) <> 0) by (apply N.pow_nonzero; lia).
  split.
  - intros ->. reflexivity.
  - intros H. apply N.mul_cancel_l in H; assumption.
Qed.

Lemma complete_of_kraft m codes : max_len codes <= m -> kraft m codes = 2 ^ m -> complete codes = true.
Proof. intros Hm H. apply (complete_iff_kraft m codes Hm). exact H. Qed.

Lemma kraft_of_complete m codes : max_len codes <= m -> complete codes = true -> kraft m codes = 2 ^ m.
Proof. intros Hm H. apply (complete_iff_kraft m codes Hm). exact H. Qed.

(* ---- reverse_bits -------------------------------------------------------------------- *)
Lemma reverse_bits_msb v n : reverse_bits v n = bits_val (msb_bits (N.to_nat n) v).
Proof. reflexivity. Qed.

Lemma reverse_bits_lt v n : reverse_bits v n < 2 ^ n.
Proof.
  rewrite reverse_bits_msb.
  pose proof (bits_val_bound (msb_bits (N.to_nat n) v)) as H.
  rewrite msb_bits_len, N2Nat.id in H. exact H.
Qed.

(* reading order: the bits of the value, LSB first, are the bits of the
   canonical code, most significant first *)
Lemma reverse_bits_bits v n : val_bits (N.to_nat n) (reverse_bits v n) = msb_bits (N.to_nat n) v.
Proof.
  rewrite reverse_bits_msb.
  rewrite <- (msb_bits_len (N.to_nat n) v) at 1. apply val_bits_bits_val.
Qed.

Lemma reverse_bits_mod v n : reverse_bits (reverse_bits v n) n = v mod 2 ^ n.
Proof.
  unfold reverse_bits at 1. rewrite reverse_bits_bits. unfold msb_bits.
  rewrite !fast_rev_eq, rev_involutive, bits_val_val_bits, N2Nat.id. reflexivity.
Qed.

Lemma reverse_bits_involutive v n : v < 2 ^ n -> reverse_bits (reverse_bits v n) n = v.
Proof. intros H. rewrite reverse_bits_mod. apply N.mod_small. exact H. Qed.

Lemma reverse_bits_inj v w n : v < 2 ^ n -> w < 2 ^ n -> reverse_bits v n = reverse_bits w n -> v = w.
Proof.
  intros Hv Hw H. rewrite <- (reverse_bits_involutive v n Hv), <- (reverse_bits_involutive w n Hw), H.
  reflexivity.
Qed.

(* ---- reading-order prefixes ------------------------------------------------------------ *)
Lemma bits_val_inj a : forall b, length a = length b -> bits_val a = bits_val b -> a = b.
Proof.
  intros b Hl Hv. rewrite <- (val_bits_bits_val a), <- (val_bits_bits_val b), Hl, Hv. reflexivity.
Qed.

Lemma prefix_of_firstn {A} (a b : list A) : prefix_of a b <-> firstn (length a) b = a.
Proof.
  split.
  - intros [t ->]. rewrite firstn_app, Nat.sub_diag, firstn_all. cbn [firstn]. apply app_nil_r.
  - intros H. exists (skipn (length a) b). rewrite <- (firstn_skipn (length a) b) at 1.
    rewrite H. reflexivity.
Qed.

(* a bit list (first element read first) starts with [a] iff its value agrees
   with the value of [a] on the low [length a] bits *)
Lemma bits_val_prefix a b :
  (length a <= length b)%nat ->
  (bits_val b mod 2 ^ N.of_nat (length a) = bits_val a <-> prefix_of a b).
Proof.
  intros Hl. rewrite prefix_of_firstn.
  set (n := length a).
  assert (Hf : length (firstn n b) = n) by (rewrite firstn_length; lia).
  assert (E : bits_val b mod 2 ^ N.of_nat n = bits_val (firstn n b)).
  { rewrite <- (firstn_skipn n b) at 1. rewrite bits_val_app, Hf.
    pose proof (bits_val_bound (firstn n b)) as Hb. rewrite Hf in Hb.
    rewrite N.mul_comm, N.mod_add by (apply N.pow_nonzero; lia).
    apply N.mod_small. exact Hb. }
  rewrite E. split.
  - intros H. apply bits_val_inj; [exact Hf | exact H].
  - intros ->. reflexivity.
Qed.

Lemma val_bits_firstn n : forall m v, (n <= m)%nat -> firstn n (val_bits m v) = val_bits n v.
Proof.
  induction n as [|n IH]; intros m v H; [reflexivity|].
  destruct m as [|m]; [lia|]. cbn [val_bits firstn]. f_equal. apply IH. lia.
Qed.

(* v starts (in reading order) with the code word of (l, c) *)
Lemma mod_reverse_bits_prefix v m l c :
  l <= m ->
  (v mod 2 ^ l = reverse_bits c l <-> prefix_of (msb_bits (N.to_nat l) c) (val_bits (N.to_nat m) v)).
Proof.
  intros Hl. rewrite prefix_of_firstn, msb_bits_len, val_bits_firstn by lia.
  rewrite reverse_bits_msb. rewrite <- (N2Nat.id l) at 1. rewrite <- bits_val_val_bits. split.
  - intros H. apply bits_val_inj; [rewrite val_bits_length, msb_bits_len; reflexivity | exact H].
  - intros ->. reflexivity.
Qed.

(* for values val_i = reverse_bits c_i l_i: val_i, read LSB first, starts with
   val_j iff the canonical code word j is a prefix of the code word i *)
Lemma reverse_bits_prefix ci li cj lj :
  lj <= li ->
  (reverse_bits ci li mod 2 ^ lj = reverse_bits cj lj <->
   prefix_of (msb_bits (N.to_nat lj) cj) (msb_bits (N.to_nat li) ci)).
Proof.
  intros Hl. rewrite (mod_reverse_bits_prefix _ li lj cj Hl), reverse_bits_bits. reflexivity.
Qed.

Lemma mod_pow2_mod v a b : b <= a -> (v mod 2 ^ a) mod 2 ^ b = v mod 2 ^ b.
Proof.
  intros H. replace a with (b + (a - b)) by lia. rewrite N.pow_add_r.
  assert (H1 : 2 ^ b <> 0) by (apply N.pow_nonzero; lia).
  assert (H2 : 2 ^ (a - b) <> 0) by (apply N.pow_nonzero; lia).
  rewrite N.mod_mul_r by assumption.
  rewrite N.mul_comm, N.mod_add by assumption. apply N.mod_mod. exact H1.
Qed.

(* ---- A2 + A3: the output is a valid prefix code in reading order ------------------------ *)
Record valid_code (out : list (N * N * N)) : Prop := {
  (* symbols strictly increasing, hence distinct *)
  vc_sorted    : StronglySorted N.lt (map e_sym out);
  vc_len_pos   : forall e, In e out -> 1 <= e_len e;
  vc_val_lt    : forall e, In e out -> e_val e < 2 ^ e_len e;
  (* sum 2^(maxl-len) = 2^maxl *)
  vc_kraft     : complete (map fst out) = true;
  (* the values are the bit-reversed canonical (RFC 1951 3.2.2) codes of the lengths *)
  vc_canonical : map (fun e => (e_sym e, e_len e, reverse_bits (e_val e) (e_len e))) out
                 = canonical (map fst out);
  (* no code is a reading-order prefix of another one *)
  vc_prefix_free : forall e1 e2, In e1 out -> In e2 out -> e1 <> e2 -> e_len e2 <= e_len e1 ->
                   e_val e1 mod 2 ^ e_len e2 <> e_val e2;
  (* every bit string starts with a code ... *)
  vc_complete  : forall v, exists e, In e out /\ v mod 2 ^ e_len e = e_val e;
  (* ... and with only one *)
  vc_unique    : forall v e1 e2, In e1 out -> In e2 out ->
                   v mod 2 ^ e_len e1 = e_val e1 -> v mod 2 ^ e_len e2 = e_val e2 -> e1 = e2
}.

Lemma assign_codes_fst lens : forall next, map fst (assign_codes lens next) = lens.
Proof.
  induction lens as [|[s0 l0] r IH]; intros next; cbn [assign_codes map fst]; [reflexivity|].
  f_equal. apply IH.
Qed.

Lemma canonical_fst lens : map fst (canonical lens) = lens.
Proof. apply assign_codes_fst. Qed.

Lemma map_rv_fst l : map fst (map rv l) = map fst l.
Proof. rewrite map_map. apply map_ext. intros [[s l0] c]. reflexivity. Qed.

Lemma in_map_rv e l :
  In e (map rv l) <-> exists s n c, e = (s, n, reverse_bits c n) /\ In (s, n, c) l.
Proof.
  rewrite in_map_iff. split.
  - intros ([[s n] c] & <- & Hin). exists s, n, c. split; [reflexivity | exact Hin].
  - intros (s & n & c & -> & Hin). exists (s, n, c). split; [reflexivity | exact Hin].
Qed.

Lemma canonical_in_lens lens s l c : lens_pos lens -> In (s, l, c) (canonical lens) -> In (s, l) lens.
Proof.
  intros Hp H. apply (canonical_spec lens Hp) in H. destruct H as (pre & post & -> & _).
  apply in_or_app. right. left. reflexivity.
Qed.

(* every bit string starts, in reading order, with a code word of a complete code *)
Lemma canonical_covers lens v :
  lens_pos lens -> complete lens = true ->
  exists s l c, In (s, l, c) (canonical lens) /\ v mod 2 ^ l = reverse_bits c l.
Proof.
  intros Hp Hc.
  unfold complete in Hc. apply N.eqb_eq in Hc.
  set (m := max_len lens) in *.
  set (w := val_bits (N.to_nat m) v).
  assert (Hw : length w = N.to_nat m) by apply val_bits_length.
  pose proof (bits_val_bound (rev w)) as Hv. rewrite rev_length, Hw, N2Nat.id in Hv.
  destruct (tiling lens m (bits_val (rev w)) Hp m) as (l & Hl & Hi).
  { lia. }
  { rewrite N.sub_diag. change (2 ^ 0) with 1. rewrite (pk_kraft_eq lens m) by (unfold m; lia).
    lia. }
  set (a := firstn (N.to_nat l) w).
  set (t := skipn (N.to_nat l) w).
  assert (Ha : length a = N.to_nat l) by (unfold a; rewrite firstn_length; lia).
  assert (Hat : w = a ++ t) by (symmetry; apply firstn_skipn).
  assert (Ht : N.of_nat (length t) = m - l).
  { apply (f_equal (@length bool)) in Hat. rewrite app_length in Hat. lia. }
  pose proof (app_val_interval a t) as Hint. rewrite <- Hat, Ht in Hint.
  set (va := bits_val (rev a)) in *.
  assert (Hz : 0 < 2 ^ (m - l)) by (apply N.neq_0_lt_0, N.pow_nonzero; lia).
  assert (H1 : fc lens l < va + 1).
  { apply (N.mul_lt_mono_pos_l _ _ _ Hz). lia. }
  assert (H2 : va < pk lens l).
  { apply (N.mul_lt_mono_pos_l _ _ _ Hz). lia. }
  rewrite <- fc_count in H2.
  destruct (count_len_nth lens l (va - fc lens l)) as (pre & s & post & E & Hcnt); [lia|].
  assert (Hin : In (s, l, va) (canonical lens)).
  { apply (canonical_spec lens Hp). exists pre, post. split; [exact E | lia]. }
  exists s, l, va. split; [exact Hin|].
  apply (mod_reverse_bits_prefix v m l va (proj2 Hl)). fold w.
  rewrite <- Ha. unfold va. rewrite msb_bits_of_word. exists t. exact Hat.
Qed.

Theorem canonical_reversed_valid codes :
  StronglySorted N.lt (map fst codes) -> lens_pos codes -> complete codes = true ->
  valid_code (map rv (canonical codes)).
Proof.
  intros Hs Hp Hc.
  pose proof (complete_kraft_ok codes Hc) as Hk.
  assert (Hfst : map fst (map rv (canonical codes)) = codes).
  { rewrite map_rv_fst. apply canonical_fst. }
  assert (Hpf : forall e1 e2, In e1 (map rv (canonical codes)) -> In e2 (map rv (canonical codes)) ->
                e1 <> e2 -> e_len e2 <= e_len e1 -> e_val e1 mod 2 ^ e_len e2 <> e_val e2).
  { intros e1 e2 H1 H2 Hne Hl Heq.
    apply in_map_rv in H1. destruct H1 as (s1 & l1 & c1 & -> & H1).
    apply in_map_rv in H2. destruct H2 as (s2 & l2 & c2 & -> & H2).
    unfold e_len, e_val in Hl, Heq. cbn [fst snd] in Hl, Heq.
    apply (reverse_bits_prefix c1 l1 c2 l2 Hl) in Heq.
    revert Heq. apply (canonical_prefix_free_gen codes s2 l2 c2 s1 l1 c1 Hp Hk H2 H1).
    intros E. apply Hne. inversion E. reflexivity. }
  constructor.
  - replace (map e_sym (map rv (canonical codes))) with (map fst codes); [exact Hs|].
    rewrite <- (canonical_syms codes), map_map. apply map_ext. intros [[s l] c]. reflexivity.
  - intros e He. apply in_map_rv in He. destruct He as (s & l & c & -> & Hin).
    unfold e_len. cbn [fst snd]. apply (Hp s). apply (canonical_in_lens codes s l c Hp Hin).
  - intros e He. apply in_map_rv in He. destruct He as (s & l & c & -> & Hin).
    unfold e_len, e_val. cbn [fst snd]. apply reverse_bits_lt.
  - rewrite Hfst. exact Hc.
  - rewrite Hfst. change (map rv (map rv (canonical codes)) = canonical codes).
    rewrite map_map. rewrite <- (map_id (canonical codes)) at 2.
    apply map_ext_in. intros [[s l] c] Hin. unfold rv, e_sym, e_len, e_val. cbn [fst snd].
    rewrite reverse_bits_involutive; [reflexivity|].
    apply (canonical_fits codes s l c Hp Hk Hin).
  - exact Hpf.
  - intros v. destruct (canonical_covers codes v Hp Hc) as (s & l & c & Hin & Hv).
    exists (s, l, reverse_bits c l). split.
    + apply in_map_rv. exists s, l, c. split; [reflexivity | exact Hin].
    + exact Hv.
  - intros v e1 e2 H1 H2 V1 V2.
    destruct (N.le_ge_cases (e_len e2) (e_len e1)) as [Hl|Hl].
    + destruct (N.eq_dec (e_val e1 mod 2 ^ e_len e2) (e_val e2)) as [E|E].
      * destruct (list_eq_dec N.eq_dec [e_sym e1; e_len e1; e_val e1] [e_sym e2; e_len e2; e_val e2])
          as [Ee|Ee].
        -- destruct e1 as [[s1 l1] c1], e2 as [[s2 l2] c2]. unfold e_sym, e_len, e_val in Ee.
           cbn [fst snd] in Ee. inversion Ee. reflexivity.
        -- exfalso. apply (Hpf e1 e2 H1 H2); [intros ->; apply Ee; reflexivity | exact Hl | exact E].
      * exfalso. apply E. rewrite <- V1, mod_pow2_mod by exact Hl. exact V2.
    + destruct (N.eq_dec (e_val e2 mod 2 ^ e_len e1) (e_val e1)) as [E|E].
      * destruct (list_eq_dec N.eq_dec [e_sym e1; e_len e1; e_val e1] [e_sym e2; e_len e2; e_val e2])
          as [Ee|Ee].
        -- destruct e1 as [[s1 l1] c1], e2 as [[s2 l2] c2]. unfold e_sym, e_len, e_val in Ee.
           cbn [fst snd] in Ee. inversion Ee. reflexivity.
        -- exfalso. apply (Hpf e2 e1 H2 H1); [intros ->; apply Ee; reflexivity | exact Hl | exact E].
      * exfalso. apply E. rewrite <- V2, mod_pow2_mod by exact Hl. exact V1.
Qed.

Theorem gen_prefixes_same_lens codes out :
  (2 <= length codes)%nat -> gen_prefixes codes = GPOk out -> map fst out = codes.
Proof.
  intros Hlen H. rewrite (gen_prefixes_canonical codes out Hlen H).
  change (map fst (map rv (canonical codes)) = codes). rewrite map_rv_fst. apply canonical_fst.
Qed.

Theorem gen_prefixes_valid codes out :
  (2 <= length codes)%nat -> gen_prefixes codes = GPOk out -> valid_code out.
Proof.
  intros Hlen H.
  assert (Hok : exists o, gen_prefixes codes = GPOk o) by (exists out; exact H).
  apply (gen_prefixes_ok_iff_sorted codes Hlen) in Hok. destruct Hok as (Hs & Hp & Hc).
  rewrite (gen_prefixes_canonical codes out Hlen H).
  apply canonical_reversed_valid; assumption.
Qed.

(* composition-friendly form *)
Theorem gen_prefixes_accepts codes :
  (2 <= length codes)%nat ->
  strictly_increasing codes None = true -> lens_pos codes -> complete codes = true ->
  exists out, gen_prefixes codes = GPOk out /\ valid_code out /\ map fst out = codes.
Proof.
  intros Hlen Hs Hp Hc.
  destruct (proj2 (gen_prefixes_ok_iff codes Hlen) (conj Hs (conj Hp Hc))) as [out H].
  exists out. split; [exact H|]. split.
  - apply (gen_prefixes_valid codes out Hlen H).
  - apply (gen_prefixes_same_lens codes out Hlen H).
Qed.

(* at least two codes: implied by non-zero lengths and completeness *)
Lemma complete_pos_two codes : lens_pos codes -> complete codes = true -> (2 <= length codes)%nat.
Proof.
  intros Hp Hc. destruct codes as [|[s l] [|y r]]; cbn [length]; try lia.
  - vm_compute in Hc. discriminate.
  - exfalso. assert (Hl : 1 <= l) by (apply (Hp s); left; reflexivity).
    unfold complete in Hc. cbn [max_len kraft fold_right snd] in Hc.
    rewrite N.max_0_r, N.sub_diag in Hc. apply N.eqb_eq in Hc.
    pose proof (N.pow_gt_lin_r 2 l). change (2 ^ 0) with 1 in Hc. lia.
Qed.

Theorem gen_prefixes_accepts' codes :
  StronglySorted N.lt (map fst codes) -> lens_pos codes -> complete codes = true ->
  exists out, gen_prefixes codes = GPOk out /\ valid_code out /\ map fst out = codes.
Proof.
  intros Hs Hp Hc. apply gen_prefixes_accepts; try assumption.
  - apply complete_pos_two; assumption.
  - apply strictly_increasing_iff. exact Hs.
Qed.

(* zero and one code (not covered by the theorems above) *)
Lemma gen_prefixes_nil : gen_prefixes [] = GPOk [].
Proof. reflexivity. Qed.

Lemma gen_prefixes_one s l : gen_prefixes [(s, l)] = if l =? 0 then GPOk [(s, 0, 0)] else GPInvalid.
Proof. reflexivity. Qed.

(* consequences of [valid_code] used by decoders: distinct symbols, and the
   decoding step is a function of the next bits *)
Lemma valid_code_nodup out : valid_code out -> NoDup (map e_sym out).
Proof. intros H. apply StronglySorted_lt_NoDup. apply (vc_sorted out H). Qed.

Lemma valid_code_decode out v :
  valid_code out ->
  exists e, In e out /\ v mod 2 ^ e_len e = e_val e /\
            forall e', In e' out -> v mod 2 ^ e_len e' = e_val e' -> e' = e.
Proof.
  intros H. destruct (vc_complete out H v) as (e & Hin & Hv).
  exists e. split; [exact Hin|]. split; [exact Hv|].
  intros e' Hin' Hv'. apply (vc_unique out H v e' e Hin' Hin Hv' Hv).
Qed.

(* ---- non-vacuity ------------------------------------------------------------------------- *)
Example gp_ex_codes : list (N * N) := [(0, 2); (1, 1); (2, 3); (3, 3)].

Example gp_ex_run : gen_prefixes gp_ex_codes = GPOk [(0, 2, 1); (1, 1, 0); (2, 3, 3); (3, 3, 7)].
Proof. vm_compute. reflexivity. Qed.

Example gp_ex_hyps :
  (2 <= length gp_ex_codes)%nat /\ strictly_increasing gp_ex_codes None = true /\
  lens_pos gp_ex_codes /\ complete gp_ex_codes = true.
Proof.
  split; [cbn [gp_ex_codes length]; lia|]. split; [vm_compute; reflexivity|]. split.
  - intros s l H. unfold gp_ex_codes in H. cbn [In] in H.
    destruct H as [H|[H|[H|[H|[]]]]]; inversion H; lia.
  - vm_compute. reflexivity.
Qed.

Example gp_ex_canonical :
  canonical gp_ex_codes = [(0, 2, 2); (1, 1, 0); (2, 3, 6); (3, 3, 7)].
Proof. vm_compute. reflexivity. Qed.

Example gp_ex_valid : valid_code [(0, 2, 1); (1, 1, 0); (2, 3, 3); (3, 3, 7)].
Proof.
  apply (gen_prefixes_valid gp_ex_codes); [apply gp_ex_hyps | apply gp_ex_run].
Qed.

(* refusals: incomplete, over-subscribed, a zero length, unsorted symbols *)
Example gp_ex_incomplete : gen_prefixes [(0, 2); (1, 1); (2, 3)] = GPInvalid.
Proof. vm_compute. reflexivity. Qed.
Example gp_ex_oversubscribed : gen_prefixes [(0, 1); (1, 1); (2, 1)] = GPInvalid.
Proof. vm_compute. reflexivity. Qed.
Example gp_ex_zero_len : gen_prefixes [(0, 0); (1, 1); (2, 1)] = GPInvalid.
Proof. vm_compute. reflexivity. Qed.
Example gp_ex_unsorted : gen_prefixes [(1, 1); (1, 1)] = GPInvalid.
Proof. vm_compute. reflexivity. Qed.
(* lengths above 27 are accepted by the model (the Go code would panic) *)
Example gp_ex_long :
  exists out, gen_prefixes ((0, 1) :: map (fun i => (i, i)) (map N.of_nat (seq 2 28)) ++ [(30, 29)])
              = GPOk out.
Proof. eexists. vm_compute. reflexivity. Qed.

Print Assumptions gen_prefixes_eq.
Print Assumptions gen_prefixes_canonical.
Print Assumptions gen_prefixes_ok_iff.
Print Assumptions gen_prefixes_ok_iff_sorted.
Print Assumptions gen_prefixes_invalid_iff.
Print Assumptions strictly_increasing_iff.
Print Assumptions complete_iff_kraft.
Print Assumptions complete_of_kraft.
Print Assumptions kraft_of_complete.
Print Assumptions reverse_bits_lt.
Print Assumptions reverse_bits_involutive.
Print Assumptions reverse_bits_bits.
Print Assumptions reverse_bits_prefix.
Print Assumptions mod_reverse_bits_prefix.
Print Assumptions canonical_covers.
Print Assumptions canonical_reversed_valid.
Print Assumptions gen_prefixes_same_lens.
Print Assumptions gen_prefixes_valid.
Print Assumptions gen_prefixes_accepts.
Print Assumptions gen_prefixes_accepts'.
Print Assumptions valid_code_decode.
Print Assumptions gp_ex_valid.
Print Assumptions gp_ex_long.
