(* Encoder.Init and the lookup of WriteSymbol (model: Prefix/DecTable.v): THEOREM (d), and
   encode-then-decode, THEOREM (e). *)
From Coq Require Import Sorted.
From V Require Import Base.Prelude Bzip2.Common Prefix.ReaderImpl Prefix.DecTable Prefix.DecTableSpec
  Prefix.DecTableThms.

Local Open Scope N_scope.
Local Ltac Zify.zify_post_hook ::= idtac.

Definition echunk (c : pcode) : N := mk_chunk (c_val c) (c_len c).

Section Insert.
Variable k : N.
Hypothesis Hk : k <= 32.

Definition slot (c : pcode) : N := c_sym c mod 2 ^ k.

Definition entry (done : list pcode) (i : N) : N :=
  match find (fun c => slot c =? i) done with Some c => echunk c | None => 0 end.

Definition EI (ch : arr) (done : list pcode) : Prop :=
  a_len ch = 2 ^ k /\ forall i, i < 2 ^ k -> arr_get ch i = Some (entry done i).

Lemma find_app {A} (f : A -> bool) l x :
  find f (l ++ [x]) = match find f l with Some y => Some y | None => if f x then Some x else None end.
Proof.
  induction l as [|y l IH]; cbn [find app]; [destruct (f x); reflexivity|].
  destruct (f y); [reflexivity | exact IH].
Qed.

Lemma enc_insert_spec cs : forall ch done,
  (forall c, In c (done ++ cs) -> 0 < echunk c) ->
  EI ch done -> NoDup (map slot done) ->
  match enc_insert (2 ^ k - 1) ch cs with
  | None => False
  | Some None => ~ NoDup (map slot (done ++ cs))
  | Some (Some ch') => NoDup (map slot (done ++ cs)) /\ EI ch' (done ++ cs)
  end.
Proof.
  induction cs as [|c r IH]; intros ch done Hpos HE Hnd; cbn [enc_insert].
  - rewrite app_nil_r. split; assumption.
  - rewrite land_mask. fold (slot c). destruct HE as [E1 E2].
    assert (Hs : slot c < 2 ^ k) by (apply N.mod_lt, pow2_nz).
    rewrite (E2 _ Hs). unfold entry at 1.
    destruct (find (fun c0 => slot c0 =? slot c) done) as [c0|] eqn:Ef.
    + apply find_some in Ef. destruct Ef as [Hin Heq]. apply N.eqb_eq in Heq.
      replace (0 <? echunk c0) with true
        by (symmetry; apply N.ltb_lt, Hpos, in_or_app; left; exact Hin).
      intros Hn. rewrite map_app in Hn. cbn [map] in Hn.
      apply NoDup_remove_2 in Hn. apply Hn. apply in_or_app. left.
      rewrite <- Heq. apply in_map. exact Hin.
    + replace (0 <? 0) with false by reflexivity.
      unfold arr_set.
      replace (slot c <? a_len ch) with true by (symmetry; rewrite E1; apply N.ltb_lt; exact Hs).
      assert (Hnin : ~ In (slot c) (map slot done)).
      { intros Hin. apply in_map_iff in Hin. destruct Hin as (c0 & E0 & H0).
        pose proof (find_none _ _ Ef c0 H0) as Hf. cbn beta in Hf. apply N.eqb_neq in Hf. congruence. }
      assert (Hnd' : NoDup (map slot (done ++ [c]))).
      { rewrite map_app. cbn [map]. rewrite <- (rev_involutive (_ ++ _)). apply NoDup_rev.
        rewrite rev_app_distr. cbn [rev app]. constructor.
        - intros Hin. apply Hnin. apply in_rev. exact Hin.
        - apply NoDup_rev. exact Hnd. }
      specialize (IH (mkArr (a_len ch) (nm_set (a_new ch) (slot c) (mk_chunk (c_val c) (c_len c))) (a_old ch))
                     (done ++ [c])).
      rewrite <- app_assoc in IH. cbn [app] in IH. apply IH; [exact Hpos | | exact Hnd'].
      split; [exact E1|]. intros i Hi. unfold arr_get. cbn [a_len a_new a_old]. rewrite E1.
      replace (i <? 2 ^ k) with true by (symmetry; apply N.ltb_lt; exact Hi).
      unfold entry. rewrite find_app.
      destruct (N.eq_dec (slot c) i) as [<-|Hne].
      * rewrite nm_gss, Ef, N.eqb_refl. reflexivity.
      * rewrite nm_gso by exact Hne.
        replace (slot c =? i) with false by (symmetry; apply N.eqb_neq; exact Hne).
        pose proof (E2 i Hi) as G. unfold arr_get in G. rewrite E1 in G.
        replace (i <? 2 ^ k) with true in G by (symmetry; apply N.ltb_lt; exact Hi).
        unfold entry in G. destruct (find (fun c0 => slot c0 =? i) done); exact G.
Qed.

Lemma EI_zero : EI (arr_zero (arr_alloc (fun _ => 0) (2 ^ k))) [].
Proof.
  split; [reflexivity|]. intros i Hi. unfold arr_get, arr_zero, arr_alloc. cbn [a_len a_new a_old].
  replace (i <? 2 ^ k) with true by (symmetry; apply N.ltb_lt; exact Hi).
  rewrite nm_gempty. reflexivity.
Qed.

End Insert.

Lemma size_le a k : a < 2 ^ k -> N.size a <= k.
Proof.
  intros H. destruct (N.le_gt_cases (N.size a) k) as [Hle|Hgt]; [exact Hle | exfalso].
  pose proof (N.size_le a) as H1.
  assert (H2 : 2 ^ (k + 1) <= 2 ^ N.size a) by (apply pow2_le; lia).
  rewrite N.pow_add_r in H2. change (2 ^ 1) with 2 in H2.
  rewrite N.succ_double_spec in H1. lia.
Qed.

Lemma sorted_nodup l : StronglySorted N.lt l -> NoDup l.
Proof.
  induction 1 as [|x l Hs IH Hf]; constructor; [|exact IH].
  intros Hin. rewrite Forall_forall in Hf. specialize (Hf x Hin). lia.
Qed.

Lemma nodup_map_inj {A} (g : A -> N) l a b : NoDup (map g l) -> In a l -> In b l -> g a = g b -> a = b.
Proof.
  induction l as [|x l IH]; intros Hnd Ha Hb E; [contradiction|].
  cbn [map] in Hnd. inversion Hnd as [|? ? Hx Hr]; subst.
  destruct Ha as [<-|Ha], Hb as [<-|Hb].
  - reflexivity.
  - exfalso. apply Hx. rewrite E. apply in_map. exact Hb.
  - exfalso. apply Hx. rewrite <- E. apply in_map. exact Ha.
  - apply IH; assumption.
Qed.

Section Encoder.
Variable codes : list pcode.
Hypothesis Hwf : wf_codes 27 codes.
Hypothesis Hsyms : syms_sorted codes.

Definition collision_free (k : N) : Prop := NoDup (map (slot k) codes).

Lemma collision_free_32 : collision_free 32.
Proof.
  destruct Hsyms as [Hs Hlt]. unfold collision_free.
  rewrite (map_ext_in (slot 32) c_sym); [apply sorted_nodup; exact Hs|].
  intros c Hc. unfold slot. apply N.mod_small. apply Hlt. exact Hc.
Qed.

Lemma echunk_pos c : In c codes -> 0 < echunk c.
Proof.
  intros Hc. pose proof (wf_len _ _ Hwf c Hc). apply mk_chunk_pos; lia.
Qed.

(* what the final table is, for the size 2^k the retry loop stops at *)
Definition enc_ok (k0 : N) (e : enc) : Prop :=
  exists k, k0 <= k <= 32 /\ collision_free k /\ (forall j, k0 <= j < k -> ~ collision_free j) /\
    e_chunkMask e = 2 ^ k - 1 /\ e_numSyms e = w32 (N.of_nat (length codes)) /\
    EI k (e_chunks e) codes.

Lemma enc_retry_ok : forall fuel k0, k0 <= 32 -> 32 < k0 + N.of_nat fuel ->
  (forall j, j < k0 -> True) ->
  exists e, enc_retry fuel codes k0 = IOk e /\ enc_ok k0 e.
Proof.
  induction fuel as [|fuel IH]; intros k0 Hk0 Hfuel _; [lia|].
  cbn [enc_retry]. replace (32 <? k0) with false by (symmetry; apply N.ltb_ge; exact Hk0).
  rewrite mask_w32 by exact Hk0.
  pose proof (enc_insert_spec k0 codes (arr_zero (arr_alloc (fun _ => 0) (2 ^ k0))) []
                (fun c Hc => echunk_pos c Hc) (EI_zero k0) (NoDup_nil _)) as Hspec.
  cbn [app] in Hspec.
  destruct (enc_insert (2 ^ k0 - 1) (arr_zero (arr_alloc (fun _ => 0) (2 ^ k0))) codes) as [[ch|]|].
  - destruct Hspec as [Hnd HE]. eexists. split; [reflexivity|].
    exists k0. split; [lia|]. split; [exact Hnd|]. split; [intros j Hj; lia|].
    cbn [e_chunkMask e_numSyms e_chunks]. split; [reflexivity|]. split; [reflexivity | exact HE].
  - assert (Hne : k0 <> 32) by (intros ->; apply Hspec, collision_free_32).
    destruct (IH (k0 + 1) ltac:(lia) ltac:(lia) (fun _ _ => I)) as (e & E & k & Hk & Hcf & Hmin & Hrest).
    exists e. split; [exact E|]. exists k. split; [lia|]. split; [exact Hcf|]. split; [|exact Hrest].
    intros j Hj. destruct (N.eq_dec j k0) as [->|Hjne]; [exact Hspec | apply Hmin; lia].
  - destruct Hspec.
Qed.

(* THEOREM (d) *)
Theorem enc_init_ok :
  exists e, enc_init codes = IOk e /\ enc_ok (N.size (N.of_nat (length codes) - 1)) e.
Proof.
  pose proof (wf_two _ _ Hwf) as H2.
  assert (E : enc_init codes = enc_init_multi codes).
  { destruct codes as [|c1 [|c2 r]]; cbn [length] in H2; try lia. reflexivity. }
  rewrite E. unfold enc_init_multi.
  assert (Hn : N.of_nat (length codes) <= 2 ^ 32).
  { destruct Hsyms as [Hs Hlt]. rewrite <- (map_length c_sym).
    apply nodup_bound; [apply sorted_nodup; exact Hs|].
    intros s Hin. apply in_map_iff in Hin. destruct Hin as (c & <- & Hc). apply Hlt. exact Hc. }
  assert (Hk0 : N.size (N.of_nat (length codes) - 1) <= 32) by (apply size_le; lia).
  apply enc_retry_ok; [exact Hk0 | lia | intros; exact I].
Qed.

(* the lookup of WriteSymbol *)
Theorem enc_lookup_ok k0 e : enc_ok k0 e ->
  (forall c, In c codes -> enc_lookup e (c_sym c) = Some (c_val c, c_len c)) /\
  (* any other symbol silently aliases: it writes the code of the symbol it collides with,
     or nothing at all (zero bits) when its slot is empty *)
  (forall s, enc_lookup e s <> None) /\
  (forall s v nb, enc_lookup e s = Some (v, nb) ->
     (v = 0 /\ nb = 0) \/
     exists c, In c codes /\ v = c_val c /\ nb = c_len c /\
               c_sym c mod (e_chunkMask e + 1) = s mod (e_chunkMask e + 1)).
Proof.
  intros (k & Hk & Hcf & _ & Em & _ & HE).
  assert (Hdec : forall c, In c codes ->
            N.shiftr (echunk c) countBits = c_val c /\ N.land (echunk c) countMask = c_len c).
  { intros c Hc. pose proof (wf_len _ _ Hwf c Hc) as Hl. pose proof (wf_val _ _ Hwf c Hc) as Hv.
    unfold echunk. rewrite mk_chunk_sym, mk_chunk_len by lia. split; [|reflexivity].
    apply N.mod_small. eapply N.lt_le_trans; [exact Hv | apply pow2_le; lia]. }
  assert (Hget : forall s, arr_get (e_chunks e) (N.land (w32 s) (e_chunkMask e))
                           = Some (entry k codes (s mod 2 ^ k))).
  { intros s. rewrite Em, land_mask, w32_mod by lia. apply (proj2 HE). apply N.mod_lt, pow2_nz. }
  split; [|split].
  - intros c Hc. unfold enc_lookup. rewrite Hget. unfold entry.
    destruct (find (fun c0 => slot k c0 =? c_sym c mod 2 ^ k) codes) as [c0|] eqn:Ef.
    + apply find_some in Ef. destruct Ef as [H0 E0]. apply N.eqb_eq in E0.
      pose proof (nodup_map_inj (slot k) codes c0 c Hcf H0 Hc E0) as ->.
      destruct (Hdec c Hc) as [-> ->]. reflexivity.
    + pose proof (find_none _ _ Ef c Hc) as Hf. cbn beta in Hf. apply N.eqb_neq in Hf.
      exfalso. apply Hf. reflexivity.
  - intros s. unfold enc_lookup. rewrite Hget. discriminate.
  - intros s v nb. unfold enc_lookup. rewrite Hget. unfold entry.
    destruct (find (fun c0 => slot k c0 =? s mod 2 ^ k) codes) as [c0|] eqn:Ef.
    + apply find_some in Ef. destruct Ef as [H0 E0]. apply N.eqb_eq in E0.
      destruct (Hdec c0 H0) as [E1 E2]. rewrite E1, E2. intros E; inversion E; subst.
      right. exists c0. split; [exact H0|]. split; [reflexivity|]. split; [reflexivity|].
      rewrite Em. replace (2 ^ k - 1 + 1) with (2 ^ k) by (pose proof (pow2_pos k); lia). exact E0.
    + intros E; inversion E; subst. left. split; reflexivity.
Qed.

End Encoder.

Print Assumptions enc_init_ok.
Print Assumptions enc_lookup_ok.
