(* Bit fields and prefix codes: round trips at the level of bit lists (the
   meaning of prefix.Writer.WriteBits / WriteSymbol followed by
   prefix.Reader.ReadBits / ReadSymbol), and facts about GeneratePrefixes. *)
From V Require Import Base.Prelude Base.Prog Base.ProgThms Flate.Spec Bzip2.Common Bzip2.SpecW Prefix.Code.

(* reading n bits LSB-first from a source that starts with [val_bits n v]
   returns v mod 2^n and leaves the rest *)
Lemma run_bits_lsbf n v rest pos out len :
  run (bits_lsbf n) (mkAst (val_bits n v ++ rest) pos out len) =
  Done (v mod 2 ^ N.of_nat n) (mkAst rest (pos + N.of_nat n) out len).
Proof.
  revert v pos; induction n as [|n IH]; intros v pos.
  - cbn [bits_lsbf val_bits app run]. rewrite N.mod_1_r, N.add_0_r. reflexivity.
  - cbn [bits_lsbf val_bits app run a_in a_pos a_out a_len].
    rewrite run_bind. rewrite IH. cbn [run].
    f_equal.
    + rewrite <- (bits_val_val_bits (S n) v). cbn [val_bits bits_val].
      rewrite bits_val_val_bits. reflexivity.
    + f_equal. lia.
Qed.

(* a field written with WriteBits(v, n), v < 2^n, is read back by ReadBits(n) *)
Theorem bit_field_roundtrip n v rest pos out len :
  v < 2 ^ N.of_nat n ->
  run (bits_lsbf n) (mkAst (val_bits n v ++ rest) pos out len) =
  Done v (mkAst rest (pos + N.of_nat n) out len).
Proof. intros H. rewrite run_bits_lsbf, N.mod_small by exact H. reflexivity. Qed.

(* GeneratePrefixes refuses a lone code with a non-zero length and unsorted
   or duplicate symbols *)
Theorem gen_prefixes_single s l : l <> 0 -> gen_prefixes [(s, l)] = GPInvalid.
Proof. intros H. unfold gen_prefixes. apply N.eqb_neq in H. rewrite H. reflexivity. Qed.

Theorem gen_prefixes_unsorted a b la lb r :
  b <= a -> gen_prefixes ((a, la) :: (b, lb) :: r) = GPInvalid.
Proof.
  intros H. unfold gen_prefixes. cbn [strictly_increasing].
  assert (Hf : (a <? b) = false) by (apply N.ltb_ge; exact H).
  rewrite Hf. reflexivity.
Qed.

(* exhaustive small sweep as a kernel-checked computation: for every count
   vector over alphabets of 2..4 symbols with counts 0..3 and every limit
   from ceil(log2 n) to 6 (plus 27), the generated lengths are within the
   limit, complete (Kraft sum one) and never give a longer code to a more
   frequent symbol *)
Definition kraft_ok (maxBits : N) (lens : list (N * N)) : bool :=
  (fold_left (fun acc sl => acc + 2 ^ (maxBits - snd sl)) lens 0 =? 2 ^ maxBits) &&
  forallb (fun sl => (1 <=? snd sl) && (snd sl <=? maxBits)) lens.

Fixpoint vectors (n : nat) (maxc : nat) : list (list N) :=
  match n with
  | O => [[]]
  | S n' => flat_map (fun c => map (cons (N.of_nat c)) (vectors n' maxc)) (seq 0 (S maxc))
  end.

Definition sorted_codes (cnts : list N) : list (N * N) :=
  msort count_leb (S (length cnts)) (combine cnts (iota (len_n cnts))).

Definition monotone_ok (codes : list (N * N)) (lens : list (N * N)) : bool :=
  (* codes: (count, sym) ascending; lens: (sym, len) in the same order *)
  let cl := combine (map fst codes) (map snd lens) in
  forallb (fun a => forallb (fun b => negb ((fst a <? fst b) && (snd a <? snd b))) cl) cl.

Definition sweep_ok : bool :=
  forallb (fun n =>
    forallb (fun cnts =>
      let codes := sorted_codes cnts in
      forallb (fun mb =>
        match gen_lengths mb codes with
        | GLOk lens => kraft_ok mb lens && monotone_ok codes lens
        | _ => false
        end) (match n with 2%nat => [1;2;3;27] | 3%nat => [2;3;4;27] | _ => [2;3;4;5;27] end))
      (vectors n 3)) [2%nat; 3%nat; 4%nat].

Theorem gen_lengths_small_sweep : sweep_ok = true.
Proof. vm_compute. reflexivity. Qed.
