(* ReadSymbol on the BufferedReader discipline with zero-minimal (canonical) codes: the
   look-ahead bits above numBits are REAL stream bits up to some position and zero above it
   (the invariant [upto], kept by PullBits' wide and narrow loads and by the consumption), so
   the table walk never asks for more bits than the next code word has: no spurious
   io.ErrUnexpectedEOF at the end of the data. Completes THEOREM (c) for discipline (i). *)
From V Require Import Base.Prelude Bzip2.Common Prefix.ReaderImpl Prefix.ReaderSpec Prefix.ReaderThms
  Prefix.DecTable Prefix.DecTableSpec Prefix.DecTableThms Prefix.DecReadThms.

Local Open Scope N_scope.
Local Ltac Zify.zify_post_hook ::= idtac.

Section Buffered.
Variable big : bool.
Variable data : list byte.
Hypothesis Hd : forall b, In b data -> b < 256.

Notation f := (sbit big data).

(* v holds the stream bits [R, R+m) and nothing else *)
Definition upto (R : nat) (v m : N) : Prop :=
  m <= 64 /\ forall i, N.testbit v i = if i <? m then f (R + N.to_nat i)%nat else false.

Lemma upto_window R v m : upto R v m -> v = window big data R mod 2 ^ m.
Proof.
  intros [Hm H]. apply N.bits_inj. intros i. rewrite H, testbit_mod_pow2.
  destruct (i <? m) eqn:E; [|reflexivity]. apply N.ltb_lt in E.
  unfold window. rewrite testbit_bits_at.
  replace (i <? N.of_nat 64) with true by (symmetry; apply N.ltb_lt; lia). reflexivity.
Qed.

Lemma upto_0 R : upto R 0 0.
Proof.
  split; [lia|]. intros i. rewrite N.bits_0.
  replace (i <? 0) with false by (symmetry; apply N.ltb_ge; lia). reflexivity.
Qed.

Lemma upto_shiftr R v m nb : upto R v m -> upto (R + N.to_nat nb) (N.shiftr v nb) (m - nb).
Proof.
  intros [Hm H]. split; [lia|]. intros i. rewrite N.shiftr_spec', H.
  destruct (i + nb <? m) eqn:E1; destruct (i <? m - nb) eqn:E2; try reflexivity.
  - f_equal. lia.
  - apply N.ltb_lt in E1. apply N.ltb_ge in E2. lia.
  - apply N.ltb_ge in E1. apply N.ltb_lt in E2. lia.
Qed.

(* loading the bytes l (the data at bit position R+s) at bit s of the buffer *)
Lemma upto_load R v m s l rest :
  upto R v m -> s <= m ->
  ((R + N.to_nat s) mod 8 = 0)%nat ->
  skipn ((R + N.to_nat s) / 8) data = l ++ rest ->
  upto R (N.lor v (u64 (N.shiftl (le_bytes (map (ord big) l)) s)))
       (N.min 64 (N.max m (s + 8 * N.of_nat (length l)))).
Proof.
  intros [Hm H] Hs Hal Hsk. split; [lia|]. intros i.
  pose proof (testbit_le_bytes_stream big data Hd l _ rest Hsk) as Hu.
  rewrite N.lor_spec, H, testbit_u64_shiftl.
  assert (HE : (8 * ((R + N.to_nat s) / 8) = R + N.to_nat s)%nat).
  { pose proof (Nat.div_mod (R + N.to_nat s) 8 ltac:(lia)). lia. }
  destruct (i <? 64) eqn:E64; [apply N.ltb_lt in E64 | apply N.ltb_ge in E64].
  - destruct (s <=? i) eqn:Es; [apply N.leb_le in Es | apply N.leb_gt in Es].
    + rewrite Hu. rewrite HE.
      replace (R + N.to_nat s + N.to_nat (i - s))%nat with (R + N.to_nat i)%nat by lia.
      destruct (i - s <? 8 * N.of_nat (length l)) eqn:El; [apply N.ltb_lt in El | apply N.ltb_ge in El].
      * replace (i <? N.min 64 (N.max m (s + 8 * N.of_nat (length l)))) with true
          by (symmetry; apply N.ltb_lt; lia).
        destruct (i <? m); [apply orb_diag | reflexivity].
      * rewrite orb_false_r.
        destruct (i <? m) eqn:Em; [apply N.ltb_lt in Em | apply N.ltb_ge in Em].
        -- replace (i <? N.min 64 (N.max m (s + 8 * N.of_nat (length l)))) with true
             by (symmetry; apply N.ltb_lt; lia). reflexivity.
        -- replace (i <? N.min 64 (N.max m (s + 8 * N.of_nat (length l)))) with false
             by (symmetry; apply N.ltb_ge; lia). reflexivity.
    + rewrite orb_false_r.
      replace (i <? m) with true by (symmetry; apply N.ltb_lt; lia).
      replace (i <? N.min 64 (N.max m (s + 8 * N.of_nat (length l)))) with true
        by (symmetry; apply N.ltb_lt; lia). reflexivity.
  - rewrite orb_false_r.
    replace (i <? m) with false by (symmetry; apply N.ltb_ge; lia).
    replace (i <? N.min 64 (N.max m (s + 8 * N.of_nat (length l)))) with false
      by (symmetry; apply N.ltb_ge; lia). reflexivity.
Qed.

Lemma upto_weaken_eq R v m m' : m = m' -> upto R v m -> upto R v m'.
Proof. intros ->. exact (fun H => H). Qed.

(* the narrow load: byte by byte *)
Lemma load_bytes_upto R l : forall v s m,
  upto R v m -> s <= m ->
  ((R + N.to_nat s) mod 8 = 0)%nat ->
  firstn (length l) (skipn ((R + N.to_nat s) / 8) data) = l ->
  s + 8 * N.of_nat (length l) <= 64 ->
  upto R (fst (load_bytes big v s l)) (N.max m (s + 8 * N.of_nat (length l))).
Proof.
  induction l as [|c l IH]; intros v s m Hu Hs Hal Hl H64.
  - cbn [load_bytes fold_left fst length]. eapply upto_weaken_eq; [|exact Hu]. lia.
  - rewrite load_bytes_cons.
    destruct (skipn ((R + N.to_nat s) / 8) data) as [|c' rest] eqn:Hsk;
      cbn [length firstn] in Hl; [discriminate|].
    injection Hl as -> Hl.
    pose proof (upto_load R v m s [c] rest Hu Hs Hal Hsk) as Hu1.
    cbn [map le_bytes fold_right length] in Hu1.
    replace (ord big c + 256 * 0) with (ord big c) in Hu1 by lia.
    cbn [length] in H64.
    assert (Hu1' : upto R (N.lor v (u64 (N.shiftl (ord big c) s))) (N.max m (s + 8))).
    { eapply upto_weaken_eq; [|exact Hu1]. destruct Hu as [Hm _]. lia. }
    specialize (IH _ (s + 8) _ Hu1' ltac:(lia)).
    eapply upto_weaken_eq; [|apply IH].
    + cbn [length]. lia.
    + replace (R + N.to_nat (s + 8))%nat with (R + N.to_nat s + 8)%nat by lia.
      rewrite <- Nat.add_mod_idemp_l by lia. rewrite Hal. reflexivity.
    + replace ((R + N.to_nat (s + 8)) / 8)%nat with (S ((R + N.to_nat s) / 8)).
      * rewrite (skipn_S_cons _ _ _ _ Hsk). exact Hl.
      * replace (R + N.to_nat (s + 8))%nat with (R + N.to_nat s + 1 * 8)%nat by lia.
        rewrite Nat.div_add by lia. lia.
    + lia.
Qed.

(* look-ahead: real bits up to some m >= numBits, zeros above *)
Definition LA (R : nat) (p : prd) : Prop :=
  exists m, upto R (p_bufBits p) m /\ p_numBits p <= m.

Lemma loadp_la R p1 : LI big data R p1 -> p_peek p1 <> [] -> LA R p1 ->
  match loadp p1 with
  | PMore p' | PDone p' => LA R p'
  | PErr _ => False
  end.
Proof.
  intros (Hb & HC & Hd7) Hne (m & Hu & Hnm). destruct HC as [C1 C2 C3 C4 C5 C6].
  pose proof C5 as [W1 W2 W3 _ _].
  set (E := ((R + N.to_nat (p_numBits p1)) / 8)%nat) in *.
  destruct (peek_len_le data Hd _ _ _ C6) as [HL|HL]; [|contradiction]. fold E in HL.
  unfold loadp. rewrite C1.
  set (n := N.to_nat ((64 - p_numBits p1) / 8)).
  destruct (Nat.leb 8 (length (p_peek p1))) eqn:E8.
  - apply Nat.leb_le in E8.
    assert (Hf8 : firstn 8 (p_peek p1) = firstn 8 (skipn E data)).
    { rewrite C6, firstn_firstn. f_equal. lia. }
    exists 64. prj. split; [|unfold n; lia].
    eapply upto_weaken_eq; [|apply (upto_load R _ m (p_numBits p1) (firstn 8 (p_peek p1))
                                       (skipn 8 (skipn E data)) Hu Hnm W2)].
    + rewrite Hf8, firstn_length, skipn_length. destruct Hu as [Hm _]. lia.
    + fold E. rewrite Hf8. symmetry. apply firstn_skipn.
  - apply Nat.leb_gt in E8.
    set (n' := Nat.min n (length (p_peek p1))).
    assert (Hl : length (firstn n' (p_peek p1)) = n').
    { rewrite firstn_length. unfold n'. lia. }
    pose proof (load_bytes_upto R (firstn n' (p_peek p1)) (p_bufBits p1) (p_numBits p1) m Hu Hnm W2) as HLB.
    pose proof (load_bytes_ok big data Hd R (firstn n' (p_peek p1)) _ _ C5) as HLO.
    rewrite Hl in HLB, HLO.
    destruct (load_bytes big (p_bufBits p1) (p_numBits p1) (firstn n' (p_peek p1))) as [bits nbits].
    destruct HLO as [-> _].
    { fold E. rewrite C6, firstn_firstn. f_equal. unfold n'. lia. }
    { unfold n', n. lia. }
    cbn [fst] in HLB.
    assert (HLA : upto R bits (N.max m (p_numBits p1 + 8 * N.of_nat n'))).
    { apply HLB.
      - fold E. rewrite C6, firstn_firstn. f_equal. unfold n'. lia.
      - unfold n', n. lia. }
    destruct (56 <? p_numBits p1 + 8 * N.of_nat n'); eexists; prj; (split; [exact HLA | lia]).
Qed.

Lemma refill_bits p nb :
  p_bufBits (fst (refill p nb)) = p_bufBits p /\ p_numBits (fst (refill p nb)) = p_numBits p.
Proof.
  unfold refill. destruct (p_peek p); [|split; reflexivity].
  unfold flush. prj. cbn [negb].
  destruct (src_discard _ _) as [[got short] s'].
  destruct short; prj; [split; reflexivity|].
  destruct (src_buffered s') as [b s1]. destruct (src_peek s1 _) as [[bytes short2] s2].
  prj. destruct (skipn _ bytes); [destruct (nb <=? _)|]; prj; split; reflexivity.
Qed.

Lemma pull_round_la R p nb : LI big data R p -> nb <= 57 -> LA R p ->
  match pull_round p nb with
  | PMore p' | PDone p' => LA R p'
  | PErr _ => True
  end.
Proof.
  intros HLI Hnb HLA. rewrite pull_round_eq.
  pose proof (refill_ok big data Hd R p nb HLI) as Hr.
  pose proof (refill_bits p nb) as [Eb En].
  destruct (refill p nb) as [p1 [[|]|]]; cbn [fst] in Eb, En.
  - exact I.
  - destruct HLA as (m & Hu & Hm). exists m. rewrite Eb, En. split; assumption.
  - destruct Hr as (H1 & H2 & H3).
    assert (HLA1 : LA R p1) by (destruct HLA as (m & Hu & Hm); exists m; rewrite Eb, En; split; assumption).
    pose proof (loadp_la R p1 H1 H2 HLA1) as Hl.
    destruct (loadp p1); [exact Hl | exact Hl | exact I].
Qed.

Lemma pull_loop_la R nb : nb <= 57 -> forall fuel p,
  LI big data R p -> LA R p ->
  match pull_loop fuel p nb with
  | (false, p') => LA R p'
  | (true, _) => True
  end.
Proof.
  intros Hnb. induction fuel as [|fuel IH]; intros p HLI HLA; cbn [pull_loop]; [exact I|].
  pose proof (pull_round_ok big data Hd R p nb HLI Hnb) as Hr.
  pose proof (pull_round_la R p nb HLI Hnb HLA) as Hl.
  destruct (pull_round p nb) as [p'|p'|p'].
  - apply IH; [apply Hr | exact Hl].
  - exact Hl.
  - exact I.
Qed.

(* PullBits on the buffered path keeps the look-ahead invariant *)
Lemma pull_bits_la R p nb p' : PI big data R p -> p_buffered p = true -> nb <= 57 -> LA R p ->
  pull_bits p nb = (false, p') -> LA R p'.
Proof.
  intros (HC & Hd7 & Hpk) Hb Hnb HLA E. unfold pull_bits in E. rewrite Hb in E.
  set (p0 := mkPrd _ _ _ _ _ _ _ _ _) in E.
  assert (HLI : LI big data R p0).
  { unfold effd in *. rewrite Hb in *. destruct HC as [C1 C2 C3 C4 C5 C6].
    split; [reflexivity|]. split; [|exact (Hd7 eq_refl)]. split; assumption. }
  pose proof (pull_loop_la R nb Hnb 12 p0 HLI HLA) as Hl.
  destruct (pull_loop 12 p0 nb) as [[|] p1]; [discriminate|].
  inversion E; subst p'. exact Hl.
Qed.

Lemma init_la bf fills reads : LA 0 (init data bf big fills reads).
Proof. exists 0. unfold init. cbn [p_bufBits p_numBits]. split; [apply upto_0 | apply N.le_refl]. Qed.

(* ---- the theorem ------------------------------------------------------------------------------- *)
Variable L : N.
Variable codes : list pcode.
Hypothesis HL : L <= 31.
Hypothesis HV : dec_valid L codes.
Variable d : dec.
Hypothesis HT : tables_ok codes d.

(* THEOREM (c2'), BufferedReader discipline, zero-minimal codes: it is enough that the stream
   holds the code word; the state afterwards is an [Inv] state with the look-ahead invariant *)
Theorem read_symbol_buffered R p c :
  zero_min codes ->
  Inv big data R p -> p_buffered p = true -> LA R p ->
  In c codes -> matches c (window big data R) ->
  (R + N.to_nat (c_len c) <= 8 * length data)%nat ->
  exists p', dt_read_symbol d p = (RSym (c_sym c mod 2 ^ 27), p') /\
    Inv big data (R + N.to_nat (c_len c)) p' /\ p_buffered p' = true /\
    LA (R + N.to_nat (c_len c)) p' /\
    bits_read p' = Z.of_nat (R + N.to_nat (c_len c)).
Proof.
  intros HZM HI Hb HLA Hc Hm Hlen. unfold dt_read_symbol.
  rewrite (chunks_nonempty codes d HT).
  pose proof (v_len L codes HV c Hc) as Hl31.
  set (Q := fun q : prd => PI big data R q /\ p_buffered q = true /\ LA R q).
  destruct (rs_loop_ok big data Hd L codes HL HV d HT Q (c_len c) R c Hc Hm Hlen ltac:(lia) ltac:(lia))
    with (fuel := 34%nat) (p := p) (nb := d_minBits d)
    as (p1 & p' & E & E2 & Q1 & P1 & N1 & P' & Hb' & _).
  - intros q nb q' Hnb (Hq1 & Hq2 & Hq3) Eq.
    pose proof (pull_ok big data Hd R q nb Hq1 Hnb ltac:(intros Hx; congruence)) as Hp.
    rewrite Eq in Hp. destruct Hp as (Hp1 & _ & Hp3 & _).
    split; [exact Hp1|]. split; [congruence|].
    apply (pull_bits_la R q nb q' Hq1 Hq2 Hnb Hq3 Eq).
  - (* the request is bounded by the length of the code word *)
    intros q c' (Hq1 & Hq2 & (m & Hu & Hnm)) _ Hc' Hm' Hlt.
    pose proof (upto_window R _ m Hu) as Ew.
    destruct (N.le_gt_cases (c_len c) m) as [Hge|Hk].
    + assert (Hmq : matches c (p_bufBits q)).
      { apply (matches_low c (window big data R) (p_bufBits q) m Hge); [|exact Hm].
        rewrite Ew. symmetry. apply N.mod_mod, pow2_nz. }
      pose proof (dv_unique _ _ HV _ c' c Hc' Hc Hm' Hmq) as ->. lia.
    + apply (HZM c m c' Hc Hc' Hk).
      unfold matches in Hm. rewrite <- Hm. rewrite mod_mod_pow by lia. rewrite <- Ew. exact Hm'.
  - apply Inv_PI; exact HI.
  - split; [apply Inv_PI; exact HI|]. split; [exact Hb | exact HLA].
  - apply (min_bits_request codes d c HT Hc).
  - lia.
  - intros Hx. congruence.
  - exists p'. split; [exact E|].
    assert (Hbp' : p_buffered p' = true) by congruence.
    split; [apply PI_Inv; [exact P' | intros Hx; congruence]|].
    split; [exact Hbp'|]. split.
    + destruct Q1 as (_ & _ & (m & Hu & Hnm)). subst p'. unfold LA, take_bits. cbn [snd p_bufBits p_numBits].
      exists (m - c_len c). split; [apply upto_shiftr; exact Hu | lia].
    + apply (PI_bits_read big data _ _ P').
Qed.

End Buffered.

(* non-vacuity: the example code and stream of DecReadThms through a BufferedReader that
   buffers everything at once *)
Example read_symbol_buffered_ex :
  exists d p', dec_init (fun i => i * 7 + 3) (fun _ => 5) ex_codes = IOk d /\
    dt_read_symbol d (init ex_data true false [2%nat] []) = (RSym 1, p') /\ bits_read p' = 2%Z.
Proof.
  destruct (dec_init_tables 27 ex_codes ltac:(lia) ex_valid (fun i => i * 7 + 3) (fun _ => 5))
    as (d & E & HT).
  destruct (read_symbol_buffered false ex_data ex_bytes 27 ex_codes ltac:(lia) ex_valid d HT
              0%nat (init ex_data true false [2%nat] []) (1, 2, 1) ex_zero_min)
    as (p' & E1 & _ & _ & _ & E2).
  - apply Inv_init.
  - reflexivity.
  - apply init_la; try exact ex_bytes.
  - right; left; reflexivity.
  - vm_compute. reflexivity.
  - vm_compute. lia.
  - exists d, p'. split; [exact E|]. split; [exact E1 | exact E2].
Qed.

Print Assumptions read_symbol_buffered.
Print Assumptions read_symbol_buffered_ex.
