(* Implementation-level model of internal/prefix.Writer (writer.go): the 64-bit bit
   buffer (bufBits / numBits), the 512-byte staging buffer (buf / cntBuf), Offset,
   PushBits (wide 8-byte store, per-byte bit swap when big-endian), Flush, WriteBits,
   TryWriteBits, WriteSymbol / TryWriteSymbol (the encoder chunk is a given
   (value, nb) pair), WritePads, raw Write and BitsWritten.

   Fixed-width arithmetic is explicit: [uint] and [uint64] are 64 bits (amd64), every
   shift that can drop bits goes through [shl64] / [shr64] (Go: a shift count >= 64
   gives 0), every addition on [numBits] is taken mod 2^64, BitsWritten is computed in
   wrapping int64 arithmetic. A slice expression out of range (buf[:cntBuf] with
   cntBuf > 512, PutUint64 on fewer than 8 bytes) is the explicit outcome [EPanic].

   The sink (the io.Writer below the bit writer) is scripted: for each successive
   wr.Write(p) call the script says whether the call accepts everything, or accepts
   only the first k bytes (k is capped at len(p)) and returns an error. A short count
   without an error is outside the io.Writer contract and is not modelled. The sink
   records what it accepted. *)
From V Require Import Base.Prelude Prefix.ReaderImpl.

(* ---- the sink --------------------------------------------------------------------- *)
Inductive sbeh :=
| SAccept                       (* (len(p), nil) *)
| SFail (k : nat) (tag : N).    (* (min k len(p), error #tag) *)

Record wsink := mkWSink {
  k_script : list sbeh;         (* behaviour of the next calls, one entry per call *)
  k_rest : sbeh;                (* behaviour of every call after the script is used up *)
  k_chunks : list (list byte)   (* what was accepted, one chunk per call, newest first *)
}.

Definition wsink_data (s : wsink) : list byte := concat (rev (k_chunks s)).

Definition wsink_write (s : wsink) (p : list byte) : (nat * option err) * wsink :=
  let '(b, script') := match k_script s with [] => (k_rest s, []) | b :: r => (b, r) end in
  match b with
  | SAccept => ((length p, None), mkWSink script' (k_rest s) (p :: k_chunks s))
  | SFail k tag =>
    let n := Nat.min k (length p) in
    ((n, Some (ESrc tag)), mkWSink script' (k_rest s) (firstn n p :: k_chunks s))
  end.

(* ---- the Writer ------------------------------------------------------------------- *)
Record pwr := mkPwr {
  bw_sink : wsink;
  w_big : bool;
  w_bufBits : N;            (* uint64 *)
  w_numBits : N;            (* uint *)
  w_buf : list byte;        (* [512]byte *)
  w_cnt : N;                (* cntBuf (int; never negative: the sink accepts at most len(p)) *)
  w_offset : Z              (* Offset *)
}.

Definition winit (script : list sbeh) (rest : sbeh) (big : bool) : pwr :=
  mkPwr (mkWSink script rest []) big 0 0 (repeat 0 512) 0 0.

(* uint64(v) << s   and   u >> s   with Go's semantics for large shift counts *)
Definition shl64 (v s : N) : N := if s <? 64 then u64 (N.shiftl v s) else 0.
Definition shr64 (v s : N) : N := if s <? 64 then N.shiftr v s else 0.

(* wrapping int64 *)
Definition int64_wrap (z : Z) : Z := ((z + 2 ^ 63) mod 2 ^ 64 - 2 ^ 63)%Z.

(* BitsWritten: 8*Offset + 8*int64(cntBuf) + int64(numBits) *)
Definition bits_written (p : pwr) : Z :=
  int64_wrap (8 * w_offset p + 8 * Z.of_N (w_cnt p) + Z.of_N (w_numBits p)).

(* "Swap all the bits within each byte": the three mask-and-shift rounds, literally.
   (u & 0x5555..) << 1 etc. cannot overflow 64 bits: the masks clear the top bits. *)
Definition swap_bits (u : N) : N :=
  let u1 := N.lor (N.shiftr (N.land u 0xaaaaaaaaaaaaaaaa) 1) (N.shiftl (N.land u 0x5555555555555555) 1) in
  let u2 := N.lor (N.shiftr (N.land u1 0xcccccccccccccccc) 2) (N.shiftl (N.land u1 0x3333333333333333) 2) in
  N.lor (N.shiftr (N.land u2 0xf0f0f0f0f0f0f0f0) 4) (N.shiftl (N.land u2 0x0f0f0f0f0f0f0f0f) 4).

(* the n low bytes of u, least significant first *)
Fixpoint le_split (n : nat) (u : N) : list byte :=
  match n with
  | O => []
  | S n' => u mod 256 :: le_split n' (u / 256)
  end.

(* binary.LittleEndian.PutUint64(buf[cnt:], u): None = panic (cnt > 512: slice bounds;
   512 - cnt < 8: index out of range in PutUint64) *)
Definition put_uint64 (buf : list byte) (cnt : N) (u : N) : option (list byte) :=
  if 504 <? cnt then None
  else Some (firstn (N.to_nat cnt) buf ++ le_split 8 u ++ skipn (N.to_nat cnt + 8) buf).

(* cnt, err := pw.wr.Write(pw.buf[:pw.cntBuf]); pw.cntBuf -= cnt; pw.Offset += int64(cnt).
   None = buf[:cntBuf] out of range. Note that after a short write the bytes that were
   not accepted are NOT moved to the front of buf. *)
Definition write_staged (p : pwr) : option (option err * pwr) :=
  if 512 <? w_cnt p then None else
  let '((n, e), s') := wsink_write (bw_sink p) (firstn (N.to_nat (w_cnt p)) (w_buf p)) in
  Some (e, mkPwr s' (w_big p) (w_bufBits p) (w_numBits p) (w_buf p)
                 (w_cnt p - N.of_nat n) (w_offset p + Z.of_nat n)%Z).

(* PushBits: (bits pushed, error). error = Some (ESrc _): returned by the sink;
   Some EPanic: run-time panic *)
Definition push_bits (p : pwr) : (N * option err) * pwr :=
  let r1 :=                                  (* inl: go on; inr: return *)
    if 504 <=? w_cnt p then
      match write_staged p with
      | None => inr ((0, Some EPanic), p)
      | Some (Some e, p1) => inr ((0, Some e), p1)
      | Some (None, p1) => inl p1
      end
    else inl p in
  match r1 with
  | inr r => r
  | inl p1 =>
    let u := if w_big p1 then swap_bits (w_bufBits p1) else w_bufBits p1 in
    match put_uint64 (w_buf p1) (w_cnt p1) u with
    | None => ((0, Some EPanic), p1)
    | Some buf' =>
      let nb := w_numBits p1 / 8 in
      ((8 * nb, None),
       mkPwr (bw_sink p1) (w_big p1) (shr64 (w_bufBits p1) (8 * nb)) (w_numBits p1 - 8 * nb)
             buf' (w_cnt p1 + nb) (w_offset p1))
    end
  end.

(* pw.bufBits |= uint64(v) << pw.numBits; pw.numBits += nb *)
Definition add_bits (p : pwr) (v nb : N) : pwr :=
  mkPwr (bw_sink p) (w_big p) (N.lor (w_bufBits p) (shl64 v (w_numBits p)))
        (u64 (w_numBits p + nb)) (w_buf p) (w_cnt p) (w_offset p).

(* WriteBits / WriteSymbol: Some e = panic (ESrc: errors.Panic(err) with the sink's error;
   EPanic: run-time panic) *)
Definition write_bits (p : pwr) (v nb : N) : option err * pwr :=
  let '((_, e), p1) := push_bits p in
  match e with
  | Some e => (Some e, p1)
  | None => (None, add_bits p1 v nb)
  end.

(* TryWriteBits / TryWriteSymbol: 64-pw.numBits < nb in uint arithmetic *)
Definition try_write_bits (p : pwr) (v nb : N) : bool * pwr :=
  if u64 (64 + 2 ^ 64 - w_numBits p) <? nb then (false, p) else (true, add_bits p v nb).

(* WritePads: nb := -pw.numBits & 7 *)
Definition write_pads (p : pwr) (v : N) : pwr :=
  add_bits p v (u64 (2 ^ 64 - w_numBits p) mod 8).

(* Flush: (returned offset, error) *)
Definition wflush (p : pwr) : (Z * option err) * pwr :=
  if (w_numBits p <? 8) && (w_cnt p =? 0) then ((w_offset p, None), p) else
  let '((_, e), p1) := push_bits p in
  match e with
  | Some e => ((w_offset p1, Some e), p1)
  | None =>
    match write_staged p1 with
    | None => ((w_offset p1, Some EPanic), p1)
    | Some (e, p2) => ((w_offset p2, e), p2)
    end
  end.

(* raw Write: (count, error); EInvalid = "non-aligned bit buffer" *)
Definition write_raw (p : pwr) (bs : list byte) : (nat * option err) * pwr :=
  let r1 :=
    if (0 <? w_numBits p) || (0 <? w_cnt p) then
      if negb (w_numBits p mod 8 =? 0) then inr ((O, Some EInvalid), p)
      else
        let '((_, e), p1) := wflush p in
        match e with
        | Some e => inr ((O, Some e), p1)
        | None => inl p1
        end
    else inl p in
  match r1 with
  | inr r => r
  | inl p1 =>
    let '((n, e), s') := wsink_write (bw_sink p1) bs in
    ((n, e), mkPwr s' (w_big p1) (w_bufBits p1) (w_numBits p1) (w_buf p1) (w_cnt p1)
                   (w_offset p1 + Z.of_nat n)%Z)
  end.

(* ---- histories ---------------------------------------------------------------------- *)
Inductive bwop :=
| BWBits (v nb : N)            (* WriteBits(v, nb) *)
| BWTryBits (v nb : N)         (* TryWriteBits(v, nb) *)
| BWPads (v : N)               (* WritePads(v) *)
| BWRaw (bs : list byte)       (* Write(bs) *)
| BWChunk (v nb : N)           (* WriteSymbol(sym, pe) with pe.chunks[sym&mask] = v<<5 | nb *)
| BWTryChunk (v nb : N)        (* TryWriteSymbol *)
| BWFlush
| BWPush.                      (* PushBits *)

(* what is observed after every operation: Offset, BitsWritten, the sink *)
Record wview := mkView { v_offset : Z; v_bits : Z; v_sink : wsink }.
Definition view (p : pwr) : wview := mkView (w_offset p) (bits_written p) (bw_sink p).

Inductive wobs :=
| OWBits (e : option err) (vw : wview)              (* e: the panic value, if any *)
| OWTry (ok : bool) (vw : wview)
| OWPads (vw : wview)
| OWRaw (n : nat) (e : option err) (vw : wview)
| OWFlush (ret : Z) (e : option err) (vw : wview)
| OWPush (nbits : N) (e : option err) (vw : wview).

Definition bwstep (p : pwr) (o : bwop) : wobs * pwr :=
  match o with
  | BWBits v nb | BWChunk v nb => let '(e, p') := write_bits p v nb in (OWBits e (view p'), p')
  | BWTryBits v nb | BWTryChunk v nb => let '(ok, p') := try_write_bits p v nb in (OWTry ok (view p'), p')
  | BWPads v => let p' := write_pads p v in (OWPads (view p'), p')
  | BWRaw bs => let '((n, e), p') := write_raw p bs in (OWRaw n e (view p'), p')
  | BWFlush => let '((r, e), p') := wflush p in (OWFlush r e (view p'), p')
  | BWPush => let '((n, e), p') := push_bits p in (OWPush n e (view p'), p')
  end.

(* the error or panic value an observation carries *)
Definition obs_err (ob : wobs) : option err :=
  match ob with
  | OWBits e _ | OWRaw _ e _ | OWFlush _ e _ | OWPush _ e _ => e
  | OWTry _ _ | OWPads _ => None
  end.

Definition rt_panic (ob : wobs) : bool :=
  match obs_err ob with Some EPanic => true | _ => false end.

(* a history; it ends at the first run-time panic (a sink error, returned or raised with
   errors.Panic, does not end it: what happens afterwards is part of the model) *)
Fixpoint bwrun (p : pwr) (ops : list bwop) : list wobs * pwr :=
  match ops with
  | [] => ([], p)
  | o :: r =>
    let '(ob, p') := bwstep p o in
    if rt_panic ob then ([ob], p')
    else let '(obs, p'') := bwrun p' r in (ob :: obs, p'')
  end.
