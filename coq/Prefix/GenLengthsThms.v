(* internal/prefix GenerateLengths (model [Prefix.Code.gen_lengths]) is correct
   for ALL inputs: for every list of n >= 2 (count, symbol) pairs in ascending
   count order with distinct symbols and every limit maxBits with
   n <= 2^maxBits (and n < 2^32, the width of the histogram entries),
     - the result is [GLOk lens], never [GLPanic] (treeRotate never reaches
       level 0) and never [GLInvalid];
     - [lens] lists the input symbols in input order;
     - every length is in 1..maxBits;
     - the Kraft sum is exactly one: kraft maxBits lens = 2^maxBits;
     - the lengths do not increase along the input (count) order, hence a
       symbol with a strictly larger count never gets a strictly longer code.
   None of this depends on the node weights: the uint32 wrap-around of the
   weights in the Go code (total count >= 2^32) only costs optimality.

   Structure of the proof
     1. maps and uint32 histogram updates
     2. the two-queue Huffman construction: the leaves of the result are the
        input symbols, with depths that do not increase along the input
        (both queues are FIFO, so parents are created in consumption order)
     3. a full binary tree has Kraft sum one
     4. histograms as functions, weighted sums
     5. treeRotate: closed form of its effect; it preserves the number of
        codes and the Kraft sum, and finds a non-empty level >= 1 as long as
        n <= 2^maxBits
     6. the rotation loops terminate within the fuel of the model with all
        levels above maxBits empty
     7. the main theorem. *)
From Coq Require Import Sorting.Permutation Sorting.Sorted FMapPositive.
From V Require Import Base.Prelude Base.Prog Flate.Spec Flate.Canon.
From V Require Import Bzip2.Common Bzip2.SpecW Bzip2.MtfRle2 Prefix.Code.
Local Open Scope N_scope.

(* ---- 1. maps and uint32 updates ------------------------------------------- *)

Lemma nm_getd_set {A} (m : nmap A) k v j d :
  nm_getd (nm_set m k v) j d = if j =? k then v else nm_getd m j d.
Proof.
  unfold nm_getd, nm_get, nm_set. destruct (j =? k) eqn:E.
  - apply N.eqb_eq in E. subst j. rewrite PositiveMap.gss. reflexivity.
  - rewrite PositiveMap.gso; [reflexivity|]. apply N.eqb_neq in E. intros F. apply E.
    apply N.succ_inj. rewrite <- !N.succ_pos_spec, F. reflexivity.
Qed.

Lemma nm_getd_empty {A} j (d : A) : nm_getd nm_empty j d = d.
Proof. unfold nm_getd, nm_get, nm_empty. rewrite PositiveMap.gempty. reflexivity. Qed.

Lemma u32_mod x : u32 x = x mod 2 ^ 32.
Proof. unfold u32, mask32. change 0xffffffff with (N.ones 32). apply N.land_ones. Qed.

Lemma sb_get_empty j : sb_get nm_empty j = 0.
Proof. apply nm_getd_empty. Qed.

Lemma sb_get_add sb i d j :
  sb_get (sb_add sb i d) j = if j =? i then (sb_get sb i + d) mod 2 ^ 32 else sb_get sb j.
Proof. unfold sb_add, sb_get at 1. rewrite nm_getd_set, u32_mod. reflexivity. Qed.

Lemma sb_get_sub sb i d j :
  sb_get (sb_sub sb i d) j =
  if j =? i then (sb_get sb i + 4294967296 - d) mod 2 ^ 32 else sb_get sb j.
Proof. unfold sb_sub, sb_get at 1. rewrite nm_getd_set, u32_mod. reflexivity. Qed.

(* ---- 2. the Huffman construction ------------------------------------------- *)

Definition ge_rel (a b : N) : Prop := b <= a.
Notation noninc := (StronglySorted ge_rel).

Lemma noninc_app_inv l a : noninc (l ++ [a]) -> noninc l /\ forall x, In x l -> a <= x.
Proof.
  induction l as [|b l IH]; cbn [app]; intros H.
  - split; [constructor | intros x []].
  - apply StronglySorted_inv in H. destruct H as [H1 H2].
    destruct (IH H1) as [H3 H4]. split.
    + constructor; [exact H3|]. rewrite Forall_forall in *. intros x Hx.
      apply H2. apply in_or_app. left. exact Hx.
    + intros x [<-|Hx]; [|apply H4; exact Hx].
      rewrite Forall_forall in H2. apply (H2 a). apply in_or_app. right. left. reflexivity.
Qed.

Lemma huff_depths_acc t : forall lvl acc, huff_depths t lvl acc = huff_depths t lvl [] ++ acc.
Proof.
  induction t as [s|l IHl r IHr]; intros lvl acc; cbn [huff_depths].
  - reflexivity.
  - rewrite (IHr _ (huff_depths l (lvl + 1) acc)), (IHl _ acc), (IHr _ (huff_depths l (lvl + 1) [])).
    rewrite app_assoc. reflexivity.
Qed.

Lemma huff_depths_node l r lvl :
  huff_depths (HNode l r) lvl [] = huff_depths r (lvl + 1) [] ++ huff_depths l (lvl + 1) [].
Proof. cbn [huff_depths]. apply huff_depths_acc. Qed.

(* leaves of the pool: the remaining input symbols with depths [df], the
   queued subtrees rooted at depths [dq] *)
Definition fdepths (f : list (N * N)) (df : list N) : list (N * N) := combine (map snd f) df.
Definition qdepths (q : list (N * hnode)) (dq : list N) : list (N * N) :=
  flat_map (fun x => huff_depths (snd (fst x)) (snd x) []) (combine q dq).

Lemma combine_app {A B} (a a' : list A) (b b' : list B) :
  length a = length b -> combine (a ++ a') (b ++ b') = combine a b ++ combine a' b'.
Proof.
  revert b; induction a as [|x a IH]; intros [|y b] H; cbn [length] in H; try discriminate.
  - reflexivity.
  - cbn [app combine]. f_equal. apply IH. lia.
Qed.

Lemma qdepths_snoc q dq c t d :
  length q = length dq ->
  qdepths (q ++ [(c, t)]) (dq ++ [d]) = qdepths q dq ++ huff_depths t d [].
Proof.
  intros H. unfold qdepths. rewrite combine_app by exact H. rewrite flat_map_app.
  cbn [combine flat_map fst snd]. rewrite app_nil_r. reflexivity.
Qed.

Lemma take_min_cases f q c n f1 q1 :
  take_min f q = Some (c, n, f1, q1) ->
  (exists c' s, f = (c', s) :: f1 /\ n = HLeaf s /\ q1 = q) \/
  (exists qc, q = (qc, n) :: q1 /\ f1 = f).
Proof.
  unfold take_min. destruct f as [|[c' s] f']; destruct q as [|[qc qn] q']; intros H;
    try discriminate.
  - inversion H; subst. right. exists c. split; reflexivity.
  - inversion H; subst. left. exists c, s. repeat split; reflexivity.
  - destruct (c' <=? qc); inversion H; subst.
    + left. exists c, s. repeat split; reflexivity.
    + right. exists c. split; reflexivity.
Qed.

Lemma take_min_some f q :
  (1 <= length f + length q)%nat ->
  exists c n f1 q1, take_min f q = Some (c, n, f1, q1) /\
    (S (length f1 + length q1) = length f + length q)%nat.
Proof.
  unfold take_min. destruct f as [|[c' s] f']; destruct q as [|[qc qn] q']; cbn [length]; intros H.
  - lia.
  - exists qc, qn, [], q'. split; [reflexivity | cbn [length]; lia].
  - exists c', (HLeaf s), f', []. split; [reflexivity | cbn [length]; lia].
  - destruct (c' <=? qc).
    + exists c', (HLeaf s), f', ((qc, qn) :: q'). split; [reflexivity | cbn [length]; lia].
    + exists qc, qn, ((c', s) :: f'), q'. split; [reflexivity | cbn [length]; lia].
Qed.

(* putting back the node taken by [take_min], at depth [d] *)
Lemma untake f q c n f1 q1 df1 dq1 d :
  take_min f q = Some (c, n, f1, q1) ->
  length df1 = length f1 -> length dq1 = length q1 ->
  exists df dq, length df = length f /\ length dq = length q /\
    Permutation (fdepths f df ++ qdepths q dq)
                (huff_depths n d [] ++ fdepths f1 df1 ++ qdepths q1 dq1) /\
    ((df = d :: df1 /\ dq = dq1) \/ (df = df1 /\ dq = d :: dq1)).
Proof.
  intros T Hf Hq. apply take_min_cases in T.
  destruct T as [(c' & s & -> & -> & ->)|(qc & -> & ->)].
  - exists (d :: df1), dq1. repeat split.
    + cbn [length]. lia.
    + exact Hq.
    + apply Permutation_refl.
    + left. split; reflexivity.
  - exists df1, (d :: dq1). repeat split.
    + exact Hf.
    + cbn [length]. lia.
    + unfold qdepths at 1. cbn [combine flat_map fst snd]. fold (qdepths q1 dq1).
      rewrite !app_assoc. apply Permutation_app_tail. apply Permutation_app_comm.
    + right. split; reflexivity.
Qed.

(* the construction for an arbitrary way of combining two weights: nothing below
   depends on the weights ([huff_build_g] combines on uint32, the bzip2 copy
   [Bzip2.SpecW.huff_build] on N) *)
Fixpoint hb (comb : N -> N -> N) (fuel : nat) (freqs : list (N * N)) (queue : list (N * hnode))
  : option hnode :=
  match fuel with
  | O => None
  | S f =>
    match freqs, queue with
    | [], [(_, root)] => Some root
    | _, _ =>
      match take_min freqs queue with
      | None => None
      | Some (c0, n0, freqs1, queue1) =>
        match take_min freqs1 queue1 with
        | None => None
        | Some (c1, n1, freqs2, queue2) =>
          hb comb f freqs2 (queue2 ++ [(comb c0 c1, HNode n0 n1)])
        end
      end
    end
  end.

Lemma huff_build_g_hb : forall fuel f q,
  huff_build_g fuel f q = hb (fun a b => u32 (a + b)) fuel f q.
Proof.
  induction fuel as [|fu IH]; intros f q; [reflexivity|]. cbn [huff_build_g hb].
  destruct f as [|x f]; [destruct q as [|[c r] [|y q]]|]; try reflexivity;
    (destruct (take_min _ _) as [[[[c0 n0] f1] q1]|]; [|reflexivity];
     destruct (take_min _ _) as [[[[c1 n1] f2] q2]|]; [|reflexivity]; apply IH).
Qed.

Lemma huff_build_hb : forall fuel f q, huff_build fuel f q = hb N.add fuel f q.
Proof.
  induction fuel as [|fu IH]; intros f q; [reflexivity|]. cbn [huff_build hb].
  destruct f as [|x f]; [destruct q as [|[c r] [|y q]]|]; try reflexivity;
    (destruct (take_min _ _) as [[[[c0 n0] f1] q1]|]; [|reflexivity];
     destruct (take_min _ _) as [[[[c1 n1] f2] q2]|]; [|reflexivity]; apply IH).
Qed.

Definition hstep (comb : N -> N -> N) (fu : nat) (f : list (N * N)) (q : list (N * hnode)) : option hnode :=
  match take_min f q with
  | None => None
  | Some (c0, n0, f1, q1) =>
    match take_min f1 q1 with
    | None => None
    | Some (c1, n1, f2, q2) => hb comb fu f2 (q2 ++ [(comb c0 c1, HNode n0 n1)])
    end
  end.

Lemma hb_cases comb fu f q :
  (f = [] /\ exists c r, q = [(c, r)] /\ hb comb (S fu) f q = Some r) \/
  ((f <> [] \/ length q <> 1%nat) /\ hb comb (S fu) f q = hstep comb fu f q).
Proof.
  destruct f as [|x f].
  - destruct q as [|[c r] [|y q]].
    + right. split; [right; cbn [length]; lia | reflexivity].
    + left. split; [reflexivity|]. exists c, r. split; reflexivity.
    + right. split; [right; cbn [length]; lia | reflexivity].
  - right. split; [left; discriminate | reflexivity].
Qed.

(* depth lists of a pool: non-increasing along each queue, and nothing in the
   pool is more than one level below a queued node *)
Definition dinv' (B : N) (df dq : list N) : Prop :=
  noninc df /\ noninc dq /\ (forall x, In x (df ++ dq) -> x <= B) /\ (forall x, In x dq -> B <= x + 1).
Definition dinv (df dq : list N) : Prop :=
  noninc df /\ noninc dq /\ forall dl x, In dl dq -> In x (df ++ dq) -> x <= dl + 1.

Lemma dinv'_dinv B df dq : dinv' B df dq -> dinv df dq.
Proof.
  intros (H1 & H2 & H3 & H4). split; [exact H1|]. split; [exact H2|].
  intros dl x Hd Hx. specialize (H3 x Hx). specialize (H4 dl Hd). lia.
Qed.

Lemma dinv'_push B df dq df' dq' :
  dinv' B df dq ->
  (df' = B :: df /\ dq' = dq) \/ (df' = df /\ dq' = B :: dq) ->
  dinv' B df' dq'.
Proof.
  intros (H1 & H2 & H3 & H4) [[-> ->]|[-> ->]]; (split; [|split; [|split]]).
  - constructor; [exact H1|]. apply Forall_forall. intros x Hx. unfold ge_rel.
    apply H3. apply in_or_app. left. exact Hx.
  - exact H2.
  - intros x [<-|Hx]; [lia | apply H3; exact Hx].
  - exact H4.
  - exact H1.
  - constructor; [exact H2|]. apply Forall_forall. intros x Hx. unfold ge_rel.
    apply H3. apply in_or_app. right. exact Hx.
  - intros x Hx. apply in_app_or in Hx. destruct Hx as [Hx|[<-|Hx]].
    + apply H3. apply in_or_app. left. exact Hx.
    + lia.
    + apply H3. apply in_or_app. right. exact Hx.
  - intros x [<-|Hx]; [lia | apply H4; exact Hx].
Qed.

Lemma snoc_of_length {A B} (l : list A) (a : list B) :
  length l = S (length a) -> exists l' x, l = l' ++ [x] /\ length l' = length a.
Proof.
  intros H. destruct (exists_last (l := l)) as (l' & x & ->).
  - intros ->. discriminate.
  - exists l', x. split; [reflexivity|]. rewrite app_length in H. cbn [length] in H. lia.
Qed.

Lemma huff_inv comb : forall fuel f q root,
  hb comb fuel f q = Some root ->
  exists df dq, length df = length f /\ length dq = length q /\ dinv df dq /\
    Permutation (huff_depths root 0 []) (fdepths f df ++ qdepths q dq).
Proof.
  induction fuel as [|fu IH]; intros f q root H; [discriminate|].
  destruct (hb_cases comb fu f q) as [(-> & c & r & -> & E)|(_ & E)]; rewrite E in H.
  - inversion H; subst r. exists [], [0]. repeat split.
    + constructor.
    + constructor; [constructor | constructor].
    + intros dl x [<-|[]] [<-|[]]. lia.
    + unfold fdepths, qdepths. cbn [map combine flat_map fst snd app]. rewrite app_nil_r.
      apply Permutation_refl.
  - unfold hstep in H.
    destruct (take_min f q) as [[[[c0 n0] f1] q1]|] eqn:T0; [|discriminate].
    destruct (take_min f1 q1) as [[[[c1 n1] f2] q2]|] eqn:T1; [|discriminate].
    destruct (IH _ _ _ H) as (df2 & dq' & L1 & L2 & (I1 & I2 & I3) & P).
    rewrite app_length in L2. cbn [length] in L2.
    destruct (snoc_of_length dq' q2) as (dq2 & dn & -> & L3); [lia|].
    rewrite qdepths_snoc in P by lia. rewrite huff_depths_node in P.
    destruct (noninc_app_inv _ _ I2) as [I4 I5].
    assert (D2 : dinv' (dn + 1) df2 dq2).
    { split; [exact I1|]. split; [exact I4|]. split.
      - intros x Hx. apply (I3 dn x).
        + apply in_or_app. right. left. reflexivity.
        + apply in_app_or in Hx. apply in_or_app. destruct Hx as [Hx|Hx]; [left; exact Hx|].
          right. apply in_or_app. left. exact Hx.
      - intros x Hx. specialize (I5 x Hx). lia. }
    destruct (untake f1 q1 c1 n1 f2 q2 df2 dq2 (dn + 1) T1 L1 L3)
      as (df1 & dq1 & L4 & L5 & P1 & C1).
    pose proof (dinv'_push _ _ _ _ _ D2 C1) as D1.
    destruct (untake f q c0 n0 f1 q1 df1 dq1 (dn + 1) T0 L4 L5)
      as (df & dq & L6 & L7 & P0 & C0).
    pose proof (dinv'_push _ _ _ _ _ D1 C0) as D0.
    exists df, dq. split; [exact L6|]. split; [exact L7|]. split; [eapply dinv'_dinv; exact D0|].
    eapply Permutation_trans; [exact P|]. apply Permutation_sym.
    eapply Permutation_trans; [exact P0|].
    eapply Permutation_trans; [apply Permutation_app_head; exact P1|].
    (* n0 ++ n1 ++ F2 ++ Q2  ~  F2 ++ Q2 ++ n1 ++ n0 *)
    eapply Permutation_trans; [apply Permutation_app_comm|].
    replace (fdepths f2 df2 ++ qdepths q2 dq2 ++ huff_depths n1 (dn + 1) [] ++ huff_depths n0 (dn + 1) [])
      with (((fdepths f2 df2 ++ qdepths q2 dq2) ++ huff_depths n1 (dn + 1) []) ++ huff_depths n0 (dn + 1) [])
      by (rewrite <- !app_assoc; reflexivity).
    apply Permutation_app_tail. apply Permutation_app_comm.
Qed.

Definition is_node (t : hnode) : Prop := match t with HNode _ _ => True | HLeaf _ => False end.

Lemma huff_root_node comb : forall fuel f q root,
  hb comb fuel f q = Some root ->
  Forall (fun x => is_node (snd x)) q -> is_node root.
Proof.
  induction fuel as [|fu IH]; intros f q root H Hq; [discriminate|].
  destruct (hb_cases comb fu f q) as [(-> & c & r & -> & E)|(_ & E)]; rewrite E in H.
  - inversion H; subst r. inversion Hq as [|x l Hx Hl]; subst. exact Hx.
  - unfold hstep in H.
    destruct (take_min f q) as [[[[c0 n0] f1] q1]|] eqn:T0; [|discriminate].
    destruct (take_min f1 q1) as [[[[c1 n1] f2] q2]|] eqn:T1; [|discriminate].
    apply (IH _ _ _ H).
    assert (Hq1 : Forall (fun x => is_node (snd x)) q1).
    { apply take_min_cases in T0. destruct T0 as [(c' & s & _ & _ & ->)|(qc & -> & _)].
      - exact Hq.
      - inversion Hq; assumption. }
    assert (Hq2 : Forall (fun x => is_node (snd x)) q2).
    { apply take_min_cases in T1. destruct T1 as [(c' & s & _ & _ & ->)|(qc & -> & _)].
      - exact Hq1.
      - inversion Hq1; assumption. }
    apply Forall_app. split; [exact Hq2|]. constructor; [exact I | constructor].
Qed.

Lemma huff_build_some comb : forall fuel f q,
  (length f + length q <= fuel)%nat ->
  (2 <= length f + length q)%nat \/ (f = [] /\ length q = 1%nat) ->
  exists root, hb comb fuel f q = Some root.
Proof.
  induction fuel as [|fu IH]; intros f q Hfu Hc.
  - destruct Hc as [Hc|[-> Hc]]; cbn [length] in *; lia.
  - destruct (hb_cases comb fu f q) as [(-> & c & r & -> & E)|(Hn & E)]; rewrite E.
    + exists r. reflexivity.
    + assert (H2 : (2 <= length f + length q)%nat).
      { destruct Hc as [Hc|[-> Hc]]; [exact Hc|]. destruct Hn as [Hn|Hn]; [congruence | lia]. }
      unfold hstep.
      destruct (take_min_some f q) as (c0 & n0 & f1 & q1 & T0 & L0); [lia|]. rewrite T0.
      destruct (take_min_some f1 q1) as (c1 & n1 & f2 & q2 & T1 & L1); [lia|]. rewrite T1.
      apply IH.
      * rewrite app_length. cbn [length]. lia.
      * rewrite app_length. cbn [length].
        destruct (Nat.eq_dec (length f2 + length q2) 0) as [Hz|Hz].
        -- right. split; [|lia]. destruct f2; [reflexivity | cbn [length] in Hz; lia].
        -- left. lia.
Qed.

(* the Huffman phase of GenerateLengths on n >= 2 codes: a tree whose leaves
   are the input symbols, at depths >= 1 that do not increase along the input *)
Theorem huffman_phase_gen comb codes :
  (2 <= length codes)%nat ->
  exists root df,
    hb comb (S (length codes)) codes [] = Some root /\
    length df = length codes /\ noninc df /\
    Permutation (huff_depths root 0 []) (combine (map snd codes) df) /\
    is_node root.
Proof.
  intros Hn.
  destruct (huff_build_some comb (S (length codes)) codes []) as [root Hr].
  - cbn [length]. lia.
  - left. cbn [length]. lia.
  - destruct (huff_inv comb _ _ _ _ Hr) as (df & dq & L1 & L2 & (I1 & _ & _) & P).
    exists root, df. split; [exact Hr|]. split; [exact L1|]. split; [exact I1|]. split.
    + destruct dq; [|discriminate]. unfold qdepths in P. cbn [combine flat_map] in P.
      rewrite app_nil_r in P. exact P.
    + apply (huff_root_node comb _ _ _ _ Hr). constructor.
Qed.

Theorem huffman_phase codes :
  (2 <= length codes)%nat ->
  exists root df,
    huff_build_g (S (length codes)) codes [] = Some root /\
    length df = length codes /\ noninc df /\
    Permutation (huff_depths root 0 []) (combine (map snd codes) df) /\
    is_node root.
Proof. intros Hn. rewrite huff_build_g_hb. apply huffman_phase_gen. exact Hn. Qed.

(* ---- 3. a full binary tree has Kraft sum one -------------------------------- *)

Lemma huff_depths_ge t : forall lvl s d, In (s, d) (huff_depths t lvl []) -> lvl <= d.
Proof.
  induction t as [s0|l IHl r IHr]; intros lvl s d H.
  - cbn [huff_depths] in H. destruct H as [H|[]]. inversion H; subst. lia.
  - rewrite huff_depths_node in H. apply in_app_or in H. destruct H as [H|H].
    + apply IHr in H. lia.
    + apply IHl in H. lia.
Qed.

Lemma huff_depths_inhabited t : forall lvl, exists s d, In (s, d) (huff_depths t lvl []).
Proof.
  induction t as [s0|l IHl r IHr]; intros lvl.
  - exists s0, lvl. left. reflexivity.
  - destruct (IHl (lvl + 1)) as (s & d & H). exists s, d. rewrite huff_depths_node.
    apply in_or_app. right. exact H.
Qed.

Lemma kraft_app M a b : kraft M (a ++ b) = kraft M a + kraft M b.
Proof.
  induction a as [|[s l] a IH]; cbn [app].
  - reflexivity.
  - rewrite !kraft_cons, IH. lia.
Qed.

Lemma kraft_perm M a b : Permutation a b -> kraft M a = kraft M b.
Proof.
  induction 1 as [|[s l] a b _ IH|[s1 l1] [s2 l2] a|a b c _ IH1 _ IH2].
  - reflexivity.
  - rewrite !kraft_cons, IH. reflexivity.
  - rewrite !kraft_cons. lia.
  - congruence.
Qed.

Lemma kraft_tree t : forall lvl M,
  (forall s d, In (s, d) (huff_depths t lvl []) -> d <= M) ->
  kraft M (huff_depths t lvl []) = 2 ^ (M - lvl).
Proof.
  induction t as [s0|l IHl r IHr]; intros lvl M H.
  - cbn [huff_depths]. rewrite kraft_cons. cbn [kraft fold_right]. lia.
  - rewrite huff_depths_node in *. rewrite kraft_app.
    rewrite IHr, IHl.
    + destruct (huff_depths_inhabited l (lvl + 1)) as (s & d & Hin).
      pose proof (huff_depths_ge _ _ _ _ Hin) as Hge.
      assert (Hle : d <= M) by (apply (H s); apply in_or_app; right; exact Hin).
      replace (M - lvl) with (N.succ (M - (lvl + 1))) by lia.
      rewrite N.pow_succ_r'. lia.
    + intros s d Hin. apply (H s). apply in_or_app. right. exact Hin.
    + intros s d Hin. apply (H s). apply in_or_app. left. exact Hin.
Qed.

(* ---- 4. histograms as functions, weighted sums ------------------------------ *)

(* sum over j < n of g j * w j *)
Fixpoint hsum (g w : N -> N) (n : nat) : N :=
  match n with
  | O => 0
  | S n' => hsum g w n' + g (N.of_nat n') * w (N.of_nat n')
  end.

Lemma hsum_ext g g' w w' n :
  (forall j, j < N.of_nat n -> g j * w j = g' j * w' j) -> hsum g w n = hsum g' w' n.
Proof.
  induction n as [|n IH]; intros H; cbn [hsum]; [reflexivity|].
  rewrite IH, H by (try (intros j Hj; apply H); lia). reflexivity.
Qed.

Lemma hsum_add g g' w n : hsum (fun j => g j + g' j) w n = hsum g w n + hsum g' w n.
Proof. induction n as [|n IH]; cbn [hsum]; [reflexivity | rewrite IH; lia]. Qed.

Lemma hsum_scale g w c n : hsum g (fun j => c * w j) n = c * hsum g w n.
Proof. induction n as [|n IH]; cbn [hsum]; [lia | rewrite IH; lia]. Qed.

Lemma hsum_zero g w n : (forall j, j < N.of_nat n -> g j = 0) -> hsum g w n = 0.
Proof.
  induction n as [|n IH]; intros H; cbn [hsum]; [reflexivity|].
  rewrite IH, H by (try (intros j Hj; apply H); lia). lia.
Qed.

Lemma hsum_ind a c w n :
  a < N.of_nat n -> hsum (fun j => if a =? j then c else 0) w n = c * w a.
Proof.
  induction n as [|n IH]; intros H; cbn [hsum]; [lia|].
  destruct (N.eqb_spec a (N.of_nat n)) as [E|E].
  - rewrite hsum_zero.
    + subst a. lia.
    + intros j Hj. destruct (N.eqb_spec a j); [lia | reflexivity].
  - rewrite IH by lia. lia.
Qed.

Lemma hsum_le g g' w n :
  (forall j, j < N.of_nat n -> g j <= g' j) -> hsum g w n <= hsum g' w n.
Proof.
  induction n as [|n IH]; intros H; cbn [hsum]; [lia|].
  assert (H1 : hsum g w n <= hsum g' w n) by (apply IH; intros j Hj; apply H; lia).
  assert (H2 : g (N.of_nat n) <= g' (N.of_nat n)) by (apply H; lia).
  nia.
Qed.

Lemma hsum_trunc g w m n :
  (m <= n)%nat -> (forall j, N.of_nat m <= j < N.of_nat n -> g j = 0) -> hsum g w n = hsum g w m.
Proof.
  intros Hmn. induction n as [|n IH]; intros H.
  - replace m with O by lia. reflexivity.
  - destruct (Nat.eq_dec m (S n)) as [->|Hne]; [reflexivity|].
    cbn [hsum]. rewrite IH, H by (try (intros j Hj; apply H); lia). lia.
Qed.

(* sums over a list of (symbol, length) *)
Definition lsum (w : N -> N) (l : list (N * N)) : N :=
  fold_right (fun sl acc => w (snd sl) + acc) 0 l.

Lemma kraft_lsum M l : kraft M l = lsum (fun d => 2 ^ (M - d)) l.
Proof. reflexivity. Qed.

Lemma length_lsum l : N.of_nat (length l) = lsum (fun _ => 1) l.
Proof. induction l as [|x l IH]; cbn [length lsum fold_right]; [reflexivity|]. fold (lsum (fun _ => 1) l). lia. Qed.

Lemma lsum_hist w l n :
  (forall s d, In (s, d) l -> d < N.of_nat n) -> lsum w l = hsum (count_len l) w n.
Proof.
  induction l as [|[s d] l IH]; intros H.
  - cbn [lsum fold_right]. symmetry. apply hsum_zero. intros j _. reflexivity.
  - cbn [lsum fold_right snd]. fold (lsum w l).
    rewrite (hsum_ext (count_len ((s, d) :: l))
               (fun j => (if d =? j then 1 else 0) + count_len l j) w w).
    + rewrite hsum_add, hsum_ind, <- IH.
      * lia.
      * intros s' d' Hin. apply (H s'). right. exact Hin.
      * apply (H s). left. reflexivity.
    + intros j _. rewrite count_len_cons. reflexivity.
Qed.

Lemma count_len_le l j : count_len l j <= N.of_nat (length l).
Proof.
  induction l as [|[s d] l IH].
  - rewrite count_len_nil. lia.
  - rewrite count_len_cons. cbn [length]. destruct (d =? j); lia.
Qed.

Lemma count_len_perm a b j : Permutation a b -> count_len a j = count_len b j.
Proof.
  induction 1 as [|[s l] a b _ IH|[s1 l1] [s2 l2] a|a b c _ IH1 _ IH2].
  - reflexivity.
  - rewrite !count_len_cons, IH. reflexivity.
  - rewrite !count_len_cons. lia.
  - congruence.
Qed.

(* the histogram of the depths *)
Lemma sb_hist : forall l m,
  (forall j, sb_get m j + count_len l j < 4294967296) ->
  forall j, sb_get (fold_left (fun m sd => sb_add m (snd sd) 1) l m) j = sb_get m j + count_len l j.
Proof.
  induction l as [|[s d] l IH]; intros m H j.
  - cbn [fold_left]. rewrite count_len_nil. lia.
  - cbn [fold_left snd]. rewrite IH.
    + rewrite sb_get_add, count_len_cons. change (2 ^ 32) with 4294967296.
      pose proof (H d) as Hd. rewrite count_len_cons, N.eqb_refl in Hd.
      destruct (N.eqb_spec j d) as [->|E].
      * rewrite N.eqb_refl. rewrite N.mod_small by lia. lia.
      * destruct (N.eqb_spec d j); [congruence | lia].
    + intros j'. rewrite sb_get_add. change (2 ^ 32) with 4294967296.
      pose proof (H j') as Hj. rewrite count_len_cons in Hj.
      destruct (N.eqb_spec j' d) as [->|E].
      * rewrite N.eqb_refl in Hj. rewrite N.mod_small by lia. lia.
      * destruct (N.eqb_spec d j'); [congruence | lia].
Qed.

(* ---- 5. treeRotate ---------------------------------------------------------- *)

Ltac eqb_cases :=
  repeat (match goal with
          | |- context [N.eqb ?a ?b] => destruct (N.eqb_spec a b)
          | |- context [Nat.eqb ?a ?b] => destruct (Nat.eqb_spec a b)
          end; try lia).

(* closed form of treeRotate(nb) when the highest non-empty level below nb is k:
   the recursion descends to level k+1 and, on the way back, the transient
   wrap-arounds cancel *)
Lemma tree_rotate_spec : forall nb sb k,
  (k < nb)%nat ->
  (forall j, sb_get sb j < 4294967296) ->
  0 < sb_get sb (N.of_nat k) ->
  (forall j, (k < j < nb)%nat -> sb_get sb (N.of_nat j) = 0) ->
  exists sb', tree_rotate_g nb sb = Some sb' /\
    forall j, sb_get sb' j =
      if j =? N.of_nat k then sb_get sb j - 1
      else if (nb =? S k)%nat then
        (if j =? N.of_nat nb then (sb_get sb j + 3) mod 4294967296
         else if j =? N.of_nat nb + 1 then (sb_get sb j + 4294967296 - 2) mod 4294967296
         else sb_get sb j)
      else
        (if j =? N.of_nat k + 1 then 2
         else if j =? N.of_nat nb then (sb_get sb j + 1) mod 4294967296
         else if j =? N.of_nat nb + 1 then (sb_get sb j + 4294967296 - 2) mod 4294967296
         else sb_get sb j).
Proof.
  induction nb as [|nb1 IH]; intros sb k Hk Hb Hpos Hz; [lia|].
  cbn [tree_rotate_g].
  destruct (N.eqb_spec (sb_get sb (N.of_nat nb1)) 0) as [E0|E0].
  - assert (Hk1 : (k < nb1)%nat).
    { destruct (Nat.eq_dec k nb1) as [->|Hne]; [lia | lia]. }
    destruct (IH sb k Hk1 Hb Hpos) as (sb1 & T1 & D1).
    { intros j Hj. apply Hz. lia. }
    destruct nb1 as [|nb2]; [lia|]. rewrite T1.
    eexists. split; [reflexivity|]. intros j.
    rewrite !sb_get_sub, !sb_get_add, !sb_get_sub. change (2 ^ 32) with 4294967296.
    rewrite !D1.
    pose proof (Hb j) as Bj. pose proof (Hb (N.of_nat k)) as Bk.
    pose proof (Hb (N.of_nat (S nb2))) as B1. pose proof (Hb (N.of_nat (S (S nb2)))) as B2.
    pose proof (Hb (N.of_nat (S (S nb2)) + 1)) as B3.
    eqb_cases; subst j; lia.
  - assert (Hk1 : k = nb1).
    { destruct (Nat.eq_dec k nb1) as [->|Hne]; [reflexivity|].
      exfalso. apply E0. apply Hz. lia. }
    subst nb1. eexists. split; [reflexivity|]. intros j.
    rewrite !sb_get_sub, !sb_get_add, !sb_get_sub. change (2 ^ 32) with 4294967296.
    pose proof (Hb j) as Bj. pose proof (Hb (N.of_nat k)) as Bk.
    eqb_cases; subst j; lia.
Qed.

(* ---- 6. the rotation loops --------------------------------------------------- *)

Definition ind (a c : N) : N -> N := fun j => if a =? j then c else 0.

Lemma hsum_ind' a c w n : a < N.of_nat n -> hsum (ind a c) w n = c * w a.
Proof. apply hsum_ind. Qed.

Lemma hsum_delta g g' p q w n :
  (forall j, j < N.of_nat n -> g' j + p j = g j + q j) ->
  hsum g' w n + hsum p w n = hsum g w n + hsum q w n.
Proof.
  intros H. rewrite <- !hsum_add. apply hsum_ext. intros j Hj. rewrite (H j Hj). reflexivity.
Qed.

Lemma hsum_ge1 g n a : a < N.of_nat n -> g a <= hsum g (fun _ => 1) n.
Proof.
  intros Ha. rewrite <- (N.mul_1_r (g a)), <- (hsum_ind' a (g a) (fun _ => 1) n Ha).
  apply hsum_le. intros j _. unfold ind. destruct (N.eqb_spec a j); [subst; lia | lia].
Qed.

Lemma hsum_ge3 g n a b c :
  a < N.of_nat n -> b < N.of_nat n -> c < N.of_nat n -> a <> b -> a <> c -> b <> c ->
  g a + g b + g c <= hsum g (fun _ => 1) n.
Proof.
  intros Ha Hb Hc Hab Hac Hbc.
  assert (E : g a + g b + g c =
              hsum (fun j => ind a (g a) j + ind b (g b) j + ind c (g c) j) (fun _ => 1) n).
  { rewrite !hsum_add, !hsum_ind' by assumption. lia. }
  rewrite E. apply hsum_le. intros j _. unfold ind.
  destruct (N.eqb_spec a j); destruct (N.eqb_spec b j); destruct (N.eqb_spec c j); subst; lia.
Qed.

(* all codes are at levels 1..i, there are n of them, and they are complete *)
Definition sinv (i : nat) (n : N) (sb : nmap N) : Prop :=
  sb_get sb 0 = 0 /\
  (forall j, N.of_nat i < j -> sb_get sb j = 0) /\
  hsum (sb_get sb) (fun j => 2 ^ (N.of_nat i - j)) (S i) = 2 ^ N.of_nat i /\
  hsum (sb_get sb) (fun _ => 1) (S i) = n.

Lemma sinv_le i n sb j : sinv i n sb -> sb_get sb j <= n.
Proof.
  intros (_ & H2 & _ & H4). destruct (N.le_gt_cases j (N.of_nat i)) as [Hj|Hj].
  - rewrite <- H4. apply hsum_ge1. lia.
  - rewrite H2 by exact Hj. lia.
Qed.

Lemma last_nonzero (g : N -> N) : forall m,
  (forall k, (k < m)%nat -> g (N.of_nat k) = 0) \/
  (exists k, (k < m)%nat /\ g (N.of_nat k) <> 0 /\
             forall j, (k < j < m)%nat -> g (N.of_nat j) = 0).
Proof.
  induction m as [|m IH].
  - left. intros k Hk. lia.
  - destruct (N.eq_dec (g (N.of_nat m)) 0) as [E|E].
    + destruct IH as [IH|(k & Hk & Hg & Hz)].
      * left. intros k Hk. destruct (Nat.eq_dec k m) as [->|Hne]; [exact E | apply IH; lia].
      * right. exists k. split; [lia|]. split; [exact Hg|].
        intros j Hj. destruct (Nat.eq_dec j m) as [->|Hne]; [exact E | apply Hz; lia].
    + right. exists m. split; [lia|]. split; [exact E|]. intros j Hj. lia.
Qed.

Lemma pow2_succ_sub (a b : N) : b < a -> 2 ^ (a - b) = 2 * 2 ^ (a - 1 - b).
Proof.
  intros H. replace (a - b) with (N.succ (a - 1 - b)) by lia. apply N.pow_succ_r'.
Qed.

Lemma pow2_pred (a : N) : 1 <= a -> 2 ^ a = 2 * 2 ^ (a - 1).
Proof. intros H. replace a with (N.succ (a - 1)) at 1 by lia. apply N.pow_succ_r'. Qed.

(* the deepest level holds an even number of codes *)
Lemma sinv_even i n sb :
  (1 <= i)%nat -> sinv i n sb ->
  exists x y, sb_get sb (N.of_nat i) + 2 * x = 2 * y.
Proof.
  intros Hi (_ & _ & H3 & _). cbn [hsum] in H3.
  rewrite N.sub_diag in H3. change (2 ^ 0) with 1 in H3.
  rewrite (hsum_ext _ (sb_get sb) _ (fun j => 2 * 2 ^ (N.of_nat i - 1 - j))) in H3.
  - rewrite hsum_scale in H3.
    rewrite (pow2_pred (N.of_nat i)) in H3 by lia.
    exists (hsum (sb_get sb) (fun j : N => 2 ^ (N.of_nat i - 1 - j)) i), (2 ^ (N.of_nat i - 1)). lia.
  - intros j Hj. rewrite (pow2_succ_sub (N.of_nat i) j) by lia. reflexivity.
Qed.

Lemma rotate_step i n mb sb :
  sinv i n sb -> n < 4294967296 -> (mb < i)%nat -> n <= 2 ^ N.of_nat mb ->
  0 < sb_get sb (N.of_nat i) ->
  exists sb', tree_rotate_g (i - 1) sb = Some sb' /\ sinv i n sb' /\
              sb_get sb' (N.of_nat i) + 2 = sb_get sb (N.of_nat i).
Proof.
  intros Hs Hn Hmb Hcap Hpos.
  pose proof (fun j => sinv_le i n sb j Hs) as Hle.
  destruct (sinv_even i n sb) as (x & y & Hev); [lia | exact Hs|].
  destruct Hs as (S1 & S2 & S3 & S4).
  set (g := sb_get sb) in *.
  assert (Hi2 : 2 <= g (N.of_nat i)) by lia.
  assert (Ei : N.of_nat (i - 1) = N.of_nat i - 1) by lia.
  destruct (last_nonzero g (i - 1)) as [Hall|(k & Hk & Hgk & Hz)].
  - (* all codes on the last two levels: more than 2^(i-1) of them *)
    exfalso.
    assert (Hp : forall j, j < N.of_nat (S i) ->
                g j = ind (N.of_nat i - 1) (g (N.of_nat i - 1)) j + ind (N.of_nat i) (g (N.of_nat i)) j).
    { intros j Hj. unfold ind.
      destruct (N.eqb_spec (N.of_nat i - 1) j) as [E1|E1];
        destruct (N.eqb_spec (N.of_nat i) j) as [E2|E2]; try (subst j; lia).
      replace j with (N.of_nat (N.to_nat j)) by lia. rewrite Hall by lia. lia. }
    rewrite (hsum_ext g _ _ (fun j => 2 ^ (N.of_nat i - j)) (S i)) in S3
      by (intros j Hj; rewrite (Hp j Hj); reflexivity).
    rewrite (hsum_ext g _ _ (fun _ => 1) (S i)) in S4
      by (intros j Hj; rewrite (Hp j Hj); reflexivity).
    rewrite hsum_add, !hsum_ind' in S3, S4 by lia.
    rewrite N.sub_diag in S3. change (2 ^ 0) with 1 in S3.
    replace (N.of_nat i - (N.of_nat i - 1)) with 1 in S3 by lia. change (2 ^ 1) with 2 in S3.
    rewrite (pow2_pred (N.of_nat i)) in S3 by lia.
    assert (Hpw : 2 ^ N.of_nat mb <= 2 ^ (N.of_nat i - 1)) by (apply N.pow_le_mono_r; lia).
    lia.
  - assert (Hk1 : (1 <= k)%nat).
    { destruct k; [exfalso; apply Hgk; exact S1 | lia]. }
    destruct (tree_rotate_spec (i - 1) sb k Hk) as (sb' & T & D).
    + intros j. specialize (Hle j). unfold g in *. lia.
    + unfold g in *. lia.
    + exact Hz.
    + fold g in D. exists sb'. split; [exact T|].
      set (g' := sb_get sb') in *.
      assert (H3 : g (N.of_nat k) + g (N.of_nat i - 1) + g (N.of_nat i) <= n).
      { rewrite <- S4. apply hsum_ge3; lia. }
      assert (Hgk' : 1 <= g (N.of_nat k)) by lia.
      (* pointwise effect, without wrap-around *)
      assert (Hp : forall j, g' j + ind (N.of_nat k) 1 j + ind (N.of_nat i) 2 j =
                  g j + (if (i - 1 =? S k)%nat then ind (N.of_nat i - 1) 3 j
                         else ind (N.of_nat k + 1) 2 j + ind (N.of_nat i - 1) 1 j)).
      { intros j. rewrite D. unfold ind. rewrite Ei.
        replace (N.of_nat i - 1 + 1) with (N.of_nat i) by lia.
        pose proof (Hle j) as Bj. fold g in Bj.
        assert (Hzk : (i - 1 =? S k)%nat = false -> g (N.of_nat k + 1) = 0).
        { intros F. apply Nat.eqb_neq in F. replace (N.of_nat k + 1) with (N.of_nat (S k)) by lia.
          apply Hz. lia. }
        destruct (i - 1 =? S k)%nat eqn:Enb.
        - apply Nat.eqb_eq in Enb. eqb_cases; subst j; rewrite ?N.mod_small by lia; lia.
        - specialize (Hzk eq_refl). apply Nat.eqb_neq in Enb.
          eqb_cases; subst j; rewrite ?N.mod_small by lia; lia. }
      assert (Hsum : forall w,
                hsum g' w (S i) + w (N.of_nat k) + 2 * w (N.of_nat i) =
                hsum g w (S i) + (if (i - 1 =? S k)%nat then 3 * w (N.of_nat i - 1)
                                  else 2 * w (N.of_nat k + 1) + w (N.of_nat i - 1))).
      { intros w. destruct (i - 1 =? S k)%nat eqn:Enb.
        - assert (Hd := hsum_delta g g' (fun j => ind (N.of_nat k) 1 j + ind (N.of_nat i) 2 j)
                          (ind (N.of_nat i - 1) 3) w (S i)
                          (fun j _ => eq_trans (N.add_assoc _ _ _) (Hp j))).
          rewrite hsum_add, !hsum_ind' in Hd by lia. lia.
        - apply Nat.eqb_neq in Enb.
          assert (Hd := hsum_delta g g' (fun j => ind (N.of_nat k) 1 j + ind (N.of_nat i) 2 j)
                          (fun j => ind (N.of_nat k + 1) 2 j + ind (N.of_nat i - 1) 1 j) w (S i)
                          (fun j _ => eq_trans (N.add_assoc _ _ _) (Hp j))).
          rewrite !hsum_add, !hsum_ind' in Hd by lia. lia. }
      subst g g'. split; [split; [|split; [|split]]|].
      * (* level 0 stays empty *)
        pose proof (Hp 0) as H0. unfold ind in H0. rewrite S1 in H0.
        destruct (i - 1 =? S k)%nat; revert H0; eqb_cases.
      * intros j Hj. pose proof (Hp j) as H0. unfold ind in H0.
        rewrite (S2 j Hj) in H0.
        destruct (i - 1 =? S k)%nat; revert H0; eqb_cases.
      * pose proof (Hsum (fun j => 2 ^ (N.of_nat i - j))) as Hw. cbv beta in Hw.
        rewrite S3 in Hw. rewrite N.sub_diag in Hw. change (2 ^ 0) with 1 in Hw.
        replace (N.of_nat i - (N.of_nat i - 1)) with 1 in Hw by lia. change (2 ^ 1) with 2 in Hw.
        rewrite (pow2_succ_sub (N.of_nat i) (N.of_nat k)) in Hw by lia.
        replace (N.of_nat i - (N.of_nat k + 1)) with (N.of_nat i - 1 - N.of_nat k) in Hw by lia.
        destruct (i - 1 =? S k)%nat eqn:Enb.
        -- apply Nat.eqb_eq in Enb.
           replace (N.of_nat i - 1 - N.of_nat k) with 1 in Hw by lia. change (2 ^ 1) with 2 in Hw.
           lia.
        -- lia.
      * pose proof (Hsum (fun _ => 1)) as Hw. cbv beta in Hw. rewrite S4 in Hw.
        destruct (i - 1 =? S k)%nat; lia.
      * pose proof (Hp (N.of_nat i)) as H0. unfold ind in H0.
        destruct (i - 1 =? S k)%nat; revert H0; eqb_cases.
Qed.

Lemma rotate_level_ok : forall fuel i n mb sb,
  sinv i n sb -> n < 4294967296 -> (mb < i)%nat -> n <= 2 ^ N.of_nat mb ->
  sb_get sb (N.of_nat i) < 2 * N.of_nat fuel ->
  exists sb', rotate_level_g fuel i sb = Some sb' /\ sinv i n sb' /\ sb_get sb' (N.of_nat i) = 0.
Proof.
  induction fuel as [|fu IH]; intros i n mb sb Hs Hn Hmb Hcap Hfu; [lia|].
  cbn [rotate_level_g]. destruct (N.ltb_spec 0 (sb_get sb (N.of_nat i))) as [Hpos|Hz].
  - destruct (rotate_step i n mb sb Hs Hn Hmb Hcap Hpos) as (sb1 & T & Hs1 & Hd).
    rewrite T. apply (IH i n mb sb1 Hs1 Hn Hmb Hcap). lia.
  - exists sb. split; [reflexivity|]. split; [exact Hs | lia].
Qed.

Lemma sinv_down i n sb : sinv (S i) n sb -> sb_get sb (N.of_nat (S i)) = 0 -> sinv i n sb.
Proof.
  intros (S1 & S2 & S3 & S4) Hz. split; [exact S1|]. split; [|split].
  - intros j Hj. destruct (N.eq_dec j (N.of_nat (S i))) as [->|Hne]; [exact Hz | apply S2; lia].
  - cbn [hsum] in S3. rewrite Hz in S3.
    cbn [hsum].
    assert (E : hsum (sb_get sb) (fun j => 2 ^ (N.of_nat (S i) - j)) i +
                sb_get sb (N.of_nat i) * 2 ^ (N.of_nat (S i) - N.of_nat i) =
                2 * (hsum (sb_get sb) (fun j => 2 ^ (N.of_nat i - j)) i +
                     sb_get sb (N.of_nat i) * 2 ^ (N.of_nat i - N.of_nat i))).
    { rewrite N.mul_add_distr_l, <- hsum_scale. f_equal.
      - apply hsum_ext. intros j Hj. rewrite (pow2_succ_sub (N.of_nat (S i)) j) by lia.
        replace (N.of_nat (S i) - 1 - j) with (N.of_nat i - j) by lia. reflexivity.
      - rewrite (pow2_succ_sub (N.of_nat (S i)) (N.of_nat i)) by lia.
        replace (N.of_nat (S i) - 1 - N.of_nat i) with (N.of_nat i - N.of_nat i) by lia. lia. }
    rewrite (pow2_pred (N.of_nat (S i))) in S3 by lia.
    replace (N.of_nat (S i) - 1) with (N.of_nat i) in S3 by lia. lia.
  - cbn [hsum] in S4. rewrite Hz in S4. cbn [hsum]. lia.
Qed.

Lemma rotate_all_ok : forall levels mb fuel n sb,
  sinv (mb + levels) n sb -> n < 4294967296 -> n <= 2 ^ N.of_nat mb -> n < 2 * N.of_nat fuel ->
  exists sb', rotate_all_g mb levels fuel sb = Some sb' /\ sinv mb n sb'.
Proof.
  induction levels as [|l IH]; intros mb fuel n sb Hs Hn Hcap Hfu.
  - exists sb. split; [reflexivity|]. rewrite Nat.add_0_r in Hs. exact Hs.
  - cbn [rotate_all_g].
    destruct (rotate_level_ok fuel (mb + S l) n mb sb Hs Hn) as (sb1 & T & Hs1 & Hz);
      [lia | exact Hcap | pose proof (sinv_le _ _ _ (N.of_nat (mb + S l)) Hs); lia |].
    rewrite T. apply (IH mb fuel n sb1); try assumption.
    rewrite Nat.add_succ_r in Hs1, Hz. apply sinv_down; assumption.
Qed.

(* ---- 7. the result ------------------------------------------------------------ *)

(* 7a. lists of lengths from a histogram *)
Definition lsumN (w : N -> N) (l : list N) : N := fold_right (fun x acc => w x + acc) 0 l.

Lemma lsum_lsumN w l : lsum w l = lsumN w (map snd l).
Proof. induction l as [|x l IH]; [reflexivity|]. cbn [lsum lsumN fold_right map]. f_equal. exact IH. Qed.

Lemma lsumN_cons w x l : lsumN w (x :: l) = w x + lsumN w l.
Proof. reflexivity. Qed.

Lemma lsumN_app w a b : lsumN w (a ++ b) = lsumN w a + lsumN w b.
Proof.
  induction a as [|x a IH]; [reflexivity|]. cbn [app]. rewrite !lsumN_cons, IH. lia.
Qed.

Lemma lsumN_rev w l : lsumN w (rev l) = lsumN w l.
Proof.
  induction l as [|x l IH]; [reflexivity|]. cbn [rev]. rewrite lsumN_app, IH, !lsumN_cons.
  change (lsumN w []) with 0. lia.
Qed.

Lemma lsumN_repeat w x k : lsumN w (repeat x k) = N.of_nat k * w x.
Proof.
  induction k as [|k IH]; [reflexivity|]. cbn [repeat]. rewrite lsumN_cons, IH. lia.
Qed.

Definition hl (g : N -> N) (m : nat) : list N :=
  flat_map (fun nb => repeat nb (N.to_nat (g nb))) (map N.of_nat (seq 0 m)).

Lemma hl_succ g m : hl g (S m) = hl g m ++ repeat (N.of_nat m) (N.to_nat (g (N.of_nat m))).
Proof.
  unfold hl. rewrite seq_S, map_app, flat_map_app. cbn [map flat_map Nat.add]. rewrite app_nil_r.
  reflexivity.
Qed.

Lemma lens_of_hist_hl sb top : lens_of_hist sb top = hl (sb_get sb) (S (N.to_nat top)).
Proof.
  unfold lens_of_hist, hl. rewrite iota_eq. replace (N.to_nat (top + 1)) with (S (N.to_nat top)) by lia.
  reflexivity.
Qed.

Lemma hl_lsumN g w m : lsumN w (hl g m) = hsum g w m.
Proof.
  induction m as [|m IH]; [reflexivity|]. rewrite hl_succ, lsumN_app, IH, lsumN_repeat.
  cbn [hsum]. rewrite N2Nat.id. reflexivity.
Qed.

Lemma length_lsumN (l : list N) : N.of_nat (length l) = lsumN (fun _ => 1) l.
Proof.
  induction l as [|x l IH]; [reflexivity|]. cbn [length]. rewrite lsumN_cons. lia.
Qed.

Lemma hl_in g m x : In x (hl g m) -> x < N.of_nat m /\ 0 < g x.
Proof.
  induction m as [|m IH]; [intros []|]. rewrite hl_succ. intros H. apply in_app_or in H.
  destruct H as [H|H].
  - destruct (IH H) as [Hx1 Hx2]. split; lia.
  - apply repeat_spec in H as Hx. subst x.
    destruct (N.eq_dec (g (N.of_nat m)) 0) as [E|E]; [rewrite E in H; destruct H | split; lia].
Qed.

Lemma SS_app {A} (R : A -> A -> Prop) a b :
  StronglySorted R a -> StronglySorted R b -> (forall x y, In x a -> In y b -> R x y) ->
  StronglySorted R (a ++ b).
Proof.
  induction a as [|x a IH]; intros Ha Hb H; [exact Hb|]. cbn [app].
  apply StronglySorted_inv in Ha. destruct Ha as [Ha Hx]. constructor.
  - apply IH; [exact Ha | exact Hb |]. intros u v Hu Hv. apply H; [right; exact Hu | exact Hv].
  - apply Forall_forall. intros y Hy. apply in_app_or in Hy. destruct Hy as [Hy|Hy].
    + rewrite Forall_forall in Hx. apply Hx. exact Hy.
    + apply H; [left; reflexivity | exact Hy].
Qed.

Lemma SS_rev {A} (R : A -> A -> Prop) l :
  StronglySorted R l -> StronglySorted (fun a b => R b a) (rev l).
Proof.
  induction l as [|x l IH]; intros H; [constructor|]. cbn [rev].
  apply StronglySorted_inv in H. destruct H as [H Hx]. apply SS_app.
  - apply IH. exact H.
  - constructor; [constructor | constructor].
  - intros u v Hu [<-|[]]. rewrite Forall_forall in Hx. apply Hx. apply in_rev. exact Hu.
Qed.

Lemma SS_repeat (x : N) k : StronglySorted N.le (repeat x k).
Proof.
  induction k as [|k IH]; [constructor|]. cbn [repeat]. constructor; [exact IH|].
  apply Forall_forall. intros y Hy. apply repeat_spec in Hy. subst y. lia.
Qed.

Lemma hl_sorted g m : StronglySorted N.le (hl g m).
Proof.
  induction m as [|m IH]; [constructor|]. rewrite hl_succ. apply SS_app.
  - exact IH.
  - apply SS_repeat.
  - intros x y Hx Hy. apply hl_in in Hx. apply repeat_spec in Hy. subst y. lia.
Qed.

Lemma SS_nth {A} (R : A -> A -> Prop) l : StronglySorted R l ->
  forall i j a b, (i < j)%nat -> nth_error l i = Some a -> nth_error l j = Some b -> R a b.
Proof.
  induction 1 as [|x l Hl IH Hx]; intros i j a b Hij Hi Hj.
  - destruct i; discriminate.
  - destruct j as [|j]; [lia|]. cbn [nth_error] in Hj. destruct i as [|i].
    + cbn [nth_error] in Hi. inversion Hi; subst. rewrite Forall_forall in Hx. apply Hx.
      eapply nth_error_In. exact Hj.
    + cbn [nth_error] in Hi. apply (IH i j); [lia | exact Hi | exact Hj].
Qed.

Lemma rev_combine {A B} (a : list A) (b : list B) :
  length a = length b -> rev (combine a b) = combine (rev a) (rev b).
Proof.
  revert b; induction a as [|x a IH]; intros [|y b] H; cbn [length] in H; try discriminate.
  - reflexivity.
  - cbn [combine rev]. rewrite IH by lia. rewrite combine_app by (rewrite !rev_length; lia).
    reflexivity.
Qed.

Lemma map_fst_combine {A B} (a : list A) (b : list B) :
  length a = length b -> map fst (combine a b) = a.
Proof.
  revert b; induction a as [|x a IH]; intros [|y b] H; cbn [length] in H; try discriminate.
  - reflexivity.
  - cbn [combine map fst]. f_equal. apply IH. lia.
Qed.

Lemma map_snd_combine {A B} (a : list A) (b : list B) :
  length a = length b -> map snd (combine a b) = b.
Proof.
  revert b; induction a as [|x a IH]; intros [|y b] H; cbn [length] in H; try discriminate.
  - reflexivity.
  - cbn [combine map snd]. f_equal. apply IH. lia.
Qed.

(* 7b. the depth map and the maximum *)
Lemma dm_notin : forall (l : list (N * N)) m s,
  ~ In s (map fst l) ->
  nm_getd (fold_left (fun m sd => nm_set m (fst sd) (snd sd)) l m) s 0 = nm_getd m s 0.
Proof.
  induction l as [|[s0 d0] l IH]; intros m s H; [reflexivity|].
  cbn [fold_left fst snd]. rewrite IH.
  - rewrite nm_getd_set. destruct (N.eqb_spec s s0) as [->|E]; [|reflexivity].
    exfalso. apply H. left. reflexivity.
  - intros Hin. apply H. right. exact Hin.
Qed.

Lemma dm_lookup : forall (l : list (N * N)) m s d,
  NoDup (map fst l) -> In (s, d) l ->
  nm_getd (fold_left (fun m sd => nm_set m (fst sd) (snd sd)) l m) s 0 = d.
Proof.
  induction l as [|[s0 d0] l IH]; intros m s d Hnd Hin; [destruct Hin|].
  cbn [map fst] in Hnd. inversion Hnd as [|x y Hni Hnd']; subst.
  cbn [fold_left fst snd]. destruct Hin as [Hin|Hin].
  - inversion Hin; subst. rewrite dm_notin by exact Hni. rewrite nm_getd_set, N.eqb_refl. reflexivity.
  - apply IH; assumption.
Qed.

Lemma fold_max_ge : forall (l : list (N * N)) m0,
  m0 <= fold_left (fun m sd => N.max m (snd sd)) l m0 /\
  forall s d, In (s, d) l -> d <= fold_left (fun m sd => N.max m (snd sd)) l m0.
Proof.
  induction l as [|[s0 d0] l IH]; intros m0; cbn [fold_left snd].
  - split; [lia | intros s d []].
  - destruct (IH (N.max m0 d0)) as [H1 H2]. split; [lia|].
    intros s d [H|H]; [inversion H; subst; lia | apply (H2 s); exact H].
Qed.

Lemma map_lookup_combine (g : N -> N) : forall (codes : list (N * N)) (df : list N),
  length df = length codes ->
  (forall s d, In (s, d) (combine (map snd codes) df) -> g s = d) ->
  map (fun cs => (snd cs, g (snd cs))) codes = combine (map snd codes) df.
Proof.
  induction codes as [|[c s] codes IH]; intros [|d df] L H; cbn [length] in L; try discriminate.
  - reflexivity.
  - cbn [map snd combine]. f_equal.
    + f_equal. apply H. left. reflexivity.
    + apply IH; [lia|]. intros s' d' Hin. apply H. right. exact Hin.
Qed.

Lemma count_len_zero l j : (forall s, ~ In (s, j) l) -> count_len l j = 0.
Proof.
  induction l as [|[s d] l IH]; intros H; [reflexivity|].
  rewrite count_len_cons, IH.
  - destruct (N.eqb_spec d j) as [->|E]; [|reflexivity]. exfalso. apply (H s). left. reflexivity.
  - intros s' Hin. apply (H s'). right. exact Hin.
Qed.

(* 7c. the limiting phase on the histogram of any complete set of depths *)
Definition hist_of (depths : list (N * N)) : nmap N :=
  fold_left (fun m sd => sb_add m (snd sd) 1) depths nm_empty.

Lemma hist_init (depths : list (N * N)) top :
  (forall s d, In (s, d) depths -> 1 <= d <= top) ->
  kraft top depths = 2 ^ top ->
  N.of_nat (length depths) < 4294967296 ->
  sinv (N.to_nat top) (N.of_nat (length depths)) (hist_of depths).
Proof.
  intros Hr Hk H32.
  assert (Hg : forall j, sb_get (hist_of depths) j = count_len depths j).
  { intros j. unfold hist_of. rewrite sb_hist.
    - rewrite sb_get_empty. lia.
    - intros j'. rewrite sb_get_empty. pose proof (count_len_le depths j') as Hc. lia. }
  set (T := N.to_nat top).
  assert (HT : N.of_nat T = top) by (unfold T; lia).
  split; [|split; [|split]].
  - rewrite Hg. apply count_len_zero. intros s Hin. apply Hr in Hin. lia.
  - intros j Hj. rewrite Hg. apply count_len_zero. intros s Hin. apply Hr in Hin. lia.
  - rewrite (hsum_ext _ (count_len depths) _ (fun j => 2 ^ (N.of_nat T - j)))
      by (intros j _; rewrite Hg; reflexivity).
    rewrite <- (lsum_hist (fun j => 2 ^ (N.of_nat T - j)) depths (S T)).
    + rewrite <- kraft_lsum, HT. exact Hk.
    + intros s d Hin. apply Hr in Hin. lia.
  - rewrite (hsum_ext _ (count_len depths) _ (fun _ => 1))
      by (intros j _; rewrite Hg; reflexivity).
    rewrite <- (lsum_hist (fun _ => 1) depths (S T)).
    + symmetry. apply length_lsum.
    + intros s d Hin. apply Hr in Hin. lia.
Qed.

Lemma hist_result mb n sb top :
  sinv mb n sb -> N.of_nat mb <= top ->
  let lens := lens_of_hist sb top in
  N.of_nat (length lens) = n /\
  (forall l, In l lens -> 1 <= l <= N.of_nat mb) /\
  lsumN (fun l => 2 ^ (N.of_nat mb - l)) lens = 2 ^ N.of_nat mb /\
  StronglySorted N.le lens.
Proof.
  intros (S1 & S2 & S3 & S4) Hmb. cbv zeta. rewrite lens_of_hist_hl.
  set (T := N.to_nat top).
  split; [|split; [|split]].
  - rewrite length_lsumN, hl_lsumN.
    rewrite (hsum_trunc _ _ (S mb) (S T)); [exact S4 | lia |].
    intros j Hj. apply S2. lia.
  - intros l Hl. apply hl_in in Hl. destruct Hl as [_ Hl].
    split.
    + destruct (N.eq_dec l 0) as [->|E]; [rewrite S1 in Hl; lia | lia].
    + destruct (N.le_gt_cases l (N.of_nat mb)) as [Hle|Hgt]; [exact Hle|]. rewrite (S2 l Hgt) in Hl. lia.
  - rewrite hl_lsumN.
    rewrite (hsum_trunc _ _ (S mb) (S T)); [exact S3 | lia |].
    intros j Hj. apply S2. lia.
  - apply hl_sorted.
Qed.

Lemma limiting_phase maxBits (depths : list (N * N)) :
  let n := length depths in
  let maxd := fold_left (fun m sd => N.max m (snd sd)) depths 0 in
  let top := N.max 27 maxd in
  let sb0 := fold_left (fun m sd => sb_add m (snd sd) 1) depths nm_empty in
  (forall s d, In (s, d) depths -> 1 <= d) ->
  kraft top depths = 2 ^ top ->
  maxBits < maxd ->
  N.of_nat n <= 2 ^ maxBits -> N.of_nat n < 4294967296 ->
  exists sb,
    rotate_all_g (N.to_nat maxBits) (N.to_nat (top - maxBits)) (2 * S n) sb0 = Some sb /\
    let lens := lens_of_hist sb top in
    length lens = n /\
    (forall l, In l lens -> 1 <= l <= maxBits) /\
    lsumN (fun l => 2 ^ (maxBits - l)) lens = 2 ^ maxBits /\
    StronglySorted N.le lens.
Proof.
  intros n maxd top sb0 Hpos Hk Hlim Hcap H32.
  assert (Hmax : forall s d, In (s, d) depths -> d <= maxd).
  { intros s d Hin. apply (proj2 (fold_max_ge depths 0) s d Hin). }
  assert (Hs0 : sinv (N.to_nat top) (N.of_nat n) sb0).
  { apply hist_init; [|exact Hk | exact H32].
    intros s d Hin. split; [apply (Hpos s d Hin) | apply Hmax in Hin; lia]. }
  assert (ET : N.to_nat top = (N.to_nat maxBits + N.to_nat (top - maxBits))%nat) by lia.
  rewrite ET in Hs0.
  destruct (rotate_all_ok (N.to_nat (top - maxBits)) (N.to_nat maxBits) (2 * S n) (N.of_nat n) sb0 Hs0)
    as (sb & Hr & Hs); [exact H32 | rewrite N2Nat.id; exact Hcap | lia |].
  exists sb. split; [exact Hr|].
  destruct (hist_result _ _ _ top Hs) as (R1 & R2 & R3 & R4); [lia|].
  rewrite N2Nat.id in R2, R3. cbv zeta.
  split; [apply Nat2N.inj; exact R1|]. split; [exact R2|]. split; [exact R3 | exact R4].
Qed.

(* 7d. unfolding the model *)
Definition gl_body (maxBits : N) (codes : list (N * N)) : glres :=
  let ncodes := length codes in
  match huff_build_g (S ncodes) codes [] with
  | None => GLPanic
  | Some root =>
    let depths := huff_depths root 0 [] in
    let dm := fold_left (fun m sd => nm_set m (fst sd) (snd sd)) depths nm_empty in
    let maxd := fold_left (fun m sd => N.max m (snd sd)) depths 0 in
    if maxd <=? maxBits then GLOk (map (fun cs => (snd cs, nm_getd dm (snd cs) 0)) codes)
    else
      let top := N.max 27 maxd in
      let sb := fold_left (fun m sd => sb_add m (snd sd) 1) depths nm_empty in
      match rotate_all_g (N.to_nat maxBits) (N.to_nat (top - maxBits)) (2 * S ncodes) sb with
      | None => GLPanic
      | Some sb =>
        let lens := lens_of_hist sb top in
        if negb (Nat.eqb (length lens) ncodes) then GLPanic
        else GLOk (fast_rev (combine (map snd (fast_rev codes)) lens))
      end
  end.

Lemma gen_lengths_unfold maxBits codes :
  (2 <= length codes)%nat ->
  gen_lengths maxBits codes =
  if negb (ascending codes (fst (hd (0, 0) codes))) then GLInvalid else gl_body maxBits codes.
Proof.
  destruct codes as [|[c0 s0] [|x r]]; cbn [length]; intros H; try lia. reflexivity.
Qed.

Lemma ascending_iff : forall l c, ascending l c = true <-> StronglySorted N.le (c :: map fst l).
Proof.
  induction l as [|[c0 s0] l IH]; intros c; cbn [ascending map fst].
  - split; [intros _; constructor; constructor | reflexivity].
  - rewrite andb_true_iff, IH, N.leb_le. split.
    + intros [H1 H2]. constructor; [exact H2|]. constructor; [exact H1|].
      apply StronglySorted_inv in H2. destruct H2 as [_ H2].
      rewrite Forall_forall in *. intros x Hx. specialize (H2 x Hx). lia.
    + intros H. apply StronglySorted_inv in H. destruct H as [H1 H2]. split; [|exact H1].
      inversion H2; assumption.
Qed.

Lemma ascending_hd_iff codes :
  ascending codes (fst (hd (0, 0) codes)) = true <-> StronglySorted N.le (map fst codes).
Proof.
  destruct codes as [|[c0 s0] r].
  - cbn. split; [intros _; constructor | reflexivity].
  - cbn [hd fst ascending map]. rewrite N.leb_refl, andb_true_l. apply ascending_iff.
Qed.

(* ---- the specification of GenerateLengths ---- *)
Record gl_correct (maxBits : N) (codes lens : list (N * N)) : Prop := {
  gl_syms   : map fst lens = map snd codes;                    (* same symbols, same order *)
  gl_range  : forall s l, In (s, l) lens -> 1 <= l <= maxBits;
  gl_kraft  : kraft maxBits lens = 2 ^ maxBits;                (* complete: Kraft sum one *)
  gl_noninc : noninc (map snd lens)                            (* no longer code later in count order *)
}.

(* facts about the depths of the tree *)
Lemma tree_facts root :
  is_node root ->
  let depths := huff_depths root 0 [] in
  (forall s d, In (s, d) depths -> 1 <= d) /\
  (forall M, (forall s d, In (s, d) depths -> d <= M) -> kraft M depths = 2 ^ M) /\
  (forall s d, In (s, d) depths -> d <= fold_left (fun m sd => N.max m (snd sd)) depths 0).
Proof.
  intros Hnode depths. split; [|split].
  - intros s d Hin. unfold depths in Hin. destruct root as [s0|l r]; [destruct Hnode|].
    rewrite huff_depths_node in Hin. apply in_app_or in Hin.
    destruct Hin as [Hin|Hin]; apply huff_depths_ge in Hin; lia.
  - intros M HM. unfold depths. rewrite kraft_tree by exact HM. f_equal. lia.
  - intros s d Hin. apply (proj2 (fold_max_ge depths 0) s d Hin).
Qed.

(* the branch without limiting: the depths, looked up by symbol *)
Lemma unlimited_result maxBits codes root df :
  let depths := huff_depths root 0 [] in
  length df = length codes -> noninc df ->
  Permutation depths (combine (map snd codes) df) -> is_node root ->
  NoDup (map snd codes) ->
  fold_left (fun m sd => N.max m (snd sd)) depths 0 <= maxBits ->
  gl_correct maxBits codes
    (map (fun cs => (snd cs,
                     nm_getd (fold_left (fun m sd => nm_set m (fst sd) (snd sd)) depths nm_empty)
                             (snd cs) 0)) codes).
Proof.
  intros depths Ldf Hdf P Hnode Hnd Hle.
  destruct (tree_facts root Hnode) as (Hpos & Hkr & Hmax). fold depths in Hpos, Hkr, Hmax.
  set (syms := map snd codes) in *.
  assert (Lsy : length syms = length codes) by (unfold syms; apply map_length).
  assert (Hin_df : forall s d, In (s, d) (combine syms df) -> In (s, d) depths).
  { intros s d Hin. apply (Permutation_in _ (Permutation_sym P)). exact Hin. }
  rewrite (map_lookup_combine
             (fun s => nm_getd (fold_left (fun m sd => nm_set m (fst sd) (snd sd)) depths nm_empty) s 0)
             codes df Ldf).
  - fold syms. split.
    + apply map_fst_combine. fold syms. lia.
    + intros s l Hin. apply Hin_df in Hin. split; [apply (Hpos s); exact Hin|].
      apply Hmax in Hin. lia.
    + rewrite <- (kraft_perm _ _ _ P). apply Hkr. intros s d Hin. apply Hmax in Hin. lia.
    + rewrite map_snd_combine by lia. exact Hdf.
  - fold syms. intros s d Hin. apply dm_lookup; [|apply Hin_df; exact Hin].
    assert (Pm : Permutation (map fst depths) syms).
    { rewrite <- (map_fst_combine syms df) by lia. apply Permutation_map. exact P. }
    apply (Permutation_NoDup (Permutation_sym Pm)). exact Hnd.
Qed.

(* the branch with limiting: ascending lengths handed out from the most
   frequent code downwards *)
Lemma limited_result maxBits codes (lens : list N) :
  length lens = length codes ->
  (forall l, In l lens -> 1 <= l <= maxBits) ->
  lsumN (fun l => 2 ^ (maxBits - l)) lens = 2 ^ maxBits ->
  StronglySorted N.le lens ->
  gl_correct maxBits codes (fast_rev (combine (map snd (fast_rev codes)) lens)).
Proof.
  intros Llen Hrange Hk Hsorted.
  set (syms := map snd codes).
  assert (Lsy : length syms = length codes) by (unfold syms; apply map_length).
  rewrite !fast_rev_eq, map_rev. fold syms.
  rewrite <- (rev_involutive lens) at 1.
  rewrite <- rev_combine by (rewrite !rev_length; lia). rewrite rev_involutive.
  assert (Lr : length syms = length (rev lens)) by (rewrite rev_length; lia).
  split.
  - apply map_fst_combine. exact Lr.
  - intros s l Hin. apply in_combine_r in Hin. apply in_rev in Hin. apply Hrange. exact Hin.
  - rewrite kraft_lsum, lsum_lsumN, map_snd_combine by exact Lr. rewrite lsumN_rev. exact Hk.
  - rewrite map_snd_combine by exact Lr. apply (SS_rev _ _ Hsorted).
Qed.

Theorem gen_lengths_correct maxBits codes :
  (2 <= length codes)%nat ->
  StronglySorted N.le (map fst codes) ->          (* counts ascending *)
  NoDup (map snd codes) ->                        (* distinct symbols *)
  N.of_nat (length codes) <= 2 ^ maxBits ->
  N.of_nat (length codes) < 2 ^ 32 ->
  exists lens, gen_lengths maxBits codes = GLOk lens /\ gl_correct maxBits codes lens.
Proof.
  intros Hn Hasc Hnd Hcap H32.
  rewrite gen_lengths_unfold by exact Hn.
  apply ascending_hd_iff in Hasc. rewrite Hasc. cbn [negb].
  destruct (huffman_phase codes Hn) as (root & df & Hr & Ldf & Hdf & P & Hnode).
  unfold gl_body. rewrite Hr. cbv zeta.
  destruct (tree_facts root Hnode) as (Hpos & Hkr & Hmax).
  set (depths := huff_depths root 0 []) in *.
  assert (Ldep : length depths = length codes).
  { rewrite (Permutation_length P), combine_length, map_length. lia. }
  set (maxd := fold_left (fun m sd => N.max m (snd sd)) depths 0) in *.
  destruct (N.leb_spec maxd maxBits) as [Hle|Hgt].
  - (* no limiting needed *)
    eexists. split; [reflexivity|]. apply (unlimited_result maxBits codes root df); assumption.
  - (* length limiting *)
    destruct (limiting_phase maxBits depths) as (sb & Hrot & Llen & Hrange & Hk & Hsorted).
    + exact Hpos.
    + apply Hkr. intros s d Hin. apply Hmax in Hin. lia.
    + exact Hgt.
    + rewrite Ldep. exact Hcap.
    + rewrite Ldep. change 4294967296 with (2 ^ 32). exact H32.
    + fold maxd in Hrot, Llen, Hrange, Hk, Hsorted. rewrite Ldep in Hrot, Llen.
      rewrite Hrot.
      set (lens := lens_of_hist sb (N.max 27 maxd)) in *.
      rewrite Llen, Nat.eqb_refl. cbn [negb].
      eexists. split; [reflexivity|]. apply limited_result; assumption.
Qed.

(* B4: a symbol with a strictly larger count never gets a strictly longer code *)
Theorem gl_correct_monotone maxBits codes lens :
  StronglySorted N.le (map fst codes) -> gl_correct maxBits codes lens ->
  forall i j ci cj li lj,
    nth_error (map fst codes) i = Some ci -> nth_error (map fst codes) j = Some cj ->
    nth_error (map snd lens) i = Some li -> nth_error (map snd lens) j = Some lj ->
    ci < cj -> lj <= li.
Proof.
  intros Hasc Hc i j ci cj li lj Hci Hcj Hli Hlj Hlt.
  destruct (Nat.lt_trichotomy i j) as [Hij|[->|Hji]].
  - apply (SS_nth _ _ (gl_noninc _ _ _ Hc) i j li lj Hij Hli Hlj).
  - rewrite Hli in Hlj. inversion Hlj; subst. lia.
  - pose proof (SS_nth _ _ Hasc j i cj ci Hji Hcj Hci) as Hle. lia.
Qed.

(* B5 and the refusals *)
Theorem gen_lengths_nil maxBits : gen_lengths maxBits [] = GLOk [].
Proof. reflexivity. Qed.

Theorem gen_lengths_one maxBits c s : gen_lengths maxBits [(c, s)] = GLOk [(s, 0)].
Proof. reflexivity. Qed.

Theorem gen_lengths_invalid_iff maxBits codes :
  (2 <= length codes)%nat ->
  (gen_lengths maxBits codes = GLInvalid <-> ~ StronglySorted N.le (map fst codes)).
Proof.
  intros Hn. rewrite gen_lengths_unfold by exact Hn. rewrite <- ascending_hd_iff.
  destruct (ascending codes (fst (hd (0, 0) codes))) eqn:E; cbn [negb].
  - split; [|intros H; exfalso; apply H; reflexivity].
    intros H. exfalso. unfold gl_body in H. cbv zeta in H.
    destruct (huff_build_g _ codes []); [|discriminate].
    destruct (_ <=? maxBits); [discriminate|].
    destruct (rotate_all_g _ _ _ _); [|discriminate].
    destruct (negb _); discriminate.
  - split; [intros _; discriminate | reflexivity].
Qed.

(* the capacity hypothesis n <= 2^maxBits is necessary for the conclusion *)
Lemma kraft_ge_length M l : N.of_nat (length l) <= kraft M l.
Proof.
  induction l as [|[s d] l IH]; [cbn; lia|]. rewrite kraft_cons. cbn [length].
  assert (Hp : 0 < 2 ^ (M - d)) by (apply N.neq_0_lt_0, N.pow_nonzero; lia). lia.
Qed.

Theorem gl_correct_capacity maxBits codes lens :
  gl_correct maxBits codes lens -> N.of_nat (length codes) <= 2 ^ maxBits.
Proof.
  intros Hc. rewrite <- (gl_kraft _ _ _ Hc).
  replace (length codes) with (length lens).
  - apply kraft_ge_length.
  - rewrite <- (map_length fst lens), (gl_syms _ _ _ Hc). apply map_length.
Qed.

(* the lengths as GeneratePrefixes sees them *)
Lemma gl_correct_lens_pos maxBits codes lens : gl_correct maxBits codes lens -> lens_pos lens.
Proof. intros Hc s l Hin. apply (gl_range _ _ _ Hc s l Hin). Qed.

Lemma gl_correct_max_len maxBits codes lens : gl_correct maxBits codes lens -> max_len lens <= maxBits.
Proof.
  intros Hc. pose proof (gl_range _ _ _ Hc) as Hr. clear Hc.
  induction lens as [|[s l] lens IH]; [cbn; lia|]. rewrite max_len_cons.
  assert (H1 : l <= maxBits) by (apply (Hr s l); left; reflexivity).
  assert (H2 : max_len lens <= maxBits) by (apply IH; intros s' l' Hin; apply (Hr s'); right; exact Hin).
  lia.
Qed.

(* ---- non-vacuity -------------------------------------------------------------------- *)
(* Fibonacci counts: the Huffman tree of 8 symbols has depth 7 *)
Example gl_ex_codes : list (N * N) :=
  [(1, 10); (1, 11); (2, 12); (3, 13); (5, 14); (8, 15); (13, 16); (21, 17)].

Example gl_ex_hyps :
  (2 <= length gl_ex_codes)%nat /\ StronglySorted N.le (map fst gl_ex_codes) /\
  NoDup (map snd gl_ex_codes) /\
  N.of_nat (length gl_ex_codes) <= 2 ^ 3 /\ N.of_nat (length gl_ex_codes) < 2 ^ 32.
Proof.
  split; [cbn; lia|]. split; [apply ascending_hd_iff; vm_compute; reflexivity|].
  split; [|split; [vm_compute; discriminate | vm_compute; reflexivity]].
  cbn [gl_ex_codes map snd].
  repeat (constructor; [cbn [In]; intros H; repeat (destruct H as [H|H]; [discriminate H|]); exact H|]).
  constructor.
Qed.

(* no limiting needed / limiting to 4 bits / to the minimum of 3 bits *)
Example gl_ex_run7 : gen_lengths 7 gl_ex_codes =
  GLOk [(10, 7); (11, 7); (12, 6); (13, 5); (14, 4); (15, 3); (16, 2); (17, 1)].
Proof. vm_compute. reflexivity. Qed.
Example gl_ex_run4 : gen_lengths 4 gl_ex_codes =
  GLOk [(10, 4); (11, 4); (12, 4); (13, 4); (14, 4); (15, 4); (16, 3); (17, 1)].
Proof. vm_compute. reflexivity. Qed.
Example gl_ex_run3 : gen_lengths 3 gl_ex_codes =
  GLOk [(10, 3); (11, 3); (12, 3); (13, 3); (14, 3); (15, 3); (16, 3); (17, 3)].
Proof. vm_compute. reflexivity. Qed.
(* one code too many for the limit: the Go code panics (index -1 in treeRotate) *)
Example gl_ex_over : gen_lengths 2 gl_ex_codes = GLPanic.
Proof. vm_compute. reflexivity. Qed.
(* counts whose sum exceeds 2^32: node weights wrap around; the result is a
   valid complete code (covered by the theorem) but not an optimal one
   (optimal: 3,3,2,2,2) *)
Example gl_ex_wrap :
  gen_lengths 27 [(4294967295, 0); (4294967295, 1); (4294967295, 2); (4294967295, 3); (4294967295, 4)]
  = GLOk [(0, 4); (1, 4); (2, 3); (3, 2); (4, 1)].
Proof. vm_compute. reflexivity. Qed.
(* duplicate symbols: outside the theorem; the MODEL (not the Go code, which
   stores the length in each entry) then reports one depth for both entries *)
Example gl_ex_dup : gen_lengths 3 [(1, 0); (1, 1); (1, 0); (5, 2)] = GLOk [(0, 2); (1, 3); (0, 2); (2, 1)].
Proof. vm_compute. reflexivity. Qed.

Print Assumptions huffman_phase.
Print Assumptions kraft_tree.
Print Assumptions tree_rotate_spec.
Print Assumptions rotate_step.
Print Assumptions rotate_all_ok.
Print Assumptions limiting_phase.
Print Assumptions gen_lengths_correct.
Print Assumptions gl_correct_monotone.
Print Assumptions gl_correct_capacity.
Print Assumptions gen_lengths_invalid_iff.
Print Assumptions gl_ex_hyps.
