(* THEOREM (e): what the Encoder's table makes WriteSymbol write, the Decoder's tables make
   ReadSymbol read back. *)
From V Require Import Base.Prelude Bzip2.Common Prefix.ReaderImpl Prefix.ReaderSpec Prefix.ReaderThms
  Prefix.DecTable Prefix.DecTableSpec Prefix.DecTableThms Prefix.DecReadThms Prefix.EncTableThms.

Local Open Scope N_scope.
Local Ltac Zify.zify_post_hook ::= idtac.

Section RoundTrip.
Variable codes : list pcode.
Hypothesis HK : dec_valid 27 codes.
Hypothesis Hsyms : syms_sorted codes.
Hypothesis Hsym27 : forall c, In c codes -> c_sym c < 2 ^ 27.   (* else the decoder truncates *)

(* at the level of the tables: the bits written for a symbol of the code, followed by
   anything, look up to that symbol and to the number of bits written *)
Theorem enc_dec_tables oldC oldL :
  exists e d, enc_init codes = IOk e /\ dec_init oldC oldL codes = IOk d /\
    forall c, In c codes ->
      exists v nb, enc_lookup e (c_sym c) = Some (v, nb) /\
        forall rest, dec_lookup d (v + 2 ^ nb * rest) = Some (c_sym c, nb).
Proof.
  destruct (enc_init_ok codes (dv_wf _ _ HK) Hsyms) as (e & Ee & Hok).
  destruct (dec_table_correct 27 codes oldC oldL ltac:(lia) HK) as (d & Ed & _ & Hl).
  exists e, d. split; [exact Ee|]. split; [exact Ed|]. intros c Hc.
  destruct (enc_lookup_ok codes (dv_wf _ _ HK) _ e Hok) as (H1 & _).
  exists (c_val c), (c_len c). split; [apply H1; exact Hc|]. intros rest.
  rewrite (Hl (c_val c + 2 ^ c_len c * rest) c Hc).
  - rewrite N.mod_small by (apply Hsym27; exact Hc). reflexivity.
  - unfold matches. rewrite N.mul_comm, N.mod_add by apply pow2_nz.
    apply N.mod_small. apply (wf_val _ _ (dv_wf _ _ HK)). exact Hc.
Qed.

(* on streams: the bits WriteSymbol appends for c stand at position R of the data *)
Theorem enc_dec_stream big data (Hd : forall b, In b data -> b < 256) oldC oldL R p c :
  In c codes -> Inv big data R p ->
  (R + N.to_nat (max_bits codes) <= 8 * length data)%nat ->
  exists e d v nb, enc_init codes = IOk e /\ dec_init oldC oldL codes = IOk d /\
    enc_lookup e (c_sym c) = Some (v, nb) /\
    (firstn (N.to_nat nb) (skipn R (stream_bits big data)) = val_bits (N.to_nat nb) v ->
     exists p', dt_read_symbol d p = (RSym (c_sym c), p') /\
                bits_read p' = Z.of_nat (R + N.to_nat nb)).
Proof.
  intros Hc HI Hlen.
  destruct (enc_init_ok codes (dv_wf _ _ HK) Hsyms) as (e & Ee & Hok).
  destruct (dec_init_tables 27 codes ltac:(lia) HK oldC oldL) as (d & Ed & HT).
  destruct (enc_lookup_ok codes (dv_wf _ _ HK) _ e Hok) as (H1 & _).
  exists e, d, (c_val c), (c_len c). split; [exact Ee|]. split; [exact Ed|].
  split; [apply H1; exact Hc|]. intros Hbits.
  assert (Hm : matches c (window big data R)).
  { unfold matches. pose proof (v_len 27 codes HK c Hc) as Hl.
    rewrite (window_low big data Hd) by lia. unfold bits_at. rewrite Hbits, bits_val_val_bits, N2Nat.id.
    apply N.mod_small. apply (wf_val _ _ (dv_wf _ _ HK)). exact Hc. }
  destruct (read_symbol_correct big data Hd 27 codes ltac:(lia) HK d HT R p c HI Hc Hm Hlen)
    as (p' & E1 & _ & E2 & _).
  exists p'. rewrite N.mod_small in E1 by (apply Hsym27; exact Hc). split; [exact E1 | exact E2].
Qed.

End RoundTrip.

(* non-vacuity, on the example code of DecReadThms *)
Example enc_dec_tables_ex :
  exists e d, enc_init ex_codes = IOk e /\ dec_init (fun i => i) (fun i => i + 1) ex_codes = IOk d /\
    enc_lookup e 2 = Some (3, 3) /\ dec_lookup d (3 + 2 ^ 3 * 12345) = Some (2, 3).
Proof.
  assert (Hs : syms_sorted ex_codes).
  { split.
    - cbn. repeat constructor; lia.
    - intros c Hc. cbn in Hc. destruct Hc as [<-|[<-|[<-|[<-|[]]]]]; cbn; lia. }
  destruct (enc_dec_tables ex_codes ex_valid Hs) with (oldC := fun i : N => i) (oldL := fun i : N => i + 1)
    as (e & d & Ee & Ed & H).
  - intros c Hc. cbn in Hc. destruct Hc as [<-|[<-|[<-|[<-|[]]]]]; cbn; lia.
  - exists e, d. split; [exact Ee|]. split; [exact Ed|].
    destruct (H (2, 3, 3)) as (v & nb & E1 & E2); [do 2 right; left; reflexivity|].
    assert (Ev : enc_lookup e 2 = Some (3, 3)).
    { clear - Ee. vm_compute in Ee. inversion Ee; subst e. vm_compute. reflexivity. }
    cbn [c_sym fst] in E1. rewrite Ev in E1. inversion E1; subst v nb.
    split; [exact Ev | apply (E2 12345)].
Qed.

Print Assumptions enc_dec_tables.
Print Assumptions enc_dec_stream.
Print Assumptions enc_dec_tables_ex.
