(* Correctness of the lookup tables of internal/prefix (model: Prefix/DecTable.v,
   specification: Prefix/DecTableSpec.v). *)
From Coq Require Import FMapPositive.
From V Require Import Base.Prelude Bzip2.Common Prefix.ReaderImpl Prefix.DecTable Prefix.DecTableSpec.

Local Open Scope N_scope.

(* The Prelude makes lia/nia expand every div and mod; the proofs below carry many such
   terms in their contexts, which makes that expansion explode. Here div/mod are handled
   by explicit lemmas. *)
Local Ltac Zify.zify_post_hook ::= idtac.

(* ------------------------------------------------------------------------------------------ *)
(* (1) arithmetic of chunks and masks                                                           *)
(* ------------------------------------------------------------------------------------------ *)
Lemma pow2_pos k : 0 < 2 ^ k.
Proof. apply N.neq_0_lt_0, N.pow_nonzero. lia. Qed.

Lemma pow2_le a b : a <= b -> 2 ^ a <= 2 ^ b.
Proof. intros H. apply N.pow_le_mono_r; lia. Qed.

Lemma pow2_lt a b : a < b -> 2 ^ a < 2 ^ b.
Proof. intros H. apply N.pow_lt_mono_r; lia. Qed.

Lemma pow2_split a b : a <= b -> 2 ^ b = 2 ^ a * 2 ^ (b - a).
Proof. intros H. rewrite <- N.pow_add_r. f_equal. lia. Qed.

Lemma mask_w32 k : k <= 32 -> w32 (2 ^ k - 1) = 2 ^ k - 1.
Proof.
  intros H. unfold w32. apply N.mod_small.
  pose proof (pow2_le k 32 H). pose proof (pow2_pos k). lia.
Qed.

Lemma land_mask x k : N.land x (2 ^ k - 1) = x mod 2 ^ k.
Proof. rewrite <- N.land_ones. f_equal. rewrite N.ones_equiv, N.pred_sub. reflexivity. Qed.

Lemma mod_mod_pow x a b : a <= b -> (x mod 2 ^ b) mod 2 ^ a = x mod 2 ^ a.
Proof.
  intros H. rewrite (pow2_split a b H).
  rewrite N.mod_mul_r by (apply N.pow_nonzero; lia).
  rewrite N.mul_comm, N.mod_add by (apply N.pow_nonzero; lia).
  apply N.mod_mod. apply N.pow_nonzero; lia.
Qed.

Lemma w32_mod x k : k <= 32 -> w32 x mod 2 ^ k = x mod 2 ^ k.
Proof. intros H. unfold w32. apply mod_mod_pow. exact H. Qed.

(* a<<5 | l  for l < 32 *)
Lemma lor_shl a l k : l < 2 ^ k -> N.lor (N.shiftl a k) l = a * 2 ^ k + l.
Proof.
  intros H. rewrite N.shiftl_mul_pow2.
  assert (Hz : N.land (a * 2 ^ k) l = 0).
  { apply N.bits_inj_iff. intros i. rewrite N.land_spec, N.bits_0.
    destruct (N.lt_ge_cases i k) as [Hi|Hi].
    - rewrite N.mul_pow2_bits_low by exact Hi. reflexivity.
    - replace (N.testbit l i) with false; [apply andb_false_r|].
      symmetry. destruct (N.eq_dec l 0) as [->|Hl]; [apply N.bits_0|].
      apply N.bits_above_log2. apply N.log2_lt_pow2; [lia|].
      eapply N.lt_le_trans; [exact H|]. apply pow2_le. exact Hi. }
  rewrite <- N.lxor_lor by exact Hz. symmetry. apply N.add_nocarry_lxor. exact Hz.
Qed.

Lemma w32_shl5 s : w32 (N.shiftl s 5) = N.shiftl (s mod 2 ^ 27) 5.
Proof.
  unfold w32. rewrite !N.shiftl_mul_pow2.
  change (2 ^ 32) with (2 ^ 27 * 2 ^ 5).
  rewrite N.mul_mod_distr_r by (compute; lia). reflexivity.
Qed.

Lemma mk_chunk_eq s l : l < 32 -> mk_chunk s l = (s mod 2 ^ 27) * 32 + l.
Proof.
  intros H. unfold mk_chunk, countBits. rewrite w32_shl5.
  rewrite lor_shl by (change (2 ^ 5) with 32; exact H). reflexivity.
Qed.

Lemma mk_chunk_len s l : l < 32 -> N.land (mk_chunk s l) countMask = l.
Proof.
  intros H. rewrite mk_chunk_eq by exact H. unfold countMask.
  change 31 with (2 ^ 5 - 1). rewrite land_mask. change (2 ^ 5) with 32.
  rewrite N.add_comm, N.mod_add by lia. apply N.mod_small. exact H.
Qed.

Lemma mk_chunk_sym s l : l < 32 -> N.shiftr (mk_chunk s l) countBits = s mod 2 ^ 27.
Proof.
  intros H. rewrite mk_chunk_eq by exact H. unfold countBits.
  rewrite N.shiftr_div_pow2. change (2 ^ 5) with 32.
  rewrite N.div_add_l by lia. rewrite N.div_small by exact H. lia.
Qed.

Lemma mk_chunk_pos s l : 1 <= l -> l < 32 -> 0 < mk_chunk s l.
Proof. intros H1 H2. rewrite mk_chunk_eq by exact H2. lia. Qed.

(* the link chunk  linkIdx<<5 | (chunkBits+1)  *)
Lemma link_chunk_eq k cb : k <= 512 -> cb < 31 ->
  N.lor (w32 (N.shiftl k countBits)) (cb + 1) = k * 32 + (cb + 1).
Proof.
  intros Hk Hcb. fold (mk_chunk k (cb + 1)). rewrite mk_chunk_eq by lia.
  rewrite N.mod_small; [reflexivity|]. change (2 ^ 27) with 134217728. lia.
Qed.

(* ------------------------------------------------------------------------------------------ *)
(* (2) maps, arrays, the strided fill                                                          *)
(* ------------------------------------------------------------------------------------------ *)
Lemma nm_gss {A} (m : nmap A) k v : nm_get (nm_set m k v) k = Some v.
Proof. unfold nm_get, nm_set. apply PositiveMap.gss. Qed.

Lemma nm_gso {A} (m : nmap A) k k' v : k <> k' -> nm_get (nm_set m k v) k' = nm_get m k'.
Proof.
  intros H. unfold nm_get, nm_set. apply PositiveMap.gso.
  intros E. apply H. apply (f_equal N.pos) in E. rewrite !N.succ_pos_spec in E. lia.
Qed.

Lemma nm_gempty {A} k : nm_get (@nm_empty A) k = None.
Proof. unfold nm_get, nm_empty. apply PositiveMap.gempty. Qed.

(* after t rounds of the fill loop, all of them inside the slice *)
Lemma fill_iter base n skip v j0 m t :
  (forall u, u < t -> j0 + u * skip < n) ->
  exists m',
    N.iter t (fill_step base n skip v) (j0, m) = (j0 + t * skip, m') /\
    (forall u, u < t -> nm_get m' (base + (j0 + u * skip)) = Some v) /\
    (forall k, (forall u, u < t -> k <> base + (j0 + u * skip)) -> nm_get m' k = nm_get m k).
Proof.
  induction t as [|t IH] using N.peano_ind; intros Hin.
  - exists m. cbn [N.iter]. split; [f_equal; lia|]. split; [intros u Hu; lia | reflexivity].
  - destruct IH as (m' & E & Hhit & Hmiss); [intros u Hu; apply Hin; lia|].
    rewrite N.iter_succ, E. unfold fill_step at 1.
    assert (Hlt : j0 + t * skip <? n = true) by (apply N.ltb_lt, Hin; lia).
    rewrite Hlt. eexists. split; [f_equal; lia|]. split.
    + intros u Hu. destruct (N.eq_dec u t) as [->|Hne].
      * apply nm_gss.
      * destruct (N.eq_dec (base + (j0 + t * skip)) (base + (j0 + u * skip))) as [E2|E2].
        { rewrite E2. apply nm_gss. }
        rewrite nm_gso by exact E2. apply Hhit. lia.
    + intros k Hk. rewrite nm_gso.
      * apply Hmiss. intros u Hu. apply Hk. lia.
      * intros E2. apply (Hk t); [lia | symmetry; exact E2].
Qed.

(* the case the tables use: stride 2^e dividing the slice length, start below the stride *)
Lemma fill_count_exact j0 q skip : 0 < skip -> j0 < skip ->
  fill_count j0 (q * skip) skip = q.
Proof.
  intros Hs Hj. unfold fill_count. destruct (j0 <? q * skip) eqn:E.
  - apply N.ltb_lt in E.
    assert (Hq : 1 <= q) by (destruct (N.eq_dec q 0) as [->|]; [lia | lia]).
    replace (q * skip - j0 + skip - 1) with ((skip - 1 - j0) + q * skip) by nia.
    rewrite N.div_add by lia. rewrite N.div_small by lia. lia.
  - apply N.ltb_ge in E. destruct (N.eq_dec q 0) as [->|Hq]; [reflexivity|]. nia.
Qed.

Definition arr_upd (a : arr) (hit : N -> bool) (v : N) (a' : arr) : Prop :=
  a_len a' = a_len a /\
  forall i, arr_get a' i = if (i <? a_len a) && hit i then Some v else arr_get a i.

Lemma fill_stride_spec a base q skip j0 v :
  0 < skip -> j0 < skip -> base + q * skip <= a_len a ->
  arr_upd a (fun i => (base <=? i) && (i <? base + q * skip) && ((i - base) mod skip =? j0)) v
          (fill_stride a base (q * skip) j0 skip v).
Proof.
  intros Hs Hj Hlen. unfold arr_upd, fill_stride. cbn [a_len]. split; [reflexivity|].
  rewrite fill_count_exact by assumption.
  destruct (fill_iter base (q * skip) skip v j0 (a_new a) q) as (m' & E & Hhit & Hmiss).
  { intros u Hu. nia. }
  rewrite E. cbn [snd]. intros i. unfold arr_get. cbn [a_len a_new a_old].
  destruct (i <? a_len a) eqn:Ei; [|reflexivity]. cbn [andb].
  destruct ((base <=? i) && (i <? base + q * skip) && ((i - base) mod skip =? j0)) eqn:Eh.
  - apply andb_true_iff in Eh as [Eh E3]. apply andb_true_iff in Eh as [E1 E2].
    apply N.leb_le in E1. apply N.ltb_lt in E2. apply N.eqb_eq in E3.
    pose proof (N.div_mod (i - base) skip ltac:(lia)) as Hdm. rewrite E3 in Hdm.
    set (u := (i - base) / skip) in *.
    assert (Hu : u < q) by nia.
    replace i with (base + (j0 + u * skip)) by lia.
    rewrite (Hhit u Hu). reflexivity.
  - rewrite Hmiss; [reflexivity|].
    intros u Hu ->. 
    assert (E1 : (base <=? base + (j0 + u * skip)) = true) by (apply N.leb_le; lia).
    assert (E2 : (base + (j0 + u * skip) <? base + q * skip) = true) by (apply N.ltb_lt; nia).
    assert (E3 : ((base + (j0 + u * skip) - base) mod skip =? j0) = true).
    { apply N.eqb_eq. replace (base + (j0 + u * skip) - base) with (j0 + u * skip) by lia.
      rewrite N.mod_add by lia. apply N.mod_small. exact Hj. }
    rewrite E1, E2, E3 in Eh. discriminate.
Qed.

(* ------------------------------------------------------------------------------------------ *)
(* (3) the second pass of Decoder.Init: what every table entry holds afterwards                 *)
(* ------------------------------------------------------------------------------------------ *)
Definition chunk_of (c : pcode) : N := mk_chunk (c_sym c) (c_len c).

(* the last element of a list that satisfies h (later fills overwrite earlier ones) *)
Fixpoint lastf (h : pcode -> bool) (cs : list pcode) : option pcode :=
  match cs with
  | [] => None
  | c :: r => match lastf h r with
              | Some c' => Some c'
              | None => if h c then Some c else None
              end
  end.

Lemma lastf_some h cs c : lastf h cs = Some c -> In c cs /\ h c = true.
Proof.
  induction cs as [|c0 r IH]; cbn [lastf]; [discriminate|].
  destruct (lastf h r) as [c'|].
  - intros E. inversion E; subst c'. destruct IH as [H1 H2]; [reflexivity|]. split; [right; exact H1 | exact H2].
  - destruct (h c0) eqn:Eh; [|discriminate]. intros E. inversion E; subst c0.
    split; [left; reflexivity | exact Eh].
Qed.

Lemma lastf_none h cs : lastf h cs = None -> forall c, In c cs -> h c = false.
Proof.
  induction cs as [|c0 r IH]; cbn [lastf]; intros E c Hin; [contradiction|].
  destruct (lastf h r) as [c'|]; [discriminate|].
  destruct (h c0) eqn:Eh; [discriminate|].
  destruct Hin as [<-|Hin]; [exact Eh | apply IH; [reflexivity | exact Hin]].
Qed.

(* code c fills chunk i / entry x of the flat link storage *)
Definition hitS (cb : N) (c : pcode) (i : N) : bool :=
  (c_len c <=? cb) && (i mod 2 ^ c_len c =? c_val c).

Definition hitL (cb linkLen : N) (idx : N -> N) (c : pcode) (x : N) : bool :=
  negb (c_len c <=? cb) &&
  let base := idx (c_val c mod 2 ^ cb) * linkLen in
  (base <=? x) && (x <? base + linkLen) && ((x - base) mod 2 ^ (c_len c - cb) =? c_val c / 2 ^ cb).

Lemma fill_fold cb M nlinks (idx : N -> N) (prot : N -> Prop) cs : forall ch fl,
  cb <= M -> cb < 31 ->
  a_len ch = 2 ^ cb -> a_len fl = nlinks * 2 ^ (M - cb) ->
  (forall c, In c cs -> c_len c <= M /\ c_val c < 2 ^ c_len c) ->
  (forall c, In c cs -> cb < c_len c -> prot (c_val c mod 2 ^ cb)) ->
  (forall p, prot p -> p < 2 ^ cb /\ idx p < nlinks /\ arr_get ch p = Some (idx p * 32 + (cb + 1))) ->
  (forall c p, In c cs -> c_len c <= cb -> prot p -> p mod 2 ^ c_len c <> c_val c) ->
  exists ch' fl',
    ofold (fill_code cb (2 ^ cb - 1) nlinks (2 ^ (M - cb))) cs (ch, fl) = Some (ch', fl') /\
    a_len ch' = 2 ^ cb /\ a_len fl' = a_len fl /\
    (forall i, i < 2 ^ cb ->
       arr_get ch' i = match lastf (fun c => hitS cb c i) cs with
                       | Some c => Some (chunk_of c) | None => arr_get ch i end) /\
    (forall x, x < a_len fl ->
       arr_get fl' x = match lastf (fun c => hitL cb (2 ^ (M - cb)) idx c x) cs with
                       | Some c => Some (chunk_of c) | None => arr_get fl x end).
Proof.
  induction cs as [|c r IH]; intros ch fl HcbM Hcb31 Hlc Hlf Hwf Hlong Hprot Hshort.
  - exists ch, fl. cbn [ofold lastf]. repeat split; auto.
  - cbn [ofold]. unfold fill_code at 1.
    destruct (Hwf c (or_introl eq_refl)) as [HlM Hv].
    destruct (c_len c <=? cb) eqn:El.
    + (* a short code: strided fill of chunks *)
      apply N.leb_le in El.
      set (skip := 2 ^ c_len c). set (q := 2 ^ (cb - c_len c)).
      assert (Hqs : 2 ^ cb = q * skip).
      { unfold q, skip. rewrite N.mul_comm. apply pow2_split. exact El. }
      assert (Hsp : 0 < skip) by apply pow2_pos.
      pose proof (fill_stride_spec ch 0 q skip (c_val c) (chunk_of c) Hsp Hv) as Hup.
      destruct Hup as [Hl1 Hg1]; [rewrite Hlc, Hqs; lia|].
      assert (Hfs : fill_stride ch 0 (a_len ch) (c_val c) skip (mk_chunk (c_sym c) (c_len c))
                    = fill_stride ch 0 (q * skip) (c_val c) skip (chunk_of c))
        by (rewrite Hlc, Hqs; reflexivity).
      rewrite Hfs. clear Hfs.
      set (ch1 := fill_stride ch 0 (q * skip) (c_val c) skip (chunk_of c)) in *.
      assert (Hg1' : forall i, i < 2 ^ cb ->
                arr_get ch1 i = if hitS cb c i then Some (chunk_of c) else arr_get ch i).
      { intros i Hi. rewrite Hg1. rewrite Hlc.
        replace (i <? 2 ^ cb) with true by (symmetry; apply N.ltb_lt; exact Hi).
        replace (0 <=? i) with true by (symmetry; apply N.leb_le; lia).
        replace (i <? 0 + q * skip) with true by (symmetry; apply N.ltb_lt; lia).
        rewrite N.sub_0_r. cbn [andb]. unfold hitS.
        replace (c_len c <=? cb) with true by (symmetry; apply N.leb_le; exact El).
        reflexivity. }
      destruct (IH ch1 fl HcbM Hcb31) as (ch' & fl' & E & L1 & L2 & G1 & G2).
      * rewrite Hl1. exact Hlc.
      * exact Hlf.
      * intros c0 H0. apply Hwf. right. exact H0.
      * intros c0 H0. apply Hlong. right. exact H0.
      * intros p Hp. destruct (Hprot p Hp) as (P1 & P2 & P3).
        split; [exact P1|]. split; [exact P2|].
        rewrite Hg1' by exact P1. unfold hitS.
        replace (c_len c <=? cb) with true by (symmetry; apply N.leb_le; exact El).
        cbn [andb]. destruct (p mod 2 ^ c_len c =? c_val c) eqn:Ep; [|exact P3].
        apply N.eqb_eq in Ep. exfalso. apply (Hshort c p (or_introl eq_refl) El Hp Ep).
      * intros c0 p H0. apply Hshort. right. exact H0.
      * exists ch', fl'. split; [exact E|]. split; [exact L1|]. split; [exact L2|]. split.
        -- intros i Hi. rewrite (G1 i Hi). cbn [lastf].
           destruct (lastf (fun c0 => hitS cb c0 i) r); [reflexivity|].
           rewrite Hg1' by exact Hi. destruct (hitS cb c i); reflexivity.
        -- intros x Hx. rewrite (G2 x Hx). cbn [lastf].
           destruct (lastf (fun c0 => hitL cb (2 ^ (M - cb)) idx c0 x) r); [reflexivity|].
           unfold hitL at 1.
           replace (c_len c <=? cb) with true by (symmetry; apply N.leb_le; exact El).
           reflexivity.
    + (* a long code: strided fill of its link table *)
      apply N.leb_gt in El.
      assert (Hp : prot (c_val c mod 2 ^ cb)) by (apply Hlong; [left; reflexivity | exact El]).
      destruct (Hprot _ Hp) as (P1 & P2 & P3).
      rewrite land_mask, P3.
      assert (Hsh : N.shiftr (idx (c_val c mod 2 ^ cb) * 32 + (cb + 1)) countBits
                    = idx (c_val c mod 2 ^ cb)).
      { unfold countBits. rewrite N.shiftr_div_pow2. change (2 ^ 5) with 32.
        rewrite N.div_add_l by lia. rewrite N.div_small by lia. lia. }
      rewrite Hsh.
      replace (idx (c_val c mod 2 ^ cb) <? nlinks) with true by (symmetry; apply N.ltb_lt; exact P2).
      set (k := idx (c_val c mod 2 ^ cb)) in *.
      set (skip := 2 ^ (c_len c - cb)). set (q := 2 ^ (M - c_len c)).
      assert (Hqs : 2 ^ (M - cb) = q * skip).
      { unfold q, skip. rewrite <- N.pow_add_r. f_equal. lia. }
      assert (Hsp : 0 < skip) by apply pow2_pos.
      assert (Hj0 : N.shiftr (c_val c) cb < skip).
      { rewrite N.shiftr_div_pow2. unfold skip.
        apply N.div_lt_upper_bound; [apply N.pow_nonzero; lia|].
        rewrite <- N.pow_add_r. replace (cb + (c_len c - cb)) with (c_len c) by lia. exact Hv. }
      pose proof (fill_stride_spec fl (k * (q * skip)) q skip (N.shiftr (c_val c) cb) (chunk_of c) Hsp Hj0) as Hup.
      destruct Hup as [Hl1 Hg1]; [rewrite Hlf, Hqs; nia|].
      assert (Hfs : fill_stride fl (k * 2 ^ (M - cb)) (2 ^ (M - cb)) (N.shiftr (c_val c) cb) skip
                                (mk_chunk (c_sym c) (c_len c))
                    = fill_stride fl (k * (q * skip)) (q * skip) (N.shiftr (c_val c) cb) skip (chunk_of c))
        by (rewrite Hqs; reflexivity).
      rewrite Hfs. clear Hfs.
      set (fl1 := fill_stride fl (k * (q * skip)) (q * skip) (N.shiftr (c_val c) cb) skip (chunk_of c)) in *.
      assert (Hg1' : forall x, x < a_len fl ->
                arr_get fl1 x = if hitL cb (2 ^ (M - cb)) idx c x then Some (chunk_of c) else arr_get fl x).
      { intros x Hx. rewrite Hg1.
        replace (x <? a_len fl) with true by (symmetry; apply N.ltb_lt; exact Hx).
        cbn [andb]. unfold hitL. fold k.
        replace (c_len c <=? cb) with false by (symmetry; apply N.leb_gt; exact El).
        cbn [negb andb]. rewrite Hqs. fold skip. rewrite N.shiftr_div_pow2. reflexivity. }
      destruct (IH ch fl1 HcbM Hcb31) as (ch' & fl' & E & L1 & L2 & G1 & G2).
      * exact Hlc.
      * rewrite Hl1. exact Hlf.
      * intros c0 H0. apply Hwf. right. exact H0.
      * intros c0 H0. apply Hlong. right. exact H0.
      * exact Hprot.
      * intros c0 p H0. apply Hshort. right. exact H0.
      * exists ch', fl'. split; [exact E|]. split; [exact L1|].
        split; [rewrite L2; exact Hl1|]. split.
        -- intros i Hi. rewrite (G1 i Hi). cbn [lastf].
           destruct (lastf (fun c0 => hitS cb c0 i) r); [reflexivity|].
           unfold hitS at 1.
           replace (c_len c <=? cb) with false by (symmetry; apply N.leb_gt; exact El).
           reflexivity.
        -- intros x Hx. rewrite (G2 x) by (rewrite Hl1; exact Hx). cbn [lastf].
           destruct (lastf (fun c0 => hitL cb (2 ^ (M - cb)) idx c0 x) r); [reflexivity|].
           rewrite Hg1' by exact Hx. destruct (hitL cb (2 ^ (M - cb)) idx c x); reflexivity.
Qed.

(* ------------------------------------------------------------------------------------------ *)
(* (4) the first pass: numbering the chunks that need a link table                              *)
(* ------------------------------------------------------------------------------------------ *)
Fixpoint index_of (p : N) (ps : list N) : option N :=
  match ps with
  | [] => None
  | x :: r => if x =? p then Some 0 else option_map N.succ (index_of p r)
  end.

Definition idxf (ps : list N) (p : N) : N :=
  match index_of p ps with Some k => k | None => 0 end.

Lemma index_of_none p ps : index_of p ps = None <-> ~ In p ps.
Proof.
  induction ps as [|x r IH]; cbn [index_of In]; [tauto|].
  destruct (x =? p) eqn:E.
  - apply N.eqb_eq in E. split; [discriminate | intros H; exfalso; apply H; left; exact E].
  - apply N.eqb_neq in E. destruct (index_of p r); cbn [option_map].
    + split; [discriminate|]. intros H. exfalso. apply H. right. apply Decidable.not_not.
      * unfold Decidable.decidable. destruct (in_dec N.eq_dec p r); tauto.
      * intros Hn. apply IH in Hn. discriminate.
    + split; [|reflexivity]. intros _ [H|H]; [exact (E H) | exact (proj1 IH eq_refl H)].
Qed.

Lemma index_of_some p ps k : index_of p ps = Some k ->
  k < N.of_nat (length ps) /\ In p ps.
Proof.
  revert k; induction ps as [|x r IH]; intros k; cbn [index_of length In]; [discriminate|].
  destruct (x =? p) eqn:E.
  - apply N.eqb_eq in E. intros H; inversion H; subst. split; [lia | left; reflexivity].
  - destruct (index_of p r) as [k'|]; cbn [option_map]; [|discriminate].
    intros H; inversion H; subst. destruct (IH k' eq_refl) as [H1 H2]. split; [lia | right; exact H2].
Qed.

Lemma index_of_inj p p' ps k : index_of p ps = Some k -> index_of p' ps = Some k -> p = p'.
Proof.
  revert k; induction ps as [|x r IH]; intros k; cbn [index_of]; [discriminate|].
  destruct (x =? p) eqn:E, (x =? p') eqn:E'.
  - apply N.eqb_eq in E, E'. congruence.
  - intros H; inversion H; subst. destruct (index_of p' r); cbn [option_map]; [|discriminate].
    intros H'; inversion H'. lia.
  - destruct (index_of p r); cbn [option_map]; [|discriminate].
    intros H H'; inversion H; inversion H'. lia.
  - destruct (index_of p r) as [a|], (index_of p' r) as [b|]; cbn [option_map]; try discriminate.
    intros H H'; inversion H; inversion H'. apply (IH a); [reflexivity|]. f_equal. lia.
Qed.

Lemma index_of_app p ps q :
  index_of p (ps ++ [q]) =
  match index_of p ps with
  | Some k => Some k
  | None => if q =? p then Some (N.of_nat (length ps)) else None
  end.
Proof.
  induction ps as [|x r IH]; cbn [index_of app length].
  - destruct (q =? p); reflexivity.
  - destruct (x =? p); [reflexivity|]. rewrite IH.
    destruct (index_of p r); cbn [option_map]; [reflexivity|].
    destruct (q =? p); cbn [option_map]; [f_equal; lia | reflexivity].
Qed.

Lemma nodup_bound (ps : list N) n : NoDup ps -> (forall p, In p ps -> p < n) ->
  N.of_nat (length ps) <= n.
Proof.
  intros Hnd Hb.
  assert (H : (length ps <= length (map N.of_nat (seq 0 (N.to_nat n))))%nat).
  { apply NoDup_incl_length; [exact Hnd|]. intros p Hp.
    apply in_map_iff. exists (N.to_nat p). split; [lia|]. apply in_seq. specialize (Hb p Hp). lia. }
  rewrite map_length, seq_length in H. lia.
Qed.

(* the prefixes that get a link table, in the order Init numbers them *)
Definition mark_pure (cb : N) (ps : list N) (c : pcode) : list N :=
  if cb <? c_len c then
    match index_of (c_val c mod 2 ^ cb) ps with Some _ => ps | None => ps ++ [c_val c mod 2 ^ cb] end
  else ps.
Definition marks (cb : N) (cs : list pcode) (ps : list N) : list N := fold_left (mark_pure cb) cs ps.

Record MI (cb : N) (ps : list N) (ch : arr) : Prop := mkMI {
  mi_nodup : NoDup ps;
  mi_lt : forall p, In p ps -> p < 2 ^ cb;
  mi_len : a_len ch = 2 ^ cb;
  mi_get : forall i, i < 2 ^ cb ->
     arr_get ch i = Some (match index_of i ps with Some k => k * 32 + (cb + 1) | None => 0 end)
}.

Lemma mark_fold cb cs : cb <= 9 -> forall ps ch, MI cb ps ch ->
  exists ch', ofold (mark_step cb (2 ^ cb - 1)) cs (ch, N.of_nat (length ps))
              = Some (ch', N.of_nat (length (marks cb cs ps))) /\
              MI cb (marks cb cs ps) ch'.
Proof.
  intros Hcb. induction cs as [|c r IH]; intros ps ch HI.
  - exists ch. cbn [ofold marks fold_left]. split; [reflexivity | exact HI].
  - change (marks cb (c :: r) ps) with (marks cb r (mark_pure cb ps c)).
    cbn [ofold]. unfold mark_step at 1, mark_pure.
    destruct (cb <? c_len c) eqn:El; [|apply IH; exact HI].
    rewrite land_mask. set (p := c_val c mod 2 ^ cb).
    assert (Hp : p < 2 ^ cb) by (apply N.mod_lt, N.pow_nonzero; lia).
    destruct HI as [I1 I2 I3 I4]. rewrite (I4 p Hp).
    destruct (index_of p ps) as [k|] eqn:Ei.
    + replace (k * 32 + (cb + 1) =? 0) with false by (symmetry; apply N.eqb_neq; lia).
      apply IH. split; assumption.
    + rewrite N.eqb_refl. unfold arr_set. rewrite I3.
      replace (p <? 2 ^ cb) with true by (symmetry; apply N.ltb_lt; exact Hp).
      apply index_of_none in Ei.
      assert (Hnd : NoDup (ps ++ [p])).
      { rewrite <- (rev_involutive (ps ++ [p])). apply NoDup_rev.
        rewrite rev_app_distr. cbn [rev app]. constructor.
        - intros Hin. apply Ei. apply in_rev. exact Hin.
        - apply NoDup_rev. exact I1. }
      assert (Hlt : forall x, In x (ps ++ [p]) -> x < 2 ^ cb).
      { intros x Hx. apply in_app_or in Hx. destruct Hx as [Hx|[<-|[]]]; [apply I2; exact Hx | exact Hp]. }
      pose proof (nodup_bound _ _ Hnd Hlt) as Hb. rewrite app_length in Hb. cbn [length] in Hb.
      pose proof (pow2_le cb 9 Hcb) as H512. change (2 ^ 9) with 512 in H512.
      assert (Hw : w32 (N.of_nat (length ps) + 1) = N.of_nat (length (ps ++ [p]))).
      { rewrite app_length. cbn [length]. unfold w32. rewrite N.mod_small; [lia|].
        change (2 ^ 32) with 4294967296. lia. }
      rewrite Hw. apply IH. split; try assumption.
      * cbn [a_len]. reflexivity.
      * intros i Hi. unfold arr_get. cbn [a_len a_new a_old].
        replace (i <? 2 ^ cb) with true by (symmetry; apply N.ltb_lt; exact Hi).
        rewrite index_of_app. destruct (N.eq_dec p i) as [<-|Hne].
        -- rewrite nm_gss. replace (index_of p ps) with (@None N) by (symmetry; apply index_of_none; exact Ei).
           rewrite N.eqb_refl. rewrite link_chunk_eq by lia. reflexivity.
        -- rewrite nm_gso by exact Hne.
           replace (p =? i) with false by (symmetry; apply N.eqb_neq; exact Hne).
           pose proof (I4 i Hi) as G. unfold arr_get in G. rewrite I3 in G.
           replace (i <? 2 ^ cb) with true in G by (symmetry; apply N.ltb_lt; exact Hi).
           destruct (index_of i ps); exact G.
Qed.

Lemma marks_incl cb cs : forall ps p, In p ps -> In p (marks cb cs ps).
Proof.
  induction cs as [|c r IH]; intros ps p H; cbn [marks fold_left]; [exact H|].
  apply IH. unfold mark_pure. destruct (cb <? c_len c); [|exact H].
  destruct (index_of (c_val c mod 2 ^ cb) ps); [exact H | apply in_or_app; left; exact H].
Qed.

Lemma marks_long cb cs : forall ps c, In c cs -> cb < c_len c -> In (c_val c mod 2 ^ cb) (marks cb cs ps).
Proof.
  induction cs as [|c0 r IH]; intros ps c H Hl; [contradiction|]. cbn [marks fold_left].
  destruct H as [->|H]; [|apply IH; assumption].
  apply marks_incl. unfold mark_pure.
  replace (cb <? c_len c) with true by (symmetry; apply N.ltb_lt; exact Hl).
  destruct (index_of (c_val c mod 2 ^ cb) ps) eqn:E.
  - apply index_of_some in E. tauto.
  - apply in_or_app. right. left. reflexivity.
Qed.

Lemma marks_inv cb cs : forall ps p, In p (marks cb cs ps) ->
  In p ps \/ exists c, In c cs /\ cb < c_len c /\ c_val c mod 2 ^ cb = p.
Proof.
  induction cs as [|c0 r IH]; intros ps p H; cbn [marks fold_left] in H; [left; exact H|].
  apply IH in H. destruct H as [H|(c & H1 & H2 & H3)].
  - unfold mark_pure in H. destruct (cb <? c_len c0) eqn:El; [|left; exact H].
    destruct (index_of (c_val c0 mod 2 ^ cb) ps); [left; exact H|].
    apply in_app_or in H. destruct H as [H|[<-|[]]]; [left; exact H|].
    right. exists c0. split; [left; reflexivity|]. split; [apply N.ltb_lt; exact El | reflexivity].
  - right. exists c. split; [right; exact H1 | tauto].
Qed.

(* ------------------------------------------------------------------------------------------ *)
(* (5) Decoder.Init on a valid code set                                                         *)
(* ------------------------------------------------------------------------------------------ *)
Lemma max_bits_acc cs : forall a,
  a <= fold_left (fun m c => if m <? c_len c then c_len c else m) cs a /\
  (forall c, In c cs -> c_len c <= fold_left (fun m c => if m <? c_len c then c_len c else m) cs a) /\
  (fold_left (fun m c => if m <? c_len c then c_len c else m) cs a = a \/
   exists c, In c cs /\ c_len c = fold_left (fun m c => if m <? c_len c then c_len c else m) cs a).
Proof.
  induction cs as [|c r IH]; intros a; cbn [fold_left].
  - split; [lia|]. split; [intros c []|]. left. reflexivity.
  - destruct (IH (if a <? c_len c then c_len c else a)) as (H1 & H2 & H3).
    destruct (a <? c_len c) eqn:E; [apply N.ltb_lt in E | apply N.ltb_ge in E].
    + split; [lia|]. split.
      * intros c0 [<-|H0]; [exact H1 | apply H2; exact H0].
      * right. destruct H3 as [H3|(c0 & H3 & H4)].
        -- exists c. split; [left; reflexivity | symmetry; exact H3].
        -- exists c0. split; [right; exact H3 | exact H4].
    + split; [lia|]. split.
      * intros c0 [<-|H0]; [lia | apply H2; exact H0].
      * destruct H3 as [H3|(c0 & H3 & H4)]; [left; exact H3|].
        right. exists c0. split; [right; exact H3 | exact H4].
Qed.

Lemma max_bits_ge codes c : In c codes -> c_len c <= max_bits codes.
Proof. intros H. exact (proj1 (proj2 (max_bits_acc codes 0)) c H). Qed.

Lemma max_bits_in codes : 0 < max_bits codes -> exists c, In c codes /\ c_len c = max_bits codes.
Proof.
  intros H. destruct (proj2 (proj2 (max_bits_acc codes 0))) as [E|E]; [|exact E].
  unfold max_bits in H. lia.
Qed.

Lemma min_bits_acc cs : forall a,
  fold_left (fun m c => if c_len c <? m then c_len c else m) cs a <= a /\
  (forall c, In c cs -> fold_left (fun m c => if c_len c <? m then c_len c else m) cs a <= c_len c).
Proof.
  induction cs as [|c r IH]; intros a; cbn [fold_left].
  - split; [lia | intros c []].
  - destruct (IH (if c_len c <? a then c_len c else a)) as (H1 & H2).
    destruct (c_len c <? a) eqn:E; [apply N.ltb_lt in E | apply N.ltb_ge in E].
    + split; [lia|]. intros c0 [<-|H0]; [exact H1 | apply H2; exact H0].
    + split; [lia|]. intros c0 [<-|H0]; [lia | apply H2; exact H0].
Qed.

Lemma min_bits_le codes c : In c codes -> min_bits codes <= c_len c.
Proof. intros H. exact (proj2 (min_bits_acc codes valueBits) c H). Qed.

Lemma min_bits_le27 codes : min_bits codes <= 27.
Proof. exact (proj1 (min_bits_acc codes valueBits)). Qed.

Lemma matches_self c : c_val c < 2 ^ c_len c -> matches c (c_val c).
Proof. intros H. unfold matches. apply N.mod_small. exact H. Qed.

Lemma matches_mod c b k : c_len c <= k -> (matches c (b mod 2 ^ k) <-> matches c b).
Proof. intros H. unfold matches. rewrite mod_mod_pow by exact H. tauto. Qed.

Lemma matches_low c b b' k : c_len c <= k -> b mod 2 ^ k = b' mod 2 ^ k -> matches c b -> matches c b'.
Proof.
  intros H E Hm. apply (matches_mod c b' k H). rewrite <- E. apply (matches_mod c b k H). exact Hm.
Qed.

Lemma fill_code_nolinks cb mask a b st c :
  fill_code cb mask 0 a st c = fill_code cb mask 0 b st c.
Proof.
  unfold fill_code. destruct st as [ch fl]. destruct (c_len c <=? cb); [reflexivity|].
  destruct (arr_get ch (N.land (c_val c) mask)); [|reflexivity].
  replace (N.shiftr n countBits <? 0) with false by (symmetry; apply N.ltb_ge; lia). reflexivity.
Qed.

Lemma ofold_ext {A B} (f g : A -> B -> option A) l : (forall a x, f a x = g a x) ->
  forall a, ofold f l a = ofold g l a.
Proof.
  intros H. induction l as [|x r IH]; intros a; cbn [ofold]; [reflexivity|].
  rewrite H. destruct (g a x); [apply IH | reflexivity].
Qed.

(* what the tables built for [codes] hold; [ps] is the list of chunk indices with a link table *)
Definition chunk_bits (codes : list pcode) : N :=
  if maxChunkBits <? max_bits codes then maxChunkBits else max_bits codes.

Definition link_prefixes (codes : list pcode) : list N := marks (chunk_bits codes) codes [].

Record tables_ok (codes : list pcode) (d : dec) : Prop := mkTO {
  to_cb : d_chunkBits d = chunk_bits codes;
  to_mask : d_chunkMask d = 2 ^ chunk_bits codes - 1;
  to_min : d_minBits d = min_bits codes;
  to_nsyms : d_numSyms d = w32 (N.of_nat (length codes));
  to_clen : a_len (d_chunks d) = 2 ^ chunk_bits codes;
  to_nlinks : d_nlinks d = N.of_nat (length (link_prefixes codes));
  to_linkLen : d_linkLen d = if chunk_bits codes <? max_bits codes
                             then 2 ^ (max_bits codes - chunk_bits codes) else 0;
  to_linkMask : d_linkMask d = if chunk_bits codes <? max_bits codes
                               then 2 ^ (max_bits codes - chunk_bits codes) - 1 else 0;
  to_flen : a_len (d_flat d) = d_nlinks d * d_linkLen d;
  (* a buffer value whose code is short finds it in the chunks table *)
  to_short : forall b c, In c codes -> matches c b -> c_len c <= chunk_bits codes ->
     arr_get (d_chunks d) (b mod 2 ^ chunk_bits codes) = Some (chunk_of c);
  (* one whose code is long finds the number of its link table there, and the code in it *)
  to_long : forall b c, In c codes -> matches c b -> chunk_bits codes < c_len c ->
     let p := b mod 2 ^ chunk_bits codes in
     let k := idxf (link_prefixes codes) p in
     In p (link_prefixes codes) /\ k < d_nlinks d /\
     arr_get (d_chunks d) p = Some (k * 32 + (chunk_bits codes + 1)) /\
     arr_get (d_flat d) (k * d_linkLen d + (b / 2 ^ chunk_bits codes) mod d_linkLen d)
       = Some (chunk_of c)
}.

Lemma dec_init_multi_eq oldC oldL codes : (2 <= length codes)%nat ->
  dec_init oldC oldL codes = dec_init_multi oldC oldL codes.
Proof.
  intros H. destruct codes as [|c1 [|c2 r]]; cbn [length] in H; try lia. reflexivity.
Qed.

Lemma nonempty_in {A} (l : list A) : (1 <= length l)%nat -> exists x, In x l.
Proof. destruct l as [|x r]; cbn [length]; [lia|]. intros _. exists x. left. reflexivity. Qed.

Lemma add_sub' a b : a + b - a = b.
Proof. lia. Qed.

Lemma pow2_nz k : 2 ^ k <> 0.
Proof. apply N.pow_nonzero. discriminate. Qed.

(* (p + 2^cb * j) mod 2^len, for p < 2^cb <= 2^len *)
Lemma split_mod p j cb len : p < 2 ^ cb -> cb <= len ->
  (p + 2 ^ cb * j) mod 2 ^ len = p + 2 ^ cb * (j mod 2 ^ (len - cb)).
Proof.
  intros Hp Hl. rewrite (pow2_split cb len Hl).
  rewrite N.mod_mul_r by apply pow2_nz.
  rewrite (N.mul_comm (2 ^ cb) j), N.mod_add by apply pow2_nz.
  rewrite N.div_add by apply pow2_nz.
  rewrite (N.mod_small p) by exact Hp. rewrite (N.div_small p) by exact Hp.
  rewrite N.add_0_l. reflexivity.
Qed.

Lemma val_split v cb : v = v mod 2 ^ cb + 2 ^ cb * (v / 2 ^ cb).
Proof. rewrite N.add_comm. apply N.div_mod. apply pow2_nz. Qed.

Lemma block_lt k li X j : k < li -> j < X -> k * X + j < X * li.
Proof.
  intros Hk Hj.
  assert (Hle : (k + 1) * X <= li * X) by (apply N.mul_le_mono_r; lia).
  rewrite N.mul_add_distr_r, N.mul_1_l in Hle. rewrite (N.mul_comm X li).
  generalize dependent (k * X). generalize dependent (li * X). intros. lia.
Qed.

Lemma idx_block a b X j : j < X -> a * X <= b * X + j -> b * X + j < a * X + X -> a = b.
Proof.
  intros Hj H1 H2. destruct (N.lt_trichotomy a b) as [Hlt|[E|Hgt]]; [|exact E|].
  - exfalso. assert (Hle : (a + 1) * X <= b * X) by (apply N.mul_le_mono_r; lia).
    rewrite N.mul_add_distr_r, N.mul_1_l in Hle.
    generalize dependent (a * X). generalize dependent (b * X). intros. lia.
  - exfalso. assert (Hle : (b + 1) * X <= a * X) by (apply N.mul_le_mono_r; lia).
    rewrite N.mul_add_distr_r, N.mul_1_l in Hle.
    generalize dependent (a * X). generalize dependent (b * X). intros. lia.
Qed.

Section ValidCodes.
Variable L : N.
Variable codes : list pcode.
Hypothesis HL : L <= 31.
Hypothesis HV : dec_valid L codes.

Let M := max_bits codes.
Let cb := chunk_bits codes.

Lemma v_len c : In c codes -> 1 <= c_len c <= L.
Proof. apply (wf_len _ _ (dv_wf _ _ HV)). Qed.
Lemma v_val c : In c codes -> c_val c < 2 ^ c_len c.
Proof. apply (wf_val _ _ (dv_wf _ _ HV)). Qed.

Lemma v_M : 1 <= M <= L.
Proof.
  pose proof (wf_two _ _ (dv_wf _ _ HV)) as H2.
  destruct (nonempty_in codes ltac:(lia)) as (c0 & H0).
  pose proof (v_len c0 H0). pose proof (max_bits_ge codes c0 H0).
  destruct (max_bits_in codes) as (c & Hc & Ec); [lia|].
  pose proof (v_len c Hc). unfold M. lia.
Qed.

Lemma v_cb : 1 <= cb <= 9 /\ cb <= M.
Proof.
  pose proof v_M. unfold cb, chunk_bits, maxChunkBits. fold M.
  destruct (9 <? M) eqn:E; [apply N.ltb_lt in E | apply N.ltb_ge in E]; lia.
Qed.

Lemma v_cb9 : cb < M -> cb = 9.
Proof.
  unfold cb, chunk_bits, maxChunkBits. fold M.
  destruct (9 <? M) eqn:E; [reflexivity | lia].
Qed.

Lemma v_lenM c : In c codes -> c_len c <= M.
Proof. apply max_bits_ge. Qed.

(* a short code never fills a chunk that carries a link table *)
Lemma v_short_avoids c p : In c codes -> c_len c <= cb -> In p (link_prefixes codes) ->
  p mod 2 ^ c_len c <> c_val c.
Proof.
  intros Hc Hs Hp E. unfold link_prefixes in Hp. fold cb in Hp.
  apply marks_inv in Hp. destruct Hp as [[]|(c' & Hc' & Hl' & Ep)].
  assert (H1 : matches c' (c_val c')) by (apply matches_self, v_val, Hc').
  assert (H2 : matches c (c_val c')).
  { unfold matches. rewrite <- (mod_mod_pow (c_val c') (c_len c) cb Hs). rewrite Ep. exact E. }
  pose proof (dv_unique _ _ HV (c_val c') c c' Hc Hc' H2 H1) as Heq. subst c'. lia.
Qed.

Theorem dec_init_tables oldC oldL :
  exists d, dec_init oldC oldL codes = IOk d /\ tables_ok codes d.
Proof.
  pose proof v_M as HM. pose proof v_cb as Hcb.
  rewrite dec_init_multi_eq by (apply (wf_two _ _ (dv_wf _ _ HV))).
  unfold dec_init_multi. fold M.
  replace (31 <? M) with false by (symmetry; apply N.ltb_ge; lia).
  change (if maxChunkBits <? M then maxChunkBits else M) with cb.
  rewrite (mask_w32 cb) by lia.
  assert (Hwf : forall c, In c codes -> c_len c <= M /\ c_val c < 2 ^ c_len c).
  { intros c Hc. split; [apply v_lenM, Hc | apply v_val, Hc]. }
  (* the chunk and link entries a given buffer value is looked up in *)
  destruct (cb <? M) eqn:Elink.
  - (* ---- with link tables ---- *)
    apply N.ltb_lt in Elink.
    pose proof (v_cb9 Elink) as Hcb9.
    assert (HI0 : MI cb [] (arr_zero (arr_alloc oldC (2 ^ cb)))).
    { split.
      - constructor.
      - intros p [].
      - reflexivity.
      - intros i Hi. unfold arr_get, arr_zero, arr_alloc. cbn [a_len a_new a_old index_of].
        replace (i <? 2 ^ cb) with true by (symmetry; apply N.ltb_lt; exact Hi).
        rewrite nm_gempty. reflexivity. }
    destruct (mark_fold cb codes ltac:(lia) [] _ HI0) as (ch1 & Em & HI1).
    cbn [length] in Em. change (N.of_nat 0) with 0 in Em. rewrite Em.
    set (ps := marks cb codes []) in *.
    destruct HI1 as [I1 I2 I3 I4].
    (* some code is long, so there is at least one link table *)
    destruct (max_bits_in codes ltac:(fold M; lia)) as (cM & HcM & EcM). fold M in EcM.
    assert (HpM : In (c_val cM mod 2 ^ cb) ps) by (apply marks_long; [exact HcM | lia]).
    assert (Hli : N.of_nat (length ps) <> 0) by (destruct ps; [destruct HpM | cbn [length]; lia]).
    replace (N.of_nat (length ps) =? 0) with false by (symmetry; apply N.eqb_neq; exact Hli).
    set (li := N.of_nat (length ps)) in *.
    destruct (fill_fold cb M li (idxf ps) (fun p => In p ps) codes ch1
                (arr_alloc oldL (2 ^ (M - cb) * li)))
      as (ch2 & fl2 & Ef & L1 & L2 & G1 & G2); try assumption; try lia.
    { unfold arr_alloc. cbn [a_len]. apply N.mul_comm. }
    { intros c Hc Hl. apply marks_long; assumption. }
    { intros p Hp. split; [apply I2; exact Hp|].
      unfold idxf. destruct (index_of p ps) as [k|] eqn:Ek.
      - split; [apply (index_of_some p ps k Ek)|].
        rewrite (I4 p (I2 p Hp)), Ek. reflexivity.
      - apply index_of_none in Ek. contradiction. }
    { intros c p Hc Hs Hp. apply v_short_avoids; assumption. }
    rewrite Ef. eexists. split; [reflexivity|].
    assert (Hshort : forall b c, In c codes -> matches c b -> c_len c <= cb ->
               arr_get ch2 (b mod 2 ^ cb) = Some (chunk_of c)).
    { intros b c Hc Hm Hs.
      assert (Hi : b mod 2 ^ cb < 2 ^ cb) by (apply N.mod_lt, pow2_nz).
      rewrite (G1 _ Hi).
      destruct (lastf (fun c0 => hitS cb c0 (b mod 2 ^ cb)) codes) as [c'|] eqn:El.
      - apply lastf_some in El. destruct El as [Hc' Hh]. unfold hitS in Hh.
        apply andb_true_iff in Hh as [Hs' Hm']. apply N.leb_le in Hs'. apply N.eqb_eq in Hm'.
        assert (Hmb : matches c' b) by (apply (matches_mod c' b cb Hs'); exact Hm').
        rewrite (dv_unique _ _ HV b c' c Hc' Hc Hmb Hm). reflexivity.
      - pose proof (lastf_none _ _ El c Hc) as Hn. unfold hitS in Hn.
        replace (c_len c <=? cb) with true in Hn by (symmetry; apply N.leb_le; exact Hs).
        cbn [andb] in Hn. apply N.eqb_neq in Hn. exfalso. apply Hn.
        apply (matches_mod c b cb Hs). exact Hm. }
    assert (Hlong : forall b c, In c codes -> matches c b -> cb < c_len c ->
               let p := b mod 2 ^ cb in let k := idxf ps p in
               In p ps /\ k < li /\ arr_get ch2 p = Some (k * 32 + (cb + 1)) /\
               arr_get fl2 (k * 2 ^ (M - cb) + (b / 2 ^ cb) mod 2 ^ (M - cb)) = Some (chunk_of c)).
    { intros b c Hc Hm Hl p k.
      assert (Hi : p < 2 ^ cb) by (apply N.mod_lt, pow2_nz).
      assert (Epv : c_val c mod 2 ^ cb = p).
      { unfold matches in Hm. rewrite <- Hm. apply mod_mod_pow. lia. }
      assert (Hp : In p ps) by (rewrite <- Epv; apply marks_long; assumption).
      assert (Hk : index_of p ps = Some k).
      { unfold k, idxf. destruct (index_of p ps) eqn:Ek; [reflexivity|].
        apply index_of_none in Ek. contradiction. }
      assert (Hkl : k < li) by apply (index_of_some p ps k Hk).
      split; [exact Hp|]. split; [exact Hkl|]. split.
      - rewrite (G1 p Hi).
        destruct (lastf (fun c0 => hitS cb c0 p) codes) as [c'|] eqn:El.
        + apply lastf_some in El. destruct El as [Hc' Hh]. unfold hitS in Hh.
          apply andb_true_iff in Hh as [Hs' Hm']. apply N.leb_le in Hs'. apply N.eqb_eq in Hm'.
          exfalso. exact (v_short_avoids c' p Hc' Hs' Hp Hm').
        + rewrite (I4 p Hi), Hk. reflexivity.
      - set (j := (b / 2 ^ cb) mod 2 ^ (M - cb)).
        assert (Hj : j < 2 ^ (M - cb)) by (apply N.mod_lt, pow2_nz).
        assert (Hx : k * 2 ^ (M - cb) + j < a_len (arr_alloc oldL (2 ^ (M - cb) * li))).
        { unfold arr_alloc. cbn [a_len]. apply block_lt; assumption. }
        rewrite (G2 _ Hx).
        (* b mod 2^M = p + 2^cb * j *)
        assert (EbM : b mod 2 ^ M = p + 2 ^ cb * j).
        { unfold p, j. rewrite (pow2_split cb M) by (apply N.lt_le_incl; exact Elink).
          apply N.mod_mul_r; apply pow2_nz. }
        assert (Hhit : forall c0, In c0 codes ->
                  hitL cb (2 ^ (M - cb)) (idxf ps) c0 (k * 2 ^ (M - cb) + j) = true -> matches c0 b).
        { intros c0 Hc0 Hh. unfold hitL in Hh.
          apply andb_true_iff in Hh as [Hl0 Hh]. apply negb_true_iff, N.leb_gt in Hl0.
          apply andb_true_iff in Hh as [Hh H3]. apply andb_true_iff in Hh as [H1 H2].
          apply N.leb_le in H1. apply N.ltb_lt in H2. apply N.eqb_eq in H3.
          set (p0 := c_val c0 mod 2 ^ cb) in *.
          assert (Hp0 : In p0 ps) by (apply marks_long; assumption).
          assert (Hk0 : index_of p0 ps = Some (idxf ps p0)).
          { unfold idxf. destruct (index_of p0 ps) eqn:Ek; [reflexivity|].
            apply index_of_none in Ek. contradiction. }
          assert (Ekk : idxf ps p0 = k) by (apply (idx_block _ _ (2 ^ (M - cb)) j); assumption).
          rewrite Ekk in *.
          assert (Epp : p0 = p) by (apply (index_of_inj p0 p ps k); assumption).
          rewrite add_sub' in H3.
          pose proof (v_lenM c0 Hc0) as HlM0.
          apply (matches_mod c0 b M HlM0). rewrite EbM. unfold matches.
          rewrite (split_mod p j cb (c_len c0) Hi (N.lt_le_incl _ _ Hl0)).
          rewrite H3, <- Epp. unfold p0. symmetry. apply val_split. }
        destruct (lastf (fun c0 => hitL cb (2 ^ (M - cb)) (idxf ps) c0 (k * 2 ^ (M - cb) + j)) codes)
          as [c'|] eqn:El.
        + apply lastf_some in El. destruct El as [Hc' Hh].
          rewrite (dv_unique _ _ HV b c' c Hc' Hc (Hhit c' Hc' Hh) Hm). reflexivity.
        + pose proof (lastf_none _ _ El c Hc) as Hn. exfalso.
          unfold hitL in Hn.
          replace (c_len c <=? cb) with false in Hn by (symmetry; apply N.leb_gt; exact Hl).
          cbn [negb andb] in Hn. rewrite Epv in Hn. fold k in Hn.
          replace (k * 2 ^ (M - cb) <=? k * 2 ^ (M - cb) + j) with true in Hn
            by (symmetry; apply N.leb_le, N.le_add_r).
          replace (k * 2 ^ (M - cb) + j <? k * 2 ^ (M - cb) + 2 ^ (M - cb)) with true in Hn
            by (symmetry; apply N.ltb_lt, N.add_lt_mono_l; exact Hj).
          cbn [andb] in Hn. apply N.eqb_neq in Hn. apply Hn.
          rewrite add_sub'.
          (* j mod 2^(len-cb) = val / 2^cb  from  b mod 2^len = val *)
          pose proof (v_lenM c Hc) as HlM0.
          unfold matches in Hm. rewrite <- Hm.
          rewrite <- (mod_mod_pow b (c_len c) M HlM0), EbM.
          rewrite (split_mod p j cb (c_len c) Hi (N.lt_le_incl _ _ Hl)).
          rewrite (N.mul_comm (2 ^ cb)), N.div_add by apply pow2_nz.
          rewrite (N.div_small p) by exact Hi. reflexivity. }
    assert (Eif : (chunk_bits codes <? max_bits codes) = true) by (apply N.ltb_lt; exact Elink).
    split; cbn [d_chunks d_flat d_nlinks d_linkLen d_chunkMask d_linkMask d_chunkBits d_minBits d_numSyms].
    + reflexivity.
    + reflexivity.
    + reflexivity.
    + reflexivity.
    + exact L1.
    + reflexivity.
    + rewrite Eif. reflexivity.
    + rewrite Eif. apply mask_w32.
      apply N.le_trans with M; [apply N.le_sub_l | apply N.le_trans with L; [apply HM | lia]].
    + rewrite L2. unfold arr_alloc. cbn [a_len]. apply N.mul_comm.
    + exact Hshort.
    + exact Hlong.
  - (* ---- chunks only ---- *)
    apply N.ltb_ge in Elink. assert (EcbM : cb = M) by lia.
    rewrite (ofold_ext _ (fill_code cb (2 ^ cb - 1) 0 (2 ^ (M - cb))) codes
               (fun a x => fill_code_nolinks cb (2 ^ cb - 1) 0 (2 ^ (M - cb)) a x)).
    destruct (fill_fold cb M 0 (fun _ => 0) (fun _ => False) codes (arr_alloc oldC (2 ^ cb)) empty_arr)
      as (ch2 & fl2 & Ef & L1 & L2 & G1 & G2); try assumption; try lia; try reflexivity.
    { intros c Hc Hl. pose proof (v_lenM c Hc). lia. }
    rewrite Ef. eexists. split; [reflexivity|].
    assert (Enp : link_prefixes codes = []).
    { unfold link_prefixes. fold cb. clear - EcbM. subst M.
      assert (H : forall c, In c codes -> c_len c <= cb) by (intros c Hc; rewrite EcbM; apply max_bits_ge, Hc).
      revert H. generalize codes as cs. induction cs as [|c r IH]; intros H; [reflexivity|].
      cbn [marks fold_left]. unfold mark_pure at 2.
      replace (cb <? c_len c) with false by (symmetry; apply N.ltb_ge, H; left; reflexivity).
      apply IH. intros c0 H0. apply H. right. exact H0. }
    assert (Eif : (chunk_bits codes <? max_bits codes) = false) by (apply N.ltb_ge; exact Elink).
    split; cbn [d_chunks d_flat d_nlinks d_linkLen d_chunkMask d_linkMask d_chunkBits d_minBits d_numSyms].
    + reflexivity.
    + reflexivity.
    + reflexivity.
    + reflexivity.
    + exact L1.
    + rewrite Enp. reflexivity.
    + rewrite Eif. reflexivity.
    + rewrite Eif. reflexivity.
    + rewrite L2. reflexivity.
    + intros b c Hc Hm Hs. fold cb in Hs |- *.
      assert (Hi : b mod 2 ^ cb < 2 ^ cb) by (apply N.mod_lt, pow2_nz).
      rewrite (G1 _ Hi).
      destruct (lastf (fun c0 => hitS cb c0 (b mod 2 ^ cb)) codes) as [c'|] eqn:El.
      * apply lastf_some in El. destruct El as [Hc' Hh]. unfold hitS in Hh.
        apply andb_true_iff in Hh as [Hs' Hm']. apply N.leb_le in Hs'. apply N.eqb_eq in Hm'.
        assert (Hmb : matches c' b) by (apply (matches_mod c' b cb Hs'); exact Hm').
        rewrite (dv_unique _ _ HV b c' c Hc' Hc Hmb Hm). reflexivity.
      * pose proof (lastf_none _ _ El c Hc) as Hn. unfold hitS in Hn.
        replace (c_len c <=? cb) with true in Hn by (symmetry; apply N.leb_le; exact Hs).
        cbn [andb] in Hn. apply N.eqb_neq in Hn. exfalso. apply Hn.
        apply (matches_mod c b cb Hs). exact Hm.
    + intros b c Hc Hm Hl. fold cb in Hl. pose proof (v_lenM c Hc) as HlM0. exfalso.
      rewrite EcbM in Hl. apply (N.lt_irrefl M). eapply N.lt_le_trans; [exact Hl | exact HlM0].
Qed.

End ValidCodes.

(* ------------------------------------------------------------------------------------------ *)
(* (6) THEOREM (a): the lookup returns exactly the code that matches the buffer                 *)
(* ------------------------------------------------------------------------------------------ *)
Lemma link_chunk_len k cb : cb + 1 < 32 -> N.land (k * 32 + (cb + 1)) countMask = cb + 1.
Proof.
  intros H. unfold countMask. change 31 with (2 ^ 5 - 1). rewrite land_mask. change (2 ^ 5) with 32.
  rewrite N.add_comm, N.mod_add by discriminate. apply N.mod_small. exact H.
Qed.

Lemma link_chunk_idx k cb : cb + 1 < 32 -> N.shiftr (k * 32 + (cb + 1)) countBits = k.
Proof.
  intros H. unfold countBits. rewrite N.shiftr_div_pow2. change (2 ^ 5) with 32.
  rewrite N.div_add_l by discriminate. rewrite N.div_small by exact H. apply N.add_0_r.
Qed.

Theorem lookup_of_tables L codes d : L <= 31 -> dec_valid L codes -> tables_ok codes d ->
  forall b c, In c codes -> matches c b ->
    dec_lookup d b = Some (c_sym c mod 2 ^ 27, c_len c).
Proof.
  intros HL HV HT b c Hc Hm.
  pose proof (v_M L codes HL HV) as HM. pose proof (v_cb L codes HL HV) as Hcb.
  pose proof (v_len L codes HV c Hc) as Hlen.
  destruct HT as [T1 T2 T3 T4 T5 T6 T7 T8 T9 TS TL].
  unfold dec_lookup. rewrite T2, land_mask, w32_mod by lia. rewrite T1.
  destruct (c_len c <=? chunk_bits codes) eqn:Es.
  - apply N.leb_le in Es. rewrite (TS b c Hc Hm Es). unfold chunk_of.
    rewrite mk_chunk_len by lia.
    replace (chunk_bits codes <? c_len c) with false by (symmetry; apply N.ltb_ge; exact Es).
    rewrite mk_chunk_sym by lia. reflexivity.
  - apply N.leb_gt in Es. destruct (TL b c Hc Hm Es) as (Hp & Hk & Hg1 & Hg2).
    rewrite Hg1, link_chunk_len, link_chunk_idx by lia.
    replace (chunk_bits codes <? chunk_bits codes + 1) with true by (symmetry; apply N.ltb_lt; lia).
    set (k := idxf (link_prefixes codes) (b mod 2 ^ chunk_bits codes)) in *.
    replace (k <? d_nlinks d) with true by (symmetry; apply N.ltb_lt; exact Hk).
    assert (Elink : chunk_bits codes < max_bits codes).
    { eapply N.lt_le_trans; [exact Es | apply max_bits_ge; exact Hc]. }
    assert (Eif : (chunk_bits codes <? max_bits codes) = true) by (apply N.ltb_lt; exact Elink).
    rewrite Eif in T7, T8. rewrite T7, T8 in *.
    rewrite land_mask, w32_mod, N.shiftr_div_pow2 by lia.
    set (j := (b / 2 ^ chunk_bits codes) mod 2 ^ (max_bits codes - chunk_bits codes)) in *.
    replace (j <? 2 ^ (max_bits codes - chunk_bits codes)) with true
      by (symmetry; apply N.ltb_lt, N.mod_lt, pow2_nz).
    rewrite Hg2. unfold chunk_of. rewrite mk_chunk_len, mk_chunk_sym by lia. reflexivity.
Qed.

(* (a), all in one: whatever the recycled arrays held, Init succeeds and the lookup of any
   buffer value returns the symbol (27 bits of it: the uint32 chunk has no room for more)
   and the length of the one code the buffer starts with *)
Theorem dec_table_correct L codes oldC oldL : L <= 31 -> dec_valid L codes ->
  exists d, dec_init oldC oldL codes = IOk d /\ tables_ok codes d /\
    forall b c, In c codes -> matches c b ->
      dec_lookup d b = Some (c_sym c mod 2 ^ 27, c_len c).
Proof.
  intros HL HV. destruct (dec_init_tables L codes HL HV oldC oldL) as (d & E & HT).
  exists d. split; [exact E|]. split; [exact HT|]. apply (lookup_of_tables L); assumption.
Qed.

Corollary dec_lookup_total L codes oldC oldL d b : L <= 31 -> dec_valid L codes ->
  dec_init oldC oldL codes = IOk d ->
  exists c, In c codes /\ matches c b /\ dec_lookup d b = Some (c_sym c mod 2 ^ 27, c_len c).
Proof.
  intros HL HV E. destruct (dec_table_correct L codes oldC oldL HL HV) as (d' & E' & _ & H).
  rewrite E in E'. inversion E'; subst d'.
  destruct (dv_complete _ _ HV b) as (c & Hc & Hm). exists c. split; [exact Hc|]. split; [exact Hm|].
  apply H; assumption.
Qed.

(* ------------------------------------------------------------------------------------------ *)
(* (7) every table entry is written by this Init: the tables do not depend on what the          *)
(*     recycled arrays held                                                                     *)
(* ------------------------------------------------------------------------------------------ *)
Lemma marks_nodup cb cs : forall ps, NoDup ps -> NoDup (marks cb cs ps).
Proof.
  induction cs as [|c r IH]; intros ps H; cbn [marks fold_left]; [exact H|].
  apply IH. unfold mark_pure. destruct (cb <? c_len c); [|exact H].
  destruct (index_of (c_val c mod 2 ^ cb) ps) eqn:E; [exact H|].
  apply index_of_none in E.
  rewrite <- (rev_involutive (ps ++ [_])). apply NoDup_rev.
  rewrite rev_app_distr. cbn [rev app]. constructor.
  - intros Hin. apply E. apply in_rev. exact Hin.
  - apply NoDup_rev. exact H.
Qed.

Lemma index_of_nth ps : NoDup ps -> forall k, (k < length ps)%nat ->
  index_of (nth k ps 0) ps = Some (N.of_nat k).
Proof.
  induction ps as [|x r IH]; intros Hnd k Hk; cbn [length] in Hk; [lia|].
  inversion Hnd as [|? ? Hx Hr]; subst. destruct k as [|k]; cbn [nth index_of].
  - rewrite N.eqb_refl. reflexivity.
  - destruct (x =? nth k r 0) eqn:E.
    + apply N.eqb_eq in E. exfalso. apply Hx. rewrite E. apply nth_In. lia.
    + rewrite IH by (try assumption; lia). cbn [option_map]. f_equal. lia.
Qed.

Section Coverage.
Variable L : N.
Variable codes : list pcode.
Hypothesis HL : L <= 31.
Hypothesis HV : dec_valid L codes.
Variable d : dec.
Hypothesis HT : tables_ok codes d.

Let cb := chunk_bits codes.
Let ps := link_prefixes codes.

(* every chunk is the chunk of a short code or the link chunk of a long one *)
Lemma chunk_covered i : i < 2 ^ cb ->
  exists c, In c codes /\ matches c i /\
    arr_get (d_chunks d) i =
    Some (if c_len c <=? cb then chunk_of c else idxf ps i * 32 + (cb + 1)).
Proof.
  intros Hi. destruct (dv_complete _ _ HV i) as (c & Hc & Hm).
  exists c. split; [exact Hc|]. split; [exact Hm|].
  destruct (c_len c <=? cb) eqn:Es.
  - apply N.leb_le in Es. rewrite <- (to_short _ _ HT i c Hc Hm Es).
    fold cb. rewrite N.mod_small by exact Hi. reflexivity.
  - apply N.leb_gt in Es. destruct (to_long _ _ HT i c Hc Hm Es) as (_ & _ & Hg & _).
    fold cb in Hg. rewrite N.mod_small in Hg by exact Hi. exact Hg.
Qed.

(* every entry of the link storage is the chunk of a long code *)
Lemma flat_covered x : x < a_len (d_flat d) ->
  exists b c, In c codes /\ matches c b /\ cb < c_len c /\
    x = idxf ps (b mod 2 ^ cb) * d_linkLen d + (b / 2 ^ cb) mod d_linkLen d /\
    arr_get (d_flat d) x = Some (chunk_of c).
Proof.
  intros Hx. pose proof (v_cb L codes HL HV) as Hcb. fold cb in Hcb.
  rewrite (to_flen _ _ HT), (to_nlinks _ _ HT) in Hx. fold ps in Hx.
  pose proof (to_linkLen _ _ HT) as ELL. fold cb in ELL.
  destruct (cb <? max_bits codes) eqn:Elink; [|rewrite ELL, N.mul_0_r in Hx; lia].
  apply N.ltb_lt in Elink. set (X := 2 ^ (max_bits codes - cb)) in *.
  assert (HX : X <> 0) by apply pow2_nz.
  set (k := x / X). set (j := x mod X).
  assert (Hj : j < X) by (apply N.mod_lt; exact HX).
  assert (Hk : k < N.of_nat (length ps)).
  { apply N.div_lt_upper_bound; [exact HX|]. rewrite ELL in Hx. rewrite N.mul_comm. exact Hx. }
  assert (Exkj : x = k * X + j) by (unfold k, j; rewrite N.mul_comm; apply N.div_mod; exact HX).
  assert (Hnd : NoDup ps) by (apply marks_nodup; constructor).
  set (p := nth (N.to_nat k) ps 0).
  assert (Hpin : In p ps) by (apply nth_In; lia).
  assert (Hidx : idxf ps p = k).
  { unfold idxf, p. rewrite index_of_nth by (try assumption; lia). lia. }
  assert (Hp : p < 2 ^ cb).
  { unfold ps, link_prefixes in Hpin. fold cb in Hpin. apply marks_inv in Hpin.
    destruct Hpin as [[]|(c' & _ & _ & <-)]. apply N.mod_lt, pow2_nz. }
  set (b := p + 2 ^ cb * j).
  assert (Eb1 : b mod 2 ^ cb = p).
  { unfold b. rewrite N.mul_comm, N.mod_add by apply pow2_nz. apply N.mod_small. exact Hp. }
  assert (Eb2 : (b / 2 ^ cb) mod X = j).
  { unfold b. rewrite N.mul_comm, N.div_add by apply pow2_nz.
    rewrite N.div_small by exact Hp. rewrite N.add_0_l. apply N.mod_small. exact Hj. }
  destruct (dv_complete _ _ HV b) as (c & Hc & Hm).
  assert (Hl : cb < c_len c).
  { destruct (N.le_gt_cases (c_len c) cb) as [Hs|Hl]; [exfalso | exact Hl].
    apply (v_short_avoids L codes HL HV c p Hc Hs Hpin).
    rewrite <- Eb1. rewrite mod_mod_pow by exact Hs. exact Hm. }
  exists b, c. split; [exact Hc|]. split; [exact Hm|]. split; [exact Hl|].
  destruct (to_long _ _ HT b c Hc Hm Hl) as (_ & _ & _ & Hg). fold cb ps in Hg.
  rewrite ELL in *. rewrite Eb1, Hidx, Eb2 in *. rewrite <- Exkj in Hg. split; [exact Exkj | exact Hg].
Qed.

End Coverage.

(* the scalar fields and every entry are the same for any two prior contents *)
Theorem dec_init_independent L codes oldC oldL oldC' oldL' : L <= 31 -> dec_valid L codes ->
  exists d d',
    dec_init oldC oldL codes = IOk d /\ dec_init oldC' oldL' codes = IOk d' /\
    d_chunkMask d = d_chunkMask d' /\ d_linkMask d = d_linkMask d' /\
    d_chunkBits d = d_chunkBits d' /\ d_minBits d = d_minBits d' /\ d_numSyms d = d_numSyms d' /\
    d_nlinks d = d_nlinks d' /\ d_linkLen d = d_linkLen d' /\
    (forall i, arr_get (d_chunks d) i = arr_get (d_chunks d') i) /\
    (forall x, arr_get (d_flat d) x = arr_get (d_flat d') x).
Proof.
  intros HL HV.
  destruct (dec_init_tables L codes HL HV oldC oldL) as (d & E & HT).
  destruct (dec_init_tables L codes HL HV oldC' oldL') as (d' & E' & HT').
  exists d, d'. split; [exact E|]. split; [exact E'|].
  pose proof HT as [T1 T2 T3 T4 T5 T6 T7 T8 T9 _ _].
  pose proof HT' as [U1 U2 U3 U4 U5 U6 U7 U8 U9 _ _].
  repeat split; try congruence.
  - intros i. destruct (N.lt_ge_cases i (2 ^ chunk_bits codes)) as [Hi|Hi].
    + destruct (dv_complete _ _ HV i) as (c & Hc & Hm).
      destruct (c_len c <=? chunk_bits codes) eqn:Es.
      * apply N.leb_le in Es.
        pose proof (to_short _ _ HT i c Hc Hm Es) as G.
        pose proof (to_short _ _ HT' i c Hc Hm Es) as G'.
        rewrite N.mod_small in G, G' by exact Hi. congruence.
      * apply N.leb_gt in Es.
        destruct (to_long _ _ HT i c Hc Hm Es) as (_ & _ & G & _).
        destruct (to_long _ _ HT' i c Hc Hm Es) as (_ & _ & G' & _).
        rewrite N.mod_small in G, G' by exact Hi. congruence.
    + unfold arr_get. rewrite T5, U5.
      replace (i <? 2 ^ chunk_bits codes) with false by (symmetry; apply N.ltb_ge; exact Hi).
      reflexivity.
  - intros x. assert (Elen : a_len (d_flat d) = a_len (d_flat d')) by congruence.
    destruct (N.lt_ge_cases x (a_len (d_flat d))) as [Hx|Hx].
    + destruct (flat_covered L codes HL HV d HT x Hx) as (b & c & Hc & Hm & Hl & Ex & G).
      destruct (to_long _ _ HT' b c Hc Hm Hl) as (_ & _ & _ & G').
      rewrite G. rewrite Ex. rewrite T7, <- U7. symmetry. exact G'.
    + unfold arr_get. rewrite <- Elen.
      replace (x <? a_len (d_flat d)) with false by (symmetry; apply N.ltb_ge; exact Hx).
      reflexivity.
Qed.

(* ------------------------------------------------------------------------------------------ *)
(* (8) Kraft sum = 1 and prefix-freeness (what checkLengths / checkPrefixes test) give          *)
(*     completeness and uniqueness: a counting argument over the 2^L buffer values             *)
(* ------------------------------------------------------------------------------------------ *)
Definition nsum (f : N -> N) (n : N) : N := N.peano_rect (fun _ => N) 0 (fun x acc => acc + f x) n.

Lemma nsum_0 f : nsum f 0 = 0.
Proof. reflexivity. Qed.
Lemma nsum_succ f n : nsum f (N.succ n) = nsum f n + f n.
Proof. unfold nsum. rewrite N.peano_rect_succ. reflexivity. Qed.

Lemma nsum_ext f g n : (forall x, x < n -> f x = g x) -> nsum f n = nsum g n.
Proof.
  induction n as [|n IH] using N.peano_ind; intros H; [reflexivity|].
  rewrite !nsum_succ, IH, H by (try lia; intros x Hx; apply H; lia). reflexivity.
Qed.

Lemma nsum_add f g n : nsum (fun x => f x + g x) n = nsum f n + nsum g n.
Proof.
  induction n as [|n IH] using N.peano_ind; [reflexivity|]. rewrite !nsum_succ, IH. lia.
Qed.

Lemma nsum_shift f a m : nsum f (a + m) = nsum f a + nsum (fun x => f (a + x)) m.
Proof.
  induction m as [|m IH] using N.peano_ind; [rewrite N.add_0_r, nsum_0; lia|].
  rewrite N.add_succ_r, !nsum_succ, IH. lia.
Qed.

Lemma nsum_const0 n : nsum (fun _ => 0) n = 0.
Proof. induction n as [|n IH] using N.peano_ind; [reflexivity|]. rewrite nsum_succ, IH. reflexivity. Qed.

Lemma nsum_eqb v n : nsum (fun x => N.b2n (x =? v)) n = N.b2n (v <? n).
Proof.
  induction n as [|n IH] using N.peano_ind.
  - rewrite nsum_0. destruct (v <? 0) eqn:E; [apply N.ltb_lt in E; lia | reflexivity].
  - rewrite nsum_succ, IH.
    destruct (N.lt_trichotomy v n) as [H|[H|H]].
    + replace (v <? n) with true by (symmetry; apply N.ltb_lt; lia).
      replace (n =? v) with false by (symmetry; apply N.eqb_neq; lia).
      replace (v <? N.succ n) with true by (symmetry; apply N.ltb_lt; lia). reflexivity.
    + subst v. replace (n <? n) with false by (symmetry; apply N.ltb_ge; lia).
      rewrite N.eqb_refl. replace (n <? N.succ n) with true by (symmetry; apply N.ltb_lt; lia). reflexivity.
    + replace (v <? n) with false by (symmetry; apply N.ltb_ge; lia).
      replace (n =? v) with false by (symmetry; apply N.eqb_neq; lia).
      replace (v <? N.succ n) with false by (symmetry; apply N.ltb_ge; lia). reflexivity.
Qed.

(* among q * 2^l consecutive values, q have the low l bits equal to v *)
Lemma nsum_mod l v q : v < 2 ^ l ->
  nsum (fun x => N.b2n (x mod 2 ^ l =? v)) (q * 2 ^ l) = q.
Proof.
  intros Hv. induction q as [|q IH] using N.peano_ind; [reflexivity|].
  replace (N.succ q * 2 ^ l) with (q * 2 ^ l + 2 ^ l) by lia.
  rewrite nsum_shift, IH.
  rewrite (nsum_ext _ (fun x => N.b2n (x =? v))).
  - rewrite nsum_eqb. replace (v <? 2 ^ l) with true by (symmetry; apply N.ltb_lt; exact Hv).
    cbn [N.b2n]. lia.
  - intros x Hx. rewrite N.add_comm, N.mod_add by apply pow2_nz.
    rewrite N.mod_small by exact Hx. reflexivity.
Qed.

Lemma nsum_full f n : (forall x, x < n -> f x <= 1) -> nsum f n = n -> forall x, x < n -> f x = 1.
Proof.
  induction n as [|n IH] using N.peano_ind; intros Hle Hs x Hx; [lia|].
  assert (Hb : forall m, m <= N.succ n -> nsum f m <= m).
  { induction m as [|m IHm] using N.peano_ind; intros Hm; [rewrite nsum_0; lia|].
    rewrite nsum_succ. specialize (IHm ltac:(lia)). specialize (Hle m ltac:(lia)). lia. }
  rewrite nsum_succ in Hs. pose proof (Hb n ltac:(lia)). pose proof (Hle n ltac:(lia)).
  destruct (N.eq_dec x n) as [->|Hne]; [lia|].
  apply IH; [intros y Hy; apply Hle; lia | lia | lia].
Qed.

(* number of codes that match x *)
Definition nmatch (codes : list pcode) (x : N) : N :=
  fold_right (fun c acc => N.b2n (matchb c x) + acc) 0 codes.

Lemma nmatch_sum L codes : (forall c, In c codes -> c_len c <= L /\ c_val c < 2 ^ c_len c) ->
  nsum (nmatch codes) (2 ^ L) = kraft_sum L codes.
Proof.
  induction codes as [|c r IH]; intros H; cbn [nmatch kraft_sum fold_right].
  - apply nsum_const0.
  - rewrite (nsum_ext _ (fun x => N.b2n (matchb c x) + nmatch r x)) by (intros; reflexivity).
    rewrite (nsum_add (fun x => N.b2n (matchb c x)) (nmatch r)).
    rewrite IH by (intros c0 H0; apply H; right; exact H0). f_equal.
    destruct (H c (or_introl eq_refl)) as [Hl Hv].
    rewrite (pow2_split (c_len c) L Hl), N.mul_comm. unfold matchb. apply nsum_mod. exact Hv.
Qed.

Definition incompat (c1 c2 : pcode) : Prop := forall b, ~ (matches c1 b /\ matches c2 b).

Lemma prefix_free_tail c r : prefix_free (c :: r) -> prefix_free r.
Proof.
  intros H i j ci cj Hi Hj Hne. apply (H (S i) (S j)); cbn [nth_error]; try assumption. lia.
Qed.

Lemma prefix_free_head c r : prefix_free (c :: r) -> Forall (incompat c) r.
Proof.
  intros H. apply Forall_forall. intros c' Hin b [H1 H2].
  apply In_nth_error in Hin. destruct Hin as [j Hj].
  unfold matches in H1, H2.
  destruct (N.le_ge_cases (c_len c) (c_len c')) as [Hle|Hle].
  - apply (H (S j) O c' c); cbn [nth_error]; try assumption; try reflexivity; try discriminate.
    rewrite <- H2, mod_mod_pow by exact Hle. exact H1.
  - apply (H O (S j) c c'); cbn [nth_error]; try assumption; try reflexivity; try discriminate.
    rewrite <- H1, mod_mod_pow by exact Hle. exact H2.
Qed.

Lemma nmatch_le1 codes : prefix_free codes -> forall x, nmatch codes x <= 1.
Proof.
  induction codes as [|c r IH]; intros Hpf x; cbn [nmatch fold_right]; [lia|].
  fold (nmatch r x). specialize (IH (prefix_free_tail _ _ Hpf) x).
  destruct (matchb c x) eqn:E; cbn [N.b2n]; [|lia].
  apply matchb_spec in E.
  assert (Hz : nmatch r x = 0).
  { pose proof (prefix_free_head _ _ Hpf) as Hf. clear - Hf E.
    induction r as [|c' r IH]; [reflexivity|]. cbn [nmatch fold_right]. fold (nmatch r x).
    inversion Hf as [|? ? Hc' Hr]; subst. rewrite IH by exact Hr.
    destruct (matchb c' x) eqn:E'; [|reflexivity].
    apply matchb_spec in E'. exfalso. apply (Hc' x). split; assumption. }
  lia.
Qed.

Lemma nmatch_pos codes x : 0 < nmatch codes x -> exists c, In c codes /\ matches c x.
Proof.
  induction codes as [|c r IH]; cbn [nmatch fold_right]; [lia|]. fold (nmatch r x).
  destruct (matchb c x) eqn:E.
  - intros _. exists c. split; [left; reflexivity | apply matchb_spec; exact E].
  - cbn [N.b2n]. intros H. destruct IH as (c' & H1 & H2); [lia|]. exists c'. split; [right; exact H1 | exact H2].
Qed.

Theorem kraft_valid_dec_valid L codes : kraft_valid L codes -> dec_valid L codes.
Proof.
  intros [Hwf Hk Hpf]. split; [exact Hwf| |].
  - (* complete *)
    intros b.
    assert (Hb : forall c, In c codes -> c_len c <= L /\ c_val c < 2 ^ c_len c).
    { intros c Hc. split; [apply (wf_len _ _ Hwf c Hc) | apply (wf_val _ _ Hwf c Hc)]. }
    pose proof (nmatch_sum L codes Hb) as Hs. rewrite Hk in Hs.
    pose proof (nsum_full (nmatch codes) (2 ^ L) (fun x _ => nmatch_le1 codes Hpf x) Hs (b mod 2 ^ L)
                          ltac:(apply N.mod_lt, pow2_nz)) as H1.
    destruct (nmatch_pos codes (b mod 2 ^ L)) as (c & Hc & Hm); [lia|].
    exists c. split; [exact Hc|]. apply (matches_mod c b L); [apply (Hb c Hc) | exact Hm].
  - (* unique *)
    intros b c1 c2 H1 H2 M1 M2.
    apply In_nth_error in H1. destruct H1 as [i Hi]. apply In_nth_error in H2. destruct H2 as [j Hj].
    destruct (Nat.eq_dec i j) as [->|Hne]; [congruence|]. exfalso.
    unfold matches in M1, M2.
    destruct (N.le_ge_cases (c_len c1) (c_len c2)) as [Hle|Hle].
    + apply (Hpf j i c2 c1 Hj Hi ltac:(lia) Hle). rewrite <- M2, mod_mod_pow by exact Hle. exact M1.
    + apply (Hpf i j c1 c2 Hi Hj Hne Hle). rewrite <- M1, mod_mod_pow by exact Hle. exact M2.
Qed.

(* a decidable test for prefix-freeness, for concrete examples *)
Definition overlap (c c' : pcode) : bool :=
  ((c_len c <=? c_len c') && (c_val c' mod 2 ^ c_len c =? c_val c)) ||
  ((c_len c' <=? c_len c) && (c_val c mod 2 ^ c_len c' =? c_val c')).

Fixpoint pf_check (codes : list pcode) : bool :=
  match codes with
  | [] => true
  | c :: r => forallb (fun c' => negb (overlap c c')) r && pf_check r
  end.

Lemma pf_check_sound codes : pf_check codes = true -> prefix_free codes.
Proof.
  induction codes as [|c r IH]; intros H i j ci cj Hi Hj Hne Hle E.
  - destruct i; discriminate.
  - cbn [pf_check] in H. apply andb_true_iff in H as [H1 H2].
    rewrite forallb_forall in H1.
    destruct i as [|i], j as [|j]; cbn [nth_error] in Hi, Hj.
    + apply Hne. reflexivity.
    + inversion Hi; subst ci. apply nth_error_In in Hj. specialize (H1 cj Hj).
      apply negb_true_iff in H1. unfold overlap in H1. apply orb_false_iff in H1 as [_ H1].
      replace (c_len cj <=? c_len c) with true in H1 by (symmetry; apply N.leb_le; exact Hle).
      cbn [andb] in H1. apply N.eqb_neq in H1. exact (H1 E).
    + inversion Hj; subst cj. apply nth_error_In in Hi. specialize (H1 ci Hi).
      apply negb_true_iff in H1. unfold overlap in H1. apply orb_false_iff in H1 as [H1 _].
      replace (c_len c <=? c_len ci) with true in H1 by (symmetry; apply N.leb_le; exact Hle).
      cbn [andb] in H1. apply N.eqb_neq in H1. exact (H1 E).
    + apply (IH H2 i j ci cj Hi Hj); [intros ->; apply Hne; reflexivity | exact Hle | exact E].
Qed.

Definition wf_check (L : N) (codes : list pcode) : bool :=
  (2 <=? N.of_nat (length codes)) &&
  forallb (fun c => (1 <=? c_len c) && (c_len c <=? L) && (c_val c <? 2 ^ c_len c)) codes.

Lemma wf_check_sound L codes : wf_check L codes = true -> wf_codes L codes.
Proof.
  intros H. apply andb_true_iff in H as [H1 H2]. apply N.leb_le in H1.
  rewrite forallb_forall in H2. split.
  - lia.
  - intros c Hc. specialize (H2 c Hc). apply andb_true_iff in H2 as [H2 _].
    apply andb_true_iff in H2 as [Ha Hb]. apply N.leb_le in Ha, Hb. lia.
  - intros c Hc. specialize (H2 c Hc). apply andb_true_iff in H2 as [_ H2]. apply N.ltb_lt. exact H2.
Qed.

Definition kraft_check (L : N) (codes : list pcode) : bool :=
  wf_check L codes && (kraft_sum L codes =? 2 ^ L) && pf_check codes.

Lemma kraft_check_sound L codes : kraft_check L codes = true -> dec_valid L codes.
Proof.
  intros H. apply andb_true_iff in H as [H H3]. apply andb_true_iff in H as [H1 H2].
  apply kraft_valid_dec_valid. split.
  - apply wf_check_sound; exact H1.
  - apply N.eqb_eq; exact H2.
  - apply pf_check_sound; exact H3.
Qed.

(* ------------------------------------------------------------------------------------------ *)
(* (9) THEOREM (b): zero extension                                                              *)
(* ------------------------------------------------------------------------------------------ *)
(* Only k bits of the buffer are real (they agree with the stream value r), the next code word
   is longer than k: whatever the higher bits of the buffer are (zeros or look-ahead), the
   walk asks for MORE than k bits, and so never consumes on insufficient data. *)
Theorem lookup_asks_for_more L codes d : L <= 31 -> dec_valid L codes -> tables_ok codes d ->
  forall r c b k, In c codes -> matches c r -> k < c_len c -> b mod 2 ^ k = r mod 2 ^ k ->
  exists c', In c' codes /\ matches c' b /\
    dec_lookup d b = Some (c_sym c' mod 2 ^ 27, c_len c') /\
    (k < c_len c' /\ c_len c' <= max_bits codes).
Proof.
  intros HL HV HT r c b k Hc Hm Hk Eb.
  destruct (dv_complete _ _ HV b) as (c' & Hc' & Hm').
  exists c'. split; [exact Hc'|]. split; [exact Hm'|].
  split; [apply (lookup_of_tables L codes d HL HV HT); assumption|].
  split; [|apply max_bits_ge; exact Hc'].
  destruct (N.lt_ge_cases k (c_len c')) as [Hlt|Hge]; [exact Hlt | exfalso].
  assert (Hmr : matches c' r) by (apply (matches_low c' b r k Hge Eb); exact Hm').
  pose proof (dv_unique _ _ HV r c' c Hc' Hc Hmr Hm) as ->. lia.
Qed.

(* If moreover the missing bits read as ZERO (a ByteReader source, or the end of the data) and
   the code set is zero-minimal, the request never exceeds the length of the next code word:
   a ByteReader is never asked for a byte beyond the one holding the last bit of the code. *)
Theorem lookup_zero_ext_le L codes d : L <= 31 -> dec_valid L codes -> tables_ok codes d ->
  zero_min codes ->
  forall r c k, In c codes -> matches c r -> k < c_len c ->
  exists c', In c' codes /\
    dec_lookup d (r mod 2 ^ k) = Some (c_sym c' mod 2 ^ 27, c_len c') /\
    (k < c_len c' /\ c_len c' <= c_len c).
Proof.
  intros HL HV HT HZ r c k Hc Hm Hk.
  destruct (lookup_asks_for_more L codes d HL HV HT r c (r mod 2 ^ k) k Hc Hm Hk)
    as (c' & Hc' & Hm' & El & Hlt & _).
  { apply N.mod_mod, pow2_nz. }
  exists c'. split; [exact Hc'|]. split; [exact El|]. split; [exact Hlt|].
  apply (HZ c k c' Hc Hc' Hk).
  unfold matches in Hm. rewrite <- Hm. rewrite mod_mod_pow by lia. exact Hm'.
Qed.

(* MinBits, the first request of ReadSymbol, is at most the length of every code *)
Lemma min_bits_request codes d c : tables_ok codes d -> In c codes -> d_minBits d <= c_len c.
Proof. intros HT Hc. rewrite (to_min _ _ HT). apply min_bits_le. exact Hc. Qed.

(* The naive statement "the request never exceeds the length of the next code word" is FALSE
   for arbitrary valid codes. Witness: 1 | 01 | 001 | 0001 | 0000 in reading order; the stream
   continues with 01, one bit (0) is available: the zero-extended look-up finds 0000. *)
Definition witness_codes : list pcode := [(0, 1, 1); (1, 2, 2); (2, 3, 4); (3, 4, 8); (4, 4, 0)].

Example witness_valid : dec_valid 27 witness_codes.
Proof. apply kraft_check_sound. vm_compute. reflexivity. Qed.

Example witness_not_zero_min : ~ zero_min witness_codes.
Proof.
  intros H. specialize (H (1, 2, 2) 1 (4, 4, 0)). cbv [c_len c_val fst snd matches] in H.
  assert (4 <= 2); [|lia]. apply H; [right; left; reflexivity | do 4 right; left; reflexivity | lia | reflexivity].
Qed.

Example witness_over_request :
  exists d, dec_init (fun _ => 0) (fun _ => 0) witness_codes = IOk d /\
    (* the stream value: code word 01 then ones; one real bit available *)
    matches (1, 2, 2) 254 /\ dec_lookup d (254 mod 2 ^ 1) = Some (4, 4).
Proof. eexists. split; [vm_compute; reflexivity|]. split; reflexivity. Qed.

Print Assumptions dec_init_tables.
Print Assumptions dec_table_correct.
Print Assumptions dec_lookup_total.
Print Assumptions dec_init_independent.
Print Assumptions chunk_covered.
Print Assumptions flat_covered.
Print Assumptions kraft_valid_dec_valid.
Print Assumptions lookup_asks_for_more.
Print Assumptions lookup_zero_ext_le.
Print Assumptions witness_valid.
Print Assumptions witness_not_zero_min.
Print Assumptions witness_over_request.
