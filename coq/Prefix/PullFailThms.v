(* The state of internal/prefix.Reader after a FAILED PullBits (io.ErrUnexpectedEOF).
   Prefix/ReaderThms.v and Prefix/DecReadThms.v say about the outcome [(true, p1)] of
   [pull_bits] only that too few bits are left; Go code, however, goes on using the Reader
   (bzip2.Reader.Read recovers from the panic, calls rd.Flush() and reports the offset).
   Here: a failed PullBits leaves the Reader in a consistent state at the SAME abstract
   position ([pull_bits_fail_pi]), and the Flush that follows succeeds and reports the
   number of source bytes consumed ([pull_fail_flush]). *)
From V Require Import Base.Prelude Prefix.ReaderImpl Prefix.ReaderSpec Prefix.ReaderThms
  Prefix.DecTable Prefix.DecReadThms.
From Coq Require Import ZifyBool ZifyN ZifyNat.

Local Open Scope N_scope.

Section PullFail.
Variable big : bool.
Variable data : list byte.
Hypothesis Hd : forall b, In b data -> b < 256.

Notation Core := (Core big data).
Notation Inv := (Inv big data).
Notation LI := (LI big data).
Notation PI := (PI big data).

(* ---- buffered path ------------------------------------------------------------------ *)

(* [refill] fails only after a successful Flush with an empty Peek: the state is the
   flushed one (fedBits = numBits) with the refreshed source *)
Lemma refill_err R p nb p1 : LI R p -> refill p nb = (p1, Some true) ->
  LI R p1 /\ p_fed p1 = p_numBits p1.
Proof.
  intros (Hb & HC & Hd7). unfold refill. destruct (p_peek p) as [|x pk] eqn:Hp.
  2:{ intros Heq; discriminate Heq. }
  set (p0 := mkPrd (p_src p) true (p_big p) (p_bufBits p) (p_numBits p) [] (p_discard p)
                   (p_numBits p) (p_offset p)).
  assert (HI0 : Inv R p0).
  { destruct HC as [C1 C2 C3 C4 C5 C6]. unfold ReaderThms.Inv, effd, p0. prj.
    split; [|split]; [|lia|discriminate].
    split; prj; try assumption; try reflexivity; lia. }
  destruct (flush_ok big data R p0 HI0) as (pf & Hf & HIf & Hbf & Hoff & Hpos & Hbb & Hnb & Hx).
  rewrite Hf. cbv beta iota zeta.
  destruct (Hx eq_refl) as (Hpkf & Hfed & Hd0). clear Hx.
  unfold p0 in Hbf, Hbb, Hnb. cbn [p_buffered p_bufBits p_numBits] in Hbf, Hbb, Hnb. prj.
  destruct HIf as (HCf & Hd7f & _). unfold effd in HCf, Hd7f. rewrite Hbf, Hfed in *.
  destruct HCf as [C1 C2 C3 C4 C5 C6].
  unfold src_buffered.
  set (cnt := Nat.max _ _).
  match goal with |- context [src_peek ?s cnt] =>
    destruct (src_peek_spec s cnt) as (buf & fills & short & Hpe); rewrite Hpe; clear Hpe end.
  prj. rewrite C2, Hpos.
  set (k := N.to_nat (p_numBits pf / 8)).
  assert (HE : ((R + 7) / 8 + k = (R + N.to_nat (p_numBits pf)) / 8)%nat).
  { destruct C5 as [W1 W2 W3 _ _]. unfold k. lia. }
  assert (Hpeek : skipn k (firstn cnt (skipn ((R + 7) / 8) data)) =
                  firstn (cnt - k) (skipn ((R + N.to_nat (p_numBits pf)) / 8) data)).
  { rewrite skipn_firstn_comm, skipn_skipn', HE. reflexivity. }
  rewrite Hpeek.
  set (E := ((R + N.to_nat (p_numBits pf)) / 8)%nat) in *.
  assert (HLI : forall s2 fed,
     s_data s2 = data -> s_pos s2 = ((R + 7) / 8)%nat ->
     LI R (mkPrd s2 true (p_big pf) (p_bufBits pf) (p_numBits pf)
                 (firstn (cnt - k) (skipn E data)) (p_discard pf) fed (p_offset pf))).
  { intros s2 fed H1 H2. split; [reflexivity|]. split; [|prj; lia].
    split; prj; try assumption; try lia.
    fold E. rewrite firstn_length_firstn. reflexivity. }
  destruct (firstn (cnt - k) (skipn E data)) as [|y pk'] eqn:Hpk'.
  - destruct (nb <=? p_numBits pf) eqn:Enb; intros Heq; [discriminate Heq|].
    injection Heq as <-. split; [apply HLI; reflexivity | prj; reflexivity].
  - intros Heq; discriminate Heq.
Qed.

Lemma pull_round_err R p nb p1 : LI R p -> pull_round p nb = PErr p1 ->
  LI R p1 /\ p_fed p1 = p_numBits p1.
Proof.
  intros HLI. rewrite pull_round_eq.
  pose proof (refill_ok big data Hd R p nb HLI) as Hr.
  destruct (refill p nb) as [q [[|]|]] eqn:Er.
  - intros Heq. injection Heq as <-. exact (refill_err R p nb q HLI Er).
  - intros Heq; discriminate Heq.
  - destruct Hr as (H1 & H2 & H3).
    pose proof (loadp_ok big data Hd R q H1 H2) as Hl.
    destruct (loadp q) as [p'|p'|p']; intros Heq; try discriminate Heq. contradiction.
Qed.

Lemma pull_loop_err R nb p1 : nb <= 57 -> forall fuel p,
  LI R p -> 72 <= p_numBits p + 8 * N.of_nat fuel ->
  pull_loop fuel p nb = (true, p1) ->
  LI R p1 /\ p_fed p1 = p_numBits p1.
Proof.
  intros Hnb. induction fuel as [|fuel IH]; intros p HLI Hfuel.
  - destruct HLI as (_ & [_ _ _ _ [W _ _ _ _] _] & _). lia.
  - cbn [pull_loop]. pose proof (pull_round_ok big data Hd R p nb HLI Hnb) as Hr.
    destruct (pull_round p nb) as [p'|p'|p'] eqn:Ep.
    + destruct Hr as (H1 & H2 & H3). apply IH; [exact H1 | lia].
    + intros Heq; discriminate Heq.
    + intros Heq. injection Heq as <-. exact (pull_round_err R p nb p' HLI Ep).
Qed.

(* ---- ByteReader path ------------------------------------------------------------------ *)

(* [pull_bytes] fails at the first missing byte (or, never, when the fuel runs out) and
   returns the current loop state: every byte read so far is in the bit buffer *)
Lemma pull_bytes_err R nb p1 : nb <= 57 -> forall fuel p,
  p_buffered p = false -> Core R p (- Z.of_N (p_numBits p)) -> p_peek p = [] ->
  pull_bytes fuel p nb = (true, p1) ->
  Core R p1 (- Z.of_N (p_numBits p1)) /\ p_buffered p1 = false /\ p_peek p1 = [].
Proof.
  intros Hnb. induction fuel as [|fuel IH]; intros p Hb HC Hpk.
  - cbn [pull_bytes]. intros Heq. injection Heq as <-.
    split; [exact HC|]. split; [exact Hb | exact Hpk].
  - cbn [pull_bytes]. destruct (nb <=? p_numBits p) eqn:E; [intros Heq; discriminate Heq|].
    pose proof HC as [C1 C2 C3 C4 C5 C6].
    assert (HE : ((R + N.to_nat (p_numBits p)) / 8 = s_pos (p_src p))%nat).
    { destruct C5 as [W1 W2 W3 _ _]. lia. }
    unfold src_readbyte. rewrite C2.
    destruct (skipn (s_pos (p_src p)) data) as [|c rest] eqn:Hs.
    + intros Heq. injection Heq as <-.
      split; [exact HC|]. split; [exact Hb | exact Hpk].
    + apply IH; prj; try reflexivity.
      split; prj; try assumption; try reflexivity; try lia.
      rewrite C1. apply Win_load_byte with (rest := rest); try assumption; try lia.
      rewrite HE. exact Hs.
Qed.

(* ---- PullBits ---------------------------------------------------------------------------- *)

Theorem pull_bits_fail_pi R p nb p1 :
  PI R p -> nb <= 57 -> pull_bits p nb = (true, p1) -> PI R p1.
Proof.
  intros (HC & Hd7 & Hpk) Hnb. unfold pull_bits. destruct (p_buffered p) eqn:Hb.
  - set (p0 := mkPrd _ _ _ _ _ _ _ _ _).
    assert (HLI : LI R p0).
    { unfold effd in *. rewrite Hb in *. destruct HC as [C1 C2 C3 C4 C5 C6].
      split; [reflexivity|]. split; [|exact (Hd7 eq_refl)]. split; assumption. }
    assert (Hfuel : 72 <= p_numBits p0 + 8 * N.of_nat 12) by lia.
    pose proof (pull_loop_err R nb p1 Hnb 12 p0 HLI Hfuel) as Hl.
    destruct (pull_loop 12 p0 nb) as [[|] q].
    + intros Heq. injection Heq as <-.
      destruct (Hl eq_refl) as ((Hb1 & HC1 & Hd1) & Hfed).
      unfold DecReadThms.PI, effd. rewrite Hb1, Hfed.
      replace (p_discard q + (Z.of_N (p_numBits q) - Z.of_N (p_numBits q)))%Z
        with (p_discard q) by lia.
      split; [exact HC1|]. split; [intros _; exact Hd1 | discriminate].
    + intros Heq; discriminate Heq.
  - unfold effd in *. rewrite Hb in *. intros Hpb.
    destruct (pull_bytes_err R nb p1 Hnb 9 p Hb HC (Hpk eq_refl) Hpb) as (H1 & H2 & H3).
    unfold DecReadThms.PI, effd. rewrite H2.
    split; [exact H1|]. split; [discriminate | intros _; exact H3].
Qed.

(* a failed PullBits never changes the kind of source *)
Lemma pull_bits_fail_buffered R p nb p1 :
  PI R p -> nb <= 57 -> pull_bits p nb = (true, p1) -> p_buffered p1 = p_buffered p.
Proof.
  intros (HC & Hd7 & Hpk) Hnb. unfold pull_bits. destruct (p_buffered p) eqn:Hb.
  - set (p0 := mkPrd _ _ _ _ _ _ _ _ _).
    assert (HLI : LI R p0).
    { unfold effd in *. rewrite Hb in *. destruct HC as [C1 C2 C3 C4 C5 C6].
      split; [reflexivity|]. split; [|exact (Hd7 eq_refl)]. split; assumption. }
    assert (Hfuel : 72 <= p_numBits p0 + 8 * N.of_nat 12) by lia.
    pose proof (pull_loop_err R nb p1 Hnb 12 p0 HLI Hfuel) as Hl.
    destruct (pull_loop 12 p0 nb) as [[|] q].
    + intros Heq. injection Heq as <-. destruct (Hl eq_refl) as ((Hb1 & _) & _). exact Hb1.
    + intros Heq; discriminate Heq.
  - unfold effd in *. rewrite Hb in *. intros Hpb.
    destruct (pull_bytes_err R nb p1 Hnb 9 p Hb HC (Hpk eq_refl) Hpb) as (_ & H2 & _).
    exact H2.
Qed.

Lemma pull_bytes_ge fuel p nb :
  (nb <=? p_numBits p) = true -> pull_bytes (S fuel) p nb = (false, p).
Proof. intros E. cbn [pull_bytes]. rewrite E. reflexivity. Qed.

(* ... and it fails only when fewer than nb bits are left (DecReadThms.pull_ok, without its
   side condition on the ByteReader's look-ahead) *)
Lemma pull_bits_fail_short R p nb p1 :
  PI R p -> nb <= 57 -> pull_bits p nb = (true, p1) ->
  (8 * length data < R + N.to_nat nb)%nat.
Proof.
  intros HPI Hnb Hpb.
  assert (Hlt : p_buffered p = false -> p_numBits p < nb + 8).
  { intros Hb. unfold pull_bits in Hpb. rewrite Hb in Hpb.
    destruct (nb <=? p_numBits p) eqn:E; [|lia].
    rewrite (pull_bytes_ge 8 p nb E) in Hpb. discriminate Hpb. }
  pose proof (pull_ok big data Hd R p nb HPI Hnb Hlt) as Hy.
  rewrite Hpb in Hy. exact Hy.
Qed.

(* the Flush after the failure: it succeeds, keeps the abstract position, and Offset is the
   number of source bytes consumed; at the very end of the data that is all of them *)
Corollary pull_fail_flush R p nb p1 :
  PI R p -> nb <= 57 -> pull_bits p nb = (true, p1) ->
  exists p2, flush p1 = (false, p2) /\ PI R p2 /\
    p_offset p2 = Z.of_nat (s_pos (p_src p2)) /\
    (R = (8 * length data)%nat -> p_offset p2 = Z.of_nat (length data)).
Proof.
  intros HPI Hnb Hpb.
  pose proof (pull_bits_fail_pi R p nb p1 HPI Hnb Hpb) as HP1.
  destruct (p_buffered p1) eqn:Hb1.
  - assert (HI1 : Inv R p1).
    { apply PI_Inv; [exact HP1|]. rewrite Hb1. discriminate. }
    destruct (flush_ok big data R p1 HI1) as (p2 & Hf & HI2 & _ & Hoff & Hpos & _).
    exists p2. split; [exact Hf|]. split; [apply Inv_PI; exact HI2|].
    split; [rewrite Hoff, Hpos; reflexivity|].
    intros HR. rewrite Hoff. f_equal. lia.
  - exists p1. split; [unfold flush; rewrite Hb1; reflexivity|]. split; [exact HP1|].
    destruct HP1 as (HC1 & _ & _). unfold effd in HC1. rewrite Hb1 in HC1.
    destruct HC1 as [C1 C2 C3 C4 [W1 W2 W3 _ _] C6].
    split; [exact C3|]. intros HR. lia.
Qed.

End PullFail.

(* ---- non-vacuity: one byte of data, PullBits 16 fails at abstract position 0. The byte is in
   the bit buffer (numBits = 8) but not consumed: over a BufferedReader nothing has been
   Discarded, Flush reports offset 0; a ByteReader has handed the byte over, offset 1 (and
   BitsRead = 8 * 1 - 8 = 0). After consuming the 8 bits, PullBits 1 fails at position 8 =
   end of data and Flush reports offset 1 on both paths ([ex_pull_fail_at_end]). *)
Lemma ex_pf_bytes : forall b, In b [5] -> b < 256.
Proof. intros b [<-|[]]. reflexivity. Qed.

Example ex_pull_fail_buffered :
  let p := init [5] true true [] [] in
  fst (pull_bits p 16) = true /\
  p_numBits (snd (pull_bits p 16)) = 8 /\
  fst (flush (snd (pull_bits p 16))) = false /\
  p_offset (snd (flush (snd (pull_bits p 16)))) = 0%Z /\
  s_pos (p_src (snd (flush (snd (pull_bits p 16))))) = 0%nat.
Proof. vm_compute. repeat split. Qed.

Example ex_pull_fail_bytereader :
  let p := init [5] false true [] [] in
  fst (pull_bits p 16) = true /\
  p_numBits (snd (pull_bits p 16)) = 8 /\
  fst (flush (snd (pull_bits p 16))) = false /\
  p_offset (snd (flush (snd (pull_bits p 16)))) = 1%Z /\
  s_pos (p_src (snd (flush (snd (pull_bits p 16))))) = 1%nat.
Proof. vm_compute. repeat split. Qed.

(* the theorems instantiated at the example: hypotheses hold, conclusions are the computed
   facts (position 0 kept; after 8 more bits, position 8 = end of data, offset 1) *)
Example ex_pull_fail_pi bf :
  PI true [5] 0 (snd (pull_bits (init [5] bf true [] []) 16)).
Proof.
  apply (pull_bits_fail_pi true [5] ex_pf_bytes 0 (init [5] bf true [] []) 16).
  - apply Inv_PI, Inv_init.
  - lia.
  - destruct bf; vm_compute; reflexivity.
Qed.

Example ex_pull_fail_at_end bf :
  let p1 := snd (take_bits (snd (pull_bits (init [5] bf true [] []) 8)) 8) in
  PI true [5] 8 p1 /\
  exists p2, pull_bits p1 1 = (true, p2) /\
    exists p3, flush p2 = (false, p3) /\ PI true [5] 8 p3 /\ p_offset p3 = 1%Z.
Proof.
  intros p1.
  assert (HP1 : PI true [5] 8 p1).
  { pose proof (pull_ok true [5] ex_pf_bytes 0 (init [5] bf true [] []) 8
                  (Inv_PI _ _ _ _ (Inv_init true [5] bf [] [])) ltac:(lia)
                  ltac:(intros _; cbn; lia)) as Hy.
    assert (Hfst : fst (pull_bits (init [5] bf true [] []) 8) = false)
      by (destruct bf; vm_compute; reflexivity).
    destruct (pull_bits (init [5] bf true [] []) 8) as [e q] eqn:Eq.
    cbn [fst] in Hfst. subst e. destruct Hy as (HPq & Hnq & _).
    unfold p1. cbn [snd].
    exact (proj1 (take_ok true [5] ex_pf_bytes 0 q 8 HPq Hnq)). }
  split; [exact HP1|].
  assert (Hfst : fst (pull_bits p1 1) = true) by (destruct bf; vm_compute; reflexivity).
  destruct (pull_bits p1 1) as [e p2] eqn:Ep. cbn [fst] in Hfst. subst e.
  exists p2. split; [reflexivity|].
  destruct (pull_fail_flush true [5] ex_pf_bytes 8 p1 1 p2 HP1 ltac:(lia) Ep)
    as (p3 & Hf & HP3 & _ & Hend).
  exists p3. split; [exact Hf|]. split; [exact HP3|]. exact (Hend eq_refl).
Qed.

Print Assumptions pull_bits_fail_pi.
Print Assumptions pull_fail_flush.
Print Assumptions pull_bits_fail_short.
