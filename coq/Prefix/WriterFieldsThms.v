(* Facts about batches of bit fields (Prefix/WriterFields.v) on the implementation-level bit
   writer, used by the stream Writers above it (Bzip2/WriterImplThms.v, Meta/WriterImplThms.v):

   (1) [Wk]: the bounds that hold in EVERY state, also after a short write (staging buffer
       of 512 bytes, numBits <= 64, cntBuf <= 511): no field, no Flush ever raises a
       run-time panic;
   (2) [Step] (Prefix/WriterThms.v) for a batch: the sink calls it made, the first failed
       one is the last one and its error is the panic value; a Flush makes at most two calls;
   (3) refinement for a batch from a consistent state ([Inv]): without a sink failure the
       state is consistent with the bits of the fields appended; at a sink failure the sink
       holds a prefix of the packed stream of the bits written so far ([Pfx]);
   (4) bookkeeping: sinks along [calls], packed streams of prefixes. *)
From V Require Import Base.Prelude Prefix.ReaderImpl Prefix.ReaderSpec Prefix.WriterImpl Prefix.WriterSpec
  Prefix.WriterThms Prefix.WriterFields.

Local Open Scope N_scope.

(* ------------------------------------------------------------------------- *)
(* (1) bounds that survive everything                                         *)
(* ------------------------------------------------------------------------- *)
Definition Wk (p : pwr) : Prop :=
  length (w_buf p) = 512%nat /\ w_numBits p <= 64 /\ w_cnt p <= 511.

Lemma Wk_init p s big : Wk (pw_init p s big).
Proof. unfold Wk, pw_init. wprj. rewrite repeat_length. repeat split; lia. Qed.

Lemma Wk_set_offset p o : Wk p -> Wk (set_offset p o).
Proof. intros H. exact H. Qed.

Lemma write_staged_wk p : Wk p ->
  exists e p', write_staged p = Some (e, p') /\ Wk p' /\ e <> Some EPanic /\
    w_numBits p' = w_numBits p /\ (e = None -> w_cnt p' = 0).
Proof.
  intros (HL & Hn & Hc). unfold write_staged.
  replace (512 <? w_cnt p) with false by lia.
  pose proof (wsink_write_spec (bw_sink p) (firstn (N.to_nat (w_cnt p)) (w_buf p))) as Hs.
  destruct (wsink_write _ _) as [[n e] s']. destruct Hs as (He & _ & Hle & Hacc & _).
  rewrite firstn_length, HL in Hle, Hacc.
  eexists _, _. split; [reflexivity|]. unfold Wk. wprj.
  split; [repeat split; [exact HL | exact Hn | lia]|].
  split; [rewrite He; destruct (next_beh (bw_sink p)); discriminate|].
  split; [reflexivity|].
  intros ->. destruct (next_beh (bw_sink p)) as [|k t]; [|discriminate].
  specialize (Hacc eq_refl). lia.
Qed.

Lemma push_bits_wk p : Wk p ->
  let '((n, e), p') := push_bits p in
  Wk p' /\ e <> Some EPanic /\ (e = None -> w_numBits p' < 8).
Proof.
  intros HW. pose proof (push_bits_buflen p (proj1 HW)) as HB. unfold BufLen in HB.
  unfold push_bits in *.
  assert (G : forall p1, Wk p1 -> (w_cnt p1 < 504) ->
    let r := match put_uint64 (w_buf p1) (w_cnt p1) (if w_big p1 then swap_bits (w_bufBits p1) else w_bufBits p1) with
      | None => ((0, Some EPanic), p1)
      | Some buf' =>
        ((8 * (w_numBits p1 / 8), None),
         mkPwr (bw_sink p1) (w_big p1) (shr64 (w_bufBits p1) (8 * (w_numBits p1 / 8)))
               (w_numBits p1 - 8 * (w_numBits p1 / 8)) buf' (w_cnt p1 + w_numBits p1 / 8) (w_offset p1))
      end in
    length (w_buf (snd r)) = 512%nat ->
    Wk (snd r) /\ snd (fst r) <> Some EPanic /\ (snd (fst r) = None -> w_numBits (snd r) < 8)).
  { intros p1 (H1 & H2 & H3) Hlt. unfold put_uint64.
    replace (504 <? w_cnt p1) with false by lia. cbn [fst snd]. intros HB1.
    unfold Wk. wprj. repeat split; try exact HB1; try lia; try discriminate. }
  destruct (504 <=? w_cnt p) eqn:E.
  - destruct (write_staged_wk p HW) as (e & p1 & Hw & HW1 & Hne & Hnb & Hz).
    rewrite Hw in *. destruct e as [e|].
    + split; [exact HW1|]. split; [exact Hne | discriminate].
    + specialize (Hz eq_refl).
      specialize (G p1 HW1 ltac:(lia)). cbv zeta in G.
      destruct (put_uint64 _ _ _) as [buf'|]; cbn [fst snd] in *; apply G; exact HB.
  - specialize (G p HW ltac:(lia)). cbv zeta in G.
    destruct (put_uint64 _ _ _) as [buf'|]; cbn [fst snd] in *; apply G; exact HB.
Qed.

Lemma add_bits_wk p v nb : Wk p -> w_numBits p + nb <= 64 -> Wk (add_bits p v nb).
Proof.
  intros (H1 & H2 & H3) Hn. unfold Wk, add_bits. wprj. repeat split; try assumption.
  unfold u64. rewrite N.mod_small; [exact Hn|]. change (2 ^ 64) with 18446744073709551616. lia.
Qed.

Lemma write_bits_wk p v nb : Wk p -> nb <= 57 ->
  let '(e, p') := write_bits p v nb in Wk p' /\ e <> Some EPanic.
Proof.
  intros HW Hnb. unfold write_bits. pose proof (push_bits_wk p HW) as H.
  destruct (push_bits p) as [[n [e|]] p1].
  - destruct H as (H1 & H2 & _). split; assumption.
  - destruct H as (H1 & _ & H3). specialize (H3 eq_refl).
    split; [|discriminate]. apply add_bits_wk; [exact H1 | lia].
Qed.

Lemma try_write_bits_wk p v nb : Wk p -> Wk (snd (try_write_bits p v nb)).
Proof.
  intros HW. unfold try_write_bits.
  assert (E : u64 (64 + 2 ^ 64 - w_numBits p) = 64 - w_numBits p).
  { destruct HW as (_ & H & _). unfold u64. change (2 ^ 64) with 18446744073709551616. lia. }
  rewrite E. destruct (64 - w_numBits p <? nb) eqn:El; cbn [snd]; [exact HW|].
  apply add_bits_wk; [exact HW|]. destruct HW as (_ & H & _). lia.
Qed.

Lemma write_pads_wk p v : Wk p -> Wk (write_pads p v).
Proof.
  intros HW. unfold write_pads. apply add_bits_wk; [exact HW|].
  destruct HW as (_ & H & _). unfold u64. change (2 ^ 64) with 18446744073709551616. lia.
Qed.

Lemma wflush_wk p : Wk p ->
  let '((r, e), p') := wflush p in Wk p' /\ e <> Some EPanic /\ r = w_offset p'.
Proof.
  intros HW. unfold wflush. destruct ((w_numBits p <? 8) && (w_cnt p =? 0)).
  - split; [exact HW|]. split; [discriminate | reflexivity].
  - pose proof (push_bits_wk p HW) as H. destruct (push_bits p) as [[n [e|]] p1].
    + destruct H as (H1 & H2 & _). split; [exact H1|]. split; [exact H2 | reflexivity].
    + destruct H as (H1 & _ & _).
      destruct (write_staged_wk p1 H1) as (e & p2 & -> & H2 & H3 & _).
      split; [exact H2|]. split; [exact H3 | reflexivity].
Qed.

Lemma fstep_wk p f : Wk p -> field_ok f ->
  let '(e, p') := fstep p f in Wk p' /\ e <> Some EPanic.
Proof.
  intros HW Hok. destruct f as [v nb|v nb|]; cbn [fstep field_ok] in *.
  - apply write_bits_wk; [exact HW | apply Hok].
  - pose proof (try_write_bits_wk p v nb HW) as H.
    destruct (try_write_bits p v nb) as [[|] p1]; cbn [snd] in H.
    + split; [exact H | discriminate].
    + apply write_bits_wk; [exact H | apply Hok].
  - split; [apply write_pads_wk; exact HW | discriminate].
Qed.

Lemma frun_wk fs : forall p, Wk p -> Forall field_ok fs ->
  let '(e, p') := frun p fs in Wk p' /\ e <> Some EPanic.
Proof.
  induction fs as [|f fs IH]; intros p HW Hok; cbn [frun].
  - split; [exact HW | discriminate].
  - inversion Hok as [|f' fs' Hf Hfs]; subst.
    pose proof (fstep_wk p f HW Hf) as H. destruct (fstep p f) as [[e|] p1].
    + exact H.
    + apply IH; [apply H | exact Hfs].
Qed.

(* ------------------------------------------------------------------------- *)
(* (2) sink calls                                                             *)
(* ------------------------------------------------------------------------- *)
Lemma fstep_step p f : let '(e, p') := fstep p f in Step p e p'.
Proof.
  destruct f as [v nb|v nb|]; cbn [fstep].
  - apply write_bits_step.
  - pose proof (try_write_bits_step p v nb) as H.
    destruct (try_write_bits p v nb) as [[|] p1]; [exact H|].
    pose proof (write_bits_step p1 v nb) as H2. destruct (write_bits p1 v nb) as [e p2].
    eapply Step_trans; eassumption.
  - apply add_bits_step.
Qed.

Lemma frun_step fs : forall p, let '(e, p') := frun p fs in Step p e p'.
Proof.
  induction fs as [|f fs IH]; intros p; cbn [frun].
  - apply Step_refl. intros t; discriminate.
  - pose proof (fstep_step p f) as H. destruct (fstep p f) as [[e|] p1]; [exact H|].
    specialize (IH p1). destruct (frun p1 fs) as [e p2]. eapply Step_trans; eassumption.
Qed.

(* the number of calls a sink has seen *)
Definition ncalls (s : wsink) : nat := length (k_chunks s).

Lemma wsink_write_ncalls s d : ncalls (snd (wsink_write s d)) = S (ncalls s).
Proof.
  unfold wsink_write, ncalls. destruct (match k_script s with [] => _ | _ => _ end) as [b script'].
  destruct b; reflexivity.
Qed.

Lemma calls_ncalls s l s' : calls s l s' -> ncalls s' = (ncalls s + length l)%nat.
Proof.
  induction 1 as [s|s d l s' H IH]; [cbn [length]; lia|].
  rewrite IH, wsink_write_ncalls. cbn [length]. lia.
Qed.

(* what a sink holds only grows along calls *)
Lemma calls_data s l s' : calls s l s' -> prefix_of (wsink_data s) (wsink_data s').
Proof.
  induction 1 as [s|s d l s' H IH]; [apply prefix_of_refl|].
  eapply prefix_of_trans; [|exact IH].
  pose proof (wsink_write_spec s d) as Hs. destruct (wsink_write s d) as [[n e] s1].
  cbn [snd]. destruct Hs as (_ & -> & _). apply prefix_of_app.
Qed.

Lemma calls_nil_inv s l s' : calls s l s' -> l = [] -> s' = s.
Proof. induction 1 as [s|s d l s' H IH]; [reflexivity | discriminate]. Qed.

Lemma write_staged_ncalls p e p' : write_staged p = Some (e, p') ->
  ncalls (bw_sink p') = S (ncalls (bw_sink p)).
Proof.
  unfold write_staged. destruct (512 <? w_cnt p); [discriminate|].
  pose proof (wsink_write_ncalls (bw_sink p) (firstn (N.to_nat (w_cnt p)) (w_buf p))) as H.
  destruct (wsink_write _ _) as [[n e'] s']. intros E. injection E as _ <-. exact H.
Qed.

Lemma push_bits_ncalls p : (ncalls (bw_sink (snd (push_bits p))) <= S (ncalls (bw_sink p)))%nat.
Proof.
  unfold push_bits.
  assert (G : forall p1,
    bw_sink (snd (match put_uint64 (w_buf p1) (w_cnt p1) (if w_big p1 then swap_bits (w_bufBits p1) else w_bufBits p1) with
      | None => ((0, Some EPanic), p1)
      | Some buf' =>
        ((8 * (w_numBits p1 / 8), None),
         mkPwr (bw_sink p1) (w_big p1) (shr64 (w_bufBits p1) (8 * (w_numBits p1 / 8)))
               (w_numBits p1 - 8 * (w_numBits p1 / 8)) buf' (w_cnt p1 + w_numBits p1 / 8) (w_offset p1))
      end)) = bw_sink p1).
  { intros p1. destruct (put_uint64 _ _ _); reflexivity. }
  destruct (504 <=? w_cnt p).
  - destruct (write_staged p) as [[[e|] p1]|] eqn:Ew; cbn [snd].
    + rewrite (write_staged_ncalls _ _ _ Ew). lia.
    + rewrite G, (write_staged_ncalls _ _ _ Ew). lia.
    + lia.
  - rewrite G. lia.
Qed.

Lemma wflush_ncalls p : (ncalls (bw_sink (snd (wflush p))) <= 2 + ncalls (bw_sink p))%nat.
Proof.
  unfold wflush. destruct (_ && _); cbn [snd]; [lia|].
  pose proof (push_bits_ncalls p) as H. destruct (push_bits p) as [[n [e|]] p1]; cbn [snd] in *; [lia|].
  destruct (write_staged p1) as [[e p2]|] eqn:Ew; cbn [snd]; [|lia].
  rewrite (write_staged_ncalls _ _ _ Ew). lia.
Qed.

(* Flush: at most two sink calls *)
Lemma wflush_calls p :
  let '((r, e), p') := wflush p in
  exists l, calls (bw_sink p) l (bw_sink p') /\ reported l e /\ (length l <= 2)%nat /\
            (OffInv p -> OffInv p').
Proof.
  pose proof (wflush_step p) as H. pose proof (wflush_ncalls p) as Hn.
  destruct (wflush p) as [[r e] p']. cbn [snd] in Hn.
  destruct H as (l & H1 & H2 & H3). exists l. repeat split; try assumption.
  rewrite (calls_ncalls _ _ _ H1) in Hn. lia.
Qed.

(* a reported sink error: the calls are accepted ones followed by the failed one *)
Lemma reported_src_inv l t : reported l (Some (ESrc t)) ->
  exists l1 k, l = l1 ++ [SFail k t] /\ Forall beh_accepts l1.
Proof.
  intros H. inversion H as [l' e' Hl He|l' k t' Hl]; subst.
  - exfalso. apply (He t). reflexivity.
  - exists l', k. split; [reflexivity | exact Hl].
Qed.

(* no sink error reported: every call was accepted *)
Lemma reported_nosrc_inv l e : reported l e -> (forall t, e <> Some (ESrc t)) -> Forall beh_accepts l.
Proof.
  intros H Hne. inversion H as [l' e' Hl He|l' k t' Hl]; subst; [exact Hl|].
  exfalso. apply (Hne t'). reflexivity.
Qed.

(* ------------------------------------------------------------------------- *)
(* (3) refinement of a batch of fields                                        *)
(* ------------------------------------------------------------------------- *)
Lemma val_bits_zero n : val_bits n 0 = repeat false n.
Proof.
  induction n as [|n IH]; [reflexivity|]. cbn [val_bits repeat].
  change (N.div2 0) with 0. change (N.odd 0) with false. rewrite IH. reflexivity.
Qed.

Lemma pads_at_pad_count n : pads_at n = pad_count n.
Proof. reflexivity. Qed.

Lemma field_app_prefix bits f : prefix_of bits (field_app bits f).
Proof. destruct f; cbn [field_app]; apply prefix_of_app. Qed.

Lemma fields_app_prefix fs : forall bits, prefix_of bits (fields_app bits fs).
Proof.
  unfold fields_app. induction fs as [|f fs IH]; intros bits; cbn [fold_left]; [apply prefix_of_refl|].
  eapply prefix_of_trans; [apply field_app_prefix | apply IH].
Qed.

Lemma fields_app_app bits a b : fields_app bits (a ++ b) = fields_app (fields_app bits a) b.
Proof. unfold fields_app. apply fold_left_app. Qed.

Lemma fields_app_cons bits f fs : fields_app bits (f :: fs) = fields_app (field_app bits f) fs.
Proof. reflexivity. Qed.

Section Refine.
Variable big : bool.

Lemma fstep_inv bits p f : Inv big bits p -> field_ok f ->
  let '(e, p') := fstep p f in
  match e with
  | None => Inv big (field_app bits f) p'
  | Some (ESrc _) => Pfx big bits p'
  | Some _ => False
  end.
Proof.
  intros HI Hok. destruct f as [v nb|v nb|]; cbn [fstep field_ok field_app] in *.
  - destruct Hok as [Hv Hn].
    assert (Hm : N.of_nat (length bits mod 8) + nb <= 64).
    { pose proof (Nat.mod_upper_bound (length bits) 8). lia. }
    pose proof (write_bits_inv big bits p v nb HI Hv Hm) as H.
    destruct (write_bits p v nb) as [[e|] p']; [|exact H].
    destruct e; try contradiction. apply H.
  - destruct Hok as [Hv Hn].
    pose proof (try_write_bits_inv big bits p v nb HI Hv) as H.
    destruct (try_write_bits p v nb) as [[|] p1]; [exact H|].
    destruct H as [-> _].
    assert (Hm : N.of_nat (length bits mod 8) + nb <= 64).
    { pose proof (Nat.mod_upper_bound (length bits) 8). lia. }
    pose proof (write_bits_inv big bits p v nb HI Hv Hm) as H.
    destruct (write_bits p v nb) as [[e|] p']; [|exact H].
    destruct e; try contradiction. apply H.
  - rewrite <- val_bits_zero. apply write_pads_inv; [exact HI|].
    apply N.neq_0_lt_0. apply N.pow_nonzero. lia.
Qed.

Lemma frun_inv fs : forall bits p, Inv big bits p -> Forall field_ok fs ->
  let '(e, p') := frun p fs in
  match e with
  | None => Inv big (fields_app bits fs) p'
  | Some (ESrc _) =>
    exists bits1, prefix_of bits bits1 /\ prefix_of bits1 (fields_app bits fs) /\ Pfx big bits1 p'
  | Some _ => False
  end.
Proof.
  induction fs as [|f fs IH]; intros bits p HI Hok; cbn [frun]; [exact HI|].
  inversion Hok as [|f' fs' Hf Hfs]; subst.
  pose proof (fstep_inv bits p f HI Hf) as H. destruct (fstep p f) as [[e|] p1].
  - destruct e; try contradiction. exists bits. split; [apply prefix_of_refl|].
    split; [apply fields_app_prefix | exact H].
  - specialize (IH _ p1 H Hfs). rewrite fields_app_cons.
    destruct (frun p1 fs) as [[e|] p2]; [|exact IH].
    destruct e; try contradiction. destruct IH as (bits1 & H1 & H2 & H3).
    exists bits1. split; [|split; assumption].
    eapply prefix_of_trans; [apply field_app_prefix | exact H1].
Qed.

End Refine.

(* ------------------------------------------------------------------------- *)
(* (4) packed streams of prefixes                                             *)
(* ------------------------------------------------------------------------- *)
Lemma pack_prefix big : forall a b, prefix_of a b -> prefix_of (pack big a) (pack big b).
Proof.
  assert (H : forall n a t, (length a <= n)%nat -> prefix_of (pack big a) (pack big (a ++ t))).
  { induction n as [|n IH]; intros a t Hl.
    - destruct a; [exists (pack big t); reflexivity | cbn [length] in Hl; lia].
    - do 8 (destruct a as [|? a]; [eexists; reflexivity|]).
      cbn [app pack]. destruct (IH a t) as [u Hu]; [cbn [length] in Hl; lia|].
      exists u. rewrite Hu. reflexivity. }
  intros a b [t ->]. apply (H (length a)). lia.
Qed.

(* the initial state of a freshly initialised bit writer over a fresh sink *)
Lemma Inv_pw_init big p script rest : Inv big [] (pw_init p (new_sink script rest) big).
Proof. apply Inv_init. Qed.

Lemma set_offset_same p : set_offset p (w_offset p) = p.
Proof. destruct p; reflexivity. Qed.

(* a consistent, flushed state: the sink holds exactly the whole bytes of the stream *)
Definition Flushed (p : pwr) : Prop := w_cnt p = 0 /\ w_numBits p < 8.

Lemma Inv_Wk big bits p : Inv big bits p -> Wk p.
Proof. intros HI. destruct HI. repeat split; assumption. Qed.

Lemma Inv_OffInv big bits p : Inv big bits p -> OffInv p.
Proof. intros HI. destruct HI. assumption. Qed.

Lemma Pfx_prefix big bits p : Pfx big bits p -> prefix_of (wsink_data (bw_sink p)) (pack big bits).
Proof. intros H. destruct H. assumption. Qed.
