(* Proofs about the implementation-level model of internal/prefix.Writer
   (Prefix/WriterImpl.v) against the abstract bit list (Prefix/WriterSpec.v):
   refinement for every history with a fault-free sink, what holds with an arbitrary
   scripted sink, and the round trip with the bit Reader (Prefix/ReaderThms.v). *)
From V Require Import Base.Prelude Prefix.ReaderImpl Prefix.ReaderSpec Prefix.ReaderThms
                      Prefix.WriterImpl Prefix.WriterSpec.
From Coq Require Import ZifyBool ZifyN ZifyNat.

Local Open Scope N_scope.

(* ------------------------------------------------------------------------- *)
(* (1) bit-vector lemmas                                                     *)
(* ------------------------------------------------------------------------- *)

Lemma testbit_high_lt x k i : x < 2 ^ k -> k <= i -> N.testbit x i = false.
Proof.
  intros Hx Hi. rewrite <- (N.mod_small x (2 ^ k)) by exact Hx.
  apply N.mod_pow2_bits_high. exact Hi.
Qed.

Lemma lt_pow2_of_bits x k : (forall i, k <= i -> N.testbit x i = false) -> x < 2 ^ k.
Proof.
  intros H. assert (E : x mod 2 ^ k = x).
  { apply N.bits_inj. intros i. rewrite testbit_mod_pow2.
    destruct (i <? k) eqn:Ei; [reflexivity|]. symmetry. apply H. lia. }
  rewrite <- E. apply N.mod_lt. apply N.pow_nonzero. lia.
Qed.

Lemma lor_lt x y k : x < 2 ^ k -> y < 2 ^ k -> N.lor x y < 2 ^ k.
Proof.
  intros Hx Hy. apply lt_pow2_of_bits. intros i Hi.
  rewrite N.lor_spec, (testbit_high_lt x k i Hx Hi), (testbit_high_lt y k i Hy Hi). reflexivity.
Qed.

Lemma shiftl_lt v nb n : v < 2 ^ nb -> N.shiftl v n < 2 ^ (n + nb).
Proof.
  intros Hv. rewrite N.shiftl_mul_pow2, N.pow_add_r, N.mul_comm.
  apply N.mul_lt_mono_pos_l; [|exact Hv].
  assert (2 ^ n <> 0) by (apply N.pow_nonzero; lia). lia.
Qed.

Lemma pow2_le_mono a b : a <= b -> 2 ^ a <= 2 ^ b.
Proof. intros H. apply N.pow_le_mono_r; lia. Qed.

Lemma val_bits_ext n : forall x y,
  (forall i, i < N.of_nat n -> N.testbit x i = N.testbit y i) -> val_bits n x = val_bits n y.
Proof.
  induction n as [|n IH]; intros x y H; [reflexivity|].
  cbn [val_bits]. f_equal.
  - rewrite <- !N.bit0_odd. apply H. lia.
  - apply IH. intros i Hi. rewrite !N.div2_spec, !N.shiftr_spec'. apply H. lia.
Qed.

Lemma val_bits_mod n x : val_bits n (x mod 2 ^ N.of_nat n) = val_bits n x.
Proof.
  apply val_bits_ext. intros i Hi. rewrite testbit_mod_pow2.
  replace (i <? N.of_nat n) with true by lia. reflexivity.
Qed.

Lemma val_bits_app a b x :
  val_bits (a + b) x = val_bits a x ++ val_bits b (N.shiftr x (N.of_nat a)).
Proof.
  revert x. induction a as [|a IH]; intros x.
  - cbn [Nat.add val_bits app N.of_nat]. rewrite N.shiftr_0_r. reflexivity.
  - cbn [Nat.add val_bits app]. f_equal. rewrite IH. f_equal. f_equal.
    rewrite N.div2_spec, N.shiftr_shiftr. f_equal. lia.
Qed.

(* appending a field above the n valid bits of the bit buffer *)
Lemma val_bits_lor_shiftl x v n nb : x < 2 ^ N.of_nat n ->
  val_bits (n + nb) (N.lor x (N.shiftl v (N.of_nat n))) = val_bits n x ++ val_bits nb v.
Proof.
  intros Hx. rewrite val_bits_app. f_equal.
  - apply val_bits_ext. intros i Hi. rewrite N.lor_spec, N.shiftl_spec_low by exact Hi.
    apply orb_false_r.
  - apply val_bits_ext. intros i Hi.
    rewrite N.shiftr_spec', N.lor_spec, N.shiftl_spec_high' by lia.
    rewrite (testbit_high_lt x (N.of_nat n)) by (try exact Hx; lia).
    cbn [orb]. f_equal. lia.
Qed.

(* ---- the n low bytes ---------------------------------------------------------- *)
Lemma le_split_length n : forall x, length (le_split n x) = n.
Proof. induction n as [|n IH]; intros x; cbn [le_split length]; [reflexivity|]. rewrite IH. reflexivity. Qed.

Lemma le_split_lt n : forall x b, In b (le_split n x) -> b < 256.
Proof.
  induction n as [|n IH]; intros x b Hb; cbn [le_split] in Hb; [contradiction|].
  destruct Hb as [<-|Hb]; [apply N.mod_lt; lia | eapply IH; exact Hb].
Qed.

Lemma le_split_firstn k : forall n x, (k <= n)%nat -> firstn k (le_split n x) = le_split k x.
Proof.
  induction k as [|k IH]; intros n x Hk; [reflexivity|].
  destruct n as [|n]; [lia|]. cbn [le_split firstn]. f_equal. apply IH. lia.
Qed.

Lemma flat_le_split k : forall r x,
  flat_map (val_bits 8) (le_split k x) ++ val_bits r (N.shiftr x (N.of_nat (8 * k)))
  = val_bits (8 * k + r) x.
Proof.
  induction k as [|k IH]; intros r x.
  - cbn [le_split flat_map app Nat.mul Nat.add N.of_nat]. rewrite N.shiftr_0_r. reflexivity.
  - cbn [le_split flat_map]. rewrite <- app_assoc.
    assert (E : x / 256 = N.shiftr x (N.of_nat 8)).
    { change 256 with (2 ^ 8). rewrite <- N.shiftr_div_pow2. reflexivity. }
    rewrite E.
    replace (N.shiftr x (N.of_nat (8 * S k)))
      with (N.shiftr (N.shiftr x (N.of_nat 8)) (N.of_nat (8 * k)))
      by (rewrite N.shiftr_shiftr; f_equal; lia).
    rewrite IH.
    replace (8 * S k + r)%nat with (8 + (8 * k + r))%nat by lia.
    rewrite (val_bits_app 8 (8 * k + r) x). f_equal.
    change 256 with (2 ^ N.of_nat 8). apply val_bits_mod.
Qed.

Lemma le_split_nth n : forall x k, (k < n)%nat ->
  nth k (le_split n x) 0 = N.shiftr x (N.of_nat (8 * k)) mod 256.
Proof.
  induction n as [|n IH]; intros x k Hk; [lia|].
  cbn [le_split]. destruct k as [|k].
  - cbn [nth Nat.mul N.of_nat]. rewrite N.shiftr_0_r. reflexivity.
  - cbn [nth]. rewrite IH by lia. f_equal.
    change 256 with (2 ^ 8). rewrite <- N.shiftr_div_pow2, N.shiftr_shiftr. f_equal. lia.
Qed.

(* ---- "swap all the bits within each byte" -------------------------------------- *)
Definition swap_round (u hi lo r : N) : N :=
  N.lor (N.shiftr (N.land u hi) r) (N.shiftl (N.land u lo) r).

Lemma swap_round_bit u hi lo r i :
  N.testbit (swap_round u hi lo r) i =
  (N.testbit u (i + r) && N.testbit hi (i + r)) ||
  ((r <=? i) && (N.testbit u (i - r) && N.testbit lo (i - r))).
Proof.
  unfold swap_round. rewrite N.lor_spec, N.shiftr_spec', N.land_spec. f_equal.
  destruct (r <=? i) eqn:E.
  - rewrite N.shiftl_spec_high' by lia. rewrite N.land_spec. reflexivity.
  - rewrite N.shiftl_spec_low by lia. reflexivity.
Qed.

Lemma N_lt_cases n (P : N -> Prop) :
  (forall k, (k < n)%nat -> P (N.of_nat k)) -> forall i, i < N.of_nat n -> P i.
Proof. intros H i Hi. rewrite <- (N2Nat.id i). apply H. lia. Qed.

Tactic Notation "enum64" ident(k) ident(Hk) :=
  do 64 (try (destruct k as [|k]; [clear Hk|])); [..|exfalso; lia].

Ltac round_case f :=
  intros f; vm_compute;
  repeat match goal with |- context [f ?k] => destruct (f k) end; reflexivity.

Lemma swap_round1 u i : i < 64 ->
  N.testbit (swap_round u 0xaaaaaaaaaaaaaaaa 0x5555555555555555 1) i = N.testbit u (N.lxor i 1).
Proof.
  revert i. apply (N_lt_cases 64). intros k Hk. rewrite swap_round_bit.
  generalize (N.testbit u). enum64 k Hk; round_case f.
Qed.

Lemma swap_round2 u i : i < 64 ->
  N.testbit (swap_round u 0xcccccccccccccccc 0x3333333333333333 2) i = N.testbit u (N.lxor i 2).
Proof.
  revert i. apply (N_lt_cases 64). intros k Hk. rewrite swap_round_bit.
  generalize (N.testbit u). enum64 k Hk; round_case f.
Qed.

Lemma swap_round4 u i : i < 64 ->
  N.testbit (swap_round u 0xf0f0f0f0f0f0f0f0 0x0f0f0f0f0f0f0f0f 4) i = N.testbit u (N.lxor i 4).
Proof.
  revert i. apply (N_lt_cases 64). intros k Hk. rewrite swap_round_bit.
  generalize (N.testbit u). enum64 k Hk; round_case f.
Qed.

Lemma lxor_small i r : i < 64 -> r < 64 -> N.lxor i r < 64.
Proof.
  intros Hi Hr. change 64 with (2 ^ 6) in *. apply lt_pow2_of_bits. intros j Hj.
  rewrite N.lxor_spec, (testbit_high_lt i 6 j Hi Hj), (testbit_high_lt r 6 j Hr Hj). reflexivity.
Qed.

Lemma swap_bits_bit x i : i < 64 ->
  N.testbit (swap_bits x) i = N.testbit x (8 * (i / 8) + (7 - i mod 8)).
Proof.
  intros Hi. unfold swap_bits. cbv zeta.
  fold (swap_round x 0xaaaaaaaaaaaaaaaa 0x5555555555555555 1).
  set (u1 := swap_round x _ _ 1).
  fold (swap_round u1 0xcccccccccccccccc 0x3333333333333333 2).
  set (u2 := swap_round u1 _ _ 2).
  fold (swap_round u2 0xf0f0f0f0f0f0f0f0 0x0f0f0f0f0f0f0f0f 4).
  rewrite swap_round4 by exact Hi. unfold u2.
  rewrite swap_round2 by (apply lxor_small; lia). unfold u1.
  rewrite swap_round1 by (apply lxor_small; [apply lxor_small|]; lia).
  f_equal. revert i Hi. apply (N_lt_cases 64). intros k Hk.
  enum64 k Hk; vm_compute; reflexivity.
Qed.

Lemma swap_bits_lt x : x < 2 ^ 64 -> swap_bits x < 2 ^ 64.
Proof.
  intros Hx.
  assert (R : forall u hi lo r, u < 2 ^ 64 -> lo < 2 ^ (64 - r) -> r <= 64 ->
              swap_round u hi lo r < 2 ^ 64).
  { intros u hi lo r Hu Hlo Hr. unfold swap_round. apply lor_lt.
    - apply lt_pow2_of_bits. intros i Hi. rewrite N.shiftr_spec', N.land_spec.
      rewrite (testbit_high_lt u 64) by (try exact Hu; lia). reflexivity.
    - apply lt_pow2_of_bits. intros i Hi. rewrite N.shiftl_spec_high' by lia.
      rewrite N.land_spec, (testbit_high_lt lo (64 - r)) by (try exact Hlo; lia).
      apply andb_false_r. }
  unfold swap_bits. cbv zeta.
  apply (R _ 0xf0f0f0f0f0f0f0f0 0x0f0f0f0f0f0f0f0f 4); [|reflexivity|lia].
  apply (R _ 0xcccccccccccccccc 0x3333333333333333 2); [|reflexivity|lia].
  apply (R _ 0xaaaaaaaaaaaaaaaa 0x5555555555555555 1); [exact Hx|reflexivity|lia].
Qed.

Lemma testbit_rev8 c j : N.testbit (rev8 c) j = if j <? 8 then N.testbit c (7 - j) else false.
Proof.
  unfold rev8. rewrite testbit_bits_val, fast_rev_eq.
  destruct (j <? 8) eqn:E.
  - rewrite rev_nth by (rewrite val_bits_length; lia).
    rewrite val_bits_length, nth_val_bits by lia. f_equal. lia.
  - apply nth_overflow. rewrite rev_length, val_bits_length. lia.
Qed.

Lemma list_eq_nth {A} (d : A) (l1 l2 : list A) :
  length l1 = length l2 -> (forall k, (k < length l1)%nat -> nth k l1 d = nth k l2 d) -> l1 = l2.
Proof.
  revert l2. induction l1 as [|a l1 IH]; intros [|b l2] HL H; cbn [length] in *; try lia.
  - reflexivity.
  - f_equal.
    + apply (H 0%nat). lia.
    + apply IH; [lia|]. intros k Hk. apply (H (S k)). lia.
Qed.

(* the literal mask-and-shift code reverses the bits of each of the 8 bytes *)
Lemma swap_bits_bytes x : le_split 8 (swap_bits x) = map rev8 (le_split 8 x).
Proof.
  apply (list_eq_nth 0).
  - rewrite map_length, !le_split_length. reflexivity.
  - rewrite le_split_length. intros k Hk.
    change 0 with (rev8 0) at 2. rewrite map_nth, !le_split_nth by exact Hk.
    apply N.bits_inj. intros j.
    change 256 with (2 ^ 8). rewrite testbit_mod_pow2, testbit_rev8, testbit_mod_pow2.
    destruct (j <? 8) eqn:Ej; [|reflexivity].
    replace (7 - j <? 8) with true by lia.
    rewrite !N.shiftr_spec', swap_bits_bit by lia. f_equal. lia.
Qed.

Lemma ord_split (big : bool) x :
  le_split 8 (if big then swap_bits x else x) = map (ord big) (le_split 8 x).
Proof.
  destruct big.
  - apply swap_bits_bytes.
  - cbn [ord]. symmetry. apply map_id.
Qed.

(* ------------------------------------------------------------------------- *)
(* (2) packing                                                               *)
(* ------------------------------------------------------------------------- *)
Lemma stream_bits_app big a b : stream_bits big (a ++ b) = stream_bits big a ++ stream_bits big b.
Proof. unfold stream_bits. apply flat_map_app. Qed.

Lemma stream_bits_cons big c r :
  stream_bits big (c :: r) = val_bits 8 (ord big c) ++ stream_bits big r.
Proof. reflexivity. Qed.

Lemma val_bits_8 y : exists b0 b1 b2 b3 b4 b5 b6 b7, val_bits 8 y = [b0; b1; b2; b3; b4; b5; b6; b7].
Proof. cbn [val_bits]. repeat eexists. Qed.

Lemma pack_stream big d tail : bytes_ok d ->
  pack big (stream_bits big d ++ tail) = d ++ pack big tail.
Proof.
  intros Hd. induction Hd as [|b d Hb Hd IH]; [reflexivity|].
  change (stream_bits big (b :: d)) with (val_bits 8 (ord big b) ++ stream_bits big d).
  destruct (val_bits_8 (ord big b)) as (b0 & b1 & b2 & b3 & b4 & b5 & b6 & b7 & E).
  rewrite E. cbn [app pack]. rewrite IH. f_equal.
  rewrite <- E, bits_val_val_bits. change (2 ^ N.of_nat 8) with 256.
  rewrite N.mod_small by (apply ord_lt; exact Hb). apply ord_ord. exact Hb.
Qed.

Lemma pack_short big l : (length l < 8)%nat -> pack big l = [].
Proof.
  intros H. do 8 (destruct l as [|? l]; [reflexivity|]). cbn [length] in H. lia.
Qed.

Lemma pack_stream_short big d tail : bytes_ok d -> (length tail < 8)%nat ->
  pack big (stream_bits big d ++ tail) = d.
Proof. intros Hd Ht. rewrite pack_stream, pack_short, app_nil_r by assumption. reflexivity. Qed.

Lemma stream_pack big n : forall l, length l = (8 * n)%nat -> stream_bits big (pack big l) = l.
Proof.
  induction n as [|n IH]; intros l Hl.
  - destruct l; [reflexivity | cbn [length] in Hl; lia].
  - destruct l as [|c0 l]; [cbn [length] in Hl; lia|]. destruct l as [|c1 l]; [cbn [length] in Hl; lia|].
    destruct l as [|c2 l]; [cbn [length] in Hl; lia|]. destruct l as [|c3 l]; [cbn [length] in Hl; lia|].
    destruct l as [|c4 l]; [cbn [length] in Hl; lia|]. destruct l as [|c5 l]; [cbn [length] in Hl; lia|].
    destruct l as [|c6 l]; [cbn [length] in Hl; lia|]. destruct l as [|c7 l]; [cbn [length] in Hl; lia|].
    cbn [pack]. rewrite stream_bits_cons.
    rewrite IH by (cbn [length] in Hl; lia).
    set (g := [c0; c1; c2; c3; c4; c5; c6; c7]).
    assert (Hg : bits_val g < 256).
    { change 256 with (2 ^ N.of_nat (length g)). apply bits_val_bound. }
    rewrite ord_ord by exact Hg.
    change 8%nat with (length g) at 1. rewrite val_bits_bits_val. reflexivity.
Qed.

Lemma pack_bytes_ok big l : bytes_ok (pack big l).
Proof.
  assert (H : forall n l, (length l <= n)%nat -> bytes_ok (pack big l)).
  { induction n as [|n IH]; intros l' Hl.
    - destruct l'; [constructor | cbn [length] in Hl; lia].
    - do 8 (destruct l' as [|? l']; [constructor|]). cbn [pack]. constructor.
      + apply ord_lt.
        match goal with |- bits_val ?g < 256 => change 256 with (2 ^ N.of_nat (length g)) end.
        apply bits_val_bound.
      + apply IH. cbn [length] in Hl. lia. }
  apply (H (length l)). lia.
Qed.

(* ------------------------------------------------------------------------- *)
(* (3) the sink; what holds in ANY state, for ANY sink, with NO precondition  *)
(* ------------------------------------------------------------------------- *)
Ltac wprj := cbn [bw_sink w_big w_bufBits w_numBits w_buf w_cnt w_offset
                  k_script k_rest k_chunks fst snd v_offset v_bits v_sink].

Lemma wsink_data_cons script rest c chunks :
  wsink_data (mkWSink script rest (c :: chunks)) = wsink_data (mkWSink script rest chunks) ++ c.
Proof.
  unfold wsink_data. cbn [k_chunks rev]. rewrite concat_app. cbn [concat].
  rewrite app_nil_r. reflexivity.
Qed.

Lemma wsink_data_indep s1 r1 s2 r2 chunks :
  wsink_data (mkWSink s1 r1 chunks) = wsink_data (mkWSink s2 r2 chunks).
Proof. reflexivity. Qed.

Lemma wsink_write_spec s d :
  let '((n, e), s') := wsink_write s d in
  e = beh_err (next_beh s) /\
  wsink_data s' = wsink_data s ++ firstn n d /\ (n <= length d)%nat /\
  (next_beh s = SAccept -> n = length d) /\
  (forall k t, next_beh s = SFail k t -> n = Nat.min k (length d)) /\
  k_rest s' = k_rest s /\ k_script s' = tl (k_script s).
Proof.
  unfold wsink_write, next_beh. destruct s as [script rest chunks]. cbn [k_script k_rest k_chunks].
  assert (G : forall b script',
    let '(n, e, s') :=
      match b with
      | SAccept => (length d, None, mkWSink script' rest (d :: chunks))
      | SFail k tag => (Nat.min k (length d), Some (ESrc tag),
                        mkWSink script' rest (firstn (Nat.min k (length d)) d :: chunks))
      end in
    e = beh_err b /\
    wsink_data s' = wsink_data (mkWSink script rest chunks) ++ firstn n d /\ (n <= length d)%nat /\
    (b = SAccept -> n = length d) /\
    (forall k t, b = SFail k t -> n = Nat.min k (length d)) /\
    k_rest s' = rest /\ k_script s' = script').
  { intros [|k t] script'.
    - rewrite wsink_data_cons, firstn_all. repeat split; try reflexivity; try lia. intros k t H; discriminate.
    - rewrite wsink_data_cons. repeat split; try reflexivity; try lia; try discriminate.
      intros k' t' H; injection H as -> _; reflexivity. }
  destruct script as [|b r]; [apply (G rest []) | apply (G b r)].
Qed.

Lemma calls_app s l1 s1 l2 s2 : calls s l1 s1 -> calls s1 l2 s2 -> calls s (l1 ++ l2) s2.
Proof.
  intros H1 H2. induction H1 as [s|s d l s' H IH]; [exact H2|].
  cbn [app]. apply (calls_cons s d). apply IH. exact H2.
Qed.

Lemma calls_one s d : calls s [next_beh s] (snd (wsink_write s d)).
Proof. apply (calls_cons s d). apply calls_nil. Qed.

Lemma reported_nil e : (forall t, e <> Some (ESrc t)) -> reported [] e.
Proof. intros H. apply rep_ok; [constructor | exact H]. Qed.

Lemma reported_one b : reported [b] (beh_err b).
Proof.
  destruct b as [|k t]; cbn [beh_err].
  - apply rep_ok; [repeat constructor | intros t; discriminate].
  - apply (rep_fail [] k t). constructor.
Qed.

Lemma reported_None_inv l : reported l None -> Forall beh_accepts l.
Proof.
  intros H. inversion H as [l' e' Hl He|l' k t Hl]. exact Hl.
Qed.

Lemma reported_app l1 l2 e : reported l1 None -> reported l2 e -> reported (l1 ++ l2) e.
Proof.
  intros H1 H2. apply reported_None_inv in H1.
  inversion H2 as [l' e' Hl He|l' k t Hl]; subst.
  - apply rep_ok; [apply Forall_app; split; assumption | exact He].
  - rewrite app_assoc. apply rep_fail. apply Forall_app; split; assumption.
Qed.

Definition OffInv (p : pwr) : Prop :=
  w_offset p = Z.of_nat (length (wsink_data (bw_sink p))).

(* [Step p e p']: the unconditional facts about a transition with outcome e *)
Definition Step (p : pwr) (e : option err) (p' : pwr) : Prop :=
  exists l, calls (bw_sink p) l (bw_sink p') /\ reported l e /\ (OffInv p -> OffInv p').

Lemma Step_refl p e : (forall t, e <> Some (ESrc t)) -> Step p e p.
Proof. intros H. exists []. split; [apply calls_nil|]. split; [apply reported_nil; exact H | auto]. Qed.

Lemma Step_trans p e p1 p2 : Step p None p1 -> Step p1 e p2 -> Step p e p2.
Proof.
  intros (l1 & C1 & R1 & O1) (l2 & C2 & R2 & O2). exists (l1 ++ l2).
  split; [eapply calls_app; eassumption|]. split; [apply reported_app; assumption | auto].
Qed.

(* a transition that changes neither the sink nor Offset *)
Lemma Step_same p p' e : bw_sink p' = bw_sink p -> w_offset p' = w_offset p ->
  (forall t, e <> Some (ESrc t)) -> Step p e p'.
Proof.
  intros Hs Ho He. exists []. rewrite Hs. split; [apply calls_nil|].
  split; [apply reported_nil; exact He|]. unfold OffInv. rewrite Hs, Ho. auto.
Qed.

Lemma write_staged_step p :
  match write_staged p with
  | None => True
  | Some (e, p') => Step p e p'
  end.
Proof.
  unfold write_staged. destruct (512 <? w_cnt p); [exact I|].
  pose proof (wsink_write_spec (bw_sink p) (firstn (N.to_nat (w_cnt p)) (w_buf p))) as Hs.
  pose proof (calls_one (bw_sink p) (firstn (N.to_nat (w_cnt p)) (w_buf p))) as Hc.
  destruct (wsink_write (bw_sink p) _) as [[n e] s'].
  destruct Hs as (He & Hd & Hn & _). cbn [snd] in Hc.
  exists [next_beh (bw_sink p)]. wprj. split; [exact Hc|]. split; [rewrite He; apply reported_one|].
  unfold OffInv. wprj. intros Ho. rewrite Ho, Hd, app_length, firstn_length. lia.
Qed.

Lemma push_bits_step p : let '((n, e), p') := push_bits p in Step p e p'.
Proof.
  unfold push_bits.
  assert (G : forall p1, Step p None p1 ->
    let '(n, e, p') :=
      match put_uint64 (w_buf p1) (w_cnt p1) (if w_big p1 then swap_bits (w_bufBits p1) else w_bufBits p1) with
      | None => ((0, Some EPanic), p1)
      | Some buf' =>
        ((8 * (w_numBits p1 / 8), None),
         mkPwr (bw_sink p1) (w_big p1) (shr64 (w_bufBits p1) (8 * (w_numBits p1 / 8)))
               (w_numBits p1 - 8 * (w_numBits p1 / 8)) buf' (w_cnt p1 + w_numBits p1 / 8) (w_offset p1))
      end in Step p e p').
  { intros p1 H1. destruct (put_uint64 _ _ _) as [buf'|].
    - eapply Step_trans; [exact H1|]. apply Step_same; wprj; try reflexivity. intros t; discriminate.
    - eapply Step_trans; [exact H1|]. apply Step_refl. intros t; discriminate. }
  destruct (504 <=? w_cnt p).
  - pose proof (write_staged_step p) as Hw.
    destruct (write_staged p) as [[[e|] p1]|].
    + exact Hw.
    + apply G. exact Hw.
    + apply Step_refl. intros t; discriminate.
  - apply G. apply Step_refl. intros t; discriminate.
Qed.

Lemma add_bits_step p v nb : Step p None (add_bits p v nb).
Proof. apply Step_same; try reflexivity. intros t; discriminate. Qed.

Lemma write_bits_step p v nb : let '(e, p') := write_bits p v nb in Step p e p'.
Proof.
  unfold write_bits. pose proof (push_bits_step p) as H.
  destruct (push_bits p) as [[n [e|]] p1]; [exact H|].
  eapply Step_trans; [exact H | apply add_bits_step].
Qed.

Lemma try_write_bits_step p v nb : let '(ok, p') := try_write_bits p v nb in Step p None p'.
Proof.
  unfold try_write_bits. destruct (_ <? nb).
  - apply Step_refl. intros t; discriminate.
  - apply add_bits_step.
Qed.

Lemma wflush_step p : let '((r, e), p') := wflush p in Step p e p'.
Proof.
  unfold wflush. destruct ((w_numBits p <? 8) && (w_cnt p =? 0)).
  - apply Step_refl. intros t; discriminate.
  - pose proof (push_bits_step p) as H. destruct (push_bits p) as [[n [e|]] p1]; [exact H|].
    pose proof (write_staged_step p1) as Hw.
    destruct (write_staged p1) as [[e p2]|].
    + eapply Step_trans; eassumption.
    + eapply Step_trans; [exact H|]. apply Step_refl. intros t; discriminate.
Qed.

Lemma write_raw_step p bs : let '((n, e), p') := write_raw p bs in Step p e p'.
Proof.
  unfold write_raw.
  assert (G : forall p1, Step p None p1 ->
    let '(n, e, p') :=
      let '(n, e, s') := wsink_write (bw_sink p1) bs in
      (n, e, mkPwr s' (w_big p1) (w_bufBits p1) (w_numBits p1) (w_buf p1) (w_cnt p1)
                   (w_offset p1 + Z.of_nat n)%Z) in Step p e p').
  { intros p1 H1. pose proof (wsink_write_spec (bw_sink p1) bs) as Hs.
    pose proof (calls_one (bw_sink p1) bs) as Hc.
    destruct (wsink_write (bw_sink p1) bs) as [[n e] s'].
    destruct Hs as (He & Hd & Hn & _). cbn [snd] in Hc.
    eapply Step_trans; [exact H1|].
    exists [next_beh (bw_sink p1)]. wprj. split; [exact Hc|]. split; [rewrite He; apply reported_one|].
    unfold OffInv. wprj. intros Ho. rewrite Ho, Hd, app_length, firstn_length. lia. }
  destruct ((0 <? w_numBits p) || (0 <? w_cnt p)).
  - destruct (negb (w_numBits p mod 8 =? 0)).
    + apply Step_refl. intros t; discriminate.
    + pose proof (wflush_step p) as H. destruct (wflush p) as [[r [e|]] p1]; [exact H|].
      apply G. exact H.
  - apply G. apply Step_refl. intros t; discriminate.
Qed.

Lemma bwstep_step p o : let '(ob, p') := bwstep p o in Step p (obs_err ob) p'.
Proof.
  destruct o as [v nb|v nb|v|bs|v nb|v nb| |]; cbn [bwstep].
  - pose proof (write_bits_step p v nb) as H. destruct (write_bits p v nb) as [e p']. exact H.
  - pose proof (try_write_bits_step p v nb) as H. destruct (try_write_bits p v nb) as [ok p']. exact H.
  - apply add_bits_step.
  - pose proof (write_raw_step p bs) as H. destruct (write_raw p bs) as [[n e] p']. exact H.
  - pose proof (write_bits_step p v nb) as H. destruct (write_bits p v nb) as [e p']. exact H.
  - pose proof (try_write_bits_step p v nb) as H. destruct (try_write_bits p v nb) as [ok p']. exact H.
  - pose proof (wflush_step p) as H. destruct (wflush p) as [[r e] p']. exact H.
  - pose proof (push_bits_step p) as H. destruct (push_bits p) as [[n e] p']. exact H.
Qed.

(* (b2) *)
Theorem sink_error_never_swallowed_holds : sink_error_never_swallowed.
Proof.
  intros p o. pose proof (bwstep_step p o) as H. destruct (bwstep p o) as [ob p'].
  destruct H as (l & H1 & H2 & _). exists l. split; assumption.
Qed.

Lemma bwstep_view p o : obs_view (fst (bwstep p o)) = view (snd (bwstep p o)).
Proof.
  destruct o as [v nb|v nb|v|bs|v nb|v nb| |]; cbn [bwstep].
  - destruct (write_bits p v nb) as [e p']. reflexivity.
  - destruct (try_write_bits p v nb) as [ok p']. reflexivity.
  - reflexivity.
  - destruct (write_raw p bs) as [[n e] p']. reflexivity.
  - destruct (write_bits p v nb) as [e p']. reflexivity.
  - destruct (try_write_bits p v nb) as [ok p']. reflexivity.
  - destruct (wflush p) as [[r e] p']. reflexivity.
  - destruct (push_bits p) as [[n e] p']. reflexivity.
Qed.

Lemma bwrun_offset ops : forall p, OffInv p ->
  let '(obs, p') := bwrun p ops in
  Forall (fun ob => v_offset (obs_view ob) = Z.of_nat (length (wsink_data (v_sink (obs_view ob))))) obs /\
  OffInv p'.
Proof.
  induction ops as [|o ops IH]; intros p Hp; cbn [bwrun].
  - split; [constructor | exact Hp].
  - pose proof (bwstep_step p o) as Hs. pose proof (bwstep_view p o) as Hv.
    destruct (bwstep p o) as [ob p1]. cbn [fst snd] in Hv.
    destruct Hs as (_ & _ & _ & Ho). specialize (Ho Hp).
    assert (Hob : v_offset (obs_view ob) = Z.of_nat (length (wsink_data (v_sink (obs_view ob))))).
    { rewrite Hv. exact Ho. }
    destruct (rt_panic ob).
    + split; [repeat constructor; exact Hob | exact Ho].
    + specialize (IH p1 Ho). destruct (bwrun p1 ops) as [obs p2].
      destruct IH as [IH1 IH2]. split; [constructor; assumption | exact IH2].
Qed.

(* (b1) *)
Theorem offset_counts_accepted_holds : offset_counts_accepted.
Proof.
  intros big script rest ops.
  pose proof (bwrun_offset ops (winit script rest big)) as H.
  destruct (bwrun (winit script rest big) ops) as [obs p]. apply H. reflexivity.
Qed.

(* ------------------------------------------------------------------------- *)
(* (4) the invariant                                                         *)
(* ------------------------------------------------------------------------- *)
Lemma bytes_ok_app a b : bytes_ok a -> bytes_ok b -> bytes_ok (a ++ b).
Proof. intros Ha Hb. apply Forall_app. split; assumption. Qed.

Lemma bytes_ok_firstn n : forall l, bytes_ok l -> bytes_ok (firstn n l).
Proof.
  induction n as [|n IH]; intros l Hl; [constructor|].
  destruct Hl as [|b l Hb Hl]; [constructor|]. cbn [firstn]. constructor; [exact Hb | apply IH; exact Hl].
Qed.

Lemma bytes_ok_skipn n : forall l, bytes_ok l -> bytes_ok (skipn n l).
Proof.
  induction n as [|n IH]; intros l Hl; [exact Hl|].
  destruct Hl as [|b l Hb Hl]; [constructor|]. cbn [skipn]. apply IH. exact Hl.
Qed.

Lemma bytes_ok_le_split n x : bytes_ok (le_split n x).
Proof. apply Forall_forall. intros b Hb. eapply le_split_lt. exact Hb. Qed.

Lemma stream_ord_map big l : bytes_ok l ->
  stream_bits big (map (ord big) l) = flat_map (val_bits 8) l.
Proof.
  intros Hl. induction Hl as [|b l Hb Hl IH]; [reflexivity|].
  cbn [map flat_map]. rewrite stream_bits_cons, IH, ord_ord by exact Hb. reflexivity.
Qed.

Lemma shr64_eq x s : x < 2 ^ 64 -> shr64 x s = N.shiftr x s.
Proof.
  intros Hx. unfold shr64. destruct (s <? 64) eqn:E; [reflexivity|].
  symmetry. apply N.bits_inj. intros i. rewrite N.shiftr_spec', N.bits_0.
  apply (testbit_high_lt x 64); [exact Hx | lia].
Qed.

Lemma shiftr_lt x n s : x < 2 ^ n -> s <= n -> N.shiftr x s < 2 ^ (n - s).
Proof.
  intros Hx Hs. apply lt_pow2_of_bits. intros i Hi. rewrite N.shiftr_spec'.
  apply (testbit_high_lt x n); [exact Hx | lia].
Qed.

Lemma shl64_exact v nb n : v < 2 ^ nb -> n + nb <= 64 -> shl64 v n = N.shiftl v n.
Proof.
  intros Hv Hn. unfold shl64, u64. destruct (n <? 64) eqn:E.
  - apply N.mod_small. eapply N.lt_le_trans; [apply shiftl_lt; exact Hv|].
    apply pow2_le_mono. exact Hn.
  - assert (nb = 0) by lia. subst nb. change (2 ^ 0) with 1 in Hv.
    assert (v = 0) by lia. subst v. rewrite N.shiftl_0_l. reflexivity.
Qed.

Lemma u64_small x : x <= 64 -> u64 x = x.
Proof.
  intros H. unfold u64. apply N.mod_small. eapply N.le_lt_trans; [exact H|]. reflexivity.
Qed.

Definition SClean (s : wsink) : Prop := Forall beh_clean (k_script s) /\ beh_clean (k_rest s).
Definition SFF (s : wsink) : Prop := Forall beh_accepts (k_script s) /\ beh_accepts (k_rest s).

Lemma next_beh_clean s : SClean s -> beh_clean (next_beh s).
Proof.
  intros [H1 H2]. unfold next_beh. destruct (k_script s) as [|b r]; [exact H2|].
  inversion H1; assumption.
Qed.

Lemma next_beh_ff s : SFF s -> next_beh s = SAccept.
Proof.
  intros [H1 H2]. unfold next_beh. destruct (k_script s) as [|b r]; [exact H2|].
  inversion H1; assumption.
Qed.

Lemma Forall_tl {A} (P : A -> Prop) l : Forall P l -> Forall P (tl l).
Proof. intros H. destruct H; [constructor | assumption]. Qed.

Lemma calls_clean s l s' : calls s l s' -> SClean s -> SClean s'.
Proof.
  intros H. induction H as [s|s d l s' H IH]; intros Hc; [exact Hc|].
  apply IH. pose proof (wsink_write_spec s d) as Hs.
  destruct (wsink_write s d) as [[n e] s1]. cbn [snd].
  destruct Hs as (_ & _ & _ & _ & _ & Hr & Hk). destruct Hc as [H1 H2].
  split; [rewrite Hk; apply Forall_tl; exact H1 | rewrite Hr; exact H2].
Qed.

Lemma calls_ff s l s' : calls s l s' -> SFF s -> SFF s' /\ Forall beh_accepts l.
Proof.
  intros H. induction H as [s|s d l s' H IH]; intros Hc; [split; [exact Hc | constructor]|].
  assert (H1 : SFF (snd (wsink_write s d))).
  { pose proof (wsink_write_spec s d) as Hs.
    destruct (wsink_write s d) as [[n e] s1]. cbn [snd].
    destruct Hs as (_ & _ & _ & _ & _ & Hr & Hk). destruct Hc as [H1 H2].
    split; [rewrite Hk; apply Forall_tl; exact H1 | rewrite Hr; exact H2]. }
  destruct (IH H1) as [H2 H3]. split; [exact H2|]. constructor; [apply next_beh_ff; exact Hc | exact H3].
Qed.

Lemma reported_ff l e : reported l e -> Forall beh_accepts l -> forall t, e <> Some (ESrc t).
Proof.
  intros H Hl. inversion H as [l' e' Hl' He|l' k t' Hl']; subst; [exact He|].
  apply Forall_app in Hl as [_ Hl]. inversion Hl as [|b r Hb Hr]; subst. discriminate Hb.
Qed.

Section Writer.
Variable big : bool.

Record Inv (bits : list bool) (p : pwr) : Prop := mkInv {
  i_big : w_big p = big;
  i_len : length (w_buf p) = 512%nat;
  i_buf : bytes_ok (w_buf p);
  i_sink : bytes_ok (wsink_data (bw_sink p));
  i_cnt : w_cnt p <= 511;
  i_nb : w_numBits p <= 64;
  i_lt : w_bufBits p < 2 ^ w_numBits p;
  i_off : OffInv p;
  i_bits : stream_bits big (wsink_data (bw_sink p) ++ firstn (N.to_nat (w_cnt p)) (w_buf p))
           ++ val_bits (N.to_nat (w_numBits p)) (w_bufBits p) = bits
}.

(* what survives a sink failure that accepted only part of the staged bytes *)
Record Pfx (bits : list bool) (p : pwr) : Prop := mkPfx {
  x_off : OffInv p;
  x_cnt : (8 * w_offset p + 8 * Z.of_N (w_cnt p) + Z.of_N (w_numBits p) = Z.of_nat (length bits))%Z;
  x_pre : prefix_of (wsink_data (bw_sink p)) (pack big bits)
}.

Lemma Inv_init script rest : Inv [] (winit script rest big).
Proof.
  unfold winit. split; wprj; try reflexivity; try lia.
  - apply Forall_forall. intros b Hb. apply repeat_spec in Hb. subst b. reflexivity.
  - constructor.
Qed.

Lemma Inv_length bits p : Inv bits p ->
  length bits = (8 * (length (wsink_data (bw_sink p)) + N.to_nat (w_cnt p)) + N.to_nat (w_numBits p))%nat.
Proof.
  intros [H1 H2 H3 H4 H5 H6 H7 H8 H9]. rewrite <- H9.
  rewrite app_length, stream_bits_length, app_length, firstn_length, val_bits_length. lia.
Qed.

Lemma Inv_Pfx bits p : Inv bits p -> Pfx bits p.
Proof.
  intros HI. pose proof (Inv_length bits p HI) as HL.
  destruct HI as [H1 H2 H3 H4 H5 H6 H7 H8 H9]. split.
  - exact H8.
  - unfold OffInv in H8. lia.
  - rewrite <- H9, pack_stream by (apply bytes_ok_app; [exact H4 | apply bytes_ok_firstn; exact H3]).
    rewrite <- app_assoc. apply prefix_of_app.
Qed.

Lemma Pfx_view bits p : Pfx bits p -> view_ok big bits (view p).
Proof.
  intros [H1 H2 H3]. unfold view_ok, view. wprj. split; [exact H1|]. split; [|exact H3].
  unfold bits_written. rewrite H2. reflexivity.
Qed.

Lemma Inv_view bits p : Inv bits p -> view_ok big bits (view p) /\ withheld_ok bits (view p).
Proof.
  intros HI. split; [apply Pfx_view, Inv_Pfx; exact HI|].
  unfold withheld_ok, view. wprj. rewrite (Inv_length bits p HI). destruct HI. lia.
Qed.

Lemma Inv_flushed bits p : Inv bits p -> w_cnt p = 0 -> w_numBits p < 8 ->
  wsink_data (bw_sink p) = pack big bits.
Proof.
  intros [H1 H2 H3 H4 H5 H6 H7 H8 H9] Hc Hn. rewrite <- H9, Hc. cbn [N.to_nat firstn].
  rewrite app_nil_r. symmetry. apply pack_stream_short; [exact H4|].
  rewrite val_bits_length. lia.
Qed.

(* ---- wr.Write(buf[:cntBuf]) ------------------------------------------------------ *)
Lemma write_staged_inv bits p : Inv bits p ->
  exists e p', write_staged p = Some (e, p') /\
    w_big p' = w_big p /\ w_bufBits p' = w_bufBits p /\ w_numBits p' = w_numBits p /\
    w_buf p' = w_buf p /\
    match e with
    | None => Inv bits p' /\ w_cnt p' = 0
    | Some (ESrc _) => Pfx bits p' /\ (SClean (bw_sink p) -> Inv bits p')
    | Some _ => False
    end.
Proof.
  intros HI. pose proof (Inv_Pfx bits p HI) as HP. pose proof (Inv_length bits p HI) as HL.
  destruct HI as [H1 H2 H3 H4 H5 H6 H7 H8 H9]. destruct HP as [P1 P2 P3].
  unfold write_staged. replace (512 <? w_cnt p) with false by lia.
  set (d := firstn (N.to_nat (w_cnt p)) (w_buf p)) in *.
  assert (Hd : length d = N.to_nat (w_cnt p)) by (unfold d; rewrite firstn_length; lia).
  pose proof (wsink_write_spec (bw_sink p) d) as Hs.
  destruct (wsink_write (bw_sink p) d) as [[n e] s'].
  destruct Hs as (He & Hdat & Hn & Hacc & Hfail & _).
  eexists _, _. split; [reflexivity|]. wprj. do 4 (split; [reflexivity|]).
  destruct (next_beh (bw_sink p)) as [|k t] eqn:Eb; cbn [beh_err] in He; subst e.
  - specialize (Hacc eq_refl). subst n. rewrite firstn_all in Hdat.
    split; [|lia]. split; wprj; try assumption; try lia.
    + rewrite Hdat. apply bytes_ok_app; [exact H4 | apply bytes_ok_firstn; exact H3].
    + unfold OffInv in *. wprj. rewrite Hdat, app_length. lia.
    + replace (N.to_nat (w_cnt p - N.of_nat (length d))) with 0%nat by lia.
      cbn [firstn]. rewrite Hdat, app_nil_r. exact H9.
  - assert (HPfx : forall n', (n' <= length d)%nat ->
              wsink_data s' = wsink_data (bw_sink p) ++ firstn n' d ->
              Pfx bits (mkPwr s' (w_big p) (w_bufBits p) (w_numBits p) (w_buf p)
                              (w_cnt p - N.of_nat n') (w_offset p + Z.of_nat n'))).
    { intros n' Hn' Hdat'. split; wprj.
      - unfold OffInv in *. wprj. rewrite Hdat', app_length, firstn_length. lia.
      - lia.
      - rewrite Hdat', <- H9. fold d.
        rewrite pack_stream by (apply bytes_ok_app; [exact H4 | apply bytes_ok_firstn; exact H3]).
        rewrite <- (firstn_skipn n' d) at 2. rewrite <- !app_assoc. rewrite app_assoc.
        apply prefix_of_app. }
    split; [apply HPfx; assumption|].
    intros Hc. apply next_beh_clean in Hc. rewrite Eb in Hc. cbn [beh_clean] in Hc. subst k.
    rewrite (Hfail 0%nat t eq_refl) in *. cbn [Nat.min firstn] in *. rewrite app_nil_r in Hdat.
    split; wprj; try assumption; try lia.
    + rewrite Hdat. exact H4.
    + unfold OffInv in *. wprj. rewrite Hdat. lia.
    + rewrite Hdat. replace (w_cnt p - N.of_nat 0) with (w_cnt p) by lia. exact H9.
Qed.

(* ---- the second half of PushBits ---------------------------------------------------- *)
Lemma push_tail_inv bits p : Inv bits p -> w_cnt p <= 503 ->
  exists buf',
    put_uint64 (w_buf p) (w_cnt p) (if w_big p then swap_bits (w_bufBits p) else w_bufBits p) = Some buf' /\
    Inv bits (mkPwr (bw_sink p) (w_big p) (shr64 (w_bufBits p) (8 * (w_numBits p / 8)))
                    (w_numBits p - 8 * (w_numBits p / 8)) buf' (w_cnt p + w_numBits p / 8) (w_offset p)).
Proof.
  intros [H1 H2 H3 H4 H5 H6 H7 H8 H9] Hc.
  unfold put_uint64. replace (504 <? w_cnt p) with false by lia.
  eexists. split; [reflexivity|].
  set (x := w_bufBits p) in *. set (n := w_numBits p) in *. set (c := w_cnt p) in *.
  set (k := n / 8).
  assert (Hx64 : x < 2 ^ 64).
  { eapply N.lt_le_trans; [exact H7|]. apply pow2_le_mono. exact H6. }
  rewrite ord_split, H1.
  set (le := map (ord big) (le_split 8 x)).
  assert (Hle : length le = 8%nat) by (unfold le; rewrite map_length, le_split_length; reflexivity).
  assert (Hfc : length (firstn (N.to_nat c) (w_buf p)) = N.to_nat c) by (rewrite firstn_length; lia).
  split; wprj; try assumption; try lia.
  - rewrite !app_length, Hfc, Hle, skipn_length. lia.
  - apply bytes_ok_app; [apply bytes_ok_firstn; exact H3|].
    apply bytes_ok_app; [|apply bytes_ok_skipn; exact H3].
    unfold le. apply Forall_forall. intros b Hb. apply in_map_iff in Hb as (b' & <- & Hb').
    apply ord_lt. eapply le_split_lt. exact Hb'.
  - rewrite shr64_eq by exact Hx64. apply shiftr_lt; [exact H7 | unfold k; lia].
  - rewrite shr64_eq by exact Hx64.
    replace (N.to_nat (c + k)) with (N.to_nat c + N.to_nat k)%nat by lia.
    rewrite firstn_app, Hfc.
    rewrite (firstn_all2 (firstn (N.to_nat c) (w_buf p))) by (rewrite Hfc; lia).
    replace (N.to_nat c + N.to_nat k - N.to_nat c)%nat with (N.to_nat k) by lia.
    rewrite firstn_app, Hle.
    replace (N.to_nat k - 8)%nat with 0%nat by (unfold k; lia). cbn [firstn]. rewrite app_nil_r.
    unfold le. rewrite firstn_map, le_split_firstn by (unfold k; lia).
    rewrite app_assoc, stream_bits_app, stream_ord_map by apply bytes_ok_le_split.
    rewrite <- app_assoc.
    replace (8 * k) with (N.of_nat (8 * N.to_nat k)) by lia.
    rewrite flat_le_split.
    replace (8 * N.to_nat k + N.to_nat (n - N.of_nat (8 * N.to_nat k)))%nat with (N.to_nat n)
      by (unfold k; lia).
    exact H9.
Qed.

(* ---- PushBits ------------------------------------------------------------------------- *)
Lemma push_bits_inv bits p : Inv bits p ->
  let '((n, e), p') := push_bits p in
  match e with
  | None => Inv bits p' /\ w_numBits p' < 8
  | Some (ESrc _) => n = 0 /\ Pfx bits p' /\ (SClean (bw_sink p) -> Inv bits p')
  | Some _ => False
  end.
Proof.
  intros HI. unfold push_bits.
  assert (G : forall p1, Inv bits p1 -> w_cnt p1 <= 503 ->
    let '(n, e, p') :=
      match put_uint64 (w_buf p1) (w_cnt p1) (if w_big p1 then swap_bits (w_bufBits p1) else w_bufBits p1) with
      | None => ((0, Some EPanic), p1)
      | Some buf' =>
        ((8 * (w_numBits p1 / 8), None),
         mkPwr (bw_sink p1) (w_big p1) (shr64 (w_bufBits p1) (8 * (w_numBits p1 / 8)))
               (w_numBits p1 - 8 * (w_numBits p1 / 8)) buf' (w_cnt p1 + w_numBits p1 / 8) (w_offset p1))
      end in
    match e with
    | None => Inv bits p' /\ w_numBits p' < 8
    | Some (ESrc _) => n = 0 /\ Pfx bits p' /\ (SClean (bw_sink p) -> Inv bits p')
    | Some _ => False
    end).
  { intros p1 H1 Hc. destruct (push_tail_inv bits p1 H1 Hc) as (buf' & -> & HI').
    split; [exact HI'|]. wprj. lia. }
  destruct (504 <=? w_cnt p) eqn:E.
  - destruct (write_staged_inv bits p HI) as (e & p1 & -> & _ & _ & _ & _ & He).
    destruct e as [e|].
    + destruct e; try contradiction. split; [reflexivity | exact He].
    + destruct He as [H1 H2]. apply G; [exact H1 | lia].
  - apply G; [exact HI | lia].
Qed.

(* ---- bufBits |= v << numBits; numBits += nb --------------------------------------------- *)
Lemma add_bits_inv bits p v nb : Inv bits p -> v < 2 ^ nb -> w_numBits p + nb <= 64 ->
  Inv (bits ++ val_bits (N.to_nat nb) v) (add_bits p v nb).
Proof.
  intros [H1 H2 H3 H4 H5 H6 H7 H8 H9] Hv Hn. unfold add_bits.
  rewrite (shl64_exact v nb) by assumption. rewrite u64_small by exact Hn.
  split; wprj; try assumption.
  - apply lor_lt.
    + eapply N.lt_le_trans; [exact H7|]. apply pow2_le_mono. lia.
    + apply shiftl_lt. exact Hv.
  - rewrite <- H9, <- app_assoc. f_equal.
    replace (N.to_nat (w_numBits p + nb)) with (N.to_nat (w_numBits p) + N.to_nat nb)%nat by lia.
    rewrite <- (N2Nat.id (w_numBits p)) at 2.
    apply val_bits_lor_shiftl. rewrite N2Nat.id. exact H7.
Qed.

Lemma Inv_mod8 bits p : Inv bits p -> (length bits mod 8 = N.to_nat (w_numBits p mod 8))%nat.
Proof. intros HI. rewrite (Inv_length bits p HI). lia. Qed.

(* ---- WriteBits / WriteSymbol --------------------------------------------------------------- *)
Lemma write_bits_inv bits p v nb : Inv bits p ->
  v < 2 ^ nb -> N.of_nat (length bits mod 8) + nb <= 64 ->
  let '(e, p') := write_bits p v nb in
  match e with
  | None => Inv (bits ++ val_bits (N.to_nat nb) v) p'
  | Some (ESrc _) => Pfx bits p' /\ (SClean (bw_sink p) -> Inv bits p')
  | Some _ => False
  end.
Proof.
  intros HI Hv Hn. unfold write_bits. pose proof (push_bits_inv bits p HI) as Hp.
  destruct (push_bits p) as [[n [e|]] p1].
  - destruct e; try contradiction. apply Hp.
  - destruct Hp as [H1 H2]. apply add_bits_inv; [exact H1 | exact Hv|].
    pose proof (Inv_mod8 bits p1 H1). lia.
Qed.

(* ---- TryWriteBits / TryWriteSymbol ------------------------------------------------------------ *)
Lemma try_write_bits_inv bits p v nb : Inv bits p -> v < 2 ^ nb ->
  let '(ok, p') := try_write_bits p v nb in
  if ok then Inv (bits ++ val_bits (N.to_nat nb) v) p' else p' = p /\ 0 < nb.
Proof.
  intros HI Hv. unfold try_write_bits.
  assert (E : u64 (64 + 2 ^ 64 - w_numBits p) = 64 - w_numBits p).
  { destruct HI. unfold u64. change (2 ^ 64) with 18446744073709551616. lia. }
  rewrite E. destruct (64 - w_numBits p <? nb) eqn:El.
  - split; [reflexivity | lia].
  - apply add_bits_inv; [exact HI | exact Hv|]. destruct HI. lia.
Qed.

(* ---- WritePads ------------------------------------------------------------------------------------ *)
Lemma write_pads_inv bits p v : Inv bits p -> v < 2 ^ N.of_nat (pad_count (length bits)) ->
  Inv (bits ++ val_bits (pad_count (length bits)) v) (write_pads p v).
Proof.
  intros HI Hv. unfold write_pads.
  assert (E : u64 (2 ^ 64 - w_numBits p) mod 8 = N.of_nat (pad_count (length bits))).
  { pose proof (Inv_mod8 bits p HI) as Hm. destruct HI. unfold u64, pad_count.
    change (2 ^ 64) with 18446744073709551616. lia. }
  rewrite E. rewrite <- (Nat2N.id (pad_count (length bits))) at 1.
  apply add_bits_inv; [exact HI | exact Hv|].
  pose proof (Inv_mod8 bits p HI) as Hm. destruct HI. unfold pad_count. lia.
Qed.

(* ---- Flush --------------------------------------------------------------------------------------------- *)
Lemma wflush_inv bits p : Inv bits p ->
  let '((r, e), p') := wflush p in
  r = w_offset p' /\
  match e with
  | None => Inv bits p' /\ w_cnt p' = 0 /\ w_numBits p' < 8
  | Some (ESrc _) => Pfx bits p' /\ (SClean (bw_sink p) -> Inv bits p')
  | Some _ => False
  end.
Proof.
  intros HI. unfold wflush. destruct ((w_numBits p <? 8) && (w_cnt p =? 0)) eqn:E.
  - split; [reflexivity|]. split; [exact HI | lia].
  - pose proof (push_bits_inv bits p HI) as Hp. pose proof (push_bits_step p) as Hs.
    destruct (push_bits p) as [[n [e|]] p1].
    + split; [reflexivity|]. destruct e; try contradiction. apply Hp.
    + destruct Hp as [H1 H2].
      destruct (write_staged_inv bits p1 H1) as (e & p2 & -> & _ & _ & Hnb & _ & He).
      split; [reflexivity|]. destruct e as [e|].
      * destruct e; try contradiction. destruct He as [He1 He2]. split; [exact He1|].
        intros Hc. apply He2. destruct Hs as (l & Hl & _). eapply calls_clean; eassumption.
      * destruct He as [He1 He2]. split; [exact He1|]. split; [exact He2 | rewrite Hnb; exact H2].
Qed.

(* ---- raw Write ------------------------------------------------------------------------------------------- *)
Lemma write_raw_inv bits p bs : Inv bits p -> bytes_ok bs ->
  let '((n, e), p') := write_raw p bs in
  match e with
  | None => (length bits mod 8 = 0)%nat /\ n = length bs /\
            Inv (bits ++ stream_bits big bs) p' /\
            wsink_data (bw_sink p') = pack big (bits ++ stream_bits big bs)
  | Some EInvalid => (length bits mod 8 <> 0)%nat /\ n = 0%nat /\ p' = p
  | Some (ESrc _) => (n <= length bs)%nat /\ Pfx (bits ++ stream_bits big (firstn n bs)) p' /\
                     (SClean (bw_sink p) -> Inv (bits ++ stream_bits big (firstn n bs)) p')
  | Some _ => False
  end.
Proof.
  intros HI Hbs. unfold write_raw.
  assert (G : forall p1, Inv bits p1 -> w_cnt p1 = 0 -> w_numBits p1 = 0 ->
    let '(n, e, p') :=
      let '(n, e, s') := wsink_write (bw_sink p1) bs in
      (n, e, mkPwr s' (w_big p1) (w_bufBits p1) (w_numBits p1) (w_buf p1) (w_cnt p1)
                   (w_offset p1 + Z.of_nat n)%Z) in
    match e with
    | None => (length bits mod 8 = 0)%nat /\ n = length bs /\
              Inv (bits ++ stream_bits big bs) p' /\
              wsink_data (bw_sink p') = pack big (bits ++ stream_bits big bs)
    | Some EInvalid => (length bits mod 8 <> 0)%nat /\ n = 0%nat /\ p' = p
    | Some (ESrc _) => (n <= length bs)%nat /\ Pfx (bits ++ stream_bits big (firstn n bs)) p' /\
                       (SClean (bw_sink p) -> Inv (bits ++ stream_bits big (firstn n bs)) p')
    | Some _ => False
    end).
  { intros p1 H1 Hc Hn0. pose proof (Inv_mod8 bits p1 H1) as Hm.
    pose proof (wsink_write_spec (bw_sink p1) bs) as Hs.
    destruct (wsink_write (bw_sink p1) bs) as [[n e] s'].
    destruct Hs as (He & Hdat & Hn & Hacc & _).
    assert (HInv : Inv (bits ++ stream_bits big (firstn n bs))
                       (mkPwr s' (w_big p1) (w_bufBits p1) (w_numBits p1) (w_buf p1) (w_cnt p1)
                              (w_offset p1 + Z.of_nat n))).
    { destruct H1 as [I1 I2 I3 I4 I5 I6 I7 I8 I9]. split; wprj; try assumption.
      - rewrite Hdat. apply bytes_ok_app; [exact I4 | apply bytes_ok_firstn; exact Hbs].
      - unfold OffInv in *. wprj. rewrite Hdat, app_length, firstn_length. lia.
      - rewrite <- I9, Hc, Hn0, Hdat. cbn [N.to_nat firstn val_bits].
        rewrite !app_nil_r. apply stream_bits_app. }
    destruct (next_beh (bw_sink p1)) as [|k t]; cbn [beh_err] in He; subst e.
    - specialize (Hacc eq_refl). subst n. rewrite firstn_all in HInv.
      split; [rewrite Hm, Hn0; reflexivity|]. split; [reflexivity|]. split; [exact HInv|].
      apply Inv_flushed; [exact HInv | exact Hc | wprj; lia].
    - split; [exact Hn|]. split; [apply Inv_Pfx; exact HInv | intros _; exact HInv]. }
  destruct ((0 <? w_numBits p) || (0 <? w_cnt p)) eqn:E.
  - destruct (w_numBits p mod 8 =? 0) eqn:Em; cbn [negb].
    + pose proof (wflush_inv bits p HI) as Hf. pose proof (Inv_mod8 bits p HI) as Hm.
      destruct (wflush p) as [[r [e|]] p1].
      * destruct Hf as [_ Hf]. destruct e; try contradiction.
        cbn [firstn stream_bits flat_map]. rewrite app_nil_r. split; [lia | exact Hf].
      * destruct Hf as (_ & H1 & H2 & H3). pose proof (Inv_mod8 bits p1 H1) as Hm1.
        apply G; [exact H1 | exact H2 | lia].
    + pose proof (Inv_mod8 bits p HI) as Hm. split; [lia|]. split; reflexivity.
  - apply G; [exact HI | lia | lia].
Qed.

(* ------------------------------------------------------------------------- *)
(* (5) one operation against the specification                                *)
(* ------------------------------------------------------------------------- *)
Definition step_post (bits : list bool) (p : pwr) (o : bwop) (ob : wobs) (p' : pwr) : Prop :=
  obs_err ob <> Some EPanic /\
  match obs_err ob with
  | Some (ESrc _) =>
    wobs_failed big bits o ob /\ (SClean (bw_sink p) -> Inv (weffect big bits o ob) p')
  | _ => wobs_ok big bits o ob /\ Inv (weffect big bits o ob) p'
  end.

Lemma step_bits bits p v nb (o : bwop) : Inv bits p ->
  v < 2 ^ nb -> N.of_nat (length bits mod 8) + nb <= 64 ->
  o = BWBits v nb \/ o = BWChunk v nb ->
  let '(e, p') := write_bits p v nb in step_post bits p o (OWBits e (view p')) p'.
Proof.
  intros HI Hv Hn Ho. pose proof (write_bits_inv bits p v nb HI Hv Hn) as H.
  destruct (write_bits p v nb) as [[e|] p']; unfold step_post; cbn [obs_err].
  - destruct e; try contradiction. split; [discriminate|]. destruct H as [H1 H2].
    split; [|destruct Ho as [-> | ->]; exact H2].
    unfold wobs_failed. destruct Ho as [-> | ->]; cbn [weffect obs_view];
      (split; [apply Pfx_view; exact H1 | exact I]).
  - split; [discriminate|].
    split; [|destruct Ho as [-> | ->]; exact H].
    unfold wobs_ok. destruct Ho as [-> | ->]; cbn [weffect obs_view];
      destruct (Inv_view _ _ H) as [V1 V2]; (split; [exact V1|]; split; [exact V2 | reflexivity]).
Qed.

Lemma step_try bits p v nb (o : bwop) : Inv bits p -> v < 2 ^ nb ->
  o = BWTryBits v nb \/ o = BWTryChunk v nb ->
  let '(ok, p') := try_write_bits p v nb in step_post bits p o (OWTry ok (view p')) p'.
Proof.
  intros HI Hv Ho. pose proof (try_write_bits_inv bits p v nb HI Hv) as H.
  destruct (try_write_bits p v nb) as [[|] p']; unfold step_post; cbn [obs_err];
    (split; [discriminate|]).
  - split; [|destruct Ho as [-> | ->]; exact H].
    unfold wobs_ok. destruct Ho as [-> | ->]; cbn [weffect obs_view];
      destruct (Inv_view _ _ H) as [V1 V2];
      (split; [exact V1|]; split; [exact V2|]; exists true; split; [reflexivity | discriminate]).
  - destruct H as [-> Hnb]. split; [|destruct Ho as [-> | ->]; exact HI].
    unfold wobs_ok. destruct Ho as [-> | ->]; cbn [weffect obs_view];
      destruct (Inv_view _ _ HI) as [V1 V2];
      (split; [exact V1|]; split; [exact V2|]; exists false; split; [reflexivity | intros _; exact Hnb]).
Qed.

Lemma bwstep_inv bits p o : Inv bits p -> wpre bits o ->
  let '(ob, p') := bwstep p o in step_post bits p o ob p'.
Proof.
  intros HI Hpre. destruct o as [v nb|v nb|v|bs|v nb|v nb| |]; cbn [bwstep wpre] in *.
  - destruct Hpre as [Hv Hn].
    pose proof (step_bits bits p v nb (BWBits v nb) HI Hv Hn (or_introl eq_refl)) as H.
    destruct (write_bits p v nb) as [e p']. exact H.
  - pose proof (step_try bits p v nb (BWTryBits v nb) HI Hpre (or_introl eq_refl)) as H.
    destruct (try_write_bits p v nb) as [ok p']. exact H.
  - pose proof (write_pads_inv bits p v HI Hpre) as H.
    unfold step_post; cbn [obs_err]. split; [discriminate|]. split; [|exact H].
    unfold wobs_ok. cbn [weffect obs_view]. destruct (Inv_view _ _ H) as [V1 V2].
    split; [exact V1|]. split; [exact V2 | reflexivity].
  - pose proof (write_raw_inv bits p bs HI Hpre) as H.
    destruct (write_raw p bs) as [[n [e|]] p']; unfold step_post; cbn [obs_err].
    + destruct e; try contradiction.
      * (* Invalid *)
        destruct H as (Hm & -> & ->). split; [discriminate|].
        assert (E : weffect big bits (BWRaw bs) (OWRaw 0 (Some EInvalid) (view p)) = bits).
        { cbn [weffect firstn]. apply app_nil_r. }
        rewrite E. split; [|exact HI].
        unfold wobs_ok. rewrite E. cbn [obs_view]. destruct (Inv_view _ _ HI) as [V1 V2].
        split; [exact V1|]. split; [exact V2|].
        replace (Nat.eqb (length bits mod 8) 0) with false by (symmetry; apply Nat.eqb_neq; exact Hm).
        reflexivity.
      * (* the sink failed *)
        destruct H as (Hn & H1 & H2). split; [discriminate|]. split; [|exact H2].
        unfold wobs_failed. cbn [weffect obs_view]. split; [apply Pfx_view; exact H1 | exact Hn].
    + destruct H as (Hm & -> & H1 & H2). split; [discriminate|].
      assert (E : weffect big bits (BWRaw bs) (OWRaw (length bs) None (view p')) = bits ++ stream_bits big bs).
      { cbn [weffect]. rewrite firstn_all. reflexivity. }
      rewrite E. split; [|exact H1].
      unfold wobs_ok. rewrite E. cbn [obs_view]. destruct (Inv_view _ _ H1) as [V1 V2].
      split; [exact V1|]. split; [exact V2|].
      replace (Nat.eqb (length bits mod 8) 0) with true by (symmetry; apply Nat.eqb_eq; exact Hm).
      split; [reflexivity | exact H2].
  - destruct Hpre as [Hv Hn].
    pose proof (step_bits bits p v nb (BWChunk v nb) HI Hv Hn (or_intror eq_refl)) as H.
    destruct (write_bits p v nb) as [e p']. exact H.
  - pose proof (step_try bits p v nb (BWTryChunk v nb) HI Hpre (or_intror eq_refl)) as H.
    destruct (try_write_bits p v nb) as [ok p']. exact H.
  - pose proof (wflush_inv bits p HI) as H.
    destruct (wflush p) as [[r [e|]] p']; unfold step_post; cbn [obs_err].
    + destruct H as [Hr H]. destruct e; try contradiction. split; [discriminate|].
      destruct H as [H1 H2]. split; [|exact H2].
      unfold wobs_failed. cbn [weffect obs_view]. split; [apply Pfx_view; exact H1 | exact Hr].
    + destruct H as (Hr & H1 & H2 & H3). split; [discriminate|]. split; [|exact H1].
      unfold wobs_ok. cbn [weffect obs_view]. destruct (Inv_view _ _ H1) as [V1 V2].
      split; [exact V1|]. split; [exact V2|].
      pose proof (Inv_length bits p' H1) as HL. pose proof (i_off _ _ H1) as Ho. unfold OffInv in Ho.
      assert (Hq : Z.of_nat (length bits / 8) = w_offset p') by lia.
      split; [rewrite Hq, Hr; reflexivity|].
      split; [apply Inv_flushed; assumption | unfold view; wprj; lia].
  - pose proof (push_bits_inv bits p HI) as H.
    destruct (push_bits p) as [[n [e|]] p']; unfold step_post; cbn [obs_err].
    + destruct e; try contradiction. split; [discriminate|]. destruct H as (Hn & H1 & H2).
      split; [|exact H2].
      unfold wobs_failed. cbn [weffect obs_view]. split; [apply Pfx_view; exact H1 | exact Hn].
    + split; [discriminate|]. destruct H as [H1 H2]. split; [|exact H1].
      unfold wobs_ok. cbn [weffect obs_view]. destruct (Inv_view _ _ H1) as [V1 V2].
      split; [exact V1|]. split; [exact V2|]. exists n. reflexivity.
Qed.

(* ------------------------------------------------------------------------- *)
(* (6) histories                                                             *)
(* ------------------------------------------------------------------------- *)
Lemma rt_panic_false ob : obs_err ob <> Some EPanic -> rt_panic ob = false.
Proof.
  unfold rt_panic. destruct (obs_err ob) as [e|]; [|reflexivity].
  destruct e; try reflexivity. intros H. exfalso. apply H. reflexivity.
Qed.

Lemma bwrun_cons p o ops :
  bwrun p (o :: ops) =
  let '(ob, p') := bwstep p o in
  if rt_panic ob then ([ob], p') else let '(obs, p'') := bwrun p' ops in (ob :: obs, p'').
Proof. reflexivity. Qed.

Lemma bwrun_spec cont ops : forall bits p, Inv bits p -> (cont = true -> SClean (bw_sink p)) ->
  wspec_run cont big bits ops (fst (bwrun p ops)).
Proof.
  induction ops as [|o ops IH]; intros bits p HI Hc; [exact I|].
  rewrite bwrun_cons.
  pose proof (bwstep_inv bits p o HI) as Hs. pose proof (bwstep_step p o) as Hst.
  destruct (bwstep p o) as [ob p'].
  assert (Hgoal : forall obs', wpre bits o ->
            (forall bits', Inv bits' p' -> (cont = true -> SClean (bw_sink p')) ->
                           wspec_run cont big bits' ops obs') ->
            match obs_err ob with
            | Some (ESrc _) =>
              wobs_failed big bits o ob /\
              (cont = true -> wspec_run cont big (weffect big bits o ob) ops obs')
            | _ => wobs_ok big bits o ob /\ wspec_run cont big (weffect big bits o ob) ops obs'
            end).
  { intros obs' Hpre Hrest. destruct (Hs Hpre) as [_ Hpost].
    assert (Hc' : cont = true -> SClean (bw_sink p')).
    { intros Ht. destruct Hst as (l & Hl & _). eapply calls_clean; [exact Hl | apply Hc; exact Ht]. }
    destruct (obs_err ob) as [e|].
    - destruct e; try (destruct Hpost as [H1 H2]; split; [exact H1 | apply Hrest; assumption]).
      destruct Hpost as [H1 H2]. split; [exact H1|]. intros Ht. apply Hrest; [|exact Hc'].
      apply H2. apply Hc. exact Ht.
    - destruct Hpost as [H1 H2]. split; [exact H1 | apply Hrest; assumption]. }
  destruct (rt_panic ob) eqn:Ep.
  - (* a run-time panic: only outside the precondition *)
    cbn [fst wspec_run]. intros Hpre. destruct (Hs Hpre) as [Hnp _].
    rewrite (rt_panic_false ob Hnp) in Ep. discriminate.
  - specialize (IH).
    destruct (bwrun p' ops) as [obs p''] eqn:Er. cbn [fst wspec_run]. intros Hpre.
    apply Hgoal; [exact Hpre|]. intros bits' HI' Hc'.
    specialize (IH bits' p' HI' Hc'). rewrite Er in IH. exact IH.
Qed.

Lemma wpre57_wpre bits o : wpre57 o -> wpre bits o.
Proof.
  destruct o as [v nb|v nb|v|bs|v nb|v nb| |]; cbn [wpre57 wpre]; try tauto.
  - intros [H1 H2]. split; [exact H1 | lia].
  - intros ->. apply N.neq_0_lt_0. apply N.pow_nonzero. lia.
  - intros [H1 H2]. split; [exact H1 | lia].
Qed.

Lemma wobs_ok_no_error bits o ob : wobs_ok big bits o ob -> no_error ob.
Proof.
  unfold wobs_ok, no_error. intros (_ & _ & H).
  destruct o as [v nb|v nb|v|bs|v nb|v nb| |].
  - rewrite H. exact I.
  - destruct H as (ok & -> & _). exact I.
  - rewrite H. exact I.
  - destruct (Nat.eqb (length bits mod 8) 0); [destruct H as [-> _] | rewrite H]; exact I.
  - rewrite H. exact I.
  - destruct H as (ok & -> & _). exact I.
  - destruct H as (-> & _). exact I.
  - destruct H as (n & ->). exact I.
Qed.

Lemma bwrun_ff ops : forall bits p, Inv bits p -> SFF (bw_sink p) -> Forall wpre57 ops ->
  length (fst (bwrun p ops)) = length ops /\ Forall no_error (fst (bwrun p ops)).
Proof.
  induction ops as [|o ops IH]; intros bits p HI Hff Hops; [split; [reflexivity | constructor]|].
  inversion Hops as [|o' ops' Ho Hops']; subst.
  rewrite bwrun_cons.
  pose proof (bwstep_inv bits p o HI (wpre57_wpre bits o Ho)) as Hs.
  pose proof (bwstep_step p o) as Hst.
  destruct (bwstep p o) as [ob p'].
  destruct Hs as [Hnp Hpost]. rewrite (rt_panic_false ob Hnp).
  destruct Hst as (l & Hl & Hrep & _). destruct (calls_ff _ _ _ Hl Hff) as [Hff' Hacc].
  pose proof (reported_ff l _ Hrep Hacc) as Hne.
  assert (Hok : wobs_ok big bits o ob /\ Inv (weffect big bits o ob) p').
  { destruct (obs_err ob) as [e|]; [|exact Hpost].
    destruct e as [| | | | | | | |t| |]; try exact Hpost. exfalso. apply (Hne t). reflexivity. }
  destruct Hok as [Hok HI'].
  specialize (IH _ p' HI' Hff' Hops'). destruct (bwrun p' ops) as [obs p''].
  cbn [fst length] in *. destruct IH as [IH1 IH2].
  split; [lia|]. constructor; [eapply wobs_ok_no_error; exact Hok | exact IH2].
Qed.

End Writer.

Lemma sink_clean_SClean script rest big : sink_clean script rest -> SClean (bw_sink (winit script rest big)).
Proof. intros H. exact H. Qed.

Lemma sink_faultfree_clean script rest : sink_faultfree script rest -> sink_clean script rest.
Proof.
  intros [H1 H2]. split.
  - eapply Forall_impl; [|exact H1]. intros b ->. exact I.
  - rewrite H2. exact I.
Qed.

(* (a) *)
Theorem writer_refines_faultfree_holds : writer_refines_faultfree.
Proof.
  intros big script rest ops Hff. cbv zeta. split.
  - apply bwrun_spec; [apply Inv_init|]. intros _.
    apply sink_clean_SClean, sink_faultfree_clean. exact Hff.
  - intros Hops. apply (bwrun_ff big ops []); [apply Inv_init | exact Hff | exact Hops].
Qed.

(* (b3) *)
Theorem writer_refines_until_failure_holds : writer_refines_until_failure.
Proof.
  intros big script rest ops. apply bwrun_spec; [apply Inv_init|]. intros H; discriminate.
Qed.

(* (b4) *)
Theorem writer_refines_clean_failures_holds : writer_refines_clean_failures.
Proof.
  intros big script rest ops Hc. apply bwrun_spec; [apply Inv_init|]. intros _.
  apply sink_clean_SClean. exact Hc.
Qed.

(* ------------------------------------------------------------------------- *)
(* (7) round trip with the bit Reader                                        *)
(* ------------------------------------------------------------------------- *)
(* the bits a round-trip history appends, from bit position R *)
Fixpoint ops_bits (big : bool) (R : nat) (ops : list bwop) : list bool :=
  match ops with
  | [] => []
  | BWBits v nb :: r | BWChunk v nb :: r =>
    val_bits (N.to_nat nb) v ++ ops_bits big (R + N.to_nat nb) r
  | BWPads v :: r => val_bits (pad_count R) v ++ ops_bits big (R + pad_count R) r
  | BWRaw bs :: r => stream_bits big bs ++ ops_bits big (R + 8 * length bs) r
  | _ :: r => ops_bits big R r
  end.

Lemma ops_bits_app big a : forall R b,
  ops_bits big R (a ++ b) = ops_bits big R a ++ ops_bits big (R + length (ops_bits big R a)) b.
Proof.
  induction a as [|o a IH]; intros R b.
  - cbn [app ops_bits length]. rewrite Nat.add_0_r. reflexivity.
  - assert (E : forall x y, x = y -> ops_bits big x b = ops_bits big y b)
      by (intros x y ->; reflexivity).
    destruct o as [v nb|v nb|v|bs|v nb|v nb| |]; cbn [app ops_bits]; rewrite ?IH;
      rewrite <- ?app_assoc; try reflexivity; f_equal; f_equal; apply E;
      rewrite app_length, ?val_bits_length, ?stream_bits_length; lia.
Qed.

Lemma rt_pre_app a : forall R b, rt_pre R (a ++ b) ->
  rt_pre R a /\ rt_pre (R + length (ops_bits false R a)) b.
Proof.
  induction a as [|o a IH]; intros R b H.
  - cbn [app ops_bits length] in *. rewrite Nat.add_0_r. split; [exact I | exact H].
  - destruct o as [v nb|v nb|v|bs|v nb|v nb| |]; cbn [app rt_pre ops_bits] in *; try contradiction.
    + destruct H as (H1 & H2 & H3). destruct (IH _ _ H3) as [H4 H5].
      split; [auto|]. rewrite app_length, val_bits_length, Nat.add_assoc. exact H5.
    + destruct H as (H1 & H3). destruct (IH _ _ H3) as [H4 H5].
      split; [auto|]. rewrite app_length, val_bits_length, Nat.add_assoc. exact H5.
    + destruct H as (H1 & H2 & H3). destruct (IH _ _ H3) as [H4 H5].
      split; [auto|]. rewrite app_length, stream_bits_length, Nat.add_assoc. exact H5.
    + destruct H as (H1 & H2 & H3). destruct (IH _ _ H3) as [H4 H5].
      split; [auto|]. rewrite app_length, val_bits_length, Nat.add_assoc. exact H5.
Qed.

Lemma ops_bits_length_indep a : forall R b1 b2,
  length (ops_bits b1 R a) = length (ops_bits b2 R a).
Proof.
  induction a as [|o a IH]; intros R b1 b2; [reflexivity|].
  destruct o as [v nb|v nb|v|bs|v nb|v nb| |]; cbn [ops_bits];
    rewrite ?app_length, ?stream_bits_length; auto.
Qed.

Lemma ff_step p e p' : Step p e p' -> SFF (bw_sink p) ->
  (forall t, e <> Some (ESrc t)) /\ SFF (bw_sink p').
Proof.
  intros (l & Hl & Hrep & _) Hff. destruct (calls_ff _ _ _ Hl Hff) as [H1 H2].
  split; [eapply reported_ff; eassumption | exact H1].
Qed.

(* the writer side: the final state of a round-trip history *)
Lemma bwrun_rt big ops : forall tail bits p,
  Inv big bits p -> SFF (bw_sink p) -> rt_pre (length bits) ops ->
  exists p1, Inv big (bits ++ ops_bits big (length bits) ops) p1 /\ SFF (bw_sink p1) /\
             snd (bwrun p (ops ++ tail)) = snd (bwrun p1 tail).
Proof.
  induction ops as [|o ops IH]; intros tail bits p HI Hff Hpre.
  - exists p. cbn [ops_bits app]. rewrite app_nil_r. auto.
  - assert (K : forall ob p' bits',
              rt_panic ob = false -> Inv big bits' p' -> SFF (bw_sink p') ->
              rt_pre (length bits') ops ->
              bwstep p o = (ob, p') ->
              exists p1, Inv big (bits' ++ ops_bits big (length bits') ops) p1 /\ SFF (bw_sink p1) /\
                         snd (bwrun p ((o :: ops) ++ tail)) = snd (bwrun p1 tail)).
    { intros ob p' bits' Hnp HI' Hff' Hpre' Hst.
      destruct (IH tail bits' p' HI' Hff' Hpre') as (p1 & H1 & H2 & H3).
      exists p1. split; [exact H1|]. split; [exact H2|].
      cbn [app]. rewrite bwrun_cons, Hst, Hnp.
      destruct (bwrun p' (ops ++ tail)) as [obs p'']. exact H3. }
    destruct o as [v nb|v nb|v|bs|v nb|v nb| |]; cbn [rt_pre ops_bits] in *; try contradiction.
    + destruct Hpre as (Hv & Hnb & Hpre).
      pose proof (write_bits_inv big bits p v nb HI Hv ltac:(lia)) as H.
      pose proof (write_bits_step p v nb) as Hs.
      destruct (write_bits p v nb) as [e p'] eqn:Ew.
      destruct (ff_step _ _ _ Hs Hff) as [Hne Hff'].
      destruct e as [e|]; [destruct e; try contradiction; exfalso; eapply Hne; reflexivity|].
      rewrite app_assoc.
      replace (length bits + N.to_nat nb)%nat with (length (bits ++ val_bits (N.to_nat nb) v))
        by (rewrite app_length, val_bits_length; reflexivity).
      apply (K (OWBits None (view p')) p'); try assumption; try reflexivity.
      * rewrite app_length, val_bits_length. exact Hpre.
      * cbn [bwstep]. rewrite Ew. reflexivity.
    + destruct Hpre as (Hv & Hpre).
      pose proof (write_pads_inv big bits p v HI Hv) as H.
      pose proof (add_bits_step p v (u64 (2 ^ 64 - w_numBits p) mod 8)) as Hs.
      destruct (ff_step _ _ _ Hs Hff) as [_ Hff'].
      rewrite app_assoc.
      replace (length bits + pad_count (length bits))%nat
        with (length (bits ++ val_bits (pad_count (length bits)) v))
        by (rewrite app_length, val_bits_length; reflexivity).
      apply (K (OWPads (view (write_pads p v))) (write_pads p v)); try assumption; try reflexivity.
      rewrite app_length, val_bits_length. exact Hpre.
    + destruct Hpre as (Hbs & Hal & Hpre).
      pose proof (write_raw_inv big bits p bs HI Hbs) as H.
      pose proof (write_raw_step p bs) as Hs.
      destruct (write_raw p bs) as [[n e] p'] eqn:Ew.
      destruct (ff_step _ _ _ Hs Hff) as [Hne Hff'].
      destruct e as [e|].
      { destruct e; try contradiction.
        - destruct H as (Hm & _). contradiction.
        - exfalso; eapply Hne; reflexivity. }
      destruct H as (_ & -> & H & _).
      rewrite app_assoc.
      replace (length bits + 8 * length bs)%nat with (length (bits ++ stream_bits big bs))
        by (rewrite app_length, stream_bits_length; reflexivity).
      apply (K (OWRaw (length bs) None (view p')) p'); try assumption; try reflexivity.
      * rewrite app_length, stream_bits_length. exact Hpre.
      * cbn [bwstep]. rewrite Ew. reflexivity.
    + destruct Hpre as (Hv & Hnb & Hpre).
      pose proof (write_bits_inv big bits p v nb HI Hv ltac:(lia)) as H.
      pose proof (write_bits_step p v nb) as Hs.
      destruct (write_bits p v nb) as [e p'] eqn:Ew.
      destruct (ff_step _ _ _ Hs Hff) as [Hne Hff'].
      destruct e as [e|]; [destruct e; try contradiction; exfalso; eapply Hne; reflexivity|].
      rewrite app_assoc.
      replace (length bits + N.to_nat nb)%nat with (length (bits ++ val_bits (N.to_nat nb) v))
        by (rewrite app_length, val_bits_length; reflexivity).
      apply (K (OWBits None (view p')) p'); try assumption; try reflexivity.
      * rewrite app_length, val_bits_length. exact Hpre.
      * cbn [bwstep]. rewrite Ew. reflexivity.
Qed.

Lemma bwrun_flush_ff big bits p : Inv big bits p -> SFF (bw_sink p) ->
  wsink_data (bw_sink (snd (bwrun p [BWFlush]))) = pack big bits.
Proof.
  intros HI Hff. cbn [bwrun bwstep].
  pose proof (wflush_inv big bits p HI) as H. pose proof (wflush_step p) as Hs.
  destruct (wflush p) as [[r e] p'].
  destruct (ff_step _ _ _ Hs Hff) as [Hne _]. destruct H as [_ H].
  destruct e as [e|]; [destruct e; try contradiction; exfalso; eapply Hne; reflexivity|].
  cbn [rt_panic obs_err snd]. destruct H as (H1 & H2 & H3). apply Inv_flushed; assumption.
Qed.

(* ---- the reader side: the specification determines the observations ------------------ *)
Lemma skipn_app_len {A} (l1 l2 : list A) n : n = length l1 -> skipn n (l1 ++ l2) = l2.
Proof.
  intros ->. rewrite skipn_app, skipn_all, Nat.sub_diag. reflexivity.
Qed.

Lemma firstn_app_len {A} (l1 l2 : list A) n : n = length l1 -> firstn n (l1 ++ l2) = l1.
Proof.
  intros ->. rewrite firstn_app, firstn_all, Nat.sub_diag. cbn [firstn]. apply app_nil_r.
Qed.

Lemma skipn_stream big q : forall data,
  skipn (8 * q) (stream_bits big data) = stream_bits big (skipn q data).
Proof.
  induction q as [|q IH]; intros data; [reflexivity|].
  destruct data as [|c data]; [reflexivity|].
  rewrite stream_bits_cons. replace (8 * S q)%nat with (8 + 8 * q)%nat by lia.
  rewrite <- skipn_skipn', skipn_app_len by (rewrite val_bits_length; reflexivity).
  cbn [skipn]. apply IH.
Qed.

Lemma stream_head big c d b l post : c < 256 -> b < 256 ->
  stream_bits big (c :: d) = stream_bits big (b :: l) ++ post ->
  c = b /\ stream_bits big d = stream_bits big l ++ post.
Proof.
  intros Hc Hb H. rewrite !stream_bits_cons, <- app_assoc in H.
  assert (H1 : val_bits 8 (ord big c) = val_bits 8 (ord big b)).
  { apply (f_equal (firstn 8)) in H.
    rewrite !firstn_app_len in H by (rewrite val_bits_length; reflexivity). exact H. }
  assert (H2 : stream_bits big d = stream_bits big l ++ post).
  { apply (f_equal (skipn 8)) in H.
    rewrite !skipn_app_len in H by (rewrite val_bits_length; reflexivity). exact H. }
  split; [|exact H2].
  apply (f_equal bits_val) in H1. rewrite !bits_val_val_bits in H1.
  change (2 ^ N.of_nat 8) with 256 in H1.
  rewrite !N.mod_small in H1 by (apply ord_lt; assumption).
  rewrite <- (ord_ord big c Hc), <- (ord_ord big b Hb), H1. reflexivity.
Qed.

Section ReadBack.
Variable big : bool.
Variable data : list byte.
Hypothesis Hd : bytes_ok data.

Notation B := (stream_bits big data).

Lemma HdIn : forall b, In b data -> b < 256.
Proof. apply Forall_forall. exact Hd. Qed.

Lemma bits_at_prefix R l post n : skipn R B = l ++ post -> n = length l ->
  bits_at B R n = bits_val l.
Proof.
  intros H ->. unfold bits_at. rewrite H, firstn_app_len by reflexivity. reflexivity.
Qed.

Lemma skipn_more R l post n : skipn R B = l ++ post -> n = length l -> skipn (R + n) B = post.
Proof.
  intros H ->. rewrite <- skipn_skipn', H. apply skipn_app_len. reflexivity.
Qed.

Lemma skipn_bound R l post : (R <= length B)%nat -> skipn R B = l ++ post ->
  (R + length l <= length B)%nat.
Proof.
  intros HR H. apply (f_equal (@length bool)) in H. rewrite skipn_length, app_length in H. lia.
Qed.

Lemma raw_determined : forall bs R obs rest post,
  bytes_ok bs -> (R mod 8 = 0)%nat -> (R <= length B)%nat ->
  skipn R B = stream_bits big bs ++ post ->
  spec_run big data R (repeat (PRaw 1) (length bs) ++ rest) obs ->
  exists obs', obs = rd_raw_expect R bs ++ obs' /\
               spec_run big data (R + 8 * length bs) rest obs'.
Proof.
  induction bs as [|b bs IH]; intros R obs rest post Hbs HR HRB Hsk Hrun.
  - exists obs. cbn [length repeat app rd_raw_expect] in *. rewrite Nat.add_0_r. auto.
  - cbn [length repeat app] in Hrun. inversion Hbs as [|b' bs' Hb Hbs']; subst.
    assert (HRq : R = (8 * (R / 8))%nat) by lia.
    rewrite HRq, skipn_stream in Hsk.
    destruct (skipn (R / 8) data) as [|c d] eqn:Ed.
    { apply (f_equal (@length bool)) in Hsk. rewrite stream_bits_cons, !app_length, val_bits_length in Hsk.
      cbn [stream_bits flat_map length] in Hsk. lia. }
    assert (Hc : c < 256).
    { apply HdIn. apply (In_skipn' c (R / 8)). rewrite Ed. left. reflexivity. }
    destruct (stream_head big c d b bs post Hc Hb Hsk) as [-> Hsk'].
    inversion Hrun as [|R0 nb br rest0 Heof|R0 o ob R' ops0 obs0 Hobs Hnp Hrest]; subst.
    inversion Hobs as [| | |R0 k Hna|R0 k bs0 e Hal Hlen Hbs0 He1 He0 He Hex|]; subst.
    { contradiction. }
    rewrite Ed in Hbs0.
    assert (Hlen1 : length bs0 = 1%nat).
    { destruct bs0 as [|x bs0]; [|cbn [length] in *; lia].
      exfalso. destruct He as [->| ->].
      - destruct (He0 eq_refl eq_refl) as [H|H]; [discriminate | exact H].
      - destruct (He1 eq_refl) as [_ H].
        apply (f_equal (@length N)) in Ed. rewrite skipn_length in Ed. cbn [length] in Ed. lia. }
    rewrite Hlen1 in *. cbn [firstn] in Hbs0. subst bs0.
    assert (He' : e = 0).
    { destruct He as [->| ->]; [reflexivity|]. destruct (He1 eq_refl) as [H _]. discriminate. }
    subst e.
    destruct (IH (R + 8 * 1)%nat obs0 rest post Hbs') as (obs' & -> & Hrun').
    + lia.
    + pose proof (stream_bits_length big data). 
      assert (length (skipn (R / 8) data) = S (length d)) by (rewrite Ed; reflexivity).
      rewrite skipn_length in *. lia.
    + replace (R + 8 * 1)%nat with (8 * S (R / 8))%nat by lia.
      rewrite skipn_stream. rewrite (skipn_S_cons _ _ _ _ Ed). exact Hsk'.
    + exact Hrest.
    + exists obs'. cbn [rd_raw_expect length]. replace (R + 8 * 1)%nat with (R + 8)%nat in * by lia.
      split; [reflexivity|].
      replace (R + 8 * S (length bs))%nat with (R + 8 + 8 * length bs)%nat by lia. exact Hrun'.
Qed.

Lemma rd_determined : forall ops R obs post,
  rt_pre R ops -> (R <= length B)%nat ->
  skipn R B = ops_bits big R ops ++ post ->
  spec_run big data R (rd_ops ops) obs -> obs = rd_expect R ops.
Proof.
  induction ops as [|o ops IH]; intros R obs post Hpre HRB Hsk Hrun.
  - cbn [rd_ops rd_expect] in *. inversion Hrun; reflexivity.
  - assert (KB : forall v nb, v < 2 ^ nb -> nb <= 57 -> rt_pre (R + N.to_nat nb) ops ->
              skipn R B = (val_bits (N.to_nat nb) v ++ ops_bits big (R + N.to_nat nb) ops) ++ post ->
              spec_run big data R (PBits nb :: rd_ops ops) obs ->
              obs = OBits (Some v) (Z.of_nat (R + N.to_nat nb)) :: rd_expect (R + N.to_nat nb) ops).
    { intros v nb Hv Hnb Hpre' Hsk' Hrun'. rewrite <- app_assoc in Hsk'.
      pose proof (skipn_bound R _ _ HRB Hsk') as Hb. rewrite val_bits_length in Hb.
      pose proof (stream_bits_length big data) as HLB.
      inversion Hrun' as [|R0 nb0 br rest0 Heof|R0 o' ob R' ops0 obs0 Hobs Hnp Hrest]; subst; [lia|].
      inversion Hobs as [R0 nb0 Hin|R0 nb0 br Heof| | | |]; subst.
      - f_equal.
        + f_equal. f_equal. rewrite (bits_at_prefix R _ _ _ Hsk') by (rewrite val_bits_length; reflexivity).
          rewrite bits_val_val_bits, N2Nat.id. apply N.mod_small. exact Hv.
        + eapply IH; [exact Hpre' | lia | | exact Hrest].
          eapply skipn_more; [exact Hsk' | rewrite val_bits_length; reflexivity].
      - exfalso. apply (Hnp br). reflexivity. }
    destruct o as [v nb|v nb|v|bs|v nb|v nb| |]; cbn [rt_pre rd_ops rd_expect ops_bits] in *;
      try contradiction.
    + destruct Hpre as (Hv & Hnb & Hpre). apply KB; assumption.
    + destruct Hpre as (Hv & Hpre). rewrite <- app_assoc in Hsk.
      pose proof (skipn_bound R _ _ HRB Hsk) as Hb. rewrite val_bits_length in Hb.
      inversion Hrun as [|R0 nb0 br rest0 Heof|R0 o' ob R' ops0 obs0 Hobs Hnp Hrest]; subst.
      inversion Hobs as [| |R0| | |]; subst. fold (pad_count R) in *.
      f_equal.
      * f_equal. rewrite (bits_at_prefix R _ _ _ Hsk) by (rewrite val_bits_length; reflexivity).
        rewrite bits_val_val_bits. apply N.mod_small. exact Hv.
      * eapply IH; [exact Hpre | lia | | exact Hrest].
        eapply skipn_more; [exact Hsk | rewrite val_bits_length; reflexivity].
    + destruct Hpre as (Hbs & Hal & Hpre). rewrite <- app_assoc in Hsk.
      pose proof (skipn_bound R _ _ HRB Hsk) as Hb. rewrite stream_bits_length in Hb.
      destruct (raw_determined bs R obs (rd_ops ops) _ Hbs Hal HRB Hsk Hrun) as (obs' & -> & Hrun').
      f_equal. eapply IH; [exact Hpre | lia | | exact Hrun'].
      eapply skipn_more; [exact Hsk | rewrite stream_bits_length; reflexivity].
    + destruct Hpre as (Hv & Hnb & Hpre). apply KB; assumption.
Qed.

End ReadBack.

Lemma rd_ops_ok : forall ops R, rt_pre R ops -> ops_ok (rd_ops ops).
Proof.
  induction ops as [|o ops IH]; intros R H; [constructor|].
  destruct o as [v nb|v nb|v|bs|v nb|v nb| |]; cbn [rt_pre rd_ops] in *; try contradiction.
  - destruct H as (_ & H1 & H2). constructor; [exact H1 | eapply IH; exact H2].
  - destruct H as (_ & H2). constructor; [exact I | eapply IH; exact H2].
  - destruct H as (_ & _ & H2). apply Forall_app. split; [|eapply IH; exact H2].
    apply Forall_forall. intros o Ho. apply repeat_spec in Ho. subst o. exact I.
  - destruct H as (_ & H1 & H2). constructor; [exact H1 | eapply IH; exact H2].
Qed.

(* (c) *)
Theorem writer_reader_roundtrip_holds : writer_reader_roundtrip.
Proof.
  intros big script rest ops vl buffered fills reads Hff Hpre.
  set (ops' := ops ++ [BWPads vl]) in *.
  replace (ops ++ [BWPads vl; BWFlush]) with (ops' ++ [BWFlush])
    by (unfold ops'; rewrite <- app_assoc; reflexivity).
  destruct (bwrun_rt big ops' [BWFlush] [] (winit script rest big) (Inv_init big script rest) Hff Hpre)
    as (p1 & HI1 & Hff1 & Hfin).
  pose proof (bwrun_flush_ff big _ p1 HI1 Hff1) as Hdata. rewrite <- Hfin in Hdata.
  destruct (bwrun (winit script rest big) (ops' ++ [BWFlush])) as [obs p]. cbn [snd] in Hdata.
  cbn [app length] in Hdata. set (Bf := ops_bits big 0 ops') in *.
  cbv zeta. rewrite Hdata.
  assert (Hlen : exists n, length Bf = (8 * n)%nat).
  { unfold Bf, ops'. rewrite ops_bits_app. cbn [ops_bits]. rewrite app_nil_r, app_length, val_bits_length.
    cbn [Nat.add]. set (L := length (ops_bits big 0 ops)).
    exists ((L + pad_count L) / 8)%nat. unfold pad_count. lia. }
  destruct Hlen as (n & Hlen).
  assert (HB : stream_bits big (pack big Bf) = Bf) by (apply (stream_pack big n); exact Hlen).
  assert (Hd : bytes_ok (pack big Bf)) by apply pack_bytes_ok.
  assert (Hrun : spec_run big (pack big Bf) 0 (rd_ops ops')
                   (until_panic (prun (init (pack big Bf) buffered big fills reads) (rd_ops ops')))).
  { destruct buffered.
    - apply reader_refines_buffered_holds; [apply Forall_forall; exact Hd | eapply rd_ops_ok; exact Hpre].
    - apply reader_refines_bytereader_holds; [apply Forall_forall; exact Hd | eapply rd_ops_ok; exact Hpre]. }
  apply (rd_determined big (pack big Bf) Hd ops' 0%nat _ []); [exact Hpre | lia | | exact Hrun].
  rewrite HB, app_nil_r. reflexivity.
Qed.

(* ------------------------------------------------------------------------- *)
(* (7b) the state invariant along a fault-free history                        *)
(* ------------------------------------------------------------------------- *)
(* the abstract bit list after a history, and "every operation was within its
   precondition when it was issued" *)
Fixpoint spec_bits (big : bool) (bits : list bool) (ops : list bwop) (obs : list wobs) : list bool :=
  match ops, obs with
  | o :: ops', ob :: obs' => spec_bits big (weffect big bits o ob) ops' obs'
  | _, _ => bits
  end.

Fixpoint pre_run (big : bool) (bits : list bool) (ops : list bwop) (obs : list wobs) : Prop :=
  match ops, obs with
  | o :: ops', ob :: obs' => wpre bits o /\ pre_run big (weffect big bits o ob) ops' obs'
  | _, _ => True
  end.

Lemma bwrun_state big ops : forall bits p, Inv big bits p -> SFF (bw_sink p) ->
  pre_run big bits ops (fst (bwrun p ops)) ->
  Inv big (spec_bits big bits ops (fst (bwrun p ops))) (snd (bwrun p ops)) /\
  length (fst (bwrun p ops)) = length ops.
Proof.
  induction ops as [|o ops IH]; intros bits p HI Hff Hpre; [split; [exact HI | reflexivity]|].
  rewrite bwrun_cons in *.
  pose proof (bwstep_inv big bits p o HI) as Hs. pose proof (bwstep_step p o) as Hst.
  destruct (bwstep p o) as [ob p'].
  assert (Hpo : wpre bits o).
  { destruct (rt_panic ob); [|destruct (bwrun p' ops)]; cbn [fst pre_run] in Hpre; apply Hpre. }
  destruct (Hs Hpo) as [Hnp Hpost]. rewrite (rt_panic_false ob Hnp) in *.
  destruct (ff_step _ _ _ Hst Hff) as [Hne Hff'].
  assert (HI' : Inv big (weffect big bits o ob) p').
  { destruct (obs_err ob) as [e|]; [|apply Hpost].
    destruct e as [| | | | | | | |t| |]; try apply Hpost. exfalso. apply (Hne t). reflexivity. }
  specialize (IH _ p' HI' Hff').
  destruct (bwrun p' ops) as [obs p'']. cbn [fst snd pre_run spec_bits length] in *.
  destruct Hpre as [_ Hpre]. destruct (IH Hpre) as [IH1 IH2]. split; [exact IH1 | lia].
Qed.

(* (a), state level: with a fault-free sink, after every history issued within the
   preconditions the concrete state represents exactly the abstract bit list
   ([Inv]: sink bytes ++ buf[:cntBuf] ++ the numBits bits of bufBits), cntBuf <= 511,
   numBits <= 64, Offset = bytes accepted, and no run-time panic ended the history *)
Theorem writer_state_invariant big script rest ops :
  sink_faultfree script rest ->
  let '(obs, p) := bwrun (winit script rest big) ops in
  pre_run big [] ops obs ->
  Inv big (spec_bits big [] ops obs) p /\ length obs = length ops.
Proof.
  intros Hff. pose proof (bwrun_state big ops [] (winit script rest big) (Inv_init big script rest) Hff) as H.
  destruct (bwrun (winit script rest big) ops) as [obs p]. exact H.
Qed.

(* ------------------------------------------------------------------------- *)
(* (8) PutUint64 is always in range (any sink, any history, no precondition)  *)
(* ------------------------------------------------------------------------- *)
Definition BufLen (p : pwr) : Prop := length (w_buf p) = 512%nat.

Lemma write_staged_buf p e p' : write_staged p = Some (e, p') -> w_buf p' = w_buf p.
Proof.
  unfold write_staged. destruct (512 <? w_cnt p); [discriminate|].
  destruct (wsink_write _ _) as [[n e'] s']. intros H. injection H as _ <-. reflexivity.
Qed.

(* in PushBits the only possible run-time panic is the slice expression buf[:cntBuf]
   (cntBuf > 512); PutUint64(buf[cntBuf:], u) always has its 8 bytes: cntBuf <= 504 there *)
Lemma push_bits_panic p : BufLen p ->
  snd (fst (push_bits p)) = Some EPanic -> 512 < w_cnt p.
Proof.
  intros HL. unfold push_bits, put_uint64.
  destruct (504 <=? w_cnt p) eqn:E.
  - unfold write_staged. destruct (512 <? w_cnt p) eqn:E2; [intros _; lia|].
    pose proof (wsink_write_spec (bw_sink p) (firstn (N.to_nat (w_cnt p)) (w_buf p))) as Hs.
    destruct (wsink_write _ _) as [[n e] s']. destruct Hs as (He & _ & _ & Hacc & _).
    destruct e as [e|].
    + cbn [fst snd]. intros H. injection H as ->.
      destruct (next_beh (bw_sink p)); discriminate.
    + wprj. assert (Hn : n = N.to_nat (w_cnt p)).
      { rewrite Hacc by (destruct (next_beh (bw_sink p)); [reflexivity | discriminate]).
        rewrite firstn_length. unfold BufLen in HL. lia. }
      replace (504 <? w_cnt p - N.of_nat n) with false by lia. cbn [fst snd]. discriminate.
  - replace (504 <? w_cnt p) with false by lia. cbn [fst snd]. discriminate.
Qed.

Lemma push_bits_buflen p : BufLen p -> BufLen (snd (push_bits p)).
Proof.
  intros HL. unfold push_bits.
  assert (G : forall p1, BufLen p1 ->
    BufLen (snd (match put_uint64 (w_buf p1) (w_cnt p1) (if w_big p1 then swap_bits (w_bufBits p1) else w_bufBits p1) with
      | None => ((0, Some EPanic), p1)
      | Some buf' =>
        ((8 * (w_numBits p1 / 8), None),
         mkPwr (bw_sink p1) (w_big p1) (shr64 (w_bufBits p1) (8 * (w_numBits p1 / 8)))
               (w_numBits p1 - 8 * (w_numBits p1 / 8)) buf' (w_cnt p1 + w_numBits p1 / 8) (w_offset p1))
      end))).
  { intros p1 H1. unfold put_uint64. destruct (504 <? w_cnt p1) eqn:E; [exact H1|].
    unfold BufLen in *. cbn [snd w_buf].
    rewrite !app_length, firstn_length, le_split_length, skipn_length. lia. }
  destruct (504 <=? w_cnt p).
  - destruct (write_staged p) as [[[e|] p1]|] eqn:Ew.
    + cbn [snd]. unfold BufLen. rewrite (write_staged_buf _ _ _ Ew). exact HL.
    + apply G. unfold BufLen. rewrite (write_staged_buf _ _ _ Ew). exact HL.
    + exact HL.
  - apply G. exact HL.
Qed.

Lemma wflush_buflen p : BufLen p -> BufLen (snd (wflush p)).
Proof.
  intros HL. unfold wflush. destruct (_ && _); [exact HL|].
  pose proof (push_bits_buflen p HL) as H. destruct (push_bits p) as [[n [e|]] p1]; [exact H|].
  destruct (write_staged p1) as [[e p2]|] eqn:Ew; [|exact H].
  cbn [snd] in *. unfold BufLen. rewrite (write_staged_buf _ _ _ Ew). exact H.
Qed.

Lemma bwstep_buflen p o : BufLen p -> BufLen (snd (bwstep p o)).
Proof.
  intros HL.
  assert (HW : forall v nb, BufLen (snd (write_bits p v nb))).
  { intros v nb. unfold write_bits. pose proof (push_bits_buflen p HL) as H.
    destruct (push_bits p) as [[n [e|]] p1]; exact H. }
  assert (HT : forall v nb, BufLen (snd (try_write_bits p v nb))).
  { intros v nb. unfold try_write_bits. destruct (_ <? nb); exact HL. }
  destruct o as [v nb|v nb|v|bs|v nb|v nb| |]; cbn [bwstep].
  - specialize (HW v nb). destruct (write_bits p v nb). exact HW.
  - specialize (HT v nb). destruct (try_write_bits p v nb). exact HT.
  - exact HL.
  - unfold write_raw. pose proof (wflush_buflen p HL) as Hf.
    destruct (_ || _).
    + destruct (negb _); [exact HL|]. destruct (wflush p) as [[r [e|]] p1]; [exact Hf|].
      destruct (wsink_write _ _) as [[n e] s']. exact Hf.
    + destruct (wsink_write _ _) as [[n e] s']. exact HL.
  - specialize (HW v nb). destruct (write_bits p v nb). exact HW.
  - specialize (HT v nb). destruct (try_write_bits p v nb). exact HT.
  - pose proof (wflush_buflen p HL) as Hf. destruct (wflush p) as [[r e] p']. exact Hf.
  - pose proof (push_bits_buflen p HL) as Hf. destruct (push_bits p) as [[n e] p']. exact Hf.
Qed.

Theorem reachable_buflen big script rest ops : BufLen (snd (bwrun (winit script rest big) ops)).
Proof.
  assert (G : forall ops p, BufLen p -> BufLen (snd (bwrun p ops))).
  { clear ops. induction ops as [|o ops IH]; intros p HL; [exact HL|].
    rewrite bwrun_cons. pose proof (bwstep_buflen p o HL) as H.
    destruct (bwstep p o) as [ob p']. destruct (rt_panic ob); [exact H|].
    specialize (IH p' H). destruct (bwrun p' ops) as [obs p'']. exact IH. }
  apply G. unfold BufLen, winit. wprj. apply repeat_length.
Qed.

(* ------------------------------------------------------------------------- *)
(* (9) examples: non-vacuity, the width limit, what a short write does        *)
(* ------------------------------------------------------------------------- *)
Definition ex_ops : list bwop :=
  [BWBits 5 3; BWTryBits 1 1; BWPads 0; BWRaw [7; 200]; BWBits (2 ^ 57 - 1) 57; BWChunk 2 2;
   BWBits 0 0; BWPush; BWFlush].

(* a history that is within the preconditions at every step (both theorems (a) and (b3)
   speak about it non-vacuously) and what the model computes for it *)
Example ex_within_pre : Forall wpre57 ex_ops.
Proof.
  unfold ex_ops, bytes_ok, byte_ok.
  repeat constructor; try (vm_compute; reflexivity); try (vm_compute; discriminate).
Qed.

Example ex_run_le :
  wsink_data (bw_sink (snd (bwrun (winit [] SAccept false) (firstn 6 ex_ops ++ [BWPads 0; BWFlush]))))
  = [13; 7; 200; 255; 255; 255; 255; 255; 255; 255; 5].
Proof. vm_compute. reflexivity. Qed.

Example ex_run_be :
  wsink_data (bw_sink (snd (bwrun (winit [] SAccept true) (firstn 6 ex_ops ++ [BWPads 0; BWFlush]))))
  = [176; 7; 200; 255; 255; 255; 255; 255; 255; 255; 160].
Proof. vm_compute. reflexivity. Qed.

(* the widest supported field: 57 bits at the worst alignment (7 residual bits) ... *)
Example width_57_at_7_ok :
  let ops := [BWBits 127 7; BWBits (2 ^ 56) 57] in
  wsink_data (bw_sink (snd (bwrun (winit [] SAccept false) (ops ++ [BWPads 0; BWFlush]))))
  = pack false (ops_bits false 0 ops).
Proof. vm_compute. reflexivity. Qed.

(* ... 58 is the first width that loses bits: v << 7 drops bit 57 of v *)
Example width_58_at_7_loses_a_bit :
  let ops := [BWBits 127 7; BWBits (2 ^ 57) 58] in
  ~ wpre (val_bits 7 127) (BWBits (2 ^ 57) 58) /\
  wsink_data (bw_sink (snd (bwrun (winit [] SAccept false) (ops ++ [BWPads 0; BWFlush]))))
  <> pack false (ops_bits false 0 ops ++ [false; false; false; false; false; false; false]).
Proof.
  split.
  - cbn [wpre]. intros [_ H]. vm_compute in H. apply H. reflexivity.
  - vm_compute. discriminate.
Qed.

(* ... and at a byte boundary a full 64-bit field is fine *)
Example width_64_aligned_ok :
  let ops := [BWBits 255 8; BWBits (2 ^ 64 - 1) 64; BWBits (2 ^ 63 + 1) 64] in
  wpre (val_bits 8 255) (BWBits (2 ^ 64 - 1) 64) /\
  wsink_data (bw_sink (snd (bwrun (winit [] SAccept true) (ops ++ [BWFlush]))))
  = pack true (ops_bits true 0 ops).
Proof.
  split.
  - cbn [wpre]. split; [reflexivity | vm_compute; discriminate].
  - vm_compute. reflexivity.
Qed.

(* A short write poisons the staging buffer: the sink takes 3 of the 7 staged bytes and
   fails; the Flush reports the error (never swallowed). cntBuf becomes 4 but buf[:4] still
   holds bytes 1..4, not the unwritten 4..7. A second Flush then reports SUCCESS with
   Offset = 7 = bytes accepted and BitsWritten = 56, but the sink holds 1 2 3 1 2 3 4. *)
Example false_success_after_short_write :
  let '(obs, p) := bwrun (winit [SFail 3 9] SAccept false)
                         [BWBits 0x07060504030201 56; BWFlush; BWFlush] in
  map obs_err obs = [None; Some (ESrc 9); None] /\
  (exists vw, nth 2 obs (OWPads (view p)) = OWFlush 7 None vw) /\
  w_offset p = 7%Z /\ bits_written p = 56%Z /\
  wsink_data (bw_sink p) = [1; 2; 3; 1; 2; 3; 4] /\
  pack false (val_bits 56 0x07060504030201) = [1; 2; 3; 4; 5; 6; 7].
Proof.
  vm_compute. repeat split; try reflexivity. eexists. reflexivity.
Qed.

(* even with a sink that fails for ever (accepting one byte per call) a Flush finally
   reports success: there is nothing left to flush, and the sink holds 1 1 1 *)
Example false_success_with_permanent_failure :
  let '(obs, p) := bwrun (winit [] (SFail 1 9) false)
                         [BWBits 0x030201 24; BWFlush; BWFlush; BWFlush; BWFlush] in
  map obs_err obs = [None; Some (ESrc 9); Some (ESrc 9); Some (ESrc 9); None] /\
  w_offset p = 3%Z /\ wsink_data (bw_sink p) = [1; 1; 1].
Proof. vm_compute. repeat split; reflexivity. Qed.

(* a failure that accepts nothing is harmless: the retry succeeds with the right bytes
   (theorem (b4) non-vacuously) *)
Example clean_failure_retry :
  sink_clean [SFail 0 9] SAccept /\
  let '(obs, p) := bwrun (winit [SFail 0 9] SAccept false)
                         [BWBits 0x07060504030201 56; BWFlush; BWFlush] in
  map obs_err obs = [None; Some (ESrc 9); None] /\
  wsink_data (bw_sink p) = [1; 2; 3; 4; 5; 6; 7].
Proof.
  split; [split; [repeat constructor | exact I]|]. vm_compute. repeat split; reflexivity.
Qed.

(* the round trip theorem applies to this history (both bit orders, every source script) *)
Example ex_rt_pre : rt_pre 0 (firstn 6 (skipn 0 [BWBits 5 3; BWPads 1; BWRaw [7; 200];
                                               BWBits (2 ^ 57 - 1) 57; BWChunk 2 2; BWBits 0 0]) ++ [BWPads 0]).
Proof.
  cbn [firstn skipn app rt_pre length]. unfold bytes_ok, byte_ok, pad_count.
  repeat split; try (vm_compute; reflexivity); try (vm_compute; discriminate);
    repeat constructor; vm_compute; reflexivity.
Qed.

Example ex_rt_instance :
  let ops := [BWBits 5 3; BWPads 1; BWRaw [7; 200]; BWBits (2 ^ 57 - 1) 57; BWChunk 2 2; BWBits 0 0] in
  rd_expect 0 (ops ++ [BWPads 0]) =
  [OBits (Some 5) 3; OPads 1 8; ORaw [7] 0 16; ORaw [200] 0 24;
   OBits (Some (2 ^ 57 - 1)) 81; OBits (Some 2) 83; OBits (Some 0) 83; OPads 0 88].
Proof. vm_compute. reflexivity. Qed.

Print Assumptions sink_error_never_swallowed_holds.
Print Assumptions offset_counts_accepted_holds.
Print Assumptions writer_refines_faultfree_holds.
Print Assumptions writer_refines_until_failure_holds.
Print Assumptions writer_refines_clean_failures_holds.
Print Assumptions writer_reader_roundtrip_holds.
Print Assumptions writer_state_invariant.
Print Assumptions push_bits_panic.
Print Assumptions reachable_buflen.
Print Assumptions swap_bits_bytes.
