(* Implementation-level model of the lookup tables of internal/prefix:
     decoder.go  Decoder.Init          -> [dec_init]
     reader.go   ReadSymbol / TryReadSymbol (the table walk) -> [dec_lookup], [dt_read_symbol],
                                                               [try_read_symbol]
     encoder.go  Encoder.Init          -> [enc_init]
     writer.go   the lookup of WriteSymbol / TryWriteSymbol  -> [enc_lookup]

   A code is (Sym, Len, Val) as in prefix.PrefixCode; Val holds the code bits in READING
   order (bit 0 of Val is the first bit read). All three fields are uint32 in Go; the model
   is faithful for field values below 2^32 and for Len < 32 (the 5-bit count field; longer
   lengths give [IOutOfModel], the Go code would shift by >= 23 bits into link tables of
   2^23.. entries or loop forever on a zero stride).

   Recycled storage. allocUint32s / extendSliceUint32s hand back the previous arrays when
   their capacity suffices, so a table starts out with STALE entries of an earlier Init (or
   with zeros when it is fresh). The model takes the prior contents as a parameter
   ([old : N -> N], index -> stale uint32) and an array is (length, entries written so far,
   prior contents): reading an index that this Init has not written yields the prior value.

   Failures are explicit: [IPanic] is a Go run-time panic (index out of range, the explicit
   panic("invalid codes")); a lookup that indexes outside a table is [None]. *)
From V Require Import Base.Prelude Bzip2.Common Prefix.ReaderImpl.

Local Open Scope N_scope.

(* ---- codes ----------------------------------------------------------------------- *)
Definition pcode : Type := (N * N * N)%type.          (* (Sym, Len, Val) *)
Definition c_sym (c : pcode) : N := fst (fst c).
Definition c_len (c : pcode) : N := snd (fst c).
Definition c_val (c : pcode) : N := snd c.

Definition countBits : N := 5.
Definition valueBits : N := 27.
Definition countMask : N := 31.
Definition maxChunkBits : N := 9.

Definition w32 (x : N) : N := x mod 2 ^ 32.

(* c.Sym<<countBits | c.Len  on uint32 *)
Definition mk_chunk (hi lo : N) : N := N.lor (w32 (N.shiftl hi countBits)) lo.

(* ---- arrays with recycled contents --------------------------------------------------- *)
Record arr := mkArr {
  a_len : N;
  a_new : nmap N;          (* entries written since the (re)allocation *)
  a_old : N -> N           (* what the storage held before: arbitrary *)
}.

Definition arr_alloc (old : N -> N) (n : N) : arr := mkArr n nm_empty old.

(* a[i]; None = index out of range *)
Definition arr_get (a : arr) (i : N) : option N :=
  if i <? a_len a then
    Some (match nm_get (a_new a) i with Some v => v | None => w32 (a_old a i) end)
  else None.

Definition arr_set (a : arr) (i v : N) : option arr :=
  if i <? a_len a then Some (mkArr (a_len a) (nm_set (a_new a) i v) (a_old a)) else None.

(* for i := range a { a[i] = 0 } *)
Definition arr_zero (a : arr) : arr := mkArr (a_len a) nm_empty (fun _ => 0).

(* the whole array as a list (for dumps) *)
Definition arr_list (a : arr) : list N :=
  map_tr (fun i => match arr_get a i with Some v => v | None => 0 end) (iota (a_len a)).

(* for j := j0; j < n; j += skip { s[j] = v }  where s = a[base : base+n]; the slice
   expression itself has been bounds-checked by the caller (base + n <= len a) *)
Definition fill_step (base n skip v : N) (st : N * nmap N) : N * nmap N :=
  let '(j, m) := st in
  if j <? n then (j + skip, nm_set m (base + j) v) else st.

Definition fill_count (j0 n skip : N) : N :=
  if j0 <? n then (n - j0 + skip - 1) / skip else 0.

Definition fill_stride (a : arr) (base n j0 skip v : N) : arr :=
  mkArr (a_len a)
        (snd (N.iter (fill_count j0 n skip) (fill_step base n skip v) (j0, a_new a)))
        (a_old a).

(* ---- outcomes of Init ------------------------------------------------------------------ *)
Inductive ires (A : Type) : Type :=
| IOk (a : A)
| IPanic                 (* a Go panic *)
| IOutOfModel.           (* outside the range the model covers (Len >= 32, table size 2^32) *)
Arguments IOk {A} a.
Arguments IPanic {A}.
Arguments IOutOfModel {A}.

Fixpoint ofold {A B : Type} (f : A -> B -> option A) (l : list B) (a : A) : option A :=
  match l with
  | [] => Some a
  | x :: r => match f a x with Some a' => ofold f r a' | None => None end
  end.

(* ---- the Decoder -------------------------------------------------------------------------- *)
Record dec := mkDec {
  d_chunks : arr;
  d_flat : arr;            (* linksFlat: the storage all link tables are slices of *)
  d_nlinks : N;            (* len(pd.links) *)
  d_linkLen : N;           (* len(pd.links[i]) = numLinks;  links[i] = flat[i*numLinks : (i+1)*numLinks] *)
  d_chunkMask : N;
  d_linkMask : N;
  d_chunkBits : N;
  d_minBits : N;
  d_numSyms : N
}.

Definition empty_arr : arr := mkArr 0 nm_empty (fun _ => 0).

Definition min_bits (codes : list pcode) : N :=
  fold_left (fun m c => if c_len c <? m then c_len c else m) codes valueBits.
Definition max_bits (codes : list pcode) : N :=
  fold_left (fun m c => if m <? c_len c then c_len c else m) codes 0.

(* first pass: give every chunk that long codes fall into a link-table number *)
Definition mark_step (cb mask : N) (st : arr * N) (c : pcode) : option (arr * N) :=
  let '(ch, li) := st in
  if cb <? c_len c then
    let i := N.land (c_val c) mask in
    match arr_get ch i with
    | None => None
    | Some x =>
      if x =? 0 then
        match arr_set ch i (N.lor (w32 (N.shiftl li countBits)) (cb + 1)) with
        | Some ch' => Some (ch', w32 (li + 1))
        | None => None
        end
      else Some st
    end
  else Some st.

(* second pass: one code *)
Definition fill_code (cb mask nlinks linkLen : N) (st : arr * arr) (c : pcode) : option (arr * arr) :=
  let '(ch, fl) := st in
  let chunk := mk_chunk (c_sym c) (c_len c) in
  if c_len c <=? cb then
    Some (fill_stride ch 0 (a_len ch) (c_val c) (2 ^ c_len c) chunk, fl)
  else
    match arr_get ch (N.land (c_val c) mask) with
    | None => None
    | Some x =>
      let li := N.shiftr x countBits in
      if li <? nlinks then
        Some (ch, fill_stride fl (li * linkLen) linkLen (N.shiftr (c_val c) cb)
                              (2 ^ (c_len c - cb)) chunk)
      else None                                  (* pd.links[linkIdx]: index out of range *)
    end.

(* Decoder.Init, two codes or more. [oldC], [oldL]: prior contents of the recycled chunks /
   linksFlat storage *)
Definition dec_init_multi (oldC oldL : N -> N) (codes : list pcode) : ires dec :=
  let minBits := min_bits codes in
  let maxBits := max_bits codes in
  if 31 <? maxBits then IOutOfModel else
  let cb := if maxChunkBits <? maxBits then maxChunkBits else maxBits in
  let numChunks := 2 ^ cb in
  let ch0 := arr_alloc oldC numChunks in
  let mask := w32 (numChunks - 1) in
  let nsyms := w32 (N.of_nat (length codes)) in
  if cb <? maxBits then
    let numLinks := 2 ^ (maxBits - cb) in
    let linkMask := w32 (numLinks - 1) in
    match ofold (mark_step cb mask) codes (arr_zero ch0, 0) with
    | None => IPanic
    | Some (ch1, li) =>
      if li =? 0 then IPanic                     (* pd.links[0] of an empty slice *)
      else
        let fl0 := arr_alloc oldL (numLinks * li) in
        match ofold (fill_code cb mask li numLinks) codes (ch1, fl0) with
        | None => IPanic
        | Some (ch2, fl2) => IOk (mkDec ch2 fl2 li numLinks mask linkMask cb minBits nsyms)
        end
    end
  else
    match ofold (fill_code cb mask 0 0) codes (ch0, empty_arr) with
    | None => IPanic
    | Some (ch2, fl2) => IOk (mkDec ch2 fl2 0 0 mask 0 cb minBits nsyms)
    end.

(* Decoder.Init *)
Definition dec_init (oldC oldL : N -> N) (codes : list pcode) : ires dec :=
  match codes with
  | [] => IOk (mkDec empty_arr empty_arr 0 0 0 0 0 0 0)
  | [c] =>
    if c_len c =? 0 then
      IOk (mkDec (mkArr 1 (nm_set nm_empty 0 (mk_chunk (c_sym c) 0)) oldC) empty_arr 0 0 0 0 0 0 1)
    else IPanic                                   (* panic("invalid codes") *)
  | _ => dec_init_multi oldC oldL codes
  end.

(* One iteration of the body of ReadSymbol's loop, up to the comparison with numBits:
   the (symbol, nb) the tables give for the 64-bit buffer value. None = index out of range. *)
Definition dec_lookup (d : dec) (bufBits : N) : option (N * N) :=
  match arr_get (d_chunks d) (N.land (w32 bufBits) (d_chunkMask d)) with
  | None => None
  | Some chunk =>
    let nb := N.land chunk countMask in
    if d_chunkBits d <? nb then
      let li := N.shiftr chunk countBits in
      if li <? d_nlinks d then
        let j := N.land (w32 (N.shiftr bufBits (d_chunkBits d))) (d_linkMask d) in
        if j <? d_linkLen d then
          match arr_get (d_flat d) (li * d_linkLen d + j) with
          | None => None
          | Some chunk2 => Some (N.shiftr chunk2 countBits, N.land chunk2 countMask)
          end
        else None
      else None
    else Some (N.shiftr chunk countBits, nb)
  end.

(* the dump of Decoder.VerifDump *)
Definition link_list (d : dec) (i : N) : list N :=
  d_linkLen d ::
  map_tr (fun j => match arr_get (d_flat d) (i * d_linkLen d + j) with Some v => v | None => 0 end)
         (iota (d_linkLen d)).

Definition link_dump (d : dec) : list N :=
  fold_left (fun acc i => app_tr (link_list d i) acc) (fast_rev (iota (d_nlinks d))) [].

Definition dec_dump (d : dec) : list N :=
  [d_chunkMask d; d_linkMask d; d_chunkBits d; d_minBits d; d_numSyms d;
   w32 (a_len (d_chunks d)); w32 (d_nlinks d)]
  ++ app_tr (arr_list (d_chunks d)) (link_dump d).

(* ---- ReadSymbol / TryReadSymbol over the bit-buffer model of ReaderImpl ------------------- *)
Inductive rsres :=
| RSym (sym : N)
| RUEOF                  (* panic with io.ErrUnexpectedEOF (PullBits failed) *)
| RInvalid               (* "decode with empty prefix tree" *)
| RPanic                 (* index out of range in the table walk *)
| RFuel.                 (* loop budget of the model exhausted *)

Fixpoint read_symbol_loop (fuel : nat) (d : dec) (p : prd) (nb : N) : rsres * prd :=
  match fuel with
  | O => (RFuel, p)
  | S f =>
    let '(e, p1) := pull_bits p nb in
    if e then (RUEOF, p1) else
    match dec_lookup d (p_bufBits p1) with
    | None => (RPanic, p1)
    | Some (sym, nb') =>
      if nb' <=? p_numBits p1 then (RSym sym, snd (take_bits p1 nb'))
      else read_symbol_loop f d p1 nb'
    end
  end.

Definition dt_read_symbol (d : dec) (p : prd) : rsres * prd :=
  if a_len (d_chunks d) =? 0 then (RInvalid, p)
  else read_symbol_loop 34 d p (d_minBits d).

(* TryReadSymbol: Some (Some sym) = (sym, true); Some None = (0, false); None = panic *)
Definition try_read_symbol (d : dec) (p : prd) : option (option N) * prd :=
  if (p_numBits p <? d_minBits d) || (a_len (d_chunks d) =? 0) then (Some None, p) else
  match arr_get (d_chunks d) (N.land (w32 (p_bufBits p)) (d_chunkMask d)) with
  | None => (None, p)
  | Some chunk =>
    let nb := N.land chunk countMask in
    if (p_numBits p <? nb) || (d_chunkBits d <? nb) then (Some None, p)
    else (Some (Some (N.shiftr chunk countBits)), snd (take_bits p nb))
  end.

(* histories of symbol reads mixed with plain bit reads, observed like the harness does *)
Inductive dt_op := DSym | DTry | DBits (nb : N).
Inductive dt_obs :=
| DOSym (r : rsres) (bitsread : Z) (bufBits numBits : N) (offset : Z)
| DOTry (r : option (option N)) (bitsread : Z) (bufBits numBits : N) (offset : Z)
| DOBits (v : option N) (bitsread : Z).

Definition dt_step (d : dec) (p : prd) (o : dt_op) : dt_obs * prd :=
  match o with
  | DSym => let '(r, p') := dt_read_symbol d p in
            (DOSym r (bits_read p') (p_bufBits p') (p_numBits p') (p_offset p'), p')
  | DTry => let '(r, p') := try_read_symbol d p in
            (DOTry r (bits_read p') (p_bufBits p') (p_numBits p') (p_offset p'), p')
  | DBits nb => let '(v, p') := read_bits p nb in (DOBits v (bits_read p'), p')
  end.

Definition dt_obs_stops (o : dt_obs) : bool :=
  match o with
  | DOSym (RSym _) _ _ _ _ => false
  | DOSym _ _ _ _ _ => true
  | DOTry None _ _ _ _ => true
  | DOTry _ _ _ _ _ => false
  | DOBits None _ => true
  | DOBits _ _ => false
  end.

(* the run stops at the first panic, as the harness does *)
Fixpoint dt_run (d : dec) (p : prd) (ops : list dt_op) : list dt_obs :=
  match ops with
  | [] => []
  | o :: r => let '(ob, p') := dt_step d p o in
              if dt_obs_stops ob then [ob] else ob :: dt_run d p' r
  end.

(* ---- the Encoder ------------------------------------------------------------------------------ *)
Record enc := mkEnc {
  e_chunks : arr;
  e_chunkMask : N;
  e_numSyms : N
}.

(* insert all codes into a zeroed table; Some None = collision (grow and retry) *)
Fixpoint enc_insert (mask : N) (ch : arr) (codes : list pcode) : option (option arr) :=
  match codes with
  | [] => Some (Some ch)
  | c :: r =>
    let i := N.land (c_sym c) mask in
    match arr_get ch i with
    | None => None
    | Some x =>
      if 0 <? x then Some None
      else match arr_set ch i (mk_chunk (c_val c) (c_len c)) with
           | Some ch' => enc_insert mask ch' r
           | None => None
           end
    end
  end.

(* the retry loop; k = log2 numChunks. Tables of 2^33 entries and more are outside the model. *)
Fixpoint enc_retry (fuel : nat) (codes : list pcode) (k : N) : ires enc :=
  match fuel with
  | O => IOutOfModel
  | S f =>
    if 32 <? k then IOutOfModel else
    let numChunks := 2 ^ k in
    let mask := w32 (numChunks - 1) in
    (* allocUint32s + the zeroing loop: whatever the storage held, it is all zero now *)
    match enc_insert mask (arr_zero (arr_alloc (fun _ => 0) numChunks)) codes with
    | None => IPanic
    | Some None => enc_retry f codes (k + 1)
    | Some (Some ch) => IOk (mkEnc ch mask (w32 (N.of_nat (length codes))))
    end
  end.

(* numChunks := 1; for n := len(codes) - 1; n > 0; n >>= 1 { numChunks <<= 1 } *)
Definition enc_init_multi (codes : list pcode) : ires enc :=
  enc_retry 34 codes (N.size (N.of_nat (length codes) - 1)).

Definition enc_init (codes : list pcode) : ires enc :=
  match codes with
  | [] => IOk (mkEnc empty_arr 0 0)
  | [c] =>
    if c_len c =? 0 then
      IOk (mkEnc (mkArr 1 (nm_set nm_empty 0 (mk_chunk (c_val c) 0)) (fun _ => 0)) 0 1)
    else IPanic
  | _ => enc_init_multi codes
  end.

(* the lookup of WriteSymbol / TryWriteSymbol: (bits to write, how many); None = index out of range *)
Definition enc_lookup (e : enc) (sym : N) : option (N * N) :=
  match arr_get (e_chunks e) (N.land (w32 sym) (e_chunkMask e)) with
  | None => None
  | Some chunk => Some (N.shiftr chunk countBits, N.land chunk countMask)
  end.

Definition enc_dump (e : enc) : list N :=
  [e_chunkMask e; e_numSyms e; w32 (a_len (e_chunks e))] ++ arr_list (e_chunks e).

(* the bits WriteSymbol appends for a sequence of symbols (first written bit first) *)
Fixpoint enc_syms (e : enc) (syms : list N) : option (list bool) :=
  match syms with
  | [] => Some []
  | s :: r =>
    match enc_lookup e s with
    | None => None
    | Some (v, nb) =>
      match enc_syms e r with
      | None => None
      | Some t => Some (val_bits (N.to_nat nb) v ++ t)
      end
    end
  end.
