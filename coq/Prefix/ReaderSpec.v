(* What internal/prefix.Reader must do, stated on the abstract bit stream, and the
   simulation statement for its implementation-level model (Prefix/ReaderImpl.v).

   The abstract stream: the bits of the data, each byte least significant bit first
   (after bit reversal of every byte when the Reader is big-endian). The abstract
   state is one number: R, the bits consumed so far. *)
From V Require Import Base.Prelude Prefix.ReaderImpl.

Definition stream_bits (big : bool) (data : list byte) : list bool :=
  flat_map (fun b => val_bits 8 (ord big b)) data.

Definition bits_at (bits : list bool) (R : nat) (n : nat) : N :=
  bits_val (firstn n (skipn R bits)).

(* [spec_obs big data R o ob R']: observation [ob] is a correct outcome of operation [o]
   at abstract position R, leaving the position at R'. The only freedom is how many
   bytes a raw Read returns (at least one when any is left and k > 0). *)
Inductive spec_obs (big : bool) (data : list byte) : nat -> pop -> pobs -> nat -> Prop :=
| SBits R nb :
    (R + N.to_nat nb <= 8 * length data)%nat ->
    spec_obs big data R (PBits nb)
             (OBits (Some (bits_at (stream_bits big data) R (N.to_nat nb))) (Z.of_nat (R + N.to_nat nb)))
             (R + N.to_nat nb)
| SBitsEOF R nb br :
    (8 * length data < R + N.to_nat nb)%nat ->
    spec_obs big data R (PBits nb) (OBits None br) R
| SPads R :
    let n := ((8 - R mod 8) mod 8)%nat in
    spec_obs big data R PPads
             (OPads (bits_at (stream_bits big data) R n) (Z.of_nat (R + n))) (R + n)
| SRawUnaligned R k :
    (R mod 8 <> 0)%nat ->
    spec_obs big data R (PRaw k) (ORaw [] 2 (Z.of_nat R)) R
| SRaw R k bs e :
    (R mod 8 = 0)%nat ->
    (length bs <= k)%nat ->
    bs = firstn (length bs) (skipn (R / 8) data) ->
    (* io.EOF exactly when nothing is left (a zero-length request may or may not notice) *)
    (e = 1 -> bs = [] /\ (length data <= R / 8)%nat) ->
    (e = 0 -> bs = [] -> k = O \/ False) ->
    (e = 0 \/ e = 1) ->
    (k <> O -> (length data <= R / 8)%nat -> e = 1) ->
    spec_obs big data R (PRaw k) (ORaw bs e (Z.of_nat (R + 8 * length bs))) (R + 8 * length bs)
| SFlush R :
    (* after a Flush the source has been advanced over exactly the bytes that hold the
       bits read: no over-consumption *)
    spec_obs big data R PFlush
             (OFlush (Z.of_nat ((R + 7) / 8)) ((R + 7) / 8)) R.

Inductive spec_run (big : bool) (data : list byte) : nat -> list pop -> list pobs -> Prop :=
| SRnil R : spec_run big data R [] []
| SRstop R nb br rest :                       (* the harness stops at the first panic *)
    (8 * length data < R + N.to_nat nb)%nat ->
    spec_run big data R (PBits nb :: rest) (OBits None br :: [])
| SRcons R o ob R' ops obs :
    spec_obs big data R o ob R' ->
    (forall br, ob <> OBits None br) ->
    spec_run big data R' ops obs ->
    spec_run big data R (o :: ops) (ob :: obs).

(* observations up to and including the first panic *)
Fixpoint until_panic (obs : list pobs) : list pobs :=
  match obs with
  | [] => []
  | OBits None br :: _ => [OBits None br]
  | o :: r => o :: until_panic r
  end.

(* THE STATEMENT (to be proved): for every data, both bit orders, every script of the
   source's freedoms and every operation sequence with bit fields of at most 57 bits,
   the Reader model behaves as the abstract bit stream says, on both source paths. *)
Definition ops_ok (ops : list pop) : Prop :=
  Forall (fun o => match o with PBits nb => nb <= 57 | _ => True end) ops.

Definition reader_refines_buffered : Prop :=
  forall data big fills reads ops,
    (forall b, In b data -> b < 256) -> ops_ok ops ->
    spec_run big data 0 ops (until_panic (prun (init data true big fills reads) ops)).

Definition reader_refines_bytereader : Prop :=
  forall data big fills reads ops,
    (forall b, In b data -> b < 256) -> ops_ok ops ->
    spec_run big data 0 ops (until_panic (prun (init data false big fills reads) ops)).

(* ---- the same as a decision procedure (used to test the statement on recorded runs) ---- *)
Definition list_eqbN := list_eqb N.eqb.

Definition check_obs (big : bool) (data : list byte) (R : nat) (o : pop) (ob : pobs) : option nat :=
  match o, ob with
  | PBits nb, OBits (Some v) br =>
    if (Nat.leb (R + N.to_nat nb) (8 * length data))
       && (v =? bits_at (stream_bits big data) R (N.to_nat nb))
       && (br =? Z.of_nat (R + N.to_nat nb))%Z
    then Some (R + N.to_nat nb)%nat else None
  | PPads, OPads v br =>
    let n := ((8 - R mod 8) mod 8)%nat in
    if (v =? bits_at (stream_bits big data) R n) && (br =? Z.of_nat (R + n))%Z then Some (R + n)%nat else None
  | PRaw k, ORaw bs e br =>
    if negb (Nat.eqb (R mod 8) 0) then
      if (Nat.eqb (length bs) 0) && (e =? 2) && (br =? Z.of_nat R)%Z then Some R else None
    else
      let exhausted := Nat.leb (length data) (R / 8) in
      if Nat.leb (length bs) k
         && list_eqbN bs (firstn (length bs) (skipn (R / 8) data))
         && (br =? Z.of_nat (R + 8 * length bs))%Z
         && ((e =? 0) || (e =? 1))
         && (negb (e =? 1) || (Nat.eqb (length bs) 0 && exhausted))
         && (negb (e =? 0) || negb (Nat.eqb (length bs) 0) || Nat.eqb k 0)
         && (Nat.eqb k 0 || negb exhausted || (e =? 1))
      then Some (R + 8 * length bs)%nat else None
  | PFlush, OFlush off pos =>
    if (off =? Z.of_nat ((R + 7) / 8))%Z && Nat.eqb pos ((R + 7) / 8) then Some R else None
  | _, _ => None
  end.

Fixpoint check_run (big : bool) (data : list byte) (R : nat) (ops : list pop) (obs : list pobs) : bool :=
  match ops, obs with
  | [], [] => true
  | PBits nb :: _, [OBits None _] => Nat.ltb (8 * length data) (R + N.to_nat nb)
  | o :: ops', ob :: obs' =>
    match check_obs big data R o ob with
    | Some R' => check_run big data R' ops' obs'
    | None => false
    end
  | _, _ => false
  end.

Definition check_model (data : list byte) (buffered big : bool) (fills reads : list nat) (ops : list pop) : bool :=
  check_run big data 0 ops (until_panic (prun (init data buffered big fills reads) ops)).
