(* The encoder pipeline of bzip2 / internal/prefix: GenerateLengths on the codes
   sorted by count, then (after sorting by symbol) GeneratePrefixes.  The
   lengths produced by [gen_lengths] are always accepted by [gen_prefixes],
   and the resulting code is a valid canonical prefix code within the limit. *)
From Coq Require Import Sorting.Permutation Sorting.Sorted.
From V Require Import Base.Prelude Base.Prog Flate.Spec Flate.Canon.
From V Require Import Bzip2.Common Bzip2.SpecW Prefix.Code Prefix.GenPrefixesThms Prefix.GenLengthsThms.
Local Open Scope N_scope.

Lemma max_len_le m (l : list (N * N)) : (forall s d, In (s, d) l -> d <= m) -> max_len l <= m.
Proof.
  induction l as [|[s d] l IH]; intros H; [cbn; lia|]. rewrite max_len_cons.
  assert (H1 : d <= m) by (apply (H s d); left; reflexivity).
  assert (H2 : max_len l <= m) by (apply IH; intros s' d' Hin; apply (H s'); right; exact Hin).
  lia.
Qed.

(* any complete, non-zero, limited length assignment, sorted by symbol, is accepted *)
Theorem gl_correct_accepted maxBits codes lens sorted :
  gl_correct maxBits codes lens ->
  Permutation lens sorted -> StronglySorted N.lt (map fst sorted) ->
  exists out, gen_prefixes sorted = GPOk out /\ valid_code out /\ map fst out = sorted /\
              forall e, In e out -> 1 <= e_len e <= maxBits.
Proof.
  intros Hc Hp Hs.
  assert (Hr : forall s l, In (s, l) sorted -> 1 <= l <= maxBits).
  { intros s l Hin. apply (gl_range _ _ _ Hc s). apply (Permutation_in _ (Permutation_sym Hp)). exact Hin. }
  destruct (gen_prefixes_accepts' sorted Hs) as (out & Hout & Hv & Hf).
  - intros s l Hin. apply (Hr s l Hin).
  - apply (complete_of_kraft maxBits).
    + apply max_len_le. intros s d Hin. apply (Hr s d Hin).
    + rewrite <- (kraft_perm _ _ _ Hp). apply (gl_kraft _ _ _ Hc).
  - exists out. split; [exact Hout|]. split; [exact Hv|]. split; [exact Hf|].
    intros [[s l] v] Hin. unfold e_len. cbn [fst snd]. apply (Hr s).
    rewrite <- Hf. change (s, l) with (fst (s, l, v)). apply in_map. exact Hin.
Qed.

Theorem gen_lengths_then_prefixes maxBits codes :
  (2 <= length codes)%nat ->
  StronglySorted N.le (map fst codes) -> NoDup (map snd codes) ->
  N.of_nat (length codes) <= 2 ^ maxBits -> N.of_nat (length codes) < 2 ^ 32 ->
  exists lens, gen_lengths maxBits codes = GLOk lens /\ gl_correct maxBits codes lens /\
    forall sorted, Permutation lens sorted -> StronglySorted N.lt (map fst sorted) ->
      exists out, gen_prefixes sorted = GPOk out /\ valid_code out /\ map fst out = sorted /\
                  forall e, In e out -> 1 <= e_len e <= maxBits.
Proof.
  intros Hn Hasc Hnd Hcap H32.
  destruct (gen_lengths_correct maxBits codes Hn Hasc Hnd Hcap H32) as (lens & Hl & Hc).
  exists lens. split; [exact Hl|]. split; [exact Hc|].
  intros sorted Hp Hs. apply (gl_correct_accepted maxBits codes lens sorted Hc Hp Hs).
Qed.

(* non-vacuity: the Fibonacci example, limited to 4 bits, sorted by symbol (it already is) *)
Example pipeline_ex :
  exists out, gen_prefixes [(10, 4); (11, 4); (12, 4); (13, 4); (14, 4); (15, 4); (16, 3); (17, 1)] = GPOk out /\
              valid_code out.
Proof.
  destruct (gen_lengths_then_prefixes 4 gl_ex_codes) as (lens & Hl & _ & H).
  - cbn; lia.
  - apply ascending_hd_iff. vm_compute. reflexivity.
  - apply gl_ex_hyps.
  - vm_compute. discriminate.
  - vm_compute. reflexivity.
  - rewrite gl_ex_run4 in Hl. inversion Hl; subst lens.
    destruct (H _ (Permutation_refl _)) as (out & Ho & Hv & _).
    + apply strictly_increasing_iff. vm_compute. reflexivity.
    + exists out. split; assumption.
Qed.

Print Assumptions gl_correct_accepted.
Print Assumptions gen_lengths_then_prefixes.
Print Assumptions pipeline_ex.
