(* Proof that the implementation-level model of internal/prefix.Reader
   (Prefix/ReaderImpl.v) refines the abstract bit-stream specification
   (Prefix/ReaderSpec.v), on both source paths. *)
From V Require Import Base.Prelude Prefix.ReaderImpl Prefix.ReaderSpec.
From Coq Require Import ZifyBool ZifyN ZifyNat.

Local Open Scope N_scope.

(* ------------------------------------------------------------------------- *)
(* (1) generic list / bit-vector lemmas                                      *)
(* ------------------------------------------------------------------------- *)

Lemma nth_skipn' {A} (l : list A) (a i : nat) (d : A) :
  nth i (skipn a l) d = nth (a + i) l d.
Proof.
  revert l; induction a as [|a IH]; intros l; cbn [skipn Nat.add]; [reflexivity|].
  destruct l as [|x l]; [destruct i; reflexivity | apply IH].
Qed.

Lemma nth_firstn' {A} (l : list A) (n i : nat) (d : A) :
  nth i (firstn n l) d = if Nat.ltb i n then nth i l d else d.
Proof.
  revert l i; induction n as [|n IH]; intros l i.
  - cbn [firstn]. destruct i; reflexivity.
  - destruct l as [|x l].
    + cbn [firstn]. destruct i; destruct (Nat.ltb _ _); reflexivity.
    + cbn [firstn]. destruct i as [|i]; [reflexivity|].
      cbn [nth]. rewrite IH. reflexivity.
Qed.

Lemma testbit_bits_val l i : N.testbit (bits_val l) i = nth (N.to_nat i) l false.
Proof.
  revert i; induction l as [|b r IH]; intros i.
  - cbn [bits_val]. rewrite N.bits_0. destruct (N.to_nat i); reflexivity.
  - cbn [bits_val]. rewrite N.add_comm.
    destruct (N.eq_dec i 0) as [->|Hi].
    + rewrite N.testbit_0_r. reflexivity.
    + replace i with (N.succ (N.pred i)) by (apply N.succ_pred; exact Hi).
      rewrite N.testbit_succ_r, IH, N2Nat.inj_succ. reflexivity.
Qed.

Lemma nth_val_bits n : forall v i, (i < n)%nat ->
  nth i (val_bits n v) false = N.testbit v (N.of_nat i).
Proof.
  induction n as [|n IH]; intros v i Hi; [lia|].
  cbn [val_bits]. destruct i as [|i].
  - cbn [nth]. symmetry. apply N.bit0_odd.
  - cbn [nth]. rewrite IH by lia. rewrite Nat2N.inj_succ, N.testbit_succ_r_div2 by lia. reflexivity.
Qed.

Lemma testbit_mod_pow2 a n i :
  N.testbit (a mod 2 ^ n) i = if i <? n then N.testbit a i else false.
Proof.
  destruct (i <? n) eqn:E.
  - apply N.mod_pow2_bits_low. lia.
  - apply N.mod_pow2_bits_high. lia.
Qed.

Lemma testbit_u64_shiftl u s i :
  N.testbit (u64 (N.shiftl u s)) i =
  if i <? 64 then (if s <=? i then N.testbit u (i - s) else false) else false.
Proof.
  unfold u64. rewrite testbit_mod_pow2.
  destruct (i <? 64); [|reflexivity].
  destruct (s <=? i) eqn:E.
  - apply N.shiftl_spec_high'. lia.
  - apply N.shiftl_spec_low. lia.
Qed.

Lemma testbit_add_mul256 c x j : c < 256 ->
  N.testbit (c + 256 * x) j = if j <? 8 then N.testbit c j else N.testbit x (j - 8).
Proof.
  intros Hc. change 256 with (2 ^ 8) in *.
  destruct (j <? 8) eqn:E.
  - rewrite <- (N.mod_pow2_bits_low (c + 2 ^ 8 * x) 8 j) by lia.
    rewrite (N.mul_comm (2 ^ 8) x), N.mod_add by (apply N.pow_nonzero; lia).
    rewrite N.mod_small by exact Hc. reflexivity.
  - replace j with ((j - 8) + 8) at 1 by lia.
    rewrite <- N.div_pow2_bits.
    rewrite (N.mul_comm (2 ^ 8) x), N.div_add by (apply N.pow_nonzero; lia).
    rewrite N.div_small by exact Hc. reflexivity.
Qed.

Lemma testbit_lt_256 c j : c < 256 -> N.testbit c j = true -> j < 8.
Proof.
  intros Hc Hj. destruct (j <? 8) eqn:E; [lia|].
  change 256 with (2 ^ 8) in Hc.
  rewrite <- (N.mod_small c (2 ^ 8)) in Hj by exact Hc.
  rewrite N.mod_pow2_bits_high in Hj by lia. discriminate.
Qed.

(* ---- windows on an abstract bit stream f ---------------------------------- *)
Section Window.
Variable f : nat -> bool.

(* the low n bits of v are the stream bits [R, R+n) *)
Definition exact (R : nat) (v n : N) : Prop :=
  forall i, i < n -> N.testbit v i = f (R + N.to_nat i)%nat.

(* v is, bit for bit, a sub-pattern of the 64-bit stream window at R (look-ahead) *)
Definition subpat (R : nat) (v : N) : Prop :=
  forall i, N.testbit v i = true -> i < 64 /\ f (R + N.to_nat i)%nat = true.

Lemma exact_0 R v : exact R v 0.
Proof. intros i Hi. lia. Qed.

Lemma subpat_0 R : subpat R 0.
Proof. intros i Hi. rewrite N.bits_0 in Hi. discriminate. Qed.

Lemma exact_shiftr R v n nb : nb <= n ->
  exact R v n -> exact (R + N.to_nat nb) (N.shiftr v nb) (n - nb).
Proof.
  intros Hnb H i Hi. rewrite N.shiftr_spec', H by lia. f_equal. lia.
Qed.

Lemma subpat_shiftr R v nb :
  subpat R v -> subpat (R + N.to_nat nb) (N.shiftr v nb).
Proof.
  intros H i Hi. rewrite N.shiftr_spec' in Hi. destruct (H _ Hi) as [H1 H2].
  split; [lia|]. rewrite <- H2. f_equal. lia.
Qed.

Lemma subpat_load R v s u :
  subpat R v ->
  (forall j, N.testbit u j = true -> f (R + N.to_nat s + N.to_nat j)%nat = true) ->
  subpat R (N.lor v (u64 (N.shiftl u s))).
Proof.
  intros Hv Hu i Hi. rewrite N.lor_spec in Hi. apply orb_true_iff in Hi as [Hi|Hi].
  - apply Hv; exact Hi.
  - rewrite testbit_u64_shiftl in Hi.
    destruct (i <? 64) eqn:E1; [|discriminate].
    destruct (s <=? i) eqn:E2; [|discriminate].
    split; [lia|]. rewrite <- (Hu _ Hi). f_equal. lia.
Qed.

Lemma exact_load R v s u m n' :
  subpat R v -> exact R v s ->
  (forall j, j < m -> N.testbit u j = f (R + N.to_nat s + N.to_nat j)%nat) ->
  n' <= s + m -> n' <= 64 ->
  exact R (N.lor v (u64 (N.shiftl u s))) n'.
Proof.
  intros Hv He Hu H1 H2 i Hi. rewrite N.lor_spec, testbit_u64_shiftl.
  replace (i <? 64) with true by lia.
  destruct (s <=? i) eqn:E.
  - rewrite Hu by lia.
    replace (R + N.to_nat s + N.to_nat (i - s))%nat with (R + N.to_nat i)%nat by lia.
    destruct (N.testbit v i) eqn:Ev.
    + destruct (Hv _ Ev) as [_ ->]. reflexivity.
    + reflexivity.
  - rewrite orb_false_r. apply He. lia.
Qed.

Lemma exact_le R v n n' : n' <= n -> exact R v n -> exact R v n'.
Proof. intros H He i Hi. apply He. lia. Qed.

End Window.

(* ------------------------------------------------------------------------- *)
(* (2) stream lemmas                                                         *)
(* ------------------------------------------------------------------------- *)

Lemma ord_0 big : ord big 0 = 0.
Proof. destruct big; reflexivity. Qed.

Lemma rev8_lt c : rev8 c < 256.
Proof.
  unfold rev8. change 256 with (2 ^ N.of_nat 8).
  replace 8%nat with (length (fast_rev (val_bits 8 c))) at 2.
  - apply bits_val_bound.
  - rewrite fast_rev_eq, rev_length, val_bits_length. reflexivity.
Qed.

Lemma ord_lt big c : c < 256 -> ord big c < 256.
Proof. destruct big; cbn [ord]; intros H; [apply rev8_lt | exact H]. Qed.

Lemma rev8_rev8 c : c < 256 -> rev8 (rev8 c) = c.
Proof.
  intros Hc. unfold rev8.
  assert (L : length (fast_rev (val_bits 8 c)) = 8%nat)
    by (rewrite fast_rev_eq, rev_length, val_bits_length; reflexivity).
  rewrite <- L at 1. rewrite val_bits_bits_val.
  rewrite !fast_rev_eq, rev_involutive, bits_val_val_bits.
  apply N.mod_small. exact Hc.
Qed.

Lemma ord_ord big c : c < 256 -> ord big (ord big c) = c.
Proof. destruct big; cbn [ord]; intros H; [apply rev8_rev8; exact H | reflexivity]. Qed.

Definition sbit (big : bool) (data : list byte) (i : nat) : bool :=
  nth i (stream_bits big data) false.

Lemma stream_bits_length big data : length (stream_bits big data) = (8 * length data)%nat.
Proof.
  induction data as [|b data IH]; [reflexivity|].
  unfold stream_bits in *. cbn [flat_map]. rewrite app_length, IH, val_bits_length.
  cbn [length]. lia.
Qed.

Lemma sbit_spec big data : forall i,
  sbit big data i = N.testbit (ord big (nth (i / 8) data 0)) (N.of_nat (i mod 8)).
Proof.
  unfold sbit. induction data as [|b data IH]; intros i.
  - cbn [stream_bits flat_map]. 
    replace (nth (i / 8) [] 0) with 0 by (destruct (i / 8)%nat; reflexivity).
    rewrite ord_0, N.bits_0. destruct i; reflexivity.
  - change (stream_bits big (b :: data)) with (val_bits 8 (ord big b) ++ stream_bits big data).
    destruct (Nat.ltb i 8) eqn:E.
    + apply Nat.ltb_lt in E. rewrite app_nth1 by (rewrite val_bits_length; exact E).
      rewrite nth_val_bits by exact E.
      replace (i / 8)%nat with 0%nat by lia. replace (i mod 8)%nat with i by lia.
      reflexivity.
    + apply Nat.ltb_ge in E. rewrite app_nth2 by (rewrite val_bits_length; exact E).
      rewrite val_bits_length, IH.
      replace (i / 8)%nat with (S ((i - 8) / 8)) by lia.
      replace ((i - 8) mod 8)%nat with (i mod 8)%nat by lia.
      reflexivity.
Qed.

Lemma sbit_overflow big data i : (8 * length data <= i)%nat -> sbit big data i = false.
Proof.
  intros H. unfold sbit. apply nth_overflow. rewrite stream_bits_length. exact H.
Qed.

(* the stream bits of the byte at index E *)
Lemma sbit_byte big data E j c rest :
  skipn E data = c :: rest -> j < 8 ->
  sbit big data (8 * E + N.to_nat j) = N.testbit (ord big c) j.
Proof.
  intros Hs Hj. rewrite sbit_spec.
  replace ((8 * E + N.to_nat j) / 8)%nat with E by lia.
  replace ((8 * E + N.to_nat j) mod 8)%nat with (N.to_nat j) by lia.
  rewrite N2Nat.id.
  replace (nth E data 0) with c; [reflexivity|].
  rewrite <- (Nat.add_0_r E), <- nth_skipn', Hs. reflexivity.
Qed.

Lemma testbit_bits_at bits R n i :
  N.testbit (bits_at bits R n) i =
  if i <? N.of_nat n then nth (R + N.to_nat i) bits false else false.
Proof.
  unfold bits_at. rewrite testbit_bits_val, nth_firstn', nth_skipn'.
  destruct (Nat.ltb (N.to_nat i) n) eqn:E1; destruct (i <? N.of_nat n) eqn:E2;
    try reflexivity.
  - apply Nat.ltb_lt in E1. lia.
  - apply Nat.ltb_ge in E1. lia.
Qed.

Lemma exact_bits_at big data R v n nb :
  exact (sbit big data) R v n -> nb <= n ->
  v mod 2 ^ nb = bits_at (stream_bits big data) R (N.to_nat nb).
Proof.
  intros He Hnb. apply N.bits_inj. intros i.
  rewrite testbit_mod_pow2, testbit_bits_at, N2Nat.id.
  destruct (i <? nb) eqn:E; [|reflexivity].
  apply He. lia.
Qed.

Lemma In_skipn' {A} (x : A) n l : In x (skipn n l) -> In x l.
Proof.
  intros H. rewrite <- (firstn_skipn n l). apply in_or_app. right. exact H.
Qed.

Lemma skipn_S_cons {A} (E : nat) (data : list A) c rest :
  skipn E data = c :: rest -> skipn (S E) data = rest.
Proof.
  intros H. replace (S E) with (E + 1)%nat by lia.
  rewrite <- skipn_skipn', H. reflexivity.
Qed.

Lemma testbit_le_bytes_stream big data (Hd : forall b, In b data -> b < 256) l :
  forall E rest, skipn E data = l ++ rest ->
  forall j, N.testbit (le_bytes (map (ord big) l)) j =
            if j <? 8 * N.of_nat (length l) then sbit big data (8 * E + N.to_nat j) else false.
Proof.
  induction l as [|c l IH]; intros E rest Hs j.
  - cbn [map le_bytes length]. rewrite N.bits_0.
    replace (j <? 8 * N.of_nat 0) with false by lia. reflexivity.
  - cbn [map le_bytes fold_right]. fold (le_bytes (map (ord big) l)).
    cbn [app] in Hs.
    assert (Hc : ord big c < 256).
    { apply ord_lt, Hd. apply (In_skipn' c E). rewrite Hs. left. reflexivity. }
    rewrite testbit_add_mul256 by exact Hc.
    destruct (j <? 8) eqn:E8.
    + replace (j <? 8 * N.of_nat (length (c :: l))) with true by (cbn [length]; lia).
      symmetry. eapply sbit_byte; [exact Hs | lia].
    + rewrite (IH (S E) rest) by (eapply skipn_S_cons; exact Hs).
      replace (8 * S E + N.to_nat (j - 8))%nat with (8 * E + N.to_nat j)%nat by lia.
      cbn [length].
      destruct (j - 8 <? 8 * N.of_nat (length l)) eqn:E1;
        destruct (j <? 8 * N.of_nat (S (length l))) eqn:E2; try reflexivity; lia.
Qed.

Lemma le_bytes_single c : le_bytes [c] = c.
Proof. cbn [le_bytes fold_right]. lia. Qed.

(* ------------------------------------------------------------------------- *)
(* (3) source lemmas are inlined below (the source functions are unfolded);   *)
(* (4) the invariant                                                         *)
(* ------------------------------------------------------------------------- *)
Section Reader.
Variable big : bool.
Variable data : list byte.
Hypothesis Hd : forall b, In b data -> b < 256.

Notation f := (sbit big data).

(* the bit buffer [v] with [nb] valid bits, at abstract position R *)
Record Win (R : nat) (v nb : N) : Prop := mkWin {
  w_le : nb <= 64;
  w_al : ((R + N.to_nat nb) mod 8 = 0)%nat;
  w_in : (R + N.to_nat nb <= 8 * length data)%nat;
  w_ex : exact f R v nb;
  w_sub : subpat f R v
}.

Lemma Win_take R v n nb : Win R v n -> nb <= n ->
  Win (R + N.to_nat nb) (N.shiftr v nb) (n - nb).
Proof.
  intros [H1 H2 H3 H4 H5] Hnb. split.
  - lia.
  - replace (R + N.to_nat nb + N.to_nat (n - nb))%nat with (R + N.to_nat n)%nat by lia. exact H2.
  - lia.
  - apply exact_shiftr; assumption.
  - apply subpat_shiftr; assumption.
Qed.

Lemma Win_zero R : (R mod 8 = 0)%nat -> (R <= 8 * length data)%nat -> Win R 0 0.
Proof.
  intros H1 H2. split.
  - lia.
  - rewrite Nat.add_0_r. exact H1.
  - lia.
  - apply exact_0.
  - apply subpat_0.
Qed.

Lemma Win_load R v s l rest s' :
  Win R v s ->
  skipn ((R + N.to_nat s) / 8) data = l ++ rest ->
  s <= s' -> s' <= s + 8 * N.of_nat (length l) -> s' <= 64 ->
  ((R + N.to_nat s') mod 8 = 0)%nat ->
  Win R (N.lor v (u64 (N.shiftl (le_bytes (map (ord big) l)) s))) s'.
Proof.
  intros [H1 H2 H3 H4 H5] Hs Hle Hs' H64 Hal.
  assert (HE : (R + N.to_nat s = 8 * ((R + N.to_nat s) / 8))%nat) by lia.
  set (E := ((R + N.to_nat s) / 8)%nat) in *.
  pose proof (testbit_le_bytes_stream big data Hd l E rest Hs) as Hu.
  assert (Hlen : (E + length l <= length data)%nat).
  { assert (HL : length (skipn E data) = length (l ++ rest)) by (rewrite Hs; reflexivity).
    rewrite skipn_length, app_length in HL. lia. }
  split.
  - exact H64.
  - exact Hal.
  - lia.
  - apply exact_load with (m := 8 * N.of_nat (length l)); try assumption.
    intros j Hj. rewrite Hu. replace (j <? 8 * N.of_nat (length l)) with true by lia.
    f_equal. lia.
  - apply subpat_load; [assumption|].
    intros j Hj. rewrite Hu in Hj.
    destruct (j <? 8 * N.of_nat (length l)); [|discriminate].
    rewrite <- Hj. f_equal. lia.
Qed.

Lemma Win_load_byte R v s c rest :
  Win R v s ->
  skipn ((R + N.to_nat s) / 8) data = c :: rest ->
  s + 8 <= 64 ->
  Win R (N.lor v (u64 (N.shiftl (ord big c) s))) (s + 8).
Proof.
  intros HW Hs H64.
  rewrite <- (le_bytes_single (ord big c)).
  change [ord big c] with (map (ord big) [c]).
  apply Win_load with (rest := rest); try assumption.
  - lia.
  - cbn [length]. lia.
  - destruct HW. lia.
Qed.

(* [Core R p d]: the reader state p is consistent with abstract position R, where d
   is the "effective discard": the number of bits consumed beyond the source position
   (8 * s_pos + d = R). Between operations d = [effd p]; inside PullBits d = p_discard
   on the buffered path and -numBits on the ByteReader path. *)
Record Core (R : nat) (p : prd) (d : Z) : Prop := mkCore {
  c_big : p_big p = big;
  c_data : s_data (p_src p) = data;
  c_off : p_offset p = Z.of_nat (s_pos (p_src p));
  c_R : Z.of_nat R = (8 * p_offset p + d)%Z;
  c_win : Win R (p_bufBits p) (p_numBits p);
  c_peek : p_peek p =
           firstn (length (p_peek p)) (skipn ((R + N.to_nat (p_numBits p)) / 8) data)
}.

Definition effd (p : prd) : Z :=
  if p_buffered p
  then (p_discard p + (Z.of_N (p_fed p) - Z.of_N (p_numBits p)))%Z
  else (- Z.of_N (p_numBits p))%Z.

(* [InvS k]: the invariant with slack k on the lower bound of the effective discard
   (k = 0 between operations; k = nb between PullBits nb and the consumption of nb bits) *)
Definition InvS (k : Z) (R : nat) (p : prd) : Prop :=
  Core R p (effd p) /\ (-7 - k <= effd p)%Z /\ (p_buffered p = false -> p_peek p = []).

Definition Inv (R : nat) (p : prd) : Prop :=
  Core R p (effd p) /\ (-7 <= effd p)%Z /\ (p_buffered p = false -> p_peek p = []).

Lemma Inv_InvS k R p : (0 <= k)%Z -> Inv R p -> InvS k R p.
Proof. intros Hk (H1 & H2 & H3). split; [exact H1|]. split; [lia | exact H3]. Qed.

Lemma bits_read_effd p : bits_read p = (8 * p_offset p + effd p)%Z.
Proof. unfold bits_read, effd. destruct (p_buffered p); lia. Qed.

Lemma Inv_bits_read R p : Inv R p -> bits_read p = Z.of_nat R.
Proof. intros [H _]. rewrite bits_read_effd. destruct H. lia. Qed.

Ltac prj := cbn [p_src p_buffered p_big p_bufBits p_numBits p_peek p_discard p_fed p_offset
                 s_data s_pos s_buf s_fills s_reads fst snd].

Lemma Inv_init bf fills reads : Inv 0 (init data bf big fills reads).
Proof.
  unfold Inv, effd, init. prj. split; [|split].
  - split; prj; try reflexivity.
    + destruct bf; reflexivity.
    + apply Win_zero; [reflexivity | lia].
  - destruct bf; lia.
  - reflexivity.
Qed.

(* ---- take_bits ------------------------------------------------------------ *)
Lemma take_bits_ok R p nb : InvS (Z.of_N nb) R p -> nb <= p_numBits p ->
  fst (take_bits p nb) = bits_at (stream_bits big data) R (N.to_nat nb) /\
  Inv (R + N.to_nat nb) (snd (take_bits p nb)) /\
  p_buffered (snd (take_bits p nb)) = p_buffered p /\
  p_numBits (snd (take_bits p nb)) = p_numBits p - nb.
Proof.
  intros (HC & Hd7 & Hpk) Hnb. destruct HC as [C1 C2 C3 C4 C5 C6].
  unfold take_bits. prj. split; [|split; [|split]]; try reflexivity.
  - apply exact_bits_at with (n := p_numBits p); [apply C5 | exact Hnb].
  - unfold Inv, effd in *. prj. split; [|split].
    + split; prj; try assumption.
      * destruct (p_buffered p); lia.
      * apply Win_take; assumption.
      * replace (R + N.to_nat nb + N.to_nat (p_numBits p - nb))%nat
          with (R + N.to_nat (p_numBits p))%nat by lia. exact C6.
    + destruct (p_buffered p); lia.
    + exact Hpk.
Qed.

(* ---- ByteReader path: pull_bytes ------------------------------------------ *)
Lemma pull_bytes_ok R nb : nb <= 57 -> forall fuel p,
  p_buffered p = false -> Core R p (- Z.of_N (p_numBits p)) -> p_peek p = [] ->
  p_numBits p < nb + 8 -> 65 <= p_numBits p + 8 * N.of_nat fuel ->
  match pull_bytes fuel p nb with
  | (false, p') =>
      Core R p' (- Z.of_N (p_numBits p')) /\ p_buffered p' = false /\ p_peek p' = [] /\
      nb <= p_numBits p' /\ p_numBits p' < nb + 8
  | (true, _) => (8 * length data < R + N.to_nat nb)%nat
  end.
Proof.
  intros Hnb. induction fuel as [|fuel IH]; intros p Hb HC Hpk Hlt Hfuel.
  - destruct HC as [_ _ _ _ [W _ _ _ _] _]. lia.
  - cbn [pull_bytes]. destruct (nb <=? p_numBits p) eqn:E.
    + split; [exact HC|]. split; [exact Hb|]. split; [exact Hpk|]. lia.
    + destruct HC as [C1 C2 C3 C4 C5 C6].
      assert (HE : ((R + N.to_nat (p_numBits p)) / 8 = s_pos (p_src p))%nat) by lia.
      unfold src_readbyte. rewrite C2.
      destruct (skipn (s_pos (p_src p)) data) as [|c rest] eqn:Hs.
      * assert (HL : length (skipn (s_pos (p_src p)) data) = 0%nat) by (rewrite Hs; reflexivity).
        rewrite skipn_length in HL. lia.
      * apply IH; prj; try reflexivity; try lia.
        split; prj; try assumption; try reflexivity; try lia.
        rewrite C1. apply Win_load_byte with (rest := rest); try assumption; try lia.
        rewrite HE. exact Hs.
Qed.

(* ---- Flush ---------------------------------------------------------------- *)
Lemma peek_len_le R nbits (pk : list byte) :
  pk = firstn (length pk) (skipn ((R + N.to_nat nbits) / 8) data) ->
  ((R + N.to_nat nbits) / 8 + length pk <= length data)%nat \/ pk = [].
Proof.
  intros H. destruct pk as [|x pk]; [right; reflexivity|left].
  assert (HL : length (x :: pk) =
               length (firstn (length (x :: pk)) (skipn ((R + N.to_nat nbits) / 8) data)))
    by (rewrite <- H; reflexivity).
  rewrite firstn_length, skipn_length in HL. cbn [length] in *. lia.
Qed.

Lemma flush_ok R p : Inv R p ->
  exists p', flush p = (false, p') /\ Inv R p' /\
    p_buffered p' = p_buffered p /\
    p_offset p' = Z.of_nat ((R + 7) / 8) /\
    s_pos (p_src p') = ((R + 7) / 8)%nat /\
    p_bufBits p' = p_bufBits p /\ p_numBits p' = p_numBits p /\
    (p_buffered p = true ->
       p_peek p' = [] /\ p_fed p' = p_numBits p' /\ (p_discard p' <= 0)%Z).
Proof.
  intros (HC & Hd7 & Hpk). unfold flush. destruct (p_buffered p) eqn:Hb; cbn [negb].
  - destruct HC as [C1 C2 C3 C4 C5 C6]. destruct C5 as [W1 W2 W3 W4 W5].
    unfold effd in *. rewrite Hb in *.
    set (disc := (p_discard p + (Z.of_N (p_fed p) - Z.of_N (p_numBits p)))%Z) in *.
    unfold src_discard, s_avail. rewrite C2.
    destruct (Nat.ltb (length data - s_pos (p_src p)) (Z.to_nat ((disc + 7) / 8))) eqn:E.
    + apply Nat.ltb_lt in E. exfalso. lia.
    + apply Nat.ltb_ge in E. eexists. split; [reflexivity|]. prj.
      split; [|repeat split; try reflexivity; try lia].
      unfold Inv, effd. prj. split; [|split]; [|lia|discriminate].
      split; prj; try assumption; try reflexivity; try lia.
      split; assumption.
  - exists p. split; [reflexivity|].
    split; [split; [|split]; try assumption; intros _; apply Hpk; reflexivity|].
    destruct HC as [C1 C2 C3 C4 C5 C6]. unfold effd in *. rewrite Hb in *.
    repeat split; try assumption; try lia; discriminate.
Qed.

(* ---- buffered path: one round of the fill loop, split in two halves -------- *)
Definition refill (p : prd) (nb : N) : prd * option bool :=
  match p_peek p with
  | [] =>
    let p0 := mkPrd (p_src p) true (p_big p) (p_bufBits p) (p_numBits p) [] (p_discard p)
                    (p_numBits p) (p_offset p) in
    let '(fshort, pf) := flush p0 in
    if fshort then (pf, Some true) else
    let cnt0 := N.to_nat ((nb + (8 - nb mod 8) mod 8) / 8) in
    let '(b, s1) := src_buffered (p_src pf) in
    let cnt := Nat.max cnt0 b in
    let '((bytes, short), s2) := src_peek s1 cnt in
    let peek := skipn (N.to_nat (p_numBits pf / 8)) bytes in
    let pp := mkPrd s2 true (p_big pf) (p_bufBits pf) (p_numBits pf) peek (p_discard pf)
                    (p_fed pf) (p_offset pf) in
    match peek with
    | [] => if nb <=? p_numBits pf then (pp, Some false) else (pp, Some true)
    | _ => (pp, None)
    end
  | _ => (p, None)
  end.

Definition loadp (p1 : prd) : pres :=
  let n := N.to_nat ((64 - p_numBits p1) / 8) in
  if Nat.leb 8 (length (p_peek p1)) then
    let u := le_bytes (map (ord (p_big p1)) (firstn 8 (p_peek p1))) in
    PDone (mkPrd (p_src p1) true (p_big p1)
                 (N.lor (p_bufBits p1) (u64 (N.shiftl u (p_numBits p1))))
                 (p_numBits p1 + 8 * N.of_nat n) (skipn n (p_peek p1))
                 (p_discard p1) (p_fed p1) (p_offset p1))
  else
    let n' := Nat.min n (length (p_peek p1)) in
    let '(bits, nbits) := load_bytes (p_big p1) (p_bufBits p1) (p_numBits p1) (firstn n' (p_peek p1)) in
    let p2 := mkPrd (p_src p1) true (p_big p1) bits nbits (skipn n' (p_peek p1))
                    (p_discard p1) (p_fed p1) (p_offset p1) in
    if 56 <? nbits then PDone p2 else PMore p2.

Lemma pull_round_eq p nb :
  pull_round p nb =
  let '(p1, stop) := refill p nb in
  match stop with
  | Some true => PErr p1
  | Some false => PDone p1
  | None => loadp p1
  end.
Proof. reflexivity. Qed.

Lemma src_peek_spec s n : exists buf fills short,
  src_peek s n = ((firstn n (skipn (s_pos s) (s_data s)), short),
                  mkSrc (s_data s) (s_pos s) buf fills (s_reads s)).
Proof.
  unfold src_peek. destruct (Nat.ltb (s_buf s) n); [destruct (s_fills s)|];
    do 3 eexists; reflexivity.
Qed.

Lemma firstn_length_firstn {A} m (l : list A) : firstn (length (firstn m l)) l = firstn m l.
Proof.
  rewrite firstn_length. symmetry. apply firstn_min.
Qed.

(* the in-loop invariant of PullBits on the buffered path *)
Definition LI (R : nat) (p : prd) : Prop :=
  p_buffered p = true /\ Core R p (p_discard p) /\ (-7 <= p_discard p)%Z.

Lemma refill_ok R p nb : LI R p ->
  match refill p nb with
  | (_, Some true) => (8 * length data < R + N.to_nat nb)%nat
  | (p1, Some false) => LI R p1 /\ nb <= p_numBits p1
  | (p1, None) => LI R p1 /\ p_peek p1 <> [] /\ p_numBits p1 = p_numBits p
  end.
Proof.
  intros (Hb & HC & Hd7). unfold refill. destruct (p_peek p) as [|x pk] eqn:Hp.
  2:{ split; [split; [|split]; assumption|]. split; [rewrite Hp; discriminate | reflexivity]. }
  set (p0 := mkPrd (p_src p) true (p_big p) (p_bufBits p) (p_numBits p) [] (p_discard p)
                   (p_numBits p) (p_offset p)).
  assert (HI0 : Inv R p0).
  { destruct HC as [C1 C2 C3 C4 C5 C6]. unfold Inv, effd, p0. prj.
    split; [|split]; [|lia|discriminate].
    split; prj; try assumption; try reflexivity; lia. }
  destruct (flush_ok R p0 HI0) as (pf & Hf & HIf & Hbf & Hoff & Hpos & Hbb & Hnb & Hx).
  rewrite Hf. cbv beta iota zeta.
  destruct (Hx eq_refl) as (Hpkf & Hfed & Hd0). clear Hx.
  unfold p0 in Hbf, Hbb, Hnb. cbn [p_buffered p_bufBits p_numBits] in Hbf, Hbb, Hnb. prj.
  destruct HIf as (HCf & Hd7f & _). unfold effd in HCf, Hd7f. rewrite Hbf, Hfed in *.
  destruct HCf as [C1 C2 C3 C4 C5 C6].
  unfold src_buffered. 
  set (cnt := Nat.max _ _).
  match goal with |- context [src_peek ?s cnt] =>
    destruct (src_peek_spec s cnt) as (buf & fills & short & Hpe); rewrite Hpe; clear Hpe end.
  prj. rewrite C2, Hpos.
  set (k := N.to_nat (p_numBits pf / 8)).
  assert (HE : ((R + 7) / 8 + k = (R + N.to_nat (p_numBits pf)) / 8)%nat).
  { destruct C5 as [W1 W2 W3 _ _]. unfold k. lia. }
  assert (Hpeek : skipn k (firstn cnt (skipn ((R + 7) / 8) data)) =
                  firstn (cnt - k) (skipn ((R + N.to_nat (p_numBits pf)) / 8) data)).
  { rewrite skipn_firstn_comm, skipn_skipn', HE. reflexivity. }
  rewrite Hpeek.
  set (E := ((R + N.to_nat (p_numBits pf)) / 8)%nat) in *.
  assert (HLI : forall s2 fed,
     s_data s2 = data -> s_pos s2 = ((R + 7) / 8)%nat ->
     LI R (mkPrd s2 true (p_big pf) (p_bufBits pf) (p_numBits pf)
                 (firstn (cnt - k) (skipn E data)) (p_discard pf) fed (p_offset pf))).
  { intros s2 fed H1 H2. split; [reflexivity|]. split; [|prj; lia].
    split; prj; try assumption; try lia.
    fold E. rewrite firstn_length_firstn. reflexivity. }
  destruct (firstn (cnt - k) (skipn E data)) as [|y pk'] eqn:Hpk'.
  - assert (HL : length (firstn (cnt - k) (skipn E data)) = 0%nat) by (rewrite Hpk'; reflexivity).
    rewrite firstn_length, skipn_length in HL.
    destruct (nb <=? p_numBits pf) eqn:Enb.
    + split; [|prj; lia]. apply HLI; reflexivity.
    + destruct C5 as [W1 W2 W3 _ _]. unfold cnt, k, E in *. lia.
  - split; [|split; [discriminate|prj; exact Hnb]].
    apply HLI; reflexivity.
Qed.

Lemma peek_skip (pk : list byte) E n :
  pk = firstn (length pk) (skipn E data) ->
  skipn n pk = firstn (length (skipn n pk)) (skipn (E + n) data).
Proof.
  intros H. rewrite skipn_length. rewrite H at 1.
  rewrite skipn_firstn_comm, skipn_skipn'. reflexivity.
Qed.

Lemma load_bytes_cons c l v s :
  load_bytes big v s (c :: l) =
  load_bytes big (N.lor v (u64 (N.shiftl (ord big c) s))) (s + 8) l.
Proof. reflexivity. Qed.

Lemma load_bytes_ok R l : forall v s,
  Win R v s ->
  firstn (length l) (skipn ((R + N.to_nat s) / 8) data) = l ->
  s + 8 * N.of_nat (length l) <= 64 ->
  let '(v', s') := load_bytes big v s l in
  s' = s + 8 * N.of_nat (length l) /\ Win R v' s'.
Proof.
  induction l as [|c l IH]; intros v s HW Hl H64.
  - cbn [load_bytes fold_left length]. split; [lia | exact HW].
  - rewrite load_bytes_cons.
    destruct (skipn ((R + N.to_nat s) / 8) data) as [|c' rest] eqn:Hs;
      cbn [length firstn] in Hl; [discriminate|].
    injection Hl as -> Hl.
    assert (HW' : Win R (N.lor v (u64 (N.shiftl (ord big c) s))) (s + 8)).
    { apply Win_load_byte with (rest := rest); try assumption. cbn [length] in H64. lia. }
    specialize (IH _ _ HW').
    destruct (load_bytes big _ (s + 8) l) as [v' s'].
    cbn [length] in *.
    destruct IH as [-> HW2].
    + replace ((R + N.to_nat (s + 8)) / 8)%nat with (S ((R + N.to_nat s) / 8)) by (destruct HW; lia).
      rewrite (skipn_S_cons _ _ _ _ Hs). exact Hl.
    + lia.
    + split; [lia | exact HW2].
Qed.

Lemma loadp_ok R p1 : LI R p1 -> p_peek p1 <> [] ->
  match loadp p1 with
  | PMore p' => LI R p' /\ p_numBits p1 + 8 <= p_numBits p' /\ p_numBits p' <= 56
  | PDone p' => LI R p' /\ 57 <= p_numBits p'
  | PErr _ => False
  end.
Proof.
  intros (Hb & HC & Hd7) Hne. destruct HC as [C1 C2 C3 C4 C5 C6].
  pose proof C5 as [W1 W2 W3 _ _].
  set (E := ((R + N.to_nat (p_numBits p1)) / 8)%nat) in *.
  destruct (peek_len_le _ _ _ C6) as [HL|HL]; [|contradiction]. fold E in HL.
  assert (Hne' : (1 <= length (p_peek p1))%nat).
  { destruct (p_peek p1); [contradiction|cbn [length]; lia]. }
  unfold loadp. rewrite C1.
  set (n := N.to_nat ((64 - p_numBits p1) / 8)).
  destruct (Nat.leb 8 (length (p_peek p1))) eqn:E8.
  - apply Nat.leb_le in E8.
    assert (Hf8 : firstn 8 (p_peek p1) = firstn 8 (skipn E data)).
    { rewrite C6, firstn_firstn. f_equal. lia. }
    split; [|prj; unfold n; lia].
    split; [reflexivity|]. split; [|exact Hd7].
    split; prj; try assumption; try reflexivity.
    + apply Win_load with (rest := skipn 8 (skipn E data)); try assumption.
      * fold E. rewrite Hf8. symmetry. apply firstn_skipn.
      * lia.
      * rewrite Hf8, firstn_length, skipn_length. unfold n. lia.
      * unfold n. lia.
      * unfold n. lia.
    + replace ((R + N.to_nat (p_numBits p1 + 8 * N.of_nat n)) / 8)%nat with (E + n)%nat
        by (unfold E, n; lia).
      apply peek_skip. exact C6.
  - apply Nat.leb_gt in E8.
    set (n' := Nat.min n (length (p_peek p1))).
    assert (Hl : length (firstn n' (p_peek p1)) = n').
    { rewrite firstn_length. unfold n'. lia. }
    pose proof (load_bytes_ok R (firstn n' (p_peek p1)) _ _ C5) as HLB.
    rewrite Hl in HLB.
    destruct (load_bytes big (p_bufBits p1) (p_numBits p1) (firstn n' (p_peek p1)))
      as [bits nbits].
    destruct HLB as [-> HW].
    { fold E. rewrite C6, firstn_firstn. f_equal. unfold n'. lia. }
    { unfold n', n. lia. }
    assert (HLI : LI R (mkPrd (p_src p1) true big bits (p_numBits p1 + 8 * N.of_nat n')
                              (skipn n' (p_peek p1)) (p_discard p1) (p_fed p1) (p_offset p1))).
    { split; [reflexivity|]. split; [|exact Hd7].
      split; prj; try assumption; try reflexivity.
      replace ((R + N.to_nat (p_numBits p1 + 8 * N.of_nat n')) / 8)%nat with (E + n')%nat
        by (unfold E; lia).
      apply peek_skip. exact C6. }
    destruct (56 <? p_numBits p1 + 8 * N.of_nat n') eqn:E56.
    + split; [exact HLI|]. prj. lia.
    + split; [exact HLI|]. prj. unfold n', n in *. lia.
Qed.

Lemma pull_round_ok R p nb : LI R p -> nb <= 57 ->
  match pull_round p nb with
  | PMore p' => LI R p' /\ p_numBits p + 8 <= p_numBits p' /\ p_numBits p' <= 56
  | PDone p' => LI R p' /\ nb <= p_numBits p'
  | PErr _ => (8 * length data < R + N.to_nat nb)%nat
  end.
Proof.
  intros HLI Hnb. rewrite pull_round_eq.
  pose proof (refill_ok R p nb HLI) as Hr.
  destruct (refill p nb) as [p1 [[|]|]].
  - exact Hr.
  - exact Hr.
  - destruct Hr as (H1 & H2 & H3).
    pose proof (loadp_ok R p1 H1 H2) as Hl.
    destruct (loadp p1) as [p'|p'|p'].
    + rewrite <- H3. exact Hl.
    + destruct Hl as [Hl1 Hl2]. split; [exact Hl1 | lia].
    + contradiction.
Qed.

(* (5) fuel adequacy: every PMore round adds at least 8 bits and leaves at most 56 *)
Lemma pull_loop_ok R nb : nb <= 57 -> forall fuel p,
  LI R p -> 72 <= p_numBits p + 8 * N.of_nat fuel ->
  match pull_loop fuel p nb with
  | (false, p') => LI R p' /\ nb <= p_numBits p'
  | (true, _) => (8 * length data < R + N.to_nat nb)%nat
  end.
Proof.
  intros Hnb. induction fuel as [|fuel IH]; intros p HLI Hfuel.
  - destruct HLI as (_ & [_ _ _ _ [W _ _ _ _] _] & _). lia.
  - cbn [pull_loop]. pose proof (pull_round_ok R p nb HLI Hnb) as Hr.
    destruct (pull_round p nb) as [p'|p'|p'].
    + destruct Hr as (H1 & H2 & H3). apply IH; [exact H1 | lia].
    + exact Hr.
    + exact Hr.
Qed.

Lemma pull_bits_ok R p nb : Inv R p -> nb <= 57 ->
  match pull_bits p nb with
  | (false, p') => InvS (Z.of_N nb) R p' /\ nb <= p_numBits p' /\ p_buffered p' = p_buffered p
  | (true, _) => (8 * length data < R + N.to_nat nb)%nat
  end.
Proof.
  intros (HC & Hd7 & Hpk) Hnb. unfold pull_bits. destruct (p_buffered p) eqn:Hb.
  - set (p0 := mkPrd _ _ _ _ _ _ _ _ _).
    assert (HLI : LI R p0).
    { unfold effd in *. rewrite Hb in *. destruct HC as [C1 C2 C3 C4 C5 C6].
      split; [reflexivity|]. split; [|exact Hd7]. split; assumption. }
    pose proof (pull_loop_ok R nb Hnb 12 p0 HLI) as Hl.
    destruct (pull_loop 12 p0 nb) as [[|] p1].
    + apply Hl. lia.
    + destruct Hl as ((Hb1 & HC1 & Hd1) & Hnb1); [lia|].
      split; [|split; [exact Hnb1 | reflexivity]].
      destruct HC1 as [C1 C2 C3 C4 C5 C6].
      unfold InvS, effd. prj. split; [|split]; [|lia|discriminate].
      split; prj; try assumption; lia.
  - unfold effd in *. rewrite Hb in *.
    pose proof (pull_bytes_ok R nb Hnb 9 p Hb HC (Hpk eq_refl)) as Hy.
    destruct (pull_bytes 9 p nb) as [[|] p1].
    + apply Hy; lia.
    + destruct Hy as (H1 & H2 & H3 & H4 & H5); [lia|lia|].
      split; [|split; [exact H4 | exact H2]].
      unfold InvS, effd. rewrite H2. split; [exact H1|]. split; [lia|]. intros _; exact H3.
Qed.

(* ---- raw Read: draining the bit buffer ------------------------------------- *)
Lemma low_byte R v n c rest :
  Win R v n -> 8 <= n -> (R mod 8 = 0)%nat -> skipn (R / 8) data = c :: rest ->
  v mod 2 ^ 8 = ord big c.
Proof.
  intros [W1 W2 W3 W4 W5] Hn HR Hs.
  assert (Hc : ord big c < 256).
  { apply ord_lt, Hd. apply (In_skipn' c (R / 8)). rewrite Hs. left. reflexivity. }
  apply N.bits_inj. intros j. rewrite testbit_mod_pow2.
  destruct (j <? 8) eqn:E.
  - rewrite W4 by lia. replace R with (8 * (R / 8))%nat at 1 by lia.
    eapply sbit_byte; [exact Hs | lia].
  - destruct (N.testbit (ord big c) j) eqn:Ej; [|reflexivity].
    apply testbit_lt_256 in Ej; [lia | exact Hc].
Qed.

Lemma drain_S k p acc :
  drain (S k) p acc =
  if p_numBits p =? 0 then (fast_rev acc, p)
  else drain k (snd (take_bits p 8)) (ord (p_big p) (fst (take_bits p 8)) :: acc).
Proof. reflexivity. Qed.

Lemma drain_ok k : forall R p acc,
  Inv R p -> p_numBits p mod 8 = 0 ->
  exists bs p', drain k p acc = (rev acc ++ bs, p') /\
    Inv (R + 8 * length bs) p' /\ p_buffered p' = p_buffered p /\
    bs = firstn (length bs) (skipn (R / 8) data) /\ (length bs <= k)%nat /\
    (k <> O -> p_numBits p <> 0 -> bs <> []).
Proof.
  induction k as [|k IH]; intros R p acc HI Hm.
  - exists [], p. cbn [drain length]. rewrite fast_rev_eq, app_nil_r, Nat.add_0_r.
    split; [reflexivity|]. split; [exact HI|]. split; [reflexivity|]. split; [reflexivity|].
    split; [lia|]. intros H; contradiction.
  - rewrite drain_S. destruct (p_numBits p =? 0) eqn:E0.
    + exists [], p. cbn [length]. rewrite fast_rev_eq, app_nil_r, Nat.add_0_r.
      split; [reflexivity|]. split; [exact HI|]. split; [reflexivity|]. split; [reflexivity|].
      split; [lia|]. intros _ H; lia.
    + assert (H8 : 8 <= p_numBits p) by lia.
      destruct (take_bits_ok R p 8 (Inv_InvS 8 R p ltac:(lia) HI) H8) as (Hv & HI1 & Hb1 & Hn1).
      destruct HI as ([C1 C2 C3 C4 C5 C6] & _ & _).
      pose proof C5 as [W1 W2 W3 _ _].
      assert (HR : (R mod 8 = 0)%nat) by lia.
      destruct (skipn (R / 8) data) as [|c rest] eqn:Hs.
      { assert (HL : length (skipn (R / 8) data) = 0%nat) by (rewrite Hs; reflexivity).
        rewrite skipn_length in HL. lia. }
      assert (Hb : ord (p_big p) (fst (take_bits p 8)) = c).
      { unfold take_bits. prj. rewrite C1, (low_byte R _ _ c rest C5 H8 HR Hs).
        apply ord_ord, Hd. apply (In_skipn' c (R / 8)). rewrite Hs. left. reflexivity. }
      rewrite Hb.
      destruct (IH (R + N.to_nat 8)%nat (snd (take_bits p 8)) (c :: acc) HI1)
        as (bs & p' & Hdr & HI' & Hb' & Hbs & Hlen & _).
      { rewrite Hn1. lia. }
      exists (c :: bs), p'. rewrite Hdr. cbn [rev length]. rewrite <- app_assoc. cbn [app].
      split; [reflexivity|]. split.
      { replace (R + 8 * S (length bs))%nat with (R + N.to_nat 8 + 8 * length bs)%nat by lia.
        exact HI'. }
      split; [congruence|]. split.
      { cbn [firstn]. f_equal.
        replace ((R + N.to_nat 8) / 8)%nat with (S (R / 8)) in Hbs by lia.
        rewrite (skipn_S_cons _ _ _ _ Hs) in Hbs. exact Hbs. }
      split; [lia|]. intros _ _. discriminate.
Qed.

Lemma read_raw_ok R p k : Inv R p ->
  let '((bs, e), p') := read_raw p k in
  p_buffered p' = p_buffered p /\
  (((R mod 8 <> 0)%nat /\ bs = [] /\ e = 2 /\ Inv R p') \/
   ((R mod 8 = 0)%nat /\ (length bs <= k)%nat /\
    bs = firstn (length bs) (skipn (R / 8) data) /\
    (e = 1 -> bs = [] /\ (length data <= R / 8)%nat) /\
    (e = 0 -> bs = [] -> k = O) /\ (e = 0 \/ e = 1) /\
    (k <> O -> (length data <= R / 8)%nat -> e = 1) /\
    Inv (R + 8 * length bs) p')).
Proof.
  intros HI. unfold read_raw. destruct (0 <? p_numBits p) eqn:Epos.
  - pose proof HI as ([C1 C2 C3 C4 C5 C6] & _ & _). pose proof C5 as [W1 W2 W3 _ _].
    destruct (p_numBits p mod 8 =? 0) eqn:Em; cbn [negb].
    + destruct (drain_ok k R p [] HI ltac:(lia)) as (bs & p' & Hdr & HI' & Hb' & Hbs & Hlen & Hne).
      rewrite Hdr. cbn [rev app]. split; [exact Hb'|]. right.
      split; [lia|]. split; [exact Hlen|]. split; [exact Hbs|].
      split; [intros H; lia|]. split.
      { intros _ Hnil. destruct k; [reflexivity|]. exfalso. apply Hne; [discriminate|lia|exact Hnil]. }
      split; [left; reflexivity|]. split; [intros _ H; lia|]. exact HI'.
    + split; [reflexivity|]. left. split; [lia|]. split; [reflexivity|]. split; [reflexivity|]. exact HI.
  - set (p0 := mkPrd _ _ _ _ _ _ _ _ _).
    assert (HI0 : Inv R p0).
    { destruct HI as ([C1 C2 C3 C4 C5 C6] & H7 & Hpk). destruct C5 as [W1 W2 W3 W4 W5].
      unfold Inv, effd, p0 in *. prj. split; [|split; assumption].
      split; prj; try assumption. split; try assumption.
      - intros i Hi. lia.
      - apply subpat_0. }
    destruct (flush_ok R p0 HI0) as (p1 & Hf & HI1 & Hb1 & Hoff & Hpos & Hbb & Hnb & Hx).
    rewrite Hf. cbv beta iota.
    unfold p0 in Hb1, Hbb, Hnb. cbn [p_buffered p_bufBits p_numBits] in Hb1, Hbb, Hnb.
    assert (Hpk1 : p_peek p1 = []).
    { destruct (p_buffered p) eqn:Hbp; [apply Hx; reflexivity | apply HI1; exact Hb1]. }
    destruct HI1 as ([C1 C2 C3 C4 C5 C6] & H7 & _). destruct C5 as [W1 W2 W3 _ _].
    assert (Hn0 : p_numBits p1 = 0) by lia.
    assert (HR : (R mod 8 = 0)%nat) by lia.
    assert (HP : s_pos (p_src p1) = (R / 8)%nat) by lia.
    assert (HInv : forall s' n, s_data s' = data -> s_pos s' = (s_pos (p_src p1) + n)%nat ->
              (s_pos (p_src p1) + n <= length data)%nat ->
              Inv (R + 8 * n) (mkPrd s' (p_buffered p1) (p_big p1) (p_bufBits p1) (p_numBits p1)
                                    (p_peek p1) (p_discard p1) (p_fed p1)
                                    (p_offset p1 + Z.of_nat n)%Z)).
    { intros s' n Hs1 Hs2 Hs3. unfold Inv, effd in *. prj. split; [|split]; [|exact H7|intros _; exact Hpk1].
      split; prj; try assumption; try lia.
      - rewrite Hbb, Hn0. apply Win_zero; lia.
      - rewrite Hpk1. reflexivity. }
    unfold src_read, s_avail. rewrite C2.
    destruct (Nat.eqb (length data - s_pos (p_src p1)) 0) eqn:Eav.
    + apply Nat.eqb_eq in Eav. cbn [length]. split; [exact Hb1|]. right.
      split; [exact HR|]. split; [lia|]. split; [reflexivity|].
      split; [intros _; split; [reflexivity|lia]|]. split; [intros H; lia|].
      split; [right; reflexivity|]. split; [intros _ _; reflexivity|].
      apply HInv; [exact C2 | lia | lia].
    + apply Nat.eqb_neq in Eav.
      set (lr := match s_reads (p_src p1) with
                 | [] => (k, [])
                 | e :: r => (Nat.max 1 (Nat.min e k), r)
                 end).
      assert (Hlim : (fst lr = k \/ 1 <= fst lr)%nat).
      { unfold lr. destruct (s_reads (p_src p1)); cbn [fst]; lia. }
      destruct lr as [lim reads]. cbn [fst] in Hlim.
      set (n := Nat.min (Nat.min k lim) (length data - s_pos (p_src p1))).
      assert (Hlen : length (firstn n (skipn (s_pos (p_src p1)) data)) = n).
      { rewrite firstn_length, skipn_length. unfold n. lia. }
      rewrite Hlen. split; [exact Hb1|]. right.
      split; [exact HR|]. split; [unfold n; lia|]. split; [rewrite HP; reflexivity|].
      split; [intros H; lia|]. split.
      { intros _ Hnil. rewrite Hnil in Hlen. cbn [length] in Hlen. unfold n in Hlen. lia. }
      split; [left; reflexivity|]. split; [intros _ H; lia|].
      apply HInv; prj; [reflexivity | reflexivity | unfold n; lia].
Qed.

(* ------------------------------------------------------------------------- *)
(* (6) one operation against the specification                                *)
(* ------------------------------------------------------------------------- *)
Lemma pstep_ok R p o : Inv R p ->
  match o with PBits nb => nb <= 57 | _ => True end ->
  let '(ob, p') := pstep p o in
  (exists R', spec_obs big data R o ob R' /\ (forall br, ob <> OBits None br) /\ Inv R' p') \/
  (exists nb br, o = PBits nb /\ ob = OBits None br /\
                 (8 * length data < R + N.to_nat nb)%nat).
Proof.
  intros HI Ho. destruct o as [nb| |k|]; unfold pstep.
  - unfold read_bits. pose proof (pull_bits_ok R p nb HI Ho) as Hp.
    destruct (pull_bits p nb) as [[|] p1].
    + right. exists nb, (bits_read p1). split; [reflexivity|]. split; [reflexivity|exact Hp].
    + destruct Hp as (HI1 & Hnb1 & _).
      destruct (take_bits_ok R p1 nb HI1 Hnb1) as (Hv & HI2 & _ & _).
      destruct (take_bits p1 nb) as [v p2]. cbn [fst snd] in Hv, HI2.
      left. exists (R + N.to_nat nb)%nat. rewrite (Inv_bits_read _ _ HI2), Hv.
      split; [|split; [intros br; discriminate | exact HI2]].
      apply SBits. destruct HI1 as ([_ _ _ _ [_ _ W3 _ _] _] & _ & _). lia.
  - unfold read_pads.
    assert (Hn : p_numBits p mod 8 <= p_numBits p) by (apply N.mod_le; lia).
    destruct (take_bits_ok R p (p_numBits p mod 8)
                (Inv_InvS (Z.of_N (p_numBits p mod 8)) R p ltac:(lia) HI) Hn) as (Hv & HI2 & _ & _).
    destruct (take_bits p (p_numBits p mod 8)) as [v p2]. cbn [fst snd] in Hv, HI2.
    left. exists (R + N.to_nat (p_numBits p mod 8))%nat.
    rewrite (Inv_bits_read _ _ HI2), Hv.
    split; [|split; [intros br; discriminate | exact HI2]].
    assert (He : N.to_nat (p_numBits p mod 8) = ((8 - R mod 8) mod 8)%nat).
    { destruct HI as ([_ _ _ _ [_ W2 _ _ _] _] & _ & _). lia. }
    rewrite He. apply SPads.
  - pose proof (read_raw_ok R p k HI) as Hr.
    destruct (read_raw p k) as [[bs e] p'].
    destruct Hr as (_ & [(H1 & -> & -> & HI')|(H1 & H2 & H3 & H4 & H5 & H6 & H7 & HI')]).
    + left. exists R. rewrite (Inv_bits_read _ _ HI').
      split; [|split; [intros br; discriminate | exact HI']].
      apply SRawUnaligned. exact H1.
    + left. exists (R + 8 * length bs)%nat. rewrite (Inv_bits_read _ _ HI').
      split; [|split; [intros br; discriminate | exact HI']].
      apply SRaw; try assumption. intros He Hb. left. apply H5; assumption.
  - destruct (flush_ok R p HI) as (p' & Hf & HI' & _ & Hoff & Hpos & _).
    rewrite Hf, Hoff, Hpos.
    left. exists R. split; [|split; [intros br; discriminate | exact HI']].
    apply SFlush.
Qed.

(* ------------------------------------------------------------------------- *)
(* (7) histories                                                             *)
(* ------------------------------------------------------------------------- *)
Lemma prun_ok ops : forall R p, Inv R p -> ops_ok ops ->
  spec_run big data R ops (until_panic (prun p ops)).
Proof.
  induction ops as [|o ops IH]; intros R p HI Hok.
  - cbn [prun until_panic]. apply SRnil.
  - inversion Hok as [|o' ops' Ho Hops]; subst.
    cbn [prun]. pose proof (pstep_ok R p o HI Ho) as Hs.
    destruct (pstep p o) as [ob p'].
    destruct Hs as [(R' & Hobs & Hnp & HI')|(nb & br & -> & -> & Heof)].
    + assert (Hu : until_panic (ob :: prun p' ops) = ob :: until_panic (prun p' ops)).
      { destruct ob as [[v|] br| | |]; try reflexivity. exfalso. apply (Hnp br). reflexivity. }
      rewrite Hu. eapply SRcons; [exact Hobs | exact Hnp |]. apply IH; assumption.
    + cbn [until_panic]. apply SRstop. exact Heof.
Qed.

End Reader.

Theorem reader_refines_bytereader_holds : reader_refines_bytereader.
Proof.
  intros data big fills reads ops Hd Hok.
  apply prun_ok; [exact Hd | apply Inv_init | exact Hok].
Qed.

Theorem reader_refines_buffered_holds : reader_refines_buffered.
Proof.
  intros data big fills reads ops Hd Hok.
  apply prun_ok; [exact Hd | apply Inv_init | exact Hok].
Qed.

Print Assumptions reader_refines_bytereader_holds.
Print Assumptions reader_refines_buffered_holds.
