(* Tie (i): the tables and constants dumped from /repo's working tree
   (Gen/ImplTables.v, regenerated on every run) are equal to the definitions
   the models use. Each equality is checked by computation in the kernel. *)
From V Require Import Base.Prelude Base.Prog Meta.Model Flate.Spec XFlate.Index XFlate.Writer XFlate.Reader
  Bzip2.Common Brotli.Tables Brotli.Spec Gen.ImplTables.

Lemma flate_lenRanges_ok : Flate.Spec.lenRanges = Impl.flate_lenRanges.
Proof. vm_compute. reflexivity. Qed.
Lemma flate_distRanges_ok : Flate.Spec.distRanges = Impl.flate_distRanges.
Proof. vm_compute. reflexivity. Qed.
Lemma flate_clenLens_ok : Flate.Spec.clenLens = Impl.flate_clenLens.
Proof. vm_compute. reflexivity. Qed.
(* maxHistSize, initSize, growFactor, endBlockSym, maxNumLitSyms, maxNumDistSyms, maxNumCLenSyms, maxPrefixBits *)
Lemma flate_consts_ok :
  [Flate.Spec.maxHistSize; 4096; 4; 256; Flate.Spec.maxNumLitSyms; Flate.Spec.maxNumDistSyms;
   Flate.Spec.maxNumCLenSyms; 15] = Impl.flate_consts.
Proof. vm_compute. reflexivity. Qed.
(* magicVals, magicMask, maxSyms, min/maxHuffLen, min/maxRepLast, min/maxRepZero, Min/MaxRawBytes, Min/MaxEncBytes, EnsureRawBytes *)
Lemma meta_consts_ok :
  [Meta.Model.magicVals; Meta.Model.magicMask; Meta.Model.maxSyms; 1; 7; 3; 6; 11; 138; 0;
   Meta.Model.MaxRawBytes; 12; XFlate.Reader.MaxEncBytes; Meta.Model.EnsureRawBytes] = Impl.meta_consts.
Proof. vm_compute. reflexivity. Qed.
Lemma xflate_magic_ok : XFlate.Reader.xf_magic = Impl.xflate_magic.
Proof. vm_compute. reflexivity. Qed.
Lemma xflate_endBlock_ok : XFlate.Reader.endBlock = Impl.xflate_endBlock.
Proof. vm_compute. reflexivity. Qed.
Lemma xflate_defaults_ok :
  [XFlate.Writer.DefaultChunkSize; Z.to_N XFlate.Writer.DefaultIndexSize] = Impl.xflate_defaults.
Proof. vm_compute. reflexivity. Qed.
(* blockSize, numBlockSyms, maxNumTrees, minNumTrees, maxPrefixBits, maxNumSyms, hdrMagic, blkMagic, endMagic *)
Lemma bzip2_consts_ok :
  [Bzip2.Common.blockSize; Bzip2.Common.numBlockSyms; 6; 2; Bzip2.Common.maxPrefixBits; 258;
   Bzip2.Common.hdrMagic; Bzip2.Common.blkMagic; Bzip2.Common.endMagic] = Impl.bzip2_consts.
Proof. vm_compute. reflexivity. Qed.
Lemma brotli_ctx_lut0_ok : Brotli.Tables.ctx_lut0 = Impl.ctx_lut0. Proof. vm_compute. reflexivity. Qed.
Lemma brotli_ctx_lut1_ok : Brotli.Tables.ctx_lut1 = Impl.ctx_lut1. Proof. vm_compute. reflexivity. Qed.
Lemma brotli_ctx_lut2_ok : Brotli.Tables.ctx_lut2 = Impl.ctx_lut2. Proof. vm_compute. reflexivity. Qed.
Lemma brotli_dict_ndbits_ok : Brotli.Tables.dict_ndbits = Impl.dict_ndbits. Proof. vm_compute. reflexivity. Qed.
Lemma brotli_dict_offsets_ok : Brotli.Spec.dict_offsets = Impl.go_dict_offsets. Proof. vm_compute. reflexivity. Qed.
Lemma brotli_ins_ranges_ok : Brotli.Spec.ins_ranges = Impl.go_ins_ranges. Proof. vm_compute. reflexivity. Qed.
Lemma brotli_cpy_ranges_ok : Brotli.Spec.cpy_ranges = Impl.go_cpy_ranges. Proof. vm_compute. reflexivity. Qed.
Lemma brotli_blk_ranges_ok : Brotli.Spec.blk_ranges = Impl.go_blk_ranges. Proof. vm_compute. reflexivity. Qed.
Lemma brotli_clen_order_ok : Brotli.Spec.clen_order = Impl.go_clen_order. Proof. vm_compute. reflexivity. Qed.
Lemma brotli_transforms_ok : Brotli.Tables.transforms = Impl.transforms. Proof. vm_compute. reflexivity. Qed.

(* ========================================================================
   Tables DERIVED by the library at package initialisation (init / initLUTs /
   package-level closures) and used when decoding.  Each dumped table is
   proved equal to the tabulation, over the table's whole index domain, of
   the function the MODEL uses at the corresponding place (the models compute
   these things from formulas and tries, not from tables).
   ======================================================================== *)
(* no Import: these files define names (rbits, init, ...) that would shadow the ones used here *)
From V Require Prefix.ReaderImpl Bzip2.SpecR Brotli.Safe.

Definition iota (n : nat) : list N := map N.of_nat (seq 0 n).
Definition iota_from (a : nat) (n : nat) : list N := map N.of_nat (seq a n).

(* a Go slice index: out of range is [None] (a run-time panic), never a default *)
Definition idx {A} (l : list A) (i : N) : option A := nth_error l (N.to_nat i).

(* what a model decoder [p] does on the bit string "the [w] low bits of [v],
   least significant first" (= a Go bit buffer holding v): the value it
   returns and the number of bits it consumed; [None] if it fails *)
Definition obs {A} (p : prog A) (w : nat) (v : N) : option (A * N) :=
  match run p (ast_init (val_bits w v)) with
  | Done a s => Some (a, a_pos s)
  | Fail _ _ => None
  end.

(* ---- built prefix decoders ------------------------------------------------
   dump: (chunks, links, [chunkMask; linkMask; chunkBits; minBits; numSyms]).
   [go_lookup] is the table walk of ReadSymbol (brotli/bit_reader.go and
   internal/prefix/reader.go, identical): the symbol and bit count found for a
   bit buffer [v]; countBits = 5 in both packages. *)
Definition godec : Type := (list N * list (list N) * list N)%type.
Definition count_bits : N := 5.
Definition count_mask : N := 31.

Definition go_lookup (d : godec) (v : N) : option (N * N) :=
  match d with
  | (chunks, links, [chunkMask; linkMask; chunkBits; _; _]) =>
    match idx chunks (N.land v chunkMask) with
    | None => None
    | Some chunk =>
      let nb := N.land chunk count_mask in
      if chunkBits <? nb then
        match idx links (N.shiftr chunk count_bits) with
        | None => None
        | Some link =>
          match idx link (N.land (N.shiftr v chunkBits) linkMask) with
          | None => None
          | Some c2 => Some (N.shiftr c2 count_bits, N.land c2 count_mask)
          end
        end
      else Some (N.shiftr chunk count_bits, nb)
    end
  | _ => None
  end.

(* the decoder's parameters and table shapes as Init must leave them, computed
   from the MODEL's tabulation [tab] over all [w]-bit patterns (w = longest
   code): [chunkMask; linkMask; chunkBits; minBits; numSyms], number of
   chunks, length of each link table *)
Definition opt_list {A} (l : list (option A)) : list A :=
  flat_map (fun o => match o with Some a => [a] | None => [] end) l.
Definition count_distinct (l : list N) : N := N.of_nat (length (nodup N.eq_dec l)).

Definition model_shape (max_chunk_bits : N) (w : nat) (tab : list (option (N * N)))
  : list N * N * list N :=
  let sl := opt_list tab in
  let maxBits := fold_right (fun e acc => N.max (snd e) acc) 0 sl in
  let minBits := fold_right (fun e acc => N.min (snd e) acc) maxBits sl in
  let chunkBits := N.min maxBits max_chunk_bits in
  let linkMask := 2 ^ (maxBits - chunkBits) - 1 in
  (* one link table per distinct chunk index that starts a code longer than chunkBits *)
  let long := map (fun ve => fst ve mod 2 ^ chunkBits)
                  (filter (fun ve => match snd ve with Some (_, l) => chunkBits <? l | None => false end)
                          (combine (iota (Nat.pow 2 w)) tab)) in
  ([2 ^ chunkBits - 1; linkMask; chunkBits; minBits; count_distinct (map fst sl)],
   2 ^ chunkBits,
   repeat (linkMask + 1) (N.to_nat (count_distinct long))).

Definition go_shape (d : godec) : list N * N * list N :=
  let '(chunks, links, params) := d in
  (params, N.of_nat (length chunks), map (fun l => N.of_nat (length l)) links).

(* the whole check for one decoder: Go's walk finds, for EVERY bit pattern of
   the longest code's width, what the model decoder returns and consumes; the
   longest code has that width; parameters and shapes are as computed from the
   model *)
Definition dec_ok (d : godec) (w : nat) (tab : list (option (N * N))) : Prop :=
  map (go_lookup d) (iota (Nat.pow 2 w)) = tab /\
  go_shape d = model_shape 9 w tab /\
  existsb (fun o => match o with Some (_, l) => l =? N.of_nat w | None => false end) tab = true.

(* built encoders: (chunks, [chunkMask; numSyms]); WriteSymbol's lookup *)
Definition goenc : Type := (list N * list N)%type.
Definition go_enc (e : goenc) (sym : N) : option (N * N) :=     (* value, length *)
  match e with
  | (chunks, [chunkMask; _]) =>
    match idx chunks (N.land sym chunkMask) with
    | Some chunk => Some (N.shiftr chunk count_bits, N.land chunk count_mask)
    | None => None
    end
  | _ => None
  end.
(* every symbol's code, decoded by the model decoder [p], is that symbol, all bits used *)
Definition enc_ok (e : goenc) (p : prog N) (nsyms : nat) : bool :=
  forallb (fun sym => match go_enc e sym with
                      | Some (v, l) => match obs p (N.to_nat l) v with
                                       | Some (s, used) => (s =? sym) && (used =? l)
                                       | None => false
                                       end
                      | None => false
                      end) (iota nsyms)
  && match e with
     | (chunks, [chunkMask; numSyms]) =>
       (numSyms =? N.of_nat nsyms) && (N.of_nat (length chunks) =? chunkMask + 1)
       && (N.land chunkMask (chunkMask + 1) =? 0) && (N.of_nat nsyms <=? chunkMask + 1)
     | _ => false
     end.

Ltac tab_ok := vm_compute; repeat split; reflexivity.

(* ---- brotli: byte reversal, identity (brotli/common.go, internal/common.go) -- *)
(* [rev8] is the byte reversal of the bit-reader model (Prefix/ReaderImpl.v [ord]) *)
Lemma brotli_reverse_lut_ok : map Prefix.ReaderImpl.rev8 (iota 256) = Impl.br_reverse_lut.
Proof. tab_ok. Qed.
Lemma internal_reverse_lut_ok : map Prefix.ReaderImpl.rev8 (iota 256) = Impl.internal_reverse_lut.
Proof. tab_ok. Qed.
(* IdentityLUT is the start list of internal.MoveToFront (brotli's inverse move
   to front); decoding the index string 0,1,..,255 with the model's
   [inverse_mtf] reads the model's start list off position by position *)
Lemma internal_identity_lut_ok : inverse_mtf (iota 256) = Impl.internal_identity_lut.
Proof. tab_ok. Qed.

(* ---- brotli: insert-and-copy LUT (prefix.go initLengthLUTs) ------------------
   [command] decodes symbol -> [iac_codes] -> [nth_range ins_ranges] /
   [nth_range cpy_ranges]; iacLUT[sym] stores the two ranges. 704 entries. *)
Definition model_iac (sym : N) : (N * N) * (N * N) :=
  let '(icode, ccode) := iac_codes sym in
  (nth_range ins_ranges icode, nth_range cpy_ranges ccode).
Lemma brotli_iac_lut_ok : map model_iac (iota 704) = Impl.br_iac_lut.
Proof. tab_ok. Qed.

(* ---- brotli: short distance codes (distShortLUT) -----------------------------
   reader.go: dist = dists[rec.index] + rec.delta; dist <= 0 is corrupted.
   Outer [None] = index out of range (panic), inner [None] = corrupted. *)
Definition go_short_dist (e : N * Z) (r : ring) : option (option N) :=
  let '(d1, d2, d3, d4) := r in
  match idx [d1; d2; d3; d4] (fst e) with
  | None => None
  | Some d => let x := (Z.of_N d + snd e)%Z in
              Some (if (x <=? 0)%Z then None else Some (Z.to_N x))
  end.
(* for EVERY ring of last distances (all positive: the invariant [ring_pos] of
   Brotli/Safe.v; the Go ring too only ever holds accepted distances > 0), all
   16 codes *)
Lemma brotli_dist_short_lut_ok : forall r : ring, Brotli.Safe.ring_pos r ->
  map (fun e => go_short_dist e r) Impl.br_dist_short_lut
  = map (fun code => Some (short_dist code r)) (iota 16).
Proof.
  intros [[[d1 d2] d3] d4] (P1 & P2 & P3 & P4).
  replace (iota 16) with [0; 1; 2; 3; 4; 5; 6; 7; 8; 9; 10; 11; 12; 13; 14; 15]
    by (vm_compute; reflexivity).
  unfold Impl.br_dist_short_lut. cbn [map].
  repeat (apply (f_equal2 cons); [ | ]); try reflexivity;
    cbv - [N.ltb Z.leb N.sub N.add Z.add Z.of_N Z.to_N];
    repeat match goal with
           | |- context [(?a <=? ?b)%Z] => destruct (Z.leb_spec a b)
           | |- context [?a <? ?b] => destruct (N.ltb_spec a b)
           end; try lia; repeat f_equal; lia.
Qed.

(* ---- brotli: long distance codes (distLongLUT[NPOSTFIX]) ----------------------
   reader.go: rec := distLongLUT[npostfix][sym-16-ndirect];
   dist = ndirect + rec.base + ReadBits(rec.bits)<<npostfix.
   Model: [decode_distance] (formula of RFC section 4), RUN on 24 zero bits and
   on 24 one bits, with NDIRECT = 0 and NDIRECT = 15<<NPOSTFIX: the value
   returned and the number of bits consumed.  48<<NPOSTFIX entries each. *)
Definition model_dist_long (np nd i : N) : option (N * N) * option (N * N) :=
  let p := decode_distance np nd (16 + nd + i) (1, 1, 1, 1) in
  (obs p 24 0, obs p 24 (2 ^ 24 - 1)).
Definition go_dist_long (np nd : N) (e : N * N) : option (N * N) * option (N * N) :=
  let '(base, bits) := e in
  (Some (nd + base + N.shiftl 0 np, bits), Some (nd + base + N.shiftl (2 ^ bits - 1) np, bits)).
Lemma brotli_dist_long_lut_ok :
  map (fun np => map (fun i => (model_dist_long np 0 i, model_dist_long np (15 * 2 ^ np) i))
                     (iota (48 * Nat.pow 2 (N.to_nat np)))) [0; 1; 2; 3]
  = map (fun nt => map (fun e => (go_dist_long (fst nt) 0 e, go_dist_long (fst nt) (15 * 2 ^ fst nt) e))
                       (snd nt))
        (combine [0; 1; 2; 3] Impl.br_dist_long_lut)
  /\ length Impl.br_dist_long_lut = 4%nat.
Proof. tab_ok. Qed.

(* ---- brotli: the initial last distances (reader.go Reset) ----------------------
   the model's [brotli_prog] starts its meta-block loop with exactly this ring
   (equation checked by conversion) *)
Definition ring_of (l : list N) : option ring :=
  match l with [a; b; c; d] => Some (a, b, c, d) | _ => None end.
Lemma brotli_init_dists_ok : forall dict_byte inbits,
  option_map (fun r => wbits <- read_wbits ;;
                       loop (loop_depth inbits) (metablock dict_byte (2 ^ wbits - 16) inbits) r)
             (ring_of Impl.br_init_dists)
  = Some (brotli_prog dict_byte inbits).
Proof. reflexivity. Qed.

(* ---- brotli: literal context LUTs (context.go initContextLUTs) ---------------
   getLitContextID(p1, p2, mode) = contextP1LUT[mode<<8+p1] | contextP2LUT[mode<<8+p2];
   model: [lit_context mode p1 p2] (RFC section 7.1). *)
(* the two tables, 4*256 entries each: the model's context with the other byte 0 *)
Lemma brotli_context_p1_lut_ok :
  map (fun i => lit_context (i / 256) (i mod 256) 0) (iota 1024) = Impl.br_context_p1_lut.
Proof. tab_ok. Qed.
Lemma brotli_context_p2_lut_ok :
  map (fun i => lit_context (i / 256) 0 (i mod 256)) (iota 1024) = Impl.br_context_p2_lut.
Proof. tab_ok. Qed.
(* and the Go lookup formula on the WHOLE domain 4 x 256 x 256 *)
Definition go_lit_context (t1 t2 : nmap N) (mode p1 p2 : N) : option N :=
  let base := N.shiftl mode 8 in
  match nm_get t1 (base + p1), nm_get t2 (base + p2) with
  | Some a, Some b => Some (N.lor a b)
  | _, _ => None
  end.
Definition opt_eqb (a : option N) (b : N) : bool :=
  match a with Some x => x =? b | None => false end.
Lemma brotli_lit_context_ok :
  let t1 := nm_of_list Impl.br_context_p1_lut in
  let t2 := nm_of_list Impl.br_context_p2_lut in
  let bytes := iota 256 in
  forallb (fun mode => forallb (fun p1 => forallb (fun p2 =>
    opt_eqb (go_lit_context t1 t2 mode p1 p2) (lit_context mode p1 p2)) bytes) bytes) [0; 1; 2; 3]
  = true.
Proof. vm_compute. reflexivity. Qed.

(* ---- brotli: context map run lengths (maxRLERanges, reader.go readContextMap) -
   Go: n = ReadOffset(sym-1, maxRLERanges) = base + ReadBits(bits), sym = 1..16.
   Model: [cmap_body] (RFC section 7.3) RUN with a zero-bit code for [sym],
   RLEMAX = 16, on 16 zero bits and on 16 one bits: the number of zeros it
   emits and the bits it consumes. *)
Definition model_rle (sym w v : N) : option (N * N) :=
  let todo := 2 ^ 20 in
  match obs (cmap_body (HLeaf sym) 16 (todo, [])) (N.to_nat w) v with
  | Some (inl (todo', zeros), used) =>
    if (N.of_nat (length zeros) =? todo - todo') && forallb (N.eqb 0) zeros
    then Some (todo - todo', used) else None
  | _ => None
  end.
Lemma brotli_rle_ranges_ok :
  map (fun sym => (model_rle sym 16 0, model_rle sym 16 (2 ^ 16 - 1))) (iota_from 1 16)
  = map (fun e => (Some (fst e + 0, snd e), Some (fst e + (2 ^ snd e - 1), snd e))) Impl.go_rle_ranges.
Proof. tab_ok. Qed.

(* ---- brotli: dictionary word counts (dict.go initDictLUTs) -------------------
   Go: index = wordIdx % dictSizes[len]; model [dict_ref]: addr mod 2^NDBITS[len];
   lengths below 4 have no words ([dict_offsets_from]'s convention). *)
Lemma brotli_dict_sizes_ok :
  map (fun l => let nb := nthN dict_ndbits l in if nb =? 0 then 0 else 2 ^ nb) (iota 25)
  = Impl.br_dict_sizes.
Proof. tab_ok. Qed.

(* ---- brotli: simple prefix code lengths (simpleLens1..4b) --------------------
   Model: [read_simple_code] RUN on NSYM-1, NSYM distinct 8-bit symbols (in a
   non-sorted order), tree-select bit; the depth in the resulting trie of the
   i-th symbol read = the code length Go attaches to codes[i] before sorting. *)
Fixpoint tree_depth (t : htree) (s : N) : option N :=
  match t with
  | HEmpty => None
  | HLeaf x => if x =? s then Some 0 else None
  | HNode l r =>
    match tree_depth l s with
    | Some d => Some (d + 1)
    | None => option_map (N.add 1) (tree_depth r s)
    end
  end.
Definition model_simple_lens (nsym : nat) (sel : bool) : option (list (option N)) :=
  let syms := firstn nsym [200; 7; 131; 5] in
  let bits := val_bits 2 (N.of_nat nsym - 1) ++ flat_map (val_bits 8) syms ++ [sel] in
  match run (read_simple_code 256) (ast_init bits) with
  | Done t s =>
    (* the tree-select bit is read for NSYM = 4 only *)
    if a_pos s =? 2 + 8 * N.of_nat nsym + (if Nat.eqb nsym 4 then 1 else 0)
    then Some (map (tree_depth t) syms) else None
  | Fail _ _ => None
  end.
Lemma brotli_simple_lens_ok :
  [model_simple_lens 1 false; model_simple_lens 2 false; model_simple_lens 3 false;
   model_simple_lens 4 false; model_simple_lens 4 true]
  = map (fun l => Some (map Some l)) Impl.br_simple_lens.
Proof. tab_ok. Qed.

(* ---- brotli: the four fixed prefix codes and their built decoders ------------
   (prefix.go initPrefixCodeLUTs; prefix_decoder.go Init)
     decCLens   <-> [sym_or_corrupt clcl_tree]   (read_clcl, RFC 3.5)
     decMaxRLE  <-> the RLEMAX field read at the head of [read_context_map] (7.3)
     decWinBits <-> [read_wbits] (9.1); Go's symbol 0 = the reserved pattern,
                    which readStreamHeader rejects as corrupted
     decCounts  <-> [read_count] (9.2: NBLTYPES, NTREES)                        *)

(* prefixCountBits, prefixSymbolBits, prefixMaxChunkBits, maxPrefixBits: what
   [go_lookup] / [model_shape 9] assume of brotli's prefix_decoder.go *)
Lemma brotli_prefix_consts_ok : [count_bits; 27; 9; 15] = Impl.br_prefix_consts.
Proof. tab_ok. Qed.

(* the model reads RLEMAX inline; [rlemax_prog] is that fragment, and the
   equation below (checked by conversion) shows it IS the head of the model's
   [read_context_map] *)
Definition rlemax_prog : prog N :=
  b <- rbits 1 ;;
  if b =? 0 then Ret 0 else x <- rbits 4 ;; Ret (x + 1).
Lemma read_context_map_rlemax size ntrees :
  read_context_map size ntrees =
  (rlemax <- rlemax_prog ;;
   tree <- read_prefix_code (ntrees + rlemax) ;;
   cm <- loop (loop_depth size) (cmap_body tree rlemax) (size, []) ;;
   im <- rbits 1 ;;
   Ret (if im =? 1 then inverse_mtf cm else cm)).
Proof. reflexivity. Qed.

(* [read_wbits] with "corrupted" observed as Go's symbol 0 *)
Definition obs_wbits (w : nat) (v : N) : option (N * N) :=
  match run read_wbits (ast_init (val_bits w v)) with
  | Done a s => Some (a, a_pos s)
  | Fail ECorrupted s => Some (0, a_pos s)
  | Fail _ _ => None
  end.

Definition tabulate (ob : nat -> N -> option (N * N)) (w : nat) : list (option (N * N)) :=
  map (ob w) (iota (Nat.pow 2 w)).

Lemma brotli_dec_clens_ok :
  dec_ok Impl.br_dec_clens 4 (tabulate (obs (sym_or_corrupt clcl_tree)) 4).
Proof. tab_ok. Qed.
Lemma brotli_dec_maxrle_ok : dec_ok Impl.br_dec_maxrle 5 (tabulate (obs rlemax_prog) 5).
Proof. tab_ok. Qed.
Lemma brotli_dec_winbits_ok : dec_ok Impl.br_dec_winbits 7 (tabulate obs_wbits 7).
Proof. tab_ok. Qed.
(* 2048 patterns: 512 chunks and 64 link tables of 4 *)
Lemma brotli_dec_counts_ok : dec_ok Impl.br_dec_counts 11 (tabulate (obs read_count) 11).
Proof. tab_ok. Qed.

(* the code lists (symbol, value, length): every listed code word, fed to the
   model decoder, yields that symbol and is consumed entirely; symbols strictly
   increase (Init's requirement); there are as many codes as the model decoder
   has distinct outcomes *)
Fixpoint increasing (l : list N) : bool :=
  match l with
  | a :: (b :: _) as r => (a <? b) && increasing r
  | _ => true
  end.
Definition codes_ok (ob : nat -> N -> option (N * N)) (w : nat) (cs : list (N * N * N)) : bool :=
  forallb (fun c => let '(sym, val, len) := c in
                    match ob (N.to_nat len) val with
                    | Some (s, used) => (s =? sym) && (used =? len) && (val <? 2 ^ len)
                    | None => false
                    end) cs
  && increasing (map (fun c => fst (fst c)) cs)
  && (N.of_nat (length cs) =? count_distinct (map fst (opt_list (tabulate ob w)))).

Lemma brotli_code_clens_ok : codes_ok (obs (sym_or_corrupt clcl_tree)) 4 Impl.br_code_clens = true.
Proof. tab_ok. Qed.
Lemma brotli_code_maxrle_ok : codes_ok (obs rlemax_prog) 5 Impl.br_code_maxrle = true.
Proof. tab_ok. Qed.
Lemma brotli_code_winbits_ok : codes_ok obs_wbits 7 Impl.br_code_winbits = true.
Proof. tab_ok. Qed.
Lemma brotli_code_counts_ok : codes_ok (obs read_count) 11 Impl.br_code_counts = true.
Proof. tab_ok. Qed.

(* ---- flate: the fixed Huffman coders (flate/prefix.go decLit/decDist/encLit/encDist)
   model: [fixedLitTree] / [fixedDistTree], the tries [one_block] decodes
   fixed blocks with (RFC 1951 section 3.2.6); 512 and 32 chunks *)
Lemma flate_dec_lit_ok :
  dec_ok Impl.flate_dec_lit 9 (tabulate (obs (sym_or_corrupt fixedLitTree)) 9).
Proof. tab_ok. Qed.
Lemma flate_dec_dist_ok :
  dec_ok Impl.flate_dec_dist 5 (tabulate (obs (sym_or_corrupt fixedDistTree)) 5).
Proof. tab_ok. Qed.
(* encoders: symbol -> (value, length), 288 and 32 symbols *)
Lemma flate_enc_lit_ok : enc_ok Impl.flate_enc_lit (sym_or_corrupt fixedLitTree) 288 = true.
Proof. tab_ok. Qed.
Lemma flate_enc_dist_ok : enc_ok Impl.flate_enc_dist (sym_or_corrupt fixedDistTree) 32 = true.
Proof. tab_ok. Qed.

(* ---- xflate/internal/meta: decHuff / encHuff / oneBitsLUT (meta.go) ----------
   model decoder: [sym_walk 3 decHuff []] as called by [sym_body]; model
   encoder: the code bits at the head of [msym_bits]; bit count: [popcount8] *)
Definition obs_meta_sym (w : nat) (v : N) : option (N * N) :=
  match obs (sym_walk 3 Meta.Model.decHuff []) w v with
  | Some (Some s, used) => Some (s, used)
  | _ => None
  end.
Lemma meta_dec_huff_ok : dec_ok Impl.meta_dec_huff 3 (tabulate obs_meta_sym 3).
Proof. tab_ok. Qed.
Definition go_enc_bits (e : goenc) (sym : N) : option (list bool) :=
  match go_enc e sym with Some (v, l) => Some (val_bits (N.to_nat l) v) | None => None end.
Lemma meta_enc_huff_ok :
  map (go_enc_bits Impl.meta_enc_huff) [0; 1; 2; 3]
  = [Some (msym_bits MZero); Some (msym_bits MOne);
     Some (firstn 3 (msym_bits (MRepLast 0))); Some (firstn 3 (msym_bits (MRepZero 0)))]
  /\ snd Impl.meta_enc_huff = [3; 4] /\ length (fst Impl.meta_enc_huff) = 4%nat.
Proof. tab_ok. Qed.
Lemma meta_one_bits_lut_ok : map popcount8 (iota 256) = Impl.meta_one_bits_lut.
Proof. tab_ok. Qed.

(* ---- bzip2: selector coders (bzip2/prefix.go decSel/encSel) -------------------
   model: [read_unary 6 0] as called by [read_sel] (bits in stream order; the
   big-endian prefix.Reader presents the first stream bit as bit 0) *)
Lemma bzip2_dec_sel_ok :
  dec_ok Impl.bzip2_dec_sel 6 (tabulate (obs (Bzip2.SpecR.read_unary 6 0)) 6).
Proof. tab_ok. Qed.
Lemma bzip2_enc_sel_ok : enc_ok Impl.bzip2_enc_sel (Bzip2.SpecR.read_unary 6 0) 7 = true.
Proof. tab_ok. Qed.

(* ---- bzip2: block CRC (bzip2/common.go crc.update) ----------------------------
   The package stores no CRC table: it drives hash/crc32's IEEE table with
   bit-reversed bytes and state.  Its effective table is determined by the
   checksums of the 256 one-byte blocks, computed by crc.update itself; they
   equal the model's [bz_crc], and the model's table [crc_table] (BZ2_crc32Table)
   is recovered from them entry by entry. *)
Lemma bzip2_crc1_ok : map (fun b => bz_crc [b]) (iota 256) = Impl.bzip2_crc1.
Proof. tab_ok. Qed.
Lemma bzip2_crc_table_ok :
  map (fun j => nm_get crc_table j) (iota 256)
  = map (fun j => option_map (fun c => N.lxor c 255) (idx Impl.bzip2_crc1 (N.lxor j 255))) (iota 256).
Proof. tab_ok. Qed.
