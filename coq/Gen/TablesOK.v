(* Tie (i): the tables and constants dumped from /repo's working tree
   (Gen/ImplTables.v, regenerated on every run) are equal to the definitions
   the models use. Each equality is checked by computation in the kernel. *)
From V Require Import Base.Prelude Base.Prog Meta.Model Flate.Spec XFlate.Index XFlate.Writer XFlate.Reader
  Bzip2.Common Brotli.Tables Brotli.Spec Gen.ImplTables.

Lemma flate_lenRanges_ok : Flate.Spec.lenRanges = Impl.flate_lenRanges.
Proof. vm_compute. reflexivity. Qed.
Lemma flate_distRanges_ok : Flate.Spec.distRanges = Impl.flate_distRanges.
Proof. vm_compute. reflexivity. Qed.
Lemma flate_clenLens_ok : Flate.Spec.clenLens = Impl.flate_clenLens.
Proof. vm_compute. reflexivity. Qed.
(* maxHistSize, initSize, growFactor, endBlockSym, maxNumLitSyms, maxNumDistSyms, maxNumCLenSyms, maxPrefixBits *)
Lemma flate_consts_ok :
  [Flate.Spec.maxHistSize; 4096; 4; 256; Flate.Spec.maxNumLitSyms; Flate.Spec.maxNumDistSyms;
   Flate.Spec.maxNumCLenSyms; 15] = Impl.flate_consts.
Proof. vm_compute. reflexivity. Qed.
(* magicVals, magicMask, maxSyms, min/maxHuffLen, min/maxRepLast, min/maxRepZero, Min/MaxRawBytes, Min/MaxEncBytes, EnsureRawBytes *)
Lemma meta_consts_ok :
  [Meta.Model.magicVals; Meta.Model.magicMask; Meta.Model.maxSyms; 1; 7; 3; 6; 11; 138; 0;
   Meta.Model.MaxRawBytes; 12; XFlate.Reader.MaxEncBytes; Meta.Model.EnsureRawBytes] = Impl.meta_consts.
Proof. vm_compute. reflexivity. Qed.
Lemma xflate_magic_ok : XFlate.Reader.xf_magic = Impl.xflate_magic.
Proof. vm_compute. reflexivity. Qed.
Lemma xflate_endBlock_ok : XFlate.Reader.endBlock = Impl.xflate_endBlock.
Proof. vm_compute. reflexivity. Qed.
Lemma xflate_defaults_ok :
  [XFlate.Writer.DefaultChunkSize; Z.to_N XFlate.Writer.DefaultIndexSize] = Impl.xflate_defaults.
Proof. vm_compute. reflexivity. Qed.
(* blockSize, numBlockSyms, maxNumTrees, minNumTrees, maxPrefixBits, maxNumSyms, hdrMagic, blkMagic, endMagic *)
Lemma bzip2_consts_ok :
  [Bzip2.Common.blockSize; Bzip2.Common.numBlockSyms; 6; 2; Bzip2.Common.maxPrefixBits; 258;
   Bzip2.Common.hdrMagic; Bzip2.Common.blkMagic; Bzip2.Common.endMagic] = Impl.bzip2_consts.
Proof. vm_compute. reflexivity. Qed.
Lemma brotli_ctx_lut0_ok : Brotli.Tables.ctx_lut0 = Impl.ctx_lut0. Proof. vm_compute. reflexivity. Qed.
Lemma brotli_ctx_lut1_ok : Brotli.Tables.ctx_lut1 = Impl.ctx_lut1. Proof. vm_compute. reflexivity. Qed.
Lemma brotli_ctx_lut2_ok : Brotli.Tables.ctx_lut2 = Impl.ctx_lut2. Proof. vm_compute. reflexivity. Qed.
Lemma brotli_dict_ndbits_ok : Brotli.Tables.dict_ndbits = Impl.dict_ndbits. Proof. vm_compute. reflexivity. Qed.
Lemma brotli_dict_offsets_ok : Brotli.Spec.dict_offsets = Impl.go_dict_offsets. Proof. vm_compute. reflexivity. Qed.
Lemma brotli_ins_ranges_ok : Brotli.Spec.ins_ranges = Impl.go_ins_ranges. Proof. vm_compute. reflexivity. Qed.
Lemma brotli_cpy_ranges_ok : Brotli.Spec.cpy_ranges = Impl.go_cpy_ranges. Proof. vm_compute. reflexivity. Qed.
Lemma brotli_blk_ranges_ok : Brotli.Spec.blk_ranges = Impl.go_blk_ranges. Proof. vm_compute. reflexivity. Qed.
Lemma brotli_clen_order_ok : Brotli.Spec.clen_order = Impl.go_clen_order. Proof. vm_compute. reflexivity. Qed.
Lemma brotli_transforms_ok : Brotli.Tables.transforms = Impl.transforms. Proof. vm_compute. reflexivity. Qed.
