(* Layer (d), the pure parts: transformWord / transformUppercase as written in transform.go
   (Brotli/Impl.v transform_word) are the word transformations of RFC 7932 section 8
   (Brotli/Spec.v transform_word) for every word of at most 24 bytes and every transform id;
   the distance tables derived by initLengthLUTs (dist_short_rec, dist_long_rec) compute the
   distances of RFC 7932 section 4 (short_dist, decode_distance). *)
From V Require Import Base.Prelude Base.Prog Flate.Spec Bzip2.Common
  Prefix.DecTable Brotli.Tables Brotli.Spec Brotli.Safe Brotli.Impl.
From Coq Require Import ZifyBool ZifyN ZifyNat.

Local Open Scope N_scope.
Local Ltac Zify.zify_post_hook ::= idtac.

(* ---- transformUppercase ------------------------------------------------------------------------------ *)
Lemma set_nth_app (pre : list byte) x rest v : set_nth (pre ++ x :: rest) (length pre) v = pre ++ v :: rest.
Proof.
  unfold set_nth. rewrite firstn_app, firstn_all, Nat.sub_diag. cbn [firstn]. rewrite app_nil_r.
  f_equal. replace (S (length pre)) with (length pre + 1)%nat by lia.
  rewrite skipn_app, skipn_all2 by lia. cbn [app].
  replace (length pre + 1 - length pre)%nat with 1%nat by lia. reflexivity.
Qed.

Lemma nth_app_at (pre : list byte) x rest : nth (length pre) (pre ++ x :: rest) 0 = x.
Proof. rewrite app_nth2 by lia. rewrite Nat.sub_diag. reflexivity. Qed.

Lemma upper_loop_all : forall fuel pre rest, (length rest < fuel)%nat ->
  upper_loop fuel (pre ++ rest) (length pre) false = pre ++ upper_all rest.
Proof.
  induction fuel as [|f IH]; intros pre rest Hf; [lia|].
  cbn [upper_loop]. destruct rest as [|c r].
  - cbn [upper_all]. rewrite app_nil_r. replace (Nat.ltb (length pre) (length pre)) with false by (symmetry; apply Nat.ltb_irrefl).
    reflexivity.
  - replace (Nat.ltb (length pre) (length (pre ++ c :: r))) with true
      by (symmetry; apply Nat.ltb_lt; rewrite app_length; cbn [length]; lia).
    rewrite nth_app_at. cbn [upper_all]. cbn [length] in Hf.
    destruct (c <? 192) eqn:E1.
    + assert (Eup : (if (97 <=? c) && (c <=? 122) then set_nth (pre ++ c :: r) (length pre) (N.lxor c 32)
                     else pre ++ c :: r) = (pre ++ [up_ascii c]) ++ r).
      { unfold up_ascii. destruct ((97 <=? c) && (c <=? 122)); [rewrite set_nth_app|];
          rewrite <- app_assoc; reflexivity. }
      rewrite Eup. replace (length pre + 1)%nat with (length (pre ++ [up_ascii c])) by (rewrite app_length; reflexivity).
      rewrite IH by lia. rewrite <- app_assoc. reflexivity.
    + destruct (c <? 224) eqn:E2.
      * destruct r as [|y r2].
        -- replace (Nat.ltb (length pre + 1) (length (pre ++ [c]))) with false
             by (symmetry; apply Nat.ltb_ge; rewrite app_length; cbn [length]; lia).
           destruct f as [|f]; [lia|]. cbn [upper_loop].
           replace (Nat.ltb (length pre + 2) (length (pre ++ [c]))) with false
             by (symmetry; apply Nat.ltb_ge; rewrite app_length; cbn [length]; lia).
           reflexivity.
        -- replace (Nat.ltb (length pre + 1) (length (pre ++ c :: y :: r2))) with true
             by (symmetry; apply Nat.ltb_lt; rewrite app_length; cbn [length]; lia).
           replace (pre ++ c :: y :: r2) with ((pre ++ [c]) ++ y :: r2) by (rewrite <- app_assoc; reflexivity).
           replace (length pre + 1)%nat with (length (pre ++ [c])) by (rewrite app_length; reflexivity).
           rewrite nth_app_at, set_nth_app.
           replace ((pre ++ [c]) ++ N.lxor y 32 :: r2) with ((pre ++ [c; N.lxor y 32]) ++ r2)
             by (rewrite <- !app_assoc; reflexivity).
           replace (length pre + 2)%nat with (length (pre ++ [c; N.lxor y 32])) by (rewrite app_length; cbn [length]; lia).
           cbn [length] in Hf. rewrite IH by lia. rewrite <- app_assoc. reflexivity.
      * destruct r as [|y [|z r3]].
        -- replace (Nat.ltb (length pre + 2) (length (pre ++ [c]))) with false
             by (symmetry; apply Nat.ltb_ge; rewrite app_length; cbn [length]; lia).
           destruct f as [|f]; [lia|]. cbn [upper_loop].
           replace (Nat.ltb (length pre + 3) (length (pre ++ [c]))) with false
             by (symmetry; apply Nat.ltb_ge; rewrite app_length; cbn [length]; lia).
           reflexivity.
        -- replace (Nat.ltb (length pre + 2) (length (pre ++ [c; y]))) with false
             by (symmetry; apply Nat.ltb_ge; rewrite app_length; cbn [length]; lia).
           destruct f as [|f]; [cbn [length] in Hf; lia|]. cbn [upper_loop].
           replace (Nat.ltb (length pre + 3) (length (pre ++ [c; y]))) with false
             by (symmetry; apply Nat.ltb_ge; rewrite app_length; cbn [length]; lia).
           reflexivity.
        -- replace (Nat.ltb (length pre + 2) (length (pre ++ c :: y :: z :: r3))) with true
             by (symmetry; apply Nat.ltb_lt; rewrite app_length; cbn [length]; lia).
           replace (pre ++ c :: y :: z :: r3) with ((pre ++ [c; y]) ++ z :: r3) by (rewrite <- app_assoc; reflexivity).
           replace (length pre + 2)%nat with (length (pre ++ [c; y])) by (rewrite app_length; cbn [length]; lia).
           rewrite nth_app_at, set_nth_app.
           replace ((pre ++ [c; y]) ++ N.lxor z 5 :: r3) with ((pre ++ [c; y; N.lxor z 5]) ++ r3)
             by (rewrite <- !app_assoc; reflexivity).
           replace (length pre + 3)%nat with (length (pre ++ [c; y; N.lxor z 5])) by (rewrite app_length; cbn [length]; lia).
           cbn [length] in Hf. rewrite IH by lia. rewrite <- app_assoc. reflexivity.
Qed.

Lemma transform_uppercase_all w : transform_uppercase w false = upper_all w.
Proof. unfold transform_uppercase. apply (upper_loop_all (S (length w)) [] w). lia. Qed.

Lemma transform_uppercase_first w : transform_uppercase w true = upper_first w.
Proof.
  unfold transform_uppercase. cbn [upper_loop]. destruct w as [|c r]; [reflexivity|].
  cbn [length nth upper_first]. replace (Nat.ltb 0 (S (length r))) with true by reflexivity.
  destruct (c <? 192).
  - unfold up_ascii. destruct ((97 <=? c) && (c <=? 122)); reflexivity.
  - destruct (c <? 224).
    + destruct r as [|y r2]; reflexivity.
    + destruct r as [|y [|z r3]]; reflexivity.
Qed.

(* ---- transformWord -------------------------------------------------------------------------------------- *)
Lemma transforms_short : forallb (fun t => let '(pre, x, suf) := t in
                            Nat.leb (length pre) 5 && Nat.leb (length suf) 8) transforms = true.
Proof. vm_compute. reflexivity. Qed.

Lemma bcopy_fit acc src : (length acc + length src <= maxWordSize)%nat -> bcopy acc src = acc ++ src.
Proof. intros H. unfold bcopy. rewrite firstn_all2 by lia. reflexivity. Qed.

Lemma apply_xform_length x w : (length (apply_xform x w) <= length w)%nat.
Proof.
  destruct x as [| | |n|n]; cbn [apply_xform]; try lia.
  - destruct w as [|c r]; cbn [upper_first length]; [lia|].
    destruct (c <? 192); [cbn [length]; lia|]. destruct (c <? 224).
    + destruct r as [|y r2]; cbn [length]; lia.
    + destruct r as [|y [|z r3]]; cbn [length]; lia.
  - assert (H : forall n l, (length l <= n)%nat -> (length (upper_all l) <= length l)%nat).
    { induction n as [|n IH]; intros l Hl; [destruct l; cbn in *; lia|].
      destruct l as [|c r]; cbn [upper_all length]; [lia|]. cbn [length] in Hl.
      destruct (c <? 192); [cbn [length]; specialize (IH r ltac:(lia)); lia|].
      destruct (c <? 224).
      - destruct r as [|y r2]; cbn [length] in *; [lia|]. specialize (IH r2 ltac:(lia)). lia.
      - destruct r as [|y [|z r3]]; cbn [length] in *; try lia. specialize (IH r3 ltac:(lia)). lia. }
    apply (H (length w)). lia.
  - rewrite skipn_length. lia.
  - rewrite firstn_length. lia.
Qed.

Theorem transform_word_eq word tid : tid < 121 -> (length word <= 24)%nat ->
  Brotli.Impl.transform_word word tid = Some (Brotli.Spec.transform_word tid word).
Proof.
  intros Ht Hw. unfold Brotli.Impl.transform_word, Brotli.Spec.transform_word.
  assert (Hlen : length transforms = 121%nat) by (vm_compute; reflexivity).
  destruct (nth_error transforms (N.to_nat tid)) as [[[pre x] suf]|] eqn:En.
  2:{ apply nth_error_None in En. lia. }
  rewrite (nth_error_nth _ _ _ En).
  pose proof transforms_short as Hs. rewrite forallb_forall in Hs.
  specialize (Hs _ (nth_error_In _ _ En)). cbv beta iota in Hs.
  apply andb_true_iff in Hs as [Hp Hsf]. apply Nat.leb_le in Hp. apply Nat.leb_le in Hsf.
  unfold maxWordSize in *. rewrite (bcopy_fit [] pre) by (cbn [length]; unfold maxWordSize; lia). cbn [app].
  pose proof (apply_xform_length x word) as Hx.
  assert (Hfin : forall mid, (length mid <= 24)%nat -> bcopy (pre ++ mid) suf = pre ++ mid ++ suf).
  { intros mid Hm. rewrite bcopy_fit by (rewrite app_length; unfold maxWordSize; lia).
    rewrite app_assoc. reflexivity. }
  destruct x as [| | |cut|cut]; cbn [apply_xform] in *.
  - rewrite (bcopy_fit pre word) by (unfold maxWordSize; lia). rewrite Hfin by lia. reflexivity.
  - replace (Nat.ltb (38 - length pre) (length word)) with false by (symmetry; apply Nat.ltb_ge; lia).
    rewrite transform_uppercase_first, Hfin by lia. reflexivity.
  - replace (Nat.ltb (38 - length pre) (length word)) with false by (symmetry; apply Nat.ltb_ge; lia).
    rewrite transform_uppercase_all, Hfin by lia. reflexivity.
  - destruct (Nat.ltb_spec cut (length word)) as [Hlt|Hge].
    + rewrite (bcopy_fit pre (skipn cut word)) by (rewrite skipn_length; unfold maxWordSize; lia). rewrite Hfin by lia. reflexivity.
    + rewrite skipn_all2 by lia. rewrite <- (app_nil_r pre) at 1. rewrite Hfin by (cbn; lia). reflexivity.
  - destruct (Nat.ltb_spec cut (length word)) as [Hlt|Hge].
    + rewrite (bcopy_fit pre (firstn (length word - cut) word)) by (rewrite firstn_length; unfold maxWordSize; lia). rewrite Hfin by lia. reflexivity.
    + replace (length word - cut)%nat with 0%nat by lia. cbn [firstn].
      rewrite <- (app_nil_r pre) at 1. rewrite Hfin by (cbn; lia). reflexivity.
Qed.

(* ---- distances ------------------------------------------------------------------------------------------------ *)
Definition zring (r : ring) : Z * Z * Z * Z :=
  let '(d1, d2, d3, d4) := r in (Z.of_N d1, Z.of_N d2, Z.of_N d3, Z.of_N d4).

(* distShortLUT as derived by initLengthLUTs (the same list as Gen/ImplTables.v br_dist_short_lut) *)
Lemma dist_short_table :
  map dist_short_rec (map N.of_nat (seq 0 16)) =
  [(0, 0%Z); (1, 0%Z); (2, 0%Z); (3, 0%Z); (0, (-1)%Z); (0, 1%Z); (0, (-2)%Z); (0, 2%Z); (0, (-3)%Z); (0, 3%Z);
   (1, (-1)%Z); (1, 1%Z); (1, (-2)%Z); (1, 2%Z); (1, (-3)%Z); (1, 3%Z)].
Proof. vm_compute. reflexivity. Qed.

(* distShortLUT against the sixteen short codes of RFC 7932 section 4 *)
Lemma dist_short_ok code r : code < 16 -> ring_pos r ->
  exists v, ring_get (zring r) (fst (dist_short_rec code)) = Some v /\
    match short_dist code r with
    | Some d => (v + snd (dist_short_rec code))%Z = Z.of_N d /\ 0 < d
    | None => (v + snd (dist_short_rec code) <= 0)%Z
    end.
Proof.
  intros Hc Hpos. destruct r as [[[d1 d2] d3] d4]. destruct Hpos as (P1 & P2 & P3 & P4).
  assert (Hcases : code = 0 \/ code = 1 \/ code = 2 \/ code = 3 \/ code = 4 \/ code = 5 \/ code = 6 \/ code = 7 \/
                   code = 8 \/ code = 9 \/ code = 10 \/ code = 11 \/ code = 12 \/ code = 13 \/ code = 14 \/ code = 15) by lia.
  unfold short_dist, dsub.
  destruct Hcases as [H|[H|[H|[H|[H|[H|[H|[H|[H|[H|[H|[H|[H|[H|[H|H]]]]]]]]]]]]]]];
    subst code; vm_compute dist_short_rec;
    cbv [fst snd zring ring_get N.eqb Pos.eqb nth N.to_nat Pos.to_nat Pos.iter_op Nat.add];
    eexists; (split; [reflexivity|]);
    try (split; lia);
    try (match goal with |- context [?k <? ?a] => destruct (N.ltb_spec k a) end; lia).
Qed.

(* distLongLUT[npostfix] against the formula of RFC 7932 section 4 *)
Lemma dist_long_ok np x : np < 4 -> x < 48 * 2 ^ np ->
  let hcode := x / 2 ^ np in
  let lcode := x mod 2 ^ np in
  let nb := 1 + x / 2 ^ (np + 1) in
  let offset := (2 + hcode mod 2) * 2 ^ nb - 4 in
  dist_long_rec np x = Some (offset * 2 ^ np + lcode + 1, nb) /\ nb <= 24.
Proof.
  intros Hnp Hx. cbv zeta. unfold dist_long_rec.
  replace (x <? 48 * 2 ^ np) with true by (symmetry; apply N.ltb_lt; exact Hx).
  assert (Hp : 1 <= 2 ^ np <= 8).
  { split; [pose proof (N.pow_nonzero 2 np); lia|]. change 8 with (2 ^ 3). apply N.pow_le_mono_r; lia. }
  rewrite !N.shiftr_div_pow2, !N.shiftl_mul_pow2.
  assert (El1 : forall a, N.land a 1 = a mod 2) by (intros a; change 1 with (N.ones 1); apply N.land_ones).
  rewrite El1.
  replace (2 ^ np - 1) with (N.ones np) by (rewrite N.ones_equiv; lia). rewrite N.land_ones.
  set (nb := 1 + x / 2 ^ (np + 1)).
  assert (Hq : x / 2 ^ (np + 1) < 24).
  { apply N.div_lt_upper_bound; [apply N.pow_nonzero; lia|]. rewrite N.pow_add_r. change (2 ^ 1) with 2. lia. }
  assert (Hnb : nb <= 24) by (unfold nb; lia).
  assert (Hpn : 2 ^ nb <= 2 ^ 24) by (apply N.pow_le_mono_r; lia).
  assert (Hpn2 : 2 <= 2 ^ nb).
  { change 2 with (2 ^ 1) at 1. apply N.pow_le_mono_r; unfold nb; lia. }
  assert (Hm2 : (x / 2 ^ np) mod 2 < 2) by (apply N.mod_lt; lia).
  assert (Hl : x mod 2 ^ np < 2 ^ np) by (apply N.mod_lt; lia).
  set (offset := (2 + (x / 2 ^ np) mod 2) * 2 ^ nb - 4).
  assert (Hoff : offset <= 3 * 2 ^ 24) by (unfold offset; nia).
  split; [|exact Hnb]. f_equal. f_equal.
  - unfold w32. apply N.mod_small. change (2 ^ 32) with 4294967296. change (2 ^ 24) with 16777216 in *. nia.
  - unfold w32. apply N.mod_small. change (2 ^ 32) with 4294967296. lia.
Qed.
